package main

// C19 leg C — sessions. A session is a sequence of definition forms with unique names. It is
// evaluated in a fresh worker process (W1), a snapshot is taken; a second fresh process (W2) loads
// the snapshot file and takes a snapshot again. Checked:
//   unreadable      (load "snapshot") fails — attributed to the first top-level form that fails
//   not-equal       a probe (variable value, function call, message send, …) answers differently
//   not-fixed-point the second snapshot's text differs from the first (header line excluded)
//   order           a flavor is written before a flavor it inherits from
//   host-fault      a worker process died or (snapshot nil) itself failed
// Sweep cells: one session per definition kind/variant (seed independent). Composite sessions:
// random sequences of definitions that avoid the variants listed in findings/C19.json.

import (
	"encoding/json"
	"fmt"
	"math"
	"os"
	"path/filepath"
	"regexp"
	"strconv"
	"strings"
	"sync"
	"time"

	"verif/harness/lib"
)

type c19Def struct {
	Kind   string   `json:"kind"`    // defvar defparameter defconstant defun defmacro defflavor defclass defgeneric defpackage
	Tags   []string `json:"tags"`    // the variants (sweep cell names) this definition is an instance of
	Name   string   `json:"name"`    //
	Forms  []string `json:"forms"`   //
	Probes []string `json:"probes"`  //
	Deps   []string `json:"deps"`    // flavors, classes, packages: direct components / superclasses / used packages
	Needs  []string `json:"needs"`   // <operator>=<name>: definitions the value / the methods of this definition need when loaded
	Arity  int      `json:"arity"`   // defun: number of required integer arguments
	IntVal bool     `json:"int_val"` // defvar/defparameter/defconstant: holds an integer
}

type c19Session struct {
	Cell string   `json:"cell"` // sweep cell ("" for composite)
	Defs []c19Def `json:"defs"`
}

func (s *c19Session) forms() (out []string) {
	for _, d := range s.Defs {
		out = append(out, d.Forms...)
	}
	return
}

func (s *c19Session) probes() (out []string, owner []int) {
	for i, d := range s.Defs {
		for _, p := range d.Probes {
			out = append(out, p)
			owner = append(owner, i)
		}
	}
	return
}

// ---------------------------------------------------------------------------------------------
// sweep cells

func c19D(kind, name string, forms []string, probes ...string) c19Def {
	return c19Def{Kind: kind, Name: name, Forms: forms, Probes: probes}
}

func c19SessionSweep() []c19Session {
	var out []c19Session
	add := func(cell string, defs ...c19Def) {
		for i := range defs {
			defs[i].Tags = append(defs[i].Tags, cell)
		}
		out = append(out, c19Session{Cell: cell, Defs: defs})
	}
	one := func(kind, cell, name, form string, probes ...string) {
		add(kind+"/"+cell, c19D(kind, name, []string{form}, probes...))
	}
	add("empty/empty")
	// --- variables, by kind of value
	vals := []struct{ cell, expr string }{
		{"fixnum", "42"}, {"bignum", "123456789012345678901234567890"}, {"ratio", "-7/3"}, {"double-float", "1.5"},
		{"string", "\"a string\""}, {"string-escapes", "\"q\\\"uote and back\\\\slash\""}, {"string-newline", "\"two\nlines\""},
		{"character", "#\\a"}, {"symbol", "'sym"}, {"keyword", ":key"}, {"nil", "nil"}, {"t", "t"},
		{"list", "'(1 \"two\" 3.5)"}, {"list-of-symbols", "'(a b (c d))"}, {"dotted-list", "'(a . b)"}, {"quoted-form", "'(quote x)"},
		{"vector", "(vector 1 2 'x)"}, {"vector-literal", "#(1 (a b) \"s\")"}, {"array-2d", "(make-array '(2 2) :initial-contents '((1 2) (a b)))"},
		{"hash-table", "(let ((h (make-hash-table))) (setf (gethash 'k h) 'val) (setf (gethash \"s\" h) '(1 2)) (setf (gethash 3 h) \"three\") h)"},
		{"empty-hash-table", "(make-hash-table)"},
		{"lambda", "(lambda (x) (* x 2))"}, {"list-with-vector", "(list 1 (vector 2 3))"}, {"list-with-hash-table", "(list 1 (make-hash-table))"},
	}
	probeOf := func(cell, name string) []string {
		switch cell {
		case "hash-table":
			return []string{fmt.Sprintf("(hash-table-count %s)", name), fmt.Sprintf("(gethash 'k %s)", name), fmt.Sprintf("(gethash \"s\" %s)", name), fmt.Sprintf("(gethash 3 %s)", name)}
		case "empty-hash-table":
			return []string{fmt.Sprintf("(hash-table-count %s)", name)}
		case "lambda":
			return []string{fmt.Sprintf("(funcall %s 4)", name)}
		case "list-with-hash-table":
			return []string{fmt.Sprintf("(car %s)", name), fmt.Sprintf("(hash-table-count (cadr %s))", name)}
		}
		return []string{name, fmt.Sprintf("(type-of %s)", name)}
	}
	for _, v := range vals {
		one("defvar", v.cell, "zqv", fmt.Sprintf("(defvar zqv %s)", v.expr), probeOf(v.cell, "zqv")...)
	}
	one("defvar", "with-doc", "zqv", "(defvar zqv 7 \"Seven is the value.\")", "zqv", "(documentation 'zqv 'variable)")
	one("defvar", "unbound", "zqv", "(defvar zqv)", "(boundp 'zqv)")
	one("defvar", "setq-later", "zqv", "(progn (defvar zqv 1) (setq zqv '(changed 2)))", "zqv")
	one("defparameter", "fixnum", "zqp", "(defparameter zqp 12 \"Twelve.\")", "zqp", "(documentation 'zqp 'variable)")
	one("defparameter", "list", "zqp", "(defparameter zqp '(a 1 \"s\"))", "zqp")
	for _, v := range vals[:16] {
		one("defconstant", v.cell, "zqc", fmt.Sprintf("(defconstant zqc %s)", v.expr), "zqc")
	}
	one("defconstant", "with-doc", "zqc", "(defconstant zqc 99 \"Ninety nine.\")", "zqc", "(documentation 'zqc 'variable)")
	// --- functions
	fn := func(cell, form string, probes ...string) { one("defun", cell, "zqf", form, probes...) }
	fn("simple", "(defun zqf (x) (+ x 1))", "(zqf 1)", "(zqf -5)")
	fn("optional", "(defun zqf (x &optional (y 2) z) (list x y z))", "(zqf 1)", "(zqf 1 5)", "(zqf 1 5 6)")
	fn("key", "(defun zqf (x &key (k 3) (s 'sym) l) (list x k s l))", "(zqf 1)", "(zqf 1 :k 4 :l '(9))")
	fn("rest", "(defun zqf (x &rest more) (cons x more))", "(zqf 1)", "(zqf 1 2 3)")
	fn("no-args", "(defun zqf () 'constant)", "(zqf)")
	fn("doc", "(defun zqf (x) \"Adds one.\" (+ x 1))", "(zqf 1)", "(documentation 'zqf 'function)")
	fn("doc-long", "(defun zqf (x) \"A documentation string that is quite long and will certainly not fit on one line because it is much longer than one hundred and twenty characters.\" (+ x 1))",
		"(zqf 1)", "(documentation 'zqf 'function)")
	fn("doc-quote", "(defun zqf (x) \"Says \\\"hello\\\" twice.\" x)", "(zqf 1)", "(documentation 'zqf 'function)")
	fn("doc-underscore", "(defun zqf (x) \"Returns _x_ as it is.\" x)", "(zqf 1)", "(documentation 'zqf 'function)")
	fn("doc-newline", "(defun zqf (x) \"First line.\nSecond line.\" x)", "(zqf 1)", "(documentation 'zqf 'function)")
	fn("let-cond", "(defun zqf (x) (let ((acc 0) (l nil)) (dotimes (i x) (setq acc (+ acc i)) (setq l (cons i l))) (cond ((> acc 10) (list 'big acc l)) ((= acc 0) \"zero\") (t (list acc)))))",
		"(zqf 0)", "(zqf 3)", "(zqf 7)")
	fn("quoted-data", "(defun zqf (x) (list 'a '(b \"c\" 1.5 (d . e)) :k #\\z x))", "(zqf 1)")
	fn("function-ref", "(defun zqf (&rest r) (apply #'+ r))", "(zqf 1 2 3)")
	fn("lambda-inside", "(defun zqf (l) (mapcar (lambda (e) (* e e)) l))", "(zqf '(1 2 3))")
	fn("recursive", "(defun zqf (n) (if (<= n 1) 1 (* n (zqf (1- n)))))", "(zqf 5)", "(zqf 20)")
	fn("string-ops", "(defun zqf (s n) (format nil \"~A-~D ~S\" s n (list s)))", "(zqf \"a\" 1)")
	fn("block-return", "(defun zqf (l) (block found (dolist (e l) (when (> e 2) (return-from found e))) 'none))", "(zqf '(1 2 3 4))", "(zqf '(1))")
	fn("backquote", "(defun zqf (a b) `(x ,a ,@b))", "(zqf 1 '(2 3))")
	fn("redefined", "(progn (defun zqf (x) 'first) (defun zqf (x y) (list 'second x y)))", "(zqf 1 2)")
	add("defun/calls-earlier", c19D("defun", "zqf1", []string{"(defun zqf1 (x) (* x 3))"}, "(zqf1 2)"),
		c19D("defun", "zqf2", []string{"(defun zqf2 (y) (+ (zqf1 y) 1))"}, "(zqf2 2)"))
	add("defun/forward-reference", c19D("defun", "zqfz", []string{"(defun zqfz (x) (* x 3))"}, "(zqfz 2)"),
		c19D("defun", "zqfa", []string{"(defun zqfa (y) (+ (zqfz y) 1))"}, "(zqfa 2)"))
	add("defun/forward-reference-nested", c19D("defun", "zqfz", []string{"(defun zqfz (x) (- 24 x))"}, "(zqfz 2)"),
		c19D("defun", "zqfa", []string{"(defun zqfa (y) (+ 1 (zqfz (zqfz y))))"}, "(zqfa 5)"))
	add("defun/calls-macro", c19D("defmacro", "zqm", []string{"(defmacro zqm (a) `(* 2 ,a))"}, "(zqm 4)"),
		c19D("defun", "zqf", []string{"(defun zqf (y) (+ 1 (zqm y)))"}, "(zqf 5)"))
	add("defun/uses-variable", c19D("defvar", "zqv", []string{"(defvar zqv 10)"}, "zqv"),
		c19D("defun", "zqf", []string{"(defun zqf (y) (+ zqv y))"}, "(zqf 2)"))
	one("defmacro", "backquote", "zqm", "(defmacro zqm (a b) `(+ ,a (* 2 ,b)))", "(zqm 1 2)", "(macroexpand-1 '(zqm x y))")
	one("defmacro", "list", "zqm", "(defmacro zqm (a) (list 'list a a))", "(zqm 3)", "(macroexpand-1 '(zqm q))")
	one("defmacro", "rest-body", "zqm", "(defmacro zqm (test &rest body) `(if ,test (progn ,@body) nil))", "(zqm t 1 2)", "(zqm nil 1)", "(macroexpand-1 '(zqm a b c))")
	one("defmacro", "doc", "zqm", "(defmacro zqm (a) \"Twice.\" `(list ,a ,a))", "(zqm 3)", "(documentation 'zqm 'function)")
	// --- flavors
	fl := func(cell string, forms []string, probes ...string) {
		add("defflavor/"+cell, c19D("defflavor", "zqfl", forms, probes...))
	}
	fl("plain", []string{"(defflavor zqfl (a b) ())"}, "(flavor-name (find-flavor 'zqfl))", "(let ((i (make-instance 'zqfl))) (list (slot-value i 'a)))")
	fl("defaults", []string{"(defflavor zqfl ((a 1) (s \"str\") (f 1.5) b) () :gettable-instance-variables)"},
		"(let ((i (make-instance 'zqfl))) (list (send i :a) (send i :s) (send i :f) (send i :b)))")
	fl("default-symbol", []string{"(defflavor zqfl ((q 'sym) (k :key)) () :gettable-instance-variables)"}, "(let ((i (make-instance 'zqfl))) (list (send i :q) (send i :k)))")
	fl("default-list", []string{"(defflavor zqfl ((l '(1 b \"c\"))) () :gettable-instance-variables)"}, "(let ((i (make-instance 'zqfl))) (send i :l))")
	fl("options-all", []string{"(defflavor zqfl ((a 1) (b 2)) () :gettable-instance-variables :settable-instance-variables :inittable-instance-variables)"},
		"(let ((i (make-instance 'zqfl :a 5))) (send i :set-b 7) (list (send i :a) (send i :b)))")
	fl("options-some", []string{"(defflavor zqfl ((a 1) (b 2) (c 3)) () (:gettable-instance-variables a b) (:settable-instance-variables b) (:inittable-instance-variables c))"},
		"(let ((i (make-instance 'zqfl :c 9))) (send i :set-b 7) (list (send i :a) (send i :b) (slot-value i 'c)))")
	fl("documentation", []string{"(defflavor zqfl (a) () (:documentation \"A flavor.\"))"}, "(documentation 'zqfl 'type)")
	fl("default-init-plist", []string{"(defflavor zqfl ((a 1)) () :gettable-instance-variables :inittable-instance-variables (:default-init-plist (:a 4)))"},
		"(send (make-instance 'zqfl) :a)")
	fl("method", []string{"(defflavor zqfl ((a 1)) () :gettable-instance-variables :inittable-instance-variables)", "(defmethod (zqfl :add) (n) (+ a n))"},
		"(send (make-instance 'zqfl :a 2) :add 3)")
	fl("method-daemons", []string{"(defflavor zqfl ((a 1) (log nil)) () :gettable-instance-variables)", "(defmethod (zqfl :bump) (n) (setq a (+ a n)))",
		"(defmethod (zqfl :before :bump) (n) (setq log (cons (list 'before n) log)))", "(defmethod (zqfl :after :bump) (n) (setq log (cons 'after log)))"},
		"(let ((i (make-instance 'zqfl))) (send i :bump 2) (list (send i :a) (send i :log)))")
	add("defflavor/method-calls-function", c19D("defun", "zqf", []string{"(defun zqf (x) (* x 3))"}, "(zqf 2)"),
		c19D("defflavor", "zqfl", []string{"(defflavor zqfl ((a 1)) () :gettable-instance-variables)", "(defmethod (zqfl :triple) (n) (zqf (+ a n)))"},
			"(send (make-instance 'zqfl) :triple 3)"))
	add("defflavor/inherit", c19Def{Kind: "defflavor", Name: "zqfa", Forms: []string{"(defflavor zqfa ((a 1)) () :gettable-instance-variables :inittable-instance-variables)"}},
		c19Def{Kind: "defflavor", Name: "zqfb", Deps: []string{"zqfa"}, Forms: []string{"(defflavor zqfb ((b 2)) (zqfa) :gettable-instance-variables)"},
			Probes: []string{"(let ((i (make-instance 'zqfb :a 5))) (list (send i :a) (send i :b)))"}})
	add("defflavor/inherit-list-default", c19Def{Kind: "defflavor", Name: "zqfa", Forms: []string{"(defflavor zqfa ((l '(1 2))) () :gettable-instance-variables)"}},
		c19Def{Kind: "defflavor", Name: "zqfb", Deps: []string{"zqfa"}, Forms: []string{"(defflavor zqfb (b) (zqfa))"},
			Probes: []string{"(send (make-instance 'zqfb) :l)"}})
	add("defflavor/diamond", c19Def{Kind: "defflavor", Name: "zqfa", Forms: []string{"(defflavor zqfa ((a 1)) () :gettable-instance-variables)"}},
		c19Def{Kind: "defflavor", Name: "zqfb", Deps: []string{"zqfa"}, Forms: []string{"(defflavor zqfb ((b 2)) (zqfa) :gettable-instance-variables)"}},
		c19Def{Kind: "defflavor", Name: "zqfc", Deps: []string{"zqfa"}, Forms: []string{"(defflavor zqfc ((c 3)) (zqfa) :gettable-instance-variables)"}},
		c19Def{Kind: "defflavor", Name: "zqfd", Deps: []string{"zqfb", "zqfc"}, Forms: []string{"(defflavor zqfd ((d 4)) (zqfb zqfc) :gettable-instance-variables)"},
			Probes: []string{"(let ((i (make-instance 'zqfd))) (list (send i :a) (send i :b) (send i :c) (send i :d)))"}})
	add("defflavor/instance-variable", c19Def{Kind: "defflavor", Name: "zqfa", Forms: []string{"(defflavor zqfa ((a 1) (l nil)) () :gettable-instance-variables :settable-instance-variables :inittable-instance-variables)"}},
		c19Def{Kind: "defvar", Name: "zqi", Needs: []string{"defflavor=zqfa"}, Forms: []string{"(defvar zqi (make-instance 'zqfa :a 5))", "(send zqi :set-l '(x \"y\" 2))"}, Probes: []string{"(send zqi :a)", "(send zqi :l)"}})
	add("defflavor/instance-slot-nil", c19Def{Kind: "defflavor", Name: "zqfa", Forms: []string{"(defflavor zqfa ((a 1) (b t) c) () :gettable-instance-variables :settable-instance-variables :inittable-instance-variables)"}},
		c19D("defvar", "zqi", []string{"(defvar zqi (make-instance 'zqfa))", "(setf (slot-value zqi 'a) nil)", "(send zqi :set-b nil)"},
			"(list (send zqi :a) (send zqi :b) (send zqi :c))"))
	add("defflavor/instance-slot-unbound", c19Def{Kind: "defflavor", Name: "zqfa", Forms: []string{"(defflavor zqfa ((a 1) (b 2)) () :gettable-instance-variables)"}},
		c19D("defvar", "zqi", []string{"(defvar zqi (make-instance 'zqfa))", "(slot-makunbound zqi 'a)"}, "(list (slot-boundp zqi 'a) (slot-boundp zqi 'b) (send zqi :b))"))
	add("defflavor/instance-of-child-flavor", c19Def{Kind: "defflavor", Name: "zqfa", Forms: []string{"(defflavor zqfa ((a 1)) () :gettable-instance-variables :settable-instance-variables)"}},
		c19Def{Kind: "defflavor", Name: "zqfb", Deps: []string{"zqfa"}, Forms: []string{"(defflavor zqfb ((a 2) (b 3)) (zqfa) :gettable-instance-variables :settable-instance-variables)"}},
		c19D("defvar", "zqi", []string{"(defvar zqi (make-instance 'zqfb))", "(send zqi :set-a nil)", "(send zqi :set-b 1)"}, "(list (send zqi :a) (send zqi :b))"))
	add("defflavor/method-override-chain", c19Def{Kind: "defflavor", Name: "zqfa", Forms: []string{"(defflavor zqfa ((a 1)) ())", "(defmethod (zqfa :who) () (list 'a a))",
		"(defmethod (zqfa :before :who) () (setq a (+ a 10)))"}, Probes: []string{"(send (make-instance 'zqfa) :who)"}},
		c19Def{Kind: "defflavor", Name: "zqfb", Deps: []string{"zqfa"}, Forms: []string{"(defflavor zqfb () (zqfa))", "(defmethod (zqfb :who) () (list 'b a))"},
			Probes: []string{"(send (make-instance 'zqfb) :who)"}},
		c19Def{Kind: "defflavor", Name: "zqfc", Deps: []string{"zqfb"}, Forms: []string{"(defflavor zqfc () (zqfb))", "(defmethod (zqfc :who) () (list 'a a))",
			"(defmethod (zqfc :after :who) () (setq a 0))"}, Probes: []string{"(send (make-instance 'zqfc) :who)", "(let ((i (make-instance 'zqfc))) (send i :who) (slot-value i 'a))"}},
		c19Def{Kind: "defflavor", Name: "zqfd", Deps: []string{"zqfc"}, Forms: []string{"(defflavor zqfd () (zqfc))"}, Probes: []string{"(send (make-instance 'zqfd) :who)"}})
	// the flavor worlds of leg A3 (chains, diamonds, mixins re-declaring the same variables) as sessions
	for _, w := range c19FlavSweep() {
		var defs []c19Def
		vars := map[string][]string{}
		forms := w.forms("zqs-")
		for i, fd := range w.Defs {
			var all []string
			seen := map[string]bool{}
			for _, v := range fd.Vars {
				if !seen[v.Name] {
					seen[v.Name] = true
					all = append(all, v.Name)
				}
			}
			d := c19Def{Kind: "defflavor", Name: "zqs-" + fd.Name, Forms: []string{forms[i]}}
			for _, cn := range fd.Comps {
				d.Deps = append(d.Deps, "zqs-"+cn)
				for _, v := range vars[cn] {
					if !seen[v] {
						seen[v] = true
						all = append(all, v)
					}
				}
			}
			vars[fd.Name] = all
			sv := make([]string, len(all))
			for j, v := range all {
				sv[j] = fmt.Sprintf("(list '%s (slot-value i '%s) (send i :%s))", v, v, v)
			}
			if fd.Classic {
				d.Probes = []string{fmt.Sprintf("(let ((i (make-instance 'zqs-%s))) (list %s))", fd.Name, strings.Join(sv, " "))}
			} else {
				d.Probes = c19FlavProbes("zqs-"+fd.Name, all)
			}
			defs = append(defs, d)
		}
		// of the 125 combinations of the three options (all of them are leg A3 cells) the sessions
		// take those without :inittable and those with :inittable alone
		if strings.HasPrefix(w.Cell, "options/") && !strings.HasSuffix(w.Cell, "/init-none") && !strings.HasPrefix(w.Cell, "options/get-none/set-none/") {
			continue
		}
		add("defflavor/world-"+w.Cell, defs...)
	}
	// the witness of the comparator: one base flavor, flavors that inherit it, unrelated flavors
	for _, n := range []int{3, 9, 14} {
		var defs []c19Def
		defs = append(defs, c19Def{Kind: "defflavor", Name: "zqw-a", Forms: []string{"(defflavor zqw-a (a) ())"}})
		for i := 1; len(defs) < n; i++ {
			defs = append(defs, c19Def{Kind: "defflavor", Name: fmt.Sprintf("zqw-b%d", i), Deps: []string{"zqw-a"}, Forms: []string{fmt.Sprintf("(defflavor zqw-b%d (b) (zqw-a))", i)},
				Probes: []string{fmt.Sprintf("(flavor-name (find-flavor 'zqw-b%d))", i)}})
			if len(defs) < n {
				defs = append(defs, c19Def{Kind: "defflavor", Name: fmt.Sprintf("zqw-c%d", i), Forms: []string{fmt.Sprintf("(defflavor zqw-c%d (c) ())", i)}})
			}
		}
		add(fmt.Sprintf("defflavor/order-witness-%d", n), defs...)
	}
	// --- classes (written by the snapshot since fix 0016: a section between the flavors and the variables)
	cl := func(cell string, forms []string, probes ...string) {
		add("defclass/"+cell, c19D("defclass", "zqcl", forms, probes...))
	}
	cl("plain", []string{"(defclass zqcl () ((s1 :initarg :s1 :initform 3)))"}, "(slot-value (make-instance 'zqcl) 's1)", "(slot-value (make-instance 'zqcl :s1 4) 's1)")
	cl("reader", []string{"(defclass zqcl () ((s1 :initarg :s1 :initform 3 :reader zqcl-s1)))"}, "(zqcl-s1 (make-instance 'zqcl))")
	cl("accessor", []string{"(defclass zqcl () ((s1 :initarg :s1 :initform 3 :accessor zqcl-s1)))"}, "(let ((o (make-instance 'zqcl))) (setf (zqcl-s1 o) 9) (zqcl-s1 o))")
	cl("slot-options", []string{"(defclass zqcl () ((s1 :initarg :s1 :initform 3 :allocation :class) (s2 :initarg :s2 :type fixnum :documentation \"Slot two.\") (s3 :initform 'sym) (s4 :initform \"str\") (s5 :initform '(1 b)) s6) (:documentation \"A class.\") (:default-initargs :s2 (+ 1 2)))"},
		"(let ((o (make-instance 'zqcl))) (list (slot-value o 's1) (slot-value o 's2) (slot-value o 's3) (slot-value o 's4) (slot-value o 's5) (slot-boundp o 's6)))",
		"(slot-value (make-instance 'zqcl :s2 9 :s1 8) 's2)", "(documentation 'zqcl 'type)")
	clD := func(name string, supers []string, form string, probes ...string) c19Def {
		return c19Def{Kind: "defclass", Name: name, Deps: supers, Forms: []string{form}, Probes: probes}
	}
	add("defclass/inherit", clD("zqcl", nil, "(defclass zqcl () ((s1 :initarg :s1 :initform 3)))"),
		clD("zqcl2", []string{"zqcl"}, "(defclass zqcl2 (zqcl) ((s2 :initarg :s2)))", "(let ((o (make-instance 'zqcl2 :s2 4))) (list (slot-value o 's1) (slot-value o 's2)))"))
	// the superclass sorts AFTER its subclasses by name: only the count of inherited classes orders them
	add("defclass/superclass-named-later", clD("zqcz", nil, "(defclass zqcz () ((a :initform 1)))"),
		clD("zqca", []string{"zqcz"}, "(defclass zqca (zqcz) ((b :initform 2)))"),
		clD("zqcm", []string{"zqca"}, "(defclass zqcm (zqca) ())", "(let ((o (make-instance 'zqcm))) (list (slot-value o 'a) (slot-value o 'b)))"))
	add("defclass/diamond", clD("zqca", nil, "(defclass zqca () ((a :initform 1)))"),
		clD("zqcb", []string{"zqca"}, "(defclass zqcb (zqca) ((b :initform 2)))"), clD("zqcc", []string{"zqca"}, "(defclass zqcc (zqca) ((c :initform 3) (b :initform 'from-c)))"),
		clD("zqcd", []string{"zqcb", "zqcc"}, "(defclass zqcd (zqcb zqcc) ((d :initform 4)))", "(let ((o (make-instance 'zqcd))) (list (slot-value o 'a) (slot-value o 'b) (slot-value o 'c) (slot-value o 'd)))"),
		clD("zqce", []string{"zqcc", "zqcb"}, "(defclass zqce (zqcc zqcb) ())", "(slot-value (make-instance 'zqce) 'b)"))
	add("defclass/instance-variable", clD("zqcl", nil, "(defclass zqcl () ((s1 :initarg :s1 :initform 3) (s2 :initform nil) s3))"),
		c19Def{Kind: "defvar", Name: "zqi", Needs: []string{"defclass=zqcl"}, Forms: []string{"(defvar zqi (make-instance 'zqcl :s1 '(a \"b\" 2)))", "(setf (slot-value zqi 's2) 'sym)"},
			Probes: []string{"(list (slot-value zqi 's1) (slot-value zqi 's2) (slot-boundp zqi 's3))"}})
	add("defclass/method-specializer", clD("zqca", nil, "(defclass zqca () ((a :initform 1)))"), clD("zqcb", []string{"zqca"}, "(defclass zqcb (zqca) ((b :initform 2)))"),
		c19Def{Kind: "defgeneric", Name: "zqg", Needs: []string{"defclass=zqca", "defclass=zqcb"}, Forms: []string{"(defgeneric zqg (x y))", "(defmethod zqg ((x zqca) (y fixnum)) (list 'a (slot-value x 'a) y))",
			"(defmethod zqg ((x zqcb) (y fixnum)) (list 'b (slot-value x 'b) y))", "(defmethod zqg :before ((x zqca) (y fixnum)) (setf (slot-value x 'a) (+ y (slot-value x 'a))))"},
			Probes: []string{"(zqg (make-instance 'zqca) 1)", "(zqg (make-instance 'zqcb) 2)"}})
	add("defclass/with-flavor-and-variable", c19Def{Kind: "defflavor", Name: "zqfa", Forms: []string{"(defflavor zqfa ((a 1)) () :gettable-instance-variables)"}},
		clD("zqcl", nil, "(defclass zqcl () ((s1 :initform 3)))"),
		c19Def{Kind: "defvar", Name: "zqv", Needs: []string{"defclass=zqcl", "defflavor=zqfa"}, Forms: []string{"(defvar zqv (list 1 2))", "(setq zqv (make-instance 'zqcl))"}, Probes: []string{"(slot-value zqv 's1)"}},
		c19Def{Kind: "defvar", Name: "zqw", Needs: []string{"defflavor=zqfa"}, Forms: []string{"(defvar zqw (make-instance 'zqfa))"}, Probes: []string{"(send zqw :a)"}})
	add("define-condition/plain", c19D("defclass", "zqcond", []string{"(define-condition zqcond (error) ((why :initarg :why :initform 'unknown)) (:documentation \"A condition.\"))"},
		"(slot-value (make-condition 'zqcond :why 'because) 'why)", "(slot-value (make-condition 'zqcond) 'why)", "(typep (make-condition 'zqcond) 'error)"))
	add("define-condition/report", c19D("defclass", "zqcond", []string{"(define-condition zqcond (error) ((why :initarg :why)) (:report \"it failed\"))"},
		"(slot-value (make-condition 'zqcond :why 3) 'why)"))
	add("define-condition/inherit", c19Def{Kind: "defclass", Name: "zqcond", Forms: []string{"(define-condition zqcond (error) ((why :initarg :why :initform 1)))"}},
		c19Def{Kind: "defclass", Name: "zqcond2", Deps: []string{"zqcond"}, Forms: []string{"(define-condition zqcond2 (zqcond) ((more :initarg :more :initform 2)))"},
			Probes: []string{"(let ((c (make-condition 'zqcond2))) (list (slot-value c 'why) (slot-value c 'more)))", "(typep (make-condition 'zqcond2) 'zqcond)"}})
	// a constant holding an instance: load evaluates defconstant forms in its first pass, before any
	// defflavor / defclass (model: constant_instance_not_loadable)
	add("defconstant/flavor-instance", c19Def{Kind: "defflavor", Name: "zqfa", Forms: []string{"(defflavor zqfa ((a 1)) () :gettable-instance-variables)"}},
		c19Def{Kind: "defconstant", Name: "zqc", Needs: []string{"defflavor=zqfa"}, Forms: []string{"(defconstant zqc (make-instance 'zqfa))"}, Probes: []string{"(send zqc :a)"}})
	add("defconstant/class-instance", clD("zqcl", nil, "(defclass zqcl () ((s1 :initform 3)))"),
		c19Def{Kind: "defconstant", Name: "zqc", Needs: []string{"defclass=zqcl"}, Forms: []string{"(defconstant zqc (make-instance 'zqcl))"}, Probes: []string{"(slot-value zqc 's1)"}})
	add("defun/calls-generic", c19D("defgeneric", "zqga", []string{"(defgeneric zqga (x))", "(defmethod zqga ((x fixnum)) (* x 2))"}, "(zqga 4)"),
		c19D("defun", "zqfz", []string{"(defun zqfz (x) (zqga x))"}, "(zqfz 4)"))
	one("defstruct", "plain", "zqst", "(defstruct zqst (a 1) b)", "(zqst-a (make-zqst))", "(zqst-b (make-zqst :b 5))")
	// the printer settings of the session are saved with the session and must not change what is written
	for _, ps := range []struct{ cell, set string }{
		{"print-base-16", "(setq *print-base* 16)"}, {"print-radix", "(setq *print-radix* t)"}, {"print-length-3", "(setq *print-length* 3)"},
		{"print-level-2", "(setq *print-level* 2)"}, {"print-case-upcase", "(setq *print-case* :upcase)"}, {"print-escape-nil", "(setq *print-escape* nil)"},
		{"print-pretty-nil", "(setq *print-pretty* nil)"}, {"print-readably", "(setq *print-readably* t)"}, {"print-array-nil", "(setq *print-array* nil)"},
		{"print-lines-1", "(setq *print-lines* 1)"}, {"print-miser-width", "(setq *print-miser-width* 60)"},
	} {
		add("setq/"+ps.cell, c19D("defvar", "zqv", []string{"(defvar zqv '(1 2 3 4 5 6 255 \"s t\" sym :k 1.5 #\\a (a (b (c (d \"deep\"))))))"},
			"(length zqv)", "(nth 6 zqv)", "(nth 7 zqv)", "(car (cadr (cadr (nth 12 zqv))))"),
			c19D("defvar", "zqw", []string{"(defvar zqw (vector 10 'a \"s\" '(17 18 19 20 21)))"}, "(length zqw)", "(aref zqw 0)", "(length (aref zqw 3))"),
			c19D("defun", "zqf", []string{"(defun zqf (x) (let ((y (* x 255))) (if (> y 3) (list x y 'q \"str\" #\\b '(1 2 3 4 5 (a (b (c))))) nil)))"}, "(length (zqf 17))", "(cadr (zqf 2))"),
			c19D("setq", "print-setting", []string{ps.set}))
	}
	// --- generic functions
	gf := func(cell string, forms []string, probes ...string) {
		add("defgeneric/"+cell, c19D("defgeneric", "zqg", forms, probes...))
	}
	gf("no-methods", []string{"(defgeneric zqg (a b))"}, "(fboundp 'zqg)")
	gf("doc", []string{"(defgeneric zqg (a) (:documentation \"A generic.\"))", "(defmethod zqg ((a fixnum)) (1+ a))"}, "(zqg 1)", "(documentation 'zqg 'function)")
	gf("specialized", []string{"(defgeneric zqg (a b))", "(defmethod zqg ((a fixnum) (b fixnum)) (+ a b))", "(defmethod zqg ((a string) (b string)) (list a b))", "(defmethod zqg ((a symbol) (b list)) (cons a b))"},
		"(zqg 1 2)", "(zqg \"a\" \"b\")", "(zqg 'x '(1))")
	gf("unspecialized-parameter", []string{"(defgeneric zqg (a b))", "(defmethod zqg ((a string) b) (list a b))"}, "(zqg \"a\" 2)")
	gf("t-specializer", []string{"(defgeneric zqg (a b))", "(defmethod zqg ((a fixnum) (b t)) (list a b))"}, "(zqg 1 'x)")
	gf("qualifiers", []string{"(defvar zqlog nil)", "(defgeneric zqg (a))", "(defmethod zqg ((a fixnum)) (setq zqlog (cons 'primary zqlog)) a)",
		"(defmethod zqg :before ((a fixnum)) (setq zqlog (cons 'before zqlog)))", "(defmethod zqg :after ((a fixnum)) (setq zqlog (cons 'after zqlog)))"},
		"(progn (setq zqlog nil) (list (zqg 1) zqlog))")
	gf("method-doc", []string{"(defgeneric zqg (a))", "(defmethod zqg ((a fixnum)) \"Method doc.\" (1+ a))"}, "(zqg 1)")
	gf("defmethod-only", []string{"(defmethod zqg ((a fixnum) (b string)) (list a b))"}, "(zqg 1 \"s\")")
	gf("optional", []string{"(defgeneric zqg (a &optional b))", "(defmethod zqg ((a fixnum) &optional (b 5)) (+ a b))"}, "(zqg 1)", "(zqg 1 2)")
	gf("flavor-specializer", []string{"(defflavor zqfa ((a 1)) () :gettable-instance-variables)", "(defgeneric zqg (x))", "(defmethod zqg ((x zqfa)) (send x :a))"}, "(zqg (make-instance 'zqfa))")
	// --- packages
	pk := func(cell string, forms []string, probes ...string) {
		add("defpackage/"+cell, c19D("defpackage", "zqpk", forms, probes...))
	}
	pk("plain", []string{"(defpackage \"zqpk\")"}, "(package-name (find-package \"zqpk\"))")
	pk("use", []string{"(defpackage \"zqpk\" (:use \"common-lisp\"))"}, "(mapcar #'package-name (package-use-list (find-package \"zqpk\")))")
	pk("nicknames", []string{"(defpackage \"zqpk\" (:nicknames \"zqn1\" \"zqn2\"))"}, "(package-nicknames (find-package \"zqpk\"))", "(package-name (find-package \"zqn2\"))")
	pk("documentation", []string{"(defpackage \"zqpk\" (:documentation \"A package.\"))"}, "(documentation (find-package \"zqpk\") t)")
	pk("export", []string{"(defpackage \"zqpk\" (:use \"common-lisp\") (:export \"zqx\"))", "(defvar zqpk::zqx 5)"}, "zqpk:zqx")
	pk("variable", []string{"(defpackage \"zqpk\" (:use \"common-lisp\"))", "(defvar zqpk::zqv '(1 a))"}, "zqpk::zqv")
	pk("function", []string{"(defpackage \"zqpk\" (:use \"common-lisp\"))", "(defun zqpk::zqf (x) (* x 2))"}, "(zqpk::zqf 4)")
	add("defpackage/uses-package", c19Def{Kind: "defpackage", Name: "zqpa", Forms: []string{"(defpackage \"zqpa\" (:use \"common-lisp\"))"}},
		c19Def{Kind: "defpackage", Name: "zqpk", Deps: []string{"zqpa"}, Forms: []string{"(defpackage \"zqpk\" (:use \"common-lisp\" \"zqpa\"))"},
			Probes: []string{"(mapcar #'package-name (package-use-list (find-package \"zqpk\")))"}})
	add("defpackage/uses-later-package", c19Def{Kind: "defpackage", Name: "zqpz", Forms: []string{"(defpackage \"zqpz\" (:use \"common-lisp\"))"}},
		c19Def{Kind: "defpackage", Name: "zqpk", Deps: []string{"zqpz"}, Forms: []string{"(defpackage \"zqpk\" (:use \"common-lisp\" \"zqpz\"))"},
			Probes: []string{"(mapcar #'package-name (package-use-list (find-package \"zqpk\")))"}})
	add("defpackage/use-chain", c19Def{Kind: "defpackage", Name: "zqpz", Forms: []string{"(defpackage \"zqpz\" (:use \"common-lisp\"))"}},
		c19Def{Kind: "defpackage", Name: "zqpm", Deps: []string{"zqpz"}, Forms: []string{"(defpackage \"zqpm\" (:use \"zqpz\"))"}},
		c19Def{Kind: "defpackage", Name: "zqpa", Deps: []string{"zqpm"}, Forms: []string{"(defpackage \"zqpa\" (:use \"zqpm\" \"common-lisp\"))"},
			Probes: []string{"(mapcar #'package-name (package-use-list (find-package \"zqpa\")))"}},
		c19Def{Kind: "defpackage", Name: "zqpb", Forms: []string{"(defpackage \"zqpb\")"}})
	return out
}

// ---------------------------------------------------------------------------------------------
// composite sessions

type c19SessGen struct {
	fvars   map[string][]string // flavor -> every instance variable it has (own and inherited)
	classes []c19Def            // classes defined so far
	cslots  map[string][]string // class -> every slot with an initform (own and inherited)
	pkgs    []string            // user packages defined so far
	noCalls bool                // (state) no calls of user functions in the expression being generated
	r       *lib.Rng
	listed  func(cell string) bool
	n       int
	fns     []c19Def // integer functions defined so far
	ivars   []string // integer variables
	flavs   []c19Def
	defs    []c19Def
}

func (g *c19SessGen) name(prefix string) string {
	g.n++
	// zero padded: the snapshot writes functions sorted by name, a callee defined earlier must also
	// sort earlier (forward references are a listed finding)
	return fmt.Sprintf("zq%s%03d", prefix, g.n)
}

// intExpr: an integer valued expression over the integer variables in scope
func (g *c19SessGen) intExpr(vars []string, depth int) string {
	r := g.r
	leaf := func() string {
		switch {
		case len(vars) > 0 && r.Chance(55):
			return vars[r.Intn(len(vars))]
		case len(g.ivars) > 0 && r.Chance(25):
			return g.ivars[r.Intn(len(g.ivars))]
		}
		return fmt.Sprint(r.Intn(40) - 10)
	}
	if depth <= 0 {
		return leaf()
	}
	e := func() string { return g.intExpr(vars, depth-1) }
	switch r.Intn(12) {
	case 0, 1:
		return fmt.Sprintf("(+ %s %s)", e(), e())
	case 2:
		return fmt.Sprintf("(* %s %s)", e(), leaf())
	case 3:
		return fmt.Sprintf("(- %s %s)", e(), e())
	case 4:
		return fmt.Sprintf("(if (< %s %s) %s %s)", e(), e(), e(), e())
	case 5:
		v := g.name("t")
		return fmt.Sprintf("(let ((%s %s)) %s)", v, e(), g.intExpr(append(append([]string{}, vars...), v), depth-1))
	case 6:
		return fmt.Sprintf("(cond ((> %s 5) %s) ((= %s 0) %s) (t %s))", e(), e(), leaf(), e(), e())
	case 7:
		v, i := g.name("t"), g.name("i")
		return fmt.Sprintf("(let ((%s 0)) (dotimes (%s 4) (setq %s (+ %s %s %s))) %s)", v, i, v, v, i, leaf(), v)
	case 8:
		if len(g.fns) > 0 && !g.noCalls {
			f := g.fns[r.Intn(len(g.fns))]
			args := make([]string, f.Arity)
			for i := range args {
				args[i] = g.intExpr(vars, depth-1)
			}
			return fmt.Sprintf("(%s %s)", f.Name, strings.Join(args, " "))
		}
		return fmt.Sprintf("(max %s %s)", e(), e())
	case 9:
		return fmt.Sprintf("(length (list %s %s 'q))", e(), e())
	case 10:
		return fmt.Sprintf("(car (cdr '(%d %d \"x\")))", r.Intn(9), r.Intn(9))
	default:
		return fmt.Sprintf("(abs %s)", e())
	}
}

func (g *c19SessGen) dataExpr() (expr string, isInt bool) {
	r := g.r
	for tries := 0; tries < 30; tries++ {
		cells := []struct{ cell, expr string }{
			{"fixnum", fmt.Sprint(r.Intn(2000) - 1000)}, {"bignum", r.BigBits(90).String()}, {"ratio", fmt.Sprintf("%d/7", 7*r.Intn(50)+1+r.Intn(6))},
			{"double-float", []string{"1.5", "-2.25", "100.125"}[r.Intn(3)]}, {"string", fmt.Sprintf("%q", c19StrPool[r.Intn(3)]+fmt.Sprint(r.Intn(99)))},
			{"string-escapes", "\"q\\\"uote\\\\\""}, {"character", "#\\b"}, {"symbol", "'" + c19SymPool[r.Intn(6)]}, {"keyword", ":kw"}, {"nil", "nil"}, {"t", "t"},
			{"list", fmt.Sprintf("'(%d \"s%d\" 2.5)", r.Intn(9), r.Intn(9))}, {"list-of-symbols", fmt.Sprintf("'(a (b %d) c)", r.Intn(9))}, {"dotted-list", "'(x . 3)"},
			{"vector", fmt.Sprintf("(vector %d 'v \"w\")", r.Intn(9))}, {"vector-literal", "#(1 (a b))"}, {"array-2d", "(make-array '(2 2) :initial-contents '((1 2) (3 x)))"},
			{"hash-table", fmt.Sprintf("(let ((h (make-hash-table))) (setf (gethash 'k%d h) '(v 1)) (setf (gethash \"s\" h) %d) h)", r.Intn(9), r.Intn(99))},
			{"lambda", fmt.Sprintf("(lambda (x) (+ x %d))", r.Intn(9))},
		}
		c := cells[r.Intn(len(cells))]
		if g.listed("defvar/" + c.cell) {
			continue
		}
		return c.expr, c.cell == "fixnum"
	}
	return "1", true
}

func (g *c19SessGen) addDef() {
	r := g.r
	doc := func(cell string) string {
		if r.Chance(40) && !g.listed(cell) {
			return fmt.Sprintf(" \"Doc %d.\"", r.Intn(99))
		}
		return ""
	}
	switch r.Intn(16) {
	case 14, 15:
		g.addClass()
	case 12, 13:
		// a variable holding a generated nested value (the generator of leg A)
		if g.listed("defvar/list") || g.listed("defvar/vector") || g.listed("defvar/hash-table") || g.listed("defvar/array-2d") {
			return
		}
		name := g.name("v")
		for tries := 0; tries < 20; tries++ {
			v := c19RandVal(r, 1+r.Intn(3), c19GenCtx{avoid: func(container, elem string) bool {
				// literal data only below the top level
				return elem == "vector" || elem == "array" || elem == "hash-table"
			}, noEmptyVec: true})
			if v.depth() == 0 {
				continue
			}
			src, probes, ok := v.expr(name)
			if !ok {
				continue
			}
			g.defs = append(g.defs, c19Def{Kind: "defvar", Name: name, Forms: []string{fmt.Sprintf("(defvar %s %s)", name, src)}, Probes: probes})
			return
		}
	case 0, 1:
		name := g.name("v")
		expr, isInt := g.dataExpr()
		d := c19Def{Kind: "defvar", Name: name, IntVal: isInt}
		d.Forms = []string{fmt.Sprintf("(defvar %s %s%s)", name, expr, doc("defvar/with-doc"))}
		switch {
		case strings.Contains(expr, "make-hash-table"):
			d.Probes = []string{fmt.Sprintf("(hash-table-count %s)", name), fmt.Sprintf("(gethash \"s\" %s)", name)}
		case strings.HasPrefix(expr, "(lambda"):
			d.Probes = []string{fmt.Sprintf("(funcall %s 3)", name)}
		default:
			d.Probes = []string{name}
		}
		if isInt {
			g.ivars = append(g.ivars, name)
		}
		g.defs = append(g.defs, d)
	case 2:
		name := g.name("p")
		d := c19Def{Kind: "defparameter", Name: name, IntVal: true, Forms: []string{fmt.Sprintf("(defparameter %s %d%s)", name, r.Intn(100), doc("defparameter/fixnum"))}, Probes: []string{name}}
		g.ivars = append(g.ivars, name)
		g.defs = append(g.defs, d)
	case 3:
		name := g.name("c")
		expr := fmt.Sprint(r.Intn(1000))
		if r.Chance(40) {
			for _, c := range []struct{ cell, expr string }{{"string", "\"const\""}, {"list", "'(1 2 \"c\")"}, {"symbol", "'csym"}, {"list-of-symbols", "'(p q)"}} {
				if r.Chance(30) && !g.listed("defconstant/"+c.cell) {
					expr = c.expr
				}
			}
		}
		g.defs = append(g.defs, c19Def{Kind: "defconstant", Name: name, Forms: []string{fmt.Sprintf("(defconstant %s %s%s)", name, expr, doc("defconstant/with-doc"))}, Probes: []string{name}})
	case 4, 5, 6:
		name := g.name("f")
		arity := 1 + r.Intn(2)
		params := []string{"a", "b"}[:arity]
		ll := strings.Join(params, " ")
		vars := append([]string{}, params...)
		extra := ""
		if r.Chance(30) && !g.listed("defun/optional") {
			ll += " &optional (o 3)"
			vars = append(vars, "o")
			extra = "opt"
		} else if r.Chance(20) && !g.listed("defun/key") {
			ll += " &key (k 4)"
			vars = append(vars, "k")
			extra = "key"
		}
		body := g.intExpr(vars, 1+r.Intn(3))
		d := c19Def{Kind: "defun", Name: name, Arity: arity}
		d.Forms = []string{fmt.Sprintf("(defun %s (%s)%s %s)", name, ll, doc("defun/doc"), body)}
		for i := 0; i < 2; i++ {
			args := make([]string, arity)
			for j := range args {
				args[j] = fmt.Sprint(r.Intn(30) - 10)
			}
			call := fmt.Sprintf("(%s %s", name, strings.Join(args, " "))
			if i == 1 && extra == "opt" {
				call += " 11"
			}
			if i == 1 && extra == "key" {
				call += " :k 12"
			}
			d.Probes = append(d.Probes, call+")")
		}
		g.fns = append(g.fns, d)
		g.defs = append(g.defs, d)
	case 7:
		if g.listed("defmacro/backquote") {
			return
		}
		name := g.name("m")
		d := c19Def{Kind: "defmacro", Name: name}
		d.Forms = []string{fmt.Sprintf("(defmacro %s (a b) `(+ ,a (* %d ,b)))", name, r.Intn(9))}
		d.Probes = []string{fmt.Sprintf("(%s 1 2)", name), fmt.Sprintf("(macroexpand-1 '(%s x y))", name)}
		g.defs = append(g.defs, d)
	case 8, 9:
		if g.listed("defflavor/defaults") || g.listed("defflavor/options-all") {
			return
		}
		name := g.name("fl")
		d := c19Def{Kind: "defflavor", Name: name}
		iv := g.name("s")
		ivs := fmt.Sprintf("(%s %d)", iv, r.Intn(50))
		if r.Chance(40) && !g.listed("defflavor/default-list") && !g.listed("defflavor/default-symbol") {
			ivs += fmt.Sprintf(" (%s-l '(a %d)) (%s-q 'qq)", iv, r.Intn(9), iv)
		}
		var comps []string
		if len(g.flavs) > 0 && r.Chance(60) && !g.listed("defflavor/inherit") {
			k := 1
			if len(g.flavs) > 1 && r.Chance(40) && !g.listed("defflavor/diamond") {
				k = 2
			}
			for _, j := range c19Pick(r, len(g.flavs), k) {
				comps = append(comps, g.flavs[j].Name)
			}
		}
		d.Deps = comps
		// shared instance variables, declared again and again along the inheritance paths with
		// defaults from a small pool: a flavor sets a variable back to the value of a distant
		// ancestor while a nearer one overrides it (nil included)
		all := []string{iv}
		if !g.listed("defflavor/world-chain/5/1/5") {
			for _, sv := range []string{"zqva", "zqvb"} {
				if r.Chance(60) {
					dflt := []string{"", "nil", "1", "2", "\"s\"", "'q", "t"}[r.Intn(7)]
					if dflt == "" {
						ivs += " " + sv
					} else {
						ivs += fmt.Sprintf(" (%s %s)", sv, dflt)
					}
					all = append(all, sv)
				}
			}
		}
		if g.fvars == nil {
			g.fvars = map[string][]string{}
		}
		for _, cn := range comps {
			for _, v := range g.fvars[cn] {
				dup := false
				for _, a := range all {
					dup = dup || a == v
				}
				if !dup {
					all = append(all, v)
				}
			}
		}
		g.fvars[name] = all
		opts := " :gettable-instance-variables :settable-instance-variables :inittable-instance-variables"
		if !g.listed("defflavor/world-options/get-bare/set-a/init-none") && r.Chance(60) {
			// which operations and init keywords the restored flavor has: each option absent, bare,
			// every own variable listed, or some of the variables (own, or own and inherited);
			// the variable of the method body stays gettable
			own := all[:1]
			for _, v := range all[1:] {
				if strings.Contains(ivs, " "+v) || strings.Contains(ivs, "("+v+" ") {
					own = append(own, v)
				}
			}
			pick := func(must string) c19FlavSel {
				var sel c19FlavSel
				switch k := r.Intn(100); {
				case k < 20:
				case k < 45:
					return c19FlavSel{"*"}
				case k < 60:
					return append(c19FlavSel{}, own...)
				default:
					pool := own
					if r.Chance(40) && !g.listed("defflavor/world-options-inherit/parent-none/child-lists-inherited") {
						pool = all
					}
					for _, v := range pool {
						if v != must && r.Chance(50) {
							sel = append(sel, v)
						}
					}
					if len(sel) == 0 && must == "" {
						sel = c19FlavSel{pool[r.Intn(len(pool))]}
					}
				}
				if must != "" {
					sel = append(c19FlavSel{must}, sel...)
				}
				return sel
			}
			opts = pick(iv).option(":gettable-instance-variables") + pick("").option(":settable-instance-variables") + pick("").option(":inittable-instance-variables")
		}
		d.Forms = []string{fmt.Sprintf("(defflavor %s (%s) (%s)%s)", name, ivs, strings.Join(comps, " "), opts)}
		d.Probes = append([]string{fmt.Sprintf("(let ((i (make-instance '%s))) (send i :%s))", name, iv)}, c19FlavProbes(name, all)...)
		// behaviour of the restored flavor: the value of EVERY instance variable of a fresh instance
		sv := make([]string, len(all))
		for i, v := range all {
			sv[i] = fmt.Sprintf("(list '%s (slot-value i '%s))", v, v)
		}
		d.Probes = append(d.Probes, fmt.Sprintf("(let ((i (make-instance '%s))) (list %s))", name, strings.Join(sv, " ")))
		if !g.listed("defflavor/method") && r.Chance(60) {
			m := g.name("msg")
			// flavors and their methods are written before the functions: no calls of user functions
			g.noCalls = g.listed("defflavor/method-calls-function")
			d.Forms = append(d.Forms, fmt.Sprintf("(defmethod (%s :%s) (n) %s)", name, m, g.intExpr([]string{"n", iv}, 2)))
			g.noCalls = false
			d.Probes = append(d.Probes, fmt.Sprintf("(send (make-instance '%s) :%s 4)", name, m))
		}
		g.flavs = append(g.flavs, d)
		g.defs = append(g.defs, d)
	case 10:
		if g.listed("defgeneric/specialized") {
			return
		}
		name := g.name("g")
		d := c19Def{Kind: "defgeneric", Name: name}
		if !g.listed("defgeneric/doc") && r.Chance(40) {
			d.Forms = []string{fmt.Sprintf("(defgeneric %s (a b) (:documentation \"Generic %d.\"))", name, r.Intn(99))}
		} else {
			d.Forms = []string{fmt.Sprintf("(defgeneric %s (a b))", name)}
		}
		d.Forms = append(d.Forms, fmt.Sprintf("(defmethod %s ((a fixnum) (b fixnum)) %s)", name, g.intExpr([]string{"a", "b"}, 2)),
			fmt.Sprintf("(defmethod %s ((a string) (b fixnum)) (list a (* b %d)))", name, r.Intn(9)))
		d.Probes = []string{fmt.Sprintf("(%s 3 4)", name), fmt.Sprintf("(%s \"s\" 2)", name)}
		if r.Chance(50) {
			d.Forms = append(d.Forms, fmt.Sprintf("(defmethod %s ((a symbol) (b list)) (cons a b))", name))
			d.Probes = append(d.Probes, fmt.Sprintf("(%s 'q '(1 2))", name))
		}
		g.defs = append(g.defs, d)
	default:
		if g.listed("defpackage/use") {
			return
		}
		name := g.name("pk")
		if r.Chance(50) {
			name = fmt.Sprintf("zq%cpk%03d", 'a'+rune(r.Intn(26)), g.n) // any position in the name order
		}
		d := c19Def{Kind: "defpackage", Name: name}
		opts := " (:use \"common-lisp\")"
		if len(g.pkgs) > 0 && r.Chance(50) && !g.listed("defpackage/uses-package") && !g.listed("defpackage/uses-later-package") {
			// names are drawn so that a used package may sort before or after its user
			for _, j := range c19Pick(r, len(g.pkgs), 1+r.Intn(2)) {
				d.Deps = append(d.Deps, g.pkgs[j])
			}
			opts = " (:use \"common-lisp\" \"" + strings.Join(d.Deps, "\" \"") + "\")"
		}
		if r.Chance(50) && !g.listed("defpackage/nicknames") {
			opts = fmt.Sprintf(" (:nicknames \"%s-n\")", name) + opts
		}
		if r.Chance(40) && !g.listed("defpackage/documentation") {
			opts = " (:documentation \"Package doc.\")" + opts
		}
		d.Forms = []string{fmt.Sprintf("(defpackage %q%s)", name, opts)}
		d.Probes = []string{fmt.Sprintf("(package-name (find-package %q))", name), fmt.Sprintf("(package-nicknames (find-package %q))", name)}
		if r.Chance(50) && !g.listed("defpackage/variable") {
			d.Forms = append(d.Forms, fmt.Sprintf("(defvar %s::pv %d)", name, r.Intn(99)))
			d.Probes = append(d.Probes, name+"::pv")
		}
		d.Probes = append(d.Probes, fmt.Sprintf("(mapcar #'package-name (package-use-list (find-package %q)))", name))
		g.pkgs = append(g.pkgs, name)
		g.defs = append(g.defs, d)
	}
}

// c19FlavProbes: what a flavor offers to its users — the operations an instance handles and, for
// every variable, its value, whether :v / :set-v are handled and work, and whether make-instance
// accepts it (one probe each: a refusal is an observation, not the end of the comparison).
func c19FlavProbes(name string, vars []string) []string {
	out := []string{fmt.Sprintf("(send (make-instance '%s) :which-operations)", name)}
	for _, v := range vars {
		out = append(out,
			fmt.Sprintf("(slot-value (make-instance '%s) '%s)", name, v),
			fmt.Sprintf("(let ((i (make-instance '%s))) (list (send i :operation-handled-p :%s) (send i :operation-handled-p :set-%s)))", name, v, v),
			fmt.Sprintf("(send (make-instance '%s) :%s)", name, v),
			fmt.Sprintf("(let ((i (make-instance '%s))) (send i :set-%s 78) (slot-value i '%s))", name, v, v),
			fmt.Sprintf("(slot-value (make-instance '%s :%s 77) '%s)", name, v, v))
	}
	return out
}

// addClass: a class with initforms of several kinds, possibly a superclass defined earlier (the name
// may sort before or after it), possibly a variable holding an instance and a generic function with
// methods specialised on the class and on its superclass
func (g *c19SessGen) addClass() {
	r := g.r
	if g.listed("defclass/plain") || g.listed("defclass/inherit") || g.listed("defclass/slot-options") {
		return
	}
	g.n++
	name := fmt.Sprintf("zq%ccl%03d", 'a'+rune(r.Intn(26)), g.n)
	d := c19Def{Kind: "defclass", Name: name}
	slot := g.name("s")
	inits := []string{fmt.Sprint(r.Intn(90)), "\"str\"", "'sym", "'(1 b \"c\")", "nil", "t", ":kw", "1.5"}
	slots := fmt.Sprintf("(%s :initarg :%s :initform %s)", slot, slot, inits[r.Intn(len(inits))])
	all := []string{slot}
	if r.Chance(50) {
		slots += fmt.Sprintf(" (%s-b :initform %s)", slot, inits[r.Intn(len(inits))])
		all = append(all, slot+"-b")
	}
	if r.Chance(30) {
		slots += fmt.Sprintf(" %s-u", slot)
	}
	super := ""
	if len(g.classes) > 0 && r.Chance(60) {
		sc := g.classes[r.Intn(len(g.classes))]
		super = sc.Name
		d.Deps = []string{super}
		all = append(all, g.cslots[super]...)
	}
	if g.cslots == nil {
		g.cslots = map[string][]string{}
	}
	g.cslots[name] = all
	opts := ""
	if r.Chance(30) && !g.listed("defclass/slot-options") {
		opts = fmt.Sprintf(" (:documentation \"Class %d.\")", r.Intn(99))
	}
	d.Forms = []string{fmt.Sprintf("(defclass %s (%s) (%s)%s)", name, super, slots, opts)}
	sv := make([]string, len(all))
	for i, v := range all {
		sv[i] = fmt.Sprintf("(slot-value o '%s)", v)
	}
	d.Probes = []string{fmt.Sprintf("(let ((o (make-instance '%s))) (list %s))", name, strings.Join(sv, " ")),
		fmt.Sprintf("(slot-value (make-instance '%s :%s 77) '%s)", name, slot, slot)}
	g.classes = append(g.classes, d)
	g.defs = append(g.defs, d)
	if r.Chance(40) && !g.listed("defclass/instance-variable") {
		vn := g.name("v")
		g.defs = append(g.defs, c19Def{Kind: "defvar", Name: vn, Needs: []string{"defclass=" + name},
			Forms:  []string{fmt.Sprintf("(defvar %s (make-instance '%s :%s %d))", vn, name, slot, r.Intn(99)), fmt.Sprintf("(setf (slot-value %s '%s) '(set %d))", vn, all[len(all)-1], r.Intn(9))},
			Probes: []string{fmt.Sprintf("(list %s)", strings.ReplaceAll(strings.Join(sv, " "), "(slot-value o ", "(slot-value "+vn+" "))}})
	}
	if r.Chance(40) && !g.listed("defclass/method-specializer") && !g.listed("defgeneric/specialized") {
		gn := g.name("g")
		gd := c19Def{Kind: "defgeneric", Name: gn, Needs: []string{"defclass=" + name}}
		gd.Forms = []string{fmt.Sprintf("(defgeneric %s (x n))", gn), fmt.Sprintf("(defmethod %s ((x %s) (n fixnum)) (list '%s (slot-value x '%s) %s))", gn, name, name, slot, g.intExprNoCalls([]string{"n"}, 2))}
		if super != "" {
			gd.Needs = append(gd.Needs, "defclass="+super)
			gd.Forms = append(gd.Forms, fmt.Sprintf("(defmethod %s ((x %s) (n fixnum)) (list '%s n))", gn, super, super))
			gd.Probes = append(gd.Probes, fmt.Sprintf("(%s (make-instance '%s) 3)", gn, super))
		}
		gd.Probes = append(gd.Probes, fmt.Sprintf("(%s (make-instance '%s) 4)", gn, name))
		g.defs = append(g.defs, gd)
	}
}

func (g *c19SessGen) intExprNoCalls(vars []string, depth int) string {
	old := g.noCalls
	g.noCalls = true
	defer func() { g.noCalls = old }()
	return g.intExpr(vars, depth)
}

// ---------------------------------------------------------------------------------------------
// generated values (leg A's generator) as the values of session variables

func c19LispString(s string) string {
	return "\"" + strings.NewReplacer("\\", "\\\\", "\"", "\\\"").Replace(s) + "\""
}

// lit: the text of the value inside a quoted literal; ok=false when it has no literal text
func (v *c19Val) lit() (string, bool) {
	switch v.K {
	case "nil":
		return "nil", true
	case "t":
		return "t", true
	case "int":
		return v.N, true
	case "ratio":
		return v.N + "/" + v.D, true
	case "dbl":
		f := math.Float64frombits(v.Bits)
		if a := math.Abs(f); f == 0 || (a >= 1e-3 && a < 1e6) {
			t := strconv.FormatFloat(f, 'f', -1, 64)
			if !strings.Contains(t, ".") {
				t += ".0"
			}
			return t, true
		}
		return "", false
	case "str":
		return c19LispString(v.S), !strings.ContainsAny(v.S, "\n\t")
	case "chr":
		if v.C < 128 && (v.C >= 'a' && v.C <= 'z' || v.C >= '0' && v.C <= '9' || v.C >= 'A' && v.C <= 'Z') {
			return "#\\" + string(rune(v.C)), true
		}
		return "", false
	case "sym":
		for _, ok := range []string{"a", "b", "foo", "bar-baz", "x1", "quux", ":a", ":key", ":b2"} {
			if v.S == ok {
				return v.S, true
			}
		}
		return "", false
	case "list":
		parts := make([]string, 0, len(v.Kids)+2)
		for _, k := range v.Kids {
			t, ok := k.lit()
			if !ok {
				return "", false
			}
			parts = append(parts, t)
		}
		if v.Tail != nil {
			t, ok := v.Tail.lit()
			if !ok {
				return "", false
			}
			parts = append(parts, ".", t)
		}
		return "(" + strings.Join(parts, " ") + ")", true
	}
	return "", false
}

// expr: an expression that builds the value, and probes of a variable holding it
func (v *c19Val) expr(name string) (src string, probes []string, ok bool) {
	q := func(k *c19Val) (string, bool) {
		t, ok := k.lit()
		if ok && (k.K == "list" || (k.K == "sym" && !strings.HasPrefix(k.S, ":"))) {
			t = "'" + t
		}
		return t, ok
	}
	switch v.K {
	case "vec":
		parts := []string{"(vector"}
		for _, k := range v.Kids {
			t, ok := q(k)
			if !ok {
				return "", nil, false
			}
			parts = append(parts, t)
		}
		return strings.Join(parts, " ") + ")", []string{name, fmt.Sprintf("(length %s)", name)}, true
	case "arr":
		rows := &c19Val{K: "list"}
		var nest func(elems []*c19Val, dims []int) *c19Val
		nest = func(elems []*c19Val, dims []int) *c19Val {
			if len(dims) == 1 {
				return &c19Val{K: "list", Kids: elems}
			}
			size := len(elems) / dims[0]
			out := &c19Val{K: "list"}
			for i := 0; i < dims[0]; i++ {
				out.Kids = append(out.Kids, nest(elems[i*size:(i+1)*size], dims[1:]))
			}
			return out
		}
		rows = nest(v.Kids, v.Dims)
		t, ok := rows.lit()
		if !ok {
			return "", nil, false
		}
		dims := make([]string, len(v.Dims))
		for i, d := range v.Dims {
			dims[i] = fmt.Sprint(d)
		}
		return fmt.Sprintf("(make-array '(%s) :initial-contents '%s)", strings.Join(dims, " "), t), []string{name, fmt.Sprintf("(array-dimensions %s)", name)}, true
	case "hash":
		src = "(let ((h (make-hash-table)))"
		probes = []string{fmt.Sprintf("(hash-table-count %s)", name)}
		for i := 0; i+1 < len(v.Kids); i += 2 {
			kt, ok1 := q(v.Kids[i])
			vt, ok2 := q(v.Kids[i+1])
			if !ok1 || !ok2 {
				return "", nil, false
			}
			src += fmt.Sprintf(" (setf (gethash %s h) %s)", kt, vt)
			probes = append(probes, fmt.Sprintf("(gethash %s %s)", kt, name))
		}
		return src + " h)", probes, true
	}
	t, ok := q(v)
	return t, []string{name}, ok
}

// c19Pick: k distinct indices below n
func c19Pick(r *lib.Rng, n, k int) []int {
	idx := make([]int, n)
	for i := range idx {
		idx[i] = i
	}
	for i := 0; i < k && i < n; i++ {
		j := i + r.Intn(n-i)
		idx[i], idx[j] = idx[j], idx[i]
	}
	if k > n {
		k = n
	}
	return idx[:k]
}

func c19RandSession(r *lib.Rng, listed func(string) bool) c19Session {
	g := &c19SessGen{r: r, listed: listed}
	n := 3 + r.Intn(10)
	for tries := 0; len(g.defs) < n && tries < 100; tries++ {
		g.addDef()
	}
	if r.Chance(25) {
		// the snapshot is written with the session's right margin
		m := []int{40, 60, 80, 100}[r.Intn(4)]
		g.defs = append([]c19Def{{Kind: "setq", Name: "*print-right-margin*", Forms: []string{fmt.Sprintf("(setq *print-right-margin* %d)", m)},
			Probes: []string{"*print-right-margin*"}}}, g.defs...)
	}
	// documentation is part of the restored world
	for i := range g.defs {
		d := &g.defs[i]
		if !strings.Contains(d.Forms[0], " \"Doc ") {
			continue
		}
		switch d.Kind {
		case "defvar", "defparameter", "defconstant":
			d.Probes = append(d.Probes, fmt.Sprintf("(documentation '%s 'variable)", d.Name))
		case "defun":
			d.Probes = append(d.Probes, fmt.Sprintf("(documentation '%s 'function)", d.Name))
		}
	}
	return c19Session{Defs: g.defs}
}

// ---------------------------------------------------------------------------------------------
// running a session

type c19SessResult struct {
	Sess       *c19Session
	Aspect     string // "" = the property holds
	Detail     string // part of the signature: failing form head / owner kind
	Observed   string
	Expected   string
	Snap1      string
	Snap2      string
	Invalid    string   // the session itself did not evaluate (not a verdict)
	Flaky      string   // a worker gave no usable reply (limit, could not start, died): run the session again alone
	Order      []string // flavors in the order of the first snapshot
	PkgOrder   []string // user packages in the order of the first snapshot
	ClassOrder []string // user classes and conditions in the order of the first snapshot
}

var c19HeaderRe = regexp.MustCompile(`^;;;; Snapshot taken at [^\n]*\n`)
var c19FlavorRe = regexp.MustCompile(`(?m)^\(defflavor (\S+)`)
var c19ClassRe = regexp.MustCompile(`(?m)^\((?:defclass|define-condition) (\S+)`)
var c19PackageRe = regexp.MustCompile(`(?m)^\(defpackage "([^"]+)"`)
var c19HeadRe = regexp.MustCompile(`^\(\s*([^\s()]+)(?:\s+([^\s()]+))?`)

// c19FormHead: "head" or "head name" of a top-level form text, package prefix removed
func c19FormHead(src string) (head, name string) {
	if i := strings.Index(src, "("); i > 0 && strings.HasPrefix(strings.TrimSpace(src), ";") {
		src = src[i:] // the snapshot's header comment (the worker reports one-line texts)
	}
	m := c19HeadRe.FindStringSubmatch(strings.TrimSpace(src))
	if m == nil {
		return "?", ""
	}
	name = m[2]
	if i := strings.LastIndex(name, "::"); i >= 0 {
		name = name[i+2:]
	}
	return strings.ToLower(m[1]), strings.Trim(strings.ToLower(name), "\"'")
}

// c19OwnerKind: the definition kind a name of the snapshot belongs to
func (s *c19Session) ownerKind(name string) string {
	for _, d := range s.Defs {
		if d.Name == name {
			return d.Kind
		}
	}
	for _, d := range s.Defs {
		for _, f := range d.Forms {
			if strings.Contains(f, " "+name+" ") || strings.Contains(f, " "+name+")") || strings.Contains(f, "::"+name+" ") {
				return d.Kind
			}
		}
	}
	return "builtin"
}

// c19RunSession runs a session; a session whose workers gave no usable reply is run again alone
// (no other worker of this harness running) with the generous limit, twice if need be. Only what
// the last run shows is a verdict: a worker that does not answer within c19WorkerLimitAlone while
// it is the only one is a hang of the implementation (host-fault), a worker that dies again alone
// is a crash of the implementation.
func c19RunSession(dir string, sess *c19Session) (res c19SessResult) {
	res = c19RunSessionLimit(dir, sess, c19WorkerLimit)
	return
}

var c19AloneMu sync.Mutex

func c19RunSessionAlone(dir string, sess *c19Session) (res c19SessResult) {
	c19AloneMu.Lock()
	defer c19AloneMu.Unlock()
	for try := 0; try < 3; try++ {
		res = c19RunSessionLimit(dir, sess, c19WorkerLimitAlone)
		if res.Flaky == "" {
			return
		}
	}
	// still no usable reply when run alone with the generous limit: that is the implementation
	if res.Aspect == "" {
		res.Aspect, res.Detail, res.Observed, res.Expected = "host-fault", "no-reply", res.Flaky+" (three runs alone)", "the worker answers"
		res.Invalid = ""
	}
	return
}

func c19RunSessionLimit(dir string, sess *c19Session, limit time.Duration) (res c19SessResult) {
	res.Sess = sess
	_ = os.RemoveAll(dir)
	probes, owner := sess.probes()
	forms := sess.forms()
	flaky := func(err error) bool {
		if f, ok := err.(*c19WorkerFlaky); ok {
			res.Flaky = f.why
			res.Invalid = "worker: " + f.why
			return true
		}
		return false
	}
	r1, err := c19RunWorkerLimit(dir, &c19Req{Mode: "session", Forms: forms, Probes: probes, Snap: true}, limit)
	if err != nil {
		if !flaky(err) {
			res.Invalid = "worker: " + err.Error()
		}
		return
	}
	if r1.Died {
		res.Flaky = r1.Panic
	}
	if r1.Panic != "" {
		res.Aspect, res.Detail, res.Observed, res.Expected = "host-fault", "session", r1.Panic, "the session evaluates"
		return
	}
	for i, o := range r1.Forms {
		if !o.Ok {
			res.Invalid = fmt.Sprintf("form %s failed: %s %s", forms[i], o.Class, o.Msg)
			return
		}
	}
	if r1.SnapErr != nil {
		res.Aspect, res.Detail = "host-fault", "snapshot"
		res.Observed, res.Expected = "(snapshot nil) failed: "+r1.SnapErr.Class+": "+r1.SnapErr.Msg, "a snapshot text"
		return
	}
	res.Snap1 = r1.Snapshot
	if err = os.WriteFile(filepath.Join(dir, "snap1.lisp"), []byte(r1.Snapshot), 0o644); err != nil {
		res.Invalid = err.Error()
		return
	}
	// order of the flavors in the snapshot
	for _, m := range c19FlavorRe.FindAllStringSubmatch(r1.Snapshot, -1) {
		res.Order = append(res.Order, strings.ToLower(m[1]))
	}
	for _, m := range c19PackageRe.FindAllStringSubmatch(r1.Snapshot, -1) {
		res.PkgOrder = append(res.PkgOrder, strings.ToLower(m[1]))
	}
	for _, m := range c19ClassRe.FindAllStringSubmatch(r1.Snapshot, -1) {
		res.ClassOrder = append(res.ClassOrder, strings.ToLower(m[1]))
	}
	r2, err := c19RunWorkerLimit(dir, &c19Req{Mode: "load", File: "snap1.lisp", Probes: probes, Snap: true}, limit)
	if err != nil {
		if !flaky(err) {
			res.Invalid = "worker: " + err.Error()
		}
		return
	}
	if r2.Died {
		res.Flaky = r2.Panic
	}
	if r2.Panic != "" {
		res.Aspect, res.Detail, res.Observed, res.Expected = "host-fault", "load", r2.Panic, "the snapshot loads"
		return
	}
	if r2.Load == nil || !r2.Load.Ok {
		// attribute to the first failing top-level form
		res.Aspect, res.Detail = "unreadable", "whole-file" // no single form fails when read and evaluated one by one
		res.Expected = "(load \"snapshot\") succeeds"
		if r2.Load != nil {
			res.Observed = "load: " + r2.Load.Class + ": " + r2.Load.Msg
		}
		r3, err3 := c19RunWorkerLimit(dir, &c19Req{Mode: "loadforms", File: "snap1.lisp"}, limit)
		if err3 != nil || r3.Died {
			// the attribution is part of the signature: without it the session has to be run again
			res.Flaky = "no reply from the worker that attributes the failed load"
			if err3 != nil {
				res.Flaky += ": " + err3.Error()
			}
		}
		if err3 == nil {
			for i, o := range r3.Forms {
				if !o.Ok {
					head, name := c19FormHead(r3.FormSrc[i])
					res.Detail = head + ":" + sess.ownerKind(name)
					res.Observed += fmt.Sprintf("; first failing form: %s => %s: %s", r3.FormSrc[i], o.Class, o.Msg)
					break
				}
			}
		}
		return
	}
	for i := range probes {
		a, b := r1.Probes[i], r2.Probes[i]
		if a.String() != b.String() {
			res.Aspect, res.Detail = "not-equal", sess.Defs[owner[i]].Kind
			res.Observed = fmt.Sprintf("%s => %s %s", probes[i], b.String(), b.Msg)
			res.Expected = fmt.Sprintf("%s => %s %s (in the original session)", probes[i], a.String(), a.Msg)
			return
		}
	}
	if r2.SnapErr != nil {
		res.Aspect, res.Detail = "host-fault", "snapshot-2"
		res.Observed, res.Expected = "(snapshot nil) failed after loading: "+r2.SnapErr.Class+": "+r2.SnapErr.Msg, "a snapshot text"
		return
	}
	res.Snap2 = r2.Snapshot
	t1, t2 := c19HeaderRe.ReplaceAllString(r1.Snapshot, ""), c19HeaderRe.ReplaceAllString(r2.Snapshot, "")
	if t1 != t2 {
		res.Aspect = "not-fixed-point"
		l1, l2 := strings.Split(t1, "\n"), strings.Split(t2, "\n")
		i := 0
		for i < len(l1) && i < len(l2) && l1[i] == l2[i] {
			i++
		}
		// the top-level form the first difference belongs to
		j := i
		if j >= len(l1) {
			j = len(l1) - 1
		}
		for j > 0 && !strings.HasPrefix(l1[j], "(") {
			j--
		}
		head, name := c19FormHead(l1[j])
		res.Detail = head + ":" + sess.ownerKind(name)
		get := func(l []string) string {
			if i < len(l) {
				return l[i]
			}
			return "<end of text>"
		}
		res.Observed = fmt.Sprintf("line %d of the second snapshot: %s", i+2, get(l2))
		res.Expected = fmt.Sprintf("line %d of the first snapshot: %s", i+2, get(l1))
	}
	return
}

var c19MethodRe = regexp.MustCompile(`^\(defmethod \((\S+) ([^)]*)\)`)

// c19SnapForms: the top-level forms of a snapshot text that belong to the session, in text order, as
// tokens of the model request `lf snapload`: <operator>|<name>|<need>,… with the needs taken from the
// SESSION (components, superclasses, used packages, the flavor of a method, the flavors/classes a value
// is an instance of, the classes the methods of a generic function are specialised on).
func c19SnapForms(sess *c19Session, text string) (tokens []string) {
	byName := map[string]*c19Def{}
	for i := range sess.Defs {
		byName[sess.Defs[i].Name] = &sess.Defs[i]
	}
	clean := func(n string) string { return strings.NewReplacer("|", "/", ",", "/", "=", "/", " ", "/").Replace(n) }
	for _, line := range strings.Split(text, "\n") {
		if !strings.HasPrefix(line, "(") {
			continue
		}
		if m := c19MethodRe.FindStringSubmatch(line); m != nil {
			if d := byName[strings.ToLower(m[1])]; d != nil && d.Kind == "defflavor" {
				tokens = append(tokens, fmt.Sprintf("defmethod|%s|defflavor=%s", clean(m[1]+"/"+m[2]), clean(d.Name)))
			}
			continue
		}
		head, name := c19FormHead(line)
		d := byName[name]
		if d == nil {
			continue
		}
		var needs []string
		dep := func(op string) {
			for _, x := range d.Deps {
				needs = append(needs, op+"="+clean(x))
			}
		}
		switch head {
		case "defflavor", "defpackage":
			dep(head)
		case "defclass", "define-condition":
			// no need: slip's defclass accepts superclasses that are defined later
		case "defconstant", "defgeneric":
			needs = append(needs, d.Needs...)
		case "setq":
			if d.Kind == "defvar" || d.Kind == "defparameter" {
				needs = append(needs, "defvar="+clean(name))
			}
			needs = append(needs, d.Needs...)
		case "use-package":
			if d.Kind != "defpackage" {
				continue
			}
			needs = append(needs, "defpackage="+clean(name))
		case "defvar", "defparameter", "defun", "defmacro":
		default:
			continue
		}
		tokens = append(tokens, fmt.Sprintf("%s|%s|%s", head, clean(name), strings.Join(needs, ",")))
	}
	return
}

func c19SessionKinds(s *c19Session) (n int, kinds map[string]bool) {
	kinds = map[string]bool{}
	for _, d := range s.Defs {
		kinds[d.Kind] = true
	}
	return len(s.Defs), kinds
}

func c19SessionSignature(res *c19SessResult) string {
	if res.Sess.Cell != "" {
		return fmt.Sprintf("session cell=%s aspect=%s at=%s", res.Sess.Cell, res.Aspect, res.Detail)
	}
	return fmt.Sprintf("session aspect=%s at=%s", res.Aspect, res.Detail)
}

func c19SessionReplay(res *c19SessResult) map[string]any {
	return map[string]any{"leg": "session", "session": res.Sess, "input": strings.Join(res.Sess.forms(), "\n"), "sweep": res.Sess.Cell != "",
		"observed": res.Observed, "expected": res.Expected, "flavor_order": res.Order,
		"expected_from": "property statement: snapshot -> fresh process -> load -> same probes, same snapshot text; model:lf.order for the order of definitions",
		"relies_on":     []string{"SlipVerif.LoadForm.topo_order_sound", "SlipVerif.LoadForm.snapshot_order_enumeration_independent"}}
}

func c19RunSessions(c *lib.Ctx) {
	listed := func(cell string) bool { return c.Findings.Listed("C19", "session cell="+cell+" ") }
	sessions := c19SessionSweep()
	nSweep := len(sessions)
	// the order witness depends on Go's map iteration order: repeat it
	for rep := 0; rep < c.Scale(3, 10); rep++ {
		for i := 0; i < nSweep; i++ {
			if strings.HasPrefix(sessions[i].Cell, "defflavor/order-witness") {
				sessions = append(sessions, sessions[i])
			}
		}
	}
	nRandom := c.Scale(120, 2000)
	for i := 0; i < nRandom; i++ {
		sessions = append(sessions, c19RandSession(c.Rng, listed))
	}
	// baseline gate: when the snapshot of an EMPTY session cannot be reloaded every other session
	// fails for that same reason; report the one cause only
	// the scratch directories belong to THIS process: a second check of the same property running in
	// the same verif root (another seed, a mutant) must not be able to remove or overwrite them
	base := filepath.Join(c.OutDir, fmt.Sprintf("sessions-%d", os.Getpid()))
	_ = os.RemoveAll(base)
	defer func() { _ = os.RemoveAll(base) }()
	base0 := c19RunSession(filepath.Join(base, "baseline"), &sessions[0])
	if base0.Flaky != "" {
		base0 = c19RunSessionAlone(filepath.Join(base, "baseline"), &sessions[0])
	}
	if base0.Invalid == "" && base0.Aspect != "" {
		c.Ev.Case("s:empty", false)
		c.Ev.Coverage["session_baseline_broken"] = base0.Aspect + ": " + base0.Observed
		c.Report(c19SessionSignature(&base0), true, c19SessionReplay(&base0))
		return
	}
	results := make([]c19SessResult, len(sessions))
	var wg sync.WaitGroup
	sem := make(chan struct{}, 8)
	for i := range sessions {
		wg.Add(1)
		sem <- struct{}{}
		go func(i int) {
			defer wg.Done()
			defer func() { <-sem }()
			results[i] = c19RunSession(filepath.Join(base, fmt.Sprintf("s%04d", i)), &sessions[i])
		}(i)
	}
	wg.Wait()
	// sessions whose workers gave no usable reply (limit hit on a loaded machine, fork failed, killed):
	// again, one at a time, with the generous limit; only that run counts
	for i := range results {
		if results[i].Flaky != "" {
			c.Ev.Count("sessions_rerun_alone", 1)
			fmt.Fprintf(os.Stderr, "c19: session %d run again alone: %s\n", i, c19OneLine(results[i].Flaky))
			results[i] = c19RunSessionAlone(filepath.Join(base, fmt.Sprintf("s%04d", i)), &sessions[i])
		}
	}
	// the order of the flavors and of the packages in each snapshot, judged by the model: `lf close`
	// flattens the session's direct components as slip does, `lf loads` defines them in the observed
	// order (loadFlavors: a definition needs its components defined), `lf order` is the model's order
	type orderCase struct {
		i        int
		kind     string
		observed []string
	}
	var cases []orderCase
	var closeReqs []string
	for i := range results {
		res := &results[i]
		if res.Invalid != "" {
			continue
		}
		// (classes: slip accepts a superclass defined after its subclasses, so the order of the class
		// section is not judged; the instances made from them are — probes, snapload)
		for _, kind := range []string{"defflavor", "defpackage"} {
			observed := res.Order
			if kind == "defpackage" {
				observed = res.PkgOrder
			}
			if kind == "defclass" {
				observed = res.ClassOrder
			}
			if len(observed) < 2 {
				continue
			}
			var defs []string
			for _, d := range res.Sess.Defs {
				if d.Kind == kind {
					defs = append(defs, d.Name+":"+strings.Join(d.Deps, ","))
				}
			}
			closeReqs = append(closeReqs, "lf close "+strings.Join(defs, " "))
			cases = append(cases, orderCase{i, kind, observed})
		}
	}
	closed := c.Model(closeReqs)
	var reqs2 []string
	for k, cl := range closed {
		nodes := map[string]string{}
		for _, n := range strings.Fields(strings.TrimPrefix(cl, "ok ")) {
			name, _, _ := strings.Cut(n, ":")
			nodes[name] = n
		}
		var observed []string
		for _, name := range cases[k].observed {
			if n, has := nodes[name]; has {
				observed = append(observed, n)
			}
		}
		cases[k].observed = nil
		for _, n := range observed {
			name, _, _ := strings.Cut(n, ":")
			cases[k].observed = append(cases[k].observed, name)
		}
		reqs2 = append(reqs2, "lf order "+strings.TrimPrefix(cl, "ok "), "lf loads "+strings.Join(observed, " "))
	}
	replies := c.Model(reqs2)
	agree := 0
	for k, oc := range cases {
		res := &results[oc.i]
		want := strings.Fields(strings.TrimPrefix(replies[2*k], "ok "))
		if strings.Join(want, " ") == strings.Join(oc.observed, " ") {
			agree++
		} else {
			c.Ev.Hist("order_differs_from_model", fmt.Sprintf("%s %d", oc.kind, len(want)))
		}
		c.Ev.Hist("order_cases_by_kind", oc.kind)
		if loads := strings.Fields(replies[2*k+1]); len(loads) >= 3 && loads[1] == "nil" && res.Aspect != "order" {
			// the model cannot make the definitions in the order of the snapshot
			res.Aspect, res.Detail = "order", oc.kind
			res.Observed = fmt.Sprintf("%s is written before a definition it needs: %s (load: %s)", loads[2], strings.Join(oc.observed, " "), res.Observed)
			res.Expected = "every definition after the definitions it inherits from / uses, e.g. the model's order " + strings.Join(want, " ")
		}
	}
	// the evaluation order of the whole snapshot (sections + the two passes of load), by the model:
	// `lf snapload` = loadForms (loadOrder hoistedHeads text). The model explains a failed load (which
	// form is evaluated before a definition it needs) and is compared with the implementation: a
	// snapshot the model cannot load must not load (needs are real), recorded in the evidence; a
	// verdict is given only by the implementation's own load and probes.
	var snapReqs []string
	var snapIdx []int
	for i := range results {
		res := &results[i]
		if res.Invalid != "" || res.Snap1 == "" {
			continue
		}
		if toks := c19SnapForms(res.Sess, res.Snap1); len(toks) > 0 {
			snapReqs = append(snapReqs, "lf snapload "+strings.Join(toks, " "))
			snapIdx = append(snapIdx, i)
		}
	}
	for k, rep := range c.Model(snapReqs) {
		res := &results[snapIdx[k]]
		f := strings.Fields(rep)
		if len(f) < 2 || f[0] != "ok" {
			fmt.Fprintf(os.Stderr, "c19: model rejected %s: %s\n", c19OneLine(snapReqs[k]), rep)
			c.Ev.Count("snapload_bad_request", 1)
			continue
		}
		loaded := res.Aspect != "unreadable" && !(res.Aspect == "host-fault" && res.Detail == "load")
		switch {
		case f[1] == "t" && loaded:
			c.Ev.Count("snapload_model_and_load_ok", 1)
		case f[1] == "nil" && !loaded:
			c.Ev.Count("snapload_model_predicts_failed_load", 1)
			if res.Detail == "whole-file" && len(f) >= 3 {
				// every form evaluates when read and evaluated one by one, (load file) fails: the cause is
				// the order in which load evaluates the forms, and the model names the form. The same
				// construct must have the same signature wherever the snapshot writes the form.
				if head, name, ok := strings.Cut(f[2], "|"); ok {
					res.Detail = head + ":" + res.Sess.ownerKind(name)
				}
			}
			res.Observed += "; model (lf snapload): " + strings.Join(f[2:], " ") + " is evaluated before a definition it needs (load evaluates defun/defmacro/defvar/defparameter/defconstant forms first)"
		case f[1] == "nil" && loaded:
			// the model demands a definition the implementation did not need: never a verdict
			c.Ev.Count("snapload_model_stricter_than_load", 1)
			fmt.Fprintf(os.Stderr, "c19: the model cannot load a snapshot that loads: %s (%s)\n", strings.Join(f[2:], " "), res.Sess.Cell)
		default:
			c.Ev.Count("snapload_load_failed_for_another_reason", 1)
		}
	}
	c.Ev.Coverage["snapload_cases"] = len(snapReqs)
	if tb := c.Model([]string{"lf sections"}); len(tb) == 1 {
		c.Ev.Coverage["model_sections_and_first_pass"] = tb[0]
	}
	if c.GenBroken != "" {
		c.Ev.Coverage["witness_search_for_broken_obligation"] = c.GenBroken
	}
	orderIdx := cases
	invalid := 0
	for i := range results {
		res := &results[i]
		n, kinds := c19SessionKinds(res.Sess)
		c.Ev.Case("s:"+strings.Join(res.Sess.forms(), "\n"), n >= 3 && len(kinds) >= 2)
		c.Ev.Hist("session_defs", fmt.Sprint(n))
		for _, d := range res.Sess.Defs {
			c.Ev.Hist("session_def_kind", d.Kind)
		}
		if res.Invalid != "" {
			invalid++
			c.Ev.Hist("session_invalid", c19OneLine(res.Invalid))
			if res.Sess.Cell != "" {
				// a sweep cell whose own forms do not evaluate is a harness error on the unchanged tree
				fmt.Fprintf(os.Stderr, "c19: sweep session %s is invalid: %s\n", res.Sess.Cell, res.Invalid)
				c.Ev.Count("sweep_sessions_invalid", 1)
			}
			continue
		}
		c.Ev.Count("sessions_run", 1)
		if i%(len(results)/4+1) == 0 {
			c.Ev.Sample(map[string]any{"leg": "session", "forms": res.Sess.forms()})
		}
		if res.Aspect != "" {
			c.Report(c19SessionSignature(res), res.Sess.Cell != "", c19SessionReplay(res))
		}
	}
	c.Ev.Coverage["order_cases"] = len(orderIdx)
	c.Ev.Coverage["order_agrees_with_model"] = agree
	c.Ev.Coverage["session_cases"] = len(sessions)
	c.Ev.Coverage["session_sweep_cells"] = nSweep
	c.Ev.Coverage["sessions_invalid"] = invalid
	if invalid*5 > len(sessions) {
		fmt.Fprintf(os.Stderr, "c19: %d of %d sessions did not evaluate — generator or environment broken\n", invalid, len(sessions))
		os.Exit(2)
	}
}

// c19ModelOrder applies the model's verdict on the flavor order of one session result.
func c19ModelOrder(c *lib.Ctx, res *c19SessResult) {
	c19ModelOrderOf(c, res, "defflavor", res.Order)
	c19ModelOrderOf(c, res, "defpackage", res.PkgOrder)
}

func c19ModelOrderOf(c *lib.Ctx, res *c19SessResult, kind string, order []string) {
	if len(order) < 2 || res.Aspect == "order" {
		return
	}
	var defs []string
	for _, d := range res.Sess.Defs {
		if d.Kind == kind {
			defs = append(defs, d.Name+":"+strings.Join(d.Deps, ","))
		}
	}
	cl := c.Model([]string{"lf close " + strings.Join(defs, " ")})[0]
	nodes := map[string]string{}
	for _, n := range strings.Fields(strings.TrimPrefix(cl, "ok ")) {
		name, _, _ := strings.Cut(n, ":")
		nodes[name] = n
	}
	var observed []string
	for _, name := range order {
		if n, has := nodes[name]; has {
			observed = append(observed, n)
		}
	}
	if loads := strings.Fields(c.Model([]string{"lf loads " + strings.Join(observed, " ")})[0]); len(loads) >= 3 && loads[1] == "nil" {
		res.Aspect, res.Detail = "order", kind
		res.Observed = fmt.Sprintf("%s is written before a definition it needs: %s", loads[2], strings.Join(order, " "))
		res.Expected = "every definition after the definitions it inherits from / uses"
	}
}

func jsonUnmarshal(b []byte, v any) error { return json.Unmarshal(b, v) }

func c19ReplaySession(c *lib.Ctx, rec map[string]any) {
	raw := mustJSON(rec["session"])
	sess := &c19Session{}
	if err := jsonUnmarshal(raw, sess); err != nil {
		fmt.Println("replay file has no usable session:", err)
		return
	}
	dir := filepath.Join(c.OutDir, fmt.Sprintf("replay-session-%d", os.Getpid()))
	defer func() { _ = os.RemoveAll(dir) }()
	reps := 1
	if strings.HasPrefix(sess.Cell, "defflavor/order-witness") {
		reps = 12 // depends on Go's map iteration order
	}
	fmt.Printf("replay session\n  %s\n", strings.Join(sess.forms(), "\n  "))
	for i := 0; i < reps; i++ {
		res := c19RunSessionAlone(dir, sess)
		if res.Invalid != "" {
			fmt.Println("  the session does not evaluate:", res.Invalid)
			return
		}
		c19ModelOrder(c, &res)
		if res.Aspect != "" {
			fmt.Printf("  %s at %s\n  observed: %s\n  expected: %s\n", res.Aspect, res.Detail, res.Observed, res.Expected)
			c.Report(c19SessionSignature(&res), false, map[string]any{"observed": res.Observed, "expected": res.Expected})
			return
		}
	}
	fmt.Println("  snapshot -> load -> snapshot is a fixed point and all probes agree")
}
