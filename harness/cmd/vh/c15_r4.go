package main

// C15, extension round 4 — three families that close classes of changes the earlier rounds could not see.
//
// (1) CHARACTERS of every UTF-8 length class (mode fmt): ~C ~:C ~@C ~:@C ~A ~S, characters inside lists
//     and in the lists of ~{, for code points at every encoding boundary (U+007F/80, U+07FF/800,
//     U+FFFF/10000, around the surrogates, U+10FFFF), the whole Latin-1 supplement, the C0 controls
//     (named / u00hh) — compared with the model's utf8Enc / charSpelled (Theorems: utf8_decode_encode …).
//
// (2) PRINTER VARIABLES and STATE ACROSS THE DIRECTIVES OF ONE CALL (mode env): the call is evaluated
//     inside (let ((*print-base* …) (*print-radix* …) (*print-case* …) (*print-escape* …) (*print-pretty* …)
//     (*print-readably* …)) …). Every pair "directive with an unusual argument class" (an integer
//     directive given a string / symbol / nil / list, a float directive given a non-number, …) → "later
//     directive whose output depends on the printer variables" (~A ~S of integers, lists, symbols, in
//     blocks, padded). Three checks per case: the text is the model's (formatTextEnv: base and radix are
//     the context of the whole call, no directive can change them for a later one); the text of the call
//     is the concatenation of the texts of its directives evaluated in SEPARATE calls (composition:
//     Theorems.C15Runs.runs_append); ~A / ~S alone equal princ-to-string / prin1-to-string under the same
//     bindings.
//
// (3) ~R / ~:R over ALL magnitudes (mode rlist): exhaustive 0..200 000 (quick) / 0..1 000 000 (thorough)
//     and every period boundary 1000^p (p = 1..21) x teen / ten / one / hundred groups x low parts, both
//     signs, cardinal and ordinal — against the model (batched: one model request per 5000 numbers) and
//     against the independent Go oracle.

import (
	"fmt"
	"math/big"
	"os"
	"strings"
	"unicode"
	"verif/harness/lib"
)

// ---------------------------------------------------------------------------------------------
// (1) characters

func c15CharClassesR4() []argClass {
	var latin1 []fArg
	for c := rune(0x80); c <= 0xff; c++ {
		latin1 = append(latin1, aChr(c))
	}
	var c0 []fArg
	for c := rune(0); c < 0x20; c++ {
		c0 = append(c0, aChr(c))
	}
	return []argClass{
		{"utf8-1-byte-top", []fArg{aChr(0x7e), aChr(0x7f), aChr('A'), aChr('!')}},
		{"c0-control", c0},
		{"latin1-supplement", latin1},
		{"utf8-2-byte", []fArg{aChr(0x100), aChr(0x17f), aChr(0x3c0), aChr(0x416), aChr(0x7ff)}},
		{"utf8-3-byte", []fArg{aChr(0x800), aChr(0x20ac), aChr(0x65e5), aChr(0xd7ff), aChr(0xe000), aChr(0xfeff), aChr(0xfffd), aChr(0xffff)}},
		{"utf8-4-byte", []fArg{aChr(0x10000), aChr(0x1f600), aChr(0xfffff), aChr(0x100000), aChr(0x10ffff)}},
	}
}

func c15CellsChars() []r3Cell {
	var out []r3Cell
	for _, ac := range c15CharClassesR4() {
		for _, v := range ac.vals {
			for _, m := range c15Mods {
				out = append(out, r3Cell{cell: cellKey("c", m, "none", "char-"+ac.name), ctrl: "<~" + m + "c>", args: []fArg{v}})
			}
			for _, d := range []string{"a", "s"} {
				out = append(out, r3Cell{cell: cellKey(d, "", "none", "char-"+ac.name), ctrl: "<~" + d + ">", args: []fArg{v}})
				out = append(out, r3Cell{cell: cellKey(d, "", "none", "char-"+ac.name) + " ctx=in-list", ctrl: "<~" + d + ">", args: []fArg{aList(aInt(1), v, aList(v))}})
			}
			out = append(out, r3Cell{cell: cellKey("c", "@", "none", "char-"+ac.name) + " ctx=in-{", ctrl: "<~{~@c~c~:c,~}>", args: []fArg{aList(v, v, v, aChr('x'), v, v)}})
		}
	}
	// strings with characters of every length class pass through ~A unchanged and ~S only adds the quotes
	for _, s := range []string{"é", "ÿ\u0080", "日本語", "a😀b", "mixed é 日 😀 \"q\" \\"} {
		for _, d := range []string{"a", "s"} {
			out = append(out, r3Cell{cell: cellKey(d, "", "none", "string-non-ascii"), ctrl: "<~" + d + ">", args: []fArg{aStr(s)}})
			if d == "s" { // (princ of a string INSIDE a list is the printer's business: slip keeps the quotes)
				out = append(out, r3Cell{cell: cellKey(d, "", "none", "string-non-ascii") + " ctx=in-list", ctrl: "<~" + d + ">", args: []fArg{aList(aStr(s), aInt(2))}})
			}
		}
	}
	return out
}

// ---------------------------------------------------------------------------------------------
// (2) printer variables

// fBind: one binding of the let around the call
type fBind struct {
	Var string `json:"var"`
	Val string `json:"val"`
}

type envSpec struct {
	name  string
	binds []fBind
}

func (e envSpec) get(v, dflt string) string {
	for _, b := range e.binds {
		if b.Var == v {
			return b.Val
		}
	}
	return dflt
}

func c15EnvBase(binds []fBind) (base string, radix string, kase string) {
	base, radix, kase = "10", "0", ":downcase"
	for _, b := range binds {
		switch b.Var {
		case "*print-base*":
			base = b.Val
		case "*print-radix*":
			if b.Val != "nil" {
				radix = "1"
			}
		case "*print-case*":
			kase = b.Val
		}
	}
	return
}

func c15Envs() []envSpec {
	b := func(kv ...string) []fBind {
		var out []fBind
		for i := 0; i+1 < len(kv); i += 2 {
			out = append(out, fBind{kv[i], kv[i+1]})
		}
		return out
	}
	return []envSpec{
		{"base16", b("*print-base*", "16")},
		{"base16-radix", b("*print-base*", "16", "*print-radix*", "t")},
		{"base2-radix", b("*print-base*", "2", "*print-radix*", "t")},
		{"base10-radix", b("*print-radix*", "t")},
		{"upcase", b("*print-case*", ":upcase")},
		{"all", b("*print-base*", "8", "*print-radix*", "t", "*print-case*", ":upcase", "*print-escape*", "nil", "*print-pretty*", "nil", "*print-readably*", "nil")},
		// the envs below get the single directives and a thinner pair matrix
		{"base8-radix", b("*print-base*", "8", "*print-radix*", "t")},
		{"base3-radix", b("*print-base*", "3", "*print-radix*", "t")},
		{"base36-radix", b("*print-base*", "36", "*print-radix*", "t")},
		{"base36", b("*print-base*", "36")},
		{"base7", b("*print-base*", "7")},
		{"base10-explicit", b("*print-base*", "10", "*print-radix*", "nil")},
		{"escape-nil", b("*print-escape*", "nil")},
		{"escape-t-readably", b("*print-escape*", "t", "*print-readably*", "t")},
		{"pretty-nil", b("*print-pretty*", "nil")},
		{"pretty-t-base2", b("*print-pretty*", "t", "*print-base*", "2")},
		{"capitalize", b("*print-case*", ":capitalize")},
	}
}

// envUnit: one directive with its arguments, as a part of an env call
type envUnit struct {
	name      string
	ctrl      string
	args      []fArg
	print     string // "princ" / "prin1": the unit is a bare ~A / ~S and must equal that function's text
	noModel   bool   // float directives: outside the model, only the two implementation relations
	symbol    bool   // prints a symbol (the model gets the name in the case of *print-case*)
	symPrin1  bool   // prin1 of a symbol: escaped when the name reads as a number in the base — not with base > 10
	multiword bool   // symbol names slip's :capitalize treats its own way (printer's business): not under :capitalize
	nilPrint  bool   // prints nil, which is a symbol: only under the default *print-case*
}

func c15EnvFirsts() []envUnit {
	big70 := new(big.Int).Add(pow2(70), big.NewInt(5))
	_ = big70
	return []envUnit{
		{name: "d-string", ctrl: "~d", args: []fArg{aStr("n/a")}},
		{name: "d-nil", ctrl: "~d", args: []fArg{aNil()}, nilPrint: true},
		{name: "d-symbol", ctrl: "~d", args: []fArg{aSym("foo")}, symbol: true},
		{name: "d-char", ctrl: "~d", args: []fArg{aChr('c')}},
		{name: "d-list", ctrl: "~d", args: []fArg{aList(aChr('c'), aList(aChr('d'), aChr('e')))}},
		{name: "d-colon-string", ctrl: "~:d", args: []fArg{aStr("abcdef")}},
		{name: "d-mincol-string", ctrl: "~8d", args: []fArg{aStr("x")}},
		{name: "d-at-string", ctrl: "~@d", args: []fArg{aStr("x")}},
		{name: "b-string", ctrl: "~b", args: []fArg{aStr("x")}},
		{name: "o-symbol", ctrl: "~o", args: []fArg{aSym("foo")}, symbol: true},
		{name: "x-string", ctrl: "~x", args: []fArg{aStr("beef")}},
		{name: "x-nil", ctrl: "~x", args: []fArg{aNil()}, nilPrint: true},
		{name: "r8-string", ctrl: "~8r", args: []fArg{aStr("x")}},
		{name: "r16-mincol-nil", ctrl: "~16,6r", args: []fArg{aNil()}, nilPrint: true},
		{name: "f-string", ctrl: "~f", args: []fArg{aRaw(`"x"`)}, noModel: true},
		{name: "f-float", ctrl: "~f", args: []fArg{aRaw("2.5")}, noModel: true},
		{name: "f-integer", ctrl: "~f", args: []fArg{aRaw("255")}, noModel: true},
		{name: "dollar-float", ctrl: "~$", args: []fArg{aRaw("2.5")}, noModel: true},
		{name: "e-integer", ctrl: "~e", args: []fArg{aRaw("255")}, noModel: true},
		{name: "d-integer", ctrl: "~d", args: []fArg{aInt(255)}},
		{name: "d-colon-integer", ctrl: "~:d", args: []fArg{aInt(-2550000)}},
		{name: "x-integer", ctrl: "~x", args: []fArg{aInt(255)}},
		{name: "r3-integer", ctrl: "~3r", args: []fArg{aInt(255)}},
		{name: "r-cardinal", ctrl: "~r", args: []fArg{aInt(255)}},
		{name: "r-ordinal", ctrl: "~:r", args: []fArg{aInt(13013)}},
		{name: "r-roman", ctrl: "~@r", args: []fArg{aInt(255)}},
		{name: "a-string", ctrl: "~a", args: []fArg{aStr(`q"q`)}, print: "princ"},
		{name: "s-string", ctrl: "~s", args: []fArg{aStr(`q"q`)}, print: "prin1"},
		{name: "c-char", ctrl: "~c", args: []fArg{aChr('c')}},
		{name: "c-at-char", ctrl: "~@c", args: []fArg{aChr(0xe9)}},
		{name: "p-integer", ctrl: "~p", args: []fArg{aInt(255)}},
		{name: "cond-integer", ctrl: "~[a~;b~:;c~]", args: []fArg{aInt(1)}},
		{name: "a-integer", ctrl: "~a", args: []fArg{aInt(254)}, print: "princ"},
	}
}

func c15EnvLaters() []envUnit {
	negBig := new(big.Int).Neg(new(big.Int).Add(pow2(70), big.NewInt(5)))
	return []envUnit{
		{name: "a-integer", ctrl: "~a", args: []fArg{aInt(255)}, print: "princ"},
		{name: "s-integer", ctrl: "~s", args: []fArg{aInt(255)}, print: "prin1"},
		{name: "a-negative-bignum", ctrl: "~a", args: []fArg{aBig(negBig)}, print: "princ"},
		{name: "s-zero", ctrl: "~s", args: []fArg{aInt(0)}, print: "prin1"},
		{name: "s-ten", ctrl: "~s", args: []fArg{aInt(10)}, print: "prin1"},
		{name: "a-list", ctrl: "~a", args: []fArg{aList(aInt(10), aList(aInt(11), aInt(255)), aInt(-12))}, print: "princ"},
		{name: "s-list", ctrl: "~s", args: []fArg{aList(aInt(10), aStr("s"), aChr('c'), aInt(255))}, print: "prin1"},
		{name: "a-mincol", ctrl: "~10a", args: []fArg{aInt(255)}},
		{name: "s-mincol-at", ctrl: "~10@s", args: []fArg{aInt(255)}},
		{name: "a-v-mincol", ctrl: "~v,,,'.a", args: []fArg{aInt(12), aInt(255)}},
		{name: "a-symbol", ctrl: "~a", args: []fArg{aSym("foo")}, print: "princ", symbol: true},
		{name: "s-symbol", ctrl: "~s", args: []fArg{aSym("ghij-klm")}, print: "prin1", symbol: true, symPrin1: true, multiword: true},
		{name: "a-keyword", ctrl: "~a", args: []fArg{aSym(":key")}, print: "princ", symbol: true, multiword: true},
		{name: "a-string-quote", ctrl: "~a", args: []fArg{aStr(`q"q`)}, print: "princ"},
		{name: "s-string-quote", ctrl: "~s", args: []fArg{aStr(`q"q\`)}, print: "prin1"},
		{name: "s-char", ctrl: "~s", args: []fArg{aChr('a')}, print: "prin1"},
		{name: "a-char", ctrl: "~a", args: []fArg{aChr('a')}, print: "princ"},
		{name: "iter-a", ctrl: "~{~a,~}", args: []fArg{aList(aInt(10), aInt(11), aInt(255))}},
		{name: "iter-at-s", ctrl: "~2@{~s;~}", args: []fArg{aInt(10), aInt(255)}},
		{name: "sublists-a", ctrl: "~:{~a=~s ~}", args: []fArg{aList(aList(aInt(10), aInt(11)), aList(aInt(255), aInt(-255)))}},
		{name: "case-a", ctrl: "~:@(~a~)", args: []fArg{aInt(255)}},
		{name: "recur-a-s", ctrl: "~?", args: []fArg{aStr("~a/~s"), aList(aInt(255), aInt(254))}},
		{name: "cond-at-a", ctrl: "~@[~a~]", args: []fArg{aInt(255)}},
		{name: "cond-colon-s", ctrl: "~:[no~;~:*~s~]", args: []fArg{aInt(255)}},
		{name: "d-integer", ctrl: "~d", args: []fArg{aInt(255)}},
		{name: "d-string-then-s", ctrl: "~d~s", args: []fArg{aStr("z"), aInt(255)}},
	}
}

func (u envUnit) allowed(e envSpec) bool {
	base, _, kase := c15EnvBase(e.binds)
	var bn int
	fmt.Sscan(base, &bn)
	if u.symPrin1 && bn > 16 {
		return false // the name could read as a number in that base: prin1 escapes it (the printer's business)
	}
	if u.symbol && bn > 24 {
		return false // "foo" could read as a number (o = 24): slip's printer escapes it even for princ (the printer's business)
	}
	if kase == ":capitalize" && u.multiword {
		return false
	}
	if kase != ":downcase" && u.nilPrint {
		return false
	}
	return true
}

const c15EnvSep = "|"

func c15EnvCase(e envSpec, cell string, sweep bool, units ...envUnit) fCase {
	cs := fCase{Mode: "env", Cell: cell, Sweep: sweep, Env: e.binds}
	var ctrls []string
	for _, u := range units {
		cs.Units = append(cs.Units, fUnit{Ctrl: u.ctrl, Args: u.args, Print: u.print, NoModel: u.noModel})
		cs.Args = append(cs.Args, u.args...)
		ctrls = append(ctrls, u.ctrl)
	}
	cs.Ctrl = strings.Join(ctrls, c15EnvSep)
	return cs
}

func c15EnvCases(thorough bool) []fCase {
	var out []fCase
	inst := map[string]int{}
	push := func(cs fCase) {
		cs.Inst = inst[cs.Cell]
		inst[cs.Cell]++
		out = append(out, cs)
	}
	firsts, laters := c15EnvFirsts(), c15EnvLaters()
	for ei, e := range c15Envs() {
		// every directive alone
		for _, u := range append(append([]envUnit{}, firsts...), laters...) {
			if u.allowed(e) {
				push(c15EnvCase(e, fmt.Sprintf("rel=env env=%s single=%s", e.name, u.name), true, u))
			}
		}
		// pairs: unusual argument class first, printer dependent directive later (and the reverse order for the
		// integer directives, so that the cell tells which direction carries state)
		for fi, f := range firsts {
			if !f.allowed(e) {
				continue
			}
			for li, l := range laters {
				if !l.allowed(e) {
					continue
				}
				if ei >= 6 && !thorough && (fi+li+ei)%5 != 0 {
					continue
				}
				push(c15EnvCase(e, fmt.Sprintf("rel=env env=%s first=%s then=printer-dependent", e.name, f.name), true, f, l))
				if fi < 14 && li < 7 {
					push(c15EnvCase(e, fmt.Sprintf("rel=env env=%s first=printer-dependent then=%s", e.name, f.name), true, l, f, l))
				}
			}
		}
		// the non-integer fallback of the integer directives prints integers INSIDE its argument in decimal
		// without a radix marker (Common Lisp 22.3.2.2: ~D binds *print-base* 10 and *print-radix* nil)
		for _, d := range []string{"~d", "~:d", "~9d", "~x", "~8r"} {
			if ei >= 6 {
				break // base16-radix, base2-radix, base10-radix, all (and three environments without a radix marker)
			}
			push(c15EnvCase(e, fmt.Sprintf("rel=env env=%s dir=%s arg=list-of-integers ctx=non-integer-fallback", e.name, strings.TrimPrefix(d, "~")), true,
				envUnit{ctrl: d, args: []fArg{aList(aInt(255), aList(aInt(-10)))}}))
		}
	}
	return out
}

// c15EnvComposite: seeded — a random environment and 2..4 units from both pools in any order
func c15EnvComposite(rng *lib.Rng, n int, avoid func(string) bool) []fCase {
	var out []fCase
	envs := c15Envs()
	pool := append(append([]envUnit{}, c15EnvFirsts()...), c15EnvLaters()...)
	bases := []string{"2", "3", "5", "8", "10", "12", "16", "20", "32", "36"}
	for len(out) < n {
		var e envSpec
		if rng.Intn(3) == 0 {
			e = envs[rng.Intn(len(envs))]
		} else {
			e = envSpec{name: "random"}
			e.binds = append(e.binds, fBind{"*print-base*", bases[rng.Intn(len(bases))]})
			if rng.Intn(2) == 0 {
				e.binds = append(e.binds, fBind{"*print-radix*", "t"})
			}
			if rng.Intn(3) == 0 {
				e.binds = append(e.binds, fBind{"*print-case*", ":upcase"})
			}
			if rng.Intn(3) == 0 {
				e.binds = append(e.binds, fBind{"*print-escape*", []string{"nil", "t"}[rng.Intn(2)]})
			}
			if rng.Intn(3) == 0 {
				e.binds = append(e.binds, fBind{"*print-pretty*", []string{"nil", "t"}[rng.Intn(2)]})
			}
		}
		k := 2 + rng.Intn(3)
		var units []envUnit
		for len(units) < k {
			u := pool[rng.Intn(len(pool))]
			if !u.allowed(e) {
				continue
			}
			// class preserving perturbation of integer arguments
			args := make([]fArg, len(u.args))
			copy(args, u.args)
			for i, a := range args {
				if a.Kind == "i" && u.ctrl != "~[a~;b~:;c~]" && !strings.Contains(u.ctrl, "v") && u.ctrl != "~@r" {
					v := int64(rng.Intn(5000)) - 1000
					if rng.Intn(4) == 0 {
						args[i] = aBig(new(big.Int).Mul(big.NewInt(v), pow2(uint(40+rng.Intn(60)))))
					} else {
						args[i] = aInt(v)
					}
				}
			}
			u.args = args
			units = append(units, u)
		}
		out = append(out, c15EnvCase(e, "", false, units...))
	}
	return out
}

// c15CaseSymbol: the printed name of a symbol under *print-case*
func c15CaseSymbol(name, kase string) string {
	switch kase {
	case ":upcase":
		return strings.ToUpper(name)
	case ":capitalize":
		rs := []rune(name)
		for i, r := range rs {
			if unicode.IsLetter(r) {
				rs[i] = unicode.ToUpper(r)
				break
			}
		}
		return string(rs)
	}
	return name
}

func c15WireCase(a fArg, kase string, out []string) []string {
	switch a.Kind {
	case "y":
		return append(out, "y:"+hexOf(c15CaseSymbol(a.Str, kase)))
	case "l":
		out = append(out, fmt.Sprintf("L%d", len(a.List)))
		for _, x := range a.List {
			out = c15WireCase(x, kase, out)
		}
		return out
	}
	return a.wire(out)
}

func hexOf(s string) string {
	if s == "" {
		return "-"
	}
	return fmt.Sprintf("%x", s)
}

func c15EnvRequest(cs fCase) string {
	base, radix, kase := c15EnvBase(cs.Env)
	parts := []string{"fmt", "runenv", base, radix, hexOf(cs.Ctrl)}
	for _, a := range cs.Args {
		parts = c15WireCase(a, kase, parts)
	}
	return strings.Join(parts, " ")
}

func c15EnvLet(binds []fBind) string {
	var b strings.Builder
	b.WriteString("(let (")
	for i, x := range binds {
		if i > 0 {
			b.WriteByte(' ')
		}
		fmt.Fprintf(&b, "(%s %s)", x.Var, x.Val)
	}
	b.WriteString(") ")
	return b.String()
}

// c15EnvAspect: the three checks of an env case. impl.Text = the whole call; impl.Extra = one entry per
// unit (its text in a call of its own), then "pf<k> …" entries for the print-function relation.
func c15EnvAspect(cs fCase, impl implResult, model string) string {
	if impl.Hang {
		return "hang"
	}
	if impl.Mutated {
		return "argument-mutated"
	}
	if model != "" {
		if a := c15Aspect(cs, impl, model); a != "" {
			return a
		}
	}
	if len(impl.Extra) < len(cs.Units) {
		return "harness-missing-observations"
	}
	var parts []string
	partsOk := true
	for k := range cs.Units {
		if !strings.HasPrefix(impl.Extra[k], "ok ") {
			partsOk = false
			break
		}
		parts = append(parts, strings.TrimPrefix(impl.Extra[k], "ok "))
	}
	switch {
	case impl.Ok && partsOk:
		if strings.Join(parts, c15EnvSep) != impl.Text {
			return "call-differs-from-its-directives-in-separate-calls"
		}
	case impl.Ok != partsOk:
		return "call-vs-separate-calls-condition"
	}
	for _, e := range impl.Extra[len(cs.Units):] {
		var k int
		var rest string
		if i := strings.IndexByte(e, ' '); i > 2 {
			fmt.Sscanf(e[2:i], "%d", &k)
			rest = e[i+1:]
		}
		if k < len(cs.Units) && impl.Extra[k] != rest {
			return fmt.Sprintf("directive%d-differs-from-%s-to-string", k+1, cs.Units[k].Print)
		}
	}
	return ""
}

// ---------------------------------------------------------------------------------------------
// (3) ~R / ~:R over all magnitudes

const c15RBatch = 5000

func c15RListCases(thorough bool) []fCase {
	var out []fCase
	lim := int64(200000)
	if thorough {
		lim = 1000000
	}
	for _, ctrl := range []string{"~r", "~:r"} {
		for lo := int64(0); lo < lim; lo += c15RBatch {
			cs := fCase{Mode: "rlist", Ctrl: ctrl, Sweep: true, Cell: fmt.Sprintf("rel=range dir=r mods=%s params=none arg=%d..%d", strings.Trim(ctrl, "~r"), lo, lo+c15RBatch-1)}
			for n := lo; n < lo+c15RBatch; n++ {
				cs.Args = append(cs.Args, aInt(n))
			}
			out = append(out, cs)
		}
	}
	// every period boundary x groups x low parts
	groups := []int64{1, 2, 9, 10, 11, 12, 13, 15, 19, 20, 21, 30, 40, 55, 90, 99, 100, 101, 110, 113, 119, 120, 200, 319, 999}
	lows := []int64{0, 1, 10, 13, 20, 21, 100, 113, 999}
	thousand := big.NewInt(1000)
	for _, ctrl := range []string{"~r", "~:r"} {
		for p := int64(1); p <= 21; p++ {
			pp := new(big.Int).Exp(thousand, big.NewInt(p), nil)
			below := new(big.Int).Exp(thousand, big.NewInt(p-1), nil)
			cs := fCase{Mode: "rlist", Ctrl: ctrl, Sweep: true, Cell: fmt.Sprintf("rel=range dir=r mods=%s params=none arg=period-%d-boundary", strings.Trim(ctrl, "~r"), p)}
			for _, g := range groups {
				gv := new(big.Int).Mul(big.NewInt(g), pp)
				for _, l := range lows {
					n := new(big.Int).Add(gv, big.NewInt(l))
					cs.Args = append(cs.Args, aBig(n))
					if l == 13 || l == 0 {
						cs.Args = append(cs.Args, aBig(new(big.Int).Neg(n)))
					}
					if p >= 2 && (l == 0 || l == 13) {
						// a teen / a round ten in the period just below
						for _, mid := range []int64{13, 20, 110} {
							m := new(big.Int).Add(n, new(big.Int).Mul(big.NewInt(mid), below))
							cs.Args = append(cs.Args, aBig(m))
						}
					}
				}
			}
			// the last value below the boundary and the boundary itself
			cs.Args = append(cs.Args, aBig(new(big.Int).Sub(pp, big.NewInt(1))), aBig(pp))
			out = append(out, cs)
		}
		// beyond the table: rejected by both
		cs := fCase{Mode: "rlist", Ctrl: ctrl, Sweep: true, Cell: fmt.Sprintf("rel=range dir=r mods=%s params=none arg=beyond-table", strings.Trim(ctrl, "~r"))}
		top := new(big.Int).Exp(thousand, big.NewInt(22), nil)
		cs.Args = append(cs.Args, aBig(new(big.Int).Sub(top, big.NewInt(1))), aBig(top), aBig(new(big.Int).Neg(top)), aBig(new(big.Int).Mul(top, big.NewInt(13))))
		out = append(out, cs)
	}
	return out
}

func c15RListRequest(cs fCase) string {
	parts := []string{"fmt", "rlist", hexOf(cs.Ctrl)}
	for _, a := range cs.Args {
		parts = append(parts, a.Int)
	}
	return strings.Join(parts, " ")
}

// c15RListFirstBad: index of the first number whose text differs from the model's (or, when both agree,
// from the oracle's); -1 = none. kind = "text" / "condition" / "no-condition" / "text-vs-oracle"
func c15RListFirstBad(cs fCase, impl implResult, model string) (idx int, kind, got, want string) {
	mt, mok, _ := c15ModelText(model)
	if !mok {
		fmt.Fprintf(os.Stderr, "harness bug: the model answered %q for the batch %s\n", c15Clip(model), cs.lisp())
		os.Exit(2)
	}
	il := strings.Split(strings.TrimSuffix(impl.Text, "\n"), "\n")
	ml := strings.Split(strings.TrimSuffix(mt, "\n"), "\n")
	if len(il) != len(cs.Args) || len(ml) != len(cs.Args) {
		fmt.Fprintf(os.Stderr, "harness bug: batch %s: %d integers, %d lines from the implementation, %d from the model\n", cs.lisp(), len(cs.Args), len(il), len(ml))
		os.Exit(2)
	}
	for i := range cs.Args {
		if il[i] != ml[i] {
			k := "text"
			if il[i] == "!" {
				k = "condition"
			} else if ml[i] == "!" {
				k = "no-condition"
			}
			return i, k, il[i], ml[i]
		}
	}
	for i, a := range cs.Args {
		if il[i] == "!" {
			continue
		}
		n := bigS(a.Int)
		var w string
		var ok bool
		if cs.Ctrl == "~r" {
			w, ok = c15OracleCardinal(n)
		} else {
			w, ok = c15OracleOrdinal(n)
		}
		if ok && w != il[i] {
			return i, "text-vs-oracle", il[i], w
		}
	}
	return -1, "", "", ""
}
