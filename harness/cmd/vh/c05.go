package main

// C05 — exact integer and rational arithmetic; comparisons agree with mathematics.
// Correspondence: the implementation's operators on operand objects built directly in Go versus
// the Lean model (SlipVerif.Model.Num) through the line protocol "num <op> <operand>*".

import (
	"fmt"
	"math"
	"math/big"
	"sort"
	"strings"

	"github.com/ohler55/slip"
	"verif/harness/lib"
)

func init() { props["C05"] = runC05 }

type c05Operand struct {
	rat  *big.Rat // exact value (also for floats)
	kind string   // q | d | s
	bits uint64   // for floats
}

func (o c05Operand) wire() string {
	switch o.kind {
	case "d":
		return fmt.Sprintf("d:%x", o.bits)
	case "s":
		return fmt.Sprintf("s:%x", o.bits)
	}
	if o.rat.IsInt() {
		return "q:" + o.rat.Num().String()
	}
	return "q:" + o.rat.Num().String() + "/" + o.rat.Denom().String()
}

func (o c05Operand) class() string {
	sign := "0"
	switch o.rat.Sign() {
	case 1:
		sign = "+"
	case -1:
		sign = "-"
	}
	switch o.kind {
	case "d":
		return "dbl" + sign
	case "s":
		return "sgl" + sign
	}
	if !o.rat.IsInt() {
		return "rat" + sign
	}
	if o.rat.Num().IsInt64() {
		return "fix" + sign
	}
	return "big" + sign
}

// object builds a fresh slip object for the operand (never shared between cases).
func (o c05Operand) object() slip.Object {
	switch o.kind {
	case "d":
		return slip.DoubleFloat(math.Float64frombits(o.bits))
	case "s":
		return slip.SingleFloat(math.Float32frombits(uint32(o.bits)))
	}
	if o.rat.IsInt() {
		if o.rat.Num().IsInt64() {
			return slip.Fixnum(o.rat.Num().Int64())
		}
		return (*slip.Bignum)(new(big.Int).Set(o.rat.Num()))
	}
	return (*slip.Ratio)(new(big.Rat).Set(o.rat))
}

func c05Int(s string) c05Operand {
	n, ok := new(big.Int).SetString(s, 10)
	if !ok {
		panic(s)
	}
	return c05Operand{rat: new(big.Rat).SetInt(n), kind: "q"}
}

func c05Big(n *big.Int) c05Operand { return c05Operand{rat: new(big.Rat).SetInt(n), kind: "q"} }

func c05Ratio(n, d *big.Int) c05Operand {
	return c05Operand{rat: new(big.Rat).SetFrac(n, d), kind: "q"}
}

func c05Double(f float64) c05Operand {
	r, _ := new(big.Rat).SetString(new(big.Float).SetFloat64(f).Text('f', -1))
	if rr := new(big.Rat).SetFloat64(f); rr != nil {
		r = rr
	}
	return c05Operand{rat: r, kind: "d", bits: math.Float64bits(f)}
}

func c05Single(f float32) c05Operand {
	r := new(big.Rat).SetFloat64(float64(f))
	return c05Operand{rat: r, kind: "s", bits: uint64(math.Float32bits(f))}
}

// the boundary grid of the property's quantifier
func c05Grid() []c05Operand {
	p := func(e uint) *big.Int { return new(big.Int).Lsh(big.NewInt(1), e) }
	var vals []*big.Int
	add := func(n *big.Int) {
		vals = append(vals, n, new(big.Int).Neg(n))
	}
	vals = append(vals, big.NewInt(0))
	add(big.NewInt(1))
	add(big.NewInt(2))
	add(big.NewInt(3))
	add(p(31))
	add(p(32))
	add(p(62))
	add(new(big.Int).Sub(p(63), big.NewInt(1))) // 2^63-1 and -(2^63-1)
	add(p(63))                                  // 2^63 and -2^63
	add(p(64))
	add(new(big.Int).Add(p(64), big.NewInt(1)))
	add(new(big.Int).Sub(p(64), big.NewInt(1)))
	var out []c05Operand
	for _, v := range vals {
		out = append(out, c05Big(v))
	}
	return out
}

type c05Op struct {
	name    string
	minArg  int
	maxArg  int    // -1: n-ary (we use up to 3)
	domain  string // rat | int | intint(ash: second small) | expt | cmp (floats allowed)
	values  int    // number of result values
	boolean bool
}

var c05Ops = []c05Op{
	{"+", 0, -1, "rat", 1, false}, {"-", 1, -1, "rat", 1, false}, {"*", 0, -1, "rat", 1, false},
	{"/", 1, -1, "rat", 1, false}, {"1+", 1, 1, "rat", 1, false}, {"1-", 1, 1, "rat", 1, false},
	{"abs", 1, 1, "rat", 1, false},
	{"floor", 1, 2, "rat", 2, false}, {"ceiling", 1, 2, "rat", 2, false},
	{"truncate", 1, 2, "rat", 2, false}, {"round", 1, 2, "rat", 2, false},
	{"mod", 2, 2, "rat", 1, false}, {"rem", 2, 2, "rat", 1, false},
	{"gcd", 0, -1, "int", 1, false}, {"lcm", 0, -1, "int", 1, false},
	{"isqrt", 1, 1, "nat", 1, false}, {"ash", 2, 2, "ash", 1, false}, {"expt", 2, 2, "expt", 1, false},
	{"logand", 0, -1, "int", 1, false}, {"logior", 0, -1, "int", 1, false},
	{"logxor", 0, -1, "int", 1, false}, {"lognot", 1, 1, "int", 1, false},
	{"<", 1, -1, "cmp", 1, true}, {"<=", 1, -1, "cmp", 1, true}, {">", 1, -1, "cmp", 1, true},
	{">=", 1, -1, "cmp", 1, true}, {"=", 1, -1, "cmp", 1, true}, {"/=", 1, -1, "cmp", 1, true},
	{"min", 1, -1, "cmp1", 1, false}, {"max", 1, -1, "cmp1", 1, false},
	{"zerop", 1, 1, "cmp", 1, true}, {"plusp", 1, 1, "cmp", 1, true}, {"minusp", 1, 1, "cmp", 1, true},
}

type c05Case struct {
	op    c05Op
	args  []c05Operand
	sweep bool
}

func (cs c05Case) hasFloat() bool {
	for _, a := range cs.args {
		if a.kind != "q" {
			return true
		}
	}
	return false
}

func (cs c05Case) request() string {
	parts := []string{"num", cs.op.name}
	for _, a := range cs.args {
		parts = append(parts, a.wire())
	}
	return strings.Join(parts, " ")
}

func (cs c05Case) lisp() string {
	parts := []string{"(" + cs.op.name}
	for _, a := range cs.args {
		switch a.kind {
		case "d":
			parts = append(parts, fmt.Sprintf("#d<%x>", a.bits))
		case "s":
			parts = append(parts, fmt.Sprintf("#s<%x>", a.bits))
		default:
			parts = append(parts, a.rat.RatString())
		}
	}
	return strings.Join(parts, " ") + ")"
}

// observe the implementation: results as "type:value" words (like the model's reply) and the
// operand mutation flag.
func c05Impl(cs c05Case) (reply string, mutated bool, fault bool, msg string) {
	scope := slip.NewScope()
	names := []string{"a", "b", "c", "d"}
	objs := make([]slip.Object, len(cs.args))
	before := make([]string, len(cs.args))
	src := "(multiple-value-list (" + cs.op.name
	for i, a := range cs.args {
		objs[i] = a.object()
		before[i] = slip.ObjectString(objs[i])
		scope.Let(slip.Symbol(names[i]), objs[i])
		src += " " + names[i]
	}
	src += "))"
	o := lib.EvalString(scope, src)
	for i := range objs {
		if slip.ObjectString(objs[i]) != before[i] {
			mutated = true
		}
		if v := scope.Get(slip.Symbol(names[i])); slip.ObjectString(v) != before[i] {
			mutated = true
		}
	}
	if !o.Ok {
		return "err " + o.Class, mutated, o.GoFault, o.Msg
	}
	list, _ := o.Value.(slip.List)
	words := []string{"ok"}
	for _, v := range list {
		words = append(words, c05Show(v))
	}
	return strings.Join(words, " "), mutated, false, ""
}

func c05Show(v slip.Object) string {
	switch tv := v.(type) {
	case nil:
		return "nil"
	case slip.Fixnum:
		return fmt.Sprintf("fixnum:%d", int64(tv))
	case *slip.Bignum:
		return "bignum:" + (*big.Int)(tv).String()
	case *slip.Ratio:
		return "ratio:" + (*big.Rat)(tv).RatString()
	case slip.DoubleFloat:
		if !math.IsNaN(float64(tv)) && !math.IsInf(float64(tv), 0) {
			return "double-float:" + new(big.Rat).SetFloat64(float64(tv)).RatString()
		}
		return fmt.Sprintf("double-float:%v", float64(tv))
	case slip.SingleFloat:
		if !math.IsNaN(float64(tv)) && !math.IsInf(float64(tv), 0) {
			return "single-float:" + new(big.Rat).SetFloat64(float64(tv)).RatString()
		}
		return fmt.Sprintf("single-float:%v", float32(tv))
	default:
		if v == slip.True {
			return "t"
		}
		return strings.ToLower(string(v.Hierarchy()[0])) + ":" + slip.ObjectString(v)
	}
}

// aspect classifies a disagreement between implementation reply and model reply.
func c05Aspect(impl, model string) string {
	iw, mw := strings.Fields(impl), strings.Fields(model)
	if mw[0] == "err" {
		if iw[0] == "err" {
			return "" // the condition class is C09's business; here only value vs condition
		}
		return "no-condition"
	}
	if iw[0] == "err" {
		return "condition:" + iw[1]
	}
	if len(iw) != len(mw) {
		return "value-count"
	}
	aspect := ""
	for i := 1; i < len(mw); i++ {
		if iw[i] == mw[i] {
			continue
		}
		it, iv, _ := strings.Cut(iw[i], ":")
		_, mv, _ := strings.Cut(mw[i], ":")
		a := "wrong-value"
		if iv == mv {
			a = "wrong-type:" + it
		} else if strings.HasSuffix(it, "-float") {
			a = "inexact:" + it
		}
		if aspect == "" || a == "wrong-value" {
			aspect = a
		}
	}
	return aspect
}

func c05Signature(cs c05Case, model string, aspect string) string {
	var in []string
	if aspect == "wrong-value" {
		// the failing value class: operand classes with sign, in order
		for _, a := range cs.args {
			in = append(in, a.class())
		}
	} else {
		// representation / condition aspects: the set of operand kinds
		seen := map[string]bool{}
		for _, a := range cs.args {
			k := a.class()[:3]
			if !seen[k] {
				seen[k] = true
				in = append(in, k)
			}
		}
		sort.Strings(in)
	}
	out := "-"
	mw := strings.Fields(model)
	if mw[0] == "err" {
		out = "err"
	} else if len(mw) > 1 {
		out, _, _ = strings.Cut(mw[1], ":")
	}
	return fmt.Sprintf("op=%s in=%s out=%s aspect=%s", cs.op.name, strings.Join(in, ","), out, aspect)
}

// c05ParseRequest rebuilds a case from its model request line (used by --replay).
func c05ParseRequest(req string) (c05Case, bool) {
	w := strings.Fields(req)
	if len(w) < 2 || w[0] != "num" {
		return c05Case{}, false
	}
	var cs c05Case
	found := false
	for _, op := range c05Ops {
		if op.name == w[1] {
			cs.op, found = op, true
		}
	}
	if !found {
		return cs, false
	}
	for _, a := range w[2:] {
		kind, v, _ := strings.Cut(a, ":")
		switch kind {
		case "q":
			r, ok := new(big.Rat).SetString(v)
			if !ok {
				return cs, false
			}
			cs.args = append(cs.args, c05Operand{rat: r, kind: "q"})
		case "d":
			var bits uint64
			_, _ = fmt.Sscanf(v, "%x", &bits)
			cs.args = append(cs.args, c05Double(math.Float64frombits(bits)))
		case "s":
			var bits uint64
			_, _ = fmt.Sscanf(v, "%x", &bits)
			cs.args = append(cs.args, c05Single(math.Float32frombits(uint32(bits))))
		default:
			return cs, false
		}
	}
	return cs, true
}

func c05Replay(c *lib.Ctx) {
	var rec map[string]any
	if err := lib.ReadJSON(c.Replay, &rec); err != nil {
		fmt.Println("cannot read replay file:", err)
		return
	}
	req, _ := rec["request"].(string)
	cs, ok := c05ParseRequest(req)
	if !ok {
		fmt.Println("replay file has no usable request:", rec["input"])
		return
	}
	model := c.Model([]string{req})[0]
	impl, mutated, fault, msg := c05Impl(cs)
	fmt.Printf("replay %s\n  implementation: %s %s\n  model         : %s\n  operand mutated: %v go-fault: %v\n", cs.lisp(), impl, msg, model, mutated, fault)
	if impl != model && c05Aspect(impl, model) != "" || mutated || fault {
		c.Report(c05Signature(cs, model, "replay"), false, map[string]any{"input": cs.lisp(), "request": req, "observed": impl, "expected": model})
	}
}

func runC05(c *lib.Ctx) {
	if c.Replay != "" {
		c05Replay(c)
		return
	}
	grid := c05Grid()
	var cases []c05Case
	small := []c05Operand{c05Int("-70"), c05Int("-64"), c05Int("-63"), c05Int("-3"), c05Int("-1"), c05Int("0"),
		c05Int("1"), c05Int("2"), c05Int("5"), c05Int("62"), c05Int("63"), c05Int("64"), c05Int("65"), c05Int("130")}
	ratios := []c05Operand{}
	for _, s := range [][2]string{{"1", "2"}, {"-1", "2"}, {"3", "2"}, {"-3", "2"}, {"5", "2"}, {"-5", "2"}, {"7", "2"}, {"1", "3"}, {"-7", "3"},
		{"9223372036854775807", "2"}, {"-9223372036854775809", "2"}, {"1", "9223372036854775808"}, {"18446744073709551617", "3"}} {
		ratios = append(ratios, c05Ratio(c05Int(s[0]).rat.Num(), c05Int(s[1]).rat.Num()))
	}
	floats := []c05Operand{}
	for _, g := range grid {
		f, _ := new(big.Float).SetInt(g.rat.Num()).Float64()
		for _, x := range []float64{f, math.Nextafter(f, math.Inf(1)), math.Nextafter(f, math.Inf(-1))} {
			floats = append(floats, c05Double(x))
		}
		f32 := float32(f)
		if !math.IsInf(float64(f32), 0) {
			for _, x := range []float32{f32, math.Nextafter32(f32, float32(math.Inf(1))), math.Nextafter32(f32, float32(math.Inf(-1)))} {
				floats = append(floats, c05Single(x))
			}
		}
	}
	floats = append(floats, c05Double(0.5), c05Double(-0.5), c05Double(1.5), c05Double(0.1), c05Single(0.1))

	// --- single-cause sweep: the grid exhaustively in all pairs (and singles) per operator
	for _, op := range c05Ops {
		unaryPool := append(append([]c05Operand{}, grid...), ratios...)
		switch op.domain {
		case "int", "nat", "ash":
			unaryPool = grid
		}
		if op.minArg <= 1 && (op.maxArg == -1 || op.maxArg >= 1) {
			for _, a := range unaryPool {
				cases = append(cases, c05Case{op, []c05Operand{a}, true})
			}
			if op.domain == "cmp" || op.domain == "cmp1" {
				for _, a := range floats {
					cases = append(cases, c05Case{op, []c05Operand{a}, true})
				}
			}
		}
		if op.minArg == 0 {
			cases = append(cases, c05Case{op, nil, true})
		}
		if op.maxArg == -1 || op.maxArg >= 2 {
			var left, right []c05Operand
			switch op.domain {
			case "rat":
				left, right = append(append([]c05Operand{}, grid...), ratios...), append(append([]c05Operand{}, grid...), ratios...)
			case "int":
				left, right = grid, grid
			case "ash":
				left, right = grid, small
			case "expt":
				left, right = append(append([]c05Operand{}, grid[:9]...), ratios[:9]...), small
			case "cmp", "cmp1":
				left = append(append(append([]c05Operand{}, grid...), ratios...), floats...)
				right = left
			}
			for _, a := range left {
				for _, b := range right {
					if (op.domain == "cmp" || op.domain == "cmp1") && a.kind != "q" && b.kind != "q" && a.kind != b.kind {
						// mixed float formats compared with each other are outside the grid
						continue
					}
					cases = append(cases, c05Case{op, []c05Operand{a, b}, true})
				}
			}
		}
	}
	// --- random: integers up to 200 bits and ratios thereof
	nRandom := c.Scale(30000, 600000)
	randOperand := func(dom string) c05Operand {
		bits := []int{8, 31, 33, 62, 63, 64, 65, 100, 200}[c.Rng.Intn(9)]
		n := c.Rng.BigBits(bits)
		switch dom {
		case "int", "ash":
			return c05Big(n)
		case "nat":
			return c05Big(n.Abs(n))
		}
		if c.Rng.Chance(40) {
			d := c.Rng.BigBits([]int{4, 31, 64, 100}[c.Rng.Intn(4)])
			d.Abs(d)
			if d.Sign() == 0 {
				d.SetInt64(7)
			}
			return c05Ratio(n, d)
		}
		if c.Rng.Chance(15) {
			return grid[c.Rng.Intn(len(grid))]
		}
		return c05Big(n)
	}
	for i := 0; i < nRandom; i++ {
		op := c05Ops[c.Rng.Intn(len(c05Ops))]
		n := op.minArg
		if n == 0 {
			n = 1
		}
		if op.maxArg == -1 {
			n += c.Rng.Intn(3)
		} else if op.maxArg > op.minArg {
			n += c.Rng.Intn(op.maxArg - op.minArg + 1)
		}
		var args []c05Operand
		for j := 0; j < n; j++ {
			switch {
			case op.domain == "ash" && j == 1:
				args = append(args, c05Big(big.NewInt(int64(c.Rng.Intn(300)-150))))
			case op.domain == "expt" && j == 1:
				args = append(args, c05Big(big.NewInt(int64(c.Rng.Intn(24)-8))))
			case op.domain == "expt":
				args = append(args, randOperand("rat"))
			case (op.domain == "cmp" || op.domain == "cmp1") && c.Rng.Chance(25) && j == n-1:
				args = append(args, floats[c.Rng.Intn(len(floats))])
			default:
				args = append(args, randOperand(op.domain))
			}
		}
		cases = append(cases, c05Case{op, args, false})
	}

	// --- run model and implementation
	reqs := make([]string, len(cases))
	for i, cs := range cases {
		reqs[i] = cs.request()
	}
	replies := c.Model(reqs)
	agree := 0
	for i, cs := range cases {
		impl, mutated, fault, msg := c05Impl(cs)
		model := replies[i]
		nontrivial := false
		for _, a := range cs.args {
			if !a.rat.IsInt() || a.rat.Num().BitLen() >= 31 {
				nontrivial = true
			}
		}
		c.Ev.Case(reqs[i], nontrivial)
		c.Ev.Hist("op", cs.op.name)
		if i%(len(cases)/10+1) == 0 {
			c.Ev.Sample(map[string]string{"case": cs.lisp(), "impl": impl, "model": model})
		}
		if fault {
			c.Report(c05Signature(cs, model, "go-fault"), true, map[string]any{"input": cs.lisp(), "request": reqs[i], "observed": impl + " " + msg, "expected": model, "expected_from": "model:num"})
			continue
		}
		if mutated {
			c.Report(c05Signature(cs, model, "operand-mutated"), true, map[string]any{"input": cs.lisp(), "request": reqs[i], "observed": "an operand object changed its printed value during the call", "expected": "operands unchanged", "expected_from": "property statement"})
		}
		if impl == model {
			agree++
			continue
		}
		aspect := c05Aspect(impl, model)
		if aspect == "" {
			agree++
			continue
		}
		if strings.HasPrefix(aspect, "wrong-type:") && strings.HasSuffix(aspect, "-float") && cs.hasFloat() {
			agree++ // min/max may return the float operand itself: same exact value
			continue
		}
		c.Report(c05Signature(cs, model, aspect), true, map[string]any{"input": cs.lisp(), "request": reqs[i], "observed": impl, "expected": model, "expected_from": "model:num",
			"relies_on": []string{"SlipVerif.Theorems.C05"}})
	}
	c.Ev.Coverage["traces_validated_against_impl"] = len(cases)
	c.Ev.Coverage["agreements"] = agree
	c.Ev.Coverage["sweep_cases"] = len(cases) - nRandom
	c.Ev.Coverage["random_cases"] = nRandom
	c.Ev.Coverage["rule"] = "cases = (operator, operand tuple); sweep = boundary grid in all pairs/singles per operator (exhaustive, seed independent) + random integers/ratios up to 200 bits; non-trivial = some operand is a ratio or has magnitude >= 2^31; distinct by request line"
}
