package main

// C05 — exact integer and rational arithmetic; comparisons agree with mathematics.
// Correspondence: the implementation's operators on operand objects built directly in Go versus
// the Lean model (SlipVerif.Model.Num) through the line protocol "num <op> <operand>*".
//
// Case families
//   sweep (single-cause cells, seed independent, may be excused by findings/C05.json):
//     every operator × the boundary grid in all singles and pairs (+ ratios, + floats adjacent to
//     the grid for the comparisons), isqrt around perfect squares, expt with big bases;
//     float-coupled cells for the comparisons: floats derived from integers (single, double, long)
//     against rationals derived from the integer and from the float.
//   composite (never excused; listed constructs are avoided instead):
//     every n-ary operator × all triples over a small pool (seed independent),
//     random integers up to 200 bits and ratios of them (seeded).
//
// Signature of a disagreement (fixed function, see c05Signature):
//   op=<operator> in=<operand classes> [q=<qualifier>] out=<model result type> aspect=<aspect>
//   operand classes: fix|big|rat|dbl|sgl|lng; with sign (+,-,0) and in argument order for the
//   aspect wrong-value, otherwise the sorted set of kinds.
//   qualifier: e<sign> = sign of the exponent (expt); d<sign> = sign of the divisor (floor,
//   ceiling, truncate, round, mod, rem with two arguments); s<sign> = sign of the shift (ash).
//   aspect: wrong-value | wrong-type:<impl type> | float-result:<float type> | wrong-boolean:<impl> |
//           value-count | condition:<class> | no-condition | operand-mutated | go-fault |
//           place-not-updated

import (
	"fmt"
	"math"
	"math/big"
	"os"
	"sort"
	"strings"
	"sync"

	"github.com/ohler55/slip"
	"verif/harness/lib"
)

func init() { props["C05"] = runC05 }

type c05Operand struct {
	rat  *big.Rat // exact value (also for floats)
	kind string   // q | d | s | l (long-float: big.Float of precision prec)
	bits uint64   // for single and double floats
	prec uint     // for long-floats
	form string   // representation of an integer value: "" canonical | "B" held in a *Bignum | "R" held in a *Ratio with denominator 1
}

func (o c05Operand) wire() string {
	switch o.kind {
	case "d":
		return fmt.Sprintf("d:%x", o.bits)
	case "s":
		return fmt.Sprintf("s:%x", o.bits)
	case "l":
		// a long-float travels as its exact rational value (a dyadic rational) and its precision
		return fmt.Sprintf("l:%d:%s", o.prec, o.rat.RatString())
	}
	if o.rat.IsInt() {
		switch o.form {
		case "B":
			return "b:" + o.rat.Num().String()
		case "R":
			return "r:" + o.rat.Num().String()
		case "O":
			return "o:" + o.rat.Num().String()
		}
		return "q:" + o.rat.Num().String()
	}
	return "q:" + o.rat.Num().String() + "/" + o.rat.Denom().String()
}

func (o c05Operand) sign() string {
	switch o.rat.Sign() {
	case 1:
		return "+"
	case -1:
		return "-"
	}
	return "0"
}

// rep is the representation class of the operand: fix | big | rat | dbl | sgl.
func (o c05Operand) rep() string {
	switch o.kind {
	case "d":
		return "dbl"
	case "s":
		return "sgl"
	case "l":
		return "lng"
	}
	if o.rat.IsInt() {
		switch o.form {
		case "B":
			if o.rat.Num().IsInt64() {
				return "sbig" // a bignum object holding a value of the fixnum range, e.g. (coerce 5 'bignum)
			}
		case "R":
			return "irat" // a ratio object with denominator 1, e.g. (coerce 5 'ratio)
		case "O":
			return "oct" // an integer 0..255 held in an octet, (coerce 5 'octet)
		}
	}
	return c05Rep(o.rat)
}

// asForm returns the integer operand in another representation.
func (o c05Operand) asForm(form string) c05Operand {
	return c05Operand{rat: o.rat, kind: "q", form: form}
}

func (o c05Operand) class() string { return o.rep() + o.sign() }

// c05Rep is the canonical representation of an exact rational value: fix | big | rat.
func c05Rep(r *big.Rat) string {
	if !r.IsInt() {
		return "rat"
	}
	if r.Num().IsInt64() {
		return "fix"
	}
	return "big"
}

// object builds a fresh slip object for the operand (never shared between cases).
func (o c05Operand) object() slip.Object {
	switch o.kind {
	case "d":
		return slip.DoubleFloat(math.Float64frombits(o.bits))
	case "s":
		return slip.SingleFloat(math.Float32frombits(uint32(o.bits)))
	case "l":
		return (*slip.LongFloat)(new(big.Float).SetPrec(o.prec).SetRat(o.rat))
	}
	if o.rat.IsInt() {
		switch o.form {
		case "B":
			return (*slip.Bignum)(new(big.Int).Set(o.rat.Num()))
		case "R":
			return (*slip.Ratio)(new(big.Rat).Set(o.rat))
		case "O":
			return slip.Octet(byte(o.rat.Num().Int64()))
		}
		if o.rat.Num().IsInt64() {
			return slip.Fixnum(o.rat.Num().Int64())
		}
		return (*slip.Bignum)(new(big.Int).Set(o.rat.Num()))
	}
	return (*slip.Ratio)(new(big.Rat).Set(o.rat))
}

func c05Int(s string) c05Operand {
	n, ok := new(big.Int).SetString(s, 10)
	if !ok {
		panic(s)
	}
	return c05Operand{rat: new(big.Rat).SetInt(n), kind: "q"}
}

func c05Big(n *big.Int) c05Operand { return c05Operand{rat: new(big.Rat).SetInt(n), kind: "q"} }

func c05Ratio(n, d *big.Int) c05Operand {
	return c05Operand{rat: new(big.Rat).SetFrac(n, d), kind: "q"}
}

func c05RatioS(n, d string) c05Operand {
	return c05Ratio(c05Int(n).rat.Num(), c05Int(d).rat.Num())
}

func c05Double(f float64) c05Operand {
	return c05Operand{rat: new(big.Rat).SetFloat64(f), kind: "d", bits: math.Float64bits(f)}
}

func c05Single(f float32) c05Operand {
	return c05Operand{rat: new(big.Rat).SetFloat64(float64(f)), kind: "s", bits: uint64(math.Float32bits(f))}
}

// c05Long is the long-float of the given precision nearest to n.
func c05Long(n *big.Int, prec uint) c05Operand {
	r, _ := new(big.Float).SetPrec(prec).SetInt(n).Rat(nil)
	return c05Operand{rat: r, kind: "l", prec: prec}
}

// c05FloatsNear returns the floats derived from the integer n: the single, double and long floats
// nearest to n and, for single and double, their two neighbours (infinities are left out).
func c05FloatsNear(n *big.Int) []c05Operand {
	var out []c05Operand
	bf := new(big.Float).SetPrec(uint(n.BitLen() + 64)).SetInt(n)
	if f64, _ := bf.Float64(); !math.IsInf(f64, 0) {
		for _, x := range []float64{f64, math.Nextafter(f64, math.Inf(1)), math.Nextafter(f64, math.Inf(-1))} {
			if !math.IsInf(x, 0) {
				out = append(out, c05Double(x))
			}
		}
	}
	if f32, _ := bf.Float32(); !math.IsInf(float64(f32), 0) {
		for _, x := range []float32{f32, math.Nextafter32(f32, float32(math.Inf(1))), math.Nextafter32(f32, float32(math.Inf(-1)))} {
			if !math.IsInf(float64(x), 0) {
				out = append(out, c05Single(x))
			}
		}
	}
	// long-floats: one that rounds n (unless n is short) and one that holds it exactly
	out = append(out, c05Long(n, 40), c05Long(n, 64), c05Long(n, uint(n.BitLen()+8)))
	return out
}

// c05RationalsNear returns the rationals derived from the integer n and the float f that was
// derived from it: n and its neighbours, the exact value of f, its integer neighbours, and ratios
// a third and a tiny bit (2^-90) away from it.
func c05RationalsNear(n *big.Int, f c05Operand) []c05Operand {
	seen := map[string]bool{}
	var out []c05Operand
	add := func(r *big.Rat) {
		if k := r.RatString(); !seen[k] {
			seen[k] = true
			out = append(out, c05Operand{rat: r, kind: "q"})
		}
	}
	one := big.NewRat(1, 1)
	nr := new(big.Rat).SetInt(n)
	add(nr)
	add(new(big.Rat).Add(nr, one))
	add(new(big.Rat).Sub(nr, one))
	e := f.rat
	add(new(big.Rat).Set(e))
	if e.IsInt() {
		add(new(big.Rat).Add(e, one))
		add(new(big.Rat).Sub(e, one))
	}
	third := big.NewRat(1, 3)
	tiny := new(big.Rat).SetFrac(big.NewInt(1), new(big.Int).Lsh(big.NewInt(1), 90))
	add(new(big.Rat).Add(e, third))
	add(new(big.Rat).Sub(e, third))
	add(new(big.Rat).Add(e, tiny))
	add(new(big.Rat).Sub(e, tiny))
	return out
}

// c05WidthParts are positive integers of every width class a fixed-width fast path may switch on:
// two per class, mostly primes (so that ratios of them stay unreduced) and top heavy (so that
// products and sums of products of two of them cross the next power of two).
//   small | 15/16 bits | 31 bits | 32 bits | 33/34 bits | 53/54 bits | 62..65 bits
func c05WidthParts() [][]*big.Int {
	cls := [][]string{
		{"3", "7"},
		{"32749", "65537"},
		{"2147483629", "1073741827"},
		{"4294967291", "3500000003"},
		{"4294967311", "8589934583"},
		{"9007199254740881", "18014398509481951"},
		{"9223372036854775783", "18446744073709551629"},
	}
	out := make([][]*big.Int, len(cls))
	for i, c := range cls {
		for _, v := range c {
			out[i] = append(out[i], c05Int(v).rat.Num())
		}
	}
	return out
}

// c05RatioPool: for every ordered pair of width classes (numerator class, denominator class) two
// ratios, each with both signs. 7 classes -> 49 class pairs -> 196 ratios.
func c05RatioPool() []c05Operand {
	parts := c05WidthParts()
	var out []c05Operand
	for _, nc := range parts {
		for _, dc := range parts {
			for _, ij := range [][2]int{{0, 1}, {1, 0}} {
				n, d := nc[ij[0]], dc[ij[1]]
				out = append(out, c05Ratio(n, d), c05Ratio(new(big.Int).Neg(n), d))
			}
		}
	}
	return out
}

// c05WidthInts: the width-class parts as integers, both signs.
func c05WidthInts() []c05Operand {
	var out []c05Operand
	for _, c := range c05WidthParts() {
		for _, v := range c {
			out = append(out, c05Big(v), c05Big(new(big.Int).Neg(v)))
		}
	}
	return out
}

// c05FloatsNearRat returns the double, single and long floats nearest to the rational r and the
// neighbours of the double and the single.
func c05FloatsNearRat(r *big.Rat) []c05Operand {
	var out []c05Operand
	if f64, _ := r.Float64(); !math.IsInf(f64, 0) {
		for _, x := range []float64{f64, math.Nextafter(f64, math.Inf(1)), math.Nextafter(f64, math.Inf(-1))} {
			if !math.IsInf(x, 0) {
				out = append(out, c05Double(x))
			}
		}
	}
	if f32, _ := r.Float32(); !math.IsInf(float64(f32), 0) {
		for _, x := range []float32{f32, math.Nextafter32(f32, float32(math.Inf(1))), math.Nextafter32(f32, float32(math.Inf(-1)))} {
			if !math.IsInf(float64(x), 0) {
				out = append(out, c05Single(x))
			}
		}
	}
	for _, prec := range []uint{64, 113} {
		lf, _ := new(big.Float).SetPrec(prec).SetRat(r).Rat(nil)
		out = append(out, c05Operand{rat: lf, kind: "l", prec: prec})
	}
	return out
}

// c05FloatAnchors are the integers from which the float-coupled sweep derives its floats: the
// boundary grid plus integers around the precision limits of the float formats (2^24, 2^53, 2^64)
// that are NOT exactly representable, and a few ordinary ones; each with both signs.
func c05FloatAnchors() []*big.Int {
	var out []*big.Int
	seen := map[string]bool{}
	add := func(n *big.Int) {
		for _, v := range []*big.Int{n, new(big.Int).Neg(n)} {
			if !seen[v.String()] {
				seen[v.String()] = true
				out = append(out, v)
			}
		}
	}
	for _, g := range c05Grid() {
		add(g.rat.Num())
	}
	p := func(e uint, d int64) *big.Int {
		return new(big.Int).Add(new(big.Int).Lsh(big.NewInt(1), e), big.NewInt(d))
	}
	for _, e := range []uint{24, 25, 31, 40, 53, 54, 62, 63, 64, 65, 100, 127} {
		for _, d := range []int64{-1, 1, 2, 3} {
			add(p(e, d))
		}
	}
	for _, s := range []string{"7", "1000", "16777215", "123456789", "3221225473", "9007199254740993", "1000000000000000001",
		"10000000000000000001", "1000000000000000000000000000001", "340282366920938463463374607431768211455"} {
		add(c05Int(s).rat.Num())
	}
	return out
}

// the boundary grid of the property's quantifier
func c05Grid() []c05Operand {
	p := func(e uint) *big.Int { return new(big.Int).Lsh(big.NewInt(1), e) }
	var vals []*big.Int
	add := func(n *big.Int) {
		vals = append(vals, n, new(big.Int).Neg(n))
	}
	vals = append(vals, big.NewInt(0))
	add(big.NewInt(1))
	add(big.NewInt(2))
	add(big.NewInt(3))
	add(p(31))
	add(p(32))
	add(p(62))
	add(new(big.Int).Sub(p(63), big.NewInt(1))) // 2^63-1 and -(2^63-1)
	add(p(63))                                  // 2^63 and -2^63
	add(p(64))
	add(new(big.Int).Add(p(64), big.NewInt(1)))
	add(new(big.Int).Sub(p(64), big.NewInt(1)))
	var out []c05Operand
	for _, v := range vals {
		out = append(out, c05Big(v))
	}
	return out
}

type c05Op struct {
	name    string
	minArg  int
	maxArg  int    // -1: n-ary (we use up to 3)
	domain  string // rat | int | nat | ash | expt | cmp | cmp1 | place
	values  int    // number of result values
	boolean bool
}

var c05Ops = []c05Op{
	{"+", 0, -1, "rat", 1, false}, {"-", 1, -1, "rat", 1, false}, {"*", 0, -1, "rat", 1, false},
	{"/", 1, -1, "rat", 1, false}, {"1+", 1, 1, "rat", 1, false}, {"1-", 1, 1, "rat", 1, false},
	{"abs", 1, 1, "rat", 1, false},
	{"floor", 1, 2, "rat", 2, false}, {"ceiling", 1, 2, "rat", 2, false},
	{"truncate", 1, 2, "rat", 2, false}, {"round", 1, 2, "rat", 2, false},
	{"mod", 2, 2, "rat", 1, false}, {"rem", 2, 2, "rat", 1, false},
	{"gcd", 0, -1, "int", 1, false}, {"lcm", 0, -1, "int", 1, false},
	{"isqrt", 1, 1, "nat", 1, false}, {"ash", 2, 2, "ash", 1, false}, {"expt", 2, 2, "expt", 1, false},
	{"logand", 0, -1, "int", 1, false}, {"logior", 0, -1, "int", 1, false},
	{"logxor", 0, -1, "int", 1, false}, {"lognot", 1, 1, "int", 1, false},
	{"<", 1, -1, "cmp", 1, true}, {"<=", 1, -1, "cmp", 1, true}, {">", 1, -1, "cmp", 1, true},
	{">=", 1, -1, "cmp", 1, true}, {"=", 1, -1, "cmp", 1, true}, {"/=", 1, -1, "cmp", 1, true},
	{"min", 1, -1, "cmp1", 1, false}, {"max", 1, -1, "cmp1", 1, false},
	{"zerop", 1, 1, "cmp", 1, true}, {"plusp", 1, 1, "cmp", 1, true}, {"minusp", 1, 1, "cmp", 1, true},
	// bit counting and testing, parity, sign, parts of a ratio, exact value of a float
	{"logcount", 1, 1, "int", 1, false}, {"integer-length", 1, 1, "int", 1, false},
	{"evenp", 1, 1, "int", 1, true}, {"oddp", 1, 1, "int", 1, true}, {"logbitp", 2, 2, "bitp", 1, true},
	{"signum", 1, 1, "rat", 1, false}, {"numerator", 1, 1, "rat", 1, false}, {"denominator", 1, 1, "rat", 1, false},
	{"rational", 1, 1, "real", 1, false},
	// the remaining bitwise operators
	{"logeqv", 0, -1, "int", 1, false}, {"lognand", 2, 2, "int", 1, false}, {"lognor", 2, 2, "int", 1, false},
	{"logandc1", 2, 2, "int", 1, false}, {"logandc2", 2, 2, "int", 1, false}, {"logorc1", 2, 2, "int", 1, false},
	{"logorc2", 2, 2, "int", 1, false}, {"logtest", 2, 2, "int", 1, true},
	// (incf place [delta]) / (decf place [delta]): the place is a variable holding the first operand
	{"incf", 1, 2, "place", 1, false}, {"decf", 1, 2, "place", 1, false},
	// slip.LessThan(a, b), the Go ordering helper of the root package (coerce.go), called directly
	{"LessThan", 2, 2, "go", 1, true},
}

func (op c05Op) isCmp() bool { return op.domain == "cmp" || op.domain == "cmp1" }

type c05Case struct {
	op    c05Op
	args  []c05Operand
	sweep bool
}

func (cs c05Case) hasFloat() bool {
	for _, a := range cs.args {
		if a.kind != "q" {
			return true
		}
	}
	return false
}

func (cs c05Case) request() string {
	parts := []string{"num", cs.op.name}
	for _, a := range cs.args {
		parts = append(parts, a.wire())
	}
	return strings.Join(parts, " ")
}

func (cs c05Case) lisp() string {
	parts := []string{"(" + cs.op.name}
	for _, a := range cs.args {
		switch a.kind {
		case "d":
			parts = append(parts, fmt.Sprintf("#d<%x>", a.bits))
		case "s":
			parts = append(parts, fmt.Sprintf("#s<%x>", a.bits))
		case "l":
			parts = append(parts, fmt.Sprintf("#l<%d:%s>", a.prec, a.rat.RatString()))
		default:
			switch {
			case a.form == "B" && a.rat.IsInt():
				parts = append(parts, "(coerce "+a.rat.RatString()+" 'bignum)")
			case a.form == "R" && a.rat.IsInt():
				parts = append(parts, "(coerce "+a.rat.RatString()+" 'ratio)")
			case a.form == "O" && a.rat.IsInt():
				parts = append(parts, "(coerce "+a.rat.RatString()+" 'octet)")
			default:
				parts = append(parts, a.rat.RatString())
			}
		}
	}
	return strings.Join(parts, " ") + ")"
}

// observe the implementation: results as "type:value" words (like the model's reply) and the
// operand mutation flag.
func c05Impl(cs c05Case) (reply string, mutated bool, fault bool, msg string) {
	scope := slip.NewScope()
	names := []string{"a", "b", "c", "d", "a5", "a6", "a7"}
	objs := make([]slip.Object, len(cs.args))
	before := make([]string, len(cs.args))
	src := "(multiple-value-list (" + cs.op.name
	for i, a := range cs.args {
		objs[i] = a.object()
		before[i] = c05Show(objs[i])
		scope.Let(slip.Symbol(names[i]), objs[i])
		src += " " + names[i]
	}
	src += "))"
	place := cs.op.domain == "place"
	var o lib.Outcome
	if cs.op.domain == "go" {
		o = lib.Protect(func() slip.Object {
			if slip.LessThan(objs[0], objs[1]) {
				return slip.List{slip.True}
			}
			return slip.List{nil}
		})
	} else {
		o = lib.EvalString(scope, src)
	}
	for i := range objs {
		// the operand object itself must be unchanged …
		if c05Show(objs[i]) != before[i] {
			mutated = true
		}
		// … and so must the variable that holds it (except the place of incf/decf)
		if place && i == 0 {
			continue
		}
		if v := scope.Get(slip.Symbol(names[i])); c05Show(v) != before[i] {
			mutated = true
		}
	}
	if !o.Ok {
		return "err " + o.Class, mutated, o.GoFault, o.Msg
	}
	list, _ := o.Value.(slip.List)
	words := []string{"ok"}
	for _, v := range list {
		words = append(words, c05Show(v))
	}
	if place && len(list) == 1 {
		if pv := c05Show(scope.Get(slip.Symbol("a"))); pv != words[1] {
			words[1] = "place-not-updated:" + pv
		}
	}
	return strings.Join(words, " "), mutated, false, ""
}

func c05Show(v slip.Object) string {
	switch tv := v.(type) {
	case nil:
		return "nil"
	case slip.Fixnum:
		return fmt.Sprintf("fixnum:%d", int64(tv))
	case *slip.Bignum:
		return "bignum:" + (*big.Int)(tv).String()
	case *slip.Ratio:
		// RatString prints a ratio object whose denominator is 1 as an integer; it is then
		// reported as wrong-type:ratio by c05Aspect
		return "ratio:" + (*big.Rat)(tv).RatString()
	case slip.DoubleFloat:
		if !math.IsNaN(float64(tv)) && !math.IsInf(float64(tv), 0) {
			return "double-float:" + new(big.Rat).SetFloat64(float64(tv)).RatString()
		}
		return fmt.Sprintf("double-float:%v", float64(tv))
	case slip.SingleFloat:
		if !math.IsNaN(float64(tv)) && !math.IsInf(float64(tv), 0) {
			return "single-float:" + new(big.Rat).SetFloat64(float64(tv)).RatString()
		}
		return fmt.Sprintf("single-float:%v", float32(tv))
	case *slip.LongFloat:
		f := (*big.Float)(tv)
		if !f.IsInf() {
			r, _ := f.Rat(nil)
			return "long-float:" + r.RatString()
		}
		return "long-float:" + f.String()
	default:
		if v == slip.True {
			return "t"
		}
		return strings.ToLower(string(v.Hierarchy()[0])) + ":" + slip.ObjectString(v)
	}
}

// aspect classifies a disagreement between implementation reply and model reply ("" = agree on
// everything the property constrains).
func c05Aspect(impl, model string) string {
	iw, mw := strings.Fields(impl), strings.Fields(model)
	if mw[0] == "err" {
		if iw[0] == "err" {
			return "" // the condition class is C09's business; here only value vs condition
		}
		return "no-condition"
	}
	if iw[0] == "err" {
		return "condition:" + iw[1]
	}
	if len(iw) != len(mw) {
		return "value-count"
	}
	aspect := ""
	for i := 1; i < len(mw); i++ {
		if iw[i] == mw[i] {
			continue
		}
		var a string
		if mw[i] == "t" || mw[i] == "nil" {
			a = "wrong-boolean:" + iw[i]
		} else {
			it, iv, _ := strings.Cut(iw[i], ":")
			_, mv, _ := strings.Cut(mw[i], ":")
			switch {
			case it == "place-not-updated":
				a = "place-not-updated"
			case strings.HasSuffix(it, "-float"):
				// a float where the model has an exact rational (whether or not the float happens
				// to hold the exact value)
				a = "float-result:" + it
			case iv == mv:
				a = "wrong-type:" + it
			default:
				a = "wrong-value"
			}
		}
		if aspect == "" || a == "wrong-value" {
			aspect = a
		}
	}
	return aspect
}

func c05Signature(cs c05Case, model string, aspect string) string {
	var in []string
	if aspect == "wrong-value" {
		// the failing value class: operand classes with sign, in order
		for _, a := range cs.args {
			in = append(in, a.class())
		}
	} else {
		// representation / condition aspects: the set of operand kinds
		seen := map[string]bool{}
		for _, a := range cs.args {
			k := a.rep()
			if !seen[k] {
				seen[k] = true
				in = append(in, k)
			}
		}
		sort.Strings(in)
	}
	q := ""
	if len(cs.args) == 2 {
		switch cs.op.name {
		case "expt":
			q = " q=e" + cs.args[1].sign()
		case "floor", "ceiling", "truncate", "round", "mod", "rem":
			q = " q=d" + cs.args[1].sign()
		case "ash":
			q = " q=s" + cs.args[1].sign()
		}
	}
	out := "-"
	mw := strings.Fields(model)
	if mw[0] == "err" {
		out = "err"
	} else if len(mw) > 1 {
		out, _, _ = strings.Cut(mw[1], ":")
	}
	return fmt.Sprintf("op=%s in=%s%s out=%s aspect=%s", cs.op.name, strings.Join(in, ","), q, out, aspect)
}

// ---------------------------------------------------------------------------------------------
// Listed constructs the composite generators avoid (DESIGN §5 exclusion principle). Each rule is
// active only while findings/C05.json lists a finding of that family, so that a repaired family
// is exercised by the composite generators again.

type c05Avoid struct {
	bigRatio  map[string]bool // op -> a bignum meets a proper ratio in + - * / (incf, decf use +)
	subNoDemo bool            // (- a b …) computed in the bignum branch with a result in fixnum range
	negNoDemo bool            // (- a) of a bignum whose negation fits a fixnum
	floorNeg  bool            // (floor fixnum negative-fixnum)
	exptNeg   bool            // (expt rational negative-integer)
	logeqvBig bool            // (logeqv …) with an argument held in a bignum object
}

func c05AvoidRules(f *lib.Findings) c05Avoid {
	av := c05Avoid{bigRatio: map[string]bool{}}
	for _, op := range []string{"+", "-", "*", "/"} {
		if f.Listed("C05", "op="+op+" in=big,rat ") {
			av.bigRatio[op] = true
		}
	}
	if f.Listed("C05", "op=incf in=big,rat ") {
		av.bigRatio["incf"] = true
	}
	if f.Listed("C05", "op=decf in=big,rat ") || f.Listed("C05", "op=decf in=fix,rat ") {
		av.bigRatio["decf"] = true
	}
	av.negNoDemo = false // repaired (repo-patches/C05/0023)
	av.subNoDemo = f.Listed("C05", "op=- in=big ") || f.Listed("C05", "op=- in=big,fix ")
	av.floorNeg = f.Listed("C05", "op=floor in=fix")
	av.logeqvBig = f.Listed("C05", "op=logeqv in=")
	for _, fd := range f.Findings {
		if fd.Property == "C05" && strings.HasPrefix(fd.Signature, "op=expt ") && strings.Contains(fd.Signature, " q=e- ") {
			av.exptNeg = true
		}
	}
	return av
}

func c05IsBigInt(r *big.Rat) bool { return r.IsInt() && !r.Num().IsInt64() }

// listed reports whether the composite case contains a listed construct.
func (av c05Avoid) listed(cs c05Case) bool {
	name := cs.op.name
	switch name {
	case "+", "-", "*", "/", "incf", "decf":
		if len(cs.args) == 0 {
			return false
		}
		// replay the left fold on exact values, tracking the Go type of the accumulator object
		// (fix | big | rat). The operators bring every operand to canonical form first, so a
		// non-canonical operand (a small value in a bignum, n/1 in a ratio) counts by its value.
		acc := new(big.Rat).Set(cs.args[0].rat)
		accRep := c05Rep(acc)
		if name == "-" && len(cs.args) == 1 {
			acc.Neg(acc)
			return av.negNoDemo && accRep == "big" && !c05IsBigInt(acc)
		}
		if name == "/" && len(cs.args) == 1 {
			return false
		}
		for _, b := range cs.args[1:] {
			bRep := c05Rep(b.rat)
			if name == "decf" {
				bRep = c05Rep(new(big.Rat).Neg(b.rat)) // decf negates the delta, then adds
			}
			if av.bigRatio[name] && ((accRep == "big" && bRep == "rat") || (accRep == "rat" && bRep == "big")) {
				return true
			}
			switch name {
			case "+", "incf":
				acc.Add(acc, b.rat)
			case "-", "decf":
				acc.Sub(acc, b.rat)
			case "*":
				acc.Mul(acc, b.rat)
			case "/":
				if b.rat.Sign() == 0 {
					return false
				}
				acc.Quo(acc, b.rat)
			}
			if name == "-" && (accRep == "big" || bRep == "big") && accRep != "rat" && bRep != "rat" {
				accRep = "big" // no demotion in the bignum branch of -
			} else {
				accRep = c05Rep(acc) // every other branch returns the canonical representation
			}
		}
		return name == "-" && av.subNoDemo && accRep == "big" && !c05IsBigInt(acc)
	case "logeqv":
		if av.logeqvBig {
			for _, a := range cs.args {
				if a.form == "B" || c05Rep(a.rat) == "big" {
					return true
				}
			}
		}
		return false
	case "floor":
		return av.floorNeg && len(cs.args) == 2 && c05Rep(cs.args[0].rat) == "fix" && c05Rep(cs.args[1].rat) == "fix" && cs.args[1].rat.Sign() < 0
	case "expt":
		return av.exptNeg && len(cs.args) == 2 && cs.args[1].rat.Sign() < 0
	}
	return false
}

// ---------------------------------------------------------------------------------------------

// c05ParseRequest rebuilds a case from its model request line (used by --replay).
func c05ParseRequest(req string) (c05Case, bool) {
	w := strings.Fields(req)
	if len(w) < 2 || w[0] != "num" {
		return c05Case{}, false
	}
	var cs c05Case
	found := false
	for _, op := range c05Ops {
		if op.name == w[1] {
			cs.op, found = op, true
		}
	}
	if !found {
		return cs, false
	}
	for _, a := range w[2:] {
		kind, v, _ := strings.Cut(a, ":")
		switch kind {
		case "q", "b", "r", "o":
			r, ok := new(big.Rat).SetString(v)
			if !ok {
				return cs, false
			}
			cs.args = append(cs.args, c05Operand{rat: r, kind: "q", form: map[string]string{"q": "", "b": "B", "r": "R", "o": "O"}[kind]})
		case "d":
			var bits uint64
			_, _ = fmt.Sscanf(v, "%x", &bits)
			cs.args = append(cs.args, c05Double(math.Float64frombits(bits)))
		case "s":
			var bits uint64
			_, _ = fmt.Sscanf(v, "%x", &bits)
			cs.args = append(cs.args, c05Single(math.Float32frombits(uint32(bits))))
		case "l":
			ps, rs, _ := strings.Cut(v, ":")
			var prec uint
			_, _ = fmt.Sscanf(ps, "%d", &prec)
			r, ok := new(big.Rat).SetString(rs)
			if !ok || prec == 0 {
				return cs, false
			}
			cs.args = append(cs.args, c05Operand{rat: r, kind: "l", prec: prec})
		default:
			return cs, false
		}
	}
	return cs, true
}

func c05Replay(c *lib.Ctx) {
	var rec map[string]any
	if err := lib.ReadJSON(c.Replay, &rec); err != nil {
		fmt.Println("cannot read replay file:", err)
		return
	}
	req, _ := rec["request"].(string)
	if strings.HasPrefix(req, "num hist ") && c05ReplayHistory(c, req) {
		return
	}
	cs, ok := c05ParseRequest(req)
	if !ok {
		fmt.Println("replay file has no usable request:", rec["input"])
		return
	}
	model := c.Model([]string{req})[0]
	impl, mutated, fault, msg := c05Impl(cs)
	fmt.Printf("replay %s\n  implementation: %s %s\n  model         : %s\n  operand mutated: %v go-fault: %v\n", cs.lisp(), impl, msg, model, mutated, fault)
	if c05Disagree(cs, impl, model) != "" || mutated || fault {
		c.Report(c05Signature(cs, model, "replay"), false, map[string]any{"input": cs.lisp(), "request": req, "observed": impl, "expected": model})
	}
}

// c05Disagree returns the aspect of a disagreement the property constrains, or "".
func c05Disagree(cs c05Case, impl, model string) string {
	if impl == model {
		return ""
	}
	aspect := c05Aspect(impl, model)
	if strings.HasPrefix(aspect, "wrong-type:") {
		switch cs.op.name {
		case "max", "min", "rational", "numerator":
			// these select one of their operands: handing back a non-canonical operand as it is (same
			// object type, same value) is not a computed result in non-canonical form
			iw := strings.Fields(impl)
			for _, a := range cs.args {
				if len(iw) == 2 && a.form != "" && c05Show(a.object()) == iw[1] {
					return ""
				}
			}
		}
	}
	if strings.HasPrefix(aspect, "float-result:") && cs.hasFloat() && cs.op.domain == "cmp1" {
		// min/max may return the float operand itself when it has the same exact value
		iw, mw := strings.Fields(impl), strings.Fields(model)
		_, iv, _ := strings.Cut(iw[1], ":")
		_, mv, _ := strings.Cut(mw[1], ":")
		if iv == mv {
			return ""
		}
		return "wrong-value"
	}
	return aspect
}

// c05Dump writes every distinct disagreement signature of the run (with its first input) to the
// file named by VERIF_C05_DUMP; a development aid for maintaining findings/C05.json.
func c05Dump(c *lib.Ctx) {
	path := os.Getenv("VERIF_C05_DUMP")
	if path == "" {
		return
	}
	var b strings.Builder
	for _, v := range c.Violations {
		fmt.Fprintf(&b, "%s\t%v\t%v\t%v\n", v.Signature, v.Replay["input"], v.Replay["observed"], v.Replay["expected"])
	}
	known := make([]string, 0, len(c.KnownHit))
	for s := range c.KnownHit {
		known = append(known, s)
	}
	sort.Strings(known)
	for _, s := range known {
		fmt.Fprintf(&b, "KNOWN %s\t%d\n", s, c.KnownHit[s])
	}
	_ = os.WriteFile(path, []byte(b.String()), 0o644)
}

func runC05(c *lib.Ctx) {
	if c.Replay != "" {
		c05Replay(c)
		return
	}
	avoid := c05AvoidRules(c.Findings)
	grid := c05Grid()
	var cases []c05Case
	small := []c05Operand{c05Int("-130"), c05Int("-70"), c05Int("-64"), c05Int("-63"), c05Int("-3"), c05Int("-1"), c05Int("0"),
		c05Int("1"), c05Int("2"), c05Int("5"), c05Int("62"), c05Int("63"), c05Int("64"), c05Int("65"), c05Int("130")}
	ratios := []c05Operand{}
	for _, s := range [][2]string{{"1", "2"}, {"-1", "2"}, {"3", "2"}, {"-3", "2"}, {"5", "2"}, {"-5", "2"}, {"7", "2"}, {"1", "3"}, {"-7", "3"},
		{"9223372036854775807", "2"}, {"-9223372036854775809", "2"}, {"1", "9223372036854775808"}, {"18446744073709551617", "3"},
		{"3", "18446744073709551617"}, {"-1", "18446744073709551617"}, {"4294967297", "4294967295"}, {"9223372036854775809", "9223372036854775807"}} {
		ratios = append(ratios, c05RatioS(s[0], s[1]))
	}
	floats := []c05Operand{}
	for _, g := range grid {
		f, _ := new(big.Float).SetInt(g.rat.Num()).Float64()
		for _, x := range []float64{f, math.Nextafter(f, math.Inf(1)), math.Nextafter(f, math.Inf(-1))} {
			floats = append(floats, c05Double(x))
		}
		f32 := float32(f)
		if !math.IsInf(float64(f32), 0) {
			for _, x := range []float32{f32, math.Nextafter32(f32, float32(math.Inf(1))), math.Nextafter32(f32, float32(math.Inf(-1)))} {
				floats = append(floats, c05Single(x))
			}
		}
	}
	floats = append(floats, c05Double(0.5), c05Double(-0.5), c05Double(1.5), c05Double(0.1), c05Single(0.1))
	// integers off the grid where a product, a doubled remainder or a square crosses 2^63, and
	// neighbours of grid points that no float format holds exactly
	extra := []c05Operand{}
	for _, v := range []string{"3037000499", "3037000500", "4294967295", "4294967297", "2147483649", "16777217",
		"6074000999", "4611686018427387905", "6917529027641081856", "9223372036854775806", "9007199254740993"} {
		extra = append(extra, c05Int(v), c05Int("-"+v))
	}
	intPool := append(append([]c05Operand{}, grid...), extra...)
	gridRatios := append(append([]c05Operand{}, intPool...), ratios...)

	// --- single-cause sweep: the grid exhaustively in all pairs (and singles) per operator
	for _, op := range c05Ops {
		unaryPool := gridRatios
		switch op.domain {
		case "int", "nat", "ash":
			unaryPool = intPool
		}
		if op.minArg <= 1 && (op.maxArg == -1 || op.maxArg >= 1) {
			for _, a := range unaryPool {
				cases = append(cases, c05Case{op, []c05Operand{a}, true})
			}
			if op.isCmp() || op.domain == "real" {
				for _, a := range floats {
					cases = append(cases, c05Case{op, []c05Operand{a}, true})
				}
			}
		}
		if op.minArg == 0 {
			cases = append(cases, c05Case{op, nil, true})
		}
		if op.maxArg == -1 || op.maxArg >= 2 {
			var left, right []c05Operand
			switch op.domain {
			case "rat", "place", "go":
				left, right = gridRatios, gridRatios
			case "int":
				left, right = intPool, intPool
			case "ash":
				left, right = intPool, small
			case "bitp":
				// (logbitp index integer): indexes around the word and byte boundaries
				for _, v := range []string{"0", "1", "2", "7", "8", "31", "32", "61", "62", "63", "64", "65", "66", "127", "128", "129", "200", "-1"} {
					left = append(left, c05Int(v))
				}
				right = intPool
			case "expt":
				// bases: 0, ±1, ±2, ±3, ±2^31, two bignums, the first nine ratios
				left = append(append(append([]c05Operand{}, grid[:9]...), c05Int("18446744073709551616"), c05Int("-18446744073709551617")), ratios[:9]...)
				right = small
			case "cmp", "cmp1":
				left = append(append([]c05Operand{}, gridRatios...), floats...)
				right = left
			}
			for _, a := range left {
				for _, b := range right {
					if op.isCmp() && a.kind != "q" && b.kind != "q" && a.kind != b.kind {
						// mixed float formats compared with each other are outside the grid
						continue
					}
					cases = append(cases, c05Case{op, []c05Operand{a, b}, true})
				}
			}
		}
		if op.name == "isqrt" {
			// perfect squares and their neighbours around the float64 and fixnum precision limits
			for _, k := range []string{"67108864", "67108865", "70000001", "82000001", "90000001", "94906264", "94906265", "94906266", "2147483648", "3037000499", "3037000500", "4294967296", "4294967297", "18446744073709551616", "1000000000000000000000000000001"} {
				kk := c05Int(k).rat.Num()
				sq := new(big.Int).Mul(kk, kk)
				for _, d := range []int64{-1, 0, 1} {
					cases = append(cases, c05Case{op, []c05Operand{c05Big(new(big.Int).Add(sq, big.NewInt(d)))}, true})
				}
			}
		}
	}
	// --- single-cause sweep, float-coupled cells: for comparisons, min and max a float derived
	// FROM an integer (nearest single/double/long float and neighbours) against rationals derived
	// from that integer and from the float (n, n±1, the float's exact value, its integer
	// neighbours, ratios a third and 2^-90 away), in both argument orders
	nCoupled := 0
	for _, op := range c05Ops {
		if !op.isCmp() || op.maxArg != -1 {
			continue
		}
		for _, n := range c05FloatAnchors() {
			for _, f := range c05FloatsNear(n) {
				for _, r := range c05RationalsNear(n, f) {
					cases = append(cases, c05Case{op, []c05Operand{r, f}, true}, c05Case{op, []c05Operand{f, r}, true})
					nCoupled += 2
				}
			}
		}
	}
	// --- single-cause sweep, mixed-format cells: for the comparison family two floats of DIFFERENT
	// formats (single, double, long-float) derived from the same grid integer — the nearest float of
	// each format and its neighbours — in both orders: "across all real number types"
	nMixed := 0
	for _, op := range c05Ops {
		if !op.isCmp() || op.maxArg != -1 {
			continue
		}
		for _, g := range grid {
			fs := c05FloatsNear(g.rat.Num())
			for _, a := range fs {
				for _, b := range fs {
					if a.kind == b.kind {
						continue
					}
					cases = append(cases, c05Case{op, []c05Operand{a, b}, true})
					nMixed++
				}
			}
		}
		for _, pr := range [][2]c05Operand{{c05Double(0.1), c05Single(0.1)}, {c05Double(0.5), c05Single(0.5)}, {c05Double(1e-40), c05Single(1e-40)},
			{c05Double(16777217), c05Single(16777216)}, {c05Double(3.4028234663852886e38), c05Single(3.4028234663852886e38)},
			{c05Double(1.0000000000000002), c05Long(big.NewInt(1), 64)}, {c05Single(0.1), c05Long(big.NewInt(0), 64)}} {
			cases = append(cases, c05Case{op, []c05Operand{pr[0], pr[1]}, true}, c05Case{op, []c05Operand{pr[1], pr[0]}, true})
			nMixed += 2
		}
	}
	// --- single-cause sweep, width-class ratio cells: ratios whose numerator and denominator come
	// from every width class (small, 16, 31, 32, 33, 53, 63/64 bits; top heavy), in all ordered
	// pairs with each other and with the width-class integers, for every two-argument operator on
	// rationals (cross products and sums of products are where fixed-width fast paths break);
	// for the comparison family additionally against the floats derived from each ratio
	ratioPool, widthInts := c05RatioPool(), c05WidthInts()
	nRatioCells := 0
	for _, op := range c05Ops {
		two := op.maxArg == -1 || op.maxArg >= 2
		switch op.domain {
		case "rat", "place", "go", "cmp", "cmp1":
		default:
			continue
		}
		if op.minArg <= 1 {
			for _, a := range ratioPool {
				cases = append(cases, c05Case{op, []c05Operand{a}, true})
				nRatioCells++
			}
		}
		if !two {
			continue
		}
		for _, a := range ratioPool {
			for _, b := range ratioPool {
				cases = append(cases, c05Case{op, []c05Operand{a, b}, true})
				nRatioCells++
			}
			for _, b := range widthInts {
				cases = append(cases, c05Case{op, []c05Operand{a, b}, true}, c05Case{op, []c05Operand{b, a}, true})
				nRatioCells += 2
			}
		}
		if op.isCmp() && op.maxArg == -1 {
			tiny := new(big.Rat).SetFrac(big.NewInt(1), new(big.Int).Lsh(big.NewInt(1), 120))
			for _, a := range ratioPool {
				for _, f := range c05FloatsNearRat(a.rat) {
					for _, r := range []c05Operand{a, {rat: new(big.Rat).Set(f.rat), kind: "q"},
						{rat: new(big.Rat).Add(f.rat, tiny), kind: "q"}, {rat: new(big.Rat).Sub(f.rat, tiny), kind: "q"}} {
						cases = append(cases, c05Case{op, []c05Operand{r, f}, true}, c05Case{op, []c05Operand{f, r}, true})
						nRatioCells += 2
					}
				}
			}
		}
	}
	for _, op := range c05Ops {
		if op.name == "expt" {
			for i := 0; i < len(ratioPool); i += 7 {
				for _, e := range small {
					cases = append(cases, c05Case{op, []c05Operand{ratioPool[i], e}, true})
					nRatioCells++
				}
			}
		}
	}
	// --- single-cause sweep, representation cells: every legal REPRESENTATION of a value that Lisp
	// code can produce, not only the canonical one: a value of the fixnum range held in a bignum
	// ((coerce 5 'bignum), or the result of a subtraction that is not demoted), an integer held in a
	// ratio with denominator 1 ((coerce 5 'ratio)). Every operator, singles, and pairs with each other
	// and with canonical partners (integers around the word boundary, ratios, for the comparisons also
	// integer-valued and neighbouring floats), in both argument orders.
	var nonCanon []c05Operand
	for _, v := range []string{"0", "1", "-1", "2", "5", "-7", "2147483648", "4611686018427387904", "9223372036854775807", "-9223372036854775808"} {
		nonCanon = append(nonCanon, c05Int(v).asForm("B"))
	}
	for _, v := range []string{"0", "1", "-1", "5", "-7", "9223372036854775807", "-9223372036854775808", "18446744073709551616"} {
		nonCanon = append(nonCanon, c05Int(v).asForm("R"))
	}
	partners := []c05Operand{}
	for _, v := range []string{"0", "1", "-1", "2", "3", "5", "7", "-7", "64", "2147483648", "4611686018427387904", "9223372036854775807",
		"-9223372036854775808", "9223372036854775808", "-9223372036854775809", "18446744073709551616"} {
		partners = append(partners, c05Int(v))
	}
	partnerRatios := []c05Operand{c05RatioS("1", "2"), c05RatioS("-3", "2"), c05RatioS("7", "3"), c05RatioS("18446744073709551617", "3")}
	partnerFloats := []c05Operand{c05Double(5), c05Single(5), c05Double(4.5), c05Single(-7), c05Double(9223372036854775808.0), c05Double(-9223372036854775808.0),
		c05Single(9223372036854775808.0), c05Long(big.NewInt(5), 64), c05Double(0), c05Double(1)}
	nRepCells := 0
	for _, op := range c05Ops {
		intOnly := false
		switch op.domain {
		case "int", "nat", "ash", "bitp", "expt":
			intOnly = true
		}
		// a ratio object n/1 is of type ratio in slip: the integer-only functions reject it (type-error),
		// that is slip's type system and not a wrong result, so it is not offered to them
		pool := nonCanon
		if op.name == "logeqv" && avoid.logeqvBig {
			// the bignum branch of logeqv is a listed finding (pinned); its single-cause cells are the
			// grid singles and pairs above, a bignum OBJECT of fixnum range takes the same branch
			continue
		}
		if op.domain == "int" || op.domain == "bitp" {
			pool = nil
			for _, a := range nonCanon {
				if a.form != "R" {
					pool = append(pool, a)
				}
			}
		}
		if op.minArg <= 1 && (op.maxArg == -1 || op.maxArg >= 1) {
			for _, a := range pool {
				if op.domain == "nat" && a.rat.Sign() < 0 {
					continue
				}
				cases = append(cases, c05Case{op, []c05Operand{a}, true})
				nRepCells++
			}
		}
		if !(op.maxArg == -1 || op.maxArg >= 2) {
			continue
		}
		others := append(append([]c05Operand{}, pool...), partners...)
		if !intOnly {
			others = append(others, partnerRatios...)
		}
		if op.isCmp() {
			others = append(others, partnerFloats...)
		}
		// shift counts, exponents and bit indexes stay small (the result has 2^|k| digits otherwise)
		smallEnough := func(cs c05Case) bool {
			k := -1
			switch op.domain {
			case "ash", "expt":
				k = 1
			case "bitp":
				k = 0
			}
			return k < 0 || cs.args[k].rat.Num().BitLen() <= 8
		}
		for _, a := range pool {
			for _, b := range others {
				if cs := (c05Case{op, []c05Operand{a, b}, true}); smallEnough(cs) {
					cases = append(cases, cs)
					nRepCells++
				}
				if cs := (c05Case{op, []c05Operand{b, a}, true}); b.form == "" && smallEnough(cs) {
					cases = append(cases, cs)
					nRepCells++
				}
			}
		}
	}
	// --- single-cause sweep, octet cells: an octet ((coerce n 'octet), an element of an octets vector) is an
	// integer of the language; the operators that accept one must treat it as the integer it is (no
	// wrap-around at 8 bits). Operators that reject octets with a type-error are not offered any.
	nOctetCells := 0
	var octets []c05Operand
	for _, v := range []string{"0", "1", "2", "3", "127", "128", "254", "255"} {
		octets = append(octets, c05Int(v).asForm("O"))
	}
	octetPartners := []c05Operand{c05Int("0"), c05Int("1"), c05Int("-1"), c05Int("255"), c05Int("256"), c05Int("9223372036854775807"),
		c05Int("18446744073709551616"), c05RatioS("1", "2"), c05RatioS("511", "2")}
	for _, op := range c05Ops {
		switch op.name {
		case "1+", "1-", "plusp", "minusp", "zerop", "evenp", "oddp", "signum":
			for _, a := range octets {
				cases = append(cases, c05Case{op, []c05Operand{a}, true})
				nOctetCells++
			}
		case "ash":
			for _, a := range octets {
				for _, k := range []string{"-9", "-8", "-1", "0", "1", "7", "8", "55", "56", "57", "64"} {
					cases = append(cases, c05Case{op, []c05Operand{a, c05Int(k)}, true})
					nOctetCells++
				}
			}
		case "<", "<=", ">", ">=", "=", "/=":
			for _, a := range octets {
				for _, b := range append(append([]c05Operand{}, octets...), octetPartners...) {
					cases = append(cases, c05Case{op, []c05Operand{a, b}, true}, c05Case{op, []c05Operand{b, a}, true})
					nOctetCells += 2
				}
				for _, f := range []c05Operand{c05Double(255), c05Double(254.5), c05Single(128), c05Double(0), c05Double(-0.5)} {
					cases = append(cases, c05Case{op, []c05Operand{a, f}, true}, c05Case{op, []c05Operand{f, a}, true})
					nOctetCells += 2
				}
			}
		}
	}
	nSweep := len(cases)

	// --- composite, seed independent: all triples over a small pool for the n-ary operators
	half, mhalf := c05RatioS("1", "2"), c05RatioS("-3", "2")
	tripleInt := []c05Operand{c05Int("0"), c05Int("1"), c05Int("-1"), c05Int("2"), c05Int("6"), c05Int("4611686018427387904"),
		c05Int("9223372036854775807"), c05Int("-9223372036854775808"), c05Int("9223372036854775808")}
	tripleInt = append(tripleInt, c05Int("5").asForm("B"), c05Int("-9223372036854775808").asForm("B"))
	tripleRat := append(append([]c05Operand{}, tripleInt...), half, mhalf, c05Int("1").asForm("R"))
	tripleCmp := append(append([]c05Operand{}, tripleRat...), c05Double(0.5), c05Double(9223372036854775808.0), c05Single(1))
	avoided := 0
	for _, op := range c05Ops {
		if op.maxArg != -1 {
			continue
		}
		pool := tripleRat
		switch {
		case op.domain == "int":
			pool = tripleInt
		case op.isCmp():
			pool = tripleCmp
		}
		for _, a := range pool {
			for _, b := range pool {
				for _, d := range pool {
					cs := c05Case{op, []c05Operand{a, b, d}, false}
					if avoid.listed(cs) {
						avoided++
						continue
					}
					cases = append(cases, cs)
				}
			}
		}
	}
	// --- composite, seed independent: ALL triples over the boundary grid for every n-ary operator
	// (the fold passes through every pair of representations: fixnum, bignum, ratio accumulators)
	nGridTriples := 0
	for _, op := range c05Ops {
		if op.maxArg != -1 {
			continue
		}
		for _, a := range grid {
			for _, b := range grid {
				for _, d := range grid {
					cs := c05Case{op, []c05Operand{a, b, d}, false}
					if avoid.listed(cs) {
						avoided++
						continue
					}
					cases = append(cases, cs)
					nGridTriples++
				}
			}
		}
	}
	nTriples := len(cases) - nSweep

	// --- composite, seeded: integers up to 200 bits and ratios thereof
	nRandom := c.Scale(60000, 3000000)
	naryPool := append(append(append([]c05Operand{}, gridRatios...), widthInts...), ratioPool[:]...)
	var naryOps []c05Op
	for _, op := range c05Ops {
		if op.maxArg == -1 {
			naryOps = append(naryOps, op)
		}
	}
	// n-ary calls of 3..5 operands over the boundary grid, the width classes and the ratio pools
	naryCase := func() c05Case {
		op := naryOps[c.Rng.Intn(len(naryOps))]
		n := 3 + c.Rng.Intn(3)
		var args []c05Operand
		for j := 0; j < n; j++ {
			var a c05Operand
			switch {
			case op.domain == "int":
				if c.Rng.Bool() {
					a = intPool[c.Rng.Intn(len(intPool))]
				} else {
					a = widthInts[c.Rng.Intn(len(widthInts))]
				}
			case op.isCmp() && c.Rng.Chance(15):
				a = floats[c.Rng.Intn(len(floats))]
			case c.Rng.Chance(70):
				a = intPool[c.Rng.Intn(len(intPool))]
			default:
				a = naryPool[c.Rng.Intn(len(naryPool))]
			}
			if len(args) > 0 && c.Rng.Chance(12) {
				a = args[c.Rng.Intn(len(args))] // a repeated operand (=, /=, min, max; x - x; x / x)
			}
			args = append(args, a)
		}
		return c05Case{op, args, false}
	}
	// structured folds: the operands are derived from a chosen sequence of INTERMEDIATE results, so
	// that the running value of + - * / passes through chosen representations (an exact bignum
	// quotient followed by a divisor that does not divide it, a sum that returns to the fixnum range,
	// a product that becomes an integer again); gcd/lcm operands share a huge common factor
	pick := func() *big.Rat {
		switch c.Rng.Intn(4) {
		case 0:
			return intPool[c.Rng.Intn(len(intPool))].rat
		case 1:
			return widthInts[c.Rng.Intn(len(widthInts))].rat
		case 2:
			return new(big.Rat).SetInt(c.Rng.BigBits([]int{8, 33, 62, 63, 64, 65, 100, 200}[c.Rng.Intn(8)]))
		}
		if c.Rng.Bool() {
			return ratioPool[c.Rng.Intn(len(ratioPool))].rat
		}
		return ratios[c.Rng.Intn(len(ratios))].rat
	}
	foldCase := func() c05Case {
		names := []string{"+", "-", "*", "/", "gcd", "lcm"}
		name := names[c.Rng.Intn(len(names))]
		var op c05Op
		for _, o := range c05Ops {
			if o.name == name {
				op = o
			}
		}
		n := 3 + c.Rng.Intn(3)
		var args []c05Operand
		if name == "gcd" || name == "lcm" {
			g := new(big.Int).Abs(pick().Num())
			if g.Sign() == 0 || c.Rng.Chance(40) {
				g = new(big.Int).Lsh(big.NewInt(int64(1+c.Rng.Intn(7))), uint(60+c.Rng.Intn(80)))
			}
			for j := 0; j < n; j++ {
				v := new(big.Int).Mul(g, big.NewInt(int64(c.Rng.Intn(60)-8)))
				if c.Rng.Chance(15) {
					v = big.NewInt(int64(c.Rng.Intn(100) - 20))
				}
				args = append(args, c05Big(v))
			}
			return c05Case{op, args, false}
		}
		acc := new(big.Rat).Set(pick())
		args = append(args, c05Operand{rat: new(big.Rat).Set(acc), kind: "q"})
		for j := 1; j < n; j++ {
			next := pick()
			if c.Rng.Chance(35) {
				// an exact multiple / divisor of the running value by a small number
				k := new(big.Rat).SetInt64(int64(2 + c.Rng.Intn(9)))
				if c.Rng.Bool() {
					next = new(big.Rat).Mul(acc, k)
				} else {
					next = new(big.Rat).Quo(acc, k)
				}
			}
			arg := new(big.Rat)
			switch name {
			case "+":
				arg.Sub(next, acc)
			case "-":
				arg.Sub(acc, next)
			case "*":
				if acc.Sign() == 0 {
					arg.Set(next)
					next = new(big.Rat)
				} else {
					arg.Quo(next, acc)
				}
			case "/":
				if next.Sign() == 0 || acc.Sign() == 0 {
					arg.SetInt64(int64(1 + c.Rng.Intn(9)))
					next = new(big.Rat).Quo(acc, arg)
				} else {
					arg.Quo(acc, next)
				}
			}
			args = append(args, c05Operand{rat: arg, kind: "q"})
			acc = next
		}
		return c05Case{op, args, false}
	}
	randOperand := func(dom string) c05Operand {
		bits := []int{8, 31, 33, 62, 63, 64, 65, 100, 200}[c.Rng.Intn(9)]
		n := c.Rng.BigBits(bits)
		switch dom {
		case "int", "ash", "bitp":
			if c.Rng.Chance(15) {
				return grid[c.Rng.Intn(len(grid))]
			}
			return c05Big(n)
		case "nat":
			if c.Rng.Chance(20) {
				// a perfect square or a neighbour
				k := new(big.Int).Abs(c.Rng.BigBits([]int{16, 27, 31, 32, 33, 50, 100}[c.Rng.Intn(7)]))
				k.Mul(k, k)
				k.Add(k, big.NewInt(int64(c.Rng.Intn(3)-1)))
				return c05Big(k.Abs(k))
			}
			return c05Big(n.Abs(n))
		}
		if c.Rng.Chance(40) {
			// numerator and denominator drawn per width class, half of them top heavy (2^k - small)
			widths := []int{4, 15, 16, 17, 31, 32, 33, 53, 54, 62, 63, 64, 65, 100, 200}
			part := func() *big.Int {
				k := widths[c.Rng.Intn(len(widths))]
				if c.Rng.Bool() {
					v := new(big.Int).Lsh(big.NewInt(1), uint(k))
					return v.Sub(v, big.NewInt(int64(1+c.Rng.Intn(300))))
				}
				return new(big.Int).Abs(c.Rng.BigBits(k))
			}
			num, d := part(), part()
			if d.Sign() == 0 {
				d.SetInt64(7)
			}
			if c.Rng.Bool() {
				num.Neg(num)
			}
			return c05Ratio(num, d)
		}
		if c.Rng.Chance(15) {
			return grid[c.Rng.Intn(len(grid))]
		}
		return c05Big(n)
	}
	randCase := func() c05Case {
		switch c.Rng.Intn(8) {
		case 0, 1:
			return naryCase()
		case 2, 3:
			return foldCase()
		}
		op := c05Ops[c.Rng.Intn(len(c05Ops))]
		n := op.minArg
		if n == 0 {
			n = 1
		}
		if op.maxArg == -1 {
			n += c.Rng.Intn(3)
		} else if op.maxArg > op.minArg {
			n += c.Rng.Intn(op.maxArg - op.minArg + 1)
		}
		var args []c05Operand
		if op.isCmp() && op.maxArg == -1 && c.Rng.Chance(35) {
			// float-coupled: a float derived from a random integer against rationals derived from
			// that integer and from the float, anywhere in a chain of two or three arguments
			m := c.Rng.BigBits([]int{12, 23, 24, 25, 26, 31, 33, 52, 53, 54, 55, 62, 63, 64, 65, 100, 128, 200}[c.Rng.Intn(18)])
			fs := c05FloatsNear(m)
			f := fs[c.Rng.Intn(len(fs))]
			rs := c05RationalsNear(m, f)
			args = append(args, rs[c.Rng.Intn(len(rs))])
			if c.Rng.Chance(40) {
				args = append(args, rs[c.Rng.Intn(len(rs))])
			}
			at := c.Rng.Intn(len(args) + 1)
			args = append(args[:at], append([]c05Operand{f}, args[at:]...)...)
			if c.Rng.Chance(30) {
				// a second float derived from the same integer, possibly of another format
				at = c.Rng.Intn(len(args) + 1)
				args = append(args[:at], append([]c05Operand{fs[c.Rng.Intn(len(fs))]}, args[at:]...)...)
			}
			return c05Case{op, args, false}
		}
		for j := 0; j < n; j++ {
			switch {
			case op.domain == "ash" && j == 1:
				args = append(args, c05Big(big.NewInt(int64(c.Rng.Intn(300)-150))))
			case op.domain == "bitp" && j == 0:
				args = append(args, c05Big(big.NewInt(int64(c.Rng.Intn(260)))))
			case op.domain == "real" && c.Rng.Chance(50):
				args = append(args, floats[c.Rng.Intn(len(floats))])
			case op.domain == "real":
				args = append(args, randOperand("rat"))
			case op.domain == "expt" && j == 1:
				args = append(args, c05Big(big.NewInt(int64(c.Rng.Intn(24)-8))))
			case op.domain == "expt":
				args = append(args, randOperand("rat"))
			case op.isCmp() && c.Rng.Chance(25) && j == n-1:
				args = append(args, floats[c.Rng.Intn(len(floats))])
			case op.isCmp() && c.Rng.Chance(10):
				// a float adjacent to a random integer
				f, _ := new(big.Float).SetInt(c.Rng.BigBits([]int{53, 54, 63, 64, 65, 100}[c.Rng.Intn(6)])).Float64()
				if c.Rng.Bool() {
					args = append(args, c05Double(math.Nextafter(f, math.Inf(c.Rng.Intn(3)-1))))
				} else {
					args = append(args, c05Single(float32(f)))
				}
			case op.domain == "place" || op.domain == "go":
				args = append(args, randOperand("rat"))
			default:
				args = append(args, randOperand(op.domain))
			}
		}
		for j := range args {
			// 8 %: the same value in a non-canonical representation
			if args[j].kind == "q" && args[j].rat.IsInt() && c.Rng.Chance(8) {
				form := []string{"B", "R"}[c.Rng.Intn(2)]
				if op.domain == "int" || op.domain == "bitp" {
					form = "B" // integer-only functions reject a ratio object
				}
				args[j] = args[j].asForm(form)
			}
		}
		return c05Case{op, args, false}
	}
	// --- run model and implementation, batch by batch (bounds memory in the thorough tier)
	agree, total := 0, 0
	runBatch := func(batch []c05Case) {
		reqs := make([]string, len(batch))
		for i, cs := range batch {
			reqs[i] = cs.request()
		}
		// the model driver is a separate, stateless process: run it on four slices of the batch
		// concurrently while the implementation is evaluated here (sequentially: interpreter state
		// is process-global); results are joined by index, so the outcome does not depend on timing
		const parts = 4
		replies := make([]string, len(reqs))
		var wg sync.WaitGroup
		for p := 0; p < parts; p++ {
			lo, hi := p*len(reqs)/parts, (p+1)*len(reqs)/parts
			wg.Add(1)
			go func(lo, hi int) {
				defer wg.Done()
				copy(replies[lo:hi], c.Model(reqs[lo:hi]))
			}(lo, hi)
		}
		type implOut struct {
			reply, msg     string
			mutated, fault bool
		}
		impls := make([]implOut, len(batch))
		for i, cs := range batch {
			impls[i].reply, impls[i].mutated, impls[i].fault, impls[i].msg = c05Impl(cs)
		}
		wg.Wait()
		for i, cs := range batch {
			impl, mutated, fault, msg := impls[i].reply, impls[i].mutated, impls[i].fault, impls[i].msg
			model := replies[i]
			nontrivial := false
			for _, a := range cs.args {
				if !a.rat.IsInt() || a.rat.Num().BitLen() >= 31 {
					nontrivial = true
				}
			}
			c.Ev.Case(reqs[i], nontrivial)
			c.Ev.Hist("op", cs.op.name)
			c.Ev.Hist("nargs", fmt.Sprint(len(cs.args)))
			for _, a := range cs.args {
				c.Ev.Hist("operand_class", a.class())
			}
			mw := strings.Fields(model)
			if mw[0] == "err" {
				c.Ev.Hist("model_outcome", strings.Join(mw, " "))
			} else if len(mw) > 1 {
				t, _, _ := strings.Cut(mw[1], ":")
				c.Ev.Hist("model_outcome", t)
			}
			if total%25013 == 0 {
				c.Ev.Sample(map[string]string{"case": cs.lisp(), "impl": impl, "model": model})
			}
			total++
			if fault {
				c.Report(c05Signature(cs, model, "go-fault"), cs.sweep, map[string]any{"input": cs.lisp(), "request": reqs[i], "observed": impl + " " + msg, "expected": model, "expected_from": "model:num"})
				continue
			}
			if mutated {
				c.Report(c05Signature(cs, model, "operand-mutated"), cs.sweep, map[string]any{"input": cs.lisp(), "request": reqs[i], "observed": "an operand object changed its value during the call", "expected": "operands unchanged", "expected_from": "property statement"})
			}
			aspect := c05Disagree(cs, impl, model)
			if aspect == "" {
				agree++
				continue
			}
			c.Report(c05Signature(cs, model, aspect), cs.sweep, map[string]any{"input": cs.lisp(), "request": reqs[i], "observed": impl, "expected": model, "expected_from": "model:num",
				"relies_on": []string{"SlipVerif.Theorems.C05", "SlipVerif.Theorems.C05Impl"}})
		}
	}
	for lo := 0; lo < len(cases); lo += 200000 { // sweep + triples
		hi := lo + 200000
		if hi > len(cases) {
			hi = len(cases)
		}
		runBatch(cases[lo:hi])
	}
	cases = nil

	// --- composite, seeded: random cases in batches
	nGenerated := 0
	for done := 0; done < nRandom; {
		var batch []c05Case
		for ; done < nRandom && len(batch) < 100000; done++ {
			cs := randCase()
			for try := 0; try < 50 && avoid.listed(cs); try++ {
				avoided++
				cs = randCase()
			}
			if avoid.listed(cs) {
				continue
			}
			batch = append(batch, cs)
		}
		nGenerated += len(batch)
		runBatch(batch)
	}
	nRandom = nGenerated
	nHist, nHistCalls, nHistAgree, nHistDet := c05RunHistories(c, avoid, intPool, gridRatios, floats)
	total += nHist
	agree += nHistAgree
	c.Ev.Coverage["histories"] = nHist
	c.Ev.Coverage["histories_seed_independent"] = nHistDet
	c.Ev.Coverage["history_calls"] = nHistCalls
	c.Ev.Coverage["grid_triple_cases"] = nGridTriples
	c.Ev.Coverage["sweep_octet_cases"] = nOctetCells
	c05Dump(c)
	c.Ev.Coverage["traces_validated_against_impl"] = total
	c.Ev.Coverage["agreements"] = agree
	c.Ev.Coverage["sweep_cases"] = nSweep
	c.Ev.Coverage["sweep_float_coupled_cases"] = nCoupled
	c.Ev.Coverage["sweep_width_class_ratio_cases"] = nRatioCells
	c.Ev.Coverage["sweep_representation_cases"] = nRepCells
	c.Ev.Coverage["sweep_mixed_float_format_cases"] = nMixed
	c.Ev.Coverage["triple_cases"] = nTriples
	c.Ev.Coverage["random_cases"] = nRandom
	c.Ev.Coverage["composite_cases_avoided_listed_construct"] = avoided
	c.Ev.Coverage["rule"] = "cases = (operator, operand tuple); sweep (exhaustive, seed independent, may be excused by findings/C05.json) = boundary grid in all pairs/singles per operator + float-coupled comparison cells + mixed-format float cells + width-class ratio cells + representation cells (integers held in a bignum object or in a ratio object n/1); composite (never excused, listed constructs avoided) = all triples over a small pool and over the boundary grid for the n-ary operators + n-ary calls of 3..5 operands over grid/width classes + structured folds (operands derived from chosen intermediate results; gcd/lcm with a huge common factor) + histories (3..8 calls in one scope, every operand and result kept in a variable, re-read after every later call and used again as operands; compared with the model's history runner SlipVerif.Num.run) + random integers/ratios up to 200 bits, 8 % of the integers in a non-canonical representation; non-trivial = some operand is a ratio or has magnitude >= 2^31; distinct by request line"
}
