package main

// C09 worker: `vh C09-worker --root <root>` — evaluates one case per request line inside an
// isolated process. Requests arrive on fd 3, replies leave on fd 4 (one line per case, written
// unbuffered). stdin is /dev/null, stdout is /dev/null (so that describe/apropos/print output of
// the interpreter never reaches the protocol), stderr is captured by the parent (Go fatal error
// text). The working directory is an empty jail under <root>/.work/.
//
// request : <kind> <hex payload>      kind E = read + eval + print (Lisp text)
//                                     kind R = reader only (raw bytes) + print of what was read
//                                     kind T = reader through a stream: payload entry NUL pad NUL cuts NUL bytes
//                                              (entry point, number of spaces put in front, chunk sizes
//                                              of the short-read reader or empty for natural 64 KiB blocks)
//                                     kind Q = quit after a grace period (lets goroutines crash)
// reply   : <status> <stage> <micros> <hex class> <hex message/value (truncated)>
//           status V value | C Lisp condition (slip.Panic or condition instance) | P foreign Go panic

import (
	"bufio"
	"bytes"
	"encoding/hex"
	"fmt"
	"io"
	"os"
	"runtime"
	"runtime/debug"
	"strconv"
	"strings"
	"syscall"
	"time"

	"github.com/ohler55/slip"
	"verif/harness/lib"
)

func init() { props["C09-worker"] = runC09Worker }

const (
	c09MaxStack  = 128 << 20 // bytes; beyond this the Go runtime aborts the worker (stack-overflow fault)
	c09RlimitAS  = 6 << 30   // address space cap of a worker
	c09PrintCap  = 1 << 16   // printed values are cut at this many bytes
	c09ReplyText = 400       // bytes of message / value text returned to the parent
)

// c09Prelude is evaluated once in every fresh worker: the user-defined class, flavor, structure
// and package the object pool refers to.
const c09Prelude = `
(defclass c09-class () ((x :initarg :x :initform 1)))
(defclass c09-class2 () ((y :initarg :y) (z)))
(defflavor c09-flavor ((a 1)) () :gettable-instance-variables :settable-instance-variables)
(defstruct c09-struct a b)
(make-package "c09-pkg")
`

func runC09Worker(c *lib.Ctx) {
	debug.SetMaxStack(c09MaxStack)
	lim := syscall.Rlimit{Cur: c09RlimitAS, Max: c09RlimitAS}
	_ = syscall.Setrlimit(syscall.RLIMIT_AS, &lim)
	in := os.NewFile(3, "requests")
	out := os.NewFile(4, "replies")
	if in == nil || out == nil {
		fmt.Fprintln(os.Stderr, "C09-worker: fds 3/4 missing")
		os.Exit(2)
	}
	// die with the parent: the request pipe reaches EOF when the parent goes away, but a hung
	// evaluation would never notice, hence the watchdog
	ppid := os.Getppid()
	go func() {
		for {
			time.Sleep(500 * time.Millisecond)
			if os.Getppid() != ppid {
				os.Exit(3)
			}
		}
	}()
	if o := lib.EvalString(slip.NewScope(), c09Prelude); !o.Ok {
		fmt.Fprintf(os.Stderr, "C09-worker: prelude failed: %s %s\n", o.Class, o.Msg)
		os.Exit(2)
	}
	userPkg := slip.CurrentPackage
	baseline := runtime.NumGoroutine()
	sc := bufio.NewScanner(in)
	sc.Buffer(make([]byte, 1<<20), 1<<26)
	for sc.Scan() {
		line := sc.Text()
		kind, payload, _ := strings.Cut(line, " ")
		if kind == "Q" {
			time.Sleep(30 * time.Millisecond)
			break
		}
		raw, err := hex.DecodeString(payload)
		if err != nil {
			fmt.Fprintf(os.Stderr, "C09-worker: bad request %q\n", line)
			os.Exit(2)
		}
		slip.CurrentPackage = userPkg
		t0 := time.Now()
		status, stage, class, text := c09Eval(kind, raw)
		// let goroutines started by the case finish (or crash) before the next case starts, so
		// that an asynchronous crash is attributed to the case that caused it
		if n := runtime.NumGoroutine(); n > baseline {
			for i := 0; i < 40 && runtime.NumGoroutine() > baseline; i++ {
				time.Sleep(time.Millisecond)
			}
			if n = runtime.NumGoroutine(); n > baseline {
				baseline = n // a goroutine that stays (ticker, channel reader): accept it
			}
		}
		us := time.Since(t0).Microseconds()
		if len(text) > c09ReplyText {
			text = text[:c09ReplyText]
		}
		reply := fmt.Sprintf("%s %s %d %s %s\n", status, stage, us, lib.Hex(class), lib.Hex(text))
		if _, err := out.WriteString(reply); err != nil {
			os.Exit(0)
		}
	}
	os.Exit(0)
}

// c09Eval runs one case; every Go panic is recovered here, so only Go *fatal* errors (stack
// exhaustion, out of memory, concurrent map access), panics in other goroutines and os.Exit can
// take the worker down.
func c09Eval(kind string, raw []byte) (status, stage, class, text string) {
	stage = "read"
	defer func() {
		if r := recover(); r != nil {
			status = "C"
			switch tr := r.(type) {
			case *slip.Panic:
				class = strings.ToLower(string(tr.Hierarchy()[0]))
				text = tr.Message
				if text == "" && tr.Condition != nil {
					if mv, has := tr.Condition.SlotValue(slip.Symbol("message")); has {
						text = c09SafeString(mv)
					}
				}
			case slip.Instance:
				class = strings.ToLower(string(tr.Hierarchy()[0]))
				if mv, has := tr.SlotValue(slip.Symbol("message")); has {
					text = c09SafeString(mv)
				}
			case error:
				status, class, text = "P", "go-error", tr.Error()
			default:
				status, class, text = "P", "go-panic", fmt.Sprint(r)
			}
		}
	}()
	scope := slip.NewScope()
	var result slip.Object
	switch kind {
	case "E":
		code := slip.ReadString(string(raw), scope)
		stage = "eval"
		for _, obj := range code {
			result = scope.Eval(obj, 0)
		}
	case "R":
		code := slip.Read(raw, scope)
		result = slip.List(code)
	case "T":
		result = c09WorkerStream(scope, raw)
	case "S":
		result = slip.String(c09StackProbe(scope, raw))
	default:
		fmt.Fprintf(os.Stderr, "C09-worker: unknown request kind %q\n", kind)
		os.Exit(2)
	}
	stage = "print"
	class = lib.TypeOf(scope, result)
	text = c09Print(result)
	status = "V"
	return
}

// c09StackProbe reads the text and reports what the object stack model predicts: the number of
// forms, the depth of a PartialPanic, or which of the two stack related parse errors at which column.
// Everything else (other conditions, Go panics) is passed on to c09Eval.
func c09StackProbe(scope *slip.Scope, raw []byte) (out string) {
	defer func() {
		if r := recover(); r != nil {
			msg := ""
			switch tr := r.(type) {
			case *slip.PartialPanic:
				out = fmt.Sprintf("partial %d", tr.Depth)
				return
			case *slip.Panic:
				msg = tr.Message
			case slip.Instance:
				if mv, has := tr.SlotValue(slip.Symbol("message")); has {
					msg = c09SafeString(mv)
				}
			}
			col := ""
			if i := strings.LastIndex(msg, " at 0:"); i >= 0 {
				col = msg[i+6:]
			}
			switch {
			case strings.HasPrefix(msg, "unmatched close parenthesis") && col != "":
				out = "raise unmatched " + col
			case strings.HasPrefix(msg, "comma not inside a backquote") && col != "":
				out = "raise comma " + col
			default:
				panic(r)
			}
		}
	}()
	code := slip.Read(raw, scope)
	return fmt.Sprintf("forms %d", len(code))
}

// c09CutReader delivers data in chunks of the given sizes (short reads), the rest in reads as large
// as the caller's buffer.
type c09CutReader struct {
	data []byte
	cuts []int
}

func (r *c09CutReader) Read(p []byte) (int, error) {
	if len(r.data) == 0 {
		return 0, io.EOF
	}
	n := len(p)
	if len(r.cuts) > 0 {
		if r.cuts[0] < n {
			n = r.cuts[0]
		}
		r.cuts = r.cuts[1:]
		if n <= 0 {
			n = 1
		}
	}
	if n > len(r.data) {
		n = len(r.data)
	}
	copy(p, r.data[:n])
	r.data = r.data[n:]
	return n, nil
}

// c09WorkerStream: the reader behind one of its stream entry points.
func c09WorkerStream(scope *slip.Scope, raw []byte) slip.Object {
	parts := bytes.SplitN(raw, []byte{0}, 4)
	if len(parts) != 4 {
		fmt.Fprintln(os.Stderr, "C09-worker: malformed T request")
		os.Exit(2)
	}
	entry := string(parts[0])
	pad, _ := strconv.Atoi(string(parts[1]))
	var cuts []int
	ones := false
	for _, c := range strings.Split(string(parts[2]), ",") {
		if c == "*1" {
			ones = true
		} else if n, err := strconv.Atoi(c); err == nil {
			cuts = append(cuts, n)
		}
	}
	data := append(bytes.Repeat([]byte{' '}, pad), parts[3]...)
	if ones {
		cuts = make([]int, len(data))
		for i := range cuts {
			cuts[i] = 1
		}
	}
	natural := len(cuts) == 0
	mk := func() io.Reader { return &c09CutReader{data: data, cuts: cuts} }
	switch entry {
	case "ReadStream":
		code, _ := slip.ReadStream(mk(), scope)
		return slip.List(code)
	case "ReadStreamOne":
		code, pos := slip.ReadStream(mk(), scope, true)
		return slip.List{slip.List(code), slip.Fixnum(pos)}
	case "ReadStreamPush":
		ch := make(chan slip.Object, 1<<16)
		slip.ReadStreamPush(mk(), scope, ch)
		var out slip.List
		for len(ch) > 0 {
			out = append(out, <-ch)
		}
		return out
	case "ReadStreamEach":
		caller, ok := scope.Eval(slip.ReadString("(lambda (x) x)", scope)[0], 0).(slip.Caller)
		if !ok {
			fmt.Fprintln(os.Stderr, "C09-worker: a lambda is not a slip.Caller")
			os.Exit(2)
		}
		slip.ReadStreamEach(mk(), scope, caller)
		return nil
	}
	// Lisp level: a seekable string stream for natural blocks, else a plain (not seekable) input
	// stream over the short-read reader
	var stream slip.Object
	if natural {
		stream = slip.NewStringStream(data)
	} else {
		stream = slip.NewInputStream(mk())
	}
	scope.Let(slip.Symbol("c09-stream"), stream)
	var src string
	switch entry {
	case "cl:read":
		src = "(read c09-stream)"
	case "cl:read-repeat":
		// (read stream) until end-of-file: every form of the text goes through cl:read and its seeking
		var out slip.List
		form := slip.ReadString("(read c09-stream)", scope)
		for i := 0; i < 64; i++ {
			v, eof := c09ReadOnce(scope, form)
			if eof {
				break
			}
			out = append(out, v)
		}
		return out
	case "gi:read-each":
		src = "(read-each c09-stream (lambda (x) x))"
	case "gi:read-push":
		src = "(let ((c (make-channel 60000))) (read-push c09-stream c) c)"
	default:
		fmt.Fprintf(os.Stderr, "C09-worker: unknown stream entry %q\n", entry)
		os.Exit(2)
	}
	var result slip.Object
	for _, form := range slip.ReadString(src, scope) {
		result = scope.Eval(form, 0)
	}
	return result
}

// c09ReadOnce evaluates the read form; an end-of-file condition ends the repetition, every other
// condition or panic goes on to the case's recover.
func c09ReadOnce(scope *slip.Scope, form slip.Code) (v slip.Object, eof bool) {
	defer func() {
		if r := recover(); r != nil {
			if p, ok := r.(*slip.Panic); ok && strings.EqualFold(string(p.Hierarchy()[0]), "end-of-file") {
				eof = true
				return
			}
			panic(r)
		}
	}()
	for _, f := range form {
		v = scope.Eval(f, 0)
	}
	return
}

// c09Print prints a result the way the REPL would, cut at c09PrintCap bytes.
func c09Print(obj slip.Object) string {
	if obj == nil {
		return "nil"
	}
	b := slip.ObjectAppend(nil, obj)
	if len(b) > c09PrintCap {
		b = b[:c09PrintCap]
	}
	return string(b)
}

func c09SafeString(obj slip.Object) (s string) {
	defer func() {
		if r := recover(); r != nil {
			s = fmt.Sprint("message not printable: ", r)
		}
	}()
	if str, ok := obj.(slip.String); ok {
		return string(str)
	}
	return slip.ObjectString(obj)
}
