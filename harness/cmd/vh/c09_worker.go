package main

// C09 worker: `vh C09-worker --root <root>` — evaluates one case per request line inside an
// isolated process. Requests arrive on fd 3, replies leave on fd 4 (one line per case, written
// unbuffered). stdin is /dev/null, stdout is /dev/null (so that describe/apropos/print output of
// the interpreter never reaches the protocol), stderr is captured by the parent (Go fatal error
// text). The working directory is an empty jail under <root>/.work/.
//
// request : <kind> <hex payload>      kind E = read + eval + print (Lisp text)
//                                     kind R = reader only (raw bytes) + print of what was read
//                                     kind Q = quit after a grace period (lets goroutines crash)
// reply   : <status> <stage> <micros> <hex class> <hex message/value (truncated)>
//           status V value | C Lisp condition (slip.Panic or condition instance) | P foreign Go panic

import (
	"bufio"
	"encoding/hex"
	"fmt"
	"os"
	"runtime"
	"runtime/debug"
	"strings"
	"syscall"
	"time"

	"github.com/ohler55/slip"
	"verif/harness/lib"
)

func init() { props["C09-worker"] = runC09Worker }

const (
	c09MaxStack  = 128 << 20 // bytes; beyond this the Go runtime aborts the worker (stack-overflow fault)
	c09RlimitAS  = 6 << 30   // address space cap of a worker
	c09PrintCap  = 1 << 16   // printed values are cut at this many bytes
	c09ReplyText = 400       // bytes of message / value text returned to the parent
)

// c09Prelude is evaluated once in every fresh worker: the user-defined class, flavor, structure
// and package the object pool refers to.
const c09Prelude = `
(defclass c09-class () ((x :initarg :x :initform 1)))
(defflavor c09-flavor ((a 1)) () :gettable-instance-variables :settable-instance-variables)
(defstruct c09-struct a b)
(make-package "c09-pkg")
`

func runC09Worker(c *lib.Ctx) {
	debug.SetMaxStack(c09MaxStack)
	lim := syscall.Rlimit{Cur: c09RlimitAS, Max: c09RlimitAS}
	_ = syscall.Setrlimit(syscall.RLIMIT_AS, &lim)
	in := os.NewFile(3, "requests")
	out := os.NewFile(4, "replies")
	if in == nil || out == nil {
		fmt.Fprintln(os.Stderr, "C09-worker: fds 3/4 missing")
		os.Exit(2)
	}
	// die with the parent: the request pipe reaches EOF when the parent goes away, but a hung
	// evaluation would never notice, hence the watchdog
	ppid := os.Getppid()
	go func() {
		for {
			time.Sleep(500 * time.Millisecond)
			if os.Getppid() != ppid {
				os.Exit(3)
			}
		}
	}()
	if o := lib.EvalString(slip.NewScope(), c09Prelude); !o.Ok {
		fmt.Fprintf(os.Stderr, "C09-worker: prelude failed: %s %s\n", o.Class, o.Msg)
		os.Exit(2)
	}
	userPkg := slip.CurrentPackage
	baseline := runtime.NumGoroutine()
	sc := bufio.NewScanner(in)
	sc.Buffer(make([]byte, 1<<20), 1<<26)
	for sc.Scan() {
		line := sc.Text()
		kind, payload, _ := strings.Cut(line, " ")
		if kind == "Q" {
			time.Sleep(30 * time.Millisecond)
			break
		}
		raw, err := hex.DecodeString(payload)
		if err != nil {
			fmt.Fprintf(os.Stderr, "C09-worker: bad request %q\n", line)
			os.Exit(2)
		}
		slip.CurrentPackage = userPkg
		t0 := time.Now()
		status, stage, class, text := c09Eval(kind, raw)
		// let goroutines started by the case finish (or crash) before the next case starts, so
		// that an asynchronous crash is attributed to the case that caused it
		if n := runtime.NumGoroutine(); n > baseline {
			for i := 0; i < 40 && runtime.NumGoroutine() > baseline; i++ {
				time.Sleep(time.Millisecond)
			}
			if n = runtime.NumGoroutine(); n > baseline {
				baseline = n // a goroutine that stays (ticker, channel reader): accept it
			}
		}
		us := time.Since(t0).Microseconds()
		if len(text) > c09ReplyText {
			text = text[:c09ReplyText]
		}
		reply := fmt.Sprintf("%s %s %d %s %s\n", status, stage, us, lib.Hex(class), lib.Hex(text))
		if _, err := out.WriteString(reply); err != nil {
			os.Exit(0)
		}
	}
	os.Exit(0)
}

// c09Eval runs one case; every Go panic is recovered here, so only Go *fatal* errors (stack
// exhaustion, out of memory, concurrent map access), panics in other goroutines and os.Exit can
// take the worker down.
func c09Eval(kind string, raw []byte) (status, stage, class, text string) {
	stage = "read"
	defer func() {
		if r := recover(); r != nil {
			status = "C"
			switch tr := r.(type) {
			case *slip.Panic:
				class = strings.ToLower(string(tr.Hierarchy()[0]))
				text = tr.Message
				if text == "" && tr.Condition != nil {
					if mv, has := tr.Condition.SlotValue(slip.Symbol("message")); has {
						text = c09SafeString(mv)
					}
				}
			case slip.Instance:
				class = strings.ToLower(string(tr.Hierarchy()[0]))
				if mv, has := tr.SlotValue(slip.Symbol("message")); has {
					text = c09SafeString(mv)
				}
			case error:
				status, class, text = "P", "go-error", tr.Error()
			default:
				status, class, text = "P", "go-panic", fmt.Sprint(r)
			}
		}
	}()
	scope := slip.NewScope()
	var result slip.Object
	switch kind {
	case "E":
		code := slip.ReadString(string(raw), scope)
		stage = "eval"
		for _, obj := range code {
			result = scope.Eval(obj, 0)
		}
	case "R":
		code := slip.Read(raw, scope)
		result = slip.List(code)
	default:
		fmt.Fprintf(os.Stderr, "C09-worker: unknown request kind %q\n", kind)
		os.Exit(2)
	}
	stage = "print"
	class = lib.TypeOf(scope, result)
	text = c09Print(result)
	status = "V"
	return
}

// c09Print prints a result the way the REPL would, cut at c09PrintCap bytes.
func c09Print(obj slip.Object) string {
	if obj == nil {
		return "nil"
	}
	b := slip.ObjectAppend(nil, obj)
	if len(b) > c09PrintCap {
		b = b[:c09PrintCap]
	}
	return string(b)
}

func c09SafeString(obj slip.Object) (s string) {
	defer func() {
		if r := recover(); r != nil {
			s = fmt.Sprint("message not printable: ", r)
		}
	}()
	if str, ok := obj.(slip.String); ok {
		return string(str)
	}
	return slip.ObjectString(obj)
}
