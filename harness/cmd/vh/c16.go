package main

// C16 — equality, hashing and type predicates are mutually coherent.
//
// Three families (files c16.go, c16_hash.go, c16_types.go):
//   pred  : eq/eql/equal/equalp/ObjectEqual/sxhash on all pairs and triples of an object universe
//           (fixed boundary part = sweep, seeded random part = composite) — the laws are evaluated
//           directly on the implementation and the predicate results are compared with the Lean
//           model (SlipVerif.Model.Equality) through "eq matrix".
//   hash  : histories of (setf gethash)/gethash/remhash/clrhash/hash-table-count/maphash versus the
//           map model (SlipVerif.Model.HashTable under the model's eql) through "eq hist".
//   type  : typep/type-of/subtypep/coerce on a pool of objects x every class of the registry, the
//           laws directly and against SlipVerif.Model.Types over the regenerated tables ("type …").
//
// Objects travel as one-token wire terms (see lean/SlipVerif/Driver/Equality.lean); the Go objects
// are built from the very same wire term, so model and implementation see the same universe.

import (
	"fmt"
	"math"
	"math/big"
	"os"
	"path/filepath"
	"sort"
	"strconv"
	"strings"
	"unicode"

	"github.com/ohler55/slip"
	"verif/harness/lib"
)

func init() { props["C16"] = runC16 }

// ---------------------------------------------------------------------------------------------
// universe objects

type c16Obj struct {
	wire  string
	obj   slip.Object
	kind  string   // null fixnum bignum ratio single-float double-float character string symbol list vector other
	nest  int      // container depth
	rat   *big.Rat // numbers: exact value
	text  string   // for humans
	fixed bool     // member of the seed-independent sweep universe
}

var c16Others = []string{"", "common-lisp", "keyword", "common-lisp-user"}

type c16Parser struct {
	s   string
	pos int
}

func (p *c16Parser) fail(why string) {
	panic(fmt.Sprintf("c16 wire: %s at %d in %q", why, p.pos, p.s))
}

func (p *c16Parser) peek() byte {
	if p.pos >= len(p.s) {
		return 0
	}
	return p.s[p.pos]
}

func (p *c16Parser) expect(b byte) {
	if p.peek() != b {
		p.fail("expected " + string(b))
	}
	p.pos++
}

func (p *c16Parser) digits(neg bool) string {
	start := p.pos
	if neg && p.peek() == '-' {
		p.pos++
	}
	for p.pos < len(p.s) && p.s[p.pos] >= '0' && p.s[p.pos] <= '9' {
		p.pos++
	}
	if start == p.pos {
		p.fail("digits")
	}
	return p.s[start:p.pos]
}

func (p *c16Parser) nat() int {
	n, err := strconv.Atoi(p.digits(false))
	if err != nil {
		p.fail("nat")
	}
	return n
}

func (p *c16Parser) cps() []rune {
	var rs []rune
	if p.peek() == ';' {
		p.pos++
		return rs
	}
	for {
		rs = append(rs, rune(p.nat()))
		if p.peek() == '.' {
			p.pos++
			continue
		}
		p.expect(';')
		return rs
	}
}

// the non-ASCII letters with a case mapping the universe may contain: the model's folding table
// (Model/Equality.lean foldC, lowerC) covers Latin-1, Greek (with the final sigma) and Cyrillic
var c16CasedAlphabet = []rune{'É', 'é', 'Σ', 'σ', 'ς', 'Д', 'д'}

// c16CheckRune: every emitted code point is ASCII, a member of the cased alphabet (verified against
// Go's folding by c16CheckAlphabet) or has no case mapping at all.
func c16CheckRune(r rune) {
	if r < 128 {
		return
	}
	for _, a := range c16CasedAlphabet {
		if a == r {
			return
		}
	}
	if unicode.SimpleFold(r) != r || unicode.ToLower(r) != r || unicode.ToUpper(r) != r {
		panic(fmt.Sprintf("c16: code point %U has a case mapping outside the model's folding alphabet", r))
	}
}

// c16CheckAlphabet: on every pair of code points of the alphabet (ASCII letters, digits, the cased
// non-ASCII letters) the model's folding is Go's: strings.EqualFold <=> model equal on one-letter
// strings, unicode.ToLower equality <=> model equalp on characters. A difference is a machinery
// error (the alphabet leaves the model's table), not a verdict about slip.
func c16CheckAlphabet(c *lib.Ctx) {
	var alpha []rune
	for r := rune(' '); r < 127; r++ {
		alpha = append(alpha, r)
	}
	alpha = append(alpha, c16CasedAlphabet...)
	alpha = append(alpha, '→')
	g := &c16Gen{next: 9000000}
	var wires []string
	for _, r := range alpha {
		wires = append(wires, g.str(string(r)))
	}
	for _, r := range alpha {
		wires = append(wires, g.chr(r))
	}
	f := strings.Fields(c.Model([]string{"eq matrix " + strings.Join(wires, " ")})[0])
	if len(f) != 6 || f[0] != "ok" {
		panic("c16 alphabet: model reply")
	}
	n := len(wires)
	for i, a := range alpha {
		for j, b := range alpha {
			if (f[3][i*n+j] == '1') != strings.EqualFold(string(a), string(b)) {
				panic(fmt.Sprintf("c16 alphabet: model equal on strings %q %q differs from strings.EqualFold", string(a), string(b)))
			}
			k, l := len(alpha)+i, len(alpha)+j
			if (f[4][k*n+l] == '1') != (unicode.ToLower(a) == unicode.ToLower(b)) {
				panic(fmt.Sprintf("c16 alphabet: model equalp on characters %q %q differs from unicode.ToLower", string(a), string(b)))
			}
		}
	}
	c.Ev.Coverage["alphabet_pairs_checked_against_go_folding"] = len(alpha) * len(alpha)
}

// c16HasNonASCIICase: the object contains a non-ASCII letter with a case mapping
func c16HasNonASCIICase(o *c16Obj) bool {
	for _, r := range o.text {
		for _, a := range c16CasedAlphabet {
			if a == r {
				return true
			}
		}
	}
	return false
}

func (p *c16Parser) obj() *c16Obj {
	start := p.pos
	o := &c16Obj{}
	c := p.peek()
	p.pos++
	switch c {
	case 'N':
		o.kind, o.obj, o.text = "null", nil, "nil"
	case 'n':
		p.nat()
		p.expect(':')
		rep := p.peek()
		p.pos++
		p.expect(':')
		num, _ := new(big.Int).SetString(p.digits(true), 10)
		p.expect('/')
		den, _ := new(big.Int).SetString(p.digits(false), 10)
		p.expect(';')
		r := new(big.Rat).SetFrac(num, den)
		o.rat = r
		switch rep {
		case 'f':
			if !r.IsInt() || !r.Num().IsInt64() {
				p.fail("fixnum range")
			}
			o.kind, o.obj = "fixnum", slip.Fixnum(r.Num().Int64())
			o.text = r.Num().String()
		case 'b':
			if !r.IsInt() {
				p.fail("bignum value")
			}
			o.kind, o.obj = "bignum", (*slip.Bignum)(new(big.Int).Set(r.Num()))
			o.text = "#bignum<" + r.Num().String() + ">"
		case 'r':
			o.kind, o.obj = "ratio", (*slip.Ratio)(new(big.Rat).Set(r))
			o.text = "#ratio<" + r.String() + ">"
		case 'd':
			f, exact := r.Float64()
			if !exact {
				p.fail("double not exact")
			}
			o.kind, o.obj = "double-float", slip.DoubleFloat(f)
			o.text = strconv.FormatFloat(f, 'g', -1, 64) + "d0"
		case 's':
			f, exact := r.Float32()
			if !exact {
				p.fail("single not exact")
			}
			o.kind, o.obj = "single-float", slip.SingleFloat(f)
			o.text = strconv.FormatFloat(float64(f), 'g', -1, 32) + "s0"
		case 'D', 'S':
			// negative zero: the value is 0, the object is -0.0
			if r.Sign() != 0 {
				p.fail("negative zero")
			}
			if rep == 'D' {
				o.kind, o.obj, o.text = "double-float", slip.DoubleFloat(math.Copysign(0, -1)), "-0.0d0"
			} else {
				o.kind, o.obj, o.text = "single-float", slip.SingleFloat(math.Copysign(0, -1)), "-0.0s0"
			}
		case 'l':
			f := new(big.Float).SetPrec(uint(r.Num().BitLen() + r.Denom().BitLen() + 64))
			if _, acc := f.SetRat(r), big.Exact; acc != big.Exact {
				p.fail("long-float")
			}
			if back, _ := f.Rat(nil); back.Cmp(r) != 0 {
				p.fail("long-float not exact")
			}
			o.kind, o.obj = "long-float", (*slip.LongFloat)(f)
			o.text = f.Text('g', -1) + "L0"
		default:
			p.fail("rep")
		}
	case 'c':
		p.nat()
		p.expect(':')
		r := rune(p.nat())
		p.expect(';')
		c16CheckRune(r)
		o.kind, o.obj, o.text = "character", slip.Character(r), "#\\"+string(r)
	case 's':
		p.nat()
		p.expect(':')
		rs := p.cps()
		for _, r := range rs {
			c16CheckRune(r)
		}
		o.kind, o.obj, o.text = "string", slip.String(string(rs)), strconv.Quote(string(rs))
	case 'y':
		rs := p.cps()
		for _, r := range rs {
			c16CheckRune(r)
		}
		o.kind, o.obj, o.text = "symbol", slip.Symbol(string(rs)), "'"+string(rs)
	case 'O':
		k := p.nat()
		p.expect(';')
		if k < 1 || k >= len(c16Others) {
			p.fail("other index")
		}
		o.kind, o.obj, o.text = "other", slip.FindPackage(c16Others[k]), "#<package "+c16Others[k]+">"
	case 'L', 'V':
		p.nat()
		p.expect('(')
		var elems slip.List
		var texts []string
		for p.peek() != ')' {
			e := p.obj()
			elems = append(elems, e.obj)
			texts = append(texts, strings.TrimPrefix(e.text, "'"))
			if e.nest+1 > o.nest {
				o.nest = e.nest + 1
			}
		}
		p.pos++
		if o.nest == 0 {
			o.nest = 1
		}
		if c == 'L' {
			if len(elems) == 0 {
				p.fail("empty list")
			}
			o.kind, o.obj, o.text = "list", elems, "'("+strings.Join(texts, " ")+")"
		} else {
			if elems == nil {
				elems = slip.List{}
			}
			o.kind, o.obj = "vector", slip.NewVector(len(elems), slip.TrueSymbol, nil, elems, false)
			o.text = "#(" + strings.Join(texts, " ") + ")"
		}
	default:
		p.fail("object tag")
	}
	o.wire = p.s[start:p.pos]
	return o
}

// c16FromWire builds the slip object (fresh Go objects) a wire term denotes.
func c16FromWire(w string) *c16Obj {
	p := &c16Parser{s: w}
	o := p.obj()
	if p.pos != len(w) {
		p.fail("trailing input")
	}
	return o
}

// ---------------------------------------------------------------------------------------------
// wire term builders; ids come from one counter so every object has its own token

type c16Gen struct {
	next int
	rng  *lib.Rng
}

func (g *c16Gen) id() int { g.next++; return g.next }

func (g *c16Gen) num(rep byte, r *big.Rat) string {
	return fmt.Sprintf("n%d:%c:%s/%s;", g.id(), rep, r.Num().String(), r.Denom().String())
}
func (g *c16Gen) numS(rep byte, s string) string {
	r, ok := new(big.Rat).SetString(s)
	if !ok {
		panic("c16 bad rational " + s)
	}
	return g.num(rep, r)
}
func (g *c16Gen) dbl(f float64) string { return g.num('d', new(big.Rat).SetFloat64(f)) }
func (g *c16Gen) sgl(f float32) string { return g.num('s', new(big.Rat).SetFloat64(float64(f))) }
func c16Cps(s string) string {
	var parts []string
	for _, r := range s {
		parts = append(parts, strconv.Itoa(int(r)))
	}
	return strings.Join(parts, ".")
}
func (g *c16Gen) chr(r rune) string     { return fmt.Sprintf("c%d:%d;", g.id(), r) }
func (g *c16Gen) str(s string) string   { return fmt.Sprintf("s%d:%s;", g.id(), c16Cps(s)) }
func (g *c16Gen) sym(s string) string   { return "y" + c16Cps(s) + ";" }
func (g *c16Gen) list(es ...string) string { return fmt.Sprintf("L%d(%s)", g.id(), strings.Join(es, "")) }
func (g *c16Gen) vec(es ...string) string  { return fmt.Sprintf("V%d(%s)", g.id(), strings.Join(es, "")) }

// the seed-independent sweep universe: equal values in different representations, strings and
// symbols differing in case, characters, nested lists and vectors, second copies (same value,
// different object) of every kind, and the boundary cells of the float comparisons.
func c16FixedUniverse(g *c16Gen) []string {
	p2 := func(e uint) *big.Int { return new(big.Int).Lsh(big.NewInt(1), e) }
	plus1 := func(n *big.Int) string { return new(big.Int).Add(n, big.NewInt(1)).String() }
	third := new(big.Rat).SetFloat64(1.0 / 3.0) // the double nearest to 1/3, exactly
	tenth := new(big.Rat).SetFloat64(float64(float32(0.1)))
	u := []string{
		"N",
		// value 5 in five representations, value 0, negative
		g.numS('f', "5"), g.numS('b', "5"), g.numS('r', "5"), g.sgl(5), g.dbl(5), g.numS('f', "5"),
		g.numS('f', "0"), g.dbl(0), g.numS('D', "0"), g.numS('S', "0"), g.sgl(0), g.numS('b', "0"), g.numS('f', "-5"), g.dbl(-5),
		g.list(g.numS('D', "0")), g.list(g.numS('f', "0")), g.vec(g.numS('D', "0")), g.vec(g.dbl(0)),
		// long-floats
		g.numS('l', "5"), g.numS('l', "1/2"), g.numS('l', "1/2"), g.numS('l', "3/2"), g.numS('l', "18446744073709551616"),
		g.numS('l', "9007199254740992"), g.vec(g.numS('l', "9007199254740992")),
		// 1/2 and 3/2
		g.numS('r', "1/2"), g.numS('r', "1/2"), g.sgl(0.5), g.dbl(0.5), g.dbl(1.5), g.dbl(1.5), g.numS('r', "3/2"),
		// fixnum/bignum boundary
		g.numS('f', "1000"), g.numS('f', "1000"), g.numS('f', "9223372036854775807"), g.numS('b', "9223372036854775807"),
		g.numS('b', p2(64).String()), g.numS('b', p2(64).String()), g.dbl(18446744073709551616.0), g.sgl(18446744073709551616.0),
		g.numS('b', plus1(p2(64))), g.numS('r', plus1(p2(64))), g.numS('r', plus1(p2(65))+"/2"),
		// float precision boundaries: 2^53 (+1), 2^24 (+1)
		g.numS('f', p2(53).String()), g.dbl(9007199254740992.0), g.numS('f', plus1(p2(53))),
		g.numS('f', "16777216"), g.sgl(16777216), g.numS('f', "16777217"), g.dbl(16777217),
		// 1/3 against the double nearest to it (exact as ratio and as double), 0.1 single vs its exact double
		g.numS('r', "1/3"), g.num('d', third), g.num('r', third), g.num('s', tenth), g.num('d', tenth),
		// large integer-valued floats (printed with an exponent)
		g.numS('b', "100000000000000000000"), g.dbl(1e20), g.numS('f', "1000000000000000"), g.dbl(1e15),
		// characters
		g.chr('a'), g.chr('A'), g.chr('a'), g.chr('5'), g.chr('→'),
		// strings
		g.str("abc"), g.str("ABC"), g.str("abc"), g.str("Abc"), g.str("abd"), g.str(""), g.str(""), g.str("5"), g.str("a→b"), g.str("A→b"), g.str("a"),
		// non-ASCII letters in both cases (strings fold with strings.EqualFold, characters with unicode.ToLower:
		// the final sigma is EqualFold to the other two sigmas and its own lower case)
		g.str("Σ"), g.str("σ"), g.str("ς"), g.str("aΣb"), g.str("Aσb"), g.str("é"), g.str("É"), g.str("Дa"), g.str("дA"),
		g.chr('Σ'), g.chr('σ'), g.chr('ς'), g.chr('é'), g.chr('É'), g.sym("σx"), g.sym("Σx"),
		g.list(g.str("Σ"), g.chr('σ')), g.list(g.str("σ"), g.chr('Σ')), g.list(g.str("σ"), g.chr('σ')), g.vec(g.str("Σ")), g.vec(g.str("σ")),
		// symbols
		g.sym("abc"), g.sym("ABC"), g.sym("Abc"), g.sym("abd"), g.sym(":abc"), g.sym("a"), g.sym("5"),
		// lists
		g.list(g.numS('f', "1"), g.numS('f', "2")), g.list(g.numS('f', "1"), g.numS('f', "2")), g.list(g.dbl(1), g.numS('f', "2")),
		g.list(g.numS('f', "1"), g.str("a")), g.list(g.numS('f', "1"), g.str("A")), g.list(g.str("abc"), g.chr('a')), g.list(g.str("ABC"), g.chr('A')),
		g.list(g.list(g.numS('f', "1"), g.numS('f', "2")), g.numS('f', "3")), g.list(g.list(g.dbl(1), g.numS('b', "2")), g.numS('r', "3")),
		g.list(g.numS('f', "1"), g.numS('f', "2"), g.numS('f', "3")), g.list(g.sym("a"), g.sym("b")), g.list(g.sym("A"), g.sym("b")),
		g.list("N"), g.list(g.numS('f', "1")), g.list(g.numS('f', "1"), "N"),
		g.list(g.vec(g.numS('f', "1")), g.str("x")), g.list(g.vec(g.dbl(1)), g.str("X")),
		// vectors (elements are compared with the root Equal methods)
		g.vec(g.numS('f', "1"), g.numS('f', "2")), g.vec(g.numS('f', "1"), g.numS('f', "2")), g.vec(g.dbl(1), g.numS('f', "2")),
		g.vec(g.str("a")), g.vec(g.str("A")), g.vec(g.str("a")), g.vec(g.sym("a")), g.vec(g.sym("A")), g.vec(g.chr('a')), g.vec(g.chr('A')),
		g.vec(g.list(g.numS('f', "1"), g.str("a"))), g.vec(g.list(g.numS('f', "1"), g.str("A"))), g.vec(g.list(g.dbl(1), g.str("a"))),
		g.vec(), g.vec(), g.vec("N"), g.vec(g.vec(g.numS('f', "1"))), g.vec(g.vec(g.sgl(1))),
		g.vec(g.numS('f', plus1(p2(53)))), g.vec(g.dbl(9007199254740992.0)), g.vec(g.numS('f', p2(53).String())),
		// opaque objects
		"O1;", "O2;", "O1;",
	}
	// machine boundaries of the integer/float conversions (c16_bound.go)
	u = append(u, c16BoundUniverse(g)...)
	return u
}

// c16RandomLeaf: a leaf from the safe value set (no rounding can make different values compare
// the same: integers below 2^24, small dyadic fractions, thirds; floats are small dyadics).
func (g *c16Gen) randomLeaf() string {
	r := g.rng
	small := func() *big.Rat {
		n := int64(r.Intn(41) - 20)
		if r.Chance(25) {
			n = int64(r.Intn(1<<22)) - (1 << 21)
		}
		den := []int64{1, 1, 1, 2, 4, 8}[r.Intn(6)]
		if n == 0 && c16AvoidNegZero {
			n = 1
		}
		return big.NewRat(n, den)
	}
	switch r.Intn(13) {
	case 12:
		// machine boundaries (wrap/saturation aliases of the integer/float conversions)
		return g.boundaryLeaf()
	case 0, 1:
		v := small()
		if v.IsInt() {
			return g.num("fbr"[r.Intn(3)], v)
		}
		return g.num('r', v)
	case 2:
		return g.num('s', small())
	case 3:
		if r.Chance(30) {
			return g.num('l', small())
		}
		return g.num('d', small())
	case 4:
		// clusters around the precision boundaries of the float formats and around fractions that are
		// not floats: the exact neighbours in every exact representation, and the floats nearest to them
		var v *big.Rat
		if r.Chance(70) {
			b := new(big.Int).Lsh(big.NewInt(1), uint([]int{24, 25, 53, 54, 63, 64, 70}[r.Intn(7)]))
			b.Add(b, big.NewInt(int64(r.Intn(5)-2)))
			if r.Chance(30) {
				b.Neg(b)
			}
			v = new(big.Rat).SetInt(b)
		} else {
			v = big.NewRat(int64(r.Intn(9)-4)*3+1, []int64{3, 10, 7}[r.Intn(3)])
		}
		switch r.Intn(4) {
		case 0:
			f, _ := v.Float64()
			return g.dbl(f)
		case 1:
			f, _ := v.Float32()
			return g.sgl(f)
		}
		var reps []byte
		if v.IsInt() {
			reps = append(reps, 'b', 'r')
			if v.Num().IsInt64() {
				reps = append(reps, 'f', 'f')
			}
		} else {
			reps = append(reps, 'r')
		}
		if _, exact := v.Float64(); exact {
			reps = append(reps, 'd', 'l')
		}
		return g.num(reps[r.Intn(len(reps))], v)
	case 5:
		if !c16AvoidNonASCIICase && r.Chance(30) {
			return g.chr(c16CasedAlphabet[r.Intn(len(c16CasedAlphabet))])
		}
		return g.chr([]rune{'a', 'A', 'b', 'B', '1', ' ', '→', 'z'}[r.Intn(8)])
	case 6, 7:
		n := r.Intn(4)
		var sb strings.Builder
		for i := 0; i < n; i++ {
			if !c16AvoidNonASCIICase && r.Chance(25) {
				sb.WriteRune(c16CasedAlphabet[r.Intn(len(c16CasedAlphabet))])
				continue
			}
			sb.WriteRune([]rune{'a', 'A', 'b', 'B', '1', ' ', '→'}[r.Intn(7)])
		}
		return g.str(sb.String())
	case 8, 9:
		names := []string{"a", "A", "b", "ab", "Ab", "AB", ":k", ":K", "x1"}
		return g.sym(names[r.Intn(len(names))])
	case 10:
		return "N"
	default:
		return fmt.Sprintf("O%d;", 1+r.Intn(3))
	}
}

// c16Variant rewrites a wire term into a fresh object (new tokens) that is mostly equal/equalp
// to the original: number representations, letter case and container identity change at random.
func (g *c16Gen) variant(w string, depth int) string {
	o := c16FromWire(w)
	return g.variantOf(w, o, depth)
}

func (g *c16Gen) variantOf(w string, o *c16Obj, depth int) string {
	r := g.rng
	flipCase := func(s string) string {
		rs := []rune(s)
		for i, c := range rs {
			if r.Chance(40) {
				if unicode.IsUpper(c) && c < 128 {
					rs[i] = unicode.ToLower(c)
				} else if unicode.IsLower(c) && c < 128 {
					rs[i] = unicode.ToUpper(c)
				} else if c >= 128 {
					// the cased non-ASCII letters of the alphabet (only present when not avoided)
					switch c {
					case 'É':
						rs[i] = 'é'
					case 'é':
						rs[i] = 'É'
					case 'Σ':
						rs[i] = []rune{'σ', 'ς'}[r.Intn(2)]
					case 'σ', 'ς':
						rs[i] = 'Σ'
					case 'Д':
						rs[i] = 'д'
					case 'д':
						rs[i] = 'Д'
					}
				}
			}
		}
		return string(rs)
	}
	if c16AvoidNegZero && o.rat != nil && o.rat.Sign() == 0 {
		return g.num('f', big.NewRat(1, 1)) // no zero-valued numbers next to the listed negative zero
	}
	if c16AvoidNonASCIICase && c16HasNonASCIICase(o) {
		return g.str("x") // no composite object next to the listed non-ASCII case construct
	}
	switch o.kind {
	case "null", "other":
		return w
	case "fixnum", "bignum", "ratio", "single-float", "double-float", "long-float":
		v := o.rat
		var reps []byte
		if v.IsInt() {
			reps = append(reps, 'b', 'r')
			if v.Num().IsInt64() {
				reps = append(reps, 'f')
			}
		} else {
			reps = append(reps, 'r')
		}
		if _, exact := v.Float32(); exact {
			reps = append(reps, 's')
		}
		if _, exact := v.Float64(); exact {
			reps = append(reps, 'd', 'l')
		}
		if v.Sign() == 0 && !c16AvoidNegZero {
			reps = append(reps, 'D', 'S')
		}
		return g.num(reps[r.Intn(len(reps))], v)
	case "character":
		c := rune(o.obj.(slip.Character))
		if r.Chance(30) {
			c = []rune(flipCase(string(c)))[0]
		}
		return g.chr(c)
	case "string":
		s := string(o.obj.(slip.String))
		if r.Chance(50) {
			s = flipCase(s)
		}
		return g.str(s)
	case "symbol":
		s := string(o.obj.(slip.Symbol))
		if r.Chance(40) {
			s = flipCase(s)
		}
		return g.sym(s)
	}
	// containers: re-parse the children from the wire term
	inner := w[strings.IndexByte(w, '(')+1 : len(w)-1]
	var parts []string
	p := &c16Parser{s: inner}
	for p.pos < len(inner) {
		start := p.pos
		child := p.obj()
		cw := inner[start:p.pos]
		if depth > 0 && r.Chance(85) {
			parts = append(parts, g.variantOf(cw, child, depth-1))
		} else {
			parts = append(parts, g.variantOf(cw, child, 0))
		}
	}
	if o.kind == "list" {
		return g.list(parts...)
	}
	return g.vec(parts...)
}

func (g *c16Gen) randomObj(depth int) string {
	r := g.rng
	if depth == 0 || r.Chance(45) {
		return g.randomLeaf()
	}
	n := 1 + r.Intn(3)
	var parts []string
	for i := 0; i < n; i++ {
		parts = append(parts, g.randomObj(depth-1))
	}
	if r.Bool() {
		return g.list(parts...)
	}
	if r.Chance(10) {
		return g.vec()
	}
	return g.vec(parts...)
}

// ---------------------------------------------------------------------------------------------
// running the predicates on the implementation

var c16Preds = []string{"eq", "eql", "equal", "equalp"}

// outcome of one predicate call: 't', 'n', or "E:<class>" / "G:<class>" (Go runtime fault)
func c16Call(scope *slip.Scope, src string) string {
	o := lib.EvalString(scope, src)
	if !o.Ok {
		if o.GoFault {
			return "G:" + o.Class
		}
		return "E:" + o.Class
	}
	if o.Value == nil {
		return "n"
	}
	if o.Value == slip.True {
		return "t"
	}
	return "V:" + o.Text
}

type c16Universe struct {
	objs  []*c16Obj
	scope *slip.Scope
	// impl[p][i][j] outcome of predicate p (0..3 = eq eql equal equalp, 4 = ObjectEqual)
	impl  [5][][]string
	model [5][][]bool
	hash  []string // sxhash outcome per object
}

func c16PredName(p int) string {
	if p == 4 {
		return "object-equal"
	}
	return c16Preds[p]
}

func c16BuildUniverse(c *lib.Ctx, wires []string, nFixed int) *c16Universe {
	u := &c16Universe{scope: slip.NewScope()}
	for i, w := range wires {
		o := c16FromWire(w)
		o.fixed = i < nFixed
		u.objs = append(u.objs, o)
		u.scope.Let(slip.Symbol(fmt.Sprintf("u%d", i)), o.obj)
	}
	n := len(u.objs)
	for p := 0; p < 5; p++ {
		u.impl[p] = make([][]string, n)
		u.model[p] = make([][]bool, n)
		for i := range u.impl[p] {
			u.impl[p][i] = make([]string, n)
			u.model[p][i] = make([]bool, n)
		}
	}
	for i := 0; i < n; i++ {
		for j := 0; j < n; j++ {
			for p, name := range c16Preds {
				u.impl[p][i][j] = c16Call(u.scope, fmt.Sprintf("(%s u%d u%d)", name, i, j))
			}
			oi, oj := u.objs[i].obj, u.objs[j].obj
			out := lib.Protect(func() slip.Object {
				if slip.ObjectEqual(oi, oj) {
					return slip.True
				}
				return nil
			})
			switch {
			case !out.Ok && out.GoFault:
				u.impl[4][i][j] = "G:" + out.Class
			case !out.Ok:
				u.impl[4][i][j] = "E:" + out.Class
			case out.Value == nil:
				u.impl[4][i][j] = "n"
			default:
				u.impl[4][i][j] = "t"
			}
		}
		u.hash = append(u.hash, c16Call(u.scope, fmt.Sprintf("(sxhash u%d)", i)))
	}
	reply := c.Model([]string{"eq matrix " + strings.Join(wires, " ")})[0]
	f := strings.Fields(reply)
	if len(f) != 6 || f[0] != "ok" {
		fmt.Println("c16: unexpected model reply:", reply[:min(len(reply), 200)])
		panic("c16 model reply")
	}
	for p := 0; p < 5; p++ {
		if len(f[p+1]) != n*n {
			panic("c16 model matrix size")
		}
		for i := 0; i < n; i++ {
			for j := 0; j < n; j++ {
				u.model[p][i][j] = f[p+1][i*n+j] == '1'
			}
		}
	}
	return u
}

func c16Bool(b bool) string {
	if b {
		return "t"
	}
	return "n"
}

// c16Rounded: a pair of numbers that slip's conversion-based comparison (NormalizeNumber in
// pkg/cl/same.go) decides through a rounding conversion with a result different from the exact
// comparison: a rational and a float that differ exactly but are equal once the rational is
// converted to the float's format; a bignum beyond the fixnum range and a ratio that is not exactly
// a float64 (both become long-floats, the ratio through float64).
func c16Rounded(a, b *c16Obj) bool {
	if a.rat == nil || b.rat == nil {
		return false
	}
	if (a.kind == "bignum" && b.kind == "ratio") || (a.kind == "ratio" && b.kind == "bignum") {
		big, rat := a, b
		if a.kind == "ratio" {
			big, rat = b, a
		}
		_, exact := rat.rat.Float64()
		return !big.rat.Num().IsInt64() && !exact
	}
	if a.rat.Cmp(b.rat) == 0 {
		return false
	}
	isF := func(o *c16Obj) bool { return strings.HasSuffix(o.kind, "-float") }
	conv := func(x, f *c16Obj) bool {
		if f.kind == "single-float" {
			v, _ := x.rat.Float32()
			w, _ := f.rat.Float32()
			return v == w
		}
		v, _ := x.rat.Float64()
		w, _ := f.rat.Float64()
		return v == w
	}
	switch {
	case isF(a) && !isF(b):
		return conv(b, a)
	case isF(b) && !isF(a):
		return conv(a, b)
	}
	return false
}

// c16HasRounded: some pair of numbers at corresponding positions of the two objects is a rounded pair.
func c16HasRounded(a, b *c16Obj) bool {
	if c16Rounded(a, b) {
		return true
	}
	if (a.kind == "list" || a.kind == "vector") && a.kind == b.kind {
		ca, cb := c16Children(a), c16Children(b)
		if len(ca) == len(cb) {
			for i := range ca {
				if c16HasRounded(ca[i], cb[i]) {
					return true
				}
			}
		}
	}
	return false
}

func c16Children(o *c16Obj) []*c16Obj {
	w := o.wire
	inner := w[strings.IndexByte(w, '(')+1 : len(w)-1]
	var out []*c16Obj
	p := &c16Parser{s: inner}
	for p.pos < len(inner) {
		out = append(out, p.obj())
	}
	return out
}

// c16CoarseKinds: operand kinds with all number representations collapsed (a predicate that raises
// a condition does so because of the operand types, not the representation)
func c16CoarseKinds(objs ...*c16Obj) string {
	var ks []string
	for _, o := range objs {
		if o.rat != nil {
			ks = append(ks, "number")
		} else {
			ks = append(ks, o.kind)
		}
	}
	return strings.Join(ks, ",")
}

func c16Kinds(os ...*c16Obj) string {
	var ks []string
	for _, o := range os {
		ks = append(ks, o.kind)
	}
	return strings.Join(ks, ",")
}

// c16ElemKinds names the leaf kinds inside a container pair (for narrow signatures)
func c16Shape(o *c16Obj) string {
	if o.kind != "list" && o.kind != "vector" {
		return o.kind
	}
	seen := map[string]bool{}
	var walk func(x *c16Obj)
	walk = func(x *c16Obj) {
		if x.kind == "list" || x.kind == "vector" {
			for _, ch := range c16Children(x) {
				walk(ch)
			}
			return
		}
		seen[x.kind] = true
	}
	walk(o)
	var ks []string
	for k := range seen {
		ks = append(ks, k)
	}
	sort.Strings(ks)
	return o.kind + "[" + strings.Join(ks, "+") + "]"
}

func (u *c16Universe) replayPair(p, i, j int) map[string]any {
	return map[string]any{"family": "pred", "pred": c16PredName(p), "wires": []string{u.objs[i].wire, u.objs[j].wire},
		"input": fmt.Sprintf("(%s %s %s)", c16PredName(p), u.objs[i].text, u.objs[j].text)}
}

// c16CheckUniverse evaluates the laws on the implementation and the agreement with the model.
func c16CheckUniverse(c *lib.Ctx, u *c16Universe) {
	n := len(u.objs)
	sweep := func(idx ...int) bool {
		for _, i := range idx {
			if !u.objs[i].fixed {
				return false
			}
		}
		return true
	}
	isBool := func(s string) bool { return s == "t" || s == "n" }
	// --- pairs
	for i := 0; i < n; i++ {
		for j := 0; j < n; j++ {
			a, b := u.objs[i], u.objs[j]
			nontrivial := a.kind != b.kind || a.nest > 0 || b.nest > 0
			c.Ev.Case("pair "+a.wire+" "+b.wire, nontrivial)
			c.Ev.Hist("pair_kinds", a.kind+"/"+b.kind)
			rounded := c16HasRounded(a, b)
			for p := 0; p < 5; p++ {
				got := u.impl[p][i][j]
				want := u.model[p][i][j]
				rp := u.replayPair(p, i, j)
				rp["observed"] = got
				rp["expected"] = c16Bool(want)
				rp["expected_from"] = "model:eq.matrix"
				rp["relies_on"] = []string{"SlipVerif.Equality.eq_eql_equal_equalp_chain", "SlipVerif.Equality.canon_key"}
				kinds := c16Shape(a) + "," + c16Shape(b)
				if !isBool(got) {
					// a predicate is total: it answers t or nil for every pair of objects
					aspect := "condition:" + strings.TrimPrefix(got, "E:")
					if strings.HasPrefix(got, "G:") {
						aspect = "go-fault"
					}
					c.Report(fmt.Sprintf("pred=%s law=total kinds=%s aspect=%s", c16PredName(p), c16CoarseKinds(a, b), aspect), sweep(i, j), rp)
					continue
				}
				if p == 0 {
					// eq: the same object must be eq; objects that are not eql must not be eq; two
					// different heap objects (list, vector, bignum, ratio) must not be eq. Whether two
					// equal immediates (fixnum, float, character, string) are eq is unspecified.
					must := ""
					switch {
					case i == j || want:
						must = "t"
					case !u.model[1][i][j]:
						must = "n"
					case a.kind == "list" || a.kind == "vector" || a.kind == "bignum" || a.kind == "ratio" || a.kind == "long-float":
						must = "n"
					}
					if must != "" && got != must {
						rp["expected"] = must
						c.Report(fmt.Sprintf("pred=eq law=model kinds=%s aspect=impl-%s", kinds, got), sweep(i, j), rp)
					}
					continue
				}
				if (got == "t") != want {
					sig := fmt.Sprintf("pred=%s law=model kinds=%s aspect=impl-%s", c16PredName(p), kinds, got)
					if rounded {
						sig += ":float-rounding"
					}
					c.Report(sig, sweep(i, j), rp)
				}
			}
			// the chain eq => eql => equal => equalp on the implementation itself
			for p := 0; p < 3; p++ {
				if u.impl[p][i][j] == "t" && u.impl[p+1][i][j] == "n" {
					rp := u.replayPair(p+1, i, j)
					rp["observed"] = fmt.Sprintf("%s=t %s=nil", c16Preds[p], c16Preds[p+1])
					rp["expected"] = c16Preds[p] + " implies " + c16Preds[p+1]
					rp["expected_from"] = "property statement"
					c.Report(fmt.Sprintf("pred=%s law=chain:%s kinds=%s aspect=not-implied", c16Preds[p+1], c16Preds[p], c16Shape(a)+","+c16Shape(b)), sweep(i, j), rp)
				}
			}
			for p := 0; p < 5; p++ {
				// symmetric
				x, y := u.impl[p][i][j], u.impl[p][j][i]
				if i < j && isBool(x) && isBool(y) && x != y {
					rp := u.replayPair(p, i, j)
					rp["observed"] = fmt.Sprintf("(p x y)=%s (p y x)=%s", x, y)
					rp["expected"] = "same answer in both orders"
					rp["expected_from"] = "property statement"
					sig := fmt.Sprintf("pred=%s law=symmetric kinds=%s aspect=asymmetric", c16PredName(p), c16Shape(a)+","+c16Shape(b))
					if rounded {
						sig += ":float-rounding"
					}
					c.Report(sig, sweep(i, j), rp)
				}
				// reflexive
				if i == j && x == "n" {
					rp := u.replayPair(p, i, j)
					rp["observed"] = "nil"
					rp["expected"] = "t"
					rp["expected_from"] = "property statement"
					c.Report(fmt.Sprintf("pred=%s law=reflexive kinds=%s aspect=nil", c16PredName(p), c16Shape(a)), sweep(i), rp)
				}
			}
			// sxhash: equal objects have equal codes (on the implementation's own equal, and on the model's)
			if i < j {
				hi, hj := u.hash[i], u.hash[j]
				eqImpl := u.impl[2][i][j] == "t"
				eqModel := u.model[2][i][j]
				if (eqImpl || eqModel) && strings.HasPrefix(hi, "V:") && strings.HasPrefix(hj, "V:") && hi != hj {
					rp := map[string]any{"family": "sxhash", "wires": []string{a.wire, b.wire}, "input": fmt.Sprintf("(sxhash %s) (sxhash %s)", a.text, b.text),
						"observed": hi[2:] + " vs " + hj[2:], "expected": "equal codes for equal objects", "expected_from": "property statement + SlipVerif.Equality.sxhash_congr",
						"relies_on": []string{"SlipVerif.Equality.sxhash_congr"}}
					sig := fmt.Sprintf("law=sxhash kinds=%s aspect=%s", c16Shape(a)+","+c16Shape(b), c16HashAspect(a, b, eqModel))
					if eqModel && c16HasNegZero(a) != c16HasNegZero(b) {
						sig = "law=sxhash aspect=codes-differ:negative-zero"
					}
					if eqModel && (c16HasNonASCIICase(a) || c16HasNonASCIICase(b)) {
						sig = "law=sxhash aspect=codes-differ:non-ascii-case"
					}
					c.Report(sig, sweep(i, j), rp)
				}
			}
		}
		if h := u.hash[i]; !strings.HasPrefix(h, "V:") {
			rp := map[string]any{"family": "sxhash", "wires": []string{u.objs[i].wire}, "input": "(sxhash " + u.objs[i].text + ")", "observed": h, "expected": "a fixnum"}
			c.Report(fmt.Sprintf("law=sxhash-total kinds=%s aspect=%s", u.objs[i].kind, h), sweep(i), rp)
		}
	}
	// --- triples: transitivity on the implementation
	for p := 0; p < 5; p++ {
		m := u.impl[p]
		for i := 0; i < n; i++ {
			for j := 0; j < n; j++ {
				if m[i][j] != "t" || i == j {
					continue
				}
				for k := 0; k < n; k++ {
					if m[j][k] == "t" && m[i][k] == "n" {
						a, b, d := u.objs[i], u.objs[j], u.objs[k]
						rp := map[string]any{"family": "pred3", "pred": c16PredName(p), "wires": []string{a.wire, b.wire, d.wire},
							"input":    fmt.Sprintf("(%s x y) (%s y z) (%s x z) with x=%s y=%s z=%s", c16PredName(p), c16PredName(p), c16PredName(p), a.text, b.text, d.text),
							"observed": "t t nil", "expected": "transitive", "expected_from": "property statement"}
						sig := fmt.Sprintf("pred=%s law=transitive kinds=%s aspect=intransitive", c16PredName(p), c16Shape(a)+","+c16Shape(b)+","+c16Shape(d))
						if c16HasRounded(a, b) || c16HasRounded(b, d) || c16HasRounded(a, d) {
							sig += ":float-rounding"
						}
						c.Report(sig, sweep(i, j, k), rp)
					}
				}
			}
		}
	}
	c.Ev.Count("pred_pairs", n*n)
	c.Ev.Count("pred_triples", n*n*n)
}

// c16HasNegZero: the object is or contains a negative float zero
func c16HasNegZero(o *c16Obj) bool {
	return strings.Contains(o.wire, ":D:") || strings.Contains(o.wire, ":S:")
}

// c16HashAspect classifies why two objects the implementation calls equal hash differently: when
// the model does not call them equal the cause is the predicate (reported there), not sxhash.
func c16HashAspect(a, b *c16Obj, modelEqual bool) string {
	switch {
	case modelEqual:
		return "codes-differ"
	case c16HasRounded(a, b):
		return "codes-differ:float-rounding"
	}
	return "codes-differ:not-equal-in-model"
}

// ---------------------------------------------------------------------------------------------

// composite generators do not emit a construct a listed finding is about
var c16AvoidNegZero bool
var c16AvoidNonASCIICase bool

func c16PredFamily(c *lib.Ctx) {
	c16AvoidNegZero = c.Findings.Listed("C16", "law=sxhash aspect=codes-differ:negative-zero")
	c16AvoidNonASCIICase = c.Findings.Listed("C16", "law=sxhash aspect=codes-differ:non-ascii-case")
	c16CheckAlphabet(c)
	// round 0: the sweep universe plus a random part; further rounds: a third of the sweep objects
	// as anchors, variants of them (composite: fresh tokens, changed representations) and random objects
	rounds := c.Scale(2, 100)
	nRandom := c.Scale(45, 80)
	for round := 0; round < rounds; round++ {
		g := &c16Gen{next: 100 + round*100000, rng: c.Rng}
		fixed := c16FixedUniverse(g)
		wires := append([]string{}, fixed...)
		nFixed := len(fixed)
		if round > 0 {
			wires = wires[:0]
			for _, w := range fixed {
				if c.Rng.Chance(30) {
					wires = append(wires, w)
				}
			}
			nFixed = len(wires)
		}
		for len(wires) < nFixed+nRandom {
			switch {
			case c.Rng.Chance(45) && len(wires) > 0:
				src := wires[c.Rng.Intn(len(wires))]
				wires = append(wires, g.variant(src, 3))
			default:
				wires = append(wires, g.randomObj(3))
			}
		}
		if round == 0 {
			c.Ev.Coverage["pred_fixed_universe"] = nFixed
		}
		u := c16BuildUniverse(c, wires, nFixed)
		c16CheckUniverse(c, u)
		for k := 0; k < 3; k++ {
			i, j := c.Rng.Intn(len(u.objs)), c.Rng.Intn(len(u.objs))
			c.Ev.Sample(map[string]string{"x": u.objs[i].text, "y": u.objs[j].text,
				"impl(eq,eql,equal,equalp,object-equal)": u.impl[0][i][j] + u.impl[1][i][j] + u.impl[2][i][j] + u.impl[3][i][j] + u.impl[4][i][j],
				"model(eql,equal,equalp,object-equal)":   c16Bool(u.model[1][i][j]) + c16Bool(u.model[2][i][j]) + c16Bool(u.model[3][i][j]) + c16Bool(u.model[4][i][j])})
		}
	}
}

func runC16(c *lib.Ctx) {
	if c.Replay != "" {
		c16Replay(c)
		return
	}
	c16PredFamily(c)
	c16HashFamily(c)
	c16TypeFamily(c)
	c16DynFamily(c)
	c16ExtFamily(c)
	c16CompoundFamily(c)
	if c.GenBroken != "" {
		// a generated obligation (Theorems/GenC16) no longer builds: attach it to the witnesses the
		// type family found on the implementation (if none is found ./check reports no-failing-input-found)
		lean, _ := os.ReadFile(filepath.Join(c.OutDir, "gen-broken.txt"))
		txt := string(lean)
		if i := strings.Index(txt, "error:"); i >= 0 {
			txt = txt[i:]
		}
		if len(txt) > 1500 {
			txt = txt[:1500]
		}
		for _, v := range c.Violations {
			if strings.HasPrefix(v.Signature, "type-law=") {
				v.Replay["broken"] = map[string]any{"obligation": c.GenBroken, "lean_error": txt}
			}
		}
	}
	if path := os.Getenv("C16_DUMP"); path != "" {
		// debugging aid: every violation signature of the run (the check prints only the first 25)
		var sb strings.Builder
		for _, v := range c.Violations {
			fmt.Fprintf(&sb, "%s\t%v\t%v\t%v\n", v.Signature, v.Replay["input"], v.Replay["observed"], v.Replay["expected"])
		}
		_ = os.WriteFile(path, []byte(sb.String()), 0o644)
	}
	c.Ev.Coverage["traces_validated_against_impl"] = c.Ev.Coverage["evaluations"]
	c.Ev.Coverage["rule"] = "cases = (predicate pair/triple of universe objects) + (hash-table history) + (object, type symbol) + (object, coerce target); " +
		"sweep = the fixed boundary universe in all pairs/triples, the fixed histories per key kind, the whole object pool x class registry (seed independent); " +
		"composite = seeded random objects/variants and random histories; non-trivial pair = operands of different representation or nesting >= 1; " +
		"non-trivial history = contains a removal or an overwrite; distinct by wire terms / history text"
}
