package main

// C18 — generators: JSON documents, paths chosen against the current tree, plain Go values.

import (
	"math"
	"math/big"

	"verif/harness/lib"
)

type c18Avoid struct {
	bigInt        bool // integers ojg holds as json.Number
	integralFloat bool // floats with an integral value (written without point)
	sharedValue   bool // container value set through a multi-match path, then changed inside
	trailingDesc  bool // query path ending in a descent
	keywordStr    bool // the strings true / false / null
	numberLikeStr bool // strings that read as numbers
	wildDesc      bool // a wildcard immediately followed by a descent
	longFloat     bool // floats ojg holds as json.Number (18 or more fraction digits)
	signLedStr    bool // strings that start with a sign but are no numbers ("-x", "+")
	backtickStr   bool // strings with a backtick
}

type c18Gen struct {
	r     *lib.Rng
	avoid c18Avoid
	// text: documents for the text family; the value kinds that only the writers get wrong are
	// avoided there and generated everywhere else
	text bool
}

var c18Keys = []string{"a", "b", "c", "d", "key", "x1", "name", "Z_9"}
var c18OddKeys = []string{"a b", "é", "日本", "", "k\"q", "k\\s", "1x", "a.b", "k\nl", "😀", "true", "null", "12", "[0]", "*", "$", "@", "a'b", "k:v", "{", "}", "-x", "+", "`k", "a-b", "false", "-1", "1.5", "a/b", "x~"}

var c18Strings = []string{"", "x", "hello world", "true", "false", "null", "123", "-1", "1e5", "1.5", "a:b", "[x]", "{y}", "{", "}", "[", "]", ",",
	"//c", "#h", "'q'", "\"dq\"", " lead", "trail ", "tab\there", "nl\nhere", "cr\rhere", "back\\slash", "sl/ash", "\x01\x02", "\x1f", "\x7f",
	"é", "ß∂ƒ", "日本語", "😀", "a😀b", " ", "\ufeff", "<tag>&amp;", "@2024-01-02T03:04:05Z", "2024-01-02", "2024-01-02T03:04:05Z", "2024-02-29", "2024-01-02T03:04:05.123456789+02:00", "$", "@", "*", "..", "nil", "t", ":false",
	"`tick", "a`b", "-x", "+x", ".x", "-", "+", ".", "a-b", "a+b", "x~y", "^", "|", "?", "~", "_", "-.", "1a", "0x10", "Infinity", "NaN", "+1",
	"a/b", "<a>", "a&b", "a=b", "a;b", "a!b", "(a)", "%", "a%b", "word", "Word_2", "NULL", "True"}

func (g *c18Gen) pick(xs []string) string { return xs[g.r.Intn(len(xs))] }

func (g *c18Gen) key() string {
	if g.r.Chance(15) {
		for {
			k := g.pick(c18OddKeys)
			// keys the SEN writers leave without quotes although they do not read back (known findings)
			if g.text && g.avoidStr(strKind(k)) {
				continue
			}
			return k
		}
	}
	return g.pick(c18Keys)
}

// avoidStr: string kinds listed as known findings of the writers (composite documents avoid them).
func (g *c18Gen) avoidStr(k string) bool {
	return (g.avoid.keywordStr && k == "str-keyword") || (g.avoid.numberLikeStr && k == "str-number-like") ||
		(g.avoid.signLedStr && k == "str-sign-led") || (g.avoid.backtickStr && k == "str-backtick")
}

func (g *c18Gen) str() string {
	for {
		s := g.str1()
		k := strKind(s)
		if g.text && g.avoidStr(k) {
			continue
		}
		return s
	}
}

func (g *c18Gen) str1() string {
	if g.r.Chance(60) {
		return g.pick(c18Strings)
	}
	n := g.r.Intn(8)
	rs := make([]rune, n)
	for i := range rs {
		switch g.r.Intn(6) {
		case 0:
			rs[i] = rune(g.r.Intn(0x20))
		case 1:
			rs[i] = rune(0x80 + g.r.Intn(0x700))
		case 2:
			rs[i] = []rune{'"', '\\', '/', ' ', ':', ',', '[', ']', '{', '}', '\'', '#'}[g.r.Intn(12)]
		case 3:
			rs[i] = rune(0x4e00 + g.r.Intn(0x1000))
		default:
			rs[i] = rune('a' + g.r.Intn(26))
		}
	}
	return string(rs)
}

var c18IntBounds = []string{"1500000000000000000", "946684800000000000", "1700000000123456789", "0", "1", "-1", "2147483647", "2147483648", "-2147483649", "4294967296", "9007199254740993",
	"922337203685477579", "-922337203685477579"}
var c18BigInts = []string{"922337203685477580", "922337203685477581", "-922337203685477580", "9223372036854775807", "-9223372036854775808",
	"9223372036854775808", "-9223372036854775809", "18446744073709551615", "18446744073709551616",
	"123456789012345678901234567890", "-340282366920938463463374607431768211456"}

func bigOf(s string) *big.Int {
	n, _ := new(big.Int).SetString(s, 10)
	return n
}

func (g *c18Gen) integer() *jv {
	switch {
	case g.r.Chance(40):
		return jInt(int64(g.r.Intn(2000) - 1000))
	case g.r.Chance(40):
		return jBig(bigOf(g.pick(c18IntBounds)))
	case !(g.text && g.avoid.bigInt) && g.r.Chance(60):
		if g.r.Chance(50) {
			return jBig(bigOf(g.pick(c18BigInts)))
		}
		n := g.r.BigBits(64 + g.r.Intn(80))
		if new(big.Int).Abs(n).Cmp(c18BigLimit) < 0 {
			n = bigOf("922337203685477580")
		}
		return jBig(n)
	default:
		// below ojg's BigLimit
		n := g.r.BigBits(59)
		return jBig(n)
	}
}

func (g *c18Gen) float() *jv {
	for {
		var f float64
		switch g.r.Intn(5) {
		case 0:
			f = float64(g.r.Intn(20000)-10000) / 8
		case 1:
			f = math.Float64frombits(g.r.U64())
		case 2:
			f = []float64{1500000000.5, 946684800.5, 1.7e9 + 0.25, 2524607999.5, 0.1, -0.1, 1.5, 1e-300, 1.7976931348623157e308, 5e-324, 2.2250738585072014e-308, 3.141592653589793, 1e21, 1e22, 123456.789e3, -2.5e-7, 0.30000000000000004}[g.r.Intn(17)]
		case 3:
			f = float64(g.r.Intn(1000)) // integral
		default:
			f = (float64(g.r.U64()>>11) / (1 << 53)) * math.Pow(10, float64(g.r.Intn(40)-20))
		}
		if math.IsNaN(f) || math.IsInf(f, 0) {
			continue
		}
		v := jFlo(f)
		if g.text && g.avoid.integralFloat && (f == math.Trunc(f)) {
			continue
		}
		if g.text && g.avoid.longFloat && floatHeldAsText(fmtFloat(f)) {
			continue
		}
		return v
	}
}

func (g *c18Gen) scalar() *jv {
	switch g.r.Intn(9) {
	case 0:
		return jNull()
	case 1:
		return jBool(true)
	case 2:
		return jBool(false)
	case 3, 4:
		return g.integer()
	case 5:
		return g.float()
	default:
		return jStr(g.str())
	}
}

// doc generates a document of at most the given container depth.
func (g *c18Gen) doc(depth int) *jv {
	if depth <= 0 || g.r.Chance(30) {
		return g.scalar()
	}
	n := g.r.Intn(5)
	if g.r.Chance(8) {
		n = 0
	}
	if g.r.Bool() {
		a := &jv{kind: 'a'}
		for i := 0; i < n; i++ {
			a.arr = append(a.arr, g.doc(depth-1))
		}
		return a
	}
	o := &jv{kind: 'o'}
	seen := map[string]bool{}
	for i := 0; i < n; i++ {
		k := g.key()
		if seen[k] {
			continue
		}
		seen[k] = true
		o.keys = append(o.keys, k)
		o.vals = append(o.vals, g.doc(depth-1))
	}
	return o
}

// tameDoc: a container with plain content (identifier keys, small integers, simple floats,
// booleans, null, words) for discover-json, which looks for JSON inside arbitrary text by
// heuristics and is only expected to find unambiguous documents.
func (g *c18Gen) tameDoc(depth int) *jv {
	var val func(d int) *jv
	val = func(d int) *jv {
		if d <= 0 || g.r.Chance(35) {
			switch g.r.Intn(6) {
			case 0:
				return jNull()
			case 1:
				return jBool(g.r.Bool())
			case 2:
				return jStr([]string{"abc", "x y", "word", "Z9", ""}[g.r.Intn(5)])
			case 3:
				return jFlo(float64(g.r.Intn(2000)-1000) + 0.5)
			default:
				return jInt(int64(g.r.Intn(2000) - 1000))
			}
		}
		n := 1 + g.r.Intn(3)
		if g.r.Bool() {
			a := &jv{kind: 'a'}
			for i := 0; i < n; i++ {
				a.arr = append(a.arr, val(d-1))
			}
			return a
		}
		o := &jv{kind: 'o'}
		for i := 0; i < n; i++ {
			k := c18Keys[(g.r.Intn(len(c18Keys))+i)%len(c18Keys)]
			dup := false
			for _, e := range o.keys {
				dup = dup || e == k
			}
			if !dup {
				o.keys = append(o.keys, k)
				o.vals = append(o.vals, val(d-1))
			}
		}
		return o
	}
	for {
		d := val(depth)
		if d.kind == 'a' || d.kind == 'o' {
			return d
		}
	}
}

// container generates a document whose root is a container (ops need something to address).
func (g *c18Gen) container(depth int) *jv {
	for {
		d := g.doc(depth)
		if d.kind == 'a' || d.kind == 'o' {
			return d
		}
	}
}

// ---------------------------------------------------------------------------------------------
// paths against a tree

// stepInto chooses a step at node cur; valid=true tries to select an existing child.
func (g *c18Gen) stepAt(cur any, allowMulti bool) (pstep, any, bool) {
	if allowMulti && g.r.Chance(12) {
		return pstep{kind: '*'}, nil, false
	}
	if allowMulti && g.r.Chance(8) {
		return pstep{kind: 'd'}, nil, false
	}
	switch t := cur.(type) {
	case map[string]any:
		if len(t) > 0 && g.r.Chance(80) {
			ks := sortedKeys(t)
			k := ks[g.r.Intn(len(ks))]
			return pstep{kind: 'k', key: k}, t[k], true
		}
		if g.r.Chance(85) {
			return pstep{kind: 'k', key: g.key()}, nil, false
		}
		return pstep{kind: 'x', idx: g.r.Intn(3) - 1}, nil, false
	case []any:
		if len(t) > 0 && g.r.Chance(80) {
			i := g.r.Intn(len(t))
			if g.r.Chance(35) {
				return pstep{kind: 'x', idx: i - len(t)}, t[i], true
			}
			return pstep{kind: 'x', idx: i}, t[i], true
		}
		if g.r.Chance(85) {
			return pstep{kind: 'x', idx: g.r.Intn(len(t)+3) - (len(t) + 1)}, nil, false
		}
		return pstep{kind: 'k', key: g.key()}, nil, false
	}
	if g.r.Bool() {
		return pstep{kind: 'k', key: g.key()}, nil, false
	}
	return pstep{kind: 'x', idx: g.r.Intn(3) - 1}, nil, false
}

func sortedKeys(m map[string]any) []string {
	ks := make([]string, 0, len(m))
	for k := range m {
		ks = append(ks, k)
	}
	// insertion sort keeps this file free of another import
	for i := 1; i < len(ks); i++ {
		for j := i; j > 0 && ks[j] < ks[j-1]; j-- {
			ks[j], ks[j-1] = ks[j-1], ks[j]
		}
	}
	return ks
}

// queryPath: any mix of steps (get / has / get-all / walk).
func (g *c18Gen) queryPath(root any) ppath {
	n := 1 + g.r.Intn(4)
	if g.r.Chance(4) {
		n = 0
	}
	var p ppath
	cur, known := root, true
	for i := 0; i < n; i++ {
		var s pstep
		if known {
			var next any
			var hit bool
			s, next, hit = g.stepAt(cur, true)
			cur, known = next, hit
		} else {
			switch g.r.Intn(10) {
			case 0:
				s = pstep{kind: '*'}
			case 1:
				s = pstep{kind: 'd'}
			case 2, 3, 4:
				s = pstep{kind: 'x', idx: g.r.Intn(4) - 2}
			default:
				s = pstep{kind: 'k', key: g.key()}
			}
		}
		if s.kind == 'd' && len(p) > 0 && p[len(p)-1].kind == 'd' {
			s = pstep{kind: '*'}
		}
		if g.avoid.wildDesc && s.kind == 'd' && len(p) > 0 && p[len(p)-1].kind == '*' {
			s = pstep{kind: 'k', key: g.key()}
		}
		p = append(p, s)
	}
	if g.avoid.trailingDesc && len(p) > 0 && p[len(p)-1].kind == 'd' {
		p = append(p, pstep{kind: 'k', key: g.key()})
	}
	return p
}

// definitePath: keys and indices only, mostly along existing nodes, possibly extending below.
func (g *c18Gen) definitePath(root any, maxLen int) ppath {
	n := 1 + g.r.Intn(maxLen)
	var p ppath
	cur, known := root, true
	for i := 0; i < n; i++ {
		var s pstep
		if known {
			var next any
			var hit bool
			s, next, hit = g.stepAt(cur, false)
			cur, known = next, hit
		} else if g.r.Chance(70) {
			s = pstep{kind: 'k', key: g.key()}
		} else {
			s = pstep{kind: 'x', idx: g.r.Intn(3)}
		}
		p = append(p, s)
	}
	return p
}

// mutatePath: a path for set / remove. Definite prefix, optionally one wildcard or descent, and
// after a descent only keys followed by one final step (the order in which ojg visits the nodes
// of a descent is then not observable).
func (g *c18Gen) mutatePath(root any, forSet bool) ppath {
	p := g.definitePath(root, 3)
	switch {
	case g.r.Chance(75):
		return p
	case g.r.Chance(50):
		// a wildcard somewhere
		i := g.r.Intn(len(p) + 1)
		q := append(ppath{}, p[:i]...)
		q = append(q, pstep{kind: '*'})
		if i < len(p) && g.r.Bool() {
			q = append(q, p[i:]...)
			if len(q) > 4 {
				q = q[:4]
			}
		}
		return q
	default:
		i := g.r.Intn(len(p))
		q := append(ppath{}, p[:i]...)
		q = append(q, pstep{kind: 'd'})
		if g.r.Chance(40) {
			q = append(q, pstep{kind: 'k', key: g.key()})
		}
		switch g.r.Intn(4) {
		case 0:
			if len(q) > 0 && q[len(q)-1].kind == 'k' {
				q = append(q, pstep{kind: '*'})
				break
			}
			fallthrough
		case 1:
			if len(q) > 0 && q[len(q)-1].kind == 'k' {
				q = append(q, pstep{kind: 'x', idx: g.r.Intn(3) - 1})
				break
			}
			fallthrough
		default:
			q = append(q, pstep{kind: 'k', key: g.key()})
		}
		return q
	}
}

// ---------------------------------------------------------------------------------------------
// plain Go values

type gv struct {
	kind byte // n b i u f d s m [ {
	b    bool
	bits int
	i    int64
	u    uint64
	f    float64
	s    string
	arr  []*gv
	keys []string
	vals []*gv
}

func (g *c18Gen) goValue(depth int) *gv {
	if depth > 0 && g.r.Chance(35) {
		n := g.r.Intn(4)
		if g.r.Chance(60) {
			v := &gv{kind: '['}
			for i := 0; i < n; i++ {
				v.arr = append(v.arr, g.goValue(depth-1))
			}
			return v
		}
		v := &gv{kind: '{'}
		seen := map[string]bool{}
		for i := 0; i < n; i++ {
			k := g.key()
			if seen[k] {
				continue
			}
			seen[k] = true
			v.keys = append(v.keys, k)
			v.vals = append(v.vals, g.goValue(depth-1))
		}
		return v
	}
	switch g.r.Intn(10) {
	case 0:
		return &gv{kind: 'n'}
	case 1:
		return &gv{kind: 'b', b: g.r.Bool()}
	case 2, 3:
		bits := []int{0, 8, 16, 32, 64}[g.r.Intn(5)]
		w := bits
		if w == 0 {
			w = 64
		}
		var x int64
		switch g.r.Intn(4) {
		case 0:
			x = int64(g.r.Intn(200) - 100)
		case 1:
			x = math.MaxInt64 >> (64 - w)
		case 2:
			x = math.MinInt64 >> (64 - w)
		default:
			x = int64(g.r.U64()) >> (64 - w)
		}
		return &gv{kind: 'i', bits: bits, i: x}
	case 4, 5:
		bits := []int{0, 8, 16, 32, 64}[g.r.Intn(5)]
		w := bits
		if w == 0 {
			w = 64
		}
		var x uint64
		switch g.r.Intn(4) {
		case 0:
			x = uint64(g.r.Intn(200))
		case 1:
			x = math.MaxUint64 >> (64 - w)
		case 2:
			x = (uint64(1) << (w - 1)) + uint64(g.r.Intn(3)) - 1
		default:
			x = g.r.U64() >> (64 - w)
		}
		return &gv{kind: 'u', bits: bits, u: x}
	case 6:
		for {
			f := float64(float32(g.float().f))
			if !math.IsInf(f, 0) {
				return &gv{kind: 'f', f: f}
			}
		}
	case 7:
		return &gv{kind: 'd', f: g.float().f}
	case 8:
		return &gv{kind: 'm', i: int64(g.r.Intn(2000000000)), u: uint64(g.r.Intn(1000000000))}
	default:
		return &gv{kind: 's', s: g.str()}
	}
}
