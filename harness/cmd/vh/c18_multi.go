package main

// C18 — the multi-document entry points (json-parse with a callback or a channel, strict and SEN;
// each-bag; discover-json; bag-read / :read / load-bag) and bag-scan / :scan.
//
// The bags an entry point hands out are KEPT and inspected only after the whole call has
// returned: each must equal its own source document (and the model's parse of the same text),
// and changing one of them must not change another.

import (
	"bytes"
	"encoding/json"
	"fmt"
	"os"
	"path/filepath"
	"sort"
	"strings"
	"time"

	"github.com/ohler55/ojg/jp"
	"github.com/ohler55/slip"
	"github.com/ohler55/slip/pkg/flavors"
	"github.com/ohler55/slip/pkg/gi"
	"verif/harness/lib"
)

// multiText lays the documents out in one text.
func multiText(cs *c18Case) (string, []*jv) {
	var sb strings.Builder
	var docs []*jv
	for i, w := range cs.Docs {
		d := parseDoc(w)
		docs = append(docs, d)
		sep := " "
		if i < len(cs.Seps) {
			sep = cs.Seps[i]
		}
		sb.WriteString(sep)
		t := d.text()
		if cs.Layout == "i2" {
			var buf bytes.Buffer
			if json.Indent(&buf, []byte(t), "", "  ") == nil {
				t = buf.String()
			}
		}
		sb.WriteString(t)
	}
	if len(cs.Seps) > len(cs.Docs) {
		sb.WriteString(cs.Seps[len(cs.Docs)])
	}
	return sb.String(), docs
}

func (cs *c18Case) multiSteps() string {
	return fmt.Sprintf("%s-%s-%s-%s", cs.Entry, map[bool]string{true: "channel", false: "callback"}[cs.Channel],
		map[bool]string{true: "strict", false: "sen"}[cs.Strict], []string{"string", "octets", "stream", "file"}[cs.Form%4])
}

// runMultiImpl performs the call and returns the bags it handed out, in order.
func (r *c18Run) runMultiImpl(cs *c18Case, text string, n int) ([]*flavors.Instance, lib.Outcome) {
	var input slip.Object
	binds := map[string]slip.Object{}
	inputSrc := "c18-in"
	switch cs.Form % 4 {
	case 0:
		input = slip.String(text)
	case 1:
		input = slip.Octets([]byte(text))
	case 2:
		input = slip.String(text)
		inputSrc = "(make-string-input-stream c18-in)"
	default:
		path := filepath.Join(r.c.OutDir, fmt.Sprintf("c18-multi-%d.json", r.total))
		_ = os.WriteFile(path, []byte(text), 0o644)
		defer os.Remove(path)
		input = slip.String(path)
	}
	binds["c18-in"] = input
	var ch gi.Channel
	fn := "(lambda (b) (setq c18-acc (cons b c18-acc)) nil)"
	if cs.Channel {
		ch = make(gi.Channel, 4*n+64)
		binds["c18-ch"] = ch
		fn = "c18-ch"
	}
	strict := ""
	if cs.Strict {
		strict = " t"
	}
	var src string
	switch cs.Entry {
	case "json-parse":
		src = fmt.Sprintf("(let ((c18-acc nil)) (json-parse %s %s%s) c18-acc)", fn, inputSrc, strict)
	case "discover-json":
		src = fmt.Sprintf("(let ((c18-acc nil)) (discover-json %s %s%s) c18-acc)", fn, inputSrc, strict)
	case "each-bag":
		src = fmt.Sprintf("(let ((c18-acc nil)) (each-bag %s %s) c18-acc)", inputSrc, fn)
	case "bag-read":
		src = fmt.Sprintf("(list (bag-read (make-bag \"0\") %s))", inputSrc)
	case "send-read":
		src = fmt.Sprintf("(list (send (make-instance 'bag-flavor) :read %s))", inputSrc)
	case "init-read":
		src = fmt.Sprintf("(list (make-instance 'bag-flavor :read %s))", inputSrc)
	case "load-bag":
		src = "(list (load-bag c18-in))"
	case "make-bag":
		src = "(list (make-bag c18-in))"
	case "init-parse":
		src = "(list (make-instance 'bag-flavor :parse c18-in))"
	case "bag-parse":
		src = "(list (bag-parse (make-bag \"0\") c18-in))"
	default:
		return nil, lib.Outcome{Class: "harness-bug", Msg: "entry " + cs.Entry}
	}
	// A call that never returns (a full channel, a reader that waits) is a verdict only after a
	// limit no load on the machine can reach (load 100+ is normal here); the same call is waited
	// for, not repeated: a second evaluation next to a slow first one would share the scope.
	var o lib.Outcome
	returned := false
	done := make(chan lib.Outcome, 1)
	go func() { done <- r.impl.eval(src, binds) }()
	select {
	case o = <-done:
		returned = true
	case <-time.After(r.blockLimit):
		// the verdict of this run is settled; later calls that do not return need not be waited for as long
		r.blockLimit = 30 * time.Second
	}
	if !returned {
		return nil, lib.Outcome{Class: "blocked", Msg: "the call did not return (limit 10 min for the first such call of a run, 30 s after it)"}
	}
	if !o.Ok {
		return nil, o
	}
	var out []*flavors.Instance
	if cs.Channel {
		for {
			select {
			case v := <-ch:
				inst, _ := v.(*flavors.Instance)
				out = append(out, inst)
				continue
			default:
			}
			break
		}
		return out, o
	}
	list, _ := o.Value.(slip.List)
	for i := len(list) - 1; i >= 0; i-- { // the callback conses: newest first
		inst, _ := list[i].(*flavors.Instance)
		out = append(out, inst)
	}
	if cs.Entry == "bag-read" || cs.Entry == "send-read" || cs.Entry == "init-read" || cs.Entry == "load-bag" || cs.Entry == "make-bag" || cs.Entry == "init-parse" || cs.Entry == "bag-parse" {
		out = out[:0]
		for _, e := range list {
			inst, _ := e.(*flavors.Instance)
			out = append(out, inst)
		}
	}
	return out, o
}

func (r *c18Run) runMulti(cases []*c18Case) {
	type pendT struct {
		cs   *c18Case
		docs []*jv
		got  []string
	}
	var pends []pendT
	var reqs []string
	for _, cs := range cases {
		text, docs := multiText(cs)
		steps := cs.multiSteps()
		r.c.Ev.Case("multi "+steps+text, len(docs) >= 2)
		r.c.Ev.Hist("family", "multi")
		r.c.Ev.Hist("multi_entry", steps)
		r.c.Ev.Hist("multi_docs", fmt.Sprint(len(docs)))
		full := text
		if cs.Entry == "discover-json" {
			// words between the documents that are neither JSON nor contain brackets
			full = ""
			for i, d := range docs {
				full += []string{"first ", "then: ", "x=", "and also ", "log line 12 "}[i%5] + d.text() + "\n"
			}
			full += "the end"
		}
		bags, o := r.runMultiImpl(cs, full, len(docs))
		kind := "-"
		if len(docs) > 0 {
			kind = docs[0].leafKind()
		}
		if !o.Ok {
			r.check(cs, false, c18Diff{sig: sig("multi-parse", steps, kind, "condition"), observed: "err " + o.Class + " " + o.Msg,
				expected: fmt.Sprintf("%d bags", len(docs)), from: "property statement"})
			continue
		}
		r.check(cs, len(bags) == len(docs), c18Diff{sig: sig("multi-parse", steps, kind, "wrong-count"), observed: fmt.Sprintf("%d bags", len(bags)),
			expected: fmt.Sprintf("%d bags", len(docs)), from: "property statement"})
		if len(bags) != len(docs) {
			continue
		}
		// every kept bag equals its own source document
		okAll := true
		var got []string
		for i, b := range bags {
			g := "?not-a-bag"
			if b != nil {
				g = canonAny(b.Any)
			}
			got = append(got, g)
			if g != docs[i].canon() && okAll {
				okAll = false
				r.check(cs, false, c18Diff{sig: sig("multi-parse", steps, docs[i].leafKind(), "wrong-document"),
					observed: fmt.Sprintf("document %d of %d is %s after the call returned", i+1, len(docs), g), expected: docs[i].canon(), from: "impl:kept-bag-vs-source"})
			}
		}
		if !okAll {
			continue
		}
		r.check(cs, true, c18Diff{})
		if cs.Entry != "discover-json" {
			pends = append(pends, pendT{cs, docs, got})
			reqs = append(reqs, "json parsemany s"+lib.Hex(full))
		}
		// changing one kept bag must not change another
		for i, b := range bags {
			var src string
			switch t := b.Any.(type) {
			case map[string]any:
				src = "(bag-set c18-b 12345 \"c18_zz\")"
			case []any:
				if len(t) > 0 {
					src = "(bag-set c18-b 12345 \"[0]\")"
				}
			}
			if src == "" {
				continue
			}
			r.impl.eval(src, map[string]slip.Object{"c18-b": b})
			same := true
			for k, other := range bags {
				if k != i && canonAny(other.Any) != docs[k].canon() {
					same = false
				}
			}
			r.check(cs, same, c18Diff{sig: sig("multi-parse", steps, docs[i].leafKind(), "documents-alias"),
				observed: fmt.Sprintf("a set in document %d changed another kept document", i+1), expected: "documents are independent", from: "impl:kept-bags-independent"})
			break
		}
	}
	replies := r.c.Model(reqs)
	for i, p := range pends {
		exp := []string{}
		if strings.HasPrefix(replies[i], "ok") {
			for _, part := range strings.Split(strings.TrimSpace(strings.TrimPrefix(replies[i], "ok")), " | ") {
				if strings.TrimSpace(part) != "" {
					exp = append(exp, canonTokenString(part))
				}
			}
		} else {
			exp = []string{replies[i]}
		}
		r.check(p.cs, strings.Join(exp, " | ") == strings.Join(p.got, " | "), c18Diff{sig: sig("multi-parse", p.cs.multiSteps(), "-", "model-differs"),
			observed: strings.Join(p.got, " | "), expected: strings.Join(exp, " | "), from: "model:json.parsemany", relies: []string{"SlipVerif.Json.parseMany_roundtrip"}})
	}
}

// ---------------------------------------------------------------------------------------------
// scan

func lispLeaf(v *jv) string {
	switch v.kind {
	case 'n':
		return "n"
	case 'b':
		if v.b {
			return "t"
		}
		return "n"
	}
	return v.canon()
}

func (r *c18Run) runScan(cases []*c18Case) {
	reqs := make([]string, len(cases))
	for i, cs := range cases {
		reqs[i] = "json scan " + map[bool]string{true: "T", false: "F"}[cs.Strict] + " " + cs.Doc
	}
	replies := r.c.Model(reqs)
	for i, cs := range cases {
		doc := parseDoc(cs.Doc)
		r.c.Ev.Case("scan "+cs.Doc+fmt.Sprint(cs.Strict), doc.depth() >= 2)
		r.c.Ev.Hist("family", "scan")
		steps := map[bool]string{true: "leaves-only", false: "all-nodes"}[cs.Strict]
		b, o := r.impl.makeBag(doc.text(), cs.Via)
		if !o.Ok {
			continue
		}
		key := ""
		if cs.Strict {
			key = " :leaves-only t"
		}
		src := "(let ((c18-acc nil)) (bag-scan c18-b (lambda (p v) (setq c18-acc (cons (list p v) c18-acc)))" + key + ") c18-acc)"
		if cs.Via%2 == 1 {
			src = "(let ((c18-acc nil)) (send c18-b :scan (lambda (p v) (setq c18-acc (cons (list p v) c18-acc)))" + key + ") c18-acc)"
		}
		so := r.impl.eval(src, map[string]slip.Object{"c18-b": b})
		if !so.Ok {
			r.check(cs, false, c18Diff{sig: sig("scan", steps, doc.firstKind(), "condition"), observed: "err " + so.Class + " " + so.Msg, expected: "nodes", from: "model:json.scan"})
			continue
		}
		var got []string
		list, _ := so.Value.(slip.List)
		getOK := true
		getMsg := ""
		for _, e := range list {
			pair, _ := e.(slip.List)
			if len(pair) != 2 {
				got = append(got, "?"+slip.ObjectString(e))
				continue
			}
			ps, _ := pair[0].(slip.String)
			x, err := jp.ParseString(string(ps))
			pw := "?" + string(ps)
			var pp ppath
			if err == nil {
				for _, f := range x {
					switch tf := f.(type) {
					case jp.Child:
						pp = append(pp, pstep{kind: 'k', key: string(tf)})
					case jp.Nth:
						pp = append(pp, pstep{kind: 'x', idx: int(tf)})
					}
				}
				pw = strings.Join(pp.wire(), " ")
			}
			val := ""
			if a, ok := bagAny(pair[1]); ok {
				val = "B " + canonAny(a)
			} else {
				val = "L " + canonTokenString(strings.Join(encLisp(pair[1]), " "))
			}
			got = append(got, pw+" "+val)
			// scan agrees with get: the node at the reported path is the reported value
			if a, ok := bagAny(pair[1]); ok && err == nil && getOK {
				g, _ := r.getCanon(b, pp, 2)
				if g != nilIfNull(canonAny(a)) {
					getOK, getMsg = false, fmt.Sprintf("scan reports %s at %s, bag-get returns %s", canonAny(a), string(ps), g)
				}
			}
		}
		sort.Strings(got)
		var exp []string
		for _, part := range strings.Split(strings.TrimSpace(strings.TrimPrefix(replies[i], "ok")), " | ") {
			part = strings.TrimSpace(part)
			if part == "" {
				continue
			}
			k := strings.Index(part, ";")
			pw := strings.TrimSpace(part[:k+1])
			v := parseDoc(part[k+1:])
			if v == nil {
				exp = append(exp, "?bad "+part)
				continue
			}
			if v.kind == 'a' || v.kind == 'o' {
				exp = append(exp, pw+" B "+v.canon())
			} else {
				exp = append(exp, pw+" L "+lispLeaf(v))
			}
		}
		sort.Strings(exp)
		aspect := "wrong-nodes"
		if len(exp) != len(got) {
			aspect = "wrong-count"
		}
		r.check(cs, strings.Join(exp, " | ") == strings.Join(got, " | "), c18Diff{sig: sig("scan", steps, doc.firstKind(), aspect),
			observed: strings.Join(got, " | "), expected: strings.Join(exp, " | "), from: "model:json.scan", relies: []string{"SlipVerif.Json.scan_get"}})
		r.check(cs, getOK, c18Diff{sig: sig("scan", steps, doc.firstKind(), "scan-vs-get"), observed: getMsg, expected: "bag-get of a reported path returns the reported node", from: "impl:scan-vs-get"})
	}
}
