package main

// C02 — load independence. No verdict of this check may depend on how busy the machine is:
//
//   * every call into the implementation registers what it is doing (c02Enter); a watchdog looks at
//     the CPU time this process has burnt *while one and the same call was running* (wall clock only
//     as a distant backstop for a call that blocks without using the CPU). The budget of the run as
//     a whole is not limited at all: a slow machine makes the run slow, not red.
//   * a call that exceeded its limit (a history under its first-pass deadline, or the call the
//     watchdog found stalled) is only a suspicion. The single case is then re-run ALONE, in a fresh
//     worker process (`vh C02` with C02_ALONE_JOB set) under a CPU time limit of the worker
//     (RLIMIT_CPU) and a wall clock backstop; only when the worker does not finish either the case is
//     reported (trace item `hang` / aspect=hang, a VIOLATION with a replay). When the worker
//     finishes, its result is the observation that is compared.

import (
	"bytes"
	"context"
	"encoding/json"
	"errors"
	"fmt"
	"os"
	"os/exec"
	"os/signal"
	"path/filepath"
	"strings"
	"sync/atomic"
	"syscall"
	"time"

	"verif/harness/lib"
)

const (
	c02AloneEnv     = "C02_ALONE_JOB"
	c02AloneMarker  = "C02-ALONE-RESULT "
	c02AloneCPU     = 150              // CPU seconds the worker may use for one case (a case needs milliseconds)
	c02AloneWall    = 30 * time.Minute // distant backstop: a worker that blocks without using the CPU
	c02AloneExitCPU = 97
	c02StallCPU     = 120.0            // CPU seconds of this process inside ONE implementation call
	c02StallWall    = 30 * time.Minute // backstop for a call that blocks
)

// first pass of a history; exceeding it only triggers the re-run alone, so its value cannot change a
// verdict (C02_HIST_FIRST_PASS_MS=0 sends every history through the worker: a self test of that path)
var c02HistFirstPass = func() time.Duration {
	if v := os.Getenv("C02_HIST_FIRST_PASS_MS"); v != "" {
		var ms int
		if _, err := fmt.Sscanf(v, "%d", &ms); err == nil {
			return time.Duration(ms) * time.Millisecond
		}
	}
	return 20 * time.Second
}()

// c02Job is one call into the implementation, in a form that can be handed to a worker process.
type c02Job struct {
	Kind       string  `json:"kind"`  // run | fbf | rfsfbf | rfsat | hist | lisp
	Entry      string  `json:"entry"` // run: the entry point; lisp: the lisp entry; hist: unused
	StreamKind string  `json:"stream_kind,omitempty"`
	TextHex    string  `json:"text_hex"`
	Plan       c02Plan `json:"plan"`
	Base       int     `json:"base"`
	Sym        string  `json:"sym"`
	Ops        string  `json:"ops,omitempty"`
	Start      int     `json:"start,omitempty"`
	Preserve   bool    `json:"preserve,omitempty"`
	text       []byte
}

type c02JobResult struct {
	Trace []string `json:"trace,omitempty"`
	Out   *c02Out  `json:"out,omitempty"`
}

var (
	c02Cur      atomic.Pointer[c02Job]
	c02Progress atomic.Uint64
	c02AloneSeq atomic.Uint64
	c02CurCell  atomic.Pointer[string]
)

// c02Enter registers the implementation call that starts now; c02Leave: no call is running (model
// requests, bookkeeping), the watchdog is not interested.
func c02Enter(j *c02Job) {
	c02Cur.Store(j)
	c02Progress.Add(1)
}

func c02Leave() {
	c02Cur.Store(nil)
	c02Progress.Add(1)
}

func (j *c02Job) cfg() c02Cfg { return c02MakeCfg(j.Base, j.Sym) }

func (j *c02Job) bytes() []byte {
	if j.text == nil && j.TextHex != "" {
		j.text = []byte(lib.Unhex(j.TextHex))
	}
	return j.text
}

func (j *c02Job) describe() string {
	t := j.bytes()
	if len(t) > 200 {
		t = t[:200]
	}
	return fmt.Sprintf("%s %s %s %q cuts=%v ops=%s %s", j.Kind, j.Entry, j.StreamKind, t, j.Plan.Cuts, j.Ops, j.cfg())
}

func c02CPUSeconds() float64 {
	var ru syscall.Rusage
	if err := syscall.Getrusage(syscall.RUSAGE_SELF, &ru); err != nil {
		return 0
	}
	tv := func(t syscall.Timeval) float64 { return float64(t.Sec) + float64(t.Usec)/1e6 }
	return tv(ru.Utime) + tv(ru.Stime)
}

// c02JobRun performs the job in this process.
func c02JobRun(j *c02Job, dir string) c02JobResult {
	text, cfg := j.bytes(), j.cfg()
	switch j.Kind {
	case "run":
		out := c02Run(j.Entry, text, j.Plan, cfg)
		return c02JobResult{Out: &out}
	case "fbf":
		out := c02FormByForm(text, cfg)
		return c02JobResult{Out: &out}
	case "rfsfbf":
		out := c02RfsFormByForm(text, cfg, j.Preserve)
		return c02JobResult{Out: &out}
	case "rfsat":
		out := c02RfsAt(text, cfg, j.Start, j.Preserve)
		return c02JobResult{Out: &out}
	case "hist":
		return c02JobResult{Trace: c02RunHist(j.StreamKind, text, j.Ops, j.Plan, cfg, dir)}
	case "lisp":
		out := c02LispRun(j.Entry, j.StreamKind, text, j.Plan, cfg, dir)
		return c02JobResult{Out: &out}
	}
	panic("c02JobRun: unknown kind " + j.Kind)
}

// c02AloneWorker is the worker side: `vh C02` started with C02_ALONE_JOB=<job file>.
func c02AloneWorker(c *lib.Ctx, path string) {
	lim := syscall.Rlimit{Cur: c02AloneCPU, Max: c02AloneCPU + 5}
	_ = syscall.Setrlimit(syscall.RLIMIT_CPU, &lim)
	sig := make(chan os.Signal, 1)
	signal.Notify(sig, syscall.SIGXCPU)
	go func() {
		<-sig
		fmt.Println("C02-ALONE-CPU-LIMIT")
		os.Exit(c02AloneExitCPU)
	}()
	var j c02Job
	if err := lib.ReadJSON(path, &j); err != nil {
		fmt.Println("cannot read the job file:", err)
		os.Exit(2)
	}
	_ = c02Run(c02EReadString, []byte("'a #'b `(c ,d ,@e)"), c02Plan{}, c02MakeCfg(10, "double-float"))
	dir := filepath.Join(filepath.Dir(path), fmt.Sprintf("alone-%d", os.Getpid()))
	_ = os.MkdirAll(dir, 0o755)
	res := c02JobRun(&j, dir)
	_ = os.RemoveAll(dir)
	b, _ := json.Marshal(res)
	fmt.Println(c02AloneMarker + string(b))
	os.Exit(0)
}

// c02RunAlone re-runs one case alone in a worker process. verdict: "done" (res is what the worker
// observed), "hang" (the worker used up its CPU limit, or sat blocked until the wall clock backstop),
// "crash" (the worker died otherwise: a Go fatal error such as a stack overflow).
func c02RunAlone(c *lib.Ctx, j *c02Job) (res c02JobResult, verdict string, detail string) {
	j.TextHex = c02Hex(j.bytes())
	if j.TextHex == "-" {
		j.TextHex = ""
	}
	path := filepath.Join(c.OutDir, fmt.Sprintf("c02-alone-%d-%d.json", os.Getpid(), c02AloneSeq.Add(1)))
	b, _ := json.Marshal(j)
	if err := os.WriteFile(path, b, 0o644); err != nil {
		fmt.Fprintln(os.Stderr, "C02 harness: cannot write a job file:", err)
		os.Exit(2)
	}
	defer os.Remove(path)
	ctx, cancel := context.WithTimeout(context.Background(), c02AloneWall)
	defer cancel()
	cmd := exec.CommandContext(ctx, os.Args[0], "C02", "--tier", c.Tier, "--seed", "0", "--root", c.Root, "--repo", c.Repo, "--model", c.ModelBin)
	cmd.Env = append(os.Environ(), c02AloneEnv+"="+path)
	cmd.Dir = c.OutDir
	var out bytes.Buffer
	cmd.Stdout = &out
	var errb bytes.Buffer
	cmd.Stderr = &errb
	err := cmd.Run()
	for _, line := range strings.Split(out.String(), "\n") {
		if rest, ok := strings.CutPrefix(line, c02AloneMarker); ok && err == nil {
			if json.Unmarshal([]byte(rest), &res) == nil {
				return res, "done", ""
			}
		}
	}
	tail := errb.String()
	if len(tail) > 600 {
		tail = tail[:600]
	}
	var ee *exec.ExitError
	switch {
	case ctx.Err() != nil:
		return res, "hang", fmt.Sprintf("the worker was still blocked after %v", c02AloneWall)
	case errors.As(err, &ee) && ee.ExitCode() == c02AloneExitCPU:
		return res, "hang", fmt.Sprintf("the worker used %d s of CPU time on this single case", c02AloneCPU)
	case errors.As(err, &ee) && ee.ExitCode() == -1:
		// killed by a signal: SIGKILL at the hard CPU limit
		return res, "hang", fmt.Sprintf("the worker was killed (%v) at its CPU limit of %d s", err, c02AloneCPU)
	case err != nil:
		return res, "crash", fmt.Sprintf("%v: %s", err, tail)
	}
	fmt.Fprintf(os.Stderr, "C02 harness: the worker returned no result: %s %s\n", out.String(), tail)
	os.Exit(2)
	return
}

// c02Watchdog: see the head of this file. onHang reports the confirmed hang and ends the run.
func c02Watchdog(c *lib.Ctx, onHang func(j *c02Job, detail string)) {
	go func() {
		last := c02Progress.Load()
		since, cpu0 := time.Now(), c02CPUSeconds()
		for {
			time.Sleep(2 * time.Second)
			p := c02Progress.Load()
			j := c02Cur.Load()
			if p != last || j == nil {
				last, since, cpu0 = p, time.Now(), c02CPUSeconds()
				continue
			}
			usedCPU, usedWall := c02CPUSeconds()-cpu0, time.Since(since)
			if usedCPU < c02StallCPU && usedWall < c02StallWall {
				continue
			}
			// the suspicion: one call has been running for usedCPU seconds of CPU time
			fmt.Fprintf(os.Stderr, "C02 harness: one call into the reader has been running for %.0f s CPU / %v wall: %s; re-running it alone\n",
				usedCPU, usedWall.Round(time.Second), j.describe())
			_, verdict, detail := c02RunAlone(c, j)
			if c02Progress.Load() != p {
				// it did finish in the meantime: slow, not stuck
				last, since, cpu0 = c02Progress.Load(), time.Now(), c02CPUSeconds()
				continue
			}
			if verdict == "done" {
				fmt.Fprintf(os.Stderr, "C02 harness: the case terminates when run alone but not inside the run (%s): machinery error\n", j.describe())
				os.Exit(2)
			}
			onHang(j, verdict+": "+detail)
			return
		}
	}()
}
