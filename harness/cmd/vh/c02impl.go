package main

// C02 — the implementation side: canonical rendering of what the reader produced, the entry points
// (whole text, one form, the three block readers, cl:read) and an io.Reader that delivers a text in
// prescribed pieces.

import (
	"fmt"
	"io"
	"math"
	"math/big"
	"regexp"
	"sort"
	"strconv"
	"strings"
	"time"

	"github.com/ohler55/slip"
	"github.com/ohler55/slip/pkg/cl"
	"verif/harness/lib"
)

// ---------------------------------------------------------------------------------------------
// configuration: *read-base* and *read-default-float-format*

type c02Cfg struct {
	Base int    `json:"base"`
	Fmt  string `json:"fmt"` // s | d | l  (model side); Sym is what the variable is bound to
	Sym  string `json:"sym"` // single-float | short-float | double-float | long-float
}

func (cfg c02Cfg) String() string { return fmt.Sprintf("base=%d float=%s", cfg.Base, cfg.Sym) }

func c02MakeCfg(base int, sym string) c02Cfg {
	f := "d"
	switch sym {
	case "single-float", "short-float":
		f = "s"
	case "long-float":
		f = "l"
	}
	return c02Cfg{Base: base, Fmt: f, Sym: sym}
}

func (cfg c02Cfg) scope() *slip.Scope {
	s := slip.NewScope()
	s.Let(slip.Symbol("*read-base*"), slip.Fixnum(cfg.Base))
	s.Let(slip.Symbol("*read-default-float-format*"), slip.Symbol(cfg.Sym))
	return s
}

// ---------------------------------------------------------------------------------------------
// canonical structural rendering (the same syntax as Driver/Reader.lean `render`)

func c02Hex(b []byte) string {
	if len(b) == 0 {
		return "-"
	}
	return fmt.Sprintf("%x", b)
}

func c02TimeLike(name string) bool {
	return len(name) >= 2 && name[0] == '@' && name[1] >= '0' && name[1] <= '9'
}

func c02Render(o slip.Object) string {
	switch v := o.(type) {
	case nil:
		return "nil"
	case slip.Fixnum:
		return "i" + strconv.FormatInt(int64(v), 10)
	case *slip.Bignum:
		return "i" + (*big.Int)(v).String()
	case *slip.Ratio:
		r := (*big.Rat)(v)
		return "r" + r.Num().String() + "/" + r.Denom().String()
	case slip.SingleFloat:
		return fmt.Sprintf("fsingle:%08x", math.Float32bits(float32(v)))
	case slip.DoubleFloat:
		return fmt.Sprintf("fdouble:%016x", math.Float64bits(float64(v)))
	case *slip.LongFloat:
		// long floats: the type only (the precision slip gives them depends on the digit count)
		return "flong"
	case slip.Symbol:
		if c02TimeLike(string(v)) {
			return "@"
		}
		return "y" + c02Hex([]byte(v))
	case slip.Time:
		_ = time.Time(v)
		return "@"
	case slip.String:
		return "s" + c02Hex([]byte(v))
	case slip.Character:
		return "c" + strconv.FormatInt(int64(v), 10)
	case *slip.BitVector:
		var sb strings.Builder
		sb.WriteByte('b')
		for i := uint(0); i < v.Len; i++ {
			if v.At(i) {
				sb.WriteByte('1')
			} else {
				sb.WriteByte('0')
			}
		}
		return sb.String()
	case slip.List:
		return "(l" + c02RenderList(v) + ")"
	case slip.Tail:
		return "(. " + c02Render(v.Value) + ")"
	case *slip.Vector:
		return "(v" + c02RenderList(v.AsList()) + ")"
	case *slip.Array:
		dims := v.Dimensions()
		ds := make([]string, len(dims))
		for i, d := range dims {
			ds[i] = strconv.Itoa(d)
		}
		return "(a[" + strings.Join(ds, ",") + "]" + c02RenderList(v.Elements()) + ")"
	case slip.Complex:
		return fmt.Sprintf("(c fdouble:%016x fdouble:%016x)", math.Float64bits(real(complex128(v))), math.Float64bits(imag(complex128(v))))
	case *cl.Quote:
		return c02Wrap("q", v.Args)
	case *cl.Function:
		return c02Wrap("fn", v.Args)
	case *cl.Backquote:
		return c02Wrap("bq", v.Args)
	case *cl.Comma:
		return c02Wrap(",", v.Args)
	case *cl.CommaAt:
		return c02Wrap(",@", v.Args)
	case slip.Funky:
		tag := ""
		switch strings.ToLower(v.GetName()) {
		case "quote":
			tag = "q"
		case "function":
			tag = "fn"
		case "backquote":
			tag = "bq"
		case "comma":
			tag = ","
		case "comma-at":
			tag = ",@"
		}
		if tag != "" && len(v.GetArgs()) == 1 {
			return "(" + tag + " " + c02Render(v.GetArgs()[0]) + ")"
		}
		return "(call " + v.GetName() + c02RenderList(v.GetArgs()) + ")"
	}
	if o == slip.True {
		return "t"
	}
	// the reader's own markers (type marker is unexported): a one byte String()
	switch s := o.String(); s {
	case "q":
		return "m:q"
	case "#":
		return "m:fn"
	case "b":
		return "m:bq"
	case ",":
		return "m:,"
	case "@":
		return "m:,@"
	}
	return fmt.Sprintf("?%T:%s", o, o.String())
}

func c02Wrap(tag string, args slip.List) string {
	if len(args) == 1 {
		return "(" + tag + " " + c02Render(args[0]) + ")"
	}
	return "(" + tag + "!" + c02RenderList(args) + ")"
}

func c02RenderList(xs []slip.Object) string {
	var sb strings.Builder
	for _, x := range xs {
		sb.WriteByte(' ')
		sb.WriteString(c02Render(x))
	}
	return sb.String()
}

// c02Split splits a rendered object sequence " a (l b c) d" into its top level items.
func c02Split(s string) []string {
	var out []string
	depth, start := 0, -1
	for i := 0; i < len(s); i++ {
		switch s[i] {
		case ' ':
			if depth == 0 && start >= 0 {
				out = append(out, s[start:i])
				start = -1
			}
		case '(':
			if start < 0 {
				start = i
			}
			depth++
		case ')':
			depth--
		default:
			if start < 0 {
				start = i
			}
		}
	}
	if start >= 0 {
		out = append(out, s[start:])
	}
	return out
}

// ---------------------------------------------------------------------------------------------
// outcome of one read

type c02Out struct {
	Ok    bool
	Class string   // parse | partial:<depth>  (when !Ok)
	Pos   int      // position reported (entry points that report one), else -1
	Objs  []string // rendered objects (finished objects delivered before an error for push/each)
	Msg   string   // condition text (never compared)
}

func (o c02Out) String() string {
	if o.Ok {
		return fmt.Sprintf("ok pos=%d [%s]", o.Pos, strings.Join(o.Objs, " "))
	}
	return fmt.Sprintf("err %s delivered=[%s]", o.Class, strings.Join(o.Objs, " "))
}

// c02Protect runs fn and classifies a panic: *slip.PartialPanic → partial:<depth>, anything else → parse.
func c02Protect(fn func(out *c02Out)) (out c02Out) {
	out.Pos = -1
	defer func() {
		if r := recover(); r != nil {
			out.Ok = false
			switch tr := r.(type) {
			case *slip.PartialPanic:
				out.Class = fmt.Sprintf("partial:%d", tr.Depth)
				out.Msg = tr.Message
			case *slip.Panic:
				out.Class = "parse"
				out.Msg = tr.Message
			default:
				out.Class = "parse"
				out.Msg = fmt.Sprint(r)
			}
		}
	}()
	fn(&out)
	out.Ok = true
	return
}

func c02Rendered(code []slip.Object) []string {
	out := make([]string, len(code))
	for i, o := range code {
		out[i] = c02Render(o)
	}
	return out
}

// ---------------------------------------------------------------------------------------------
// a reader that hands over the text in the prescribed pieces

type c02Reader struct {
	data    []byte
	cuts    []int // ascending block boundaries, 0 < c < len(data)
	off     int
	eofWith bool // deliver io.EOF together with the last block instead of with a final empty read
	zero    bool // put an empty read (0, nil) in front of every block
	didZero bool
	reads   int
}

func (r *c02Reader) blockEnd() int {
	for _, c := range r.cuts {
		if c > r.off {
			return c
		}
	}
	return len(r.data)
}

func (r *c02Reader) Read(p []byte) (int, error) {
	r.reads++
	if len(p) == 0 {
		return 0, nil
	}
	if r.off >= len(r.data) {
		return 0, io.EOF
	}
	if r.zero && !r.didZero {
		r.didZero = true
		return 0, nil
	}
	r.didZero = false
	end := r.blockEnd()
	n := end - r.off
	if n > len(p) {
		n = len(p)
	}
	copy(p, r.data[r.off:r.off+n])
	r.off += n
	if r.off >= len(r.data) && r.eofWith {
		return n, io.EOF
	}
	return n, nil
}

// c02SeekStream is a slip stream object (reader + seeker) over a c02Reader: cl:read takes the
// ReadStream path for it.
type c02SeekStream struct {
	r *c02Reader
}

func (s *c02SeekStream) String() string           { return "#<C02-STREAM>" }
func (s *c02SeekStream) Append(b []byte) []byte   { return append(b, s.String()...) }
func (s *c02SeekStream) Simplify() any            { return s.String() }
func (s *c02SeekStream) Equal(o slip.Object) bool { return o == slip.Object(s) }
func (s *c02SeekStream) Hierarchy() []slip.Symbol {
	return []slip.Symbol{slip.Symbol("stream"), slip.TrueSymbol}
}
func (s *c02SeekStream) Eval(_ *slip.Scope, _ int) slip.Object { return s }
func (s *c02SeekStream) StreamType() slip.Symbol               { return slip.Symbol("stream") }
func (s *c02SeekStream) IsOpen() bool                          { return true }
func (s *c02SeekStream) Read(p []byte) (int, error)            { return s.r.Read(p) }
func (s *c02SeekStream) Seek(off int64, whence int) (int64, error) {
	switch whence {
	case io.SeekStart:
		s.r.off = int(off)
	case io.SeekCurrent:
		s.r.off += int(off)
	case io.SeekEnd:
		s.r.off = len(s.r.data) + int(off)
	}
	return int64(s.r.off), nil
}

// c02Collector is the callback of ReadStreamEach.
type c02Collector struct{ objs []slip.Object }

func (c *c02Collector) Call(_ *slip.Scope, args slip.List, _ int) slip.Object {
	c.objs = append(c.objs, args[0])
	return nil
}

// ---------------------------------------------------------------------------------------------
// entry points

const (
	c02EReadString    = "ReadString"
	c02ERead          = "Read"
	c02EReadOne       = "ReadOne"
	c02EStream        = "ReadStream"
	c02EStreamOne     = "ReadStream(one)"
	c02EStreamPush    = "ReadStreamPush"
	c02EStreamEach    = "ReadStreamEach"
	c02EClReadSeek    = "cl:read(seekable)"
	c02EClRead        = "cl:read(stream)"
	c02EReadFromStr   = "read-from-string"
	c02EFormByForm    = "ReadOne(form-by-form)"
	c02ERfsFormByForm = "read-from-string(form-by-form)"
)

type c02Plan struct {
	Cuts    []int `json:"cuts"`
	EofWith bool  `json:"eof_with_last"`
	Zero    bool  `json:"zero_reads"`
}

func (p c02Plan) reader(text []byte) *c02Reader {
	return &c02Reader{data: text, cuts: p.Cuts, eofWith: p.EofWith, zero: p.Zero}
}

// c02Form reads a harness-made call form under the default reader configuration (the scope under
// test may have another *read-base*).
func c02Form(src string) slip.Object {
	return slip.ReadString(src, slip.NewScope())[0]
}

// c02Run reads text through the given entry point.
func c02Run(entry string, text []byte, plan c02Plan, cfg c02Cfg) c02Out {
	c02Enter(&c02Job{Kind: "run", Entry: entry, text: text, Plan: plan, Base: cfg.Base, Sym: cfg.Sym})
	scope := cfg.scope()
	return c02Protect(func(out *c02Out) {
		switch entry {
		case c02EReadString:
			out.Objs = c02Rendered(slip.ReadString(string(text), scope))
		case c02ERead:
			out.Objs = c02Rendered(slip.Read(text, scope))
		case c02EReadOne:
			code, pos := slip.ReadOne(text, scope)
			out.Objs, out.Pos = c02Rendered(code), pos
		case c02EStream:
			code, pos := slip.ReadStream(plan.reader(text), scope)
			out.Objs, out.Pos = c02Rendered(code), pos
		case c02EStreamOne:
			code, pos := slip.ReadStream(plan.reader(text), scope, true)
			out.Objs, out.Pos = c02Rendered(code), pos
		case c02EStreamPush:
			// a consumer drains the channel concurrently: a reader that pushes too much must not
			// be able to block the harness
			ch := make(chan slip.Object, 16)
			done := make(chan []string)
			go func() {
				var got []string
				for o := range ch {
					if len(got) <= 4*len(text)+8 {
						got = append(got, c02Render(o))
					}
				}
				done <- got
			}()
			defer func() {
				close(ch)
				out.Objs = <-done
			}()
			slip.ReadStreamPush(plan.reader(text), scope, ch)
		case c02EStreamEach:
			col := &c02Collector{}
			defer func() { out.Objs = c02Rendered(col.objs) }()
			slip.ReadStreamEach(plan.reader(text), scope, col)
		case c02EClReadSeek:
			st := &c02SeekStream{r: plan.reader(text)}
			scope.Let(slip.Symbol("c02-in"), st)
			v := scope.Eval(c02Form("(read c02-in)"), 0)
			out.Objs, out.Pos = []string{c02Render(v)}, st.r.off
		case c02EClRead:
			st := slip.NewInputStream(plan.reader(text))
			scope.Let(slip.Symbol("c02-in"), st)
			v := scope.Eval(c02Form("(read c02-in)"), 0)
			out.Objs = []string{c02Render(v)}
		case c02EReadFromStr:
			scope.Let(slip.Symbol("c02-text"), slip.String(text))
			v := scope.Eval(c02Form("(read-from-string c02-text nil 'c02-eof :preserve-whitespace t)"), 0)
			vals, _ := v.(slip.Values)
			if len(vals) == 2 {
				if p, ok := vals[1].(slip.Fixnum); ok {
					out.Pos = int(p)
				}
				if sym, ok := vals[0].(slip.Symbol); !ok || !strings.EqualFold(string(sym), "c02-eof") {
					out.Objs = []string{c02Render(vals[0])}
				}
			}
		default:
			panic("c02Run: unknown entry " + entry)
		}
	})
}

// c02FormByForm reads the text one form at a time with ReadOne, continuing at the reported position.
func c02FormByForm(text []byte, cfg c02Cfg) c02Out {
	c02Enter(&c02Job{Kind: "fbf", text: text, Base: cfg.Base, Sym: cfg.Sym})
	scope := cfg.scope()
	return c02Protect(func(out *c02Out) {
		off := 0
		for guard := 0; guard <= len(text)+1; guard++ {
			code, pos := slip.ReadOne(text[off:], scope)
			if len(code) == 0 {
				break
			}
			out.Objs = append(out.Objs, c02Render(code[0]))
			if pos <= 0 {
				out.Objs = append(out.Objs, "!no-progress")
				break
			}
			off += pos
			if off > len(text) {
				out.Objs = append(out.Objs, "!position-beyond-text")
				break
			}
			out.Pos = off
		}
	})
}

// c02RfsAt is (read-from-string text nil eof :start n :preserve-whitespace pw): object and position.
func c02RfsAt(text []byte, cfg c02Cfg, start int, preserve bool) c02Out {
	c02Enter(&c02Job{Kind: "rfsat", text: text, Base: cfg.Base, Sym: cfg.Sym, Start: start, Preserve: preserve})
	scope := cfg.scope()
	scope.Let(slip.Symbol("c02-text"), slip.String(text))
	return c02Protect(func(out *c02Out) {
		pw := "nil"
		if preserve {
			pw = "t"
		}
		v := scope.Eval(c02Form(fmt.Sprintf("(read-from-string c02-text nil 'c02-eof :start %d :preserve-whitespace %s)", start, pw)), 0)
		vals, _ := v.(slip.Values)
		if len(vals) == 2 {
			if p, ok := vals[1].(slip.Fixnum); ok {
				out.Pos = int(p)
			}
			if sym, ok := vals[0].(slip.Symbol); !ok || !strings.EqualFold(string(sym), "c02-eof") {
				out.Objs = []string{c02Render(vals[0])}
			}
		}
	})
}

// c02RfsFormByForm does the same with (read-from-string text nil eof :start n); positions are
// character indexes, so the text is given as runes.
func c02RfsFormByForm(text []byte, cfg c02Cfg, preserve bool) c02Out {
	c02Enter(&c02Job{Kind: "rfsfbf", text: text, Base: cfg.Base, Sym: cfg.Sym, Preserve: preserve})
	scope := cfg.scope()
	scope.Let(slip.Symbol("c02-text"), slip.String(text))
	nrunes := len([]rune(string(text)))
	return c02Protect(func(out *c02Out) {
		start := 0
		for guard := 0; guard <= len(text)+1 && start < nrunes; guard++ {
			pw := "nil"
			if preserve {
				pw = "t"
			}
			src := fmt.Sprintf("(read-from-string c02-text nil 'c02-eof :start %d :preserve-whitespace %s)", start, pw)
			v := scope.Eval(c02Form(src), 0)
			vals, _ := v.(slip.Values)
			if len(vals) != 2 {
				out.Objs = append(out.Objs, "!not-two-values")
				break
			}
			if sym, ok := vals[0].(slip.Symbol); ok && strings.EqualFold(string(sym), "c02-eof") {
				break
			}
			out.Objs = append(out.Objs, c02Render(vals[0]))
			p, _ := vals[1].(slip.Fixnum)
			if int(p) <= start {
				out.Objs = append(out.Objs, "!no-progress")
				break
			}
			start = int(p)
			out.Pos = start
		}
	})
}

// ---------------------------------------------------------------------------------------------
// the model's reply → expected outcome (float token texts are turned into the values Go's strconv
// gives them: the model decides that a token is a float of a type, the value is strconv's contract)

var (
	c02FloRe  = regexp.MustCompile(`f(single|double|long):([0-9a-f]+|-)`)
	c02LongRe = regexp.MustCompile(`flong:[^ ()]+`)
	c02CplxRe = regexp.MustCompile(`\(c ([^ ()]+) ([^ ()]+)\)`)
)

func c02FloatToken(ty, hexTok string) string {
	tok := strings.ToLower(lib.Unhex(hexTok))
	orig := lib.Unhex(hexTok)
	marker := byte(0)
	for _, m := range []byte("esfdl") {
		if i := strings.IndexByte(tok, m); i >= 0 {
			marker = m
			tok = tok[:i] + "e" + tok[i+1:]
			break
		}
	}
	sym := "y" + c02Hex([]byte(orig))
	switch ty {
	case "double":
		f, err := strconv.ParseFloat(tok, 64)
		if err != nil {
			return sym
		}
		return fmt.Sprintf("fdouble:%016x", math.Float64bits(f))
	case "single":
		if marker == 's' || marker == 'f' {
			f, err := strconv.ParseFloat(tok, 32)
			if err != nil {
				return sym
			}
			return fmt.Sprintf("fsingle:%08x", math.Float32bits(float32(f)))
		}
		f, err := strconv.ParseFloat(tok, 64)
		if err != nil {
			return sym
		}
		return fmt.Sprintf("fsingle:%08x", math.Float32bits(float32(f)))
	default:
		// slip gives a long float 3.32 bits per digit of the mantissa text (code.go resolveToken);
		// the value matters here only inside #C(…), which converts its parts to float64
		cnt := len(tok)
		if i := strings.IndexByte(tok, 'e'); i > 0 {
			cnt = i
		}
		if tok[0] == '-' || tok[0] == '+' {
			cnt--
		}
		f, _, err := big.ParseFloat(tok, 10, uint(3.32*float64(cnt)), big.ToNearestAway)
		if err != nil {
			return sym
		}
		f64, _ := f.Float64()
		return fmt.Sprintf("flong:%g", f64) // the value is only used inside #C(…), see c02Expected
	}
}

func c02RealToFloat(item string) (float64, bool) {
	switch {
	case strings.HasPrefix(item, "i"):
		n, ok := new(big.Int).SetString(item[1:], 10)
		if !ok {
			return 0, false
		}
		if n.IsInt64() {
			return float64(n.Int64()), true
		}
		f, _ := new(big.Float).SetInt(n).Float64()
		return f, true
	case strings.HasPrefix(item, "r"):
		r, ok := new(big.Rat).SetString(item[1:])
		if !ok {
			return 0, false
		}
		f, _ := r.Float64()
		return f, true
	case strings.HasPrefix(item, "fdouble:"):
		var bits uint64
		_, _ = fmt.Sscanf(item[8:], "%x", &bits)
		return math.Float64frombits(bits), true
	case strings.HasPrefix(item, "flong:"):
		f, err := strconv.ParseFloat(item[6:], 64)
		return f, err == nil
	case strings.HasPrefix(item, "fsingle:"):
		var bits uint32
		_, _ = fmt.Sscanf(item[8:], "%x", &bits)
		return float64(math.Float32frombits(bits)), true
	}
	return 0, false
}

// c02Expected parses a model reply "ok <pos> <n> objs…" / "err <class> <n> objs…".
func c02Expected(reply string) c02Out {
	w := strings.SplitN(reply, " ", 4)
	out := c02Out{Pos: -1}
	if len(w) < 3 {
		out.Class = "bad-reply:" + reply
		return out
	}
	rest := ""
	if len(w) == 4 {
		rest = w[3]
	}
	rest = c02FloRe.ReplaceAllStringFunc(rest, func(m string) string {
		sm := c02FloRe.FindStringSubmatch(m)
		return c02FloatToken(sm[1], sm[2])
	})
	rest = c02CplxRe.ReplaceAllStringFunc(rest, func(m string) string {
		sm := c02CplxRe.FindStringSubmatch(m)
		re, ok1 := c02RealToFloat(sm[1])
		im, ok2 := c02RealToFloat(sm[2])
		if !ok1 || !ok2 {
			return m
		}
		return fmt.Sprintf("(c fdouble:%016x fdouble:%016x)", math.Float64bits(re), math.Float64bits(im))
	})
	rest = c02LongRe.ReplaceAllString(rest, "flong")
	out.Objs = c02Split(rest)
	switch w[0] {
	case "ok":
		out.Ok = true
		out.Pos, _ = strconv.Atoi(w[1])
	default:
		out.Class = w[1]
	}
	return out
}

func c02SameObjs(a, b []string) bool {
	if len(a) != len(b) {
		return false
	}
	for i := range a {
		if a[i] != b[i] {
			return false
		}
	}
	return true
}

func c02IsPrefix(a, b []string) bool {
	if len(a) > len(b) {
		return false
	}
	for i := range a {
		if a[i] != b[i] {
			return false
		}
	}
	return true
}

func c02SortedKeys(m map[string]int) []string {
	keys := make([]string, 0, len(m))
	for k := range m {
		keys = append(keys, k)
	}
	sort.Strings(keys)
	return keys
}
