package main

import (
	"fmt"
	"os"
	"strings"

	"verif/harness/lib"
)

func c16Strings(v any) []string {
	var out []string
	if l, ok := v.([]any); ok {
		for _, e := range l {
			out = append(out, fmt.Sprint(e))
		}
	}
	return out
}

// c16Replay re-runs exactly the recorded case against the current tree and prints the observed
// and expected results again.
func c16Replay(c *lib.Ctx) {
	var rec map[string]any
	if err := lib.ReadJSON(c.Replay, &rec); err != nil {
		fmt.Fprintln(os.Stderr, "cannot read replay file (use an absolute path):", err)
		os.Exit(2)
	}
	family, _ := rec["family"].(string)
	sig, _ := rec["signature"].(string)
	fmt.Printf("replay %s\n  recorded input   : %v\n  recorded observed: %v\n  recorded expected: %v\n", sig, rec["input"], rec["observed"], rec["expected"])
	switch family {
	case "pred", "pred3", "sxhash":
		wires := c16Strings(rec["wires"])
		if len(wires) == 0 {
			fmt.Println("replay file has no wire terms")
			return
		}
		u := c16BuildUniverse(c, wires, 0)
		for i, a := range u.objs {
			fmt.Printf("  (sxhash %s) = %s\n", a.text, strings.TrimPrefix(u.hash[i], "V:"))
			for j, b := range u.objs {
				fmt.Printf("  x=%s y=%s  implementation eq,eql,equal,equalp,object-equal = %s %s %s %s %s   model = %s %s %s %s %s\n", a.text, b.text,
					u.impl[0][i][j], u.impl[1][i][j], u.impl[2][i][j], u.impl[3][i][j], u.impl[4][i][j],
					c16Bool(u.model[0][i][j]), c16Bool(u.model[1][i][j]), c16Bool(u.model[2][i][j]), c16Bool(u.model[3][i][j]), c16Bool(u.model[4][i][j]))
			}
		}
		c16CheckUniverse(c, u)
	case "hist":
		mk, _ := rec["make"].(string)
		h := c16Hist{make: mk, keys: c16Strings(rec["keys"]), ops: c16Strings(rec["ops"])}
		model := c.Model([]string{h.request()})[0]
		obs, keys := c16RunHist(h)
		fmt.Printf("  history        : %s\n  implementation : %s\n  model          : %s\n", h.text(keys), strings.Join(obs, " "), strings.TrimPrefix(model, "ok "))
		c16CheckHist(c, h, model)
	case "classhist":
		h := c16DynHist{ops: c16Strings(rec["ops"])}
		model := c.Model([]string{"type classhist " + strings.Join(h.ops, " ")})[0]
		r := c16DynRunHist(h)
		fmt.Printf("  history        : %s\n  implementation : %s\n  model          : %s\n", strings.Join(r.text, " "), strings.Join(r.obs, " "), strings.TrimPrefix(model, "ok "))
		c16DynCheck(c, h, model)
	case "type", "compound", "ext":
		// the type families are (mostly) fixed exhaustive tables: re-run them and keep the recorded cell
		if family == "type" {
			c16TypeFamily(c)
		} else if family == "ext" {
			c16ExtFamily(c)
		} else {
			c.Seed = c16ReplaySeed(rec)
			c.Tier, _ = rec["tier"].(string)
			c16CompoundFamily(c)
		}
		var keep []lib.Violation
		for _, v := range c.Violations {
			if v.Signature == sig {
				fmt.Printf("  now: input %v observed %v expected %v\n", v.Replay["input"], v.Replay["observed"], v.Replay["expected"])
				keep = append(keep, v)
			}
		}
		c.Violations = keep
	default:
		if c.GenBroken != "" || rec["broken"] != nil {
			fmt.Println("  the recorded failure is a generated obligation (Theorems/GenC16) that did not build; the check re-proves it on every run")
			c16TypeFamily(c)
			return
		}
		fmt.Println("replay file of an unknown family:", family)
	}
	for _, v := range c.Violations {
		fmt.Printf("  still failing: %s\n", v.Signature)
	}
}

func c16ReplaySeed(rec map[string]any) uint64 {
	if f, ok := rec["seed"].(float64); ok {
		return uint64(f)
	}
	return 1
}
