package main

import "verif/harness/lib"

func c16Replay(c *lib.Ctx) {}
