package main

// C02 (f) — the secondary entry points, called THROUGH LISP, with every kind of delivery: what a
// program gets that reads a source text with
//
//   (read-each stream fn) / (read-push stream channel)          pkg/gi, ReadStreamEach / ReadStreamPush
//   (read stream nil eof-value) in a loop until the eof value    pkg/cl/read.go, all forms of the text
//   (read stream) in a loop until the end-of-file condition      (texts that stop inside a form)
//   (load "file") / (load stream) / (require "name" dir)         os.ReadFile / io.ReadAll + slip.Read
//
// on the five kinds of input stream of c02MakeStream (make-string-input-stream, with-input-from-string,
// an input stream over a bytes.Reader, over a plain io.Reader that hands out the pieces of a cut plan
// with short reads / EOF together with the last piece / empty reads, a file stream) must be the
// sequence of objects of the whole text: the same objects in the same order, and an error whenever the
// whole text is an error (with nothing delivered before it that the text does not denote).
//
// References: stream entries — slip.ReadString of the text (itself tied to the model by family (a)) and
// the model's objects-before-error; read loops — the model's cursor semantics (`read hist` with R…R:
// the objects one by one, then eof or failed); load — the same wrapped text through slip.Read + Eval
// in this process.

import (
	"fmt"
	"os"
	"path/filepath"
	"strings"

	"github.com/ohler55/slip"
	"github.com/ohler55/slip/pkg/gi"
	"verif/harness/lib"
)

const (
	c02LReadEach   = "lisp:read-each"
	c02LReadPush   = "lisp:read-push"
	c02LReadLoop   = "lisp:read-loop"           // (read s nil eof-value) until the eof value
	c02LReadLoopE  = "lisp:read-loop/eof-error" // (read s) until a condition
	c02LReadEofp   = "lisp:read(nil,eof-value)" // the listed cells: a text that stops inside a form
	c02LLoad       = "lisp:load"
	c02LLoadTrunc  = "lisp:load-truncated"
	c02LRequire    = "lisp:require"
	c02LRef        = "Read+Eval"
	c02KindFile    = "file"
	c02KindCut     = "input-stream/cut-reader"
	c02LoadFirst   = "(c02-rec 'c02-first)\n"
	c02LoadMidHead = "(c02-rec '("
	c02LoadMidTail = "\n))"
	c02LoadLast    = "\n(c02-rec 'c02-last)"
)

var c02LispEntries = []string{c02LReadEach, c02LReadPush, c02LReadLoop, c02LReadLoopE, c02LLoad, c02LLoadTrunc, c02LRequire}

// the text of the file that is loaded: load evaluates what it reads, so the forms of the text are
// data — the elements of one quoted list — between two marker forms; c02-rec records its argument.
// (No alphabetic-only names: `setq` or `quote` are numbers under *read-base* 36.)
func c02LoadText(text []byte) []byte {
	return []byte(c02LoadFirst + c02LoadMidHead + string(text) + c02LoadMidTail + c02LoadLast)
}

var c02LispForms map[string]slip.Object

func c02LispForm(name string) slip.Object {
	if c02LispForms == nil {
		// the recorder of the load family: process-global, defined once, under names no text contains
		sc := slip.NewScope()
		_ = sc.Eval(c02Form("(defvar c02-got nil)"), 0)
		_ = sc.Eval(c02Form("(defun c02-rec (c02-x) (setq c02-got (cons c02-x c02-got)))"), 0)
		c02LispForms = map[string]slip.Object{
			c02LReadEach: c02Form("(read-each c02-in (lambda (c02-x) (setq c02-acc (cons c02-x c02-acc))))"),
			c02LReadPush: c02Form("(read-push c02-in c02-ch)"),
			c02LReadLoop: c02Form(`(do ((c02-n 0 (+ c02-n 1))
                                         (c02-x (read c02-in nil 'c02-eof) (read c02-in nil 'c02-eof)))
                                        ((or (eq c02-x 'c02-eof) (> c02-n c02-limit)) (> c02-n c02-limit))
                                      (setq c02-acc (cons c02-x c02-acc)))`),
			c02LReadLoopE: c02Form(`(do ((c02-n 0 (+ c02-n 1)))
                                         ((> c02-n c02-limit) t)
                                       (setq c02-acc (cons (read c02-in) c02-acc)))`),
			"channel": c02Form("(make-channel 4)"),
			"load":    c02Form("(load c02-src)"),
			"require": c02Form("(require c02-name c02-dir)"),
			"reset":   c02Form("(setq c02-got nil)"),
			"got":     c02Form("c02-got"),
		}
	}
	return c02LispForms[name]
}

// c02ListItems renders the elements of an accumulated (consed, newest first) list in reading order.
func c02ListItems(o slip.Object) []string {
	list, _ := o.(slip.List)
	out := make([]string, len(list))
	for i, x := range list {
		out[len(list)-1-i] = c02Render(x)
	}
	return out
}

// c02LispRun performs one call. Outcome classes: ok; parse; partial:<depth> (when the condition
// still tells). For the eof-error loop "ok" means that the loop was ended by the end-of-file condition.
func c02LispRun(entry, kind string, text []byte, plan c02Plan, cfg c02Cfg, dir string) (out c02Out) {
	c02Enter(&c02Job{Kind: "lisp", Entry: entry, StreamKind: kind, text: text, Plan: plan, Base: cfg.Base, Sym: cfg.Sym})
	scope := cfg.scope()
	out.Pos = -1
	collect := func() {}
	defer func() {
		if rec := recover(); rec != nil {
			out.Ok = false
			switch tr := rec.(type) {
			case *slip.PartialPanic:
				out.Class, out.Msg = fmt.Sprintf("partial:%d", tr.Depth), tr.Message
			case *slip.Panic:
				out.Class, out.Msg = "parse", tr.Message
				if class := strings.ToLower(string(tr.Hierarchy()[0])); class == "end-of-file" {
					out.Class = "eof"
					if entry == c02LReadLoopE {
						out.Ok, out.Class = true, ""
					}
				}
			default:
				out.Class, out.Msg = "parse", fmt.Sprint(rec)
			}
		}
		collect()
	}()
	switch entry {
	case c02LReadEach, c02LReadLoop, c02LReadLoopE, c02LReadEofp:
		stream, done := c02MakeStream(kind, text, plan, dir)
		defer done()
		scope.Let(slip.Symbol("c02-in"), stream)
		scope.Let(slip.Symbol("c02-acc"), nil)
		scope.Let(slip.Symbol("c02-limit"), slip.Fixnum(len(text)+2))
		collect = func() { out.Objs = c02ListItems(scope.Get(slip.Symbol("c02-acc"))) }
		form := entry
		if entry == c02LReadEofp {
			form = c02LReadLoop
		}
		v := scope.Eval(c02LispForm(form), 0)
		out.Ok = true
		if entry != c02LReadEach && v != nil {
			// the guard of the loop: more objects than the text has bytes
			out.Ok, out.Class = false, "no-end"
		}
	case c02LReadPush:
		stream, done := c02MakeStream(kind, text, plan, dir)
		defer done()
		scope.Let(slip.Symbol("c02-in"), stream)
		ch, ok := scope.Eval(c02LispForm("channel"), 0).(gi.Channel)
		if !ok {
			panic("make-channel did not return a channel")
		}
		scope.Let(slip.Symbol("c02-ch"), ch)
		// drained concurrently: a reader that pushes too much must not be able to block the harness
		got := make(chan []string)
		go func() {
			var objs []string
			for o := range ch {
				if len(objs) <= 4*len(text)+8 {
					objs = append(objs, c02Render(o))
				}
			}
			got <- objs
		}()
		collect = func() {
			close(ch)
			out.Objs = <-got
		}
		_ = scope.Eval(c02LispForm(entry), 0)
		out.Ok = true
	case c02LLoad, c02LLoadTrunc, c02LRequire, c02LRef:
		w := c02LoadText(text)
		if entry == c02LLoadTrunc && len(plan.Cuts) > 0 && plan.Cuts[0] <= len(w) {
			w = w[:plan.Cuts[0]]
		}
		_ = scope.Eval(c02LispForm("reset"), 0)
		collect = func() { out.Objs = c02ListItems(slip.NewScope().Eval(c02LispForm("got"), 0)) }
		switch {
		case entry == c02LRef:
			code := slip.Read(w, scope)
			code.Compile()
			code.Eval(scope, nil)
		case entry == c02LRequire:
			name := fmt.Sprintf("c02-req-%d-%d", os.Getpid(), c02FileSeq.Add(1))
			path := filepath.Join(dir, name+".lisp")
			c02WriteFile(path, w)
			defer os.Remove(path)
			scope.Let(slip.Symbol("c02-name"), slip.String(name))
			scope.Let(slip.Symbol("c02-dir"), slip.String(dir))
			_ = scope.Eval(c02LispForm("require"), 0)
		case kind == c02KindFile:
			path := filepath.Join(dir, fmt.Sprintf("c02-load-%d-%d.lisp", os.Getpid(), c02FileSeq.Add(1)))
			c02WriteFile(path, w)
			defer os.Remove(path)
			scope.Let(slip.Symbol("c02-src"), slip.String(path))
			_ = scope.Eval(c02LispForm("load"), 0)
		default:
			stream, done := c02MakeStream(kind, w, plan, dir)
			defer done()
			scope.Let(slip.Symbol("c02-src"), stream)
			_ = scope.Eval(c02LispForm("load"), 0)
		}
		out.Ok = true
	default:
		panic("c02LispRun: unknown entry " + entry)
	}
	return
}

func c02WriteFile(path string, data []byte) {
	if err := os.WriteFile(path, data, 0o644); err != nil {
		fmt.Fprintln(os.Stderr, "C02 harness: cannot write", path, err)
		os.Exit(2)
	}
}

// c02LoopWant turns the model's `read hist … RRR…` reply into the expected outcome of a read loop:
// the objects read one by one and how the loop ends.
func c02LoopWant(reply string) (want c02Out, known bool) {
	w := c02Expected(reply)
	want.Pos = -1
	for _, it := range w.Objs {
		switch {
		case strings.HasPrefix(it, "read:"):
			want.Objs = append(want.Objs, it[5:])
		case it == "eof":
			want.Ok = true
			return want, true
		case it == "failed:unsupported":
			return want, false
		case strings.HasPrefix(it, "failed:"):
			want.Class = it[7:]
			return want, true
		default:
			return want, false
		}
	}
	return want, false
}

func c02LoopReq(cs *c02Case) string {
	return fmt.Sprintf("read hist %d %s %s %s", cs.Cfg.Base, cs.Cfg.Fmt, c02Hex(cs.T.Text), strings.Repeat("R", len(cs.all.Objs)+6))
}

// c02NilNorm: to the evaluator () and nil are one value (a variable bound to the empty list object the
// reader makes for "()" holds nil), so this family does not tell them apart; family (a) does.
func c02NilNorm(objs []string) []string {
	out := make([]string, len(objs))
	for i, o := range objs {
		out[i] = strings.ReplaceAll(o, "(l)", "nil")
	}
	return out
}

// c02LispText is what is known about one text when its lisp level cases are compared.
type c02LispText struct {
	cs        *c02Case
	whole     c02Out // slip.ReadString
	loop      c02Out // the model: objects one by one, then eof / failed
	loopKnown bool
	ref       c02Out // Read+Eval of the load text in this process
	refDone   bool
	before    []string // the model's objects in front of the error
}

func (lt *c02LispText) prepare() {
	lt.whole = c02Run(c02EReadString, lt.cs.T.Text, c02Plan{}, lt.cs.Cfg)
	lt.whole.Objs = c02NilNorm(lt.whole.Objs)
	lt.loop.Objs = c02NilNorm(lt.loop.Objs)
	lt.before = c02NilNorm(lt.cs.all.Objs)
}

func (lt *c02LispText) reference(dir string) {
	if !lt.refDone {
		lt.ref, lt.refDone = c02LispRun(c02LRef, "", lt.cs.T.Text, c02Plan{}, lt.cs.Cfg, dir), true
		lt.ref.Objs = c02NilNorm(lt.ref.Objs)
	}
}

func c02LispRunNorm(entry, kind string, text []byte, plan c02Plan, cfg c02Cfg, dir string) c02Out {
	out := c02LispRun(entry, kind, text, plan, cfg, dir)
	out.Objs = c02NilNorm(out.Objs)
	return out
}

func (r *c02Runner) lispFail(lt *c02LispText, entry, kind, aspect string, plan c02Plan, got c02Out, want, from string) {
	cutAt := -1
	if len(plan.Cuts) > 0 && kind == c02KindCut && plan.Cuts[0] < len(lt.cs.T.Text) {
		cutAt = plan.Cuts[0]
	}
	e := entry + "(" + kind + ")"
	if entry == c02LReadEofp {
		e, cutAt = entry, -1 // the listed cells: the kind of stream and the cut play no part
	}
	if entry == c02LLoad || entry == c02LLoadTrunc || entry == c02LRequire {
		cutAt = -1 // the cuts are positions in the load text, not in the text
	}
	r.fail(c02Fail{entry: e, cell: lt.cs.T.Name, aspect: aspect, text: lt.cs.T.Text, cfg: lt.cs.Cfg, plan: plan, cutAt: cutAt,
		observed: got.String(), expected: want, from: from, sweep: lt.cs.sweep, prefixLen: -1, stream: kind})
}

// lispCheck runs one (entry, kind of stream, cut plan) on one text and compares.
func (r *c02Runner) lispCheck(lt *c02LispText, entry, kind string, plan c02Plan) {
	c := r.c
	cs := lt.cs
	text := cs.T.Text
	inner := false
	if kind == c02KindCut {
		for _, k := range plan.Cuts {
			if k < len(cs.T.Inner) && cs.T.Inner[k] {
				inner = true
			}
		}
	}
	c.Ev.Case(fmt.Sprintf("f|%s|%s|%s|%s|%v|%v", cs.Cfg.String(), entry, kind, text, plan.Cuts, plan.EofWith), cs.T.Toks >= 2 && (kind != c02KindCut || inner))
	c.Ev.Hist("lisp_entry", entry)
	c.Ev.Hist("lisp_stream_kind", kind)
	r.lispCalls++
	modelKnown := cs.all.Class != "unsupported"
	switch entry {
	case c02LReadEach, c02LReadPush:
		got := c02LispRunNorm(entry, kind, text, plan, cs.Cfg, c.OutDir)
		switch {
		case lt.whole.Ok:
			if !got.Ok {
				r.lispFail(lt, entry, kind, "outcome", plan, got, lt.whole.String(), "impl:ReadString")
			} else if !c02SameObjs(got.Objs, lt.whole.Objs) {
				r.lispFail(lt, entry, kind, "objects", plan, got, lt.whole.String(), "impl:ReadString")
			}
		default:
			if got.Ok {
				r.lispFail(lt, entry, kind, "outcome", plan, got, lt.whole.String(), "impl:ReadString")
			} else if modelKnown && !c02IsPrefix(got.Objs, lt.before) {
				r.lispFail(lt, entry, kind, "delivered", plan, got, "a prefix of "+strings.Join(lt.before, " "), "model:read.all")
			}
		}
	case c02LReadLoop, c02LReadLoopE, c02LReadEofp:
		want, from := lt.loop, "model:read.hist"
		if !lt.loopKnown {
			if !lt.whole.Ok {
				return
			}
			want, from = lt.whole, "impl:ReadString"
		}
		got := c02LispRunNorm(entry, kind, text, plan, cs.Cfg, c.OutDir)
		switch {
		case want.Ok:
			if !got.Ok {
				r.lispFail(lt, entry, kind, "outcome", plan, got, want.String(), from)
			} else if !c02SameObjs(got.Objs, want.Objs) {
				r.lispFail(lt, entry, kind, "objects", plan, got, want.String(), from)
			}
		default:
			// the text is an error at some form: the forms before it one by one, then a condition —
			// never the end of the text
			if got.Ok {
				r.lispFail(lt, entry, kind, "outcome", plan, got, want.String(), from)
			} else if !c02SameObjs(got.Objs, want.Objs) {
				r.lispFail(lt, entry, kind, "delivered", plan, got, want.String(), from)
			}
		}
	case c02LLoad, c02LRequire:
		lt.reference(c.OutDir)
		got := c02LispRunNorm(entry, kind, text, plan, cs.Cfg, c.OutDir)
		if got.Ok != lt.ref.Ok {
			r.lispFail(lt, entry, kind, "outcome", plan, got, lt.ref.String(), "impl:Read+Eval")
		} else if !c02SameObjs(got.Objs, lt.ref.Objs) {
			r.lispFail(lt, entry, kind, "objects", plan, got, lt.ref.String(), "impl:Read+Eval")
		}
	case c02LLoadTrunc:
		// the file stops inside the form that holds the text: load must signal, and must not have
		// evaluated anything but the forms in front of it
		lt.reference(c.OutDir)
		if !lt.ref.Ok || len(lt.ref.Objs) != 3 {
			return
		}
		got := c02LispRunNorm(entry, kind, text, plan, cs.Cfg, c.OutDir)
		if got.Ok {
			r.lispFail(lt, entry, kind, "truncation", plan, got, "an error: the file stops inside a form", "generator")
		} else if !c02IsPrefix(got.Objs, lt.ref.Objs[:1]) {
			r.lispFail(lt, entry, kind, "delivered", plan, got, "nothing but "+lt.ref.Objs[0], "impl:Read+Eval")
		}
	}
}

// c02LispPlansFor: the deliveries of one text through one kind of stream.
func c02LispPlansFor(kind string, cutPlans []c02Plan) []c02Plan {
	if kind == c02KindCut {
		return cutPlans
	}
	return []c02Plan{{}}
}

// lispText runs every entry on one text. cutPlans: the plans for the cutting reader; truncs: where
// the loaded file is cut.
func (r *c02Runner) lispText(lt *c02LispText, cutPlans []c02Plan, truncs []int, withRequire bool) {
	loopEntry := c02LReadLoop
	if r.eofValueListed && ((lt.loopKnown && !lt.loop.Ok && strings.HasPrefix(lt.loop.Class, "partial")) ||
		(!lt.loopKnown && !lt.whole.Ok)) {
		// listed: with eof-error-p nil a text that stops inside a form gives the eof value. Such texts
		// are read with (read s) and the loop ends with a condition.
		loopEntry = c02LReadLoopE
	}
	for _, k := range c02StreamKinds {
		for _, p := range c02LispPlansFor(k.name, cutPlans) {
			r.lispCheck(lt, c02LReadEach, k.name, p)
			r.lispCheck(lt, c02LReadPush, k.name, p)
			r.lispCheck(lt, loopEntry, k.name, p)
			if lt.whole.Ok {
				r.lispCheck(lt, c02LLoad, k.name, p)
			}
		}
	}
	if lt.whole.Ok {
		r.lispCheck(lt, c02LLoad, c02KindFile, c02Plan{})
		if withRequire {
			r.lispCheck(lt, c02LRequire, c02KindFile, c02Plan{})
		}
		for _, k := range truncs {
			r.lispCheck(lt, c02LLoadTrunc, c02KindFile, c02Plan{Cuts: []int{k}})
		}
	}
}

// the open region of the load text: a file cut at k in [lo, hi] stops inside the middle form
func c02LoadOpenRegion(text []byte) (lo, hi int) {
	lo = len(c02LoadFirst) + 1
	hi = len(c02LoadFirst) + len(c02LoadMidHead) + len(text) + len(c02LoadMidTail) - 1
	return
}

// the cells of the listed finding (pkg/cl/read.go wrapRead; pinned by TestReadEOFValue)
var c02EofpCells = []struct{ name, text string }{
	{"eofp-open-list", "a (b"},
	{"eofp-open-string", "a \"bc"},
}

// c02LispFamily: the sweep texts (seed independent: every single cut, every chunk size) and a share
// of the random composite texts.
func c02LispFamily(c *lib.Ctx, r *c02Runner, sweep, random []*c02Case) {
	r.eofValueListed = c.Findings.Listed("C02", "entry="+c02LReadEofp)
	if m, _ := c.Ev.Coverage["avoided_listed_constructs"].(map[string]bool); m != nil {
		m["(read s nil eof-value) on a text that stops inside a form (read loops of composite texts use (read s))"] = r.eofValueListed
	}
	var texts []*c02LispText
	nSweep := 0
	for _, cs := range sweep {
		texts = append(texts, &c02LispText{cs: cs})
		nSweep++
	}
	for _, cs := range random {
		if cs.huge || len(cs.T.Text) > 400 || !c.Rng.Chance(c.Scale(35, 60)) {
			continue
		}
		texts = append(texts, &c02LispText{cs: cs})
	}
	// the listed cells, under the default configuration
	def := c02MakeCfg(10, "double-float")
	var eofp []*c02LispText
	for _, cell := range c02EofpCells {
		t := &c02Text{Name: cell.name, Text: []byte(cell.text), Kinds: []string{cell.name}, Toks: 2, Open: make([]bool, len(cell.text)+1), Inner: make([]bool, len(cell.text)+1)}
		eofp = append(eofp, &c02LispText{cs: &c02Case{T: t, Cfg: def, sweep: true}})
	}
	var reqs []string
	for _, lt := range texts {
		reqs = append(reqs, c02LoopReq(lt.cs))
	}
	for _, lt := range eofp {
		reqs = append(reqs, c02Req("all", def, lt.cs.T.Text), fmt.Sprintf("read hist %d %s %s RRRRRR", def.Base, def.Fmt, c02Hex(lt.cs.T.Text)))
	}
	c02Leave()
	replies := c.Model(reqs)
	for i, lt := range texts {
		lt.loop, lt.loopKnown = c02LoopWant(replies[i])
		if !lt.loopKnown {
			c.Ev.Count("lisp_loop_model_unknown", 1)
		}
	}
	for i, lt := range eofp {
		lt.cs.all = c02Expected(replies[len(texts)+2*i])
		lt.loop, lt.loopKnown = c02LoopWant(replies[len(texts)+2*i+1])
	}
	for i, lt := range texts {
		cs := lt.cs
		text := cs.T.Text
		c02CurCell.Store(&cs.T.Name)
		lt.prepare()
		n := len(text)
		lo, hi := c02LoadOpenRegion(text)
		var plans []c02Plan
		var truncs []int
		if i < nSweep {
			// seed independent
			rng := lib.NewRng(uint64(0xC02F + i))
			plans = c02Plans(rng, n, false, 2)
			for k := lo; k <= hi; k++ {
				truncs = append(truncs, k)
			}
		} else {
			plans = []c02Plan{{}, {EofWith: true}, {Cuts: c02EveryN(n, 1), EofWith: c.Rng.Bool()}, {Cuts: c02EveryN(n, 2+c.Rng.Intn(6)), Zero: c.Rng.Chance(30)}}
			for j := 0; j < c.Scale(2, 4) && n > 2; j++ {
				var cuts []int
				p := 1 + c.Rng.Intn(5)
				for k := 1; k < n; k++ {
					if c.Rng.Intn(10) < p {
						cuts = append(cuts, k)
					}
				}
				plans = append(plans, c02Plan{Cuts: cuts, EofWith: c.Rng.Bool(), Zero: c.Rng.Chance(15)})
			}
			for j := 0; j < 3; j++ {
				truncs = append(truncs, lo+c.Rng.Intn(hi-lo+1))
			}
		}
		r.lispText(lt, plans, truncs, i%4 == 0)
	}
	// the listed cells: every kind of stream, every single cut
	for _, lt := range eofp {
		c02CurCell.Store(&lt.cs.T.Name)
		lt.prepare()
		for _, k := range c02StreamKinds {
			plans := []c02Plan{{}}
			if k.name == c02KindCut {
				plans = nil
				for cut := 1; cut < len(lt.cs.T.Text); cut++ {
					plans = append(plans, c02Plan{Cuts: []int{cut}, EofWith: cut%2 == 0})
				}
			}
			for _, p := range plans {
				r.lispCheck(lt, c02LReadEofp, k.name, p)
				r.lispCheck(lt, c02LReadLoopE, k.name, p)
			}
		}
	}
	c.Ev.Coverage["lisp_texts"] = len(texts)
	c.Ev.Coverage["lisp_sweep_texts"] = nSweep
	c.Ev.Coverage["lisp_calls"] = r.lispCalls
}

// c02LispReplay re-runs one recorded case of family (f).
func c02LispReplay(c *lib.Ctx, r *c02Runner, entry, cell string, text []byte, plan c02Plan, cfg c02Cfg, all c02Out, kind string) {
	base := entry
	if i := strings.Index(entry, "("+kind+")"); kind != "" && i > 0 {
		base = entry[:i]
	}
	r.eofValueListed = c.Findings.Listed("C02", "entry="+c02LReadEofp)
	t := &c02Text{Name: cell, Text: text, Open: make([]bool, len(text)+1), Inner: make([]bool, len(text)+1), Toks: 2}
	lt := &c02LispText{cs: &c02Case{T: t, Cfg: cfg, all: all}}
	lt.loop, lt.loopKnown = c02LoopWant(c.Model([]string{c02LoopReq(lt.cs)})[0])
	lt.prepare()
	fmt.Printf("  lisp entry          : %s on %s\n", base, kind)
	if lt.loopKnown {
		fmt.Printf("  model read loop     : %s\n", lt.loop)
	}
	r.lispCheck(lt, base, kind, plan)
	if lt.refDone {
		fmt.Printf("  Read+Eval (impl)    : %s\n", lt.ref)
	}
}
