package main

// C04 part (ii): every built-in × argc 0..documented max+2 with benign arguments: an argument
// count condition iff argc lies outside the range the function's own documented lambda list
// (run-time FuncDoc.Args) allows. The documented range is computed by the Lean model
// (`ll doc`, SlipVerif.Lambda.docLL / arity / arityNoDup). The calls run in a worker process
// (os.Args[0] re-executed with C04_WORKER set) so that a hanging or crashing built-in only costs
// its own cell.

import (
	"bufio"
	"fmt"
	"os"
	"os/exec"
	"path/filepath"
	"regexp"
	"sort"
	"strconv"
	"strings"
	"time"

	"github.com/ohler55/slip"
	"verif/harness/lib"
)

// c04Deny: built-ins never called by the sweep (side effects dangerous to the harness).
var c04Deny = map[string]string{
	"exit": "terminates the process", "quit": "terminates the process", "bye": "terminates the process",
	"sleep": "sleeps", "run-program": "starts processes", "shell": "starts processes",
	"load": "loads files", "require": "loads files", "compile-file": "reads/writes files",
	"delete-file": "file deletion", "rename-file": "file rename", "delete-directory": "file deletion",
	"ensure-directories-exist": "creates directories", "make-app": "writes an application tree",
	"make-socket": "sockets", "socket-bind": "sockets", "socket-connect": "sockets", "socket-accept": "sockets",
	"socket-listen": "sockets", "socket-send": "sockets", "socket-receive": "sockets", "socket-pair": "sockets",
	"socket-select": "sockets", "make-socket-pair": "sockets",
	"start-server": "network server", "stop-server": "network server", "restart-server": "network server",
	"signal-wait": "blocks on signals", "signal-send": "sends signals", "kill": "sends signals",
	"repl": "interactive loop", "edit": "starts an editor", "break": "enters the debugger", "invoke-debugger": "enters the debugger",
	"snapshot": "writes files", "save-lisp-and-die": "terminates the process", "open": "opens files",
	"watch-server": "network server", "watch-client": "network client", "trace": "global tracing", "untrace": "global tracing",
	"in-package": "changes *package*", "delete-package": "removes packages", "unuse-package": "changes packages",
	"loop": "(loop nil) never terminates",
}

type c04Builtin struct {
	pkg, name string
	fi        *slip.FuncInfo
	doc       []string
	min       int
	max       int // -1 unbounded (language rule)
	nodup     int // -1 unbounded (bound without duplicate keys)
	badDoc    bool
	keys      []string
	npos      int
	types     []string // documented Type of the positional parameters
	hasRest   bool
	aok       bool
}

func (b c04Builtin) key() string { return b.name }

func c04DocNames(fi *slip.FuncInfo) []string {
	var names []string
	if fi.Doc != nil {
		for _, a := range fi.Doc.Args {
			names = append(names, strings.ToLower(a.Name))
		}
	}
	return names
}

// c04Enumerate lists the functions of every package at run time (home package only), sorted.
func c04Enumerate() []c04Builtin {
	var out []c04Builtin
	seen := map[*slip.FuncInfo]bool{}
	for _, p := range slip.AllPackages() {
		var fis []*slip.FuncInfo
		p.EachFuncInfo(func(fi *slip.FuncInfo) { fis = append(fis, fi) })
		for _, fi := range fis {
			if fi.Pkg != p || seen[fi] || fi.Doc == nil || fi.Create == nil || fi.Kind == slip.LambdaSymbol || strings.HasPrefix(strings.ToLower(fi.Name), "c04") {
				continue // (functions defined by part (i) of this harness are not built-ins)
			}
			seen[fi] = true
			out = append(out, c04Builtin{pkg: strings.ToLower(p.Name), name: strings.ToLower(fi.Name), fi: fi, doc: c04DocNames(fi)})
		}
	}
	sort.Slice(out, func(i, j int) bool {
		if out[i].pkg != out[j].pkg {
			return out[i].pkg < out[j].pkg
		}
		return out[i].name < out[j].name
	})
	return out
}

func c04DocRequest(doc []string) string {
	if len(doc) == 0 {
		return "ll doc -"
	}
	h := make([]string, len(doc))
	for i, d := range doc {
		h[i] = lib.Hex(d)
	}
	return "ll doc " + strings.Join(h, ",")
}

func c04ParseMax(s string) int {
	if s == "inf" {
		return -1
	}
	n, _ := strconv.Atoi(s)
	return n
}

// c04FillRanges asks the model for the documented ranges.
func c04FillRanges(c *lib.Ctx, bs []c04Builtin) {
	reqs := make([]string, len(bs))
	for i, b := range bs {
		reqs[i] = c04DocRequest(b.doc)
	}
	rep := c.Model(reqs)
	for i := range bs {
		w := strings.Fields(rep[i])
		if len(w) != 4 || w[0] != "ok" {
			bs[i].badDoc = true
			continue
		}
		bs[i].min, _ = strconv.Atoi(w[1])
		bs[i].max = c04ParseMax(w[2])
		bs[i].nodup = c04ParseMax(w[3])
		bs[i].fillShape()
	}
}

// fillShape: positional count, documented types and key names (for benign argument vectors)
func (b *c04Builtin) fillShape() {
	b.npos, b.types, b.keys, b.hasRest = 0, nil, nil, false
	mode := "pos"
	for _, d := range b.doc {
		switch d {
		case "&optional":
		case "&rest", "&body":
			mode = "rest"
			b.hasRest = true
		case "&key":
			mode = "key"
		case "&allow-other-keys":
			b.aok = true
		case "&aux":
			mode = "aux"
		default:
			switch mode {
			case "pos":
				b.npos++
				b.types = append(b.types, c04DocType(b.fi, d))
			case "key":
				b.keys = append(b.keys, strings.TrimPrefix(d, ":"))
			case "rest":
				mode = "afterrest"
			}
		}
	}
}

// argcs: 0..max+2 where max is the documented bound (without duplicate keys); unbounded lists are
// probed at +4, +8, +16, +24 beyond their positional/key part as well.
func (b c04Builtin) argcs() []int {
	top := b.nodup
	unbounded := top < 0
	if unbounded {
		top = b.npos + 2*len(b.keys)
	}
	var out []int
	for n := 0; n <= top+2; n++ {
		out = append(out, n)
	}
	if unbounded {
		for _, d := range []int{4, 8, 16, 24} {
			out = append(out, top+d)
		}
	}
	return out
}

// c04ProbeName names a class, a function and a variable defined by the harness itself: the symbol
// a built-in documented to take a symbol / class / function designator is probed with.
const c04ProbeName = "c04-probe"

func c04DefineProbes() {
	sc := slip.NewScope()
	for _, src := range []string{"(defclass " + c04ProbeName + " () ())", "(defun " + c04ProbeName + " (&rest r) nil)", "(defvar " + c04ProbeName + " nil)"} {
		_ = lib.EvalString(sc, src)
	}
}

func c04DocType(fi *slip.FuncInfo, name string) string {
	for _, a := range fi.Doc.Args {
		if strings.ToLower(a.Name) == name {
			return strings.ToLower(a.Type)
		}
	}
	return ""
}

// c04TypedTok: a benign value of the documented type of a positional parameter.
func c04TypedTok(typ string) string {
	has := func(ws ...string) bool {
		for _, w := range ws {
			if strings.Contains(typ, w) {
				return true
			}
		}
		return false
	}
	switch {
	case has("stream"):
		return "e:stream"
	case has("hash"):
		return "e:hash"
	case has("symbol", "class", "function", "lambda", "designator", "flavor", "name"):
		return "y:" + c04ProbeName
	case has("string"):
		return "s:a"
	case has("char"):
		return "c:a"
	case has("fixnum", "integer", "number", "real", "float", "rational", "index", "byte"):
		return "i:1"
	case has("list", "sequence", "cons", "vector", "array", "tree"):
		return "l:"
	}
	return "nil"
}

// argument vectors for one cell. Variant 0 is the benign vector: nil for positional parameters,
// `:key nil` for each documented key in order, then nil (rest) or repeated `:key nil` pairs. A cell
// outside the documented range whose benign call ends in a condition that is not the argument
// count condition is retried with the further variants (values of the documented parameter types,
// then uniform pools) until a call either returns or raises the argument count condition: a
// built-in that checks its first argument's type before it ever looks at the count is still
// classified.
var c04Pools = []string{"nil", "typed", "y:" + c04ProbeName, "i:1", "s:a", "l:", "t"}

func (b c04Builtin) args(argc int, variant int) []string {
	pool := c04Pools[variant]
	pos := func(i int) string {
		switch pool {
		case "typed":
			if i < len(b.types) {
				return c04TypedTok(b.types[i])
			}
			return "nil"
		}
		return pool
	}
	var v []string
	for len(v) < b.npos && len(v) < argc {
		v = append(v, pos(len(v)))
	}
	ki := 0
	for len(v) < argc {
		if len(b.keys) == 0 {
			if pool == "typed" {
				v = append(v, "nil")
			} else {
				v = append(v, pool)
			}
			continue
		}
		k := b.keys[ki%len(b.keys)]
		ki++
		v = append(v, ":"+k)
		if len(v) < argc {
			v = append(v, "nil")
		}
	}
	return v
}

func c04TokLisp(t string) string {
	switch {
	case t == "nil" || t == "t" || strings.HasPrefix(t, ":"):
		return t
	case strings.HasPrefix(t, "y:"):
		return "'" + t[2:]
	case strings.HasPrefix(t, "i:"):
		return t[2:]
	case strings.HasPrefix(t, "s:"):
		return `"` + t[2:] + `"`
	case strings.HasPrefix(t, "c:"):
		return `#\` + t[2:]
	case t == "l:":
		return "'(1 2)"
	case strings.HasPrefix(t, "e:"):
		return c04ExprToks[t]
	}
	return t
}

// tokens that stand for a form evaluated at the call (fresh object per call)
var c04ExprToks = map[string]string{"e:stream": "(make-string-output-stream)", "e:hash": "(make-hash-table)"}

// c04TokForm: the (unevaluated) argument form of a token.
func c04TokForm(t string) slip.Object {
	quote := func(o slip.Object) slip.Object { return slip.List{slip.Symbol("quote"), o} }
	switch {
	case t == "nil":
		return nil
	case t == "t":
		return slip.True
	case strings.HasPrefix(t, ":"):
		return slip.Symbol(t)
	case strings.HasPrefix(t, "y:"):
		return quote(slip.Symbol(t[2:]))
	case strings.HasPrefix(t, "i:"):
		n, _ := strconv.Atoi(t[2:])
		return slip.Fixnum(n)
	case strings.HasPrefix(t, "s:"):
		return slip.String(t[2:])
	case strings.HasPrefix(t, "c:"):
		return slip.Character([]rune(t[2:])[0])
	case t == "l:":
		return quote(slip.List{slip.Fixnum(1), slip.Fixnum(2)})
	case strings.HasPrefix(t, "e:"):
		if code := slip.ReadString(c04ExprToks[t], slip.NewScope()); len(code) == 1 {
			return code[0]
		}
	}
	return nil
}

func (b c04Builtin) formOf(toks []string) string {
	w := []string{b.pkg + "::" + b.name}
	for _, t := range toks {
		w = append(w, c04TokLisp(t))
	}
	return "(" + strings.Join(w, " ") + ")"
}

func (b c04Builtin) form(argc int) string { return b.formOf(b.args(argc, 0)) }

// --- worker -----------------------------------------------------------------------------------

// c04Call evaluates one call in-process.
func c04Call(fi *slip.FuncInfo, toks []string) lib.Outcome {
	args := make(slip.List, len(toks))
	for i, t := range toks {
		args[i] = c04TokForm(t)
	}
	return lib.Protect(func() slip.Object {
		return slip.NewScope().Eval(fi.Create(args), 0)
	})
}

func c04Classified(out string) bool { return out == "ok" || out == "arity-few" || out == "arity-many" }

func c04CellOutcome(o lib.Outcome) string {
	switch {
	case o.Ok:
		return "ok"
	case c04ArityCondition(o) != "":
		return c04ArityCondition(o)
	case o.GoFault || o.Class == "go-error" || o.Class == "go-panic":
		return "go-fault"
	}
	return "cond:" + o.Class
}

// c04Worker: cells file lines "<pkg> <name> <tok>* [| <tok>*]…" (argument vector variants, tried in
// order until one is classified); results "<idx> <outcome> <variant>" on fd 3.
func c04Worker() {
	cellsPath := os.Getenv("C04_CELLS")
	start, _ := strconv.Atoi(os.Getenv("C04_START"))
	out := os.NewFile(3, "results")
	f, err := os.Open(cellsPath)
	if err != nil {
		os.Exit(3)
	}
	byKey := map[string]*slip.FuncInfo{}
	byKeyB := map[string]*c04Builtin{}
	for _, b := range c04Enumerate() {
		byKey[b.pkg+" "+b.name] = b.fi
		bb := b
		byKeyB[b.pkg+" "+b.name] = &bb
	}
	c04DefineProbes()
	sc := bufio.NewScanner(f)
	sc.Buffer(make([]byte, 1<<20), 1<<24)
	idx := -1
	for sc.Scan() {
		idx++
		if idx < start {
			continue
		}
		if strings.HasPrefix(sc.Text(), "K ") {
			w := strings.Fields(sc.Text())
			res := "missing"
			if b := byKeyB[w[1]+" "+w[2]]; b != nil {
				fmt.Fprintf(out, "%d begin\n", idx)
				b.fillShape()
				res = c04KeyTailWork(*b)
			}
			fmt.Fprintf(out, "%d %s\n", idx, strings.ReplaceAll(res, " ", "~"))
			continue
		}
		variants := strings.Split(sc.Text(), "|")
		w := strings.Fields(variants[0])
		fi := byKey[w[0]+" "+w[1]]
		res, won := "missing", 0
		if fi != nil {
			fmt.Fprintf(out, "%d begin\n", idx)
			res = c04CellOutcome(c04Call(fi, w[2:]))
			for vi := 1; vi < len(variants) && !c04Classified(res); vi++ {
				if strings.TrimSpace(variants[vi]) == "-" {
					continue
				}
				if r := c04CellOutcome(c04Call(fi, strings.Fields(variants[vi]))); c04Classified(r) {
					res, won = r, vi
				}
			}
		}
		fmt.Fprintf(out, "%d %s %d\n", idx, res, won)
	}
	fmt.Fprintf(out, "done\n")
	os.Exit(0)
}

// c04RunCells runs all cells through worker processes; a cell during which the worker dies or
// stalls is "crash" / "timeout" and the next worker starts after it.
func c04RunCells(c *lib.Ctx, lines []string) []string {
	dir := filepath.Join(c.OutDir, "sandbox")
	_ = os.RemoveAll(dir)
	_ = os.MkdirAll(dir, 0o755)
	cells := filepath.Join(c.OutDir, "cells.txt")
	_ = os.WriteFile(cells, []byte(strings.Join(lines, "\n")+"\n"), 0o644)
	res := make([]string, len(lines))
	start := 0
	// no-progress deadline of a worker: 20 s; a cell that stalls is run once more, alone at the head
	// of a fresh worker, with 120 s before it counts as a timeout — the coverage does not depend
	// on the load of the machine
	retried := map[int]bool{}
	idleRetries := 0 // a worker that stalls between two cells (start-up on a loaded machine) is started again
	for start < len(lines) {
		deadline := 20 * time.Second
		if retried[start] || idleRetries > 0 {
			deadline = 120 * time.Second
		}
		pr, pw, err := os.Pipe()
		if err != nil {
			fmt.Fprintln(os.Stderr, "pipe:", err)
			os.Exit(2)
		}
		cmd := exec.Command(os.Args[0], "C04")
		cmd.Dir = dir
		cmd.Env = append(os.Environ(), "C04_WORKER=1", "C04_CELLS="+cells, fmt.Sprintf("C04_START=%d", start), "HOME="+dir, "GOMAXPROCS=4")
		cmd.ExtraFiles = []*os.File{pw}
		if err := cmd.Start(); err != nil {
			fmt.Fprintln(os.Stderr, "worker:", err)
			os.Exit(2)
		}
		pw.Close()
		linesCh := make(chan string, 1024)
		go func() {
			sc := bufio.NewScanner(pr)
			for sc.Scan() {
				linesCh <- sc.Text()
			}
			close(linesCh)
		}()
		current := -1 // cell begun but not finished
		finished := false
		why := "crash"
	loop:
		for {
			select {
			case l, ok := <-linesCh:
				if !ok {
					break loop
				}
				if l == "done" {
					finished = true
					continue
				}
				w := strings.Fields(l)
				i, _ := strconv.Atoi(w[0])
				if w[1] == "begin" {
					current = i
				} else {
					res[i] = w[1]
					if len(w) > 2 {
						res[i] += " " + w[2]
					}
					current = -1
					start = i + 1
				}
			case <-time.After(deadline):
				why = "timeout"
				_ = cmd.Process.Kill()
				break loop
			}
		}
		_ = cmd.Process.Kill()
		_ = cmd.Wait()
		pr.Close()
		if finished {
			break
		}
		if current >= 0 && why == "timeout" && !retried[current] {
			retried[current] = true
			start = current
			continue
		}
		if current >= 0 {
			res[current] = why
			start = current + 1
			// a built-in that hangs is not probed further (its remaining cells are "skipped")
			fn := strings.Join(strings.Fields(lines[current])[:2], " ")
			for why == "timeout" && start < len(lines) && strings.Join(strings.Fields(lines[start])[:2], " ") == fn {
				res[start] = "skipped"
				start++
			}
		} else if why == "timeout" && idleRetries < 3 {
			// stalled before the next cell began (process start-up, not a cell): once more from the same
			// cell with the long deadline; no cell loses its judgement to the load of the machine
			idleRetries++
			continue
		} else if start < len(lines) {
			// died between cells: skip one to guarantee progress
			res[start] = why
			start++
		}
		idleRetries = 0
	}
	_ = os.RemoveAll(dir)
	return res
}

// --- judgement --------------------------------------------------------------------------------

type c04Verdict struct {
	rejects, accepts []int
	firstForm        string
	firstObserved    string
	firstExpected    string
}

func c04Ints(xs []int) string {
	s := make([]string, len(xs))
	for i, x := range xs {
		s[i] = strconv.Itoa(x)
	}
	return strings.Join(s, ",")
}

func (v c04Verdict) signature(b c04Builtin) string {
	sig := "builtin=" + b.name + " pkg=" + b.pkg
	if len(v.rejects) > 0 {
		sig += " rejects=" + c04Ints(v.rejects)
	}
	if len(v.accepts) > 0 {
		sig += " accepts=" + c04Ints(v.accepts)
	}
	return sig
}

func c04Builtins(c *lib.Ctx) {
	bs := c04Enumerate()
	c04FillRanges(c, bs)
	var lines []string
	type cellRef struct{ b, argc int }
	var refs []cellRef
	denied := []string{}
	for i, b := range bs {
		if why, no := c04Deny[b.name]; no {
			denied = append(denied, b.pkg+":"+b.name+" ("+why+")")
			continue
		}
		if b.badDoc {
			continue
		}
		for _, n := range b.argcs() {
			line := b.pkg + " " + b.name + " " + strings.Join(b.args(n, 0), " ")
			if n < b.min || (b.max >= 0 && n > b.max) {
				// outside the documented range: further argument pools, tried until one is classified
				seen := map[string]bool{strings.Join(b.args(n, 0), " "): true}
				for v := 1; v < len(c04Pools); v++ {
					t := strings.Join(b.args(n, v), " ")
					if n == 0 || seen[t] {
						t = "-" // placeholder keeps the variant numbering
					}
					seen[t] = true
					line += " | " + t
				}
			}
			lines = append(lines, line)
			refs = append(refs, cellRef{i, n})
		}
	}
	// part (ii-b): the key section (c04_keytail.go), one line per built-in with documented keys
	var ktIdx []int
	ktStart := len(lines)
	for i, b := range bs {
		if _, no := c04Deny[b.name]; no || b.badDoc || len(b.keys) == 0 || b.hasRest || b.aok {
			continue
		}
		lines = append(lines, c04KeyTailLine(b))
		ktIdx = append(ktIdx, i)
	}
	res := c04RunCells(c, lines)
	ktReplies := make([]string, len(ktIdx))
	for k := range ktIdx {
		ktReplies[k] = strings.ReplaceAll(res[ktStart+k], "~", " ")
	}
	res = res[:ktStart]
	defer c04KeyTailJudge(c, bs, ktIdx, ktReplies)
	verdicts := map[int]*c04Verdict{}
	get := func(i int) *c04Verdict {
		if verdicts[i] == nil {
			verdicts[i] = &c04Verdict{}
		}
		return verdicts[i]
	}
	notJudged := []string{}
	form0 := func(b c04Builtin, n int) string { return b.form(n) }
	for k, r := range refs {
		b := bs[r.b]
		out, variant := res[k], 0
		if out == "" {
			out = "not-run"
		}
		if o, v, ok := strings.Cut(out, " "); ok {
			out = o
			variant, _ = strconv.Atoi(v)
		}
		res[k] = out
		if variant > 0 {
			c.Ev.Count("builtin_cells_classified_by_another_argument_pool", 1)
		}
		inRange := r.argc >= b.min && (b.nodup < 0 || r.argc <= b.nodup)
		below := r.argc < b.min
		above := b.max >= 0 && r.argc > b.max
		boundary := r.argc+1 == b.min || r.argc == b.min || (b.nodup >= 0 && (r.argc == b.nodup || r.argc == b.nodup+1))
		c.Ev.Case("builtin "+b.pkg+":"+b.name+" "+strconv.Itoa(r.argc), boundary)
		kind := out
		if strings.HasPrefix(out, "cond:") {
			kind = "other-condition"
		}
		where := "beyond-nodup-unjudged"
		switch {
		case inRange:
			where = "in-range"
		case below:
			where = "below"
		case above:
			where = "above"
		}
		c.Ev.Hist("builtin_cell", where+" "+kind)
		if out == "timeout" || out == "crash" || out == "not-run" || out == "missing" || out == "skipped" {
			notJudged = append(notJudged, form0(b, r.argc)+" "+out)
		}
		isArity := out == "arity-few" || out == "arity-many"
		form := b.formOf(b.args(r.argc, variant))
		if k%(len(refs)/4+1) == 7 {
			c.Ev.Sample(map[string]string{"form": form, "documented": "(" + strings.Join(b.doc, " ") + ")", "range": where, "outcome": out})
		}
		switch {
		case inRange && isArity:
			v := get(r.b)
			v.rejects = append(v.rejects, r.argc)
			if v.firstForm == "" {
				v.firstForm, v.firstObserved = form, out+" condition"
				v.firstExpected = fmt.Sprintf("no argument count condition: argc %d is within the documented lambda list (%s)", r.argc, strings.Join(b.doc, " "))
			}
		case (below || above) && out == "ok":
			v := get(r.b)
			v.accepts = append(v.accepts, r.argc)
			if v.firstForm == "" {
				v.firstForm, v.firstObserved = form, "returned normally"
				v.firstExpected = fmt.Sprintf("an argument count condition: argc %d is outside the documented lambda list (%s)", r.argc, strings.Join(b.doc, " "))
			}
		case (below || above) && !isArity:
			c.Ev.Count("builtin_unclassifiable", 1)
		}
	}
	// documentation that is not a lambda list at all
	badDocs := []string{}
	for i, b := range bs {
		if b.badDoc {
			badDocs = append(badDocs, b.pkg+":"+b.name+" ("+strings.Join(b.doc, " ")+")")
			c.Report("builtin="+b.name+" pkg="+b.pkg+" doc-not-a-lambda-list", true, map[string]any{
				"part": "builtin", "sweep": true, "pkg": b.pkg, "name": b.name, "input": "(describe '" + b.name + ")",
				"observed": "documented lambda list (" + strings.Join(b.doc, " ") + ")", "expected": "a well-formed lambda list (model: docLL)",
				"expected_from": "model:ll.doc"})
		}
		_ = i
	}
	// a built-in with a cell that could not be run to completion (timeout, crash) is not judged at
	// all: a partial verdict would have another signature than the complete one
	incomplete := map[int]bool{}
	for k, r := range refs {
		switch res[k] {
		case "timeout", "crash", "skipped", "", "missing":
			incomplete[r.b] = true
		}
	}
	notJudgedFns := []string{}
	for i := range incomplete {
		notJudgedFns = append(notJudgedFns, bs[i].pkg+":"+bs[i].name)
		delete(verdicts, i)
	}
	sort.Strings(notJudgedFns)
	c.Ev.Coverage["builtin_not_judged_incomplete"] = notJudgedFns
	idxs := make([]int, 0, len(verdicts))
	for i := range verdicts {
		idxs = append(idxs, i)
	}
	sort.Ints(idxs)
	misjudged := []string{}
	for _, i := range idxs {
		b, v := bs[i], verdicts[i]
		sig := v.signature(b)
		misjudged = append(misjudged, sig)
		c.Report(sig, true, map[string]any{
			"part": "builtin", "sweep": true, "pkg": b.pkg, "name": b.name, "input": v.firstForm, "doc": b.doc,
			"rejects_in_range": v.rejects, "accepts_out_of_range": v.accepts,
			"observed": v.firstObserved, "expected": v.firstExpected, "expected_from": "model:ll.doc (docLL, arity, arityNoDup) on the run-time FuncDoc",
			"relies_on": []string{"SlipVerif.Theorems.C04.bind_ok_iff", "SlipVerif.Theorems.C04.bind_ok_nodup_le"}})
	}
	sort.Strings(denied)
	c.Ev.Coverage["builtin_count"] = len(bs)
	c.Ev.Coverage["builtin_cells"] = len(refs)
	c.Ev.Coverage["builtin_denied"] = denied
	c.Ev.Coverage["builtin_doc_not_a_lambda_list"] = badDocs
	c.Ev.Coverage["builtin_misjudged"] = len(misjudged)
	c.Ev.Coverage["builtin_cells_timeout_or_crash"] = notJudged
	c.Ev.Count("traces_validated_against_impl", len(refs))
	c04Static(c, bs, verdicts)
}

// --- the static table (Gen/Builtins.lean) -------------------------------------------------------

var c04EntryRe = regexp.MustCompile(`^\s*⟨"((?:[^"\\]|\\.)*)", \[(.*)\], (\d+), (none|some \d+)⟩`)

type c04StaticEntry struct {
	name     string
	doc      []string
	min, max int
	where    string
}

func c04ReadGen(c *lib.Ctx) (entries []c04StaticEntry, exceptions map[string]bool, err error) {
	lean := filepath.Dir(filepath.Dir(filepath.Dir(filepath.Dir(c.ModelBin))))
	b, err := os.ReadFile(filepath.Join(lean, "SlipVerif", "Gen", "Builtins.lean"))
	if err != nil {
		return nil, nil, err
	}
	exceptions = map[string]bool{}
	strRe := regexp.MustCompile(`"((?:[^"\\]|\\.)*)"`)
	for _, line := range strings.Split(string(b), "\n") {
		if strings.HasPrefix(line, "def exceptions") {
			for _, m := range strRe.FindAllStringSubmatch(line, -1) {
				s, _ := strconv.Unquote(`"` + m[1] + `"`)
				exceptions[s] = true
			}
			continue
		}
		m := c04EntryRe.FindStringSubmatch(line)
		if m == nil {
			continue
		}
		e := c04StaticEntry{}
		e.name, _ = strconv.Unquote(`"` + m[1] + `"`)
		for _, d := range strRe.FindAllStringSubmatch(m[2], -1) {
			s, _ := strconv.Unquote(`"` + d[1] + `"`)
			e.doc = append(e.doc, s)
		}
		e.min, _ = strconv.Atoi(m[3])
		e.max = -1
		if strings.HasPrefix(m[4], "some ") {
			e.max, _ = strconv.Atoi(m[4][5:])
		}
		if i := strings.Index(line, "-- "); i >= 0 {
			e.where = strings.TrimSpace(line[i+3:])
		}
		entries = append(entries, e)
	}
	return
}

// c04Static cross-checks the extracted table with the run-time documentation and re-derives the
// generated obligation entry by entry (∀ e ∈ entries, docConsistent e ∨ e.name ∈ exceptions): every
// entry whose checked bounds differ from its documented lambda list is a static sweep cell with
// signature "builtin=<name> static check=a..b documented=c..d"; when it is not a listed finding the
// obligation is broken, and the witness is the dynamic verdict of that built-in if there is one.
func c04Static(c *lib.Ctx, bs []c04Builtin, verdicts map[int]*c04Verdict) {
	entries, exceptions, err := c04ReadGen(c)
	if err != nil {
		fmt.Fprintln(os.Stderr, "cannot read Gen/Builtins.lean:", err)
		os.Exit(2)
	}
	byFn := map[string][]int{}
	for i, b := range bs {
		byFn[b.name] = append(byFn[b.name], i)
	}
	// static entry names are "<go package dir>:<function name>"
	byName := func(entry string) []int {
		_, fn, _ := strings.Cut(entry, ":")
		return byFn[fn]
	}
	// cross-check: the statically extracted documentation is the run-time documentation
	docMismatch := []string{}
	for _, e := range entries {
		found, same := false, false
		for _, i := range byName(e.name) {
			found = true
			if strings.Join(bs[i].doc, " ") == strings.ToLower(strings.Join(e.doc, " ")) {
				same = true
			}
		}
		if found && !same {
			docMismatch = append(docMismatch, e.name)
		}
	}
	c.Ev.Coverage["static_entries"] = len(entries)
	c.Ev.Coverage["static_vs_runtime_doc_mismatch"] = docMismatch
	c.Ev.Coverage["static_exceptions"] = len(exceptions)
	reqs := make([]string, len(entries))
	for i, e := range entries {
		reqs[i] = c04DocRequest(e.doc)
	}
	rep := c.Model(reqs)
	show := func(n int) string {
		if n < 0 {
			return "inf"
		}
		return strconv.Itoa(n)
	}
	culprits, unexcused := 0, 0
	for i, e := range entries {
		w := strings.Fields(rep[i])
		documented := "not-a-lambda-list"
		ok := false
		if len(w) == 4 && w[0] == "ok" {
			mn, _ := strconv.Atoi(w[1])
			ok = mn == e.min && (c04ParseMax(w[2]) == e.max || c04ParseMax(w[3]) == e.max)
			documented = w[1] + ".." + w[2]
			if w[3] != w[2] {
				documented += "|" + w[3]
			}
		}
		if ok {
			continue
		}
		culprits++
		sig := fmt.Sprintf("builtin=%s static check=%d..%s documented=%s", e.name, e.min, show(e.max), documented)
		detail := map[string]any{
			"part": "builtin-static", "sweep": true, "name": e.name, "where": e.where, "input": e.where,
			"observed": fmt.Sprintf("CheckArgCount(min=%d, max=%s) in Call", e.min, show(e.max)),
			"expected": "the bounds of the documented lambda list (" + strings.Join(e.doc, " ") + "): " + documented + " (min..max by the language rule | max without duplicate keys)",
			"expected_from": "model:ll.doc (docLL, arity, arityNoDup); obligation SlipVerif.Theorems.GenC04.builtin_arity_consistent"}
		if c.Findings.Match("C04", sig) != nil {
			c.Report(sig, true, detail)
			continue
		}
		unexcused++
		// not a listed finding: is there a dynamic witness (reported above with its call form)?
		witness := false
		for _, bi := range byName(e.name) {
			if v := verdicts[bi]; v != nil && c.Findings.Match("C04", v.signature(bs[bi])) == nil {
				witness = true
			}
		}
		if witness {
			continue
		}
		detail["signature"] = sig
		detail["note"] = "the dynamic sweep could not exhibit a misjudged call for this built-in (outcomes unclassifiable, probe set unchanged, or function on the deny-list)"
		c.ReportBroken("SlipVerif.Theorems.GenC04.builtin_arity_consistent:"+e.name, detail)
	}
	c.Ev.Coverage["static_culprits"] = culprits
	c.Ev.Coverage["static_culprits_not_listed"] = unexcused
	if c.GenBroken != "" && unexcused == 0 && len(c.Violations) == 0 {
		// the Lean obligation failed to build although every entry re-derives as consistent or listed
		c.ReportBroken(c.GenBroken, map[string]any{"part": "builtin-static", "note": "see gen-broken.txt in the run directory for the Lean error"})
	}
}

func c04ReplayBuiltin(c *lib.Ctx, rec map[string]any) {
	form, _ := rec["input"].(string)
	name, _ := rec["name"].(string)
	pkg, _ := rec["pkg"].(string)
	bs := c04Enumerate()
	c04FillRanges(c, bs)
	c04DefineProbes()
	for _, b := range bs {
		if b.name != name || b.pkg != pkg {
			continue
		}
		if b.badDoc {
			fmt.Printf("replay %s: documented lambda list (%s) is not a lambda list\n", name, strings.Join(b.doc, " "))
			c.Report("replay", false, map[string]any{})
			return
		}
		v := c04Verdict{}
		fmt.Printf("replay %s:%s documented (%s) => min %d max %d (without duplicate keys %d; -1 = unbounded)\n", pkg, name, strings.Join(b.doc, " "), b.min, b.max, b.nodup)
		for _, n := range b.argcs() {
			out, toks := c04CellOutcome(c04Call(b.fi, b.args(n, 0))), b.args(n, 0)
			if n > 0 && (n < b.min || (b.max >= 0 && n > b.max)) {
				for v := 1; v < len(c04Pools) && !c04Classified(out); v++ {
					if r := c04CellOutcome(c04Call(b.fi, b.args(n, v))); c04Classified(r) {
						out, toks = r, b.args(n, v)
					}
				}
			}
			inRange := n >= b.min && (b.nodup < 0 || n <= b.nodup)
			outside := n < b.min || (b.max >= 0 && n > b.max)
			mark := ""
			if inRange && (out == "arity-few" || out == "arity-many") {
				v.rejects = append(v.rejects, n)
				mark = "   <-- rejected although documented"
			}
			if outside && out == "ok" {
				v.accepts = append(v.accepts, n)
				mark = "   <-- accepted although not documented"
			}
			fmt.Printf("  %-60s %s%s\n", b.formOf(toks), out, mark)
		}
		if len(v.rejects)+len(v.accepts) > 0 {
			c.Report("replay", false, map[string]any{"input": form})
		}
		return
	}
	fmt.Printf("replay: built-in %s:%s not found\n", pkg, name)
}

// c04ReplayStatic re-derives one entry of the regenerated table against the model.
func c04ReplayStatic(c *lib.Ctx, rec map[string]any) {
	name, _ := rec["name"].(string)
	entries, exceptions, err := c04ReadGen(c)
	if err != nil {
		fmt.Println("cannot read Gen/Builtins.lean:", err)
		return
	}
	for _, e := range entries {
		if e.name != name {
			continue
		}
		rep := c.Model([]string{c04DocRequest(e.doc)})[0]
		w := strings.Fields(rep)
		ok := false
		if len(w) == 4 && w[0] == "ok" {
			mn, _ := strconv.Atoi(w[1])
			ok = mn == e.min && (c04ParseMax(w[2]) == e.max || c04ParseMax(w[3]) == e.max)
		}
		fmt.Printf("replay %s (%s)\n  observed: CheckArgCount literal min=%d max=%d (-1 = unbounded)\n  expected: bounds of the documented lambda list (%s): model ll.doc says %s (min, max, max without duplicate keys)\n  consistent: %v, named by a known finding: %v\n",
			e.name, e.where, e.min, e.max, strings.Join(e.doc, " "), rep, ok, exceptions[e.name])
		if !ok && !exceptions[e.name] {
			c.Report("replay", false, map[string]any{"input": e.where})
		}
		return
	}
	fmt.Printf("replay: %s is not in the regenerated table any more\n", name)
}
