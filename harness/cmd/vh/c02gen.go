package main

// C02 — text generation: a grammar-aware generator over the reader's whole token grammar that also
// knows, for every prefix of the text it builds, whether the prefix stops inside a form; and the
// seed-independent table of single-cause sweep texts.

import (
	"fmt"
	"strings"

	"verif/harness/lib"
)

type c02Text struct {
	Name  string // sweep cell name or "random"
	Text  []byte
	Clean bool   // built only from well-formed constructs: the open-prefix oracle applies
	Open  []bool // Open[k]: the prefix Text[:k] stops inside a form (len = len(Text)+1)
	Inner []bool // Inner[k]: a cut at k falls strictly inside a token/string/escape/dispatch/comment
	Kinds []string
	Toks  int
}

type c02Gen struct {
	rng     *lib.Rng
	buf     []byte
	open    []bool // per prefix length (index k = len of prefix), grown with buf
	inner   []bool
	depth   int
	pend    int
	bq      int
	kinds   []string
	toks    int
	clean   bool
	needSep bool // the last thing emitted was a bare token: a delimiter is needed before the next
	base    int
	maxD    int
}

func newC02Gen(rng *lib.Rng, base int) *c02Gen {
	return &c02Gen{rng: rng, open: []bool{false}, inner: []bool{false}, clean: true, base: base, maxD: 4}
}

// raw appends bytes; every new prefix is open when inside a list or behind a quote-like prefix.
func (g *c02Gen) raw(s string) {
	for i := 0; i < len(s); i++ {
		g.buf = append(g.buf, s[i])
		g.open = append(g.open, g.depth > 0 || g.pend > 0)
		g.inner = append(g.inner, false)
	}
}

// tok appends one lexical unit. Cuts strictly inside it are "inner"; the first openPrefix cut
// positions inside (or all of them) leave an incomplete form behind.
func (g *c02Gen) tok(s, kind string, openPrefix int, allOpen bool) {
	start := len(g.buf)
	g.raw(s)
	for i := 1; i < len(s); i++ {
		g.inner[start+i] = true
		if allOpen || i <= openPrefix {
			g.open[start+i] = true
		}
	}
	if openPrefix >= len(s) {
		g.open[start+len(s)] = true
	}
	g.kinds = append(g.kinds, kind)
	g.toks++
}

func (g *c02Gen) ws() {
	switch g.rng.Intn(12) {
	case 0:
		g.raw("\n")
	case 1:
		g.raw("\t")
	case 2:
		g.raw("  ")
	case 3:
		g.raw(" \r\n ")
	case 4:
		g.raw("\n\n")
	default:
		g.raw(" ")
	}
	g.needSep = false
}

func (g *c02Gen) sep(nextOpens bool) {
	if g.needSep && !nextOpens {
		g.ws()
		return
	}
	if g.needSep && nextOpens && g.rng.Chance(70) {
		g.ws()
		return
	}
	if !g.needSep && g.rng.Chance(75) {
		g.ws()
	}
	g.needSep = false
}

var c02SymChars = "abcdefghijklmnopqrstuvwxyzABCDEFGHIJKLMNOPQRSTUVWXYZ0123456789-+*/<>=$%^_~.:"

func (g *c02Gen) symbolName() string {
	n := 1 + g.rng.Intn(8)
	var sb strings.Builder
	first := "abcdefghijklmnopqrstuvwxyzABCDEFGHIJKLMNOPQRSTUVWXYZ*+-/<=>$%^_~"
	sb.WriteByte(first[g.rng.Intn(len(first))])
	for i := 1; i < n; i++ {
		sb.WriteByte(c02SymChars[g.rng.Intn(len(c02SymChars))])
	}
	if g.rng.Chance(8) {
		// non-ASCII token characters (U+212A and U+0130, which lower-case to ASCII letters, are left out)
		sb.WriteString([]string{"é", "λ", "日本", "😀", "Ω", "ß"}[g.rng.Intn(6)])
		if g.rng.Bool() {
			sb.WriteByte(c02SymChars[g.rng.Intn(len(c02SymChars))])
		}
	}
	s := sb.String()
	if s == "t" || s == "T" || strings.EqualFold(s, "nil") {
		return s + "x"
	}
	return s
}

func (g *c02Gen) digits(n int, base int) string {
	ds := "0123456789abcdefghijklmnopqrstuvwxyz"
	var sb strings.Builder
	for i := 0; i < n; i++ {
		c := ds[g.rng.Intn(base)]
		if g.rng.Chance(30) && c >= 'a' {
			c -= 32
		}
		sb.WriteByte(c)
	}
	return sb.String()
}

func (g *c02Gen) sign() string {
	switch g.rng.Intn(6) {
	case 0:
		return "-"
	case 1:
		return "+"
	}
	return ""
}

func (g *c02Gen) stringBody(sym bool) string {
	var sb strings.Builder
	n := g.rng.Intn(10)
	for i := 0; i < n; i++ {
		switch r := g.rng.Intn(30); {
		case r < 14:
			sb.WriteByte("abcdefghij XYZ0123(); '#,`@.:-"[g.rng.Intn(30)])
		case r < 16:
			sb.WriteString([]string{"\\n", "\\t", "\\\\", "\\\"", "\\b", "\\f", "\\r"}[g.rng.Intn(7)])
		case r < 18:
			sb.WriteString(fmt.Sprintf("\\u%04x", []int{0x41, 0xe9, 0x3bb, 0x20ac, 0xd800, 0x0}[g.rng.Intn(6)]))
		case r < 19:
			sb.WriteString(fmt.Sprintf("\\U%08x", []int{0x1f600, 0x41, 0x10ffff, 0x110000, 0xffffffff}[g.rng.Intn(5)]))
		case r < 21:
			sb.WriteString([]string{"é", "λ", "€", "😀", "日本"}[g.rng.Intn(5)])
		case r < 22:
			sb.WriteString("\n")
		case r < 23:
			sb.WriteString("\t")
		case r < 24:
			if sym {
				sb.WriteString("\"")
			} else {
				sb.WriteString("|")
			}
		case r < 25:
			sb.WriteString("#|")
		case r < 26:
			sb.WriteString(";")
		default:
			sb.WriteByte("klmnopqrstuvw"[g.rng.Intn(13)])
		}
	}
	return sb.String()
}

func (g *c02Gen) atom() {
	r := g.rng.Intn(100)
	g.sep(false)
	switch {
	case r < 16:
		g.tok(g.symbolName(), "symbol", 0, false)
		g.needSep = true
	case r < 19:
		g.tok([]string{":", "&"}[g.rng.Intn(2)]+g.symbolName(), "keyword", 0, false)
		g.needSep = true
	case r < 27:
		g.tok(g.sign()+g.digits(1+g.rng.Intn(6), 10), "integer", 0, false)
		g.needSep = true
	case r < 29:
		g.tok(g.sign()+g.digits(20+g.rng.Intn(15), 10), "bignum", 0, false)
		g.needSep = true
	case r < 31:
		g.tok(g.sign()+g.digits(1+g.rng.Intn(4), 10)+".", "integer-dot", 0, false)
		g.needSep = true
	case r < 36:
		// tokens whose meaning depends on *read-base*
		b := []int{2, 8, 10, 16, 36, g.base}[g.rng.Intn(6)]
		g.tok(g.sign()+g.digits(1+g.rng.Intn(5), b), "radix-token", 0, false)
		g.needSep = true
	case r < 40:
		den := g.digits(1+g.rng.Intn(3), 10)
		if g.rng.Chance(10) {
			den = "0"
		}
		g.tok(g.sign()+g.digits(1+g.rng.Intn(4), 10)+"/"+den, "ratio", 0, false)
		g.needSep = true
	case r < 48:
		m := g.sign() + g.digits(1+g.rng.Intn(3), 10)
		if g.rng.Chance(70) {
			m += "." + g.digits(g.rng.Intn(4), 10)
		}
		switch g.rng.Intn(4) {
		case 0:
			if !strings.Contains(m, ".") {
				m += ".5"
			}
		default:
			m += string("esfdlESFDL"[g.rng.Intn(10)]) + g.sign() + g.digits(1+g.rng.Intn(2), 10)
		}
		g.tok(m, "float", 0, false)
		g.needSep = true
	case r < 52:
		g.tok([]string{"t", "nil", "T", "NIL", "Nil", "tt", "nill", "ni"}[g.rng.Intn(8)], "t-nil", 0, false)
		g.needSep = true
	case r < 63:
		body := g.stringBody(false)
		g.tok("\""+body+"\"", "string", 0, true)
		g.needSep = false
	case r < 69:
		body := strings.ReplaceAll(g.stringBody(true), "|", "")
		g.tok("|"+body+"|", "pipe-symbol", 0, true)
		g.needSep = false
	case r < 76:
		names := []string{"a", "Z", "0", "#", "|", "~", "Space", "space", "NEWLINE", "Tab", "Backspace", "Rubout", "Page", "Return",
			"u0041", "U3bb", "u1F600", "é", "λ", "😀", "ab", "u00e9", "(", ")", ";", "\"", "'", " ", "\\", ",", "`", "(a", " x", "\n"}
		g.tok("#\\"+names[g.rng.Intn(len(names))], "character", 2, false)
		g.needSep = true
	case r < 83:
		switch g.rng.Intn(5) {
		case 0:
			g.tok("#"+string("bB"[g.rng.Intn(2)])+g.sign()+g.digits(1+g.rng.Intn(8), 2), "radix-int", 2, false)
		case 1:
			g.tok("#"+string("oO"[g.rng.Intn(2)])+g.sign()+g.digits(1+g.rng.Intn(6), 8), "radix-int", 2, false)
		case 2:
			g.tok("#"+string("xX"[g.rng.Intn(2)])+g.sign()+g.digits(1+g.rng.Intn(20), 16), "radix-int", 2, false)
		default:
			b := 2 + g.rng.Intn(35)
			p := fmt.Sprintf("#%d%s", b, string("rR"[g.rng.Intn(2)]))
			g.tok(p+g.sign()+g.digits(1+g.rng.Intn(6), b), "radix-int", len(p), false)
		}
		if g.rng.Chance(12) {
			// a ratio behind the radix prefix: #b1/11 #16r-a/f (the token just emitted gets a denominator)
			den := g.digits(1+g.rng.Intn(3), 2)
			if g.rng.Chance(15) {
				den = "0"
			}
			g.raw("/" + g.sign() + den)
			g.inner[len(g.buf)-len(den)-1] = true
		}
		g.needSep = true
	case r < 87:
		g.tok("#*"+g.digits(g.rng.Intn(12), 2), "bit-vector", 1, false)
		g.needSep = true
	case r < 89:
		g.tok([]string{"@foo", "@", "@2024-01-02", "@2024-01-02T03:04:05Z", "@1x"}[g.rng.Intn(5)], "at-token", 0, false)
		g.needSep = true
	default:
		g.tok(g.symbolName(), "symbol", 0, false)
		g.needSep = true
	}
}

func (g *c02Gen) comment() {
	if g.rng.Chance(60) {
		g.sep(false)
		g.tok("; "+strings.ReplaceAll(g.stringBody(false), "\n", " ")+"\n", "line-comment", 0, false)
		g.needSep = false
		return
	}
	g.sep(false)
	body := strings.ReplaceAll(g.stringBody(false), "|", "/")
	g.tok("#|"+body+"|#", "block-comment", 0, true)
	g.needSep = false
}

func (g *c02Gen) list(d int) {
	g.sep(true)
	g.tok("(", "list", 0, false)
	g.depth++
	g.open[len(g.buf)] = true
	g.needSep = false
	n := g.rng.Intn(5)
	for i := 0; i < n; i++ {
		if g.bq > 0 && g.rng.Chance(30) {
			g.sep(false)
			g.pend++
			if g.rng.Chance(40) {
				g.tok(",@", "comma-at", 0, true)
			} else {
				g.tok(",", "comma", 0, false)
			}
			g.pend--
			g.needSep = false
			if g.rng.Chance(70) {
				g.tok(g.symbolName(), "symbol", 0, false)
				g.needSep = true
			} else {
				g.listNoSep(d + 1)
			}
			continue
		}
		g.form(d + 1)
		if g.rng.Chance(8) {
			g.comment()
		}
	}
	if n >= 1 && g.rng.Chance(15) {
		g.ws()
		g.tok(".", "dot", 0, false)
		g.needSep = true
		g.ws()
		if g.rng.Chance(15) {
			g.tok("nil", "t-nil", 0, false)
		} else {
			g.tok(g.symbolName(), "symbol", 0, false)
		}
		g.needSep = true
	}
	if g.rng.Chance(20) {
		g.ws()
	}
	g.depth--
	g.tok(")", "close", 0, false)
	g.needSep = false
}

func (g *c02Gen) listNoSep(d int) {
	g.needSep = false
	save := g.rng
	_ = save
	// a list directly behind a prefix character: no separator
	g.tok("(", "list", 0, false)
	g.depth++
	g.open[len(g.buf)] = true
	n := g.rng.Intn(4)
	for i := 0; i < n; i++ {
		g.form(d + 1)
	}
	g.depth--
	g.tok(")", "close", 0, false)
	g.needSep = false
}

func (g *c02Gen) form(d int) {
	r := g.rng.Intn(100)
	switch {
	case d < g.maxD && r < 20:
		g.list(d)
	case d < g.maxD && r < 24:
		g.sep(false)
		g.tok("#(", "vector", 1, false)
		g.depth++
		g.open[len(g.buf)] = true
		g.needSep = false
		for i, n := 0, g.rng.Intn(4); i < n; i++ {
			g.form(d + 1)
		}
		g.depth--
		g.tok(")", "close", 0, false)
		g.needSep = false
	case d < g.maxD && r < 27:
		g.array()
	case d < g.maxD && r < 29:
		g.sep(false)
		g.tok("#"+string("cC"[g.rng.Intn(2)])+"(", "complex", 2, false)
		g.depth++
		g.open[len(g.buf)] = true
		g.needSep = false
		for i := 0; i < 2; i++ {
			g.sep(false)
			if g.rng.Chance(60) {
				g.tok(g.sign()+g.digits(1+g.rng.Intn(3), 10), "integer", 0, false)
			} else {
				g.tok(g.sign()+g.digits(1, 10)+"."+[]string{"5", "25", "0", "125"}[g.rng.Intn(4)], "float", 0, false)
			}
			g.needSep = true
		}
		g.depth--
		g.tok(")", "close", 0, false)
		g.needSep = false
	case r < 35:
		// quote-like prefixes: ' ` #'
		g.sep(false)
		which := g.rng.Intn(3)
		if which == 1 && g.bq > 0 {
			which = 0
		}
		g.pend++
		switch which {
		case 0:
			g.tok("'", "quote", 0, false)
		case 1:
			g.tok("`", "backquote", 0, false)
		default:
			g.tok("#'", "sharp-quote", 0, true)
		}
		g.pend--
		g.needSep = false
		if which == 1 {
			g.bq++
		}
		if d < g.maxD && g.rng.Chance(50) {
			g.listNoSep(d + 1)
		} else {
			g.tok(g.symbolName(), "symbol", 0, false)
			g.needSep = true
		}
		if which == 1 {
			g.bq--
		}
	default:
		g.atom()
	}
}

func (g *c02Gen) array() {
	g.sep(false)
	rank := []int{0, 1, 2, 2, 3}[g.rng.Intn(5)]
	p := fmt.Sprintf("#%d%s", rank, string("aA"[g.rng.Intn(2)]))
	g.tok(p, "array", len(p), false)
	dims := make([]int, rank)
	for i := range dims {
		dims[i] = 1 + g.rng.Intn(3)
	}
	ragged := g.rng.Chance(8)
	if ragged {
		g.clean = false
	}
	var build func(level int)
	build = func(level int) {
		g.tok("(", "list", 0, false)
		g.depth++
		g.open[len(g.buf)] = true
		g.needSep = false
		n := 1 + g.rng.Intn(3)
		if level < rank {
			n = dims[level]
		}
		if ragged && g.rng.Chance(30) {
			n++
		}
		for i := 0; i < n; i++ {
			if level+1 < rank {
				if i > 0 && g.rng.Chance(50) {
					g.ws()
				}
				build(level + 1)
			} else {
				g.sep(false)
				g.tok(g.digits(1+g.rng.Intn(2), 10), "integer", 0, false)
				g.needSep = true
			}
		}
		g.depth--
		g.tok(")", "close", 0, false)
		g.needSep = false
	}
	build(0)
}

// dirty puts one malformed or quirky piece into the text: the open-prefix oracle no longer applies.
func (g *c02Gen) dirty() {
	g.clean = false
	g.sep(false)
	pieces := []string{")", "#q", ",x", "''a", "'5", "'t", "'\"s\"", "#b102", "#\\ ", "#xfg", "abc\"x\"", "é", "\"a\\qb\"", "\x01", "#1000000A(1)", "#37r10",
		"#0r10", "a&b", "abc;c", "a'b", "#\\u00", "#\\uffffffff", "#\\u110000", "|a\\|b|", "( . a)", "(a . b c)", "(a . . b)", "#2A(1 2)", "#2A((1 2) (3))",
		"#C(1)", "#C(a b)", "#C(1 2 3)", "`,x", "`(a ,,b)", "#*012", "#3r", "#x", "1e999", "1s99", "#'5", "#'\"s\"", "[", "{", "!", "?", "\\", "#|a||#b|#", "(a #| c |#", "#2A 5", ",@a"}
	g.tok(pieces[g.rng.Intn(len(pieces))], "malformed", 0, false)
	g.needSep = true
}

func (g *c02Gen) finish(name string) *c02Text {
	return &c02Text{Name: name, Text: g.buf, Clean: g.clean, Open: g.open, Inner: g.inner, Kinds: g.kinds, Toks: g.toks}
}

// c02RandomText builds one text of 1..6 top level forms.
// c02HugeText concatenates random forms (each accepted by `accept`, i.e. readable on its own) up to
// about size bytes — more than one 64 KiB read block of the stream readers.
func c02HugeText(rng *lib.Rng, base int, size int, accept func([]byte) bool) *c02Text {
	var buf []byte
	for tries := 0; len(buf) < size && tries < 200000; tries++ {
		g := newC02Gen(rng, base)
		g.form(0)
		if !g.clean || !accept(g.buf) {
			continue
		}
		buf = append(buf, g.buf...)
		if rng.Chance(30) {
			buf = append(buf, '\n')
		} else {
			buf = append(buf, ' ')
		}
	}
	return &c02Text{Name: "huge", Text: buf, Open: make([]bool, len(buf)+1), Inner: make([]bool, len(buf)+1), Kinds: []string{"huge"}, Toks: 2}
}

func c02RandomText(rng *lib.Rng, base int, big bool) *c02Text {
	g := newC02Gen(rng, base)
	if rng.Chance(15) {
		g.ws()
	}
	n := 1 + rng.Intn(5)
	if big {
		n = 8 + rng.Intn(40)
		g.maxD = 6
	}
	dirtyAt := -1
	if rng.Chance(15) {
		dirtyAt = rng.Intn(n)
	}
	for i := 0; i < n; i++ {
		if i == dirtyAt {
			g.dirty()
			continue
		}
		g.form(0)
		if rng.Chance(12) {
			g.comment()
		}
	}
	switch rng.Intn(5) {
	case 0:
		g.ws()
	case 1:
		g.raw("\n")
	}
	return g.finish("random")
}

// c02SweepTexts is the seed-independent table of single-cause texts: one construct (or one
// boundary between two constructs) each. Every single cut position of every one of them is tried
// through every entry point.
func c02SweepTexts() []*c02Text {
	type cell struct {
		name, text string
		clean      bool
	}
	cells := []cell{
		{"symbol", "abc def ", true},
		{"symbol-eof", "hello", true},
		{"t", "t ", true},
		{"t-in-token", "abt xt ty ", true},
		{"nil", "nil NIL Nil ", true},
		{"nil-in-token", "anil nila ni l ", true},
		{"integer", "12345 -17 +8 ", true},
		{"integer-dot", "12. ", true},
		{"bignum", "123456789012345678901234567890 ", true},
		{"ratio", "3/4 -6/8 ", true},
		{"ratio-zero", "1/0 ", true},
		{"float", "1.5 -2.25e3 1d0 7s2 3f-1 9l1 ", true},
		{"keyword", ":key &rest ", true},
		{"at-token", "@foo ", true},
		{"list", "(a b c)", true},
		{"list-nested", "(a (b (c d)) e)", true},
		{"list-empty", "() ( )", true},
		{"list-adjacent", "(a)(b)", true},
		{"dotted", "(a . b)", true},
		{"dotted-nil", "(a . nil)", true},
		{"dotted-long", "(a b c . d)", true},
		{"string", "\"hello world\"", true},
		{"string-empty", "\"\" \"a\"", true},
		{"string-then-token", "\"ab\"cd ", true},
		{"string-escape", "\"a\\nb\\tc\\\\d\\\"e\"", true},
		{"string-escape-first", "\"\\nabc\"", true},
		{"string-escape-last", "\"abc\\n\"", true},
		{"string-u4", "\"x\\u00e9y\\u20acz\"", true},
		{"string-u8", "\"x\\U0001f600y\"", true},
		{"string-utf8", "\"é λ € 😀\"", true},
		{"string-newline", "\"a\nb\"", true},
		{"string-parens", "(\"(\" \")\")", true},
		{"two-strings", "\"ab\"\"cd\"", true},
		{"pipe-symbol", "|hello world|", true},
		{"pipe-escape", "|a\\nb c|", true},
		{"pipe-then-token", "|a b|cd ", true},
		{"char", "#\\a #\\Z ", true},
		{"char-name", "#\\Space #\\newline #\\TAB ", true},
		{"char-unicode", "#\\u0041 #\\U3bb ", true},
		{"char-utf8", "#\\é #\\😀 ", true},
		{"char-sharp", "#\\# #\\| ", true},
		{"char-in-list", "(#\\a)", true},
		{"char-any-first", "#\\( #\\) #\\; #\\\" #\\' #\\, ", true},
		{"char-space", "(#\\  #\\\n a)", true},
		{"char-first-then-more", "#\\(a #\\ x ", true},
		{"radix-ratio", "#b1/11 #x-a/F #o7/-1 #3r1/0 #16r1/2/3 #x/2 ", true},
		{"symbol-non-ascii", "héllo λ 日本x é1 ", true},
		{"pipe-escaped-bar", "|a\\|b\\\\c| x", true},
		{"binary", "#b1011 #B-11 ", true},
		{"octal", "#o777 ", true},
		{"hex", "#xDeadBeef #x-ff ", true},
		{"hex-big", "#xffffffffffffffffffff ", true},
		{"radix", "#3r1202 #36rZz #16r1F ", true},
		{"vector", "#(1 2 3)", true},
		{"vector-nested", "#(a #(b) \"c\")", true},
		{"array-0", "#0A()", true},
		{"array-1", "#1A(1 2 3)", true},
		{"array-2", "#2A((1 2) (3 4))", true},
		{"array-3", "#3a(((1 2)) ((3 4)))", true},
		{"complex", "#C(1 2) #c(1.5 -2)", true},
		{"bit-vector", "#*10110 #* ", true},
		{"bit-vector-eof", "#*101", true},
		{"bit-vector-in-list", "(#*01)", true},
		{"sharp-quote", "#'car #'(lambda (x) x)", true},
		{"quote", "'a '(b c)", true},
		{"quote-in-list", "(a 'b '(c))", true},
		{"backquote", "`a `(b ,c ,@d)", true},
		{"backquote-nested-list", "`(a (b ,c) ,(d e))", true},
		{"comma-at-space", "`(a , @b)", true},
		{"line-comment", "a ; comment here\nb", true},
		{"line-comment-eof", "a ; trailing", true},
		{"comment-in-list", "(a ; c\n b)", true},
		{"block-comment", "a #| block |# b", true},
		{"block-comment-bars", "#| a | b || c |# d", true},
		{"block-comment-newline", "#| a\nb |\n# c", true},
		{"whitespace", "  a \t\r\n b  ", true},
		{"read-base-token", "ff 1e5 zz 101 ", true},
		{"mixed", "(defun f (x) \"doc\" (+ x #x10 1.5)) ; end\n", true},
		// quirks and malformed texts (every reader must agree on them too)
		{"q-quote-t", "'t ", false},
		{"q-quote-number", "'5 ", false},
		{"q-quote-quote", "''a ", false},
		{"q-quote-string", "'\"s\" x", false},
		{"q-marker-in-list", "(a 't b)", false},
		{"q-char-two", "#\\ab ", false},
		{"q-pipe-dot", "(a |.| b)", false},
		{"e-unmatched", "a ) b", false},
		{"e-token-quote", "abc\"x\"", false},
		{"e-bad-sharp", "a #q b", false},
		{"e-comma", "a ,b", false},
		{"e-bad-escape", "\"a\\qb\"", false},
		{"e-bad-digit", "#b102 ", false},
		{"e-char-empty", "#\\ a", false},
		{"e-array-ragged", "#2A((1 2) (3))", false},
		{"e-complex", "#C(1) ", false},
		{"e-non-ascii", "a é b", false},
		{"e-open", "(a (b", false},
		{"e-open-string", "(a \"bc", false},
		{"e-open-pipe", "|ab", false},
		{"e-open-escape", "\"ab\\", false},
		{"e-open-rune", "\"ab\\u00", false},
		{"e-open-sharp", "a #", false},
		{"e-open-sharpnum", "a #12", false},
		{"e-open-block", "a #| bc", false},
		{"e-open-block-end", "a #| bc |", false},
		{"e-open-array", "#2A", false},
		{"e-open-quote", "a '", false},
	}
	var out []*c02Text
	for _, c := range cells {
		t := &c02Text{Name: c.name, Text: []byte(c.text), Clean: false, Kinds: []string{c.name}, Toks: 2}
		t.Open = make([]bool, len(t.Text)+1)
		t.Inner = make([]bool, len(t.Text)+1)
		for k := 1; k < len(t.Text); k++ {
			// inner: not next to whitespace
			a, b := t.Text[k-1], t.Text[k]
			t.Inner[k] = !(a == ' ' || b == ' ' || a == '\n' || b == '\n')
		}
		out = append(out, t)
	}
	return out
}
