package main

// C20, second part: the stash (Stash.LoadExpanded/Add/Clear in-process, restart after every operation,
// every hook point) and the saved settings (config.lisp) across REAL restarts: the slip binary is
// built from $VERIF_REPO and run as a subprocess with `-c <scratch dir>`; one process sets variables,
// the next one reports what it loaded.

import (
	"bytes"
	"fmt"
	"os"
	"os/exec"
	"path/filepath"
	"sort"
	"strconv"
	"strings"
	"sync"
	"time"

	"github.com/ohler55/slip/pkg/repl"
	"verif/harness/lib"
)

// ---------------------------------------------------------------------------------------------
// stash

type c20StashCase struct {
	Cell    string
	Stash0  *string
	Ops     []c20Op // A, C
	Guarded bool    // every form satisfies the model's guard stashOK: compare with the model
}

func (cs c20StashCase) request() string {
	parts := []string{"hist", "stash", c20ContentWire(cs.Stash0)}
	for _, o := range cs.Ops {
		parts = append(parts, o.wire())
	}
	return strings.Join(parts, " ")
}

func (cs c20StashCase) show() string {
	parts := []string{"stash file=" + c20ShowContent(cs.Stash0)}
	for _, o := range cs.Ops {
		parts = append(parts, "Stash."+o.show())
	}
	return strings.Join(parts, "; ")
}

type c20StashExp struct {
	Mem, Load string
	Stash     *string
	Steps     []string
	Crash     []c20CrashExp // HistFnv = stash fnv
}

func c20ParseStashReply(reply string, n int) (string, []c20StashExp, bool) {
	toks := strings.Fields(reply)
	if len(toks) >= 2 && toks[0] == "err" {
		return "", nil, false
	}
	if len(toks) != n+2 || toks[0] != "ok" {
		fmt.Fprintf(os.Stderr, "c20: unexpected model reply for a stash case: %.200s\n", reply)
		os.Exit(2)
	}
	var evs []c20StashExp
	for _, t := range toks[2:] {
		f := c20Fields(t)
		e := c20StashExp{Mem: f["mem"], Load: f["load"], Stash: c20ParseContent(f["stash"])}
		if f["steps"] != "." {
			e.Steps = strings.Split(f["steps"], ".")
		}
		prev := ""
		for _, ck := range strings.Split(f["crash"], ";") {
			p := strings.SplitN(ck, ":", 2)
			if p[1] == "=" {
				p[1] = prev
			}
			prev = p[1]
			e.Crash = append(e.Crash, c20CrashExp{HistFnv: p[0], Load: p[1]})
		}
		evs = append(evs, e)
	}
	return strings.TrimPrefix(toks[1], "mem="), evs, true
}

func c20StashForms(s *repl.Stash) []c20Form {
	n := s.Size()
	fs := make([]c20Form, 0, n)
	for i := n - 1; i >= 0; i-- {
		fs = append(fs, c20FromRepl(s.Nth(i)))
	}
	return fs
}

// c20StashFresh: a restart (a new Stash, LoadExpanded). "!" when the loader panics.
func c20StashFresh(path string) (s *repl.Stash, wire string) {
	s = &repl.Stash{}
	defer func() {
		if r := recover(); r != nil {
			wire = "!"
		}
	}()
	s.LoadExpanded(path)
	return s, c20FormsWire(c20StashForms(s))
}

func c20ShowLoad(w string) string {
	if w == "!" {
		return "<LoadExpanded panics: the stash cannot be loaded>"
	}
	return c20ShowForms(c20ParseForms(w))
}

func c20RunStashCase(c *lib.Ctx, dir string, cs c20StashCase, reply string) *c20Problem {
	path := filepath.Join(dir, "stash.lisp")
	snap := filepath.Join(dir, "snap", "stash.lisp")
	req := cs.request()
	cell := ""
	if cs.Cell != "" {
		cell = "cell=" + cs.Cell + " "
	}
	problem := func(i int, kind, step, aspect, observed, expected, from string) *c20Problem {
		at := "initial load"
		if i >= 0 {
			at = fmt.Sprintf("operation %d: Stash.%s", i+1, cs.Ops[i].show())
		}
		vs, suffix := strings.HasPrefix(from, "model:"), ""
		if vs {
			suffix = " vs=model"
		}
		return &c20Problem{vsModel: vs, at: i, sig: fmt.Sprintf("%sop=%s step=%s aspect=%s%s", cell, kind, step, aspect, suffix),
			replay: map[string]any{"input": cs.show(), "request": req, "guarded": cs.Guarded, "at": at, "observed": observed, "expected": expected,
				"expected_from": from, "relies_on": []string{"SlipVerif.History.stash_encode_decode"}}}
	}
	var exps []c20StashExp
	mem0 := ""
	if cs.Guarded {
		var ok bool
		mem0, exps, ok = c20ParseStashReply(reply, len(cs.Ops))
		if !ok {
			fmt.Fprintf(os.Stderr, "c20: the model cannot read a guarded stash case: %s\n", req)
			os.Exit(2)
		}
	}
	c20PutFile(path, cs.Stash0)
	s, w0 := c20StashFresh(path)
	if w0 == "!" {
		return problem(-1, "stash-restart", "final", "lost", c20ShowLoad(w0), "the forms of the stash file", "property")
	}
	if cs.Guarded && w0 != mem0 {
		return problem(-1, "stash-restart", "final", "torn", c20ShowLoad(w0), c20ShowLoad(mem0), "model:hist.stash")
	}
	universe := map[string]bool{}
	for _, f := range c20StashForms(s) {
		universe[f.wire()] = true
	}
	knownHit := false
	for i, op := range cs.Ops {
		kind := "stash-add"
		if op.Kind == "C" {
			kind = "stash-clear"
		} else {
			universe[op.Form.wire()] = true
		}
		before := c20StashForms(s)
		start := c20ReadFile(path)
		var snaps []c20Snap
		pmsg := ""
		func() {
			if c20HaveHooks {
				c20SetHook(func(point string) {
					snaps = append(snaps, c20Snap{Point: point, After: strings.Contains(point, ".after-"), Hist: c20ReadFile(path)})
				})
				defer c20SetHook(nil)
			}
			defer func() {
				if r := recover(); r != nil {
					pmsg = fmt.Sprint(r)
				}
			}()
			if op.Kind == "A" {
				rf := c20ToRepl(op.Form)
				s.Add(rf)
				c20Scribble(rf)
			} else {
				s.Clear(op.A, op.B)
			}
		}()
		if pmsg != "" {
			return problem(i, kind, "final", "panic", "the operation panicked: "+pmsg, "no panic", "property")
		}
		after := c20StashForms(s)
		afterW := c20FormsWire(after)
		if cs.Guarded && afterW != exps[i].Mem {
			return problem(i, kind, "memory", c20Aspect(after, c20ParseForms(exps[i].Mem), universe), "in memory "+c20ShowForms(after),
				"in memory "+c20ShowLoad(exps[i].Mem), "model:hist.stash")
		}
		// restart after the operation
		got := c20ReadFile(path)
		c20PutFile(snap, got)
		_, L := c20StashFresh(snap)
		if cs.Guarded && L != exps[i].Load {
			asp := "lost"
			if L != "!" && exps[i].Load != "!" {
				asp = c20Aspect(c20ParseForms(L), c20ParseForms(exps[i].Load), universe)
			}
			return problem(i, kind, "final", asp, "a restart loads "+c20ShowLoad(L)+" from stash file="+c20ShowContent(got), "loads "+c20ShowLoad(exps[i].Load), "model:hist.stash")
		}
		// the property itself (see the history runner): always in sweep cells; in composite sessions
		// whenever the model says that memory and file agree (forms outside the guard stashOK are
		// mirrored by the model and were just compared with it)
		if L != afterW && !knownHit && (cs.Cell != "" || !cs.Guarded || exps[i].Load == exps[i].Mem) {
			asp := "lost"
			if L != "!" {
				asp = c20Aspect(c20ParseForms(L), after, universe)
			}
			p := problem(i, kind, "final", asp, "a restart loads "+c20ShowLoad(L)+" from stash file="+c20ShowContent(got),
				"what is in memory: "+c20ShowForms(after), "property: restart loads what is in memory")
			if cs.Cell == "" || c.Findings.Match(c.Prop, p.sig) == nil || c.Replay != "" {
				return p
			}
			c20Report(c, p, true) // a listed finding: count it, go on comparing the rest of the cell with the model
			knownHit = true
		}
		if cs.Guarded && !c20Same(got, exps[i].Stash) {
			return &c20Problem{noInput: true, sig: fmt.Sprintf("fs-bytes op=%s step=final", kind), replay: map[string]any{"input": cs.show(), "request": req,
				"observed": "stash file=" + c20ShowContent(got), "expected": "stash file=" + c20ShowContent(exps[i].Stash) + " (the loaded stashes agree)"}}
		}
		// every hook point
		if c20HaveHooks {
			nAfter := 0
			for _, sn := range snaps {
				if sn.After {
					nAfter++
				}
			}
			aligned := cs.Guarded && nAfter == len(exps[i].Steps)
			if cs.Guarded && !aligned {
				return &c20Problem{noInput: true, sig: "hook-shape op=" + kind, replay: map[string]any{"input": cs.show(), "request": req,
					"observed": fmt.Sprintf("%d completed file-system steps reported by the verifFS hooks", nAfter),
					"expected": fmt.Sprintf("%d steps %v in the model", len(exps[i].Steps), exps[i].Steps)}}
			}
			k := 0
			last, loaded := start, false
			// what a restart loads from the file before and after the operation (the normalised stash
			// when forms outside the guard are in it)
			finalLoad := L
			c20PutFile(snap, start)
			_, loadStart := c20StashFresh(snap)
			for _, sn := range snaps {
				if sn.After {
					k++
				}
				if c20Same(sn.Hist, last) && loaded {
					continue
				}
				last, loaded = sn.Hist, true
				c20PutFile(snap, sn.Hist)
				_, L := c20StashFresh(snap)
				// (a stash that holds a text the reader rejects cannot be loaded at all, "!": then only the
				// comparison with the model below says anything about the states in between)
				ok := L == loadStart || L == finalLoad || (op.Kind == "C" && (finalLoad == "!" || (L != "!" && c20IsPrefix(L, finalLoad))))
				step := strconv.Itoa(k)
				if !ok {
					asp := "lost"
					if L != "!" {
						asp = c20Aspect(c20ParseForms(L), append(append([]c20Form{}, before...), after...), universe)
					}
					return problem(i, kind, step, asp,
						fmt.Sprintf("a restart after a process death at %s (stash file=%s) loads %s", sn.Point, c20ShowContent(sn.Hist), c20ShowLoad(L)),
						fmt.Sprintf("the old stash %s, the new stash %s or (Clear only) a prefix of the new one", c20ShowForms(before), c20ShowForms(after)), "property")
				}
				if aligned {
					x := exps[i].Crash[k]
					if L != x.Load {
						return problem(i, kind, step, "lost", "after "+step+" steps a restart loads "+c20ShowLoad(L), "loads "+c20ShowLoad(x.Load), "model:hist.stash crashAt "+step)
					}
					if c20Fnv(sn.Hist) != x.HistFnv {
						return &c20Problem{noInput: true, sig: fmt.Sprintf("fs-bytes op=%s step=%s", kind, step), replay: map[string]any{"input": cs.show(), "request": req,
							"observed": "stash file=" + c20ShowContent(sn.Hist), "expected": "other file contents in the model after the same number of steps (the loaded stashes agree)"}}
					}
				}
			}
		}
	}
	return nil
}

var c20StashAtoms = []string{"a", "b", "foo", "bar-baz", "x1", "+", "*", "<=", "1", "42", "-7", "t", "nil", ":key", "\"str\"", "\"é 日本 🙂\"", "\"two words\"",
	"héllo", "λ", "日本", "naïve", "\"ñ ü\""}

// c20StashDamaged: a form outside the guard stashOK of a kind the model mirrors exactly: tabs (in the
// first line, in a later line, as indentation, inside a string, at the end), an empty line inside,
// a complete first line, and (rarely) an open list or a stray closing parenthesis.
func c20StashDamaged(r *lib.Rng) c20Form {
	f := append(c20Form{}, c20StashForm(r)...)
	for len(f) < 2 && r.Chance(70) {
		f = append(c20Form{}, c20StashForm(r)...)
	}
	switch p := r.Intn(100); {
	case p < 22: // a tab somewhere in a random line (between tokens or inside a string)
		i := r.Intn(len(f))
		rs := []rune(f[i])
		k := r.Intn(len(rs) + 1)
		f[i] = string(rs[:k]) + "\t" + string(rs[k:])
	case p < 45: // tab indentation of a later line
		if len(f) > 1 {
			i := 1 + r.Intn(len(f)-1)
			f[i] = "\t" + strings.TrimLeft(f[i], " ")
		} else {
			f[0] = "\t" + f[0]
		}
	case p < 55:
		f[len(f)-1] += "\t"
	case p < 70: // an empty line inside
		i := 1
		if len(f) > 1 {
			i = 1 + r.Intn(len(f)-1)
		}
		f = append(f[:i], append(c20Form{""}, f[i:]...)...)
	case p < 85: // two complete texts on two lines
		f = c20Form{c20StashForm(r)[0], "(second " + r.Pick(c20StashAtoms) + ")"}
		if strings.Count(f[0], "(") != strings.Count(f[0], ")") {
			f[0] = "(first)"
		}
	case p < 94: // an open list
		f = c20Form{"(open " + r.Pick(c20StashAtoms)}
	default:
		f = c20Form{r.Pick(c20StashAtoms) + ")"}
	}
	return f
}

// c20StashForm: one top-level list (possibly broken over several lines inside the list, so that no
// proper prefix of its lines is a complete text) or one line of atoms.
func c20StashForm(r *lib.Rng) c20Form {
	if r.Chance(20) {
		n := 1 + r.Intn(3)
		parts := make([]string, n)
		for i := range parts {
			parts[i] = r.Pick(c20StashAtoms)
		}
		return c20Form{strings.Join(parts, " ")}
	}
	var toks []string
	var gen func(d int)
	gen = func(d int) {
		if d > 0 && (d >= 3 || r.Chance(55)) {
			toks = append(toks, r.Pick(c20StashAtoms))
			return
		}
		toks = append(toks, "(")
		for i := r.Intn(5); i > 0; i-- {
			gen(d + 1)
		}
		toks = append(toks, ")")
	}
	gen(0)
	multi := r.Chance(50)
	var lines c20Form
	cur := ""
	if r.Chance(15) {
		cur = "'"
	}
	for i, t := range toks {
		if i > 0 {
			prev := toks[i-1]
			switch {
			case multi && i < len(toks)-1 && r.Chance(25) && prev != "(":
				// break inside the outer list: the text so far is incomplete
				lines = append(lines, cur)
				cur = strings.Repeat(" ", 1+r.Intn(4))
			case prev != "(" && t != ")":
				cur += " "
			}
		}
		cur += t
	}
	lines = append(lines, cur)
	return lines
}

func c20StashSweep() []c20StashCase {
	a := func(s ...string) c20Op { return c20Op{Kind: "A", Form: c20Form(s)} }
	var cases []c20StashCase
	in := map[string]c20Form{
		"atom":                       {"foo"},
		"atoms-on-a-line":            {"foo 1 bar"},
		"list":                       {"(+ 1 2)"},
		"multi-line":                 {"(defun f (x)", "  (+ x 1))"},
		"quoted":                     {"'(a", " b)"},
		"non-ascii-in-string":        {"(print \"é 日本 🙂\")"},
		"non-ascii-symbol":           {"(λ x é)"},
		"non-ascii-later-line":       {"(setq héllo", "  \"ñ\" 日本)"},
		"blank-prefixed-later-lines": {"(a", "    b", "  　c)"},
		"trailing-blank-lines":       {"(a  ", " b) "},
		"leading-blanks":             {"  (a b)"},
		"trailing-blanks":            {"(a b)  "},
		"spaces-only":                {"   "},
		"no-lines":                   {},
	}
	names := make([]string, 0, len(in))
	for n := range in {
		names = append(names, n)
	}
	sort.Strings(names)
	for _, n := range names {
		cases = append(cases, c20StashCase{Cell: "stash/" + n, Guarded: true, Ops: []c20Op{a("(first)"), {Kind: "A", Form: in[n]}, a("(last 1)")}})
	}
	// forms outside the guard stashOK. The model mirrors what LoadExpanded does to them (modelled =
	// true): a tab is a line break, empty lines vanish, a complete first line ends the form, an open
	// list swallows what follows, a stray `)` makes the loader panic. Each construct is its own cell so
	// that a finding excuses exactly one construct; neighbouring constructs that work are in-guard
	// cells above. Every cell goes on with two more forms and is compared with the model to the end.
	out := []struct {
		name     string
		f        c20Form
		modelled bool
	}{
		{"two-complete-lines", c20Form{"(a)", "(b)"}, true},
		{"interior-empty-line", c20Form{"(a", "", " b)"}, true},
		{"tab-in-line", c20Form{"(a\tb)"}, true},
		{"tab-first-line-of-multiline", c20Form{"(a\tb", " c)"}, true},
		{"tab-indented-later-line", c20Form{"(defun foo (x)", "\t(bar x))"}, true},
		{"tab-inside-later-line", c20Form{"(a", " b\tc)"}, true},
		{"tab-in-string", c20Form{"(print \"a\tb\")"}, true},
		{"tab-in-string-later-line", c20Form{"(list 1", "  \"a\tb\" 2)"}, true},
		{"tab-trailing", c20Form{"(a b)\t"}, true},
		{"tab-leading", c20Form{"\t(a b)"}, true},
		{"incomplete", c20Form{"(a b"}, true},
		{"unbalanced-close", c20Form{"a)"}, true},
		{"open-string", c20Form{"(print \"abc"}, false},
		{"paren-in-string", c20Form{"(print \"(\")"}, false},
		{"semicolon-comment-paren", c20Form{"(a ; (", " b)"}, false},
	}
	for _, o := range out {
		cases = append(cases, c20StashCase{Cell: "stash/" + o.name, Guarded: o.modelled, Ops: []c20Op{a("(first)"), {Kind: "A", Form: o.f}, a("(last 1)"), a("(defun g ()", "  2)")}})
	}
	// Clear(start, end) grid on five forms, then add and restart
	var five []c20Op
	for i := 0; i < 5; i++ {
		five = append(five, a(fmt.Sprintf("(s%d", i), fmt.Sprintf("  %d)", i)))
	}
	for _, x := range []int{-1, 0, 1, 3, 5} {
		for _, y := range []int{-1, 0, 2, 4, 6} {
			cases = append(cases, c20StashCase{Cell: fmt.Sprintf("stash-clear/%d,%d", x, y), Guarded: true,
				Ops: append(append([]c20Op{}, five...), c20Op{Kind: "C", A: x, B: y}, a("(after)"))})
		}
	}
	// LineReader buffer boundaries (4096 bytes) in the stash file
	for _, off := range []int{4095, 4096, 4097} {
		content := "(a " + strings.Repeat("x", off-5) + ")\n\n(second \"é\"\n  2)\n\n"
		cases = append(cases, c20StashCase{Cell: fmt.Sprintf("stash-linereader/nl-at-%d", off), Guarded: true, Stash0: &content, Ops: []c20Op{a("(d)")}})
	}
	// an existing stash file in the expanded and in the tab format
	cases = append(cases, c20StashCase{Cell: "stash-init/expanded", Guarded: true, Stash0: c20Str("(a\n b)\n\n(c)\n\n"), Ops: []c20Op{a("(d)"), {Kind: "C", A: 0, B: 0}}})
	cases = append(cases, c20StashCase{Cell: "stash-init/tabbed", Guarded: true, Stash0: c20Str("(a\t b)\n(c)\n"), Ops: []c20Op{a("(d)"), {Kind: "C", A: 1, B: 1}}})
	return cases
}

func c20StashComposite(c *lib.Ctx, r *lib.Rng) c20StashCase {
	cs := c20StashCase{Guarded: true}
	pool := make([]c20Form, 3+r.Intn(6))
	for i := range pool {
		pool[i] = c20StashForm(r)
	}
	partial := !c.Findings.Listed("C20", "cell=stash-clear/")
	// two thirds of the sessions also stash forms outside the guard (mirrored by the model)
	damaged := r.Chance(66)
	var last c20Form
	for n := 3 + r.Intn(22); n > 0; n-- {
		switch p := r.Intn(100); {
		case p < 8 && last != nil:
			cs.Ops = append(cs.Ops, c20Op{Kind: "A", Form: last})
		case p < 11:
			cs.Ops = append(cs.Ops, c20Op{Kind: "A", Form: c20Form{strings.Repeat(" ", r.Intn(3))}})
		case p < 22:
			if !partial || r.Chance(40) {
				cs.Ops = append(cs.Ops, c20Op{Kind: "C", A: 0, B: -1})
			} else {
				cs.Ops = append(cs.Ops, c20Op{Kind: "C", A: r.Intn(5) - 1, B: r.Intn(7) - 1})
			}
		default:
			f := pool[r.Intn(len(pool))]
			if r.Chance(30) {
				f = c20StashForm(r)
			}
			if damaged && r.Chance(18) {
				f = c20StashDamaged(r)
			}
			last = f
			cs.Ops = append(cs.Ops, c20Op{Kind: "A", Form: f})
		}
	}
	return cs
}

func c20RunStash(c *lib.Ctx) (int, int) {
	dir := filepath.Join(c.Root, ".work", "c20", fmt.Sprintf("stash-%d", os.Getpid()))
	_ = os.RemoveAll(dir)
	_ = os.MkdirAll(filepath.Join(dir, "snap"), 0o755)
	defer os.RemoveAll(dir)
	cases := c20StashSweep()
	for i := c.Scale(150, 1500); i > 0; i-- {
		cases = append(cases, c20StashComposite(c, c20Rng))
	}
	// how many stashed forms are inside the model's guard stashOK (evidence only)
	var reqs, guardReqs []string
	for _, cs := range cases {
		if cs.Guarded {
			reqs = append(reqs, cs.request())
			for _, o := range cs.Ops {
				if o.Kind == "A" {
					guardReqs = append(guardReqs, "hist stashok "+o.Form.wire())
				}
			}
		}
	}
	for _, g := range c.Model(guardReqs) {
		if g == "ok t" {
			c.Ev.Hist("stash_form", "inside-guard")
		} else {
			c.Ev.Hist("stash_form", "outside-guard-or-empty")
		}
	}
	replies := c.Model(reqs)
	ri, agree := 0, 0
	for i, cs := range cases {
		reply := ""
		if cs.Guarded {
			reply = replies[ri]
			ri++
		}
		nontrivial := false
		for _, o := range cs.Ops {
			if o.Kind == "C" || len(o.Form) > 1 {
				nontrivial = true
			}
			c.Ev.Hist("event", "stash-"+map[string]string{"A": "add", "C": "clear"}[o.Kind])
		}
		c.Ev.Case(cs.request(), nontrivial)
		if i == 1 || i == len(cases)-1 {
			c.Ev.Sample(map[string]string{"case": cs.show(), "cell": cs.Cell})
		}
		if p := c20RunStashCase(c, dir, cs, reply); p != nil {
			c20Report(c, p, cs.Cell != "")
		} else {
			agree++
		}
	}
	return len(cases), agree
}

func c20ReplayStash(c *lib.Ctx, req string, rec map[string]any) {
	toks := strings.Fields(req)
	cs := c20StashCase{Stash0: c20ParseContent(toks[2])}
	cs.Guarded, _ = rec["guarded"].(bool)
	for _, t := range toks[3:] {
		op, ok := c20ParseOp(strings.Split(t, ":"))
		if !ok {
			fmt.Println("replay file has no usable request")
			return
		}
		cs.Ops = append(cs.Ops, op)
	}
	if sig, _ := rec["signature"].(string); strings.HasPrefix(sig, "cell=") {
		cs.Cell = strings.TrimPrefix(strings.Fields(sig)[0], "cell=")
	}
	dir := filepath.Join(c.Root, ".work", "c20", fmt.Sprintf("replay-stash-%d", os.Getpid()))
	_ = os.MkdirAll(filepath.Join(dir, "snap"), 0o755)
	defer os.RemoveAll(dir)
	reply := ""
	if cs.Guarded {
		reply = c.Model([]string{req})[0]
	}
	p := c20RunStashCase(c, dir, cs, reply)
	fmt.Printf("replay %s\n", cs.show())
	if p == nil {
		fmt.Println("  restarts load what is in memory, every crash point is consistent")
		return
	}
	fmt.Printf("  signature: %s\n  at       : %v\n  observed : %v\n  expected : %v\n", p.sig, p.replay["at"], p.replay["observed"], p.replay["expected"])
	c.Report(p.sig, false, p.replay)
}

// ---------------------------------------------------------------------------------------------
// settings across real restarts of the slip binary

type c20Setting struct {
	Var, Lit string // variable and the literal assigned (also the text config.lisp must hold)
}

func (s c20Setting) wire() string { return "S:" + c20HexStr(s.Var) + ":" + c20HexStr(s.Lit) }

type c20CfgCase struct {
	Cell     string
	Sessions [][]c20Setting
}

func (cs c20CfgCase) request() string {
	parts := []string{"hist", "cfg"}
	for si, ses := range cs.Sessions {
		if si > 0 {
			parts = append(parts, "|")
		}
		for _, s := range ses {
			parts = append(parts, s.wire())
		}
	}
	return strings.Join(parts, " ")
}

func (cs c20CfgCase) modelRequest() string {
	return strings.ReplaceAll(cs.request(), " |", "")
}

func (cs c20CfgCase) show() string {
	var parts []string
	for _, ses := range cs.Sessions {
		var q []string
		for _, s := range ses {
			q = append(q, fmt.Sprintf("(setq %s %s)", s.Var, s.Lit))
		}
		parts = append(parts, "session{"+strings.Join(q, " ")+"}")
	}
	return strings.Join(parts, " restart ")
}

var c20SlipBin string

// c20BuildSlip builds cmd/slip of the repository under check (the harness module replaces the slip
// module by $VERIF_REPO) into the work directory.
func c20BuildSlip(c *lib.Ctx) string {
	if c20SlipBin != "" {
		return c20SlipBin
	}
	cwd, _ := os.Getwd()
	src := ""
	for _, cand := range []string{filepath.Join(cwd, "..", "..", "harness-src"), filepath.Join(c.Root, ".work", "harness-src")} {
		if _, err := os.Stat(filepath.Join(cand, "go.mod")); err == nil {
			src = cand
			break
		}
	}
	if src == "" {
		fmt.Fprintln(os.Stderr, "c20: harness-src not found (run through ./check)")
		os.Exit(2)
	}
	bin := filepath.Join(cwd, "c20-slip")
	cmd := exec.Command("go", "build", "-tags", "verif", "-o", bin, "github.com/ohler55/slip/cmd/slip")
	cmd.Dir = src
	env := []string{}
	for _, e := range os.Environ() {
		if strings.HasPrefix(e, "GOSUMDB=") || strings.HasPrefix(e, "GOFLAGS=") || strings.HasPrefix(e, "GOPROXY=") {
			continue
		}
		env = append(env, e)
	}
	cmd.Env = append(env, "GOFLAGS=-mod=mod", "GOPROXY=off")
	if out, err := cmd.CombinedOutput(); err != nil {
		fmt.Fprintf(os.Stderr, "c20: cannot build cmd/slip: %v\n%s\n", err, out)
		os.Exit(2)
	}
	c20SlipBin = bin
	return bin
}

// c20Slip runs one REPL process on the config directory with the given input lines. A process that
// does not finish is run once more, alone in time, with a far longer limit before the run is given up
// as a machinery problem (exit 2) — never a verdict about slip.
func c20Slip(bin, dir, home string, lines []string) (string, bool) {
	for attempt, limit := range []time.Duration{120 * time.Second, 900 * time.Second} {
		cmd := exec.Command(bin, "-c", dir)
		cmd.Dir = home
		cmd.Env = []string{"HOME=" + home, "PATH=" + os.Getenv("PATH"), "TERM=dumb"}
		cmd.Stdin = strings.NewReader(strings.Join(lines, "\n") + "\n")
		var out bytes.Buffer
		cmd.Stdout = &out
		cmd.Stderr = &out
		done := make(chan error, 1)
		if err := cmd.Start(); err != nil {
			return err.Error(), false
		}
		go func() { done <- cmd.Wait() }()
		select {
		case <-done:
			return out.String(), true
		case <-time.After(limit):
			_ = cmd.Process.Kill()
			<-done
			fmt.Fprintf(os.Stderr, "c20: the slip process did not finish within %v (attempt %d, input %q); output so far: %s\n", limit, attempt+1, lines, lastLines(out.String(), 6))
		}
		// the lines are setq forms of fixed values or read-only checks: running them again is harmless
	}
	os.Exit(2)
	return "", false
}

func c20RunCfgCase(c *lib.Ctx, bin, base string, cs c20CfgCase, reply string) *c20Problem {
	dir := filepath.Join(base, "cfg")
	home := filepath.Join(base, "home")
	_ = os.RemoveAll(base)
	_ = os.MkdirAll(dir, 0o755)
	_ = os.MkdirAll(home, 0o755)
	req := cs.request()
	cell := ""
	if cs.Cell != "" {
		cell = "cell=" + cs.Cell + " "
	}
	bodies := strings.Fields(reply)[1:]
	const header = ";;;; slip REPL configuration file. For help type: (help 'configuration)\n\n"
	current := map[string]string{}
	bi := 0
	for si, ses := range cs.Sessions {
		var lines []string
		for _, s := range ses {
			lines = append(lines, fmt.Sprintf("(setq %s %s)", s.Var, s.Lit))
			current[s.Var] = s.Lit
			bi++
		}
		out, ok := c20Slip(bin, dir, home, lines)
		if !ok {
			return &c20Problem{sig: cell + "op=setq step=run aspect=setting", replay: map[string]any{"input": cs.show(), "request": req,
				"observed": "the REPL process did not finish: " + lastLines(out, 6), "expected": "the REPL sets the variables and exits at end of input"}}
		}
		// a new process: what did it load?
		keys := make([]string, 0, len(current))
		for k := range current {
			keys = append(keys, k)
		}
		sort.Strings(keys)
		var checks []string
		for i, k := range keys {
			checks = append(checks, fmt.Sprintf("(princ (if (equal %s %s) \"C20-OK-%d.\" \"C20-BAD-%d.\"))", k, current[k], i, i))
		}
		out2, ok2 := c20Slip(bin, dir, home, checks)
		var bad []string
		for i, k := range keys {
			if !ok2 || !strings.Contains(out2, fmt.Sprintf("C20-OK-%d.", i)) {
				bad = append(bad, k)
			}
		}
		file := c20ReadFile(filepath.Join(dir, "config.lisp"))
		if len(bad) > 0 {
			k := bad[0]
			return &c20Problem{sig: fmt.Sprintf("%sop=setq var=%s step=restart aspect=setting", cell, k), replay: map[string]any{"input": cs.show(), "request": req,
				"at":       fmt.Sprintf("restart after session %d", si+1),
				"observed": fmt.Sprintf("after a restart %s is not %s (variables not restored: %v); config.lisp=%s; the new process printed: %s", k, current[k], bad, c20ShowContent(file), lastLines(out2, 6)),
				"expected": fmt.Sprintf("every saved setting has the value it was given (%s = %s)", k, current[k]), "expected_from": "property: the same saved settings",
				"relies_on": []string{"SlipVerif.History.settings_restart"}}}
		}
		want := header + c20Unhex(bodies[bi-1])
		if file == nil || *file != want {
			return &c20Problem{noInput: true, sig: cell + "config-bytes", replay: map[string]any{"input": cs.show(), "request": req,
				"observed": "config.lisp=" + c20ShowContent(file), "expected": "config.lisp=" + strconv.Quote(want) + " (the restarted process has every setting)"}}
		}
	}
	return nil
}

func c20CellName(s string) string { return strings.ReplaceAll(s, " ", "_") }

func lastLines(s string, n int) string {
	ls := strings.Split(strings.TrimRight(s, "\n"), "\n")
	if len(ls) > n {
		ls = ls[len(ls)-n:]
	}
	return strconv.Quote(strings.Join(ls, "\n"))
}

var c20Vars = []struct {
	name string
	lits []string
}{
	{"*repl-history-limit*", []string{"0", "5", "50", "2000"}},
	{"*repl-prompt*", []string{"\"> \"", "\"slip» \"", "\"\""}},
	{"*repl-warning-prefix*", []string{"\"W: \"", "\"\""}},
	{"*repl-match-color*", []string{"\"bold\"", "\"\""}},
	{"*repl-external-editor*", []string{"\"vi\"", "\"emacs -nw\""}},
	{"*repl-editor-flags*", []string{"'(\"-a\" \"-b\" \"-c\")", "'(\"-x\")"}},
	{"*repl-help-box*", []string{"nil", "t"}},
	{"*repl-debug*", []string{"t", "nil"}},
	{"*repl-eval-on-close*", []string{"t", "nil"}},
	{"*print-right-margin*", []string{"100", "132"}},
	{"*print-base*", []string{"16", "2", "8", "10"}},
	{"*print-radix*", []string{"t", "nil"}},
	{"*print-length*", []string{"2", "1"}},
	{"*print-level*", []string{"1", "0"}},
	{"*print-lines*", []string{"1"}},
	{"*print-escape*", []string{"nil", "t"}},
	{"*print-gensym*", []string{"nil", "t"}},
	{"*print-array*", []string{"t", "nil"}},
	{"*print-circle*", []string{"t"}},
}

func c20RunCfg(c *lib.Ctx) (int, int) {
	bin := c20BuildSlip(c)
	base := filepath.Join(c.Root, ".work", "c20", fmt.Sprintf("cfg-%d", os.Getpid()))
	defer os.RemoveAll(base)
	var cases []c20CfgCase
	// single-cause cells: one variable, one value; and each printer variable next to a list, an integer and a string
	for _, v := range c20Vars {
		for _, lit := range v.lits {
			cases = append(cases, c20CfgCase{Cell: c20CellName("setq/" + v.name + "=" + lit), Sessions: [][]c20Setting{{{v.name, lit}}}})
		}
	}
	trio := []c20Setting{{"*repl-editor-flags*", "'(\"-a\" \"-b\" \"-c\")"}, {"*repl-history-limit*", "50"}, {"*repl-prompt*", "\"> \""}}
	for _, pv := range []c20Setting{{"*print-base*", "16"}, {"*print-radix*", "t"}, {"*print-length*", "2"}, {"*print-level*", "0"}, {"*print-lines*", "1"}, {"*print-escape*", "nil"}} {
		cases = append(cases, c20CfgCase{Cell: c20CellName("setq-with/" + pv.Var + "=" + pv.Lit), Sessions: [][]c20Setting{append(append([]c20Setting{}, trio...), pv), {{"*repl-debug*", "t"}}}})
	}
	r := c20Rng
	for i := c.Scale(14, 100); i > 0; i-- {
		cs := c20CfgCase{}
		for s := 1 + r.Intn(3); s > 0; s-- {
			var ses []c20Setting
			for n := 1 + r.Intn(4); n > 0; n-- {
				v := c20Vars[r.Intn(len(c20Vars))]
				ses = append(ses, c20Setting{v.name, v.lits[r.Intn(len(v.lits))]})
			}
			cs.Sessions = append(cs.Sessions, ses)
		}
		cases = append(cases, cs)
	}
	reqs := make([]string, len(cases))
	for i, cs := range cases {
		reqs[i] = cs.modelRequest()
	}
	replies := c.Model(reqs)
	// every REPL process idles about 0.2 s: run the cases on a few workers, report in case order
	problems := make([]*c20Problem, len(cases))
	var wg sync.WaitGroup
	next := make(chan int)
	for w := 0; w < 8; w++ {
		wg.Add(1)
		go func(w int) {
			defer wg.Done()
			for i := range next {
				problems[i] = c20RunCfgCase(c, bin, filepath.Join(base, fmt.Sprintf("w%d", w)), cases[i], replies[i])
			}
		}(w)
	}
	for i := range cases {
		next <- i
	}
	close(next)
	wg.Wait()
	agree := 0
	for i, cs := range cases {
		n := 0
		for _, s := range cs.Sessions {
			n += len(s)
			c.Ev.Hist("event", "setq-session")
		}
		c.Ev.Case(cs.request(), len(cs.Sessions) > 1 || n > 1)
		if i == 0 || i == len(cases)-1 {
			c.Ev.Sample(map[string]string{"case": cs.show(), "cell": cs.Cell})
		}
		if p := problems[i]; p != nil {
			c20Report(c, p, cs.Cell != "")
		} else {
			agree++
		}
	}
	return len(cases), agree
}

func c20ReplayCfg(c *lib.Ctx, req string, rec map[string]any) {
	cs := c20CfgCase{}
	var ses []c20Setting
	for _, t := range strings.Fields(req)[2:] {
		if t == "|" {
			cs.Sessions = append(cs.Sessions, ses)
			ses = nil
			continue
		}
		p := strings.Split(t, ":")
		if len(p) != 3 {
			fmt.Println("replay file has no usable request")
			return
		}
		ses = append(ses, c20Setting{c20Unhex(p[1]), c20Unhex(p[2])})
	}
	cs.Sessions = append(cs.Sessions, ses)
	if sig, _ := rec["signature"].(string); strings.HasPrefix(sig, "cell=") {
		cs.Cell = strings.TrimPrefix(strings.Fields(sig)[0], "cell=")
	}
	bin := c20BuildSlip(c)
	base := filepath.Join(c.Root, ".work", "c20", fmt.Sprintf("replay-cfg-%d", os.Getpid()))
	defer os.RemoveAll(base)
	reply := c.Model([]string{cs.modelRequest()})[0]
	p := c20RunCfgCase(c, bin, base, cs, reply)
	fmt.Printf("replay %s\n", cs.show())
	if p == nil {
		fmt.Println("  every restarted process has every saved setting")
		return
	}
	fmt.Printf("  signature: %s\n  observed : %v\n  expected : %v\n", p.sig, p.replay["observed"], p.replay["expected"])
	if p.noInput {
		c.ReportBroken(p.sig, p.replay)
	} else {
		c.Report(p.sig, false, p.replay)
	}
}
