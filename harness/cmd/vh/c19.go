package main

// C19 — definitions and data saved as source code reload to an equal world.
//
// Leg A (values): generated values of each load-formable kind. The implementation's LoadForm() is
//   compared with the model's loadForm (SlipVerif.Model.LoadForm, through the line protocol
//   "lf form <term>"), and the property itself is evaluated on the implementation for
//   pretty-printer margins 20..120:  Equal(eval(read(pp_margin(loadform x))), x)  and
//   read(pp_margin(form)) = form.
// Leg B (pp): code forms for every layout of the code-aware pretty printer (defun, let, cond,
//   defflavor, defmethod, defgeneric, defclass, …): read(pp_margin(form)) = form, margins 20..120
//   (implementation only; the layouts are not modelled).
// Leg C (sessions, c19_session.go): generated sessions evaluated in a fresh worker process ->
//   snapshot -> second fresh process loads it -> snapshot again: text fixed point, behavioural
//   comparison of the restored definitions, definition order against the model's snapshotOrder.

import (
	"encoding/json"
	"fmt"
	"math"
	"math/big"
	"os"
	"path/filepath"
	"regexp"
	"sort"
	"strings"

	"github.com/ohler55/slip"
	"github.com/ohler55/slip/pp"
	"verif/harness/lib"
)

func init() { props["C19"] = runC19 }

// ---------------------------------------------------------------------------------------------
// terms of the line protocol (prefix tokens, see Driver/LoadForm.lean)

type c19Term struct {
	Tok  string // N T i:.. r:.. f:.. s:.. c:.. y:.. C Vt Vn At An H
	Kids []*c19Term
}

func c19Atom(tok string) *c19Term { return &c19Term{Tok: tok} }
func c19Cons(a, d *c19Term) *c19Term {
	return &c19Term{Tok: "C", Kids: []*c19Term{a, d}}
}
func c19Sym(name string) *c19Term { return c19Atom("y:" + lib.Hex(strings.ToLower(name))) }

// c19Chain builds a cons chain of the elements ending in tail (nil = proper list).
func c19Chain(elems []*c19Term, tail *c19Term) *c19Term {
	t := tail
	if t == nil {
		t = c19Atom("N")
	}
	for i := len(elems) - 1; i >= 0; i-- {
		t = c19Cons(elems[i], t)
	}
	return t
}

func (t *c19Term) write(sb *strings.Builder) {
	sb.WriteString(t.Tok)
	for _, k := range t.Kids {
		sb.WriteByte(' ')
		k.write(sb)
	}
}

func (t *c19Term) String() string {
	var sb strings.Builder
	t.write(&sb)
	return sb.String()
}

func c19ParseTerm(toks []string) (*c19Term, []string, bool) {
	if len(toks) == 0 {
		return nil, nil, false
	}
	tok, rest := toks[0], toks[1:]
	n := 0
	switch tok {
	case "C", "At", "An":
		n = 2
	case "Vt", "Vn", "H":
		n = 1
	}
	t := &c19Term{Tok: tok}
	for i := 0; i < n; i++ {
		k, r, ok := c19ParseTerm(rest)
		if !ok {
			return nil, nil, false
		}
		t.Kids = append(t.Kids, k)
		rest = r
	}
	return t, rest, true
}

// spine returns the elements of a chain and its terminator.
func (t *c19Term) spine() (elems []*c19Term, tail *c19Term) {
	for t.Tok == "C" {
		elems = append(elems, t.Kids[0])
		t = t.Kids[1]
	}
	return elems, t
}

// canon sorts the fill forms of every `(let ((table …)) fills… table)` by their text: the order
// of hash table entries is not an observable of the property (Go map).
func (t *c19Term) canon() *c19Term {
	out := &c19Term{Tok: t.Tok}
	for _, k := range t.Kids {
		out.Kids = append(out.Kids, k.canon())
	}
	if out.Tok == "C" && out.Kids[0].Tok == c19Sym("let").Tok {
		elems, tail := out.spine()
		if len(elems) >= 3 && tail.Tok == "N" {
			mid := elems[2 : len(elems)-1]
			sort.SliceStable(mid, func(i, j int) bool { return mid[i].String() < mid[j].String() })
			return c19Chain(elems, nil)
		}
	}
	if out.Tok == "H" {
		elems, tail := out.Kids[0].spine()
		sort.SliceStable(elems, func(i, j int) bool { return elems[i].String() < elems[j].String() })
		out.Kids[0] = c19Chain(elems, tail)
	}
	return out
}

// ---------------------------------------------------------------------------------------------
// generated values

type c19Val struct {
	K    string    `json:"k"`              // nil t int ratio dbl sgl str chr sym list vec arr hash | lambda call octets
	N    string    `json:"n,omitempty"`    // int: decimal; ratio: numerator
	D    string    `json:"d,omitempty"`    // ratio: denominator
	Bits uint64    `json:"bits,omitempty"` // floats
	S    string    `json:"s,omitempty"`    // str, sym (lower case), lambda/call: source text
	C    int       `json:"c,omitempty"`    // chr
	Kids []*c19Val `json:"kids,omitempty"` // list/vec elements; arr: row-major elements; hash: k v k v …
	Tail *c19Val   `json:"tail,omitempty"` // dotted list terminator
	Dims []int     `json:"dims,omitempty"` // arr
	Adj  bool      `json:"adj,omitempty"`  // vec, arr: adjustable
}

func (v *c19Val) modelled() bool {
	switch v.K {
	case "lambda", "call", "octets":
		return false
	}
	for _, k := range v.Kids {
		if !k.modelled() {
			return false
		}
	}
	return v.Tail == nil || v.Tail.modelled()
}

func (v *c19Val) depth() int {
	d := 0
	for _, k := range v.Kids {
		if kd := k.depth() + 1; kd > d {
			d = kd
		}
	}
	if v.Tail != nil && d == 0 {
		d = 1
	}
	return d
}

// kindLabel is the object kind used in signatures.
func (v *c19Val) kindLabel() string {
	switch v.K {
	case "int":
		n, _ := new(big.Int).SetString(v.N, 10)
		if n.IsInt64() {
			return "fixnum"
		}
		return "bignum"
	case "dbl":
		return "double-float"
	case "sgl":
		return "single-float"
	case "str":
		return "string"
	case "chr":
		return "character"
	case "sym":
		if strings.HasPrefix(v.S, ":") {
			return "keyword"
		}
		return "symbol"
	case "list":
		if v.Tail != nil {
			return "dotted-list"
		}
		return "list"
	case "vec":
		return "vector"
	case "arr":
		return "array"
	case "hash":
		return "hash-table"
	}
	return v.K
}

func c19Nested(elems []slip.Object, dims []int) slip.List {
	if len(dims) == 1 {
		return slip.List(elems)
	}
	size := len(elems) / dims[0]
	out := make(slip.List, dims[0])
	for i := range out {
		out[i] = c19Nested(elems[i*size:(i+1)*size], dims[1:])
	}
	return out
}

// object builds a fresh slip object.
func (v *c19Val) object(scope *slip.Scope) slip.Object {
	switch v.K {
	case "nil":
		return nil
	case "t":
		return slip.True
	case "int":
		n, _ := new(big.Int).SetString(v.N, 10)
		if n.IsInt64() {
			return slip.Fixnum(n.Int64())
		}
		return (*slip.Bignum)(n)
	case "ratio":
		n, _ := new(big.Int).SetString(v.N, 10)
		d, _ := new(big.Int).SetString(v.D, 10)
		return (*slip.Ratio)(new(big.Rat).SetFrac(n, d))
	case "dbl":
		return slip.DoubleFloat(math.Float64frombits(v.Bits))
	case "sgl":
		return slip.SingleFloat(math.Float32frombits(uint32(v.Bits)))
	case "str":
		return slip.String(v.S)
	case "chr":
		return slip.Character(rune(v.C))
	case "sym":
		return slip.Symbol(v.S)
	case "list":
		out := make(slip.List, 0, len(v.Kids)+1)
		for _, k := range v.Kids {
			out = append(out, k.object(scope))
		}
		if v.Tail != nil {
			out = append(out, slip.Tail{Value: v.Tail.object(scope)})
		}
		return out
	case "vec":
		elems := make(slip.List, len(v.Kids))
		for i, k := range v.Kids {
			elems[i] = k.object(scope)
		}
		return slip.NewVector(len(elems), slip.TrueSymbol, nil, elems, v.Adj)
	case "arr":
		elems := make([]slip.Object, len(v.Kids))
		for i, k := range v.Kids {
			elems[i] = k.object(scope)
		}
		return slip.NewArray(v.Dims, slip.TrueSymbol, nil, c19Nested(elems, v.Dims), v.Adj)
	case "hash":
		ht := slip.HashTable{}
		for i := 0; i+1 < len(v.Kids); i += 2 {
			ht[v.Kids[i].object(scope)] = v.Kids[i+1].object(scope)
		}
		return ht
	case "octets":
		return slip.Octets(v.S)
	case "lambda":
		// a lambda object: evaluate (lambda …)
		code := slip.ReadString(v.S, scope)
		return scope.Eval(code[0], 0)
	case "call":
		// a function call object: the compiled form
		code := slip.ReadString(v.S, scope)
		code.Compile()
		return code[0]
	}
	panic("c19: unknown value kind " + v.K)
}

func c19AdjTok(t string, adj bool) string {
	if adj {
		return t + "t"
	}
	return t + "n"
}

func c19NestedTerms(elems []*c19Term, dims []int) *c19Term {
	if len(dims) == 1 {
		return c19Chain(elems, nil)
	}
	size := len(elems) / dims[0]
	rows := make([]*c19Term, dims[0])
	for i := range rows {
		rows[i] = c19NestedTerms(elems[i*size:(i+1)*size], dims[1:])
	}
	return c19Chain(rows, nil)
}

// term is the model's representation of the value.
func (v *c19Val) term() *c19Term {
	switch v.K {
	case "nil":
		return c19Atom("N")
	case "t":
		return c19Atom("T")
	case "int":
		return c19Atom("i:" + v.N)
	case "ratio":
		return c19Atom("r:" + v.N + "/" + v.D)
	case "dbl":
		return c19Atom(fmt.Sprintf("f:64:%x", v.Bits))
	case "sgl":
		return c19Atom(fmt.Sprintf("f:32:%x", v.Bits))
	case "str":
		return c19Atom("s:" + lib.Hex(v.S))
	case "chr":
		return c19Atom(fmt.Sprintf("c:%d", v.C))
	case "sym":
		return c19Sym(v.S)
	case "list":
		elems := make([]*c19Term, len(v.Kids))
		for i, k := range v.Kids {
			elems[i] = k.term()
		}
		var tail *c19Term
		if v.Tail != nil {
			tail = v.Tail.term()
		}
		return c19Chain(elems, tail)
	case "vec":
		elems := make([]*c19Term, len(v.Kids))
		for i, k := range v.Kids {
			elems[i] = k.term()
		}
		return &c19Term{Tok: c19AdjTok("V", v.Adj), Kids: []*c19Term{c19Chain(elems, nil)}}
	case "arr":
		elems := make([]*c19Term, len(v.Kids))
		for i, k := range v.Kids {
			elems[i] = k.term()
		}
		dims := make([]*c19Term, len(v.Dims))
		for i, d := range v.Dims {
			dims[i] = c19Atom(fmt.Sprintf("i:%d", d))
		}
		return &c19Term{Tok: c19AdjTok("A", v.Adj), Kids: []*c19Term{c19Chain(dims, nil), c19NestedTerms(elems, v.Dims)}}
	case "hash":
		var entries []*c19Term
		for i := 0; i+1 < len(v.Kids); i += 2 {
			entries = append(entries, c19Cons(v.Kids[i].term(), v.Kids[i+1].term()))
		}
		return &c19Term{Tok: "H", Kids: []*c19Term{c19Chain(entries, nil)}}
	}
	panic("c19: no term for " + v.K)
}

// c19FormTerm converts a form built by the implementation into the term language. ok=false when
// the form contains an object the term language has no constructor for.
func c19FormTerm(o slip.Object) (t *c19Term, ok bool) {
	switch to := o.(type) {
	case nil:
		return c19Atom("N"), true
	case slip.Fixnum:
		return c19Atom(fmt.Sprintf("i:%d", int64(to))), true
	case *slip.Bignum:
		return c19Atom("i:" + (*big.Int)(to).String()), true
	case *slip.Ratio:
		r := (*big.Rat)(to)
		return c19Atom("r:" + r.Num().String() + "/" + r.Denom().String()), true
	case slip.DoubleFloat:
		return c19Atom(fmt.Sprintf("f:64:%x", math.Float64bits(float64(to)))), true
	case slip.SingleFloat:
		return c19Atom(fmt.Sprintf("f:32:%x", uint64(math.Float32bits(float32(to))))), true
	case slip.String:
		return c19Atom("s:" + lib.Hex(string(to))), true
	case slip.Character:
		return c19Atom(fmt.Sprintf("c:%d", rune(to))), true
	case slip.Symbol:
		return c19Sym(string(to)), true
	case slip.List:
		if len(to) == 0 {
			return c19Atom("N"), true
		}
		var (
			elems []*c19Term
			tail  *c19Term
		)
		for i, e := range to {
			if tl, isTail := e.(slip.Tail); isTail && i == len(to)-1 {
				if tail, ok = c19FormTerm(tl.Value); !ok {
					return nil, false
				}
				continue
			}
			et, eok := c19FormTerm(e)
			if !eok {
				return nil, false
			}
			elems = append(elems, et)
		}
		return c19Chain(elems, tail), true
	case *slip.Vector:
		lt, lok := c19FormTerm(to.AsList())
		if !lok {
			return nil, false
		}
		return &c19Term{Tok: c19AdjTok("V", to.Adjustable()), Kids: []*c19Term{lt}}, true
	case *slip.Array:
		lt, lok := c19FormTerm(to.AsList())
		if !lok {
			return nil, false
		}
		dims := []*c19Term{}
		for _, d := range to.Dimensions() {
			dims = append(dims, c19Atom(fmt.Sprintf("i:%d", d)))
		}
		return &c19Term{Tok: c19AdjTok("A", to.Adjustable()), Kids: []*c19Term{c19Chain(dims, nil), lt}}, true
	default:
		if o == slip.True {
			return c19Atom("T"), true
		}
	}
	return nil, false
}

// ---------------------------------------------------------------------------------------------
// value generators

var c19SymPool = []string{"a", "b", "foo", "bar-baz", "x1", "quux", "list", "let", "defun", "cond", "quote", "lambda", "setq", "zork*", "+", "a.b"}
var c19KeyPool = []string{":a", ":key", ":initial-contents", ":b2"}
var c19StrPool = []string{"", "s", "hello world", "with \"quotes\"", "back\\slash", "semi;colon", "(paren)", "tab\there", "line\nbreak", "ünï€ode", "a much longer string that will not fit on a narrow line at all, not even nearly"}
var c19ChrPool = []int{'a', 'Z', '0', '-', 'é', '€'}

func c19Int(n int64) *c19Val       { return &c19Val{K: "int", N: fmt.Sprint(n)} }
func c19Str(s string) *c19Val      { return &c19Val{K: "str", S: s} }
func c19SymV(s string) *c19Val     { return &c19Val{K: "sym", S: s} }
func c19List(k ...*c19Val) *c19Val { return &c19Val{K: "list", Kids: k} }
func c19Dbl(f float64) *c19Val     { return &c19Val{K: "dbl", Bits: math.Float64bits(f)} }

func c19RandAtom(r *lib.Rng) *c19Val {
	switch r.Intn(13) {
	case 0:
		return &c19Val{K: "nil"}
	case 1:
		return &c19Val{K: "t"}
	case 2:
		return c19Int(int64(r.Intn(2001)) - 1000)
	case 3:
		return &c19Val{K: "int", N: r.BigBits([]int{31, 62, 63, 64, 65, 130}[r.Intn(6)]).String()}
	case 4:
		n := r.BigBits([]int{8, 40, 70}[r.Intn(3)])
		d := new(big.Int).Abs(r.BigBits([]int{5, 33, 66}[r.Intn(3)]))
		d.Add(d, big.NewInt(2))
		q := new(big.Rat).SetFrac(n, d)
		if q.IsInt() {
			return &c19Val{K: "int", N: q.Num().String()}
		}
		return &c19Val{K: "ratio", N: q.Num().String(), D: q.Denom().String()}
	case 5:
		fs := []float64{0, 1.5, -2.25, 1e21, 1e-7, 3.141592653589793, 123456.789, -0.001}
		return c19Dbl(fs[r.Intn(len(fs))])
	case 6:
		fs := []float32{0.5, -1.25, 3.0e10, 7.5e-5}
		return &c19Val{K: "sgl", Bits: uint64(math.Float32bits(fs[r.Intn(len(fs))]))}
	case 7, 8:
		return c19Str(c19StrPool[r.Intn(len(c19StrPool))])
	case 9:
		return &c19Val{K: "chr", C: c19ChrPool[r.Intn(len(c19ChrPool))]}
	case 10:
		return c19SymV(c19KeyPool[r.Intn(len(c19KeyPool))])
	default:
		return c19SymV(c19SymPool[r.Intn(len(c19SymPool))])
	}
}

// c19RandKey: what a slip hash table accepts as key and finds again (comparable Go values).
func c19RandKey(r *lib.Rng, i int) *c19Val {
	switch r.Intn(4) {
	case 0:
		return c19Int(int64(i*7) - 3)
	case 1:
		return c19Str(fmt.Sprintf("k%d %s", i, c19StrPool[r.Intn(3)]))
	case 2:
		return c19SymV(fmt.Sprintf(":k%d", i))
	default:
		return c19SymV(fmt.Sprintf("%s%d", c19SymPool[r.Intn(6)], i))
	}
}

// c19GenCtx: what composite values must not contain because it is a listed known finding.
type c19GenCtx struct {
	avoid        func(container, elem string) bool // container kind / element kind pairs
	noEmptyVec   bool                              // zero length vectors ('nil is misread)
	quotedNoHash bool                              // no hash table anywhere inside a vector/array (printed as a literal)
	quotedNoFix  bool                              // no non-adjustable vector/array inside a vector/array
	quoted       bool                              // (state) inside a vector/array
}

func c19RandVal(r *lib.Rng, depth int, g c19GenCtx) *c19Val {
	if depth <= 0 || r.Chance(25) {
		return c19RandAtom(r)
	}
	avoid := g.avoid
	pick := func(container string) *c19Val {
		sub := g
		if container == "vector" || container == "array" {
			sub.quoted = true
		}
		for tries := 0; tries < 20; tries++ {
			e := c19RandVal(r, depth-1, sub)
			if !avoid(container, e.kindLabel()) {
				return e
			}
		}
		return c19Int(7)
	}
	adj := func() bool { return r.Chance(70) || (g.quoted && g.quotedNoFix) }
	k := r.Intn(10)
	if k >= 8 && g.quoted && g.quotedNoHash {
		k = r.Intn(8)
	}
	switch k {
	case 0, 1, 2, 3:
		n := 1 + r.Intn(5)
		v := &c19Val{K: "list"}
		for i := 0; i < n; i++ {
			v.Kids = append(v.Kids, pick("list"))
		}
		return v
	case 4:
		n := 1 + r.Intn(3)
		v := &c19Val{K: "list"}
		for i := 0; i < n; i++ {
			v.Kids = append(v.Kids, pick("dotted-list"))
		}
		for tries := 0; ; tries++ {
			t := c19RandAtom(r)
			if t.K != "nil" && !avoid("dotted-list", t.kindLabel()) {
				v.Tail = t
				break
			}
		}
		return v
	case 5, 6:
		n := r.Intn(5)
		if n == 0 && g.noEmptyVec {
			n = 1
		}
		v := &c19Val{K: "vec", Adj: adj()}
		for i := 0; i < n; i++ {
			v.Kids = append(v.Kids, pick("vector"))
		}
		return v
	case 7:
		dims := [][]int{{2, 2}, {1, 3}, {2, 1, 2}, {3, 2}}[r.Intn(4)]
		size := 1
		for _, d := range dims {
			size *= d
		}
		v := &c19Val{K: "arr", Dims: dims, Adj: adj()}
		for i := 0; i < size; i++ {
			v.Kids = append(v.Kids, pick("array"))
		}
		return v
	default:
		n := r.Intn(4)
		v := &c19Val{K: "hash"}
		for i := 0; i < n; i++ {
			v.Kids = append(v.Kids, c19RandKey(r, i), pick("hash-table"))
		}
		return v
	}
}

// ---------------------------------------------------------------------------------------------
// the property on the implementation

type c19Obs struct {
	Aspect   string // "" = holds
	Margins  string // sweep: summary of the failing margins "lo-hi/count"
	Margin   int
	Observed string
	Expected string
	Form     string
}

func c19Margins(c *lib.Ctx, all bool) []int {
	if all {
		m := make([]int, 0, 101)
		for i := 20; i <= 120; i++ {
			m = append(m, i)
		}
		return m
	}
	m := []int{20, 120}
	for len(m) < c.Scale(8, 24) {
		m = append(m, 21+c.Rng.Intn(99))
	}
	return m
}

func c19TypeOf(o slip.Object) string {
	if o == nil {
		return "null"
	}
	return strings.ToLower(string(o.Hierarchy()[0]))
}

func c19Show(o slip.Object) string {
	out := lib.Protect(func() slip.Object { return slip.String(slip.ObjectString(o)) })
	if !out.Ok {
		return "<unprintable " + out.Class + ">"
	}
	s := string(out.Value.(slip.String))
	if len(s) > 400 {
		s = s[:400] + "…"
	}
	return s
}

// c19OverMargins runs check for the margins; with all=true every margin is evaluated and the
// first failure is returned with a summary of the failing margins (part of a sweep signature).
func c19OverMargins(margins []int, all bool, check func(m int) *c19Obs) *c19Obs {
	var (
		first   *c19Obs
		failing []int
	)
	for _, m := range margins {
		if o := check(m); o != nil {
			if !all && c19SkipMargin != nil && c19SkipMargin(o) {
				continue // composite case: an instance of a listed construct at this margin only
			}
			if first == nil {
				first = o
			}
			failing = append(failing, m)
			if !all {
				break
			}
		}
	}
	if first != nil && all {
		sort.Ints(failing)
		first.Margins = fmt.Sprintf("%d-%d/%d", failing[0], failing[len(failing)-1], len(failing))
	}
	return first
}

// The pretty printer indents with slices of a constant of 256 blanks: a layout that needs a deeper
// indentation is a Go slice-bounds panic. One sweep cell (pp cell=let-nested#0) shows it; composite
// cases cannot know in advance how deep a layout will indent, so a composite case that runs into
// exactly this fault is counted as an instance of the listed construct when the cell is listed.
var c19IndentOverflowRe = regexp.MustCompile(`slice bounds out of range \[:\d+\] with length 257`)

func c19IsIndentOverflow(c *lib.Ctx, o *c19Obs) bool {
	return o != nil && o.Aspect == "unreadable" && c19IndentOverflowRe.MatchString(o.Observed) &&
		c.Findings.Listed("C19", "pp cell=let-nested#0 ")
}

// c19SkipMargin is set by runC19 (composite cases: the indentation overflow of one margin does not
// end the case, the other margins are still checked).
var c19SkipMargin func(o *c19Obs) bool

// c19Listify turns the function objects the reader builds for 'x, #'f and `x (cl.Quote …) back
// into lists, so that a form built as a list and the same form read from text compare equal.
func c19Listify(o slip.Object) slip.Object {
	switch to := o.(type) {
	case slip.List:
		if len(to) == 0 {
			return nil // () is nil
		}
		out := make(slip.List, len(to))
		for i, e := range to {
			if tl, ok := e.(slip.Tail); ok {
				out[i] = slip.Tail{Value: c19Listify(tl.Value)}
			} else {
				out[i] = c19Listify(e)
			}
		}
		return out
	case slip.Funky:
		args := to.GetArgs()
		out := make(slip.List, 0, len(args)+1)
		name := to.GetName()
		// the objects of the reader macros, by the operator the reader read — not by the name the
		// object claims (the object for #'f calls itself "name")
		switch fmt.Sprintf("%T", o) {
		case "*cl.Quote":
			name = "quote"
		case "*cl.Function":
			name = "function"
		case "*cl.Backquote":
			name = "backquote"
		case "*cl.Comma":
			name = "comma"
		case "*cl.CommaAt":
			name = "comma-at"
		}
		out = append(out, slip.Symbol(name))
		for _, a := range args {
			out = append(out, c19Listify(a))
		}
		return out
	}
	return o
}

func c19FormEqual(a, b slip.Object) bool {
	out := lib.Protect(func() slip.Object {
		if slip.ObjectEqual(c19Listify(a), c19Listify(b)) {
			return slip.True
		}
		return nil
	})
	return out.Ok && out.Value != nil
}

// c19PPRead checks read(pp_margin(form)) = form and returns the re-read form.
func c19PPRead(form slip.Object, margin int) (back slip.Object, text string, obs *c19Obs) {
	scope := slip.NewScope()
	scope.Let(slip.Symbol("*print-right-margin*"), slip.Fixnum(margin))
	po := lib.Protect(func() slip.Object { return slip.String(pp.Append(nil, scope, form)) })
	if !po.Ok {
		return nil, "", &c19Obs{Aspect: "unreadable", Margin: margin, Observed: "pp failed: " + po.Class + ": " + po.Msg, Expected: "a text"}
	}
	text = string(po.Value.(slip.String))
	var code slip.Code
	ro := lib.Protect(func() slip.Object { code = slip.ReadString(text, scope); return nil })
	if !ro.Ok {
		return nil, text, &c19Obs{Aspect: "unreadable", Margin: margin, Observed: "read failed: " + ro.Class + ": " + ro.Msg + " text=" + text, Expected: "one form"}
	}
	if len(code) != 1 {
		return nil, text, &c19Obs{Aspect: "unreadable", Margin: margin, Observed: fmt.Sprintf("%d forms read from %s", len(code), text), Expected: "one form"}
	}
	return code[0], text, nil
}

// c19CheckValue evaluates the property on one value: for each margin, the pretty printed load
// form reads back as the form and evaluates to an equal object of the same type.
func c19CheckValue(v *c19Val, margins []int, all bool) (formTerm *c19Term, formText string, obs *c19Obs) {
	scope := slip.NewScope()
	var x slip.Object
	bo := lib.Protect(func() slip.Object { x = v.object(scope); return nil })
	if !bo.Ok {
		return nil, "", &c19Obs{Aspect: "machinery", Observed: "cannot build the value: " + bo.Msg}
	}
	lfr, isLF := x.(slip.LoadFormer)
	var form slip.Object
	if x != nil {
		if !isLF {
			return nil, "", &c19Obs{Aspect: "no-load-form", Observed: "object does not offer LoadForm", Expected: "a load form"}
		}
		fo := lib.Protect(func() slip.Object { return lfr.LoadForm() })
		if !fo.Ok {
			return nil, "", &c19Obs{Aspect: "no-load-form", Observed: "LoadForm failed: " + fo.Class + ": " + fo.Msg, Expected: "a load form"}
		}
		form = fo.Value
	}
	formText = c19Show(form)
	if v.modelled() {
		formTerm, _ = c19FormTerm(form)
	}
	check := func(m int) *c19Obs {
		var toEval slip.Object
		if _, isSym := form.(slip.Symbol); isSym {
			// pp.Append resolves a top level symbol to the function/class/variable of that name; the
			// text of a symbol is the symbol
			toEval = form
		} else {
			back, text, o := c19PPRead(form, m)
			if o != nil {
				o.Form = formText
				return o
			}
			if !c19FormEqual(form, back) {
				return &c19Obs{Aspect: "unreadable", Margin: m, Form: formText,
					Observed: "read(pp(form)) = " + c19Show(back) + " text=" + text, Expected: formText}
			}
			toEval = back
		}
		if v.K == "call" {
			// a function call object: its load form *is* the call (not to be evaluated); the re-read,
			// compiled call must equal the original
			code := slip.Code{toEval}
			co := lib.Protect(func() slip.Object { code.Compile(); return code[0] })
			if !co.Ok || !c19FormEqual(x, co.Value) || c19TypeOf(x) != c19TypeOf(co.Value) {
				return &c19Obs{Aspect: "not-equal", Margin: m, Form: formText,
					Observed: c19Show(co.Value) + " : " + c19TypeOf(co.Value) + " " + co.Msg, Expected: c19Show(x) + " : " + c19TypeOf(x)}
			}
			return nil
		}
		es := slip.NewScope()
		eo := lib.Protect(func() slip.Object { return es.Eval(toEval, 0) })
		if !eo.Ok {
			return &c19Obs{Aspect: "eval-error", Margin: m, Form: formText,
				Observed: "evaluating the load form: " + eo.Class + ": " + eo.Msg, Expected: c19Show(x)}
		}
		y := eo.Value
		if v.K == "lambda" {
			// Lambda.Equal is identity; "equal" for a rebuilt lambda: same type, same load form, same
			// results on sample arguments
			if o := c19LambdaEqual(x, y); o != "" {
				return &c19Obs{Aspect: "not-equal", Margin: m, Form: formText, Observed: o, Expected: formText}
			}
			return nil
		}
		eq := lib.Protect(func() slip.Object {
			if slip.ObjectEqual(x, y) {
				return slip.True
			}
			return nil
		})
		if !eq.Ok || eq.Value == nil || c19TypeOf(x) != c19TypeOf(y) {
			return &c19Obs{Aspect: "not-equal", Margin: m, Form: formText,
				Observed: c19Show(y) + " : " + c19TypeOf(y), Expected: c19Show(x) + " : " + c19TypeOf(x)}
		}
		return nil
	}
	return formTerm, formText, c19OverMargins(margins, all, check)
}

// c19LambdaEqual compares an original and a rebuilt lambda; "" when they agree.
func c19LambdaEqual(x, y slip.Object) string {
	if c19TypeOf(x) != c19TypeOf(y) {
		return "type " + c19TypeOf(y)
	}
	lx, ok1 := x.(slip.LoadFormer)
	ly, ok2 := y.(slip.LoadFormer)
	if !ok1 || !ok2 {
		return "rebuilt object offers no load form"
	}
	fx := lib.Protect(func() slip.Object { return lx.LoadForm() })
	fy := lib.Protect(func() slip.Object { return ly.LoadForm() })
	if !fx.Ok || !fy.Ok || !c19FormEqual(fx.Value, fy.Value) {
		return "load form of the rebuilt lambda: " + c19Show(fy.Value)
	}
	for _, args := range []string{"", "3", "3 4", "-5 2 9"} {
		call := func(f slip.Object) string {
			scope := slip.NewScope()
			scope.Let(slip.Symbol("c19-fn"), f)
			return lib.EvalString(scope, "(funcall c19-fn "+args+")").String()
		}
		if a, b := call(x), call(y); a != b {
			return fmt.Sprintf("(funcall f %s) = %s, original %s", args, b, a)
		}
	}
	return ""
}

// ---------------------------------------------------------------------------------------------
// leg A

type c19ValCase struct {
	Cell  string // sweep cell "container/element" ("" for composite)
	Val   *c19Val
	sweep bool
}

// single-cause sweep: every element kind alone and inside every container position
func c19ValueSweep() []c19ValCase {
	big1 := &c19Val{K: "int", N: "123456789012345678901234567890"}
	elems := []struct {
		name string
		v    *c19Val
	}{
		{"nil", &c19Val{K: "nil"}}, {"t", &c19Val{K: "t"}}, {"fixnum", c19Int(-42)}, {"bignum", big1},
		{"ratio", &c19Val{K: "ratio", N: "-7", D: "3"}}, {"double-float", c19Dbl(1.5)},
		{"single-float", &c19Val{K: "sgl", Bits: uint64(math.Float32bits(2.5))}},
		{"string", c19Str("a \"q\" s")}, {"character", &c19Val{K: "chr", C: 'a'}},
		{"symbol", c19SymV("foo")}, {"keyword", c19SymV(":key")},
		{"list", c19List(c19SymV("a"), c19Int(1))},
		{"dotted-list", &c19Val{K: "list", Kids: []*c19Val{c19SymV("a")}, Tail: c19SymV("b")}},
		{"vector", &c19Val{K: "vec", Adj: true, Kids: []*c19Val{c19Int(1), c19SymV("x")}}},
		{"fixed-vector", &c19Val{K: "vec", Kids: []*c19Val{c19Int(1), c19SymV("x")}}},
		{"array", &c19Val{K: "arr", Adj: true, Dims: []int{2, 1}, Kids: []*c19Val{c19Int(1), c19SymV("y")}}},
		{"fixed-array", &c19Val{K: "arr", Dims: []int{2, 1}, Kids: []*c19Val{c19Int(1), c19SymV("y")}}},
		{"array-3d", &c19Val{K: "arr", Adj: true, Dims: []int{2, 1, 2}, Kids: []*c19Val{c19Int(1), c19SymV("y"), c19Str("s"), &c19Val{K: "nil"}}}},
		{"hash-table", &c19Val{K: "hash", Kids: []*c19Val{c19SymV("k"), c19SymV("v")}}},
		{"empty-vector", &c19Val{K: "vec", Adj: true}},
		{"empty-hash-table", &c19Val{K: "hash"}},
	}
	var out []c19ValCase
	add := func(cell string, v *c19Val) { out = append(out, c19ValCase{Cell: cell, Val: v, sweep: true}) }
	for _, e := range elems {
		add("top/"+e.name, e.v)
		add("list/"+e.name, c19List(c19Int(1), e.v))
		add("list-head/"+e.name, c19List(e.v, c19Int(1)))
		add("dotted-last/"+e.name, &c19Val{K: "list", Kids: []*c19Val{e.v}, Tail: c19Int(2)})
		add("dotted-init/"+e.name, &c19Val{K: "list", Kids: []*c19Val{e.v, c19Int(1)}, Tail: c19Int(2)})
		if e.name != "nil" && e.name != "list" && e.name != "dotted-list" {
			add("dotted-tail/"+e.name, &c19Val{K: "list", Kids: []*c19Val{c19Int(1)}, Tail: e.v})
		}
		add("vector/"+e.name, &c19Val{K: "vec", Adj: true, Kids: []*c19Val{c19Int(1), e.v}})
		add("array/"+e.name, &c19Val{K: "arr", Adj: true, Dims: []int{1, 2}, Kids: []*c19Val{c19Int(1), e.v}})
		add("hash-value/"+e.name, &c19Val{K: "hash", Kids: []*c19Val{c19Str("k"), e.v}})
		switch e.name {
		case "fixnum", "string", "symbol", "keyword", "double-float", "nil":
			add("hash-key/"+e.name, &c19Val{K: "hash", Kids: []*c19Val{e.v, c19Int(1)}})
		}
	}
	// implementation-only kinds named by the property: lambdas and function calls, octets
	for i, src := range []string{"(lambda (x) (1+ x))", "(lambda (x &optional (y 2)) \"doc\" (list x y 'q))", "(lambda () nil)",
		"(lambda (a b) (let ((c (+ a b))) (if (< c 0) (- c) (* c 2))))"} {
		add(fmt.Sprintf("top/lambda-%d", i), &c19Val{K: "lambda", S: src})
	}
	for i, src := range []string{"(car '(1 2))", "(+ 1 (* 2 3))", "(list 'a \"b\" :c 1.5)", "(let ((x 1)) (cons x nil))"} {
		add(fmt.Sprintf("top/call-%d", i), &c19Val{K: "call", S: src})
	}
	add("top/octets", &c19Val{K: "octets", S: "a\x00\xff"})
	return out
}

func c19ValueSignature(cs c19ValCase, aspect string) string {
	if cs.sweep {
		return "value cell=" + cs.Cell + " aspect=" + aspect // aspect carries the failing margins
	}
	return "value kind=" + cs.Val.kindLabel() + " aspect=" + aspect
}

func c19ValueReplay(cs c19ValCase, o *c19Obs, model string) map[string]any {
	vj, _ := json.Marshal(cs.Val)
	return map[string]any{"leg": "value", "cell": cs.Cell, "sweep": cs.sweep, "value": json.RawMessage(vj), "input": c19Show(c19SafeObject(cs.Val)),
		"load_form": o.Form, "margin": o.Margin, "observed": o.Observed, "expected": o.Expected, "model_form": model,
		"expected_from": "property statement: Equal(eval(read(pp(loadform x))), x); model:lf.form for the shape",
		"relies_on":     []string{"SlipVerif.LoadForm.loadform_eval_roundtrip"}}
}

func c19SafeObject(v *c19Val) (o slip.Object) {
	defer func() { _ = recover() }()
	return v.object(slip.NewScope())
}

// c19RunValues runs leg A over the cases; returns the number of cases.
func c19RunValues(c *lib.Ctx, cases []c19ValCase, allMargins bool) {
	var reqs []string
	idx := map[int]int{}
	for i, cs := range cases {
		if cs.Val.modelled() {
			idx[i] = len(reqs)
			reqs = append(reqs, "lf form "+cs.Val.term().String())
			reqs = append(reqs, "lf roundtrip "+cs.Val.term().String())
		}
	}
	replies := c.Model(reqs)
	topUnreadable := map[string]bool{}
	shapeReported := map[string]bool{}
	for i, cs := range cases {
		if cs.sweep {
			// single cause: an element whose own load form cannot be read back (cell top/<e>) fails the
			// same way wherever its form is embedded in an evaluated position
			if ce := strings.SplitN(cs.Cell, "/", 2); len(ce) == 2 && ce[0] != "top" && ce[0] != "vector" && ce[0] != "array" && topUnreadable[ce[1]] {
				c.Ev.Count("value_cells_skipped_same_cause", 1)
				continue
			}
		}
		margins := c19Margins(c, allMargins || cs.sweep)
		formTerm, formText, obs := c19CheckValue(cs.Val, margins, cs.sweep)
		if cs.sweep && obs != nil && obs.Aspect == "unreadable" && strings.HasPrefix(cs.Cell, "top/") {
			topUnreadable[strings.TrimPrefix(cs.Cell, "top/")] = true
		}
		key := "v:" + string(mustJSON(cs.Val))
		c.Ev.Case(key, cs.Val.depth() >= 1)
		c.Ev.Hist("value_kind", cs.Val.kindLabel())
		c.Ev.Hist("value_depth", fmt.Sprint(cs.Val.depth()))
		c.Ev.Count("value_margin_checks", len(margins))
		modelForm := ""
		if j, has := idx[i]; has {
			// the model's own round trip must give back the value (sanity of the tie, machinery)
			want := "ok " + cs.Val.term().canon().String()
			rt := replies[j+1]
			if t, _, ok := c19ParseTerm(strings.Fields(strings.TrimPrefix(rt, "ok "))); !strings.HasPrefix(rt, "ok ") || !ok || "ok "+t.canon().String() != want {
				fmt.Fprintf(os.Stderr, "c19: model round trip of %s gave %s\n", want, rt)
				os.Exit(2)
			}
			mt, _, ok := c19ParseTerm(strings.Fields(strings.TrimPrefix(replies[j], "ok ")))
			if !ok {
				fmt.Fprintf(os.Stderr, "c19: cannot parse model reply %s\n", replies[j])
				os.Exit(2)
			}
			modelForm = mt.canon().String()
			if obs == nil && (formTerm == nil || formTerm.canon().String() != modelForm) {
				// the property holds on the implementation for this value but its load form is not the
				// model's: the correspondence no longer checks (no failing input), once per cell / kind
				name := "model:lf.form " + cs.Cell
				if !cs.sweep {
					name = "model:lf.form kind=" + cs.Val.kindLabel()
				}
				if !shapeReported[name] {
					shapeReported[name] = true
					o := &c19Obs{Aspect: "form-shape", Form: formText, Observed: formText, Expected: "the model's load form (model_form)"}
					c.ReportBroken(name, c19ValueReplay(cs, o, modelForm))
				}
			}
		}
		if i%(len(cases)/4+1) == 0 {
			c.Ev.Sample(map[string]string{"leg": "value", "value": c19Show(c19SafeObject(cs.Val)), "load_form": formText})
		}
		if obs != nil {
			if obs.Aspect == "machinery" {
				fmt.Fprintln(os.Stderr, "c19:", obs.Observed)
				os.Exit(2)
			}
			c.Report(c19ValueSignature(cs, c19AspectM(obs, cs.sweep)), cs.sweep, c19ValueReplay(cs, obs, modelForm))
		}
	}
}

// c19AspectM: in a sweep cell the aspect is qualified by the margins at which the cell fails.
func c19AspectM(o *c19Obs, sweep bool) string {
	if sweep && o.Margins != "" {
		return o.Aspect + " margins=" + o.Margins
	}
	return o.Aspect
}

func mustJSON(v any) []byte {
	b, err := json.Marshal(v)
	if err != nil {
		panic(err)
	}
	return b
}

// ---------------------------------------------------------------------------------------------
// leg B: read(pp_margin(form)) = form for code forms of every pp layout

type c19PPCase struct {
	Head  string
	Src   string
	sweep bool
}

var c19PPSweep = []struct{ head, src string }{
	{"quote", "(quote (a b (c . d) \"s\" 1.5))"},
	{"quote", "'(let ((x 1)) (defun f (y) y))"},
	{"let", "(let ((x 1) (y (+ 2 3)) z) (setq z (* x y)) (list x y z))"},
	{"let*", "(let* ((x 1) (y (1+ x))) (if (< x y) (list x y) nil))"},
	{"lambda", "(lambda (x &optional (y 2) &rest more &key k) (list x y more k))"},
	{"defun", "(defun fact (n) \"Factorial of n.\" (if (<= n 1) 1 (* n (fact (1- n)))))"},
	{"defun", "(defun f (a &optional (b 2) &key (c 3) d) (list a b c d))"},
	{"defun", "(defun g () nil)"},
	{"defmacro", "(defmacro m (a &rest body) (list 'progn a (cons 'list body)))"},
	{"defvar", "(defvar *v* '(1 2 3) \"a variable\")"},
	{"defparameter", "(defparameter *p* (make-hash-table) \"a parameter\")"},
	{"defconstant", "(defconstant +c+ 42 \"a constant\")"},
	{"cond", "(cond ((< x 0) 'neg) ((= x 0) 'zero) (t (print x) 'pos))"},
	{"progn", "(progn (setq a 1) (setq b 2) (+ a b))"},
	{"block", "(block outer (dotimes (i 10) (when (> i 5) (return-from outer i))) nil)"},
	{"dotimes", "(dotimes (i 10 (list i acc)) (setq acc (+ acc i)))"},
	{"dolist", "(dolist (e '(1 2 3) sum) (setq sum (+ sum e)))"},
	{"do", "(do ((i 0 (1+ i)) (acc nil (cons i acc))) ((= i 3) acc) (print i))"},
	{"with-output-to-string", "(with-output-to-string (s) (princ \"abc\" s) (princ 12 s))"},
	{"with-open-file", "(with-open-file (f \"some/file.txt\" :direction :output :if-exists :supersede) (write-line \"x\" f))"},
	{"make-instance", "(make-instance 'blueberry :size \"large\" :color 'blue :count 12)"},
	{"defflavor", "(defflavor berry ((color 'red) size (count 0)) (fruit food) :gettable-instance-variables (:settable-instance-variables size count) (:documentation \"a berry\"))"},
	{"defflavor", "(defflavor plain () ())"},
	{"defmethod", "(defmethod (berry :grow) (amount &optional (factor 2)) \"Grow some.\" (setq size (* amount factor)) size)"},
	{"defmethod", "(defmethod (berry :before :grow) (amount) (print amount))"},
	{"defwhopper", "(defwhopper (berry :grow) (amount) (list 'around (continue-whopper amount)))"},
	{"defmethod", "(defmethod area ((s square) (scale fixnum) &optional (unit 'cm)) \"Area.\" (* scale (side s) (side s)))"},
	{"defmethod", "(defmethod area :before ((s square) scale) (print scale))"},
	{"defgeneric", "(defgeneric area (shape scale) (:documentation \"Area of a shape.\") (:method ((s circle) (scale fixnum)) (* scale 3 (radius s))) (:method :after ((s circle) (scale t)) (print s)))"},
	{"defgeneric", "(defgeneric plain-gen (a b))"},
	{"defclass", "(defclass square (shape thing) ((side :initarg :side :initform 1 :accessor side :type fixnum :documentation \"length\") (name :reader name :allocation :class) plain) (:documentation \"A square.\") (:default-initargs :side 2))"},
	{"defclass", "(defclass empty () ())"},
	{"define-condition", "(define-condition my-error (error) ((code :initarg :code :reader code)) (:report \"failed\"))"},
	{"defpackage", "(defpackage \"pack\" (:documentation \"a package\") (:nicknames \"pk\" \"p2\") (:use \"common-lisp\" \"bag\") (:export \"f1\" \"f2\"))"},
	{"fun", "(format nil \"~A and ~S~%\" (car x) (list 1 2 (cons 3 4) \"five\" #\\6 7.5 8/9 :ten))"},
	{"fun", "(if (and (numberp x) (or (< x 0) (> x 10))) (funcall 'f x) (apply (function g) (list x)))"},
	{"setq", "(setq x (quote a) y (function car) z #(1 2 (3)) w #2A((1 2) (3 4)))"},
	{"backquote", "`(a ,b ,@c (d ,(car e)))"},
	{"when", "(when (listp x) (unless (null x) (print (car x))) (cdr x))"},
	{"case", "(case x (1 'one) ((2 3) 'few) (otherwise 'many))"},
	{"flet", "(flet ((sq (x) (* x x))) (sq 3))"},
	{"labels", "(labels ((f (n) (if (= n 0) 1 (* n (f (1- n)))))) (f 5))"},
	{"multiple-value-bind", "(multiple-value-bind (q r) (floor 7 2) (list q r))"},
	{"handler-case", "(handler-case (/ 1 0) (division-by-zero (c) (print c) 0) (error () 1))"},
	{"unwind-protect", "(unwind-protect (risky) (cleanup 1) (cleanup 2))"},
	{"string", "(list \"a \\\"quoted\\\" string\" \"new\nline\" #\\a #\\Space 'sym :key)"},
	{"number", "(list 1 -2 3/4 1.5 -2.5e10 123456789012345678901234567890 1.0s0)"},
	{"function-ref", "(mapcar #'car (list (function cdr) #'(lambda (x) x)))"},
	{"quote-nil", "(list (quote nil) (quote ()) 'a)"},
	{"quote-t", "(list (quote t) 'a)"},
	// documentation strings in every layout that has one
	{"defun-doc", "(defun f (x) \"Doc.\" x)"},
	{"defun-doc-long", "(defun f (x) \"A documentation string of several words that has to be wrapped at narrow margins.\" x)"},
	{"defun-doc-quote", "(defun f (x) \"Says \\\"hello\\\" and a back\\\\slash.\" x)"},
	{"defun-doc-underscore", "(defun f (x) \"Returns _x_ unchanged.\" x)"},
	{"defun-doc-newline", "(defun f (x) \"Line one.\nLine two.\" x)"},
	{"defmacro-doc-long", "(defmacro m (x) \"A documentation string of several words that has to be wrapped at narrow margins.\" x)"},
	{"lambda-doc-long", "(lambda (x) \"A documentation string of several words that has to be wrapped at narrow margins.\" x)"},
	{"defvar-doc-long", "(defvar v 1 \"A documentation string of several words that has to be wrapped at narrow margins.\")"},
	{"defmethod-doc-long", "(defmethod (fl :m) (x) \"A documentation string of several words that has to be wrapped at narrow margins.\" x)"},
	{"defgenmethod-doc-long", "(defmethod g ((x fixnum)) \"A documentation string of several words that has to be wrapped at narrow margins.\" x)"},
	{"defgeneric-method-doc-long", "(defgeneric g (x) (:method ((x fixnum)) \"A documentation string of several words that has to be wrapped at narrow margins.\" x))"},
	{"defgeneric-doc-long", "(defgeneric g (x) (:documentation \"A documentation string of several words that has to be wrapped at narrow margins.\"))"},
	{"defclass-doc-long", "(defclass c () ((s :initarg :s :documentation \"A documentation string of several words that has to be wrapped at narrow margins.\")) (:documentation \"Another documentation string of several words that has to be wrapped.\"))"},
	{"defflavor-doc-long", "(defflavor f (a) () (:documentation \"A documentation string of several words that has to be wrapped at narrow margins.\"))"},
	{"defpackage-doc-long", "(defpackage \"p\" (:documentation \"A documentation string of several words that has to be wrapped at narrow margins.\"))"},
	{"let-nested", "(let ((a-long-variable-name (let ((a-long-variable-name (let ((a-long-variable-name (let ((a-long-variable-name (let ((a-long-variable-name (let ((a-long-variable-name (let ((a-long-variable-name (let ((a-long-variable-name (let ((a-long-variable-name (let ((a-long-variable-name (let ((a-long-variable-name (let ((a-long-variable-name (let ((a-long-variable-name (let ((a-long-variable-name (let ((a-long-variable-name (let ((a-long-variable-name (let ((a-long-variable-name (let ((a-long-variable-name (let ((a-long-variable-name (let ((a-long-variable-name (let ((a-long-variable-name (let ((a-long-variable-name (let ((a-long-variable-name (let ((a-long-variable-name (let ((a-long-variable-name (let ((a-long-variable-name (let ((a-long-variable-name (let ((a-long-variable-name (let ((a-long-variable-name (let ((a-long-variable-name (let ((a-long-variable-name (let ((a-long-variable-name (let ((a-long-variable-name (let ((a-long-variable-name (let ((a-long-variable-name (let ((a-long-variable-name (let ((a-long-variable-name (let ((a-long-variable-name 'a)) 1))) 1))) 1))) 1))) 1))) 1))) 1))) 1))) 1))) 1))) 1))) 1))) 1))) 1))) 1))) 1))) 1))) 1))) 1))) 1))) 1))) 1))) 1))) 1))) 1))) 1))) 1))) 1))) 1))) 1))) 1))) 1))) 1))) 1))) 1))) 1))) 1))) 1)"},
}

// random code: a small grammar over the pp heads, names from a pool
func c19RandCode(r *lib.Rng, depth int) string {
	vars := []string{"x", "y", "acc", "n", "item", "a-long-variable-name"}
	v := func() string { return vars[r.Intn(len(vars))] }
	atom := func() string {
		switch r.Intn(8) {
		case 0:
			return fmt.Sprint(r.Intn(100) - 20)
		case 1:
			return fmt.Sprintf("%q", c19StrPool[r.Intn(6)])
		case 2:
			return "'" + c19SymPool[r.Intn(6)]
		case 3:
			return c19KeyPool[r.Intn(len(c19KeyPool))]
		case 4:
			return "nil"
		case 5:
			return "'(1 (two \"3\") . 4)"
		default:
			return v()
		}
	}
	if depth <= 0 {
		return atom()
	}
	e := func() string { return c19RandCode(r, depth-1) }
	body := func() string {
		n := 1 + r.Intn(3)
		parts := make([]string, n)
		for i := range parts {
			parts[i] = e()
		}
		return strings.Join(parts, " ")
	}
	switch r.Intn(18) {
	case 0:
		return fmt.Sprintf("(let ((%s %s) (%s %s)) %s)", v(), e(), v(), e(), body())
	case 1:
		return fmt.Sprintf("(let* ((%s %s)) %s)", v(), e(), body())
	case 2:
		return fmt.Sprintf("(cond (%s %s) ((null %s) %s) (t %s))", e(), body(), v(), e(), body())
	case 3:
		return fmt.Sprintf("(if %s %s %s)", e(), e(), e())
	case 4:
		return fmt.Sprintf("(progn %s)", body())
	case 5:
		return fmt.Sprintf("(dotimes (%s %s) %s)", v(), e(), body())
	case 6:
		return fmt.Sprintf("(dolist (%s %s) %s)", v(), e(), body())
	case 7:
		// the first body form is a call: a string there would be a documentation string
		return fmt.Sprintf("(lambda (%s &optional (%s %s)) (list %s) %s)", v(), v(), atom(), e(), body())
	case 8:
		return fmt.Sprintf("(block %s %s (return-from %s %s))", "blk", body(), "blk", e())
	case 9:
		return fmt.Sprintf("(setq %s %s)", v(), e())
	case 10:
		return fmt.Sprintf("(list %s)", body())
	case 11:
		return fmt.Sprintf("(+ %s %s)", e(), e())
	case 12:
		return fmt.Sprintf("(format nil \"~A-~A\" %s %s)", e(), e())
	case 13:
		return fmt.Sprintf("(when %s %s)", e(), body())
	case 14:
		return fmt.Sprintf("(make-instance 'thing :a %s :b %s)", e(), e())
	case 15:
		return fmt.Sprintf("(funcall (lambda (%s) (list %s)) %s)", v(), e(), e())
	case 16:
		return fmt.Sprintf("(with-output-to-string (s) %s)", body())
	default:
		return fmt.Sprintf("(cons %s %s)", e(), e())
	}
}

func c19RandDef(r *lib.Rng, shortDoc bool) (head, src string) {
	b := func() string { return c19RandCode(r, 1+r.Intn(3)) }
	doc := ""
	if r.Chance(50) {
		doc = fmt.Sprintf(" %q", c19StrPool[1+r.Intn(2)]+" documentation text")
		if shortDoc {
			doc = " \"Doc.\"" // one word: documentation strings are re-wrapped (listed finding)
		}
	}
	switch r.Intn(9) {
	case 0:
		return "defun", fmt.Sprintf("(defun fn-%d (x &optional (y %d) &key acc)%s %s %s)", r.Intn(100), r.Intn(9), doc, b(), b())
	case 1:
		return "defmacro", fmt.Sprintf("(defmacro mac-%d (x &rest n)%s (list 'progn x %s))", r.Intn(100), doc, b())
	case 2:
		return "defvar", fmt.Sprintf("(defvar *var-%d* %s%s)", r.Intn(100), b(), doc)
	case 3:
		return "defflavor", fmt.Sprintf("(defflavor fl-%d ((x %s) y (acc nil)) (base-%d) :gettable-instance-variables (:settable-instance-variables y))", r.Intn(100), c19RandCode(r, 0), r.Intn(5))
	case 4:
		return "defmethod", fmt.Sprintf("(defmethod (fl-%d :%s) (n &optional item)%s %s %s)", r.Intn(100), []string{"go", "before :go", "after :stop"}[r.Intn(3)], doc, b(), b())
	case 5:
		return "defmethod", fmt.Sprintf("(defmethod gen-%d ((x fixnum) (y string) &optional n)%s %s)", r.Intn(100), doc, b())
	case 6:
		return "defgeneric", fmt.Sprintf("(defgeneric gen-%d (x y) (:documentation \"Generic.\") (:method ((x fixnum) (y t)) %s) (:method ((x string) (y list)) %s %s))", r.Intn(100), b(), b(), b())
	case 7:
		return "defclass", fmt.Sprintf("(defclass cl-%d (base-%d) ((x :initarg :x :initform %s :accessor cl-x) (y :reader cl-y))%s)", r.Intn(100), r.Intn(5), c19RandCode(r, 0),
			[]string{"", " (:documentation \"Class.\")"}[r.Intn(2)])
	default:
		return "defconstant", fmt.Sprintf("(defconstant +k-%d+ %s%s)", r.Intn(100), b(), doc)
	}
}

func c19CheckPP(src string, margins []int, all bool) *c19Obs {
	scope := slip.NewScope()
	var code slip.Code
	ro := lib.Protect(func() slip.Object { code = slip.ReadString(src, scope); return nil })
	if !ro.Ok || len(code) != 1 {
		return &c19Obs{Aspect: "machinery", Observed: "generated code does not read: " + src + " " + ro.Msg}
	}
	form := code[0]
	return c19OverMargins(margins, all, func(m int) *c19Obs {
		back, text, o := c19PPRead(form, m)
		if o != nil {
			o.Form = src
			return o
		}
		if !c19FormEqual(form, back) {
			return &c19Obs{Aspect: "changed", Margin: m, Form: src, Observed: "read(pp(form)) = " + c19Show(back) + "  pp text:\n" + text, Expected: c19Show(form)}
		}
		return nil
	})
}

func c19RunPP(c *lib.Ctx, cases []c19PPCase, allMargins bool) {
	for i, cs := range cases {
		margins := c19Margins(c, allMargins || cs.sweep)
		o := c19CheckPP(cs.Src, margins, cs.sweep)
		c.Ev.Case("pp:"+cs.Src, strings.Count(cs.Src, "(") >= 3)
		c.Ev.Hist("pp_head", cs.Head)
		c.Ev.Count("pp_margin_checks", len(margins))
		if i%(len(cases)/4+1) == 0 {
			c.Ev.Sample(map[string]string{"leg": "pp", "form": cs.Src})
		}
		if o == nil {
			continue
		}
		if o.Aspect == "machinery" {
			fmt.Fprintln(os.Stderr, "c19:", o.Observed)
			os.Exit(2)
		}
		sig := fmt.Sprintf("pp head=%s aspect=%s", cs.Head, o.Aspect)
		if cs.sweep {
			sig = fmt.Sprintf("pp cell=%s#%d aspect=%s", cs.Head, c19PPIndex(cs.Src), c19AspectM(o, true))
		}
		c.Report(sig, cs.sweep, map[string]any{"leg": "pp", "head": cs.Head, "src": cs.Src, "sweep": cs.sweep, "input": cs.Src, "margin": o.Margin,
			"observed": o.Observed, "expected": o.Expected, "expected_from": "property statement: read(pp(margin, form)) = form"})
	}
}

// c19PPIndex is the position of a sweep form among the sweep forms with the same head.
func c19PPIndex(src string) int {
	n := 0
	head := ""
	for _, s := range c19PPSweep {
		if s.src == src {
			head = s.head
		}
	}
	for _, s := range c19PPSweep {
		if s.src == src {
			return n
		}
		if s.head == head {
			n++
		}
	}
	return -1
}

// ---------------------------------------------------------------------------------------------

func runC19(c *lib.Ctx) {
	if c.Replay != "" {
		c19Replay(c)
		return
	}
	avoid := func(container, elem string) bool {
		return c.Findings.Listed("C19", "value cell="+container+"/"+elem+" ") ||
			(container == "dotted-list" && (c.Findings.Listed("C19", "value cell=dotted-last/"+elem+" ") || c.Findings.Listed("C19", "value cell=dotted-init/"+elem+" ") || c.Findings.Listed("C19", "value cell=dotted-tail/"+elem+" "))) ||
			(container == "hash-table" && c.Findings.Listed("C19", "value cell=hash-value/"+elem+" ")) ||
			(container == "list" && c.Findings.Listed("C19", "value cell=list-head/"+elem+" "))
	}
	c19SkipMargin = func(o *c19Obs) bool {
		if c19IsIndentOverflow(c, o) {
			c.Ev.Count("composite_indent_overflow_margins_skipped", 1)
			c.Ev.Hist("indent_overflow_margin", fmt.Sprint(o.Margin/10*10))
			return true
		}
		return false
	}
	listedV := func(cell string) bool { return c.Findings.Listed("C19", "value cell="+cell+" ") }
	gctx := c19GenCtx{avoid: avoid, noEmptyVec: listedV("top/empty-vector"),
		quotedNoHash: listedV("vector/hash-table") || listedV("array/hash-table"),
		quotedNoFix:  listedV("vector/fixed-vector") || listedV("array/fixed-vector")}
	// leg A
	vcases := c19ValueSweep()
	nRandom := c.Scale(1000, 20000)
	for i := 0; i < nRandom; i++ {
		var v *c19Val
		for {
			v = c19RandVal(c.Rng, []int{1, 1, 1, 1, 2, 2, 2, 3, 3, 4}[c.Rng.Intn(10)], gctx)
			// a composite case is a container; its kind at top level must not be a listed cell either
			if v.depth() >= 1 && !c.Findings.Listed("C19", "value cell=top/"+v.kindLabel()+" ") {
				break
			}
		}
		vcases = append(vcases, c19ValCase{Val: v})
	}
	c19RunValues(c, vcases, false)
	// leg B
	var pcases []c19PPCase
	for _, s := range c19PPSweep {
		pcases = append(pcases, c19PPCase{Head: s.head, Src: s.src, sweep: true})
	}
	nCode := c.Scale(600, 12000)
	for i := 0; i < nCode; i++ {
		if c.Rng.Chance(50) {
			h, src := c19RandDef(c.Rng, c.Findings.Listed("C19", "pp cell=defun-doc-long#0 "))
			if c.Findings.Listed("C19", "pp cell="+h+"#") {
				continue
			}
			pcases = append(pcases, c19PPCase{Head: h, Src: src})
		} else {
			pcases = append(pcases, c19PPCase{Head: "code", Src: c19RandCode(c.Rng, 1+c.Rng.Intn(3))})
		}
	}
	c19RunPP(c, pcases, false)
	// leg C
	c19RunSessions(c)
	sigs := []string{}
	for _, v := range c.Violations {
		sigs = append(sigs, v.Signature)
	}
	c.Ev.Coverage["violation_signatures"] = sigs
	details := []map[string]string{}
	for i, v := range c.Violations {
		if i >= 200 {
			break
		}
		details = append(details, map[string]string{"signature": v.Signature, "input": fmt.Sprint(v.Replay["input"]),
			"observed": fmt.Sprint(v.Replay["observed"]), "expected": fmt.Sprint(v.Replay["expected"])})
	}
	c.Ev.Coverage["violation_details"] = details
	c.Ev.Coverage["traces_validated_against_impl"] = c.Ev.Coverage["evaluations"]
	c.Ev.Coverage["value_cases"] = len(vcases)
	c.Ev.Coverage["pp_cases"] = len(pcases)
	c.Ev.Coverage["limits"] = "pp layouts are not modelled: read(pp(margin, form)) = form is checked on the implementation only; sessions are correspondence, not proof"
	c.Ev.Coverage["rule"] = "values: distinct by value, non-trivial = nested (container depth >= 1); pp: distinct by form text, non-trivial = >= 3 nested lists; sessions: distinct by session text, non-trivial = >= 3 definitions of >= 2 kinds. Sweeps (seed independent): every element kind at top level and in every container position x all margins 20..120; one or more fixed forms per pp layout x all margins; one session per definition kind/variant. Composite (seeded): random nested values, random code, random sessions, avoiding the constructs listed in findings/C19.json"
}

func c19Replay(c *lib.Ctx) {
	var rec map[string]any
	path := c.Replay
	if _, err := os.Stat(path); err != nil && !filepath.IsAbs(path) {
		path = filepath.Join(c.Root, path) // the harness runs in its own directory
	}
	if err := lib.ReadJSON(path, &rec); err != nil {
		fmt.Fprintln(os.Stderr, "cannot read replay file:", err)
		os.Exit(2)
	}
	leg, _ := rec["leg"].(string)
	sweep, _ := rec["sweep"].(bool)
	switch leg {
	case "value":
		raw, _ := json.Marshal(rec["value"])
		v := &c19Val{}
		if err := json.Unmarshal(raw, v); err != nil {
			fmt.Println("replay file has no usable value:", err)
			return
		}
		cell, _ := rec["cell"].(string)
		cs := c19ValCase{Cell: cell, Val: v, sweep: sweep}
		formTerm, formText, obs := c19CheckValue(v, c19Margins(c, true), true)
		fmt.Printf("replay value %s\n  load form: %s\n", c19Show(c19SafeObject(v)), formText)
		if v.modelled() {
			rep := c.Model([]string{"lf form " + v.term().String()})
			mt, _, _ := c19ParseTerm(strings.Fields(strings.TrimPrefix(rep[0], "ok ")))
			same := formTerm != nil && mt != nil && formTerm.canon().String() == mt.canon().String()
			fmt.Printf("  load form agrees with the model: %v\n", same)
			if !same {
				c.Report(c19ValueSignature(cs, "form-shape"), false, map[string]any{"observed": formText})
			}
		}
		if obs != nil {
			fmt.Printf("  margin %d: %s\n  observed: %s\n  expected: %s\n", obs.Margin, obs.Aspect, obs.Observed, obs.Expected)
			c.Report(c19ValueSignature(cs, obs.Aspect), false, map[string]any{"observed": obs.Observed, "expected": obs.Expected})
		} else {
			fmt.Println("  the property holds for all margins 20..120")
		}
	case "pp":
		src, _ := rec["src"].(string)
		o := c19CheckPP(src, c19Margins(c, true), true)
		fmt.Printf("replay pp %s\n", src)
		if o != nil {
			fmt.Printf("  margin %d: %s\n  observed: %s\n  expected: %s\n", o.Margin, o.Aspect, o.Observed, o.Expected)
			c.Report("pp replay aspect="+o.Aspect, false, map[string]any{"observed": o.Observed, "expected": o.Expected})
		} else {
			fmt.Println("  read(pp(form)) = form for all margins 20..120")
		}
	case "session":
		c19ReplaySession(c, rec)
	default:
		fmt.Println("replay file has no leg")
	}
}
