package main

// C08 — meaning does not depend on definition order, compilation, or re-evaluation.
//
// Generated multi-definition programs (2–5 defuns: callers before callees, self and mutual
// recursion, bodies from a small arithmetic / conditional / let language whose arguments matter)
// are turned into *histories* (definitions, evaluations, re-evaluations of kept objects,
// redefinitions, late definitions, new callers) and run on the real implementation
//   × every permutation of the initial definitions (all for ≤ 4, sampled above)
//   × the evaluation modes of c08Modes (list form / same list object / Code.Compile / batch
//     two-phase compile / code compiled before its functions exist …).
// Every variant must give the outcomes of the Lean model (SlipVerif.Model.Compile, entry
// `comp run`, the history through the modelled compile/placeholder/patch mechanism; `comp direct`
// is the direct reference evaluator) and therefore the outcomes of every other variant.
// The implementation runs in worker processes (function tables are process-global; a Go fatal
// error such as a stack overflow must not take the harness down).

import (
	"bufio"
	"encoding/json"
	"fmt"
	"io"
	"os"
	"os/exec"
	"path/filepath"
	"runtime"
	"runtime/debug"
	"runtime/pprof"
	"strconv"
	"strings"
	"sync"
	"time"

	"github.com/ohler55/slip"
	"verif/harness/lib"
)

func init() {
	props["C08"] = runC08
	props["C08-worker"] = c08Worker
}

// ---------------------------------------------------------------------------------------------
// programs

type c08Expr struct {
	Kind  string     `json:"k"` // const | kw | var | prim | if | let | call
	N     int64      `json:"n,omitempty"`
	Name  string     `json:"s,omitempty"` // var name, keyword, prim op, let variable, callee
	Args  []*c08Expr `json:"a,omitempty"` // prim: 2, if: 3, let: init, body; call: arguments
	Style int        `json:"y,omitempty"` // how the implementation text spells a let / an if (the meaning is the same)
	Sp    int        `json:"p,omitempty"` // call: spelling of the function symbol (letter case, package prefix)
}

// let styles: (let ((x v)) b) | (let* ((x v)) b) | (funcall (lambda (x) b) v) | ((lambda (x) b) v)
// if styles:  (if c t e) | (cond (c t) (t e))
const (
	c08LetPlain = iota
	c08LetStar
	c08LetFuncall
	c08LetLambda
	c08LetStyles
)

// a parameter with a constant default (&optional / &key)
type c08Default struct {
	Name string `json:"name"`
	Val  int64  `json:"val"`
}

// an &aux variable with its init form
type c08Aux struct {
	Name string   `json:"name"`
	Init *c08Expr `json:"init"`
}

type c08Def struct {
	Name   string       `json:"name"`
	Params []string     `json:"params"` // required parameters
	Opt    []c08Default `json:"opt,omitempty"`
	Key    []c08Default `json:"key,omitempty"`
	Aux    []c08Aux     `json:"aux,omitempty"`
	Body   *c08Expr     `json:"body"`
	Binds  []c08Aux     `json:"binds,omitempty"` // (let (binds) (defun …)): variables captured by the definition
	Sp     int          `json:"sp,omitempty"`    // spelling of the name in the defun form
	Macro  bool         `json:"macro,omitempty"` // (defmacro name () body): a macro without parameters — for the model a function without parameters
	// implementation-only spellings of a definition (the model always sees a plain defun):
	// Tmpl: (defmacro name (n a) `(let ((n ,n) (a ,a)) body)) — a macro with parameters whose body is a
	// backquote template; every argument form is evaluated once, left to right, in the caller's
	// environment and the body sees the parameters: the meaning of the function (no &aux, no captured
	// variables). The template is expanded and the expansion evaluated on every call.
	Tmpl bool `json:"tmpl,omitempty"`
	// Via: the defining form is a sub-form of a persistent code object: 1 (progn def), 2 (when t def),
	// 3 the body of an installer function (defun inst () def) (inst). A step with Re set evaluates the
	// code object of an earlier step with the same definition again.
	Via int `json:"via,omitempty"`
	Ser int `json:"ser,omitempty"` // number of the installer function
}

const (
	c08ViaPlain = iota
	c08ViaProgn
	c08ViaWhen
	c08ViaInstaller
	c08Vias
)

// a definition whose defining form lives inside a code object that can be evaluated again
func (d *c08Def) wrapped() bool { return d.Via != c08ViaPlain || len(d.Binds) > 0 }

// the defining form: a macro without parameters is, for the model, a function without parameters
func (d *c08Def) definer(styled bool) string {
	if (d.Macro || d.Tmpl) && styled {
		return "defmacro"
	}
	return "defun"
}

// every variable a body may use
func (d *c08Def) vars() []string {
	vs := append([]string{}, d.Params...)
	for _, o := range d.Opt {
		vs = append(vs, o.Name)
	}
	for _, k := range d.Key {
		vs = append(vs, k.Name)
	}
	for _, a := range d.Aux {
		vs = append(vs, a.Name)
	}
	for _, b := range d.Binds {
		vs = append(vs, b.Name)
	}
	return vs
}

// c08Spell spells a symbol: bit 0 of sp = package prefix (call sites only), the other bits = which
// letters are upper case (cyclically). Symbols are case-insensitive; cl-user is the current package.
func c08Spell(name string, sp int) string {
	if sp == 0 {
		return name
	}
	mask := sp >> 2
	b := []byte(name)
	k := 0
	for i, ch := range b {
		if ch >= 'a' && ch <= 'z' {
			if mask>>(k%12)&1 == 1 {
				b[i] = ch - 32
			}
			k++
		}
	}
	switch sp & 3 {
	case 1:
		return "common-lisp-user::" + string(b)
	case 2:
		return "CL-User::" + string(b)
	}
	return string(b)
}

// a step of a history
type c08Step struct {
	Kind string   `json:"kind"` // def | undef | setvar | eval | again
	VarKind string `json:"varkind,omitempty"` // setvar: defvar | defparameter | setq (Name = the variable, Expr = the init form)
	Def  *c08Def  `json:"def,omitempty"`
	Expr *c08Expr `json:"expr,omitempty"`
	J    int      `json:"j,omitempty"`    // again: index among the eval steps so far
	Name string   `json:"name,omitempty"` // undef: the function
	Sp   int      `json:"sp,omitempty"`   // undef: spelling of the symbol
	Tag  string   `json:"tag,omitempty"`
	Re   bool     `json:"re,omitempty"` // def: the code object of an earlier def step with this definition is evaluated again
}

func c08Const(n int64) *c08Expr { return &c08Expr{Kind: "const", N: n} }
func c08Var(s string) *c08Expr  { return &c08Expr{Kind: "var", Name: s} }
func c08Kw(s string) *c08Expr   { return &c08Expr{Kind: "kw", Name: s} }
func c08Prim(op string, a, b *c08Expr) *c08Expr {
	return &c08Expr{Kind: "prim", Name: op, Args: []*c08Expr{a, b}}
}
func c08If(c, t, e *c08Expr) *c08Expr { return &c08Expr{Kind: "if", Args: []*c08Expr{c, t, e}} }
func c08Let(x string, v, b *c08Expr) *c08Expr {
	return &c08Expr{Kind: "let", Name: x, Args: []*c08Expr{v, b}}
}
func c08Call(f string, args ...*c08Expr) *c08Expr { return &c08Expr{Kind: "call", Name: f, Args: args} }

// render as Lisp text; function names go through mangle. The model text (styled = false) always
// uses plain let / if; the implementation text (styled = true) uses the recorded spelling.
func (e *c08Expr) render(b *strings.Builder, mangle func(string) string, styled bool) {
	sub := func(x *c08Expr) { x.render(b, mangle, styled) }
	switch e.Kind {
	case "const":
		b.WriteString(strconv.FormatInt(e.N, 10))
	case "kw":
		b.WriteString(":" + e.Name)
	case "var":
		b.WriteString(c08VarName(e.Name, mangle, styled))
	case "prim":
		b.WriteString("(" + e.Name + " ")
		sub(e.Args[0])
		b.WriteByte(' ')
		sub(e.Args[1])
		b.WriteByte(')')
	case "if":
		if styled && e.Style == 1 {
			b.WriteString("(cond (")
			sub(e.Args[0])
			b.WriteByte(' ')
			sub(e.Args[1])
			b.WriteString(") (t ")
			sub(e.Args[2])
			b.WriteString("))")
			return
		}
		b.WriteString("(if ")
		sub(e.Args[0])
		b.WriteByte(' ')
		sub(e.Args[1])
		b.WriteByte(' ')
		sub(e.Args[2])
		b.WriteByte(')')
	case "let":
		style := e.Style
		if !styled {
			style = c08LetPlain
		}
		switch style {
		case c08LetStar:
			// consecutive let* bindings are merged into one form
			b.WriteString("(let* (")
			cur := e
			for {
				b.WriteString("(" + cur.Name + " ")
				sub(cur.Args[0])
				b.WriteByte(')')
				if nx := cur.Args[1]; nx.Kind == "let" && nx.Style == c08LetStar {
					b.WriteByte(' ')
					cur = nx
					continue
				}
				break
			}
			b.WriteString(") ")
			sub(cur.Args[1])
			b.WriteByte(')')
		case c08LetFuncall, c08LetLambda:
			if style == c08LetFuncall {
				b.WriteString("(funcall (lambda (" + e.Name + ") ")
			} else {
				b.WriteString("((lambda (" + e.Name + ") ")
			}
			sub(e.Args[1])
			b.WriteString(") ")
			sub(e.Args[0])
			b.WriteByte(')')
		default:
			b.WriteString("(let ((" + e.Name + " ")
			sub(e.Args[0])
			b.WriteString(")) ")
			sub(e.Args[1])
			b.WriteByte(')')
		}
	case "call":
		b.WriteString("(" + c08Spell(mangle(e.Name), e.Sp))
		for _, a := range e.Args {
			b.WriteByte(' ')
			sub(a)
		}
		b.WriteByte(')')
	}
}

// variables named uq… are unique per variant in the implementation text (slip keeps per-name
// global variable entries: see the cell lambda-form-bare-variable)
func c08VarName(name string, mangle func(string) string, styled bool) string {
	if styled && strings.HasPrefix(name, "uq") {
		return mangle(name)
	}
	return name
}

const c08TmplPrefix = "mp-"

func (d *c08Def) lambdaList(b *strings.Builder, mangle func(string) string, styled bool) {
	// the parameters of a template macro get names of their own: slip evaluates the expansion in the
	// macro's scope, where a parameter named like a variable of the caller would hide it (the
	// parameter is bound to the argument form)
	pre := ""
	if styled && d.Tmpl {
		pre = c08TmplPrefix
	}
	ps := make([]string, len(d.Params))
	for i, p := range d.Params {
		ps[i] = pre + c08VarName(p, mangle, styled)
	}
	b.WriteString(strings.Join(ps, " "))
	sep := func() {
		if b.Len() > 0 && !strings.HasSuffix(b.String(), "(") {
			b.WriteByte(' ')
		}
	}
	defaults := func(word string, ds []c08Default) {
		if len(ds) == 0 {
			return
		}
		sep()
		b.WriteString(word)
		for _, o := range ds {
			fmt.Fprintf(b, " (%s%s %d)", pre, o.Name, o.Val)
		}
	}
	defaults("&optional", d.Opt)
	defaults("&key", d.Key)
	if len(d.Aux) > 0 {
		sep()
		b.WriteString("&aux")
		for _, a := range d.Aux {
			b.WriteString(" (" + a.Name + " ")
			a.Init.render(b, mangle, styled)
			b.WriteByte(')')
		}
	}
}

// text of a step: styled = the implementation's spelling (fmakunbound, let styles), else the model's
func (s c08Step) text(mangle func(string) string, styled bool) string {
	var b strings.Builder
	switch s.Kind {
	case "def":
		var ll strings.Builder
		s.Def.lambdaList(&ll, mangle, styled)
		name := c08Spell(mangle(s.Def.Name), s.Def.Sp)
		if styled && s.Def.Tmpl {
			name = c08Spell(mangle(s.Def.Name), s.Def.Sp&^3) // defmacro takes no package prefix
		}
		body := func() {
			if styled && s.Def.Tmpl {
				// the parameters are bound by a let in the template: `(let ((n ,n) (a ,a)) body)
				b.WriteString("`(let (")
				ps := append([]string{}, s.Def.Params...)
				for _, o := range s.Def.Opt {
					ps = append(ps, o.Name)
				}
				for i, v := range ps {
					if i > 0 {
						b.WriteByte(' ')
					}
					vn := c08VarName(v, mangle, styled)
					b.WriteString("(" + vn + " ," + c08TmplPrefix + vn + ")")
				}
				b.WriteString(") ")
				s.Def.Body.render(&b, mangle, styled)
				b.WriteByte(')')
				return
			}
			s.Def.Body.render(&b, mangle, styled)
		}
		if len(s.Def.Binds) > 0 {
			var bs strings.Builder
			for i, bd := range s.Def.Binds {
				if i > 0 {
					bs.WriteByte(' ')
				}
				bs.WriteString("(" + c08VarName(bd.Name, mangle, styled) + " ")
				bd.Init.render(&bs, mangle, styled)
				bs.WriteByte(')')
			}
			if styled {
				b.WriteString("(let (" + bs.String() + ") (" + s.Def.definer(styled) + " " + name + " (" + ll.String() + ") ")
				body()
				b.WriteString("))")
			} else {
				b.WriteString("(defun-in (" + bs.String() + ") " + name + " (" + ll.String() + ") ")
				body()
				b.WriteByte(')')
			}
			break
		}
		inst := ""
		if styled {
			switch s.Def.Via {
			case c08ViaProgn:
				b.WriteString("(progn ")
			case c08ViaWhen:
				b.WriteString("(when t ")
			case c08ViaInstaller:
				inst = mangle(fmt.Sprintf("inst%d", s.Def.Ser))
				if s.Re {
					// the installer exists: its body, the defining form, is evaluated again
					b.WriteString("(" + inst + ")")
					return b.String()
				}
				b.WriteString("(defun " + inst + " () ")
			}
		}
		b.WriteString("(" + s.Def.definer(styled) + " " + name + " (" + ll.String() + ") ")
		body()
		b.WriteByte(')')
		if styled && s.Def.Via != c08ViaPlain {
			b.WriteByte(')')
			if inst != "" {
				b.WriteString(" (" + inst + ")")
			}
		}
	case "undef":
		name := c08Spell(mangle(s.Name), s.Sp&^3)
		if styled {
			b.WriteString("(fmakunbound '" + name + ")")
		} else {
			b.WriteString("(undef " + name + ")")
		}
	case "setvar":
		b.WriteString("(" + s.VarKind + " " + c08VarName(s.Name, mangle, styled) + " ")
		s.Expr.render(&b, mangle, styled)
		b.WriteByte(')')
	case "eval":
		s.Expr.render(&b, mangle, styled)
	case "again":
		fmt.Fprintf(&b, "(again %d)", s.J)
	}
	return b.String()
}

func c08Ident(s string) string { return s }

func c08HistoryText(steps []c08Step) string {
	parts := make([]string, len(steps))
	for i, s := range steps {
		parts[i] = s.text(c08Ident, false)
	}
	return strings.Join(parts, " ")
}

// the history as the implementation gets it (canonical names)
func c08ImplText(steps []c08Step) string {
	parts := make([]string, len(steps))
	for i, s := range steps {
		parts[i] = s.text(c08Ident, true)
	}
	return strings.Join(parts, " ")
}

func (e *c08Expr) size() int {
	n := 1
	for _, a := range e.Args {
		n += a.size()
	}
	return n
}

func (e *c08Expr) depth() int {
	d := 0
	for _, a := range e.Args {
		if x := a.depth(); x > d {
			d = x
		}
	}
	return d + 1
}

// call sites of e: callee name and whether the site is at a compile position (reached from the
// root through arguments of ordinary functions only — CompileList/CompileArgs resolve it when the
// enclosing defun or top-level form is compiled) or inside a special form (resolved lazily).
func (e *c08Expr) sites(compilePos bool, out *[][2]string) {
	switch e.Kind {
	case "call":
		pos := "lazy"
		if compilePos {
			pos = "compiled"
		}
		*out = append(*out, [2]string{e.Name, pos})
		for _, a := range e.Args {
			a.sites(compilePos, out)
		}
	case "prim":
		for _, a := range e.Args {
			a.sites(compilePos, out)
		}
	case "if", "let":
		for _, a := range e.Args {
			a.sites(false, out)
		}
	}
}

// call sites of a definition: the body is compiled with the defun, the &aux init forms are
// converted on every call (lazy)
func (d *c08Def) sites(out *[][2]string) {
	d.Body.sites(true, out)
	for _, a := range d.Aux {
		a.Init.sites(false, out)
	}
	for _, b := range d.Binds {
		b.Init.sites(false, out)
	}
}

// ---------------------------------------------------------------------------------------------
// admissibility filter: a plain evaluator used ONLY to keep generated histories inside the domain
// in which the comparison is meaningful (terminating, few steps, no fixnum overflow — that is
// C05's business). It is not an oracle: expected results come from the Lean model.

type c08Filter struct {
	globals map[string]c08V // global variables (defvar / defparameter / setq at top level)
	defs  map[string]*c08Def
	cenv  map[string]map[string]c08V // captured variables of the current definition of a name
	steps int
	ok    bool
}

const c08MaxSteps = 500
const c08MaxMag = int64(1) << 40

type c08V struct {
	kind byte // 'i' int, 'n' nil, 't' t, 'k' keyword
	n    int64
	s    string
}

func (f *c08Filter) eval(e *c08Expr, env map[string]c08V, depth int) (c08V, bool) {
	f.steps++
	if f.steps > c08MaxSteps || depth > 150 {
		f.ok = false
		return c08V{}, false
	}
	switch e.Kind {
	case "const":
		return c08V{kind: 'i', n: e.N}, true
	case "kw":
		return c08V{kind: 'k', s: e.Name}, true
	case "var":
		v, has := env[e.Name]
		if !has {
			v, has = f.globals[e.Name]
		}
		return v, has
	case "prim":
		a, ok := f.eval(e.Args[0], env, depth+1)
		if !ok {
			return a, false
		}
		b, ok := f.eval(e.Args[1], env, depth+1)
		if !ok {
			return b, false
		}
		if a.kind != 'i' || b.kind != 'i' {
			f.ok = false // type error: not generated on purpose
			return c08V{}, false
		}
		var r int64
		switch e.Name {
		case "+":
			r = a.n + b.n
		case "-":
			r = a.n - b.n
		case "*":
			// operands are bounded by c08MaxMag (2^40): the product must be checked before it can wrap
			ua, ub := a.n, b.n
			if ua < 0 {
				ua = -ua
			}
			if ub < 0 {
				ub = -ub
			}
			if ua != 0 && ub > c08MaxMag/ua {
				f.ok = false
				return c08V{}, false
			}
			r = a.n * b.n
		case "<":
			if a.n < b.n {
				return c08V{kind: 't'}, true
			}
			return c08V{kind: 'n'}, true
		case "=":
			if a.n == b.n {
				return c08V{kind: 't'}, true
			}
			return c08V{kind: 'n'}, true
		}
		if r > c08MaxMag || r < -c08MaxMag {
			f.ok = false
			return c08V{}, false
		}
		return c08V{kind: 'i', n: r}, true
	case "if":
		c, ok := f.eval(e.Args[0], env, depth+1)
		if !ok {
			return c, false
		}
		if c.kind == 'n' {
			return f.eval(e.Args[2], env, depth+1)
		}
		return f.eval(e.Args[1], env, depth+1)
	case "let":
		f.steps += 3 // the funcall / lambda spellings evaluate a few more forms
		v, ok := f.eval(e.Args[0], env, depth+1)
		if !ok {
			return v, false
		}
		env2 := make(map[string]c08V, len(env)+1)
		for k, x := range env {
			env2[k] = x
		}
		env2[e.Name] = v
		return f.eval(e.Args[1], env2, depth+1)
	case "call":
		d := f.defs[e.Name]
		if d == nil {
			return c08V{}, false // undefined function: an error outcome, admissible
		}
		var vals []c08V
		for _, a := range e.Args {
			v, ok := f.eval(a, env, depth+1)
			if !ok {
				return v, false
			}
			vals = append(vals, v)
		}
		if d.Tmpl {
			f.steps += 3 + len(d.vars())
		}
		env2, okb := c08Bind(d, vals)
		if !okb {
			f.ok = false // wrong argument count / malformed keywords: not generated on purpose
			return c08V{}, false
		}
		for k, v := range f.cenv[e.Name] {
			if _, has := env2[k]; !has {
				env2[k] = v
			}
		}
		for _, a := range d.Aux {
			v, ok := f.eval(a.Init, env2, depth+1)
			if !ok {
				return v, false
			}
			env2[a.Name] = v
		}
		return f.eval(d.Body, env2, depth+1)
	}
	f.ok = false
	return c08V{}, false
}

// c08Bind binds argument values to the lambda list the way the generator intends them: required,
// then &optional positionally, then :key value pairs (each key at most once, only known keys,
// only after all optionals were supplied).
func c08Bind(d *c08Def, vals []c08V) (map[string]c08V, bool) {
	env := map[string]c08V{}
	if len(vals) < len(d.Params) {
		return nil, false
	}
	for i, p := range d.Params {
		if vals[i].kind == 'k' {
			return nil, false
		}
		env[p] = vals[i]
	}
	rest := vals[len(d.Params):]
	for _, o := range d.Opt {
		if len(rest) > 0 {
			if rest[0].kind == 'k' {
				return nil, false
			}
			env[o.Name] = rest[0]
			rest = rest[1:]
		} else {
			env[o.Name] = c08V{kind: 'i', n: o.Val}
		}
	}
	if len(rest)%2 != 0 {
		return nil, false
	}
	seen := map[string]bool{}
	for i := 0; i < len(rest); i += 2 {
		if rest[i].kind != 'k' || rest[i+1].kind == 'k' || seen[rest[i].s] {
			return nil, false
		}
		known := false
		for _, k := range d.Key {
			if k.Name == rest[i].s {
				known = true
			}
		}
		if !known {
			return nil, false
		}
		seen[rest[i].s] = true
		env[rest[i].s] = rest[i+1]
	}
	for _, k := range d.Key {
		if !seen[k.Name] {
			env[k.Name] = c08V{kind: 'i', n: k.Val}
		}
	}
	return env, true
}

// c08Admissible runs the history through the filter.
func c08Admissible(steps []c08Step) bool {
	f := &c08Filter{defs: map[string]*c08Def{}, cenv: map[string]map[string]c08V{}, globals: map[string]c08V{}, ok: true}
	var exprs []*c08Expr
	total := 0
	for _, s := range steps {
		f.steps = 0
		switch s.Kind {
		case "def":
			cenv := map[string]c08V{}
			okd := true
			for _, bd := range s.Def.Binds {
				v, ok := f.eval(bd.Init, map[string]c08V{}, 0)
				if !ok {
					okd = false // the let fails: the function is not (re)defined
					break
				}
				cenv[bd.Name] = v
			}
			if okd {
				f.defs[s.Def.Name] = s.Def
				f.cenv[s.Def.Name] = cenv
			}
		case "undef":
			delete(f.defs, s.Name)
			delete(f.cenv, s.Name)
		case "setvar":
			if _, bound := f.globals[s.Name]; bound && s.VarKind == "defvar" {
				break // defvar of a bound variable: nothing is evaluated
			}
			if v, ok := f.eval(s.Expr, map[string]c08V{}, 0); ok {
				f.globals[s.Name] = v
			}
		case "eval":
			exprs = append(exprs, s.Expr)
			f.eval(s.Expr, map[string]c08V{}, 0)
		case "again":
			if s.J >= len(exprs) {
				return false
			}
			f.eval(exprs[s.J], map[string]c08V{}, 0)
		}
		total += f.steps
		if !f.ok || total > 6*c08MaxSteps {
			return false
		}
	}
	return true
}

// ---------------------------------------------------------------------------------------------
// generator

type c08Program struct {
	Vars   []c08Step // initial definitions of the global variables (constant / arithmetic init forms)
	VarPos int       // where they go among the function definitions (varies with the permutation)
	Defs   []*c08Def // initial definitions, canonical order f0..fk-1 (rank order)
	Tail   []c08Step // what follows the initial definitions
	Shape  string
	Events []string
}

type c08Gen struct {
	serN int // installer functions of the current program
	globals []string // global variables of the program (uqg0, uqg1: unique per variant in the implementation text)
	noCalls bool     // the definition being filled captures a variable that shadows a global one: no calls
	capN  int // captured variables get names that are unique in the program (c0, d0, c1, …)
	rng   *lib.Rng
	funcs []*c08Def // signatures of the functions that may be called (params known)
}

var c08LetVars = []string{"x", "y", "z"}

// expression over vars; i = rank of the function being generated (-1: top level);
// guarded: calls to functions of rank <= i are allowed (with counter (- n 1)).
func (g *c08Gen) expr(i int, depth int, vars []string, guarded bool, wantCall bool) *c08Expr {
	r := g.rng
	leaf := func() *c08Expr {
		if len(vars) > 0 && r.Chance(65) {
			return c08Var(vars[r.Intn(len(vars))])
		}
		return c08Const(int64(r.Intn(13)) - 3)
	}
	if depth <= 0 {
		return leaf()
	}
	choice := r.Intn(100)
	if wantCall {
		choice = 60 + r.Intn(40)
	}
	switch {
	case choice < 14:
		return leaf()
	case choice < 36:
		op := []string{"+", "+", "-", "-", "*"}[r.Intn(5)]
		a := g.expr(i, depth-1, vars, guarded, false)
		b := g.expr(i, depth-1, vars, guarded, false)
		if op == "*" && r.Chance(70) {
			b = c08Const(int64(r.Intn(3)) + 2)
		}
		return c08Prim(op, a, b)
	case choice < 48:
		op := []string{"<", "="}[r.Intn(2)]
		c := c08Prim(op, g.expr(i, depth-1, vars, guarded, false), g.expr(i, depth-1, vars, guarded, false))
		e := c08If(c, g.expr(i, depth-1, vars, guarded, false), g.expr(i, depth-1, vars, guarded, false))
		if r.Chance(30) {
			e.Style = 1
		}
		return e
	case choice < 62:
		x := c08LetVars[r.Intn(len(c08LetVars))]
		v := g.expr(i, depth-1, vars, guarded, false)
		nv := append(append([]string{}, vars...), x)
		e := c08Let(x, v, g.expr(i, depth-1, nv, guarded, false))
		e.Style = []int{c08LetPlain, c08LetPlain, c08LetStar, c08LetStar, c08LetFuncall, c08LetLambda}[r.Intn(6)]
		if e.Style == c08LetLambda && e.Args[1].Kind == "var" && e.Args[1].Name != x {
			// listed finding (cell lambda-form-bare-variable): composite cases avoid the construct
			e.Style = c08LetFuncall
		}
		return e
	default:
		return g.call(i, depth, vars, guarded)
	}
}

func c08Has(vars []string, v string) bool {
	for _, x := range vars {
		if x == v {
			return true
		}
	}
	return false
}

// a call of a user function that keeps the program terminating: rank > i with counter n or
// (- n 1); rank <= i only when guarded, with counter (- n 1). At top level (i = -1) the counter
// is a small constant. Optional arguments are supplied from the left with some probability,
// keyword arguments (in any order) only when all optional ones are supplied.
func (g *c08Gen) call(i int, depth int, vars []string, guarded bool) *c08Expr {
	r := g.rng
	if g.noCalls {
		// slip looks a free variable up through the scopes of the callers before the closure and the
		// globals (C01's business): a function whose closure shadows a global variable calls nothing
		return c08Prim("+", g.expr(i, depth-1, vars, guarded, false), c08Const(1))
	}
	var cands []int
	for j := range g.funcs {
		if j > i || guarded {
			cands = append(cands, j)
		}
	}
	if len(cands) == 0 {
		if i >= 0 && c08Has(vars, "n") && !guarded && depth > 1 {
			// open a guard so that recursion becomes possible
			return c08If(c08Prim("<", c08Var("n"), c08Const(1)), g.expr(i, depth-1, vars, false, false), g.expr(i, depth-1, vars, true, true))
		}
		return c08Prim("+", g.expr(i, depth-1, vars, guarded, false), c08Const(1))
	}
	j := cands[r.Intn(len(cands))]
	if guarded && r.Chance(60) {
		// prefer recursion / back edges when they are allowed
		var back []int
		for _, c := range cands {
			if c <= i {
				back = append(back, c)
			}
		}
		if len(back) > 0 {
			j = back[r.Intn(len(back))]
		}
	}
	var counter *c08Expr
	switch {
	case i < 0 || !c08Has(vars, "n"):
		counter = c08Const(int64(r.Intn(4)))
	case j <= i:
		counter = c08Prim("-", c08Var("n"), c08Const(1))
	default:
		if r.Chance(50) {
			counter = c08Var("n")
		} else {
			counter = c08Prim("-", c08Var("n"), c08Const(1))
		}
	}
	return g.callOf(g.funcs[j], counter, func() *c08Expr { return g.expr(i, depth-2, vars, guarded, false) })
}

// callOf builds the argument list for callee from its lambda list.
func (g *c08Gen) callOf(callee *c08Def, counter *c08Expr, arg func() *c08Expr) *c08Expr {
	r := g.rng
	var args []*c08Expr
	if len(callee.Params) > 0 {
		args = append(args, counter)
	}
	for k := 1; k < len(callee.Params); k++ {
		args = append(args, arg())
	}
	supplied := 0
	for supplied < len(callee.Opt) && r.Chance(55) {
		args = append(args, arg())
		supplied++
	}
	if supplied == len(callee.Opt) && len(callee.Key) > 0 {
		order := r.Intn(2)
		for q := range callee.Key {
			k := callee.Key[(q+order)%len(callee.Key)]
			if r.Chance(45) {
				args = append(args, c08Kw(k.Name), arg())
			}
		}
	}
	e := c08Call(callee.Name, args...)
	e.Sp = g.spelling(true)
	return e
}

// spelling of a function symbol: mostly as defined, sometimes other letter case, at call sites
// sometimes with the package prefix
func (g *c08Gen) spelling(callSite bool) int {
	r := g.rng
	if !r.Chance(22) {
		return 0
	}
	sp := (r.Intn(4095) + 1) << 2
	if callSite && r.Chance(35) {
		sp |= 1 + r.Intn(2)
	}
	return sp
}

// lambda list of a generated function: the counter n, up to two more required parameters and
// sometimes &optional / &key parameters with constant defaults
func (g *c08Gen) signature(name string) *c08Def {
	r := g.rng
	d := &c08Def{Name: name, Params: []string{"n"}, Sp: g.spelling(true)}
	d.Params = append(d.Params, []string{"a", "b"}[:r.Intn(3)]...)
	if r.Chance(30) {
		for _, o := range []string{"o", "p"}[:1+r.Intn(2)] {
			d.Opt = append(d.Opt, c08Default{Name: o, Val: int64(r.Intn(9)) - 2})
		}
	}
	if r.Chance(25) {
		for _, k := range []string{"k", "m"}[:1+r.Intn(2)] {
			d.Key = append(d.Key, c08Default{Name: k, Val: int64(r.Intn(9)) - 2})
		}
	}
	return d
}

// &aux variables (init forms evaluated on every call, may call functions of higher rank) and body
func (g *c08Gen) fill(i int, d *c08Def, callsInBinds bool) {
	r := g.rng
	d.Aux = nil
	d.Binds = nil
	g.noCalls = false
	defer func() { g.noCalls = false }()
	if r.Chance(25) {
		// the defun sits inside a let and captures its variables
		shadow := ""
		if len(g.globals) > 0 && r.Chance(40) {
			// the captured variable has the name of a global one: the body sees the captured value; a
			// later definition of the same function outside a let sees the global value again
			shadow = g.globals[r.Intn(len(g.globals))]
			g.noCalls = true
		}
		for q, x := range []string{"c", "d"}[:1+r.Intn(2)] {
			if q == 0 && shadow != "" {
				d.Binds = append(d.Binds, c08Aux{Name: shadow, Init: c08Const(int64(r.Intn(13)) - 3)})
				continue
			}
			var init *c08Expr
			switch {
			case callsInBinds && r.Chance(40):
				init = g.expr(-1, 2, nil, false, true)
			case r.Chance(50):
				init = c08Prim("+", c08Const(int64(r.Intn(9))), c08Const(int64(r.Intn(5))))
			default:
				init = c08Const(int64(r.Intn(13)) - 3)
			}
			d.Binds = append(d.Binds, c08Aux{Name: fmt.Sprintf("%s%d", x, g.capN), Init: init})
		}
		g.capN++
	}
	vars := d.vars()
	for _, gv := range g.globals {
		if !c08Has(vars, gv) {
			vars = append(vars, gv) // free variables of the body: the global value at the time of the call
		}
	}
	if r.Chance(35) && !d.Macro {
		for _, x := range []string{"u", "w"}[:1+r.Intn(2)] {
			init := g.expr(i, 1+r.Intn(2), vars, false, r.Chance(30))
			if init.Kind == "const" || init.Kind == "var" || (init.Kind == "call" && len(init.Args) == 0) {
				// slip evaluates an &aux init only when it is a list form with at least two elements
				init = c08Prim("+", init, c08Const(int64(r.Intn(5))))
			}
			d.Aux = append(d.Aux, c08Aux{Name: x, Init: init})
			vars = append(vars, x)
		}
	}
	d.Body = g.body(i, vars)
	d.Tmpl, d.Via = false, c08ViaPlain
	if !d.Macro && len(d.Aux) == 0 && len(d.Binds) == 0 && len(d.Key) == 0 && r.Chance(22) {
		// the function is spelled as a macro with a backquote template (same meaning: see c08Def.Tmpl)
		d.Tmpl = true
	}
	if len(d.Binds) == 0 && r.Chance(25) {
		// the defining form is a sub-form of a code object (progn, when, body of an installer function)
		d.Via = 1 + r.Intn(c08Vias-1)
		d.Ser = g.serN
		g.serN++
	}
}

// body of function i
func (g *c08Gen) body(i int, params []string) *c08Expr {
	r := g.rng
	depth := 2 + r.Intn(3)
	hasN := c08Has(params, "n")
	if len(g.globals) > 0 && r.Chance(12) {
		// the body is the bare symbol of a global variable: Lambda.Compile stores the variable entry
		// itself when the variable does not exist yet
		return c08Var(g.globals[r.Intn(len(g.globals))])
	}
	switch r.Intn(10) {
	case 0, 1, 2:
		if !hasN {
			return g.expr(i, depth, params, false, false)
		}
		// guard at the top: recursion allowed in the else branch
		return c08If(c08Prim("<", c08Var("n"), c08Const(1)), g.expr(i, depth-1, params, false, false), g.expr(i, depth, params, true, true))
	case 3, 4:
		// a call at the top of the body: compiled when the defun is evaluated
		if i+1 < len(g.funcs) {
			return g.call(i, depth, params, false)
		}
		return g.expr(i, depth, params, false, false)
	case 5, 6:
		// a call as argument of an ordinary function: compiled with the defun as well
		if i+1 < len(g.funcs) {
			return c08Prim([]string{"+", "-"}[r.Intn(2)], g.call(i, depth, params, false), g.expr(i, depth-1, params, false, false))
		}
		return g.expr(i, depth, params, false, false)
	default:
		return g.expr(i, depth, params, false, false)
	}
}

func (g *c08Gen) program() *c08Program {
	r := g.rng
	k := 2 + r.Intn(4)
	if r.Chance(25) {
		k = 2 + r.Intn(2)
	}
	g.funcs = nil
	for i := 0; i < k; i++ {
		g.funcs = append(g.funcs, g.signature(fmt.Sprintf("f%d", i)))
	}
	if r.Chance(25) {
		// a macro without parameters as the function of the highest rank (it calls nothing): defmacro
		// registers, patches and shares the Lambda of the name the way defun does
		g.funcs = append(g.funcs, &c08Def{Name: "mc", Macro: true, Sp: g.spelling(false)})
	}
	g.capN = 0
	g.serN = 0
	g.globals = nil
	if r.Chance(45) {
		g.globals = []string{"uqg0", "uqg1"}[:1+r.Intn(2)]
	}
	for i, d := range g.funcs {
		g.fill(i, d, false)
	}
	p := &c08Program{Defs: g.funcs, VarPos: r.Intn(8)}
	varKinds := []string{"defvar", "defparameter", "setq"}
	for _, gv := range g.globals {
		// defined anywhere among the function definitions: before or after the functions that read them
		init := c08Const(int64(r.Intn(21)) - 5)
		if r.Chance(30) {
			init = c08Prim([]string{"+", "-", "*"}[r.Intn(3)], c08Const(int64(r.Intn(9))), c08Const(int64(r.Intn(5))))
		}
		p.Vars = append(p.Vars, c08Step{Kind: "setvar", VarKind: varKinds[r.Intn(3)], Name: gv, Expr: init})
	}
	// body expressions
	nb := 1 + r.Intn(3)
	nEval := 0
	evalStep := func(e *c08Expr) {
		p.Tail = append(p.Tail, c08Step{Kind: "eval", Expr: e})
		nEval++
	}
	againAll := func() {
		for j := 0; j < nEval; j++ {
			p.Tail = append(p.Tail, c08Step{Kind: "again", J: j})
		}
	}
	for b := 0; b < nb; b++ {
		evalStep(g.expr(-1, 2, g.globals, false, true))
	}
	// re-evaluation rounds
	rounds := []int{0, 0, 1, 2, 4}[r.Intn(5)]
	for q := 0; q < rounds; q++ {
		againAll()
	}
	if rounds > 0 {
		p.Events = append(p.Events, fmt.Sprintf("reeval%d", rounds))
	}
	// events
	nev := []int{0, 0, 1, 1, 2, 3}[r.Intn(6)]
	redefs := map[string]int{}
	redefine := func(i int, tag string) bool {
		// a new definition of an existing function: same lambda list up to &aux, new &aux and body
		old := g.funcs[i]
		nd := &c08Def{Name: old.Name, Params: old.Params, Opt: old.Opt, Key: old.Key, Sp: g.spelling(!old.Macro), Macro: old.Macro}
		g.fill(i, nd, true)
		// a name stays what its first definition made it, a function or a template macro: a call site
		// compiled while the name was a macro does not evaluate its arguments (callers of a macro are
		// compiled again when it becomes a function: outside the property)
		for q := 0; old.Tmpl && q < 40 && (len(nd.Aux) > 0 || len(nd.Binds) > 0); q++ {
			g.fill(i, nd, true)
		}
		nd.Tmpl = old.Tmpl && len(nd.Aux) == 0 && len(nd.Binds) == 0
		if old.Tmpl && !nd.Tmpl {
			return false
		}
		p.Tail = append(p.Tail, c08Step{Kind: "def", Def: nd, Tag: tag})
		return true
	}
	newCaller := func(q int, suffix string) {
		// a caller defined now (compiled against the current cells), and evaluated
		nm := fmt.Sprintf("g%d%s", q, suffix)
		nd := &c08Def{Name: nm, Params: []string{"n", "a"}, Sp: g.spelling(false)}
		g.fill(-1, nd, true) // rank -1: may call every function unguarded, the counter is a constant
		p.Tail = append(p.Tail, c08Step{Kind: "def", Def: nd, Tag: "newcaller"})
		evalStep(c08Call(nm, c08Const(int64(r.Intn(3))), c08Const(int64(r.Intn(9)))))
	}
	for q := 0; q < nev; q++ {
		choice := r.Intn(4)
		if len(g.globals) > 0 && r.Chance(35) {
			choice = 4
		}
		if r.Chance(22) {
			choice = 5
		}
		switch choice {
		case 5:
			// an earlier definition is installed again by evaluating the code object of its defining
			// form once more (a defun inside let / progn / when / the body of an installer function),
			// after another definition of the name: the function is what was installed last
			var cand []*c08Def
			for _, st := range p.Tail {
				if st.Kind == "def" && !st.Re && st.Def.wrapped() {
					cand = append(cand, st.Def)
				}
			}
			for _, d := range p.Defs {
				if d.wrapped() {
					cand = append(cand, d, d) // the first definition of a name: twice as likely
				}
			}
			if len(cand) == 0 {
				i := r.Intn(len(g.funcs))
				redefine(i, "redef")
				redefs[g.funcs[i].Name]++
				p.Events = append(p.Events, fmt.Sprintf("redef%d", redefs[g.funcs[i].Name]))
				break
			}
			d := cand[r.Intn(len(cand))]
			last := d
			for _, st := range p.Tail {
				if st.Kind == "def" && st.Def.Name == d.Name {
					last = st.Def
				}
			}
			ev := "reinstall"
			if last == d {
				for i, fd := range g.funcs {
					if fd.Name == d.Name {
						redefine(i, "redef")
						redefs[d.Name]++
						againAll()
						ev = "redef+reinstall"
					}
				}
			}
			p.Tail = append(p.Tail, c08Step{Kind: "def", Def: d, Tag: "reinstall", Re: true})
			p.Events = append(p.Events, ev)
		case 4:
			// a global variable gets a new value (defvar of a bound variable changes nothing): every
			// function compiled before or after sees it on its next call
			kind := varKinds[r.Intn(3)]
			init := g.expr(-1, 2, g.globals, false, r.Chance(40))
			p.Tail = append(p.Tail, c08Step{Kind: "setvar", VarKind: kind, Name: g.globals[r.Intn(len(g.globals))], Expr: init})
			p.Events = append(p.Events, "gvar-"+kind)
		case 0, 1:
			i := r.Intn(len(g.funcs))
			redefine(i, "redef")
			redefs[g.funcs[i].Name]++
			p.Events = append(p.Events, fmt.Sprintf("redef%d", redefs[g.funcs[i].Name]))
		case 2:
			newCaller(q, "")
			p.Events = append(p.Events, "newcaller")
		case 3:
			// fmakunbound: every caller fails; callers compiled in between; then defined again
			i := r.Intn(len(g.funcs))
			p.Tail = append(p.Tail, c08Step{Kind: "undef", Name: g.funcs[i].Name, Sp: g.spelling(false)})
			againAll()
			ev := "undef"
			if r.Chance(50) {
				newCaller(q, "u")
				ev += "+caller"
			}
			if r.Chance(80) {
				redefine(i, "redef-after-undef")
				ev += "+redef"
			}
			p.Events = append(p.Events, ev)
		}
		againAll()
	}
	return p
}

// history for a permutation of the initial definitions; late > = 0: that definition is moved
// behind the first evaluation group (a late definition: the calls fail first, then work).
func (p *c08Program) history(perm []int, late int) []c08Step {
	var steps []c08Step
	// the variable definitions go to a position among the function definitions that depends on the
	// permutation (their init forms are constant: they commute with everything)
	pos := make([]int, len(p.Vars))
	for k := range p.Vars {
		h := p.VarPos + 3*k
		for q, i := range perm {
			h += (q + 1) * i
		}
		pos[k] = h % (len(perm) + 1)
	}
	emitVars := func(at int) {
		for k, vs := range p.Vars {
			if pos[k] == at {
				steps = append(steps, vs)
			}
		}
	}
	for q, i := range perm {
		emitVars(q)
		if i == late {
			continue
		}
		steps = append(steps, c08Step{Kind: "def", Def: p.Defs[i]})
	}
	emitVars(len(perm))
	if late < 0 {
		return append(steps, p.Tail...)
	}
	// first evaluation group, then the late definition, then everything again
	k := 0
	for k < len(p.Tail) && p.Tail[k].Kind == "eval" {
		k++
	}
	steps = append(steps, p.Tail[:k]...)
	steps = append(steps, c08Step{Kind: "def", Def: p.Defs[late], Tag: "late"})
	for j := 0; j < k; j++ {
		steps = append(steps, c08Step{Kind: "again", J: j})
	}
	return append(steps, p.Tail[k:]...)
}

func c08Perms(n int) [][]int {
	var res [][]int
	var rec func(cur []int, used []bool)
	rec = func(cur []int, used []bool) {
		if len(cur) == n {
			res = append(res, append([]int{}, cur...))
			return
		}
		for i := 0; i < n; i++ {
			if !used[i] {
				used[i] = true
				rec(append(cur, i), used)
				used[i] = false
			}
		}
	}
	rec(nil, make([]bool, n))
	return res
}

// ---------------------------------------------------------------------------------------------
// the implementation side: one variant = one history in one mode, run in a worker process

var c08Modes = []string{"list", "list-obj", "compiled", "compiled-fresh", "batch", "precompiled"}

type c08Job struct {
	ID     int      `json:"id"`
	Mode   string   `json:"mode"`
	Kinds  []string `json:"kinds"` // def (defun, defvar, defparameter) | undef | setq | eval | again
	Texts  []string `json:"texts"` // mangled Lisp text of def / eval steps
	Js     []int    `json:"js"`
	Suffix string   `json:"suffix"`
}

type c08Result struct {
	ID      int      `json:"id"`
	Outs    []string `json:"outs"`
	Msgs    []string `json:"msgs,omitempty"`
	Skipped bool     `json:"-"`  // not run: too many workers died before (see c08MaxCrashes)
	Us      int64    `json:"us"` // time spent in the worker (evidence only)
}

const c08MaxCrashes = 24

const c08JobTimeout = 300 * time.Second

// Function.Eval calls allowed per step on the implementation. An admissible step needs fewer than
// c08MaxSteps of them (the filter counts every node it evaluates, slip only the non-atomic ones); the bound must stay small because a runaway recursion makes slip's variable
// lookup walk an ever longer chain of scopes (quadratic time).
const c08EvalBudget = c08MaxSteps + 100

func c08Show(v slip.Object, suffix string) string {
	switch tv := v.(type) {
	case nil:
		return "nil"
	case slip.Fixnum:
		return fmt.Sprintf("i:%d", int64(tv))
	case slip.Symbol:
		s := strings.ToLower(string(tv))
		if s == "t" {
			return "t"
		}
		if strings.HasPrefix(s, ":") {
			return "k:" + s[1:]
		}
		if i := strings.LastIndexByte(s, ':'); i >= 0 {
			s = s[i+1:] // a package qualified function name
		}
		return "y:" + strings.TrimSuffix(s, suffix)
	}
	if v == slip.True {
		return "t"
	}
	return "v:" + strings.ReplaceAll(slip.ObjectString(v), " ", "_")
}

// c08Protect evaluates fn and renders the outcome in the model's reply vocabulary. The evaluation
// runs in its own goroutine: when the evaluation budget is exhausted the InterruptCheck hook ends
// the goroutine with runtime.Goexit (deferred calls run, nothing is re-panicked). Unwinding a deep
// recursion with a Go panic instead makes every Function.Eval frame recover and panic again,
// which nests panics on top of the stack until the runtime's stack limit kills the process.
func c08Protect(suffix string, fn func() slip.Object) (out string, msg string) {
	type reply struct{ out, msg string }
	ch := make(chan reply, 1)
	go func() {
		finished := false
		defer func() {
			if finished {
				return
			}
			r := recover()
			if r == nil {
				ch <- reply{"diverged", ""} // Goexit from the budget hook
				return
			}
			var rp reply
			switch tr := r.(type) {
			case *slip.Panic:
				rp = reply{"e:" + strings.ToLower(string(tr.Hierarchy()[0])), tr.Message}
			case slip.Instance:
				rp = reply{"e:" + strings.ToLower(string(tr.Hierarchy()[0])), ""}
			case error:
				rp = reply{"e:go-error", tr.Error()}
			default:
				rp = reply{"e:go-panic", fmt.Sprint(r)}
			}
			ch <- rp
		}()
		v := fn()
		res := c08Show(v, suffix)
		finished = true
		ch <- reply{res, ""}
	}()
	r := <-ch
	return r.out, r.msg
}

func c08RunVariant(job *c08Job) *c08Result {
	res := &c08Result{ID: job.ID, Outs: make([]string, len(job.Kinds)), Msgs: make([]string, len(job.Kinds))}
	scope := slip.NewScope()
	scope.Let(slip.Symbol("*error-output*"), &slip.OutputStream{Writer: io.Discard})
	budget := 0
	scope.InterruptCheck = func() {
		budget++
		if budget > c08EvalBudget {
			runtime.Goexit()
		}
	}
	sfx := job.Suffix
	protect := func(i int, fn func() slip.Object) {
		budget = 0
		res.Outs[i], res.Msgs[i] = c08Protect(sfx, fn)
	}
	readOne := func(text string) slip.Code { return slip.ReadString(text, scope) }
	evalList := func(code slip.Code) (v slip.Object) {
		for _, obj := range code {
			v = scope.Eval(obj, 0)
		}
		return
	}
	evalCode := func(code slip.Code) (v slip.Object) {
		for _, obj := range code {
			if obj != nil {
				v = obj.Eval(scope, 0)
			}
		}
		return
	}
	// kept objects of the eval steps (index = number of the eval step)
	var kept []slip.Code
	var keptText []string
	// code objects of the definition steps, by text (a "redef" step evaluates the object again; when
	// there is none — the shrinker dropped the step — the text is read afresh)
	keptDef := map[string]slip.Code{}
	n := len(job.Kinds)
	switch job.Mode {
	case "list", "list-obj":
		for i := 0; i < n; i++ {
			i := i
			switch job.Kinds[i] {
			case "def", "undef", "setq":
				protect(i, func() slip.Object {
					code := readOne(job.Texts[i])
					keptDef[job.Texts[i]] = code
					return evalList(code)
				})
			case "redef":
				if code, has := keptDef[job.Texts[i]]; has && job.Mode == "list-obj" {
					protect(i, func() slip.Object { return evalList(code) })
				} else {
					protect(i, func() slip.Object { return evalList(readOne(job.Texts[i])) })
				}
			case "eval":
				var code slip.Code
				protect(i, func() slip.Object {
					code = readOne(job.Texts[i])
					return evalList(code)
				})
				kept = append(kept, code)
				keptText = append(keptText, job.Texts[i])
			case "again":
				j := job.Js[i]
				if job.Mode == "list" {
					protect(i, func() slip.Object { return evalList(readOne(keptText[j])) })
				} else {
					protect(i, func() slip.Object { return evalList(kept[j]) })
				}
			}
		}
	case "compiled", "compiled-fresh", "precompiled":
		pre := map[int]slip.Code{}
		if job.Mode == "precompiled" {
			// the first group of eval steps is compiled before any definition is evaluated
			i := 0
			for i < n && (job.Kinds[i] == "def" || job.Kinds[i] == "setq") {
				i++
			}
			for ; i < n && job.Kinds[i] == "eval"; i++ {
				i := i
				var code slip.Code
				out, msg := c08Protect(sfx, func() slip.Object {
					code = readOne(job.Texts[i])
					code.Compile()
					return nil
				})
				if out != "nil" {
					res.Outs[i], res.Msgs[i] = "compile:"+out, msg
				}
				pre[i] = code
			}
		}
		for i := 0; i < n; i++ {
			i := i
			switch job.Kinds[i] {
			case "def", "undef", "setq":
				protect(i, func() slip.Object {
					code := readOne(job.Texts[i])
					code.Compile()
					keptDef[job.Texts[i]] = code
					return evalCode(code)
				})
			case "redef":
				if code, has := keptDef[job.Texts[i]]; has && job.Mode != "compiled-fresh" {
					protect(i, func() slip.Object { return evalCode(code) })
				} else {
					protect(i, func() slip.Object {
						code := readOne(job.Texts[i])
						code.Compile()
						return evalCode(code)
					})
				}
			case "eval":
				var code slip.Code
				if pc, has := pre[i]; has {
					code = pc
					if res.Outs[i] == "" {
						protect(i, func() slip.Object { return evalCode(code) })
					}
				} else {
					protect(i, func() slip.Object {
						code = readOne(job.Texts[i])
						code.Compile()
						return evalCode(code)
					})
				}
				kept = append(kept, code)
				keptText = append(keptText, job.Texts[i])
			case "again":
				j := job.Js[i]
				if job.Mode == "compiled-fresh" {
					protect(i, func() slip.Object {
						code := readOne(keptText[j])
						code.Compile()
						return evalCode(code)
					})
				} else {
					protect(i, func() slip.Object { return evalCode(kept[j]) })
				}
			}
		}
	case "batch":
		// maximal groups def* eval* are compiled together (Code.Compile evaluates the definitions
		// first, then every form is evaluated in order: the two-phase load)
		i := 0
		for i < n {
			if job.Kinds[i] == "again" {
				ii := i
				j := job.Js[i]
				protect(ii, func() slip.Object { return evalCode(kept[j]) })
				i++
				continue
			}
			if job.Kinds[i] == "redef" {
				ii := i
				if code, has := keptDef[job.Texts[ii]]; has {
					protect(ii, func() slip.Object { return evalCode(code) })
				} else {
					protect(ii, func() slip.Object {
						code := readOne(job.Texts[ii])
						code.Compile()
						return evalCode(code)
					})
				}
				i++
				continue
			}
			if job.Kinds[i] == "undef" || job.Kinds[i] == "setq" {
				// fmakunbound is evaluated when its form is reached: a batch of its own
				ii := i
				protect(ii, func() slip.Object {
					code := readOne(job.Texts[ii])
					code.Compile()
					keptDef[job.Texts[ii]] = code
					return evalCode(code)
				})
				i++
				continue
			}
			start := i
			for i < n && job.Kinds[i] == "def" {
				i++
			}
			for i < n && job.Kinds[i] == "eval" {
				i++
			}
			var code slip.Code
			out, msg := c08Protect(sfx, func() slip.Object {
				code = readOne(strings.Join(job.Texts[start:i], "\n"))
				if len(code) != i-start {
					panic(fmt.Sprintf("batch of %d forms read as %d objects", i-start, len(code)))
				}
				code.Compile()
				return nil
			})
			for q := start; q < i; q++ {
				q := q
				if out != "nil" {
					res.Outs[q], res.Msgs[q] = "compile:"+out, msg
				} else {
					protect(q, func() slip.Object { return evalCode(code[q-start : q-start+1]) })
				}
				if job.Kinds[q] == "def" && out == "nil" {
					keptDef[job.Texts[q]] = code[q-start : q-start+1]
				}
				if job.Kinds[q] == "eval" {
					if out != "nil" {
						kept = append(kept, nil)
					} else {
						kept = append(kept, code[q-start:q-start+1])
					}
					keptText = append(keptText, job.Texts[q])
				}
			}
		}
	default:
		for i := range res.Outs {
			res.Outs[i] = "e:unknown-mode"
		}
	}
	return res
}

// c08Worker: `vh C08-worker` reads jobs (one JSON per line) and writes results.
func c08Worker(c *lib.Ctx) {
	// admissible histories nest a few hundred frames deep; a runaway recursion that escapes the
	// evaluation budget (it does not pass through Function.Eval) must die quickly, not after
	// growing the default 1 GB stack
	debug.SetMaxStack(96 << 20)
	if pf := os.Getenv("VERIF_C08_PROF"); pf != "" {
		// debugging aid: CPU profile of one worker
		if f, err := os.Create(fmt.Sprintf("%s.%d", pf, os.Getpid())); err == nil {
			_ = pprof.StartCPUProfile(f)
			defer pprof.StopCPUProfile()
		}
	}
	in := bufio.NewReaderSize(os.Stdin, 1<<20)
	out := bufio.NewWriter(os.Stdout)
	for {
		line, err := in.ReadBytes('\n')
		if len(line) > 1 {
			var job c08Job
			if e := json.Unmarshal(line, &job); e != nil {
				fmt.Fprintf(os.Stderr, "C08 worker: bad job: %v\n", e)
				os.Exit(2)
			}
			t0 := time.Now()
			res := c08RunVariant(&job)
			res.Us = time.Since(t0).Microseconds()
			b, _ := json.Marshal(res)
			_, _ = out.Write(b)
			_ = out.WriteByte('\n')
			_ = out.Flush()
		}
		if err != nil {
			break
		}
	}
	pprof.StopCPUProfile()
	os.Exit(0)
}

// worker pool -----------------------------------------------------------------------------

type c08Proc struct {
	cmd *exec.Cmd
	in  io.WriteCloser
	out *bufio.Reader
}

var c08Root = "/verif"
var c08CrashLog = "" // jobs on which a worker died are appended here (debugging aid)

func c08Spawn() *c08Proc {
	cmd := exec.Command(os.Args[0], "C08-worker", "--root", c08Root)
	cmd.Stderr = io.Discard
	in, _ := cmd.StdinPipe()
	outp, _ := cmd.StdoutPipe()
	if err := cmd.Start(); err != nil {
		fmt.Fprintf(os.Stderr, "cannot start worker: %v\n", err)
		os.Exit(2)
	}
	return &c08Proc{cmd: cmd, in: in, out: bufio.NewReaderSize(outp, 1<<20)}
}

func (p *c08Proc) close() {
	_ = p.in.Close()
	_ = p.cmd.Wait()
}

// c08RunJobs runs the jobs on nw workers; a worker that dies on a job yields outs = nil for it.
func c08RunJobs(jobs []*c08Job, nw int) []*c08Result {
	results := make([]*c08Result, len(jobs))
	if nw > len(jobs) {
		nw = len(jobs)
	}
	if nw < 1 {
		nw = 1
	}
	var next, crashes int
	var mu sync.Mutex
	var wg sync.WaitGroup
	for w := 0; w < nw; w++ {
		wg.Add(1)
		go func() {
			defer wg.Done()
			p := c08Spawn()
			served := 0
			for {
				mu.Lock()
				k := next
				next++
				mu.Unlock()
				if k >= len(jobs) {
					break
				}
				mu.Lock()
				tooMany := crashes >= c08MaxCrashes
				mu.Unlock()
				if tooMany {
					// the verdict is settled (every crash is a violation); do not spend minutes on more
					results[k] = &c08Result{ID: jobs[k].ID, Skipped: true}
					continue
				}
				if served >= 120 {
					// fresh process now and then: the function tables only grow
					p.close()
					p = c08Spawn()
					served = 0
				}
				served++
				b, _ := json.Marshal(jobs[k])
				// a worker that dies is given the job once more in a fresh process: only a
				// reproducible death is a host crash (an out-of-memory kill of the machine is not)
				var res c08Result
				died := true
				for attempt := 0; attempt < 2 && died; attempt++ {
					_, werr := p.in.Write(append(b, '\n'))
					var line []byte
					var rerr error
					if werr == nil {
						type rd struct {
							line []byte
							err  error
						}
						ch := make(chan rd, 1)
						go func(r *bufio.Reader) {
							l, e := r.ReadBytes('\n')
							ch <- rd{l, e}
						}(p.out)
						select {
						case x := <-ch:
							line, rerr = x.line, x.err
						case <-time.After(c08JobTimeout):
							// far beyond anything an admissible history needs (milliseconds): a hang
							rerr = fmt.Errorf("timeout")
						}
					}
					res = c08Result{}
					if werr != nil || rerr != nil || json.Unmarshal(line, &res) != nil || res.ID != jobs[k].ID {
						_ = p.cmd.Process.Kill()
						_ = p.cmd.Wait()
						p = c08Spawn()
						served = 0
						continue
					}
					died = false
				}
				if died {
					// the worker died twice on this job (Go fatal error): host crash
					if c08CrashLog != "" {
						mu.Lock()
						if f, e := os.OpenFile(c08CrashLog, os.O_APPEND|os.O_CREATE|os.O_WRONLY, 0o644); e == nil {
							_, _ = f.Write(append(b, '\n'))
							_ = f.Close()
						}
						mu.Unlock()
					}
					results[k] = &c08Result{ID: jobs[k].ID, Outs: nil}
					mu.Lock()
					crashes++
					mu.Unlock()
					continue
				}
				results[k] = &res
			}
			p.close()
		}()
	}
	wg.Wait()
	// Load independence: a job on which the workers died or ran into the deadline while all workers
	// were busy is run once more ALONE (nothing else running, four times the deadline) before it is
	// reported; only a death that repeats there is a host crash.
	for k, r := range results {
		if r == nil || r.Skipped || r.Outs != nil {
			continue
		}
		if alone := c08RunAlone(jobs[k]); alone != nil {
			results[k] = alone
		}
	}
	return results
}

// c08RunAlone runs one job in a fresh worker process with a generous deadline; nil = it died again.
func c08RunAlone(job *c08Job) *c08Result {
	p := c08Spawn()
	b, _ := json.Marshal(job)
	if _, err := p.in.Write(append(b, '\n')); err != nil {
		_ = p.cmd.Process.Kill()
		_ = p.cmd.Wait()
		return nil
	}
	type rd struct {
		line []byte
		err  error
	}
	ch := make(chan rd, 1)
	go func() {
		l, e := p.out.ReadBytes('\n')
		ch <- rd{l, e}
	}()
	var res c08Result
	select {
	case x := <-ch:
		if x.err != nil || json.Unmarshal(x.line, &res) != nil || res.ID != job.ID {
			_ = p.cmd.Process.Kill()
			_ = p.cmd.Wait()
			return nil
		}
	case <-time.After(4 * c08JobTimeout):
		_ = p.cmd.Process.Kill()
		_ = p.cmd.Wait()
		return nil
	}
	p.close()
	return &res
}

// ---------------------------------------------------------------------------------------------
// cases

type c08Variant struct {
	caseIdx int
	perm    []int
	late    int
	mode    string
	steps   []c08Step
	job     *c08Job
	model   []string // expected outcomes per step
	sweep   string   // sweep cell name ("" for composite cases)
}

func c08Suffix(tag string, id int) string { return fmt.Sprintf("-%s%d", tag, id) }

func c08MakeJob(id int, mode string, steps []c08Step, suffix string) *c08Job {
	mangle := func(s string) string { return s + suffix }
	job := &c08Job{ID: id, Mode: mode, Suffix: suffix}
	for _, s := range steps {
		kind := s.Kind
		if kind == "setvar" {
			// Code.Compile evaluates defvar / defparameter forms with the definitions (first phase of
			// the two-phase load); a top-level setq is evaluated where it stands, like fmakunbound
			// (only init forms that cannot fail are batched with the definitions: an error in the first
			// phase aborts the compilation of the whole batch, which is the documented load behaviour)
			kind = "def"
			if s.VarKind == "setq" || !c08ConstantInit(s.Expr) {
				kind = "setq"
			}
		}
		if s.Kind == "def" && s.Def.Via != c08ViaPlain {
			// a defining form inside progn / when / an installer function is no top-level definition for
			// Code.Compile: it is evaluated where it stands (a batch of its own, like fmakunbound)
			kind = "setq"
		}
		if s.Kind == "def" && s.Re && s.Def.Via != c08ViaInstaller {
			// the kept code object of the earlier step with the same text is evaluated again (the
			// installer function keeps its own: a Re step just calls it)
			kind = "redef"
		}
		job.Kinds = append(job.Kinds, kind)
		job.Js = append(job.Js, s.J)
		if s.Kind == "again" {
			job.Texts = append(job.Texts, "")
		} else {
			job.Texts = append(job.Texts, s.text(mangle, true))
		}
	}
	return job
}

// an init form made of integers and arithmetic only
func c08ConstantInit(e *c08Expr) bool {
	switch e.Kind {
	case "const":
		return true
	case "prim":
		return (e.Name == "+" || e.Name == "-" || e.Name == "*") && c08ConstantInit(e.Args[0]) && c08ConstantInit(e.Args[1])
	}
	return false
}

const c08Fuel = 3000

func c08ModelLine(entry string, steps []c08Step) string {
	return fmt.Sprintf("comp %s %d %s", entry, c08Fuel, c08HistoryText(steps))
}

func c08ParseReply(reply string) ([]string, bool) {
	w := strings.Fields(reply)
	if len(w) == 0 || w[0] != "ok" {
		return nil, false
	}
	return w[1:], true
}

// construct at the divergence: what the history did before the failing step, and whether the
// variant's definition order contains a forward reference (a call site whose callee is defined
// after the caller — or is the caller itself — at a compile position or at a lazy position).
func c08Construct(steps []c08Step, at int) string {
	defined := map[string]int{}
	ever := map[string]bool{}
	redefs, undefs, late := 0, 0, false
	gvars := 0
	fwd := "none"
	note := func(d *c08Def) {
		var sites [][2]string
		d.sites(&sites)
		for _, s := range sites {
			if _, has := defined[s[0]]; !has || s[0] == d.Name {
				if s[1] == "compiled" {
					fwd = "compiled"
				} else if fwd == "none" {
					fwd = "lazy"
				}
			}
		}
	}
	lambdaList, closure, macro := false, false, false
	template, nested, reinstall := false, false, false
	for i := 0; i <= at && i < len(steps); i++ {
		s := steps[i]
		switch s.Kind {
		case "def":
			if ever[s.Def.Name] {
				redefs++
			}
			if s.Tag == "late" {
				late = true
			}
			if len(s.Def.Opt)+len(s.Def.Key)+len(s.Def.Aux) > 0 {
				lambdaList = true
			}
			if len(s.Def.Binds) > 0 {
				closure = true
			}
			if s.Def.Macro {
				macro = true
			}
			if s.Def.Tmpl {
				template = true
			}
			if s.Def.Via != c08ViaPlain {
				nested = true
			}
			if s.Re {
				reinstall = true
			}
			note(s.Def)
			defined[s.Def.Name] = i
			ever[s.Def.Name] = true
		case "undef":
			undefs++
			delete(defined, s.Name)
		case "setvar":
			gvars++
		}
	}
	rd := strconv.Itoa(redefs)
	if redefs > 2 {
		rd = "3+"
	}
	kind := "?"
	if at < len(steps) {
		kind = steps[at].Kind
		if kind == "eval" {
			var sites [][2]string
			steps[at].Expr.sites(true, &sites)
			for _, s := range sites {
				if _, has := defined[s[0]]; !has {
					kind = "eval-undefined"
				}
			}
		}
	}
	extra := ""
	if undefs > 0 {
		extra += " undefs=" + strconv.Itoa(min(undefs, 2))
	}
	if late {
		extra += " late-def"
	}
	if lambdaList {
		extra += " lambda-list"
	}
	if closure {
		extra += " closure"
	}
	if macro {
		extra += " macro"
	}
	if template {
		extra += " template"
	}
	if nested {
		extra += " nested-def"
	}
	if reinstall {
		extra += " reinstall"
	}
	if gvars > 0 {
		extra += " gvar"
	}
	return fmt.Sprintf("step=%s redefs=%s fwd=%s%s", kind, rd, fwd, extra)
}

func c08Aspect(impl, model string) string {
	switch {
	case impl == "crash":
		return "host-crash"
	case impl == "diverged":
		return "diverged"
	case strings.HasPrefix(impl, "compile:"):
		return "compile-" + strings.TrimPrefix(impl, "compile:")
	case strings.HasPrefix(impl, "e:") && strings.HasPrefix(model, "e:"):
		return "condition:" + impl[2:] + "-for-" + model[2:]
	case strings.HasPrefix(impl, "e:"):
		return "condition:" + impl[2:]
	case strings.HasPrefix(model, "e:"):
		return "no-condition"
	}
	return "wrong-value"
}

// ---------------------------------------------------------------------------------------------
// single-cause sweep: minimal histories, one construct × one call position each

type c08Cell struct {
	name  string
	steps []c08Step
}

func c08SweepCells() []c08Cell {
	// the callee h takes two arguments that both matter
	hBody := func(k int64) *c08Expr {
		return c08Prim("+", c08Prim("*", c08Var("a"), c08Const(10)), c08Prim("+", c08Var("b"), c08Const(k)))
	}
	h := func(k int64) *c08Def { return &c08Def{Name: "h", Params: []string{"a", "b"}, Body: hBody(k)} }
	callH := func() *c08Expr { return c08Call("h", c08Var("x"), c08Const(2)) }
	positions := []struct {
		name string
		body func(call *c08Expr) *c08Expr
	}{
		{"body", func(c *c08Expr) *c08Expr { return c }},
		{"prim-arg", func(c *c08Expr) *c08Expr { return c08Prim("+", c08Const(1), c) }},
		{"call-arg", func(c *c08Expr) *c08Expr { return c08Call("h", c, c08Const(5)) }},
		{"if-test", func(c *c08Expr) *c08Expr { return c08If(c08Prim("<", c, c08Const(0)), c08Const(1), c08Const(2)) }},
		{"if-then", func(c *c08Expr) *c08Expr { return c08If(c08Prim("<", c08Var("x"), c08Const(100)), c, c08Const(0)) }},
		{"let-init", func(c *c08Expr) *c08Expr { return c08Let("y", c, c08Prim("+", c08Var("y"), c08Const(1))) }},
		{"let-body", func(c *c08Expr) *c08Expr { return c08Let("y", c08Const(1), c08Prim("+", c, c08Var("y"))) }},
	}
	var cells []c08Cell
	def := func(d *c08Def, tag string) c08Step { return c08Step{Kind: "def", Def: d, Tag: tag} }
	ev := func(e *c08Expr) c08Step { return c08Step{Kind: "eval", Expr: e} }
	ag := func(j int) c08Step { return c08Step{Kind: "again", J: j} }
	for _, p := range positions {
		g := &c08Def{Name: "g", Params: []string{"x"}, Body: p.body(callH())}
		callG := c08Call("g", c08Const(3))
		cells = append(cells,
			c08Cell{"backward/" + p.name, []c08Step{def(h(0), ""), def(g, ""), ev(callG)}},
			c08Cell{"forward/" + p.name, []c08Step{def(g, ""), def(h(0), ""), ev(callG)}},
			c08Cell{"late-define/" + p.name, []c08Step{def(g, ""), ev(callG), def(h(0), "late"), ag(0), ev(callG)}},
			c08Cell{"reeval/" + p.name, []c08Step{def(g, ""), def(h(0), ""), ev(callG), ag(0), ag(0), ag(0), ag(0)}},
			c08Cell{"redefine-once/" + p.name, []c08Step{def(h(0), ""), def(g, ""), ev(callG), def(h(1), "redef"), ag(0), ev(callG)}},
			c08Cell{"redefine-once-forward/" + p.name, []c08Step{def(g, ""), def(h(0), ""), ev(callG), def(h(1), "redef"), ag(0), ev(callG)}},
			c08Cell{"redefine-twice/" + p.name, []c08Step{def(h(0), ""), ev(c08Call("h", c08Const(1), c08Const(1))), def(h(1), "redef"), def(g, ""), ev(callG), def(h(2), "redef"), ag(0), ag(1), ev(callG)}},
			c08Cell{"redefine-caller/" + p.name, []c08Step{def(h(0), ""), def(g, ""), ev(callG), def(&c08Def{Name: "g", Params: []string{"x"}, Body: c08Prim("-", p.body(callH()), c08Const(1000))}, "redef"), ag(0), ev(callG)}},
		)
		if p.name == "body" || p.name == "if-then" || p.name == "let-init" {
			// "the hundredth time": the same object evaluated 100 times, a redefinition after the 50th
			hundred := []c08Step{def(g, ""), def(h(0), ""), ev(callG)}
			for q := 1; q < 50; q++ {
				hundred = append(hundred, ag(0))
			}
			hundred = append(hundred, def(h(1), "redef"))
			for q := 50; q < 100; q++ {
				hundred = append(hundred, ag(0))
			}
			cells = append(cells, c08Cell{"reeval-100/" + p.name, hundred})
		}
		// the call position at top level (not inside a defun): the expression itself is the form
		top := p.body(c08Call("h", c08Const(3), c08Const(2)))
		if p.name == "if-then" {
			top = c08If(c08Prim("<", c08Const(3), c08Const(100)), c08Call("h", c08Const(3), c08Const(2)), c08Const(0))
		}
		cells = append(cells,
			c08Cell{"toplevel/" + p.name, []c08Step{def(h(0), ""), ev(top), ag(0)}},
			c08Cell{"toplevel-late/" + p.name, []c08Step{ev(top), def(h(0), "late"), ag(0), def(h(1), "redef"), ag(0)}},
		)
	}
	undef := func(name string) c08Step { return c08Step{Kind: "undef", Name: name} }
	for _, p := range positions {
		// fmakunbound: callers compiled before, between and after
		mk := func(name string) *c08Def { return &c08Def{Name: name, Params: []string{"x"}, Body: p.body(callH())} }
		gB, gM, gA := mk("gb"), mk("gm"), mk("ga")
		callOf := func(n string) *c08Expr { return c08Call(n, c08Const(3)) }
		cells = append(cells,
			c08Cell{"undefine/" + p.name, []c08Step{def(h(0), ""), def(gB, ""), ev(callOf("gb")), undef("h"), ag(0), ev(callOf("gb"))}},
			c08Cell{"undefine-unevaluated/" + p.name, []c08Step{def(h(0), ""), def(gB, ""), undef("h"), ev(callOf("gb"))}},
			c08Cell{"undefine-redefine/" + p.name, []c08Step{def(h(0), ""), def(gB, ""), ev(callOf("gb")), undef("h"), ag(0),
				def(gM, ""), ev(callOf("gm")), def(h(1), "redef-after-undef"), def(gA, ""), ag(0), ag(1), ev(callOf("ga")),
				def(h(2), "redef"), ag(0), ag(1), ag(2)}},
			c08Cell{"undefine-forward/" + p.name, []c08Step{def(gB, ""), def(h(0), ""), ev(callOf("gb")), undef("h"), ag(0), def(h(1), "redef-after-undef"), ag(0)}},
			c08Cell{"undefine-twice/" + p.name, []c08Step{def(h(0), ""), def(gB, ""), ev(callOf("gb")), undef("h"), def(h(1), "redef-after-undef"), ag(0),
				undef("h"), ag(0), def(gM, ""), def(h(2), "redef-after-undef"), ag(0), ev(callOf("gm"))}},
		)
		top := p.body(c08Call("h", c08Const(3), c08Const(2)))
		if p.name == "if-then" {
			top = c08If(c08Prim("<", c08Const(3), c08Const(100)), c08Call("h", c08Const(3), c08Const(2)), c08Const(0))
		}
		cells = append(cells,
			c08Cell{"undefine-toplevel/" + p.name, []c08Step{def(h(0), ""), ev(top), undef("h"), ag(0), def(h(1), "redef-after-undef"), ag(0)}},
		)
		// the call inside an &aux init form (converted on every call); every function called several
		// times with different arguments
		gx := &c08Def{Name: "g", Params: []string{"x"}, Aux: []c08Aux{{Name: "u", Init: p.body(callH())}, {Name: "w", Init: c08Prim("*", c08Var("u"), c08Const(2))}},
			Body: c08Prim("-", c08Var("w"), c08Var("x"))}
		if gx.Aux[0].Init.Kind == "call" {
			// keep a list form at the top that is not the call itself as well as the bare call
			cells = append(cells, c08Cell{"aux-bare-call/" + p.name, []c08Step{def(h(0), ""), def(&c08Def{Name: "g", Params: []string{"x"}, Aux: []c08Aux{{Name: "u", Init: callH()}}, Body: c08Var("u")}, ""),
				ev(c08Call("g", c08Const(3))), ev(c08Call("g", c08Const(5))), ag(0), ag(1)}})
		}
		cells = append(cells,
			c08Cell{"aux/" + p.name, []c08Step{def(h(0), ""), def(gx, ""), ev(c08Call("g", c08Const(3))), ev(c08Call("g", c08Const(5))), ag(0), ag(1), ev(c08Call("g", c08Const(7)))}},
			c08Cell{"aux-forward/" + p.name, []c08Step{def(gx, ""), ev(c08Call("g", c08Const(3))), def(h(0), "late"), ag(0), ev(c08Call("g", c08Const(5))), ag(0), def(h(1), "redef"), ag(0), ag(1)}},
		)
	}
	// lambda lists: &optional / &key defaults and &aux on the first and on every later call
	ll := &c08Def{Name: "ll", Params: []string{"x"}, Opt: []c08Default{{"o", 5}, {"p", 1}}, Key: []c08Default{{"k", 7}, {"m", 2}},
		Aux:  []c08Aux{{Name: "u", Init: c08Prim("+", c08Var("x"), c08Var("o"))}, {Name: "w", Init: c08Prim("*", c08Var("u"), c08Var("k"))}},
		Body: c08Prim("+", c08Prim("-", c08Var("w"), c08Var("p")), c08Prim("*", c08Var("m"), c08Const(100)))}
	llCalls := []*c08Expr{
		c08Call("ll", c08Const(1)),
		c08Call("ll", c08Const(2), c08Const(3)),
		c08Call("ll", c08Const(2), c08Const(3), c08Const(4)),
		c08Call("ll", c08Const(2), c08Const(3), c08Const(4), c08Kw("k"), c08Const(10)),
		c08Call("ll", c08Const(2), c08Const(3), c08Const(4), c08Kw("m"), c08Const(6), c08Kw("k"), c08Const(11)),
		c08Call("ll", c08Const(1)),
	}
	llSteps := []c08Step{def(ll, "")}
	for _, e := range llCalls {
		llSteps = append(llSteps, ev(e))
	}
	for j := range llCalls {
		llSteps = append(llSteps, ag(j))
	}
	ll2 := *ll
	ll2.Aux = []c08Aux{{Name: "u", Init: c08Prim("-", c08Var("x"), c08Var("o"))}, {Name: "w", Init: c08Prim("+", c08Var("u"), c08Var("k"))}}
	llSteps = append(llSteps, def(&ll2, "redef"))
	for j := range llCalls {
		llSteps = append(llSteps, ag(j))
	}
	cells = append(cells, c08Cell{"lambda-list/optional-key-aux", llSteps})
	// let spellings and cond: the same meaning in every spelling, evaluated repeatedly
	for style := 0; style < c08LetStyles; style++ {
		inner := c08Let("z", c08Prim("*", c08Var("y"), c08Const(2)), c08Prim("+", c08Var("z"), c08Var("x")))
		inner.Style = style
		outer := c08Let("y", c08Call("h", c08Var("x"), c08Const(2)), inner)
		outer.Style = style
		cnd := c08If(c08Prim("<", c08Var("x"), c08Const(4)), outer, c08Const(-1))
		cnd.Style = 1
		gs := &c08Def{Name: "g", Params: []string{"x"}, Body: cnd}
		cells = append(cells, c08Cell{fmt.Sprintf("let-style-%d/cond", style), []c08Step{def(gs, ""), def(h(0), ""), ev(c08Call("g", c08Const(3))), ev(c08Call("g", c08Const(9))), ag(0), ag(1),
			def(h(1), "redef"), ag(0), undef("h"), ag(0), ag(1)}})
	}
	// closures: a defun inside a let capturing its variables — first definition, with a placeholder
	// already registered (caller first), as 2nd and 3rd definition, after fmakunbound; the captured
	// value computed by a call; everything evaluated repeatedly
	{
		clo := func(capName string, init *c08Expr, op string) *c08Def {
			return &c08Def{Name: "f", Params: []string{"x"}, Binds: []c08Aux{{Name: capName, Init: init}},
				Body: c08Prim(op, c08Var("x"), c08Var(capName))}
		}
		caller := func(name string) *c08Def {
			return &c08Def{Name: name, Params: []string{"x"}, Body: c08Call("f", c08Prim("+", c08Var("x"), c08Const(1)))}
		}
		cg := func(name string, n int64) *c08Expr { return c08Call(name, c08Const(n)) }
		cells = append(cells,
			c08Cell{"closure/first", []c08Step{def(clo("c0", c08Const(5), "+"), ""), ev(cg("f", 1)), ev(cg("f", 2)), ag(0), def(caller("g"), ""), ev(cg("g", 3)), ag(2)}},
			c08Cell{"closure/caller-first", []c08Step{def(caller("g"), ""), ev(cg("g", 3)), def(clo("c0", c08Const(5), "+"), "late"), ag(0), ev(cg("g", 4)), ag(0), ag(1)}},
			c08Cell{"closure/redefine", []c08Step{def(clo("c0", c08Const(5), "+"), ""), def(caller("g"), ""), ev(cg("g", 3)), def(clo("c1", c08Const(7), "*"), "redef"), ag(0), ev(cg("f", 2)),
				def(clo("c2", c08Prim("+", c08Const(1), c08Const(2)), "-"), "redef"), ag(0), ag(1), def(caller("h"), ""), ev(cg("h", 5)), ag(0)}},
			c08Cell{"closure/redefine-plain", []c08Step{def(clo("c0", c08Const(5), "+"), ""), def(caller("g"), ""), ev(cg("g", 3)),
				def(&c08Def{Name: "f", Params: []string{"x"}, Body: c08Prim("*", c08Var("x"), c08Const(2))}, "redef"), ag(0), def(clo("c1", c08Const(9), "-"), "redef"), ag(0)}},
			c08Cell{"closure/undefine-redefine", []c08Step{def(clo("c0", c08Const(5), "+"), ""), def(caller("g"), ""), ev(cg("g", 3)), undef("f"), ag(0), def(clo("c1", c08Const(7), "*"), "redef-after-undef"), ag(0), ag(0)}},
			c08Cell{"closure/captured-call", []c08Step{def(h(0), ""), def(caller("g"), ""), def(clo("c0", c08Call("h", c08Const(1), c08Const(2)), "+"), ""), ev(cg("g", 3)),
				def(clo("c1", c08Call("g", c08Const(1)), "*"), "redef"), ag(0), ev(cg("f", 2)), ag(0)}},
			c08Cell{"closure/let-fails", []c08Step{def(clo("c0", c08Const(5), "+"), ""), def(caller("g"), ""), def(clo("c1", c08Call("nofn", c08Const(1)), "*"), "redef"), ev(cg("g", 3)), ag(0)}},
			c08Cell{"closure/two-functions", []c08Step{def(clo("c0", c08Const(5), "+"), ""),
				def(&c08Def{Name: "f2", Params: []string{"x"}, Binds: []c08Aux{{Name: "c1", Init: c08Const(100)}}, Body: c08Prim("+", c08Call("f", c08Var("x")), c08Var("c1"))}, ""),
				ev(cg("f2", 1)), ag(0), def(clo("c2", c08Const(6), "*"), "redef"), ag(0)}},
		)
	}
	// spelling: symbols are not case sensitive and may carry the package prefix
	for _, p := range positions {
		up := func(e *c08Expr, sp int) *c08Expr {
			// respell every call of h in e
			var walk func(x *c08Expr) *c08Expr
			walk = func(x *c08Expr) *c08Expr {
				cp := *x
				cp.Args = make([]*c08Expr, len(x.Args))
				for i, a := range x.Args {
					cp.Args[i] = walk(a)
				}
				if cp.Kind == "call" && cp.Name == "h" {
					cp.Sp = sp
				}
				return &cp
			}
			return walk(e)
		}
		callG := c08Call("g", c08Const(3))
		for _, v := range []struct {
			name string
			sp   int
		}{{"upper", 5 << 2}, {"qualified", 1}, {"qualified-upper", 3<<2 | 2}} {
			g := &c08Def{Name: "g", Params: []string{"x"}, Body: up(p.body(callH()), v.sp)}
			cells = append(cells,
				c08Cell{"spelling-" + v.name + "/forward/" + p.name, []c08Step{def(g, ""), def(h(0), ""), ev(callG), ag(0), def(h(1), "redef"), ag(0)}},
				c08Cell{"spelling-" + v.name + "/backward/" + p.name, []c08Step{def(h(0), ""), def(g, ""), ev(callG), ag(0), undef("h"), ag(0), def(h(1), "redef-after-undef"), ag(0)}},
			)
		}
	}
	{
		hU := h(0)
		hU.Sp = 7 << 2
		gU := &c08Def{Name: "g", Params: []string{"x"}, Body: callH(), Sp: 2 << 2}
		callGU := c08Call("g", c08Const(3))
		callGU.Sp = 9 << 2
		cells = append(cells,
			c08Cell{"spelling-defun-upper/backward", []c08Step{def(hU, ""), def(gU, ""), ev(c08Call("g", c08Const(3))), ev(callGU), ag(0)}},
			c08Cell{"spelling-defun-upper/forward", []c08Step{def(gU, ""), ev(c08Call("g", c08Const(3))), def(hU, "late"), ag(0), ev(callGU)}},
			c08Cell{"spelling-defun-upper/redefine", []c08Step{def(h(0), ""), def(gU, ""), ev(callGU), def(func() *c08Def { d := h(1); d.Sp = 11 << 2; return d }(), "redef"), ag(0)}},
			c08Cell{"spelling-defun-qualified", []c08Step{def(gU, ""), ev(callGU), def(func() *c08Def { d := h(0); d.Sp = 4<<2 | 1; return d }(), "late"), ag(0),
				def(func() *c08Def {
					d := &c08Def{Name: "h", Params: []string{"a", "b"}, Binds: []c08Aux{{Name: "c0", Init: c08Const(7)}}, Body: c08Prim("+", c08Prim("*", c08Var("a"), c08Var("c0")), c08Var("b")), Sp: 2}
					return d
				}(), "redef"), ag(0), ag(0)}},
			c08Cell{"spelling-undef-upper", []c08Step{def(h(0), ""), def(gU, ""), ev(callGU), c08Step{Kind: "undef", Name: "h", Sp: 6 << 2}, ag(0), def(hU, "redef-after-undef"), ag(0)}},
		)
	}
	// ((lambda (y) x) 0): a lambda form whose body is a bare variable of the enclosing function, at a
	// compile position and at a lazy position
	for _, p := range positions {
		if p.name != "body" && p.name != "prim-arg" && p.name != "if-then" {
			continue
		}
		lf := c08Let("y", c08Const(0), c08Var("uqx"))
		lf.Style = c08LetLambda
		bodyOf := p.body(lf)
		if p.name == "if-then" {
			bodyOf = c08If(c08Prim("<", c08Var("uqx"), c08Const(100)), lf, c08Const(0))
		}
		gl := &c08Def{Name: "g", Params: []string{"uqx"}, Body: bodyOf}
		cells = append(cells, c08Cell{"lambda-form-bare-variable/" + p.name, []c08Step{def(gl, ""), ev(c08Call("g", c08Const(3))), ev(c08Call("g", c08Const(5))), ag(0)}})
	}
	// global variables: the reader compiled before / after the variable exists (bare body symbol =
	// pointer to the variable entry, or a reference inside a list form = looked up by name), the three
	// defining forms, later assignments, re-evaluation of kept objects
	setv := func(kind, name string, init *c08Expr) c08Step {
		return c08Step{Kind: "setvar", VarKind: kind, Name: name, Expr: init}
	}
	vpositions := []struct {
		name string
		body func(v *c08Expr) *c08Expr
	}{
		{"bare", func(v *c08Expr) *c08Expr { return v }},
		{"prim-arg", func(v *c08Expr) *c08Expr { return c08Prim("+", v, c08Var("x")) }},
		{"call-arg", func(v *c08Expr) *c08Expr { return c08Call("h", v, c08Var("x")) }},
		{"if-test", func(v *c08Expr) *c08Expr { return c08If(c08Prim("<", v, c08Const(15)), c08Const(1), c08Const(2)) }},
		{"if-then", func(v *c08Expr) *c08Expr { return c08If(c08Prim("<", c08Var("x"), c08Const(100)), v, c08Const(0)) }},
		{"let-init", func(v *c08Expr) *c08Expr { return c08Let("y", v, c08Prim("+", c08Var("y"), c08Const(1))) }},
		{"let-body", func(v *c08Expr) *c08Expr { return c08Let("y", c08Const(1), c08Prim("+", v, c08Var("y"))) }},
		{"aux-init", nil},
	}
	for _, p := range vpositions {
		mk := func(name string) *c08Def {
			if p.body == nil {
				return &c08Def{Name: name, Params: []string{"x"}, Aux: []c08Aux{{Name: "u", Init: c08Prim("*", c08Var("uqv"), c08Const(2))}}, Body: c08Prim("+", c08Var("u"), c08Var("x"))}
			}
			return &c08Def{Name: name, Params: []string{"x"}, Body: p.body(c08Var("uqv"))}
		}
		rd, rd2 := mk("rd"), mk("rd2")
		call := func(n string, k int64) *c08Expr { return c08Call(n, c08Const(k)) }
		for _, kind := range []string{"defvar", "defparameter", "setq"} {
			cells = append(cells,
				// the variable first, then its reader
				c08Cell{"gvar-" + kind + "/variable-first/" + p.name, []c08Step{def(h(0), ""), setv(kind, "uqv", c08Const(10)), def(rd, ""), ev(call("rd", 3)), setv("setq", "uqv", c08Const(20)), ag(0), ev(call("rd", 4))}},
				// the reader first: compiled while the variable does not exist; then a second reader
				// (compiled while only the placeholder exists), the definition, assignments of every kind
				c08Cell{"gvar-" + kind + "/reader-first/" + p.name, []c08Step{def(h(0), ""), def(rd, ""), def(rd2, ""), setv(kind, "uqv", c08Const(10)), ev(call("rd", 3)), ev(call("rd2", 3)),
					setv("setq", "uqv", c08Const(20)), ag(0), ag(1), setv("defparameter", "uqv", c08Prim("+", c08Var("uqv"), c08Const(5))), ag(0), ag(1),
					setv("defvar", "uqv", c08Const(99)), ag(0), ev(call("rd", 5))}},
			)
		}
		cells = append(cells,
			// called before the variable has a value: unbound-variable, then the definition reaches it
			c08Cell{"gvar-unbound-then-defined/" + p.name, []c08Step{def(h(0), ""), def(rd, ""), ev(call("rd", 3)), setv("defvar", "uqv", c08Const(10)), ag(0), setv("setq", "uqv", c08Const(30)), ag(0)}},
			// the reader is defined again after the variable exists
			c08Cell{"gvar-reader-redefined/" + p.name, []c08Step{def(h(0), ""), def(rd, ""), setv("defvar", "uqv", c08Const(10)), ev(call("rd", 3)), def(mk("rd"), "redef"), ag(0), setv("setq", "uqv", c08Const(11)), ag(0)}},
		)
	}
	{
		// the value of a variable computed by calls; a variable read at top level; defvar keeps the value
		rd := &c08Def{Name: "rd", Params: []string{"x"}, Body: c08Var("uqv")}
		cells = append(cells,
			c08Cell{"gvar-init-calls", []c08Step{def(rd, ""), def(h(0), ""), setv("defparameter", "uqv", c08Call("h", c08Const(1), c08Const(2))), ev(c08Call("rd", c08Const(0))),
				setv("setq", "uqv", c08Prim("+", c08Call("rd", c08Const(0)), c08Const(1))), ag(0), def(h(1), "redef"), setv("defvar", "uqv", c08Call("h", c08Const(1), c08Const(2))), ag(0),
				setv("defparameter", "uqv", c08Call("h", c08Const(1), c08Const(2))), ag(0)}},
			c08Cell{"gvar-toplevel", []c08Step{ev(c08Var("uqv")), setv("setq", "uqv", c08Const(4)), ag(0), ev(c08Prim("+", c08Var("uqv"), c08Const(1))), setv("defparameter", "uqv", c08Const(6)), ag(0), ag(1)}},
			c08Cell{"gvar-two-variables", []c08Step{def(&c08Def{Name: "rd", Params: []string{"x"}, Body: c08Var("uqv")}, ""), def(&c08Def{Name: "rw", Params: []string{"x"}, Body: c08Var("uqw")}, ""),
				def(&c08Def{Name: "rs", Params: []string{"x"}, Body: c08Prim("-", c08Var("uqv"), c08Var("uqw"))}, ""),
				setv("defvar", "uqw", c08Const(1)), setv("defvar", "uqv", c08Const(50)), ev(c08Call("rd", c08Const(0))), ev(c08Call("rw", c08Const(0))), ev(c08Call("rs", c08Const(0))),
				setv("setq", "uqw", c08Const(2)), ag(0), ag(1), ag(2), setv("setq", "uqv", c08Const(60)), ag(0), ag(1), ag(2)}},
		)
		// a definition inside a let that binds the name of a global variable; the name defined again at top
		// level, inside another let, after fmakunbound; callers compiled in between
		clo := func(init int64, k int64) *c08Def {
			return &c08Def{Name: "f", Params: []string{"x"}, Binds: []c08Aux{{Name: "uqv", Init: c08Const(init)}}, Body: c08Prim("+", c08Prim("*", c08Var("uqv"), c08Const(k)), c08Var("x"))}
		}
		plain := func(k int64) *c08Def {
			return &c08Def{Name: "f", Params: []string{"x"}, Body: c08Prim("+", c08Prim("*", c08Var("uqv"), c08Const(k)), c08Var("x"))}
		}
		bare := &c08Def{Name: "f", Params: []string{"x"}, Body: c08Var("uqv")}
		caller := func(name string) *c08Def {
			return &c08Def{Name: name, Params: []string{"x"}, Body: c08Call("f", c08Prim("+", c08Var("x"), c08Const(1)))}
		}
		cf := func(name string, n int64) *c08Expr { return c08Call(name, c08Const(n)) }
		cells = append(cells,
			c08Cell{"gvar-closure-shadow/redefine-toplevel", []c08Step{setv("defvar", "uqv", c08Const(100)), def(clo(5, 2), ""), def(caller("g"), ""), ev(cf("f", 1)), ev(cf("g", 1)),
				def(plain(3), "redef"), ag(0), ag(1), setv("setq", "uqv", c08Const(200)), ag(0), ag(1)}},
			c08Cell{"gvar-closure-shadow/redefine-toplevel-bare", []c08Step{setv("defvar", "uqv", c08Const(100)), def(clo(5, 2), ""), def(caller("g"), ""), ev(cf("g", 1)),
				def(bare, "redef"), ag(0), ev(cf("f", 1)), setv("setq", "uqv", c08Const(200)), ag(0), ag(1)}},
			c08Cell{"gvar-closure-shadow/variable-later", []c08Step{def(clo(5, 2), ""), def(caller("g"), ""), ev(cf("g", 1)), setv("defparameter", "uqv", c08Const(100)), ag(0),
				def(plain(3), "redef"), ag(0), ev(cf("f", 1))}},
			c08Cell{"gvar-closure-shadow/toplevel-first", []c08Step{setv("setq", "uqv", c08Const(100)), def(plain(3), ""), def(caller("g"), ""), ev(cf("g", 1)), def(clo(5, 2), "redef"), ag(0),
				setv("setq", "uqv", c08Const(200)), ag(0), def(plain(4), "redef"), ag(0), def(clo(7, 2), "redef"), ag(0)}},
			c08Cell{"gvar-closure-shadow/undefine-redefine", []c08Step{setv("defvar", "uqv", c08Const(100)), def(clo(5, 2), ""), def(caller("g"), ""), ev(cf("g", 1)), undef("f"), ag(0),
				def(plain(3), "redef-after-undef"), ag(0), ev(cf("f", 1))}},
		)
	}
	// macros without parameters: defmacro shares defun's machinery (DefLambda patches the registered
	// Lambda, the creator refers to the shared one, closures): every scenario at a compile position and
	// at a lazy position of the caller
	for _, p := range positions {
		if p.name != "body" && p.name != "prim-arg" && p.name != "if-then" && p.name != "let-init" {
			continue
		}
		mac := func(k int64) *c08Def { return &c08Def{Name: "mc", Macro: true, Body: c08Prim("+", c08Const(k), c08Const(100))} }
		macClo := func(cn string, k int64) *c08Def {
			return &c08Def{Name: "mc", Macro: true, Binds: []c08Aux{{Name: cn, Init: c08Const(k)}}, Body: c08Prim("*", c08Var(cn), c08Const(2))}
		}
		mk := func(name string) *c08Def { return &c08Def{Name: name, Params: []string{"x"}, Body: p.body(c08Call("mc"))} }
		g1, g2, g3 := mk("g"), mk("g2"), mk("g3")
		cg := func(n string) *c08Expr { return c08Call(n, c08Const(3)) }
		cells = append(cells,
			c08Cell{"macro/backward/" + p.name, []c08Step{def(mac(1), ""), def(g1, ""), ev(cg("g")), ag(0)}},
			c08Cell{"macro/forward/" + p.name, []c08Step{def(g1, ""), def(mac(1), ""), ev(cg("g")), ag(0), def(mac(2), "redef"), ag(0)}},
			c08Cell{"macro/redefine-twice/" + p.name, []c08Step{def(mac(1), ""), ev(c08Call("mc")), def(mac(2), "redef"), def(g1, ""), ev(cg("g")), def(mac(3), "redef"), ag(0), ag(1), ev(cg("g")),
				def(g2, ""), ev(cg("g2")), def(mac(4), "redef"), ag(1), ag(3)}},
			c08Cell{"macro/closure/" + p.name, []c08Step{def(g1, ""), def(macClo("c0", 5), ""), ev(cg("g")), def(g2, ""), def(mac(1), "redef"), ag(0), ev(cg("g2")),
				def(macClo("c1", 7), "redef"), ag(0), ag(1), def(g3, ""), ev(cg("g3")), def(macClo("c2", 9), "redef"), ag(0), ag(1), ag(2)}},
			c08Cell{"macro/undefine-redefine/" + p.name, []c08Step{def(mac(1), ""), def(g1, ""), ev(cg("g")), undef("mc"), ag(0), def(g2, ""), def(mac(2), "redef-after-undef"), ag(0), ev(cg("g2")),
				def(mac(3), "redef"), ag(0), ag(1)}},
			c08Cell{"macro/function-then-macro/" + p.name, []c08Step{def(&c08Def{Name: "mc", Body: c08Const(1)}, ""), def(g1, ""), ev(cg("g")), def(mac(2), "redef"), ag(0), def(&c08Def{Name: "mc", Body: c08Const(3)}, "redef"), ag(0)}},
		)
	}
	// a function defined again with a different parameter list: callers compiled before use the new one
	for _, p := range positions {
		if p.name != "body" && p.name != "call-arg" && p.name != "if-then" {
			continue
		}
		g1 := &c08Def{Name: "g", Params: []string{"x"}, Body: p.body(callH())}
		cg := c08Call("g", c08Const(3))
		hOpt := &c08Def{Name: "h", Params: []string{"a"}, Opt: []c08Default{{"b", 7}, {"c", 9}}, Body: c08Prim("+", c08Prim("*", c08Var("a"), c08Const(10)), c08Prim("-", c08Var("b"), c08Var("c")))}
		hKey := &c08Def{Name: "h", Params: []string{"a", "b"}, Key: []c08Default{{"k", 4}}, Aux: []c08Aux{{Name: "u", Init: c08Prim("+", c08Var("a"), c08Var("k"))}}, Body: c08Prim("*", c08Var("u"), c08Var("b"))}
		hOne := &c08Def{Name: "h", Params: []string{"a"}, Body: c08Var("a")}
		hThree := &c08Def{Name: "h", Params: []string{"a", "b", "c"}, Body: c08Var("c")}
		cells = append(cells,
			c08Cell{"redefine-params/optional/" + p.name, []c08Step{def(h(0), ""), def(g1, ""), ev(cg), def(hOpt, "redef"), ag(0), def(h(1), "redef"), ag(0)}},
			c08Cell{"redefine-params/key-aux/" + p.name, []c08Step{def(g1, ""), def(h(0), ""), ev(cg), def(hKey, "redef"), ag(0), ev(cg)}},
			c08Cell{"redefine-params/fewer/" + p.name, []c08Step{def(h(0), ""), def(g1, ""), ev(cg), def(hOne, "redef"), ag(0), def(h(2), "redef"), ag(0)}},
			c08Cell{"redefine-params/more/" + p.name, []c08Step{def(g1, ""), def(h(0), ""), ev(cg), def(hThree, "redef"), ag(0), def(hOpt, "redef"), ag(0)}},
		)
	}
	// self and mutual recursion with arguments that matter
	fact := &c08Def{Name: "fa", Params: []string{"n", "a"}, Body: c08If(c08Prim("<", c08Var("n"), c08Const(1)), c08Var("a"),
		c08Call("fa", c08Prim("-", c08Var("n"), c08Const(1)), c08Prim("+", c08Var("a"), c08Var("n"))))}
	selfTop := &c08Def{Name: "fs", Params: []string{"n", "a"}, Body: c08Prim("+", c08Const(1),
		c08If(c08Prim("<", c08Var("n"), c08Const(1)), c08Var("a"), c08Call("fs", c08Prim("-", c08Var("n"), c08Const(1)), c08Prim("*", c08Var("a"), c08Const(2)))))}
	evn := &c08Def{Name: "ev", Params: []string{"n", "a"}, Body: c08If(c08Prim("<", c08Var("n"), c08Const(1)), c08Var("a"),
		c08Prim("+", c08Const(1), c08Call("od", c08Prim("-", c08Var("n"), c08Const(1)), c08Prim("+", c08Var("a"), c08Const(10)))))}
	odd := &c08Def{Name: "od", Params: []string{"n", "a"}, Body: c08If(c08Prim("<", c08Var("n"), c08Const(1)), c08Prim("-", c08Const(0), c08Var("a")),
		c08Prim("+", c08Const(2), c08Call("ev", c08Prim("-", c08Var("n"), c08Const(1)), c08Prim("+", c08Var("a"), c08Const(100)))))}
	cells = append(cells,
		c08Cell{"self-recursion/if", []c08Step{def(fact, ""), ev(c08Call("fa", c08Const(4), c08Const(0))), ag(0)}},
		c08Cell{"self-recursion/prim-arg", []c08Step{def(selfTop, ""), ev(c08Call("fs", c08Const(3), c08Const(1))), ag(0)}},
		c08Cell{"mutual-recursion/ev-od", []c08Step{def(evn, ""), def(odd, ""), ev(c08Call("ev", c08Const(5), c08Const(0))), ag(0)}},
		c08Cell{"mutual-recursion/od-ev", []c08Step{def(odd, ""), def(evn, ""), ev(c08Call("ev", c08Const(5), c08Const(0))), ag(0)}},
	)
	// a definition spelled as a macro with a backquote template (`(let ((a ,a) (b ,b)) body)): the
	// template is expanded on every call and must stay what was written — used twice, by different
	// callers, with a body whose sub-forms sit under if / let / a call, recursive, redefined, forward
	tm := func(d *c08Def) *c08Def { c := *d; c.Tmpl = true; return &c }
	for _, p := range positions {
		g1 := &c08Def{Name: "g", Params: []string{"x"}, Body: p.body(callH())}
		// the macro's own body has the call position; k calls h, a function
		k := func(q int64) *c08Def {
			return tm(&c08Def{Name: "k", Params: []string{"x", "c"}, Body: c08If(c08Prim("<", c08Var("c"), c08Const(1)), c08Const(q), p.body(callH()))})
		}
		callG := c08Call("g", c08Const(3))
		callK := func(x, c int64) *c08Expr { return c08Call("k", c08Const(x), c08Const(c)) }
		gk := &c08Def{Name: "gk", Params: []string{"x"}, Body: c08Prim("+", c08Call("k", c08Var("x"), c08Const(0)), c08Call("k", c08Prim("+", c08Var("x"), c08Const(1)), c08Var("x")))}
		cells = append(cells,
			c08Cell{"template/callee/" + p.name, []c08Step{def(tm(h(0)), ""), def(g1, ""), ev(callG), ag(0), ev(c08Call("g", c08Const(4))), ag(0), ag(1)}},
			c08Cell{"template/callee-forward/" + p.name, []c08Step{def(g1, ""), def(tm(h(0)), ""), ev(callG), ag(0), def(tm(h(1)), "redef"), ag(0), ev(callG)}},
			c08Cell{"template/body/" + p.name, []c08Step{def(h(0), ""), def(k(7), ""), ev(callK(3, 0)), ev(callK(3, 1)), ag(0), ag(1), ev(callK(4, 1)), ev(callK(5, 0)), ag(0), ag(1)}},
			c08Cell{"template/body-false-first/" + p.name, []c08Step{def(h(0), ""), def(k(7), ""), def(gk, ""), ev(c08Call("gk", c08Const(2))), ag(0), ev(c08Call("gk", c08Const(0))), ag(0), ag(1),
				def(h(1), "redef"), ag(0), ag(1), def(k(8), "redef"), ag(0), ag(1)}},
			c08Cell{"template/body-late/" + p.name, []c08Step{def(k(7), ""), ev(callK(3, 0)), ev(callK(3, 1)), def(h(0), "late"), ag(0), ag(1), ag(1), ag(0)}},
		)
	}
	tfact := tm(fact)
	cells = append(cells,
		c08Cell{"template/self-recursion", []c08Step{def(tfact, ""), ev(c08Call("fa", c08Const(4), c08Const(0))), ag(0), ev(c08Call("fa", c08Const(2), c08Const(5))), ag(0)}},
		c08Cell{"template/function-then-template", []c08Step{def(h(0), ""), def(&c08Def{Name: "g", Params: []string{"x"}, Body: callH()}, ""), ev(c08Call("g", c08Const(3))),
			def(tm(h(1)), "redef"), ag(0), def(h(2), "redef"), ag(0)}},
	)
	// a defining form that is a sub-form of a persistent code object, evaluated again after another
	// definition of the name: what was installed last counts (first definition of the name, after a
	// forward reference, after fmakunbound; seen by callers compiled before, between and after)
	for via := c08ViaPlain; via < c08Vias+1; via++ {
		vname := []string{"let", "progn", "when", "installer", "let-template"}[via]
		hv := func(q int64, ser int) *c08Def {
			d := h(q)
			d.Via, d.Ser = via, ser
			if via == c08ViaPlain || via == c08Vias {
				d.Via = c08ViaPlain
				d.Binds = []c08Aux{{Name: fmt.Sprintf("c%d", ser), Init: c08Const(int64(ser))}}
				d.Body = c08Prim("+", d.Body, c08Var(fmt.Sprintf("c%d", ser)))
			}
			if via == c08Vias {
				d.Tmpl = true
			}
			return d
		}
		re := func(d *c08Def) c08Step { return c08Step{Kind: "def", Def: d, Tag: "reinstall", Re: true} }
		// a plain top-level definition of the same kind (function or template macro)
		hp := func(q int64) *c08Def {
			d := h(q)
			d.Tmpl = via == c08Vias
			return d
		}
		for _, p := range positions {
			if p.name != "body" && p.name != "prim-arg" && p.name != "if-then" {
				continue
			}
			mk := func(name string) *c08Def { return &c08Def{Name: name, Params: []string{"x"}, Body: p.body(callH())} }
			gB, gM := mk("gb"), mk("gm")
			callOf := func(n string) *c08Expr { return c08Call(n, c08Const(3)) }
			hA, hB := hv(0, 1), hv(1, 2)
			top := ev(c08Call("h", c08Const(1), c08Const(1)))
			cells = append(cells,
				c08Cell{"reinstall/" + vname + "/first/" + p.name, []c08Step{def(hA, ""), def(gB, ""), ev(callOf("gb")), top, def(hB, "redef"), ag(0), ag(1),
					def(gM, ""), ev(callOf("gm")), re(hA), ag(0), ag(1), ag(2), re(hB), ag(0), ag(1), ag(2), re(hA), ag(0), ag(1), ag(2)}},
				c08Cell{"reinstall/" + vname + "/forward/" + p.name, []c08Step{def(gB, ""), def(hA, ""), ev(callOf("gb")), def(hB, "redef"), ag(0), re(hA), ag(0), re(hB), ag(0)}},
				c08Cell{"reinstall/" + vname + "/same-again/" + p.name, []c08Step{def(hA, ""), def(gB, ""), ev(callOf("gb")), re(hA), ag(0), re(hA), ag(0)}},
				c08Cell{"reinstall/" + vname + "/plain-between/" + p.name, []c08Step{def(hA, ""), def(gB, ""), ev(callOf("gb")), def(hp(5), "redef"), ag(0), re(hA), ag(0), def(hp(6), "redef"), ag(0)}},
				c08Cell{"reinstall/" + vname + "/undefine/" + p.name, []c08Step{def(hA, ""), def(gB, ""), ev(callOf("gb")), undef("h"), ag(0), re(hA), ag(0), def(hB, "redef"), ag(0), undef("h"), re(hA), ag(0)}},
			)
		}
	}
	return cells
}

// ---------------------------------------------------------------------------------------------

func c08Workers() int {
	if s := os.Getenv("VERIF_WORKERS"); s != "" {
		if n, err := strconv.Atoi(s); err == nil && n > 0 {
			return n
		}
	}
	return 12
}

type c08Mismatch struct {
	v    *c08Variant
	at   int
	impl string
	msg  string
}

// c08Check compares a variant's result with the model's outcomes; returns the first mismatch.
func c08Check(v *c08Variant, res *c08Result) *c08Mismatch {
	if res != nil && res.Skipped {
		return nil
	}
	if res == nil || res.Outs == nil {
		return &c08Mismatch{v: v, at: 0, impl: "crash"}
	}
	for i := range v.steps {
		if res.Outs[i] != v.model[i] {
			m := ""
			if i < len(res.Msgs) {
				m = res.Msgs[i]
			}
			return &c08Mismatch{v: v, at: i, impl: res.Outs[i], msg: m}
		}
	}
	return nil
}

func c08ReplayMap(v *c08Variant, res *c08Result, at int, expectedFrom string) map[string]any {
	var outs []string
	if res != nil {
		outs = res.Outs
	}
	return map[string]any{
		"input":         map[string]any{"history": c08ImplText(v.steps), "model_history": c08HistoryText(v.steps), "mode": v.mode, "steps": v.steps},
		"failing_step":  at,
		"observed":      outs,
		"expected":      v.model,
		"expected_from": expectedFrom,
		"relies_on":     []string{"SlipVerif.Compile.runC_correct", "SlipVerif.Compile.defs_commute", "SlipVerif.Compile.reeval_k", "SlipVerif.Compile.redefinition_takes_effect", "SlipVerif.Compile.assignment_takes_effect", "SlipVerif.Compile.variable_definition_order"},
	}
}

// ---------------------------------------------------------------------------------------------
// shrinking a failing composite history (same mode, same aspect) by delta debugging: drop steps,
// then replace sub-expressions by one of their children or a constant.

type c08Shrinker struct {
	c        *lib.Ctx
	attempts int
	seq      int
}

func (sh *c08Shrinker) run(steps []c08Step, mode string) (*c08Variant, *c08Result, *c08Mismatch) {
	if len(steps) == 0 || !c08Admissible(steps) {
		return nil, nil, nil
	}
	sh.attempts++
	sh.seq++
	model, ok := c08ParseReply(sh.c.Model([]string{c08ModelLine("run", steps)})[0])
	if !ok || len(model) != len(steps) {
		return nil, nil, nil
	}
	for _, o := range model {
		if o == "timeout" {
			return nil, nil, nil
		}
	}
	v := &c08Variant{mode: mode, steps: steps, model: model}
	v.job = c08MakeJob(0, mode, steps, c08Suffix("s", sh.seq))
	res := c08RunJobs([]*c08Job{v.job}, 1)[0]
	return v, res, c08Check(v, res)
}

func c08DropStep(steps []c08Step, i int) []c08Step {
	evalIdx := -1
	if steps[i].Kind == "eval" {
		evalIdx = 0
		for _, s := range steps[:i] {
			if s.Kind == "eval" {
				evalIdx++
			}
		}
	}
	var out []c08Step
	for k, s := range steps {
		if k == i {
			continue
		}
		if s.Kind == "again" && evalIdx >= 0 {
			if s.J == evalIdx {
				continue
			}
			if s.J > evalIdx {
				s.J--
			}
		}
		out = append(out, s)
	}
	return out
}

// c08Rewrite returns a copy of e in which the target-th node (preorder) is replaced by repl(node).
func c08Rewrite(e *c08Expr, idx *int, target int, repl func(*c08Expr) *c08Expr) *c08Expr {
	me := *idx
	*idx++
	if me == target {
		return repl(e)
	}
	cp := *e
	cp.Args = make([]*c08Expr, len(e.Args))
	for i, a := range e.Args {
		cp.Args[i] = c08Rewrite(a, idx, target, repl)
	}
	return &cp
}

func (sh *c08Shrinker) shrink(v *c08Variant, aspect string, limit int) (*c08Variant, *c08Result, *c08Mismatch) {
	var best *c08Variant
	var bestRes *c08Result
	var bestMM *c08Mismatch
	cur := v.steps
	try := func(cand []c08Step) bool {
		if sh.attempts >= limit {
			return false
		}
		nv, res, mm := sh.run(cand, v.mode)
		if mm == nil || nv == nil || c08Aspect(mm.impl, nv.model[mm.at]) != aspect {
			return false
		}
		best, bestRes, bestMM, cur = nv, res, mm, cand
		return true
	}
	for changed := true; changed && sh.attempts < limit; {
		changed = false
		for i := len(cur) - 1; i >= 0 && sh.attempts < limit; i-- {
			if i < len(cur) && try(c08DropStep(cur, i)) {
				changed = true
			}
		}
		for si := 0; si < len(cur) && sh.attempts < limit; si++ {
			var root *c08Expr
			switch cur[si].Kind {
			case "def":
				root = cur[si].Def.Body
			case "eval":
				root = cur[si].Expr
			default:
				continue
			}
			for t := 0; t < root.size() && sh.attempts < limit; t++ {
				var node *c08Expr
				k := 0
				c08Rewrite(root, &k, t, func(n *c08Expr) *c08Expr { node = n; return n })
				if node == nil || node.Kind == "const" || node.Kind == "var" {
					continue
				}
				cands := []*c08Expr{c08Const(1)}
				if node.Kind != "let" && node.Kind != "if" {
					cands = append(cands, node.Args...)
				} else if node.Kind == "if" {
					cands = append(cands, node.Args[1], node.Args[2])
				}
				for _, rep := range cands {
					rep := rep
					if rep.Kind == "kw" {
						continue // a keyword is only meaningful in an argument list
					}
					k = 0
					nroot := c08Rewrite(root, &k, t, func(*c08Expr) *c08Expr { return rep })
					cand := append([]c08Step{}, cur...)
					if cur[si].Kind == "def" {
						nd := *cur[si].Def
						nd.Body = nroot
						cand[si].Def = &nd
					} else {
						cand[si].Expr = nroot
					}
					if try(cand) {
						changed = true
						root = nroot
						t--
						break
					}
				}
			}
		}
	}
	return best, bestRes, bestMM
}

func c08Replay(c *lib.Ctx) {
	var rec struct {
		Input struct {
			Mode  string    `json:"mode"`
			Steps []c08Step `json:"steps"`
		} `json:"input"`
	}
	if err := lib.ReadJSON(c.Replay, &rec); err != nil || len(rec.Input.Steps) == 0 {
		fmt.Fprintln(os.Stderr, "cannot read replay file (no recorded history):", c.Replay, err)
		os.Exit(2)
	}
	steps := rec.Input.Steps
	reply := c.Model([]string{c08ModelLine("run", steps)})[0]
	model, ok := c08ParseReply(reply)
	if !ok || len(model) != len(steps) {
		fmt.Println("model reply unusable:", reply)
		os.Exit(2)
	}
	v := &c08Variant{mode: rec.Input.Mode, steps: steps, model: model}
	v.job = c08MakeJob(0, v.mode, steps, c08Suffix("r", 0))
	res := c08RunJobs([]*c08Job{v.job}, 1)[0]
	fmt.Printf("replay mode=%s\n  history       : %s\n  implementation: %v\n  model         : %v\n", v.mode, c08ImplText(steps), res.Outs, model)
	if mm := c08Check(v, res); mm != nil {
		fmt.Printf("  first difference at step %d (%s): observed %s %s, expected %s\n", mm.at, steps[mm.at].text(c08Ident, true), mm.impl, mm.msg, model[mm.at])
		c.Report("replay "+c08Construct(steps, mm.at), false, c08ReplayMap(v, res, mm.at, "model:comp.run"))
	}
}

func runC08(c *lib.Ctx) {
	c08Root = c.Root
	c08CrashLog = filepath.Join(c.OutDir, "crashed-jobs.jsonl")
	_ = os.Remove(c08CrashLog)
	if c.Replay != "" {
		c08Replay(c)
		return
	}
	var variants []*c08Variant
	var modelLines []string
	type lineRef struct{ first, n int } // variants sharing the model line
	var refs []lineRef
	addHistory := func(caseIdx int, perm []int, late int, steps []c08Step, sweep string) {
		modelLines = append(modelLines, c08ModelLine("run", steps))
		first := len(variants)
		for _, m := range c08Modes {
			v := &c08Variant{caseIdx: caseIdx, perm: perm, late: late, mode: m, steps: steps, sweep: sweep}
			variants = append(variants, v)
		}
		refs = append(refs, lineRef{first, len(c08Modes)})
	}

	// --- single-cause sweep (seed independent)
	cells := c08SweepCells()
	for i, cell := range cells {
		if !strings.HasPrefix(cell.name, "redefine-params/") && !c08Admissible(cell.steps) {
			// (the redefine-params cells call a function with too many / too few arguments on purpose)
			fmt.Fprintf(os.Stderr, "C08: sweep cell %s is not admissible (harness bug)\n", cell.name)
			os.Exit(2)
		}
		addHistory(-1-i, nil, -1, cell.steps, cell.name)
	}
	nSweep := len(variants)

	// --- composite programs
	nProg := c.Scale(1500, 9000)
	g := &c08Gen{rng: c.Rng}
	type progInfo struct {
		p        *c08Program
		direct   int // index of the `comp direct` line of the canonical order
		firstRef int
		nRefs    int
	}
	var progs []progInfo
	var directLines []string
	discarded := 0
	for len(progs) < nProg {
		p := g.program()
		ident := make([]int, len(p.Defs))
		for i := range ident {
			ident[i] = i
		}
		canon := p.history(ident, -1)
		if !c08Admissible(canon) {
			discarded++
			if discarded > 50*nProg {
				fmt.Fprintln(os.Stderr, "C08: generator produces too few admissible programs")
				os.Exit(2)
			}
			continue
		}
		perms := c08Perms(len(p.Defs))
		if len(perms) > 24 {
			// sample 24 of the 120 orders (the identity and the reverse always)
			keep := [][]int{perms[0], perms[len(perms)-1]}
			for len(keep) < 24 {
				keep = append(keep, perms[1+c.Rng.Intn(len(perms)-2)])
			}
			perms = keep
		}
		if !c.Thorough() && len(perms) > 6 {
			// quick tier: identity, reverse and four sampled orders
			keep := [][]int{perms[0], perms[len(perms)-1]}
			for len(keep) < 6 {
				keep = append(keep, perms[1+c.Rng.Intn(len(perms)-2)])
			}
			perms = keep
		}
		info := progInfo{p: p, direct: len(directLines), firstRef: len(refs)}
		directLines = append(directLines, c08ModelLine("direct", canon))
		for _, perm := range perms {
			addHistory(len(progs), perm, -1, p.history(perm, -1), "")
		}
		// one late-definition history per program (a definition arrives after the first calls)
		if len(p.Defs) > 1 {
			late := c.Rng.Intn(len(p.Defs))
			h := p.history(perms[c.Rng.Intn(len(perms))], late)
			if c08Admissible(h) {
				addHistory(len(progs), ident, late, h, "")
			}
		}
		info.nRefs = len(refs) - info.firstRef
		progs = append(progs, info)
		c.Ev.Hist("defs", strconv.Itoa(len(p.Defs)))
		c.Ev.Hist("global-variables", strconv.Itoa(len(p.Vars)))
		for _, e := range p.Events {
			c.Ev.Hist("event", e)
		}
		if len(p.Events) == 0 {
			c.Ev.Hist("event", "none")
		}
	}

	// --- model
	tModel := time.Now()
	replies := c.Model(append(append([]string{}, modelLines...), directLines...))
	c.Ev.Coverage["model_wall_s"] = time.Since(tModel).Seconds()
	for k, ref := range refs {
		outs, ok := c08ParseReply(replies[k])
		if !ok || len(outs) != len(variants[ref.first].steps) {
			fmt.Fprintf(os.Stderr, "C08: unusable model reply %q for %q\n", replies[k], modelLines[k])
			os.Exit(2)
		}
		for _, o := range outs {
			if o == "timeout" {
				fmt.Fprintf(os.Stderr, "C08: model ran out of fuel on an admissible history: %q\n", modelLines[k])
				os.Exit(2)
			}
		}
		for q := 0; q < ref.n; q++ {
			variants[ref.first+q].model = outs
		}
	}
	// the model itself: compiled mechanism = direct evaluator, and order independence (theorems
	// runC_correct / defs_commute; a failure here is a machinery error, not a verdict)
	for _, info := range progs {
		direct, _ := c08ParseReply(replies[len(modelLines)+info.direct])
		nd := len(info.p.Defs) + len(info.p.Vars)
		for r := info.firstRef; r < info.firstRef+info.nRefs; r++ {
			v := variants[refs[r].first]
			if v.late >= 0 {
				continue
			}
			if strings.Join(v.model[nd:], " ") != strings.Join(direct[nd:], " ") {
				fmt.Fprintf(os.Stderr, "C08: model disagrees with itself (order / compilation): %q vs direct %v\n", modelLines[r], direct)
				os.Exit(2)
			}
		}
	}

	// --- implementation
	jobs := make([]*c08Job, len(variants))
	for i, v := range variants {
		v.job = c08MakeJob(i, v.mode, v.steps, c08Suffix("v", i))
		jobs[i] = v.job
	}
	tImpl := time.Now()
	results := c08RunJobs(jobs, c08Workers())
	c.Ev.Coverage["impl_wall_s"] = time.Since(tImpl).Seconds()

	// --- compare
	agree := 0
	reported := map[string]bool{}
	okMode := map[int]map[string]bool{} // history (ref index) → modes that agree with the model
	for k, ref := range refs {
		okMode[k] = map[string]bool{}
		for q := 0; q < ref.n; q++ {
			if c08Check(variants[ref.first+q], results[ref.first+q]) == nil {
				okMode[k][variants[ref.first+q].mode] = true
			}
		}
	}
	for k, ref := range refs {
		for q := 0; q < ref.n; q++ {
			i := ref.first + q
			v := variants[i]
			res := results[i]
			nontrivial := false
			nonAtomic := 0
			for _, s := range v.steps {
				if s.Kind == "def" && s.Def.Body.size() > 1 {
					nonAtomic++
				}
				if s.Kind == "eval" && s.Expr.size() > 1 {
					nonAtomic++
				}
			}
			nontrivial = nonAtomic >= 2 && len(v.steps) >= 2
			c.Ev.Case(v.mode+"|"+modelLines[k], nontrivial)
			c.Ev.Hist("mode", v.mode)
			if q == 0 {
				c.Ev.Hist("construct", c08Construct(v.steps, len(v.steps)-1))
			}
			if res != nil && res.Skipped {
				c.Ev.Count("skipped_after_crashes", 1)
				continue
			}
			mm := c08Check(v, res)
			if mm == nil {
				agree++
				continue
			}
			// the other side of the pair: a mode that does agree with the model on this history
			// (same definition order), else the model
			other := "model"
			for _, m := range c08Modes {
				if okMode[k][m] {
					other = m
					break
				}
			}
			expectedFrom := "model:comp.run"
			if other != "model" {
				expectedFrom = "impl:" + other + " and model:comp.run"
			}
			aspect := c08Aspect(mm.impl, v.model[mm.at])
			rm := c08ReplayMap(v, res, mm.at, expectedFrom)
			rm["observed_at_step"] = mm.impl + " " + mm.msg
			rm["expected_at_step"] = v.model[mm.at]
			rm["step_text"] = v.steps[mm.at].text(c08Ident, true)
			if v.sweep != "" {
				c.Report(fmt.Sprintf("cell=%s pair=%s|%s aspect=%s", v.sweep, v.mode, other, aspect), true, rm)
			} else {
				sig := fmt.Sprintf("pair=%s|%s %s aspect=%s", v.mode, other, c08Construct(v.steps, mm.at), aspect)
				if !reported[sig] && aspect != "host-crash" && len(reported) < 4 {
					// minimise the first failing inputs (the full history stays in the replay file)
					sh := &c08Shrinker{c: c}
					if sv, sres, smm := sh.shrink(v, aspect, 120); sv != nil {
						rm["original_history"] = c08HistoryText(v.steps)
						small := c08ReplayMap(sv, sres, smm.at, expectedFrom)
						for k, x := range small {
							rm[k] = x
						}
						rm["observed_at_step"] = smm.impl + " " + smm.msg
						rm["expected_at_step"] = sv.model[smm.at]
						rm["step_text"] = sv.steps[smm.at].text(c08Ident, true)
						rm["shrink_attempts"] = sh.attempts
					}
				}
				reported[sig] = true
				c.Report(sig, false, rm)
			}
		}
	}
	// where the time goes (evidence only)
	var totalUs, maxUs int64
	slowest := -1
	for i, r := range results {
		if r != nil {
			totalUs += r.Us
			if r.Us > maxUs {
				maxUs, slowest = r.Us, i
			}
		}
	}
	c.Ev.Coverage["impl_cpu_s"] = float64(totalUs) / 1e6
	if slowest >= 0 {
		c.Ev.Coverage["slowest_variant"] = map[string]any{"ms": maxUs / 1000, "mode": variants[slowest].mode, "history": c08ImplText(variants[slowest].steps)}
	}
	// samples
	for k := 0; k < len(refs) && k < len(refs); k += len(refs)/10 + 1 {
		v := variants[refs[k].first]
		var outs []string
		if r := results[refs[k].first]; r != nil {
			outs = r.Outs
		}
		c.Ev.Sample(map[string]any{"history": c08HistoryText(v.steps), "mode": v.mode, "impl": strings.Join(outs, " "), "model": strings.Join(v.model, " ")})
	}
	if c.GenBroken != "" {
		// a regenerated fact about the shared-cell code (Theorems/GenC08) no longer holds: this run is
		// the witness search; without a failing input tools/check.py reports no-failing-input-found
		c.Ev.Coverage["witness_search_for_broken_obligation"] = c.GenBroken
	}
	c.Ev.Coverage["traces_validated_against_impl"] = len(variants)
	c.Ev.Coverage["agreements"] = agree
	c.Ev.Coverage["sweep_cells"] = len(cells)
	c.Ev.Coverage["sweep_variants"] = nSweep
	c.Ev.Coverage["programs"] = len(progs)
	c.Ev.Coverage["histories"] = len(refs)
	c.Ev.Coverage["discarded_inadmissible"] = discarded
	c.Ev.Coverage["modes"] = c08Modes
	c.Ev.Coverage["workers"] = c08Workers()
	c.Ev.Coverage["rule"] = "case = (history, evaluation mode); history = a permutation of the initial definitions of a generated program (2-5 defuns, self/mutual recursion, forward calls at compile and lazy positions) followed by evaluations, re-evaluations of kept objects, redefinitions, new callers, late definitions; sweep = fixed minimal histories (construct x call position) in every mode; non-trivial = at least 2 non-atomic forms and at least 2 steps; distinct by (mode, history text)"
}
