package main

// C06 — lists keep value semantics although they are stored as shared Go slices.
//
// Correspondence: operation histories over a pool of named lists (every aliasing pattern) are run
// on the real implementation; after EVERY step the contents of EVERY live variable are recorded.
// The histories, with the observations, go to the Lean model (SlipVerif.Model.ListHeap through
// Driver/ListHeap.lean, protocol "heap run …"), which answers per step
//   - the expected result: the value level (B) applied to the implementation's current argument
//     values,
//   - the may-change set: the variables the cons-cell heap (A) allows to change.
// Rules checked (first failing rule ends the history):
//   R1 result   : implementation result = expected result (condition <-> condition)
//   R2 frame    : a variable differs from its previous print only if it is in the may-change set
//                 (or is the assigned variable / place and then holds the predicted value)
//   R3 extension: an extending operation (cons push list* append add nconc) never overwrites:
//                 every other variable's previous contents are a prefix of its new contents
// slip's extra copying is always accepted (R2 never demands a change), extra sharing never.

import (
	"encoding/json"
	"fmt"
	"hash/fnv"
	"os"
	"runtime"
	"sort"
	"strconv"
	"strings"
	"sync"

	"github.com/ohler55/slip"
	"verif/harness/lib"
)

func init() { props["C06"] = runC06 }

// ---------------------------------------------------------------------------------------------
// histories

type c06Step struct {
	Target string   `json:"target"` // "-" = no assignment
	Op     string   `json:"op"`     // wire name
	Args   []string `json:"args"`   // wire arguments
	Quoted bool     `json:"quoted,omitempty"`
	Form   string   `json:"form,omitempty"` // which Lisp form renders the operation (not sent to the model)
	// nested application: the argument written "$tmp" is the result of Inner, handed over without an
	// intermediate variable (Nest 0: nested call, 1: lambda parameter, 2: element of a list)
	Inner *c06Step `json:"inner,omitempty"`
	Nest  int      `json:"nest,omitempty"`
}

const c06Tmp = "$tmp"

type c06Hist struct {
	Steps []c06Step `json:"steps"`
	Setup int       `json:"setup"` // leading pool-construction steps
	Sweep string    `json:"sweep,omitempty"`
}

const (
	c06Share = iota // result is a tail of the argument (or the argument)
	c06Fresh        // result is freshly allocated
	c06Ext          // non-destructive extension: fresh cells + shared tail
	c06Destr        // destructive
	c06ExtD         // destructive extension (add, nconc)
)

type c06OpInfo struct {
	kind    int
	vars    []int // positions in Args holding variables
	atomRes bool  // result is an element, not a list
	place   int   // position of the reassigned variable (push/pop), -1 none
}

var c06Ops = map[string]c06OpInfo{
	"lit":       {c06Fresh, nil, false, -1},
	"alias":     {c06Share, []int{0}, false, -1},
	"cons":      {c06Ext, []int{1}, false, -1},
	"push":      {c06Ext, []int{1}, false, 1},
	"liststar":  {c06Ext, []int{2}, false, -1},
	"append":    {c06Ext, []int{0, 1}, false, -1},
	"cdr":       {c06Share, []int{0}, false, -1},
	"rest":      {c06Share, []int{0}, false, -1},
	"nthcdr":    {c06Share, []int{1}, false, -1},
	"pop":       {c06Share, []int{0}, true, 0},
	"last":      {c06Share, []int{1}, false, -1},
	"member":    {c06Share, []int{1}, false, -1},
	"butlast":   {c06Fresh, []int{1}, false, -1},
	"subseq":    {c06Fresh, []int{2}, false, -1},
	"copylist":  {c06Fresh, []int{0}, false, -1},
	"reverse":   {c06Fresh, []int{0}, false, -1},
	"remove":    {c06Fresh, []int{1}, false, -1},
	"mapcar":    {c06Fresh, []int{1}, false, -1},
	"rplaca":    {c06Destr, []int{0}, false, -1},
	"setcar":    {c06Destr, []int{0}, true, -1},
	"setnth":    {c06Destr, []int{1}, true, -1},
	"setelt":    {c06Destr, []int{1}, true, -1},
	"rplacd":    {c06Destr, []int{0, 1}, false, -1},
	"nconc":     {c06ExtD, []int{0, 1}, false, -1},
	"add":       {c06ExtD, []int{0}, false, -1},
	"nreverse":  {c06Destr, []int{0}, false, -1},
	"sort":      {c06Destr, []int{1}, false, -1}, // args: asc|desc[,key=f], x
	"mapcar2":   {c06Fresh, []int{0, 1}, false, -1},
	"liststar1": {c06Share, []int{0}, false, -1},
	"liststar2": {c06Ext, []int{1}, false, -1},
	"delete":    {c06Destr, []int{1}, false, -1},
	"concat":    {c06Fresh, []int{0, 1}, false, -1},
	// lists built from argument lists (&rest, apply, multiple values, the mapping functions) and other
	// functions that are not documented as destructive
	"fresh1":    {c06Fresh, []int{1}, false, -1},    // args: fn, x
	"fresh2":    {c06Fresh, []int{1, 2}, false, -1}, // args: fn, x, y
	"revappend": {c06Ext, []int{0, 1}, false, -1},
	"applyrest": {c06Share, []int{0}, false, -1},
	"adjoin":    {c06Ext, []int{1}, false, -1},
	"pushnew":   {c06Ext, []int{1}, false, 1},
	// destructive functions that overwrite elements (Op.carmap) and nbutlast
	"fill":     {c06Destr, []int{1}, false, -1}, // args: v, x
	"nsubst":   {c06Destr, []int{2}, false, -1}, // args: new, old, x
	"nsubstif": {c06Destr, []int{2}, false, -1}, // args: new, even|odd, x
	"mapinto":  {c06Destr, []int{1}, false, -1}, // args: inc|dbl, x
	"replace":  {c06Destr, []int{2}, false, -1}, // args: start1, vals, x
	"incfnth":  {c06Destr, []int{2}, true, -1},  // args: n, delta, x
	"nbutlast": {c06Destr, []int{1}, false, -1}, // args: n, x
}

// c06PlaceForm renders an operation on a PLACE that is not a variable: the list sits in a holder
// (a one-element list or vector) and the place is (car zw) / (aref zw 0); afterwards the variable gets
// the holder's element back, so the step means the same as the operation on the variable itself.
// body gets the place text; back = the variable is assigned from the place afterwards.
func c06PlaceForm(form, x string, back, prog1 bool, body func(place string) string) string {
	holder, place := "(list "+x+")", "(car zw)"
	if form == "arefplace" {
		holder, place = "(vector "+x+")", "(aref zw 0)"
	}
	inner := body(place)
	switch {
	case back && prog1:
		inner = fmt.Sprintf("(prog1 %s (setf %s %s))", inner, x, place)
	case back:
		inner = fmt.Sprintf("%s (setf %s %s)", inner, x, place)
	}
	return fmt.Sprintf("(let ((zw %s)) %s)", holder, inner)
}

func c06IsPlaceForm(form string) bool { return form == "carplace" || form == "arefplace" }

// c06RestDefun is defined once per process: a function that returns its &rest list.
const c06RestDefun = "(defun c06-rest (&rest p) p) (defun c06-rest-after (a &rest p) p)"

// c06LitForm renders a list of literal values that reaches the program through an ARGUMENT LIST.
func c06LitForm(form, vals string) string {
	switch form {
	case "funcallrest":
		return strings.TrimSpace("(funcall (lambda (&rest p) p) "+vals) + ")"
	case "defunrest":
		return strings.TrimSpace("(c06-rest "+vals) + ")"
	case "restafter":
		return strings.TrimSpace("(c06-rest-after 0 "+vals) + ")"
	case "applyspread":
		return strings.TrimSpace("(apply (lambda (&rest p) p) "+vals) + " nil)"
	case "mvlist":
		return strings.TrimSpace("(multiple-value-list (values "+vals) + "))"
	case "applylist":
		return "(apply #'list (list " + vals + "))"
	}
	return strings.TrimSpace("(list "+vals) + ")"
}

func c06Fresh1Form(form, fn, x string) string {
	if fn == "dedup" {
		return fmt.Sprintf("(union %s nil)", x)
	}
	if f := strings.Split(fn, ":"); len(f) == 3 {
		switch f[0] {
		case "subst":
			return fmt.Sprintf("(substitute %s %s %s)", f[1], f[2], x)
		case "substif":
			return fmt.Sprintf("(substitute-if %s '%sp %s)", f[1], f[2], x)
		}
	}
	switch form {
	case "copytree":
		return fmt.Sprintf("(copy-tree %s)", x)
	case "applylist":
		return fmt.Sprintf("(apply #'list %s)", x)
	case "mvlist":
		return fmt.Sprintf("(multiple-value-list (values-list %s))", x)
	case "mapcar":
		return fmt.Sprintf("(mapcar (lambda (el) el) %s)", x)
	case "maplist":
		return fmt.Sprintf("(maplist (lambda (tl) (car tl)) %s)", x)
	case "map":
		return fmt.Sprintf("(map 'list (lambda (el) el) %s)", x)
	case "mapcon":
		return fmt.Sprintf("(mapcon (lambda (&rest p) (list (car (car p)))) %s)", x)
	case "coerce":
		return fmt.Sprintf("(coerce (coerce %s 'vector) 'list)", x)
	case "reduce":
		return fmt.Sprintf("(nreverse (reduce (lambda (acc el) (cons el acc)) %s :initial-value nil))", x)
	case "restcopy":
		return fmt.Sprintf("(apply (lambda (&rest p) (copy-list p)) %s)", x)
	}
	return fmt.Sprintf("(copy-seq %s)", x)
}

func c06Fresh2Form(form, fn, x, y string) string {
	switch fn {
	case "interleave":
		switch form {
		case "mapcanlist":
			return fmt.Sprintf("(mapcan #'list %s %s)", x, y)
		case "mapcan2":
			return fmt.Sprintf("(mapcan (lambda (p q) (list p q)) %s %s)", x, y)
		}
		return fmt.Sprintf("(mapcan (lambda (&rest p) p) %s %s)", x, y)
	case "firstpair":
		if form == "carmapcar" {
			return fmt.Sprintf("(car (mapcar (lambda (&rest p) p) %s %s))", x, y)
		}
		if form == "carmapcarlist" {
			return fmt.Sprintf("(car (mapcar #'list %s %s))", x, y)
		}
		return fmt.Sprintf("(let (keep) (mapc (lambda (&rest p) (unless keep (setq keep p))) %s %s) keep)", x, y)
	case "lastpair":
		if form == "lastmapcar" {
			return fmt.Sprintf("(car (last (mapcar (lambda (&rest p) p) %s %s)))", x, y)
		}
		if form == "lastmapcarlist" {
			return fmt.Sprintf("(car (last (mapcar #'list %s %s)))", x, y)
		}
		return fmt.Sprintf("(let (keep) (mapc (lambda (&rest p) (setq keep p)) %s %s) keep)", x, y)
	case "takemin":
		return fmt.Sprintf("(mapcar (lambda (&rest p) (car p)) %s %s)", x, y)
	case "union":
		return fmt.Sprintf("(union %s %s)", x, y)
	}
	return "(error \"bad fresh2\")"
}

func c06Extending(op string) bool {
	k := c06Ops[op].kind
	return k == c06Ext || k == c06ExtD
}

func c06Destructive(op string) bool {
	k := c06Ops[op].kind
	return k == c06Destr || k == c06ExtD
}

func c06Vals(s string) string { return strings.ReplaceAll(s, ".", " ") }

func c06KeyLisp(f string) string {
	switch f {
	case "inc":
		return "'1+"
	case "dbl":
		return "(lambda (el) (* el 2))"
	}
	return "'-"
}

// c06SpecLisp renders remove/delete/member with their keyword arguments.
// spec = pred[,key=f][,start=n][,end=n][,count=n][,fromend] | dups[,fromend]
func c06SpecLisp(fn, spec, x string) string {
	parts := strings.Split(spec, ",")
	kind, v, _ := strings.Cut(parts[0], ":")
	kw := ""
	for _, o := range parts[1:] {
		k, val, _ := strings.Cut(o, "=")
		switch k {
		case "fromend":
			kw += " :from-end t"
		case "key":
			kw += " :key " + c06KeyLisp(val)
		case "start":
			kw += " :start " + val
		case "end":
			kw += " :end " + val
		case "count":
			kw += " :count " + val
		}
	}
	switch kind {
	case "eq":
		return fmt.Sprintf("(%s %s %s%s)", fn, v, x, kw)
	case "gt": // item < element
		return fmt.Sprintf("(%s %s %s :test '<%s)", fn, v, x, kw)
	case "even":
		return fmt.Sprintf("(%s-if 'evenp %s%s)", fn, x, kw)
	case "odd":
		return fmt.Sprintf("(%s-if 'oddp %s%s)", fn, x, kw)
	case "lt":
		if fn == "member" {
			return fmt.Sprintf("(%s %s %s :test '>%s)", fn, v, x, kw)
		}
		return fmt.Sprintf("(%s-if (lambda (el) (< el %s)) %s%s)", fn, v, x, kw)
	case "dups":
		return fmt.Sprintf("(%s-duplicates %s%s)", fn, x, kw)
	default:
		if _, err := strconv.Atoi(kind); err == nil { // plain item
			return fmt.Sprintf("(%s %s %s%s)", fn, kind, x, kw)
		}
	}
	return "(error \"bad spec\")"
}

// lisp renders the step as the form evaluated on the implementation.
func (st c06Step) lisp() string {
	a := append([]string(nil), st.Args...)
	pre, post := "", ""
	if st.Inner != nil {
		in := *st.Inner
		in.Target = "-"
		inner := in.lisp()
		sub := inner
		nest := st.Nest
		if c06Ops[st.Op].place >= 0 && nest == 0 {
			nest = 1 // push/pop need a place
		}
		switch nest {
		case 1:
			pre, post, sub = "(funcall (lambda (zz) ", ") "+inner+")", "zz"
		case 2:
			pre, post, sub = "(let ((zz (list "+inner+"))) ", ")", "(car zz)"
		}
		for i := range a {
			if a[i] == c06Tmp {
				a[i] = sub
			}
		}
	}
	var form string
	switch st.Op {
	case "lit":
		vals := ""
		if len(a) > 0 {
			vals = c06Vals(a[0])
		}
		if st.Form != "" {
			form = c06LitForm(st.Form, vals) // the literal values arrive through an argument list (&rest, apply, values)
		} else if st.Quoted && vals != "" {
			form = "'(" + vals + ")"
		} else {
			form = strings.TrimSpace("(list "+vals) + ")"
		}
	case "alias":
		form = a[0]
	case "cons":
		form = fmt.Sprintf("(cons %s %s)", a[0], a[1])
	case "push":
		if c06IsPlaceForm(st.Form) {
			form = c06PlaceForm(st.Form, a[1], true, false, func(pl string) string { return fmt.Sprintf("(push %s %s)", a[0], pl) })
		} else {
			form = fmt.Sprintf("(push %s %s)", a[0], a[1])
		}
	case "liststar":
		form = fmt.Sprintf("(list* %s %s %s)", a[0], a[1], a[2])
	case "append":
		form = fmt.Sprintf("(append %s %s)", a[0], a[1])
	case "cdr":
		form = fmt.Sprintf("(cdr %s)", a[0])
	case "rest":
		form = fmt.Sprintf("(rest %s)", a[0])
	case "nthcdr":
		form = fmt.Sprintf("(nthcdr %s %s)", a[0], a[1])
	case "pop":
		if c06IsPlaceForm(st.Form) {
			form = c06PlaceForm(st.Form, a[0], true, true, func(pl string) string { return fmt.Sprintf("(pop %s)", pl) })
		} else {
			form = fmt.Sprintf("(pop %s)", a[0])
		}
	case "last":
		if a[0] == "1" && st.Quoted {
			form = fmt.Sprintf("(last %s)", a[1])
		} else {
			form = fmt.Sprintf("(last %s %s)", a[1], a[0])
		}
	case "member":
		form = c06SpecLisp("member", a[0], a[1])
	case "mapcar2":
		form = fmt.Sprintf("(mapcar '+ %s %s)", a[0], a[1])
	case "concat":
		form = fmt.Sprintf("(concatenate 'list %s %s)", a[0], a[1])
	case "liststar1":
		form = fmt.Sprintf("(list* %s)", a[0])
	case "liststar2":
		form = fmt.Sprintf("(list* %s %s)", a[0], a[1])
	case "butlast":
		if a[0] == "1" && st.Quoted {
			form = fmt.Sprintf("(butlast %s)", a[1])
		} else {
			form = fmt.Sprintf("(butlast %s %s)", a[1], a[0])
		}
	case "subseq":
		if a[1] == "-" {
			form = fmt.Sprintf("(subseq %s %s)", a[2], a[0])
		} else {
			form = fmt.Sprintf("(subseq %s %s %s)", a[2], a[0], a[1])
		}
	case "copylist":
		form = fmt.Sprintf("(copy-list %s)", a[0])
	case "reverse":
		form = fmt.Sprintf("(reverse %s)", a[0])
	case "remove":
		form = c06SpecLisp("remove", a[0], a[1])
	case "mapcar":
		switch a[0] {
		case "inc":
			form = fmt.Sprintf("(mapcar '1+ %s)", a[1])
		case "dbl":
			form = fmt.Sprintf("(mapcar (lambda (el) (* el 2)) %s)", a[1])
		default:
			form = fmt.Sprintf("(mapcar '- %s)", a[1])
		}
	case "rplaca":
		form = fmt.Sprintf("(rplaca %s %s)", a[0], a[1])
	case "setcar":
		switch {
		case c06IsPlaceForm(st.Form):
			form = c06PlaceForm(st.Form, a[0], false, false, func(pl string) string { return fmt.Sprintf("(setf (car %s) %s)", pl, a[1]) })
		case st.Form == "first":
			form = fmt.Sprintf("(setf (first %s) %s)", a[0], a[1])
		default:
			form = fmt.Sprintf("(setf (car %s) %s)", a[0], a[1])
		}
	case "setnth":
		switch {
		case c06IsPlaceForm(st.Form):
			form = c06PlaceForm(st.Form, a[1], false, false, func(pl string) string { return fmt.Sprintf("(setf (nth %s %s) %s)", a[0], pl, a[2]) })
		case st.Form == "second" && a[0] == "1":
			form = fmt.Sprintf("(setf (second %s) %s)", a[1], a[2])
		case st.Form == "cadr" && a[0] == "1":
			form = fmt.Sprintf("(setf (cadr %s) %s)", a[1], a[2])
		default:
			form = fmt.Sprintf("(setf (nth %s %s) %s)", a[0], a[1], a[2])
		}
	case "setelt":
		form = fmt.Sprintf("(setf (elt %s %s) %s)", a[1], a[0], a[2])
	case "rplacd":
		form = fmt.Sprintf("(rplacd %s %s)", a[0], a[1])
	case "nconc":
		form = fmt.Sprintf("(nconc %s %s)", a[0], a[1])
	case "add":
		form = strings.TrimSpace(fmt.Sprintf("(add %s %s", a[0], c06Vals(a[1]))) + ")"
	case "nreverse":
		form = fmt.Sprintf("(nreverse %s)", a[0])
	case "sort":
		opts := strings.Split(a[0], ",")
		pred := "'<"
		if opts[0] == "desc" {
			pred = "'>"
		}
		form = fmt.Sprintf("(sort %s %s", a[1], pred)
		if len(opts) > 1 {
			_, f, _ := strings.Cut(opts[1], "=")
			form += " :key " + c06KeyLisp(f)
		}
		form += ")"
	case "delete":
		form = c06SpecLisp("delete", a[0], a[1])
	case "fresh1":
		form = c06Fresh1Form(st.Form, a[0], a[1])
	case "fresh2":
		form = c06Fresh2Form(st.Form, a[0], a[1], a[2])
	case "revappend":
		form = fmt.Sprintf("(revappend %s %s)", a[0], a[1])
	case "applyrest":
		switch st.Form {
		case "defun":
			form = fmt.Sprintf("(apply 'c06-rest %s)", a[0])
		case "mapl":
			form = fmt.Sprintf("(let (keep) (mapl (lambda (&rest p) (unless keep (setq keep (car p)))) %s) keep)", a[0])
		default:
			form = fmt.Sprintf("(apply (lambda (&rest p) p) %s)", a[0])
		}
	case "adjoin":
		form = fmt.Sprintf("(adjoin %s %s)", a[0], a[1])
	case "pushnew":
		if c06IsPlaceForm(st.Form) {
			form = c06PlaceForm(st.Form, a[1], true, false, func(pl string) string { return fmt.Sprintf("(pushnew %s %s)", a[0], pl) })
		} else {
			form = fmt.Sprintf("(pushnew %s %s)", a[0], a[1])
		}
	case "fill":
		form = fmt.Sprintf("(fill %s %s)", a[1], a[0])
	case "nsubst":
		form = fmt.Sprintf("(nsubstitute %s %s %s)", a[0], a[1], a[2])
	case "nsubstif":
		form = fmt.Sprintf("(nsubstitute-if %s '%sp %s)", a[0], a[1], a[2])
	case "mapinto":
		form = fmt.Sprintf("(map-into %s %s %s)", a[1], c06KeyLisp(a[0]), a[1])
	case "replace":
		form = fmt.Sprintf("(replace %s (list %s)", a[2], c06Vals(a[1]))
		if a[0] != "0" {
			form += " :start1 " + a[0]
		}
		form += ")"
	case "incfnth":
		place := func(x string) string {
			if a[0] == "0" && st.Form != "nth" {
				return "(car " + x + ")"
			}
			return fmt.Sprintf("(nth %s %s)", a[0], x)
		}
		if c06IsPlaceForm(st.Form) {
			form = c06PlaceForm(st.Form, a[2], false, false, func(pl string) string { return fmt.Sprintf("(incf %s %s)", place(pl), a[1]) })
		} else {
			form = fmt.Sprintf("(incf %s %s)", place(a[2]), a[1])
		}
	case "nbutlast":
		if a[0] == "1" && st.Quoted {
			form = fmt.Sprintf("(nbutlast %s)", a[1])
		} else {
			form = fmt.Sprintf("(nbutlast %s %s)", a[1], a[0])
		}
	default:
		form = "(error \"unknown op\")"
	}
	form = pre + form + post
	if st.Target != "-" {
		return fmt.Sprintf("(setq %s %s)", st.Target, form)
	}
	return form
}

func (st c06Step) wire() string {
	return "S;" + st.Target + ";" + st.Op + ";" + strings.Join(st.Args, ";")
}

func (st c06Step) varArgs() []string {
	var out []string
	for _, i := range c06Ops[st.Op].vars {
		if i < len(st.Args) && st.Args[i] != "nil" {
			out = append(out, st.Args[i])
		}
	}
	return out
}

func (h c06Hist) lisp() string {
	var parts []string
	for _, st := range h.Steps {
		parts = append(parts, st.lisp())
	}
	return strings.Join(parts, " ")
}

// ---------------------------------------------------------------------------------------------
// observing the implementation

type c06Obs struct {
	Res   string            // l… | i… | e | x:<text>
	Class string            // condition class when Res == e
	Vars  map[string]string // name -> "1.2.3" | "x:<text>"
	Order []string
}

// c06Show renders a value in wire form: l1.2.3 (list of fixnums), i5, or x:<printed>.
func c06Show(v slip.Object) string {
	switch tv := v.(type) {
	case nil:
		return "l"
	case slip.Fixnum:
		return "i" + strconv.FormatInt(int64(tv), 10)
	case slip.List:
		var sb strings.Builder
		sb.WriteByte('l')
		for i, e := range tv {
			f, ok := e.(slip.Fixnum)
			if !ok {
				return "x:" + c06Safe(v, 0)
			}
			if i > 0 {
				sb.WriteByte('.')
			}
			sb.WriteString(strconv.FormatInt(int64(f), 10))
		}
		return sb.String()
	}
	return "x:" + c06Safe(v, 0)
}

// c06Safe prints a value without following cycles (slip's own printer recurses without bound on a
// list that contains itself through a Tail, which would kill the process).
func c06Safe(v slip.Object, depth int) string {
	if depth > 4 {
		return "..."
	}
	switch tv := v.(type) {
	case nil:
		return "nil"
	case slip.Fixnum:
		return strconv.FormatInt(int64(tv), 10)
	case slip.Tail:
		return ". " + c06Safe(tv.Value, depth+1)
	case slip.List:
		parts := make([]string, 0, len(tv))
		for i, e := range tv {
			if i > 12 {
				parts = append(parts, "...")
				break
			}
			parts = append(parts, c06Safe(e, depth+1))
		}
		return "(" + strings.Join(parts, " ") + ")"
	}
	return fmt.Sprintf("#<%T>", v)
}

// c06Eval evaluates src without printing the result (see c06Safe).
func c06Eval(scope *slip.Scope, src string) (val slip.Object, ok bool, class string) {
	defer func() {
		if r := recover(); r != nil {
			ok = false
			switch tr := r.(type) {
			case *slip.Panic:
				class = strings.ToLower(string(tr.Hierarchy()[0]))
			case slip.Instance:
				class = strings.ToLower(string(tr.Hierarchy()[0]))
			case error:
				class = "go-error"
			default:
				class = "go-panic"
			}
		}
	}()
	code := slip.ReadString(src, scope)
	for _, obj := range code {
		val = scope.Eval(obj, 0)
	}
	return val, true, ""
}

var c06DefunOnce sync.Once

func c06RunImpl(h c06Hist) []c06Obs {
	c06DefunOnce.Do(func() {
		if _, ok, class := c06Eval(slip.NewScope(), c06RestDefun); !ok {
			fmt.Fprintln(os.Stderr, "C06: cannot define the helper functions:", class)
			os.Exit(2)
		}
	})
	scope := slip.NewScope()
	declared := map[string]bool{}
	for _, st := range h.Steps {
		names := append(st.varArgs(), st.Target)
		if st.Inner != nil {
			names = append(names, st.Inner.varArgs()...)
		}
		for _, n := range names {
			if n != "-" && n != c06Tmp && !declared[n] {
				declared[n] = true
				scope.Let(slip.Symbol(n), nil)
			}
		}
	}
	// every variable of the history is live from the start (let-bound to nil)
	live := make([]string, 0, len(declared))
	for n := range declared {
		live = append(live, n)
	}
	sort.Strings(live)
	obs := make([]c06Obs, 0, len(h.Steps))
	for _, st := range h.Steps {
		val, ok, class := c06Eval(scope, st.lisp())
		o := c06Obs{Vars: map[string]string{}}
		if ok {
			o.Res = c06Show(val)
		} else {
			o.Res = "e"
			o.Class = class
		}
		for _, n := range live {
			s := c06Show(scope.Get(slip.Symbol(n)))
			if strings.HasPrefix(s, "l") {
				s = s[1:]
			} else {
				s = "x:" + s
			}
			o.Vars[n] = s
		}
		o.Order = append([]string(nil), live...)
		obs = append(obs, o)
	}
	return obs
}

// request builds the model request; cut = number of steps included.
func c06Request(h c06Hist, obs []c06Obs) string {
	var sb strings.Builder
	sb.WriteString("heap run")
	for i, st := range h.Steps {
		if st.Inner != nil {
			in := *st.Inner
			in.Target = c06Tmp
			sb.WriteByte(' ')
			sb.WriteString(in.wire())
			sb.WriteString(" O;x") // nothing is observable between the inner and the outer call
		}
		sb.WriteByte(' ')
		sb.WriteString(st.wire())
		sb.WriteString(" O;")
		res := obs[i].Res
		if strings.HasPrefix(res, "x:") {
			res = "x"
		}
		sb.WriteString(res)
		for _, n := range obs[i].Order {
			v := obs[i].Vars[n]
			if strings.HasPrefix(v, "x:") {
				continue // not a flat integer list: reported by the harness, not sent
			}
			sb.WriteByte(';')
			sb.WriteString(n)
			sb.WriteByte('=')
			sb.WriteString(v)
		}
	}
	return sb.String()
}

type c06StepReply struct {
	Status   string
	Expected string
	May      map[string]bool
	Diverged map[string]bool
}

func c06ParseReply(line string) ([]c06StepReply, error) {
	w := strings.Fields(line)
	if len(w) == 0 || w[0] != "ok" {
		return nil, fmt.Errorf("model reply %q", line)
	}
	var out []c06StepReply
	for _, tok := range w[1:] {
		f := strings.Split(tok, ";")
		if len(f) != 4 {
			return nil, fmt.Errorf("model reply token %q", tok)
		}
		r := c06StepReply{Status: f[0], Expected: f[1], May: map[string]bool{}, Diverged: map[string]bool{}}
		if f[2] != "-" {
			for _, n := range strings.Split(f[2], ",") {
				r.May[n] = true
			}
		}
		if f[3] != "-" {
			for _, n := range strings.Split(f[3], ",") {
				r.Diverged[n] = true
			}
		}
		out = append(out, r)
	}
	return out, nil
}

// c06MergeReplies folds the model's answer for an inner call into the answer for its step.
func c06MergeReplies(h c06Hist, raw []c06StepReply) []c06StepReply {
	var out []c06StepReply
	ri := 0
	for _, st := range h.Steps {
		if ri >= len(raw) {
			break
		}
		if st.Inner == nil {
			out = append(out, raw[ri])
			ri++
			continue
		}
		in := raw[ri]
		ri++
		if in.Status == "circ" || in.Status == "fuel" {
			out = append(out, in)
			break
		}
		if ri >= len(raw) {
			break
		}
		o := raw[ri]
		ri++
		if in.Status == "err" {
			stop := o.Status == "circ" || o.Status == "fuel"
			o = c06StepReply{Status: "err", Expected: "e", May: map[string]bool{}, Diverged: o.Diverged}
			if stop { // the model went on without the rejected value and ended the history
				out = append(out, o, c06StepReply{Status: "circ", Expected: "-", May: map[string]bool{}, Diverged: map[string]bool{}})
				break
			}
		} else {
			for n := range in.May {
				o.May[n] = true
			}
		}
		out = append(out, o)
	}
	return out
}

// ---------------------------------------------------------------------------------------------
// judging one history

type c06Fail struct {
	Step     int
	Aspect   string // result | condition | no-condition | changed | overwritten | wrong-assignment | malformed
	Var      string // variable concerned (R2/R3)
	Observed string
	Expected string
	Creator  string
}

type c06Verdict struct {
	Fail       *c06Fail
	Checked    int  // steps checked
	Circular   bool // model ended the history (circular structure)
	Nontrivial bool
	Diverged   int // steps at which slip's extra copying was observed (accepted)
	Nested     int // steps whose list argument was the direct result of another call
}

func c06IsPrefix(old, nw string) bool {
	if old == "" {
		return true
	}
	return nw == old || strings.HasPrefix(nw, old+".")
}

// c06Creators: for every variable the op (and step) that created its current value; pure
// tail-taking operations inherit the creator of their argument.
func c06Judge(h c06Hist, obs []c06Obs, reply []c06StepReply) (v c06Verdict, machinery error) {
	type origin struct {
		op   string
		step int
	}
	creator := map[string]origin{}
	prev := map[string]string{}
	for i, st := range h.Steps {
		if i >= len(reply) {
			return v, fmt.Errorf("model answered %d of %d steps", len(reply), len(h.Steps))
		}
		r := reply[i]
		o := obs[i]
		switch r.Status {
		case "circ":
			v.Circular = true
			return v, nil
		case "fuel":
			return v, fmt.Errorf("model ran out of fuel at step %d of %s", i, h.lisp())
		}
		info := c06Ops[st.Op]
		v.Checked++
		if st.Inner != nil {
			c := origin{c06OpName(*st.Inner), i}
			if c06Ops[st.Inner.Op].kind == c06Share {
				if va := st.Inner.varArgs(); len(va) > 0 {
					if pc, ok := creator[va[0]]; ok {
						c = pc
					}
				}
			}
			creator[c06Tmp] = c
			v.Nested++
		}
		fail := func(aspect, name, observed, expected string) {
			// creator: the operation that made the illegal alias possible, looked for among the
			// creators of the changed variable and of the operation's list arguments. An
			// overwritten element points at an earlier in-place extension (add nconc rplacd), a
			// changed variable at an operation whose result must be independent of its arguments.
			cands := append([]string{}, st.varArgs()...)
			if name != "" {
				cands = append(cands, name)
			}
			pick := func(accept func(op string) bool) (origin, bool) {
				best, found := origin{"init", -1}, false
				for _, n := range cands {
					if c, ok := creator[n]; ok && accept(c.op) && (!found || c.step > best.step) {
						best, found = c, true
					}
				}
				return best, found
			}
			inPlace := func(op string) bool { return op == "add" || op == "nconc" || op == "rplacd" }
			indep := func(op string) bool {
				k := c06Ops[c06BaseOp(op)].kind
				return (op != "lit" || strings.Contains(op, ":")) && (k == c06Fresh || k == c06Ext)
			}
			anyOp := func(op string) bool { return true }
			order := []func(string) bool{indep, inPlace, anyOp}
			if aspect == "overwritten" {
				order = []func(string) bool{inPlace, indep, anyOp}
			}
			best := origin{"init", -1}
			for _, acc := range order {
				if b, ok := pick(acc); ok {
					best = b
					break
				}
			}
			v.Fail = &c06Fail{Step: i, Aspect: aspect, Var: name, Observed: observed, Expected: expected, Creator: best.op}
		}
		// R1 result
		switch {
		case r.Expected == "e" && o.Res != "e":
			fail("no-condition", "", o.Res, "a condition")
		case r.Expected != "e" && o.Res == "e":
			fail("condition", "", "condition "+o.Class, r.Expected)
		case r.Expected != o.Res:
			fail("result", "", o.Res, r.Expected)
		}
		if v.Fail != nil {
			return v, nil
		}
		assigned := map[string]bool{}
		if o.Res != "e" {
			if st.Target != "-" {
				assigned[st.Target] = true
			}
			if info.place >= 0 {
				assigned[st.Args[info.place]] = true
			}
		}
		// R2 frame / R3 extension, over every live variable
		names := append([]string(nil), o.Order...)
		sort.Strings(names)
		for _, n := range names {
			now := o.Vars[n]
			if strings.HasPrefix(now, "x:") {
				fail("malformed", n, now, "a proper list of integers")
				return v, nil
			}
			old := prev[n] // "" (nil) before the first assignment: variables are let-bound to nil
			if assigned[n] {
				if r.Diverged[n] && !r.May[n] {
					fail("wrong-assignment", n, now, "the value the operation assigns")
					return v, nil
				}
				continue
			}
			if now != old && !r.May[n] {
				fail("changed", n, old+" -> "+now, "unchanged (no cell shared with the operation's arguments by the language rules)")
				return v, nil
			}
			if c06Extending(st.Op) && !c06IsPrefix(old, now) {
				fail("overwritten", n, old+" -> "+now, "previous contents kept (an extension never overwrites)")
				return v, nil
			}
		}
		if len(r.Diverged) > 0 {
			v.Diverged++
		}
		// non-trivial: a destructive or extending op applied to a list with another live reference
		if c06Destructive(st.Op) || c06Extending(st.Op) {
			args := st.varArgs()
			for n := range r.May {
				other := true
				for _, a := range args {
					if a == n {
						other = false
					}
				}
				if other {
					v.Nontrivial = true
				}
			}
			if !v.Nontrivial && len(args) > 0 {
				for _, a := range args {
					for n, val := range prev {
						if n != a && val != "" && (strings.HasSuffix(val, prev[a]) || strings.HasSuffix(prev[a], val)) && prev[a] != "" {
							if creator[n].step >= 0 && (c06BaseOp(creator[n].op) != "lit") {
								v.Nontrivial = true
							}
						}
					}
				}
			}
		}
		// bookkeeping
		if o.Res != "e" && st.Target != "-" {
			c := origin{c06OpName(st), i}
			// the result of a tail-taking or in-place operation is (part of) its argument: it keeps
			// the argument's creator
			inherits := info.kind == c06Share || st.Op == "rplaca" || st.Op == "nreverse" || st.Op == "sort" ||
				st.Op == "fill" || st.Op == "nsubst" || st.Op == "nsubstif" || st.Op == "mapinto" || st.Op == "replace"
			if st.Op == "nconc" && (st.Args[0] == "nil" || st.Args[1] == "nil") {
				inherits = true
			}
			if inherits {
				if va := st.varArgs(); len(va) > 0 {
					if pc, ok := creator[va[0]]; ok {
						c = pc
					}
				}
			}
			creator[st.Target] = c
		}
		if o.Res != "e" && info.place >= 0 && (st.Op == "push" || st.Op == "pushnew") {
			creator[st.Args[info.place]] = origin{st.Op, i}
		}
		for n, val := range o.Vars {
			prev[n] = val
		}
	}
	return v, nil
}

// c06OpName: the operation, with the Lisp form that rendered it when there are several
func c06OpName(st c06Step) string {
	if st.Form != "" {
		return st.Op + ":" + st.Form
	}
	return st.Op
}

func c06BaseOp(name string) string {
	op, _, _ := strings.Cut(name, ":")
	return op
}

func c06Signature(h c06Hist, f *c06Fail) string {
	st := h.Steps[f.Step]
	switch f.Aspect {
	case "result", "condition", "no-condition", "malformed", "wrong-assignment":
		return fmt.Sprintf("op=%s aspect=%s", c06OpName(st), f.Aspect)
	}
	return fmt.Sprintf("creator=%s exposer=%s aspect=%s", f.Creator, st.Op, f.Aspect)
}

// ---------------------------------------------------------------------------------------------
// generators

type c06Gen struct {
	rng   *lib.Rng
	fresh int
}

func (g *c06Gen) val() string {
	g.fresh++
	return strconv.Itoa(10 + g.fresh)
}

// template: an operation with parameters fixed; variables $1 $2 and fresh values $v $w to fill
type c06Tmpl struct {
	op      string
	args    []string
	nvars   int
	variant bool // keyword / arity variant: used as a creator everywhere, as an exposer only in S3
	form    string
}

// c06F marks a template as a variant rendered by the given Lisp form.
func c06F(form, op string, args ...string) c06Tmpl {
	t := c06V(op, args...)
	t.form = form
	return t
}

// c06E: a template rendered by the given Lisp form that is also an exposer of the pair sweep S2.
func c06E(form, op string, args ...string) c06Tmpl {
	t := c06T(op, args...)
	t.form = form
	return t
}

// c06V marks a template as a keyword variant.
func c06V(op string, args ...string) c06Tmpl {
	t := c06T(op, args...)
	t.variant = true
	return t
}

func c06T(op string, args ...string) c06Tmpl {
	n := 0
	for _, a := range args {
		if a == "$1" && n < 1 {
			n = 1
		}
		if a == "$2" {
			n = 2
		}
	}
	return c06Tmpl{op: op, args: args, nvars: n}
}

// the full template table (elements of the pool lists are 1..5; written values are >= 10)
var c06Templates = []c06Tmpl{
	c06T("alias", "$1"),
	c06T("cons", "$v", "$1"), c06T("push", "$v", "$1"), c06T("liststar", "$v", "$w", "$1"),
	c06T("append", "$1", "$2"), c06T("append", "$1", "nil"), c06T("append", "nil", "$1"), c06T("append", "$1", "$1"),
	c06T("cdr", "$1"), c06T("rest", "$1"), c06T("nthcdr", "0", "$1"), c06T("nthcdr", "2", "$1"), c06T("nthcdr", "7", "$1"),
	c06T("pop", "$1"),
	c06T("last", "1", "$1"), c06T("last", "2", "$1"), c06T("last", "0", "$1"), c06T("last", "9", "$1"),
	c06T("member", "1", "$1"), c06T("member", "2", "$1"), c06T("member", "4", "$1"), c06T("member", "9", "$1"),
	c06T("butlast", "1", "$1"), c06T("butlast", "0", "$1"), c06T("butlast", "2", "$1"), c06T("butlast", "9", "$1"),
	c06T("subseq", "0", "-", "$1"), c06T("subseq", "1", "-", "$1"), c06T("subseq", "0", "2", "$1"), c06T("subseq", "1", "3", "$1"), c06T("subseq", "0", "0", "$1"),
	c06T("copylist", "$1"), c06T("reverse", "$1"),
	c06T("remove", "eq:9", "$1"), c06T("remove", "eq:3", "$1"), c06T("remove", "eq:2", "$1"), c06T("remove", "even", "$1"), c06T("remove", "lt:3", "$1"),
	c06T("mapcar", "inc", "$1"), c06T("mapcar", "dbl", "$1"),
	c06T("rplaca", "$1", "$v"), c06T("setcar", "$1", "$v"), c06T("setnth", "0", "$1", "$v"), c06T("setnth", "1", "$1", "$v"), c06T("setnth", "2", "$1", "$v"),
	c06T("setelt", "0", "$1", "$v"), c06T("setelt", "1", "$1", "$v"),
	c06T("rplacd", "$1", "$2"), c06T("rplacd", "$1", "nil"),
	c06T("nconc", "$1", "$2"), c06T("nconc", "$1", "nil"), c06T("nconc", "nil", "$1"),
	c06T("add", "$1", "$v"), c06T("add", "$1", "$v.$w"),
	c06T("nreverse", "$1"), c06T("sort", "asc", "$1"),
	c06T("delete", "eq:9", "$1"), c06T("delete", "eq:3", "$1"), c06T("delete", "eq:2", "$1"), c06T("delete", "odd", "$1"),
	// keyword and arity variants
	c06V("remove", "eq:1,count=1", "$1"), c06V("remove", "eq:1,count=1,fromend", "$1"), c06V("remove", "eq:1,fromend", "$1"),
	c06V("remove", "eq:3,fromend,count=2", "$1"), c06V("remove", "eq:9,fromend", "$1"), c06V("remove", "eq:9,count=1", "$1"),
	c06V("remove", "eq:3,start=1", "$1"), c06V("remove", "eq:1,start=1,end=3", "$1"), c06V("remove", "eq:1,end=2", "$1"),
	c06V("remove", "eq:2,key=inc", "$1"), c06V("remove", "eq:2,key=dbl,fromend", "$1"), c06V("remove", "gt:2", "$1"), c06V("remove", "gt:2,count=1,fromend", "$1"),
	c06V("remove", "odd,count=2", "$1"), c06V("remove", "odd,count=1,fromend", "$1"), c06V("remove", "even,start=1,end=3", "$1"), c06V("remove", "odd,key=inc", "$1"),
	c06V("remove", "dups", "$1"), c06V("remove", "dups,fromend", "$1"),
	c06V("delete", "eq:1,count=1", "$1"), c06V("delete", "eq:1,count=1,fromend", "$1"), c06V("delete", "eq:1,fromend", "$1"), c06V("delete", "eq:9,fromend", "$1"),
	c06V("delete", "eq:3,start=1", "$1"), c06V("delete", "gt:2", "$1"), c06V("delete", "odd,count=1", "$1"), c06V("delete", "even,key=inc,fromend", "$1"),
	c06V("delete", "dups", "$1"), c06V("delete", "dups,fromend", "$1"),
	c06V("member", "gt:2", "$1"), c06V("member", "lt:2", "$1"), c06V("member", "eq:4,key=inc", "$1"), c06V("member", "even", "$1"), c06V("member", "odd,key=inc", "$1"), c06V("member", "eq:9,key=dbl", "$1"),
	c06V("sort", "desc", "$1"), c06V("sort", "asc,key=neg", "$1"), c06V("sort", "desc,key=inc", "$1"),
	c06V("mapcar2", "$1", "$2"), c06V("mapcar2", "$1", "$1"),
	c06V("liststar1", "$1"), c06V("liststar2", "$v", "$1"),
	c06V("concat", "$1", "$2"), c06V("concat", "$1", "nil"), c06V("concat", "nil", "$1"),
	// everything goes: empty results
	c06V("remove", "gt:0", "$1"), c06V("remove", "gt:0,fromend", "$1"), c06V("delete", "gt:0", "$1"), c06V("subseq", "2", "2", "$1"), c06V("subseq", "3", "3", "$1"),
	c06V("nthcdr", "3", "$1"), c06V("butlast", "4", "$1"), c06V("member", "gt:7", "$1"),
	c06V("nthcdr", "1", "$1"), c06V("last", "3", "$1"), c06V("butlast", "3", "$1"), c06V("subseq", "1", "1", "$1"), c06V("subseq", "0", "1", "$1"),
	// lists that come out of ARGUMENT LISTS and of the mapping functions, and further functions that are
	// not documented as destructive: every one is a creator whose result must be independent
	c06F("copyseq", "fresh1", "copy", "$1"), c06F("copytree", "fresh1", "copy", "$1"), c06F("applylist", "fresh1", "copy", "$1"),
	c06F("mvlist", "fresh1", "copy", "$1"), c06F("mapcar", "fresh1", "copy", "$1"), c06F("maplist", "fresh1", "copy", "$1"),
	c06F("map", "fresh1", "copy", "$1"), c06F("mapcon", "fresh1", "copy", "$1"), c06F("coerce", "fresh1", "copy", "$1"),
	c06F("reduce", "fresh1", "copy", "$1"), c06F("restcopy", "fresh1", "copy", "$1"), c06F("", "fresh1", "dedup", "$1"),
	c06F("mapcanrest", "fresh2", "interleave", "$1", "$2"), c06F("mapcanlist", "fresh2", "interleave", "$1", "$2"), c06F("mapcan2", "fresh2", "interleave", "$1", "$1"),
	c06F("mapckeep", "fresh2", "firstpair", "$1", "$2"), c06F("carmapcar", "fresh2", "firstpair", "$1", "$2"), c06F("mapckeep", "fresh2", "firstpair", "$1", "$1"),
	c06F("mapckeeplast", "fresh2", "lastpair", "$1", "$2"), c06F("lastmapcar", "fresh2", "lastpair", "$1", "$1"),
	c06F("carmapcarlist", "fresh2", "firstpair", "$1", "$2"), c06F("lastmapcarlist", "fresh2", "lastpair", "$1", "$2"),
	c06F("", "fresh2", "takemin", "$1", "$2"), c06F("", "fresh2", "takemin", "$2", "$1"), c06F("", "fresh2", "union", "$1", "$2"), c06F("", "fresh2", "union", "$1", "$1"),
	c06F("", "revappend", "$1", "$2"), c06F("", "revappend", "$1", "nil"), c06F("", "revappend", "nil", "$1"), c06F("", "revappend", "$1", "$1"),
	c06F("lambda", "applyrest", "$1"), c06F("defun", "applyrest", "$1"), c06F("mapl", "applyrest", "$1"),
	c06F("", "adjoin", "2", "$1"), c06F("", "adjoin", "$v", "$1"), c06F("", "pushnew", "3", "$1"), c06F("", "pushnew", "$v", "$1"),
	c06F("funcallrest", "lit", "$v.$w"), c06F("defunrest", "lit", "$v.$w"), c06F("restafter", "lit", "$v.$w"), c06F("applyspread", "lit", "$v.$w"),
	c06F("mvlist", "lit", "$v.$w"), c06F("applylist", "lit", "$v.$w"), c06F("funcallrest", "lit", ""),
	// extension round 4: destructive functions that overwrite elements, nbutlast, and operations on
	// places that are not variables ((pop (car w)), (setf (nth 1 (aref v 0)) x), (incf (nth 1 x)))
	c06T("fill", "$v", "$1"), c06T("incfnth", "1", "10", "$1"), c06T("nsubst", "$v", "4", "$1"), c06T("replace", "0", "$v.$w", "$1"),
	c06T("nbutlast", "1", "$1"),
	c06E("carplace", "pop", "$1"), c06E("carplace", "push", "$v", "$1"), c06E("arefplace", "setnth", "1", "$1", "$v"),
	c06V("incfnth", "0", "10", "$1"), c06F("nth", "incfnth", "0", "1", "$1"), c06V("incfnth", "2", "10", "$1"), c06V("incfnth", "7", "10", "$1"),
	c06F("carplace", "incfnth", "1", "10", "$1"), c06F("arefplace", "incfnth", "0", "10", "$1"),
	c06V("nsubst", "$v", "1", "$1"), c06V("nsubst", "$v", "9", "$1"), c06V("nsubstif", "$v", "even", "$1"), c06V("nsubstif", "$v", "odd", "$1"),
	c06V("mapinto", "inc", "$1"), c06V("mapinto", "dbl", "$1"),
	// (:start1 beyond the end: slip checks the bound for a non-empty list only - bounds are C14's; not generated)
	c06V("replace", "0", "$v", "$1"), c06V("replace", "0", "$v.$w.$v.$w.$v.$w", "$1"),
	c06V("nbutlast", "0", "$1"), c06V("nbutlast", "2", "$1"), c06V("nbutlast", "9", "$1"),
	c06F("arefplace", "pop", "$1"), c06F("arefplace", "push", "$v", "$1"), c06F("carplace", "pushnew", "$v", "$1"), c06F("carplace", "pushnew", "3", "$1"),
	c06F("carplace", "setnth", "0", "$1", "$v"), c06F("carplace", "setcar", "$1", "$v"), c06F("arefplace", "setcar", "$1", "$v"),
	c06F("substitute", "fresh1", "subst:17:1", "$1"), c06F("substitute", "fresh1", "subst:17:9", "$1"), c06F("substituteif", "fresh1", "substif:18:odd", "$1"),
	c06F("first", "setcar", "$1", "$v"), c06F("second", "setnth", "1", "$1", "$v"), c06F("cadr", "setnth", "1", "$1", "$v"),
}

func (t c06Tmpl) inst(g *c06Gen, target, v1, v2 string) c06Step {
	args := make([]string, len(t.args))
	for i, a := range t.args {
		switch a {
		case "$1":
			args[i] = v1
		case "$2":
			args[i] = v2
		case "$v":
			args[i] = g.val()
		case "$v.$w":
			args[i] = g.val() + "." + g.val()
		case "$v.$w.$v.$w.$v.$w":
			args[i] = g.val() + "." + g.val() + "." + g.val() + "." + g.val() + "." + g.val() + "." + g.val()
		case "$w":
			args[i] = g.val()
		default:
			args[i] = a
		}
	}
	if c06Ops[t.op].atomRes {
		target = "-"
	}
	if t.op == "lit" && len(args) == 1 && args[0] == "" {
		args = nil
	}
	return c06Step{Target: target, Op: t.op, Args: args, Form: t.form}
}

func c06Lit(target, vals string, quoted bool) c06Step {
	args := []string{}
	if vals != "" {
		args = []string{vals}
	}
	return c06Step{Target: target, Op: "lit", Args: args, Quoted: quoted}
}

// base flavours of a list (different slice geometry for the same contents)
func c06Base(name string, flavour int) []c06Step {
	return c06BaseOf(name, flavour, "3.1.4.2.5")
}

func c06Join(parts ...string) string {
	var nz []string
	for _, p := range parts {
		if p != "" {
			nz = append(nz, p)
		}
	}
	return strings.Join(nz, ".")
}

// c06BaseOf builds the list with the given contents (elements 1..5) in one of the geometries.
func c06BaseOf(name string, flavour int, vals string) []c06Step {
	n := 0
	if vals != "" {
		n = strings.Count(vals, ".") + 1
	}
	switch flavour {
	case 0: // exact capacity
		return []c06Step{c06Lit(name, vals, false)}
	case 1: // built by the reader (append growth: spare capacity)
		return []c06Step{c06Lit(name, vals, true)}
	case 2: // result of remove (built with append: spare capacity)
		return []c06Step{c06Lit(name, c06Join("9", vals), false), {Target: name, Op: "remove", Args: []string{"eq:9", name}}}
	case 3: // what pop leaves (re-slice with an offset)
		return []c06Step{c06Lit(name, c06Join("7", vals), true), {Target: "-", Op: "pop", Args: []string{name}}}
	case 4: // result of subseq (a copy of a prefix of a longer list)
		return []c06Step{c06Lit(name, c06Join(vals, "8.9"), true), {Target: name, Op: "subseq", Args: []string{"0", strconv.Itoa(n), name}}}
	case 5: // result of butlast
		return []c06Step{c06Lit(name, c06Join(vals, "8"), false), {Target: name, Op: "butlast", Args: []string{"1", name}}}
	case 6: // result of append (Go append growth: 3 elements in 4 slots, 5 in 8)
		if n < 2 {
			return []c06Step{c06Lit(name, vals, false)}
		}
		parts := strings.Split(vals, ".")
		return []c06Step{c06Lit(name, strings.Join(parts[:n-1], "."), false), c06Lit(name+"0", parts[n-1], false),
			{Target: name, Op: "append", Args: []string{name, name + "0"}}}
	default: // a &rest list (collected with append: spare capacity)
		return []c06Step{{Target: name, Op: "lit", Args: c06LitArgs(vals), Form: "defunrest"}}
	}
}

func c06LitArgs(vals string) []string {
	if vals == "" {
		return []string{}
	}
	return []string{vals}
}

const c06Flavours = 8

// sweep S1: every template on argument lists of length 0..5 (single call)
func c06SweepValues() []c06Hist {
	var out []c06Hist
	lists := []string{"", "1", "2.1", "3.1.2", "2.4.2.3", "3.1.4.2.5"}
	for ti, t := range c06Templates {
		for li, l := range lists {
			for _, quoted := range []bool{false, true} {
				g := &c06Gen{}
				h := c06Hist{Sweep: fmt.Sprintf("S1 t=%d l=%d q=%v", ti, li, quoted)}
				h.Steps = append(h.Steps, c06Lit("a", l, quoted), c06Lit("c", "6.7", quoted))
				h.Setup = 2
				h.Steps = append(h.Steps, t.inst(g, "r", "a", "c"))
				out = append(out, h)
			}
		}
	}
	return out
}

// sweep S2: creator x exposer. a = base list; b = creator(a[,c]); then the exposer is applied to a
// or to b (c, d are unrelated fresh lists); every variable is observed after every step.
func c06SweepPairs(thorough bool) []c06Hist {
	var out []c06Hist
	flavours := []int{0, 1, 2, 3, 6, 7}
	if thorough {
		flavours = []int{0, 1, 2, 3, 4, 5, 6, 7}
	}
	for _, flavour := range flavours {
		for ci, cr := range c06Templates {
			if c06Ops[cr.op].atomRes {
				continue
			}
			if cr.form != "" && flavour != 2 && flavour != 6 {
				continue // the many renderings of one operation: two slice geometries (spare capacity)
			}
			for ei, ex := range c06Templates {
				if ex.variant {
					continue
				}
				for dir := 0; dir < 2; dir++ {
					g := &c06Gen{}
					h := c06Hist{Sweep: fmt.Sprintf("S2 f=%d c=%d e=%d d=%d", flavour, ci, ei, dir)}
					h.Steps = append(h.Steps, c06Base("a", flavour)...)
					h.Steps = append(h.Steps, c06Lit("c", "6.7", false), c06Lit("d", "8.9", true))
					h.Setup = len(h.Steps)
					h.Steps = append(h.Steps, cr.inst(g, "b", "a", "c"))
					on := "a"
					if dir == 1 {
						on = "b"
					}
					h.Steps = append(h.Steps, ex.inst(g, "r", on, "d"))
					out = append(out, h)
				}
			}
		}
	}
	return out
}

// sweep S3: short operands. For lists of length 0..4 (with repeated elements) in two geometries the
// creator is applied to the whole list, to its length-1 tail and to its cdr; then a destructive or
// extending exposer is applied to the result or to the operand. Every operation and every keyword
// variant is a creator here.
// geometries of the short-operand sweep: exact capacity, result of remove (spare capacity), result of
// append (spare capacity by Go's growth); the thorough tier adds the quoted literal and the &rest list
func c06ShortFlavours(thorough bool) []int {
	if thorough {
		return []int{0, 1, 2, 6, 7}
	}
	return []int{0, 2, 6}
}

func c06SweepShort(thorough bool) []c06Hist {
	var out []c06Hist
	contents := []string{"", "3", "3.1", "1.3.1", "1.2.1.3"}
	exposers := []c06Tmpl{
		c06T("rplaca", "$1", "$v"), c06T("setcar", "$1", "$v"), c06T("setnth", "0", "$1", "$v"), c06T("setelt", "0", "$1", "$v"),
		c06T("rplacd", "$1", "$2"), c06T("nconc", "$1", "$2"), c06T("add", "$1", "$v"), c06T("nreverse", "$1"),
		c06T("sort", "asc", "$1"), c06T("sort", "desc", "$1"), c06T("delete", "eq:1", "$1"), c06T("delete", "eq:3,fromend", "$1"), c06T("push", "$v", "$1"),
		c06T("fill", "$v", "$1"), c06T("incfnth", "0", "10", "$1"),
	}
	for li, vals := range contents {
		for _, flavour := range c06ShortFlavours(thorough) {
			for operand := 0; operand < 3; operand++ {
				if operand > 0 && li < 2 {
					continue // tails of lists shorter than 2 are nil or the list itself
				}
				for ci, cr := range c06Templates {
					if c06Ops[cr.op].atomRes {
						continue
					}
					if cr.form != "" && (flavour == 1 || flavour == 6 || flavour == 7 || li == 2 || li == 4) {
						continue
					}
					for ei, ex := range exposers {
						for dir := 0; dir < 2; dir++ {
							g := &c06Gen{}
							h := c06Hist{Sweep: fmt.Sprintf("S3 l=%d f=%d o=%d c=%d e=%d d=%d", li, flavour, operand, ci, ei, dir)}
							h.Steps = append(h.Steps, c06BaseOf("a", flavour, vals)...)
							x := "a"
							switch operand {
							case 1:
								// the physically shared length-1 tail (last copies, nthcdr re-slices)
								h.Steps = append(h.Steps, c06Step{Target: "tl", Op: "nthcdr", Args: []string{strconv.Itoa(li - 1), "a"}})
								x = "tl"
							case 2:
								h.Steps = append(h.Steps, c06Step{Target: "tl", Op: "cdr", Args: []string{"a"}})
								x = "tl"
							}
							h.Steps = append(h.Steps, c06Lit("c", "6", false), c06Lit("d", "8", true))
							h.Setup = len(h.Steps)
							h.Steps = append(h.Steps, cr.inst(g, "b", x, "c"))
							on := x
							if dir == 1 {
								on = "b"
							}
							h.Steps = append(h.Steps, ex.inst(g, "r", on, "d"))
							out = append(out, h)
						}
					}
				}
			}
		}
	}
	return out
}

// sweep S4: nested application. The result of every creator (in particular the EMPTY results:
// subseq with start = end, remove of everything, butlast of a singleton, nthcdr to the end, mapcar
// over nil ...) is handed directly to an extending or destructive operation, without an intermediate
// variable (setq/let normalise an empty list to nil, a nested call does not): as a nested call, as a
// lambda parameter or as an element of a list. Every variable is then compared.
func c06SweepNested() []c06Hist {
	var out []c06Hist
	contents := []string{"", "3", "3.1", "1.3.1", "3.1.4.2.5"}
	outers := []c06Tmpl{
		c06T("add", "$1", "$v"), c06T("add", "$1", "$v.$w"), c06T("nconc", "$1", "$2"), c06T("nconc", "$2", "$1"), c06T("append", "$1", "$2"),
		c06T("push", "$v", "$1"), c06T("cons", "$v", "$1"), c06T("liststar", "$v", "$w", "$1"), c06T("rplacd", "$2", "$1"),
		c06T("rplaca", "$1", "$v"), c06T("setnth", "0", "$1", "$v"), c06T("nreverse", "$1"), c06T("sort", "asc", "$1"),
		c06T("delete", "eq:1", "$1"), c06T("concat", "$1", "$2"), c06T("mapcar2", "$1", "$2"),
		c06T("fill", "$v", "$1"), c06E("carplace", "push", "$v", "$1"),
	}
	for li, vals := range contents {
		for _, flavour := range []int{0, 2, 6} {
			for operand := 0; operand < 2; operand++ {
				if operand > 0 && li < 2 {
					continue
				}
				for ci, cr := range c06Templates {
					// inner calls are non-destructive: nothing is observable between the two calls, so
					// the model's prediction for the intermediate state must be exact
					if c06Ops[cr.op].atomRes || c06Ops[cr.op].place >= 0 || c06Destructive(cr.op) {
						continue
					}
					if cr.form != "" && (flavour != 2 || li == 2 || li == 4) {
						continue
					}
					for ei, ex := range outers {
						g := &c06Gen{}
						h := c06Hist{Sweep: fmt.Sprintf("S4 l=%d f=%d o=%d c=%d e=%d", li, flavour, operand, ci, ei)}
						h.Steps = append(h.Steps, c06BaseOf("a", flavour, vals)...)
						x := "a"
						if operand == 1 {
							h.Steps = append(h.Steps, c06Step{Target: "tl", Op: "cdr", Args: []string{"a"}})
							x = "tl"
						}
						h.Steps = append(h.Steps, c06Lit("c", "6", false), c06Lit("d", "8", true))
						h.Setup = len(h.Steps)
						inner := cr.inst(g, "-", x, "c")
						st := ex.inst(g, "r", c06Tmp, "d")
						st.Inner = &inner
						st.Nest = (ci + ei) % 3
						h.Steps = append(h.Steps, st)
						// and once more: extending the same (possibly empty) result of the same creator
						inner2 := cr.inst(g, "-", x, "c")
						st2 := c06T("add", "$1", "$v").inst(g, "s", c06Tmp, "d")
						st2.Inner = &inner2
						st2.Nest = (ci + ei + 1) % 3
						h.Steps = append(h.Steps, st2)
						out = append(out, h)
					}
				}
			}
		}
	}
	return out
}

// c06Families tracks, for the composite generators, which variables may physically share a backing
// array (over-approximation) and which families already had an in-place extension applied
// (add, nconc, rplacd use Go append on their argument). A second add/nconc on such a family is the
// construct of the known findings "creator=add|nconc|rplacd exposer=add|nconc aspect=overwritten":
// composite histories do not contain it (the pair sweep enumerates it exhaustively instead).
type c06Families struct {
	fam      map[string]int
	extended map[int]bool
	next     int
}

func newC06Families() *c06Families {
	return &c06Families{fam: map[string]int{}, extended: map[int]bool{}}
}

func (f *c06Families) of(n string) int {
	if id, ok := f.fam[n]; ok {
		return id
	}
	f.next++
	f.fam[n] = f.next
	return f.next
}

func (f *c06Families) merge(a, b int) int {
	if a == b {
		return a
	}
	for n, id := range f.fam {
		if id == b {
			f.fam[n] = a
		}
	}
	if f.extended[b] {
		f.extended[a] = true
	}
	return a
}

// listed reports whether the step is the construct of a listed finding.
func (f *c06Families) listed(st c06Step) bool {
	if st.Inner != nil {
		// decide on the state the outer call will see
		g := &c06Families{fam: map[string]int{}, extended: map[int]bool{}, next: f.next}
		for k, v := range f.fam {
			g.fam[k] = v
		}
		for k, v := range f.extended {
			g.extended[k] = v
		}
		in := *st.Inner
		in.Target = c06Tmp
		if g.listed(in) {
			return true
		}
		g.apply(in)
		out := st
		out.Inner = nil
		return g.listed(out)
	}
	if st.Op != "add" && st.Op != "nconc" {
		return false
	}
	for _, n := range st.varArgs() {
		if f.extended[f.of(n)] {
			return true
		}
	}
	return false
}

func (f *c06Families) apply(st c06Step) {
	if st.Inner != nil {
		in := *st.Inner
		in.Target = c06Tmp
		f.apply(in)
	}
	info := c06Ops[st.Op]
	args := st.varArgs()
	switch info.kind {
	case c06Share, c06Destr, c06ExtD:
		if len(args) == 0 {
			break
		}
		id := f.of(args[0])
		for _, n := range args[1:] {
			id = f.merge(id, f.of(n))
		}
		if st.Op == "add" || st.Op == "nconc" || st.Op == "rplacd" {
			f.extended[id] = true
		}
		if st.Target != "-" && !info.atomRes {
			f.join(st.Target, id)
		}
	default: // fresh results
		f.next++
		if st.Target != "-" {
			f.join(st.Target, f.next)
		}
		if st.Op == "push" && len(args) > 0 {
			f.join(args[0], f.next)
		}
	}
}

// join assigns a variable to a family. The generator does not know whether the step will succeed
// (a condition leaves the variable with its old value), so a variable that already has a family is
// never moved out of it: the two families are merged (over-approximation).
func (f *c06Families) join(name string, id int) {
	if old, ok := f.fam[name]; ok && old != id && name != c06Tmp {
		id = f.merge(old, id)
	}
	f.fam[name] = id
}

// random pool with aliasing patterns, then up to 6 random operations
func c06Random(g *c06Gen, avoidListed bool) c06Hist {
	r := g.rng
	var h c06Hist
	fams := newC06Families()
	live := []string{}
	add := func(st c06Step) {
		h.Steps = append(h.Steps, st)
		fams.apply(st)
		if st.Target != "-" {
			found := false
			for _, n := range live {
				if n == st.Target {
					found = true
				}
			}
			if !found {
				live = append(live, st.Target)
			}
		}
	}
	// contents: length 0..6 over 1..5 (repeated elements likely); half of the time the standard list
	randVals := func() string {
		if r.Chance(50) {
			return "3.1.4.2.5"
		}
		n := r.Intn(7)
		parts := make([]string, n)
		for i := range parts {
			parts[i] = strconv.Itoa(1 + r.Intn(5))
		}
		return strings.Join(parts, ".")
	}
	for _, st := range c06BaseOf("a", r.Intn(c06Flavours), randVals()) {
		add(st)
	}
	// aliasing patterns of the pool
	if r.Chance(70) {
		add(c06Step{Target: "b", Op: "cdr", Args: []string{"a"}})
	}
	if r.Chance(50) {
		add(c06Step{Target: "c", Op: "nthcdr", Args: []string{"2", "a"}})
	}
	if r.Chance(50) {
		add(c06Step{Target: "d", Op: "alias", Args: []string{"a"}})
	}
	if r.Chance(60) {
		for _, st := range c06BaseOf("f", r.Intn(c06Flavours), randVals()) {
			add(st)
		}
	}
	if r.Chance(40) {
		add(c06Step{Target: "tl", Op: "last", Args: []string{"1", "a"}, Quoted: true}) // copy of the last cell
	}
	if r.Chance(40) {
		add(c06Step{Target: "q", Op: "nthcdr", Args: []string{strconv.Itoa(r.Intn(6)), "a"}}) // shared tail of any length
	}
	if r.Chance(30) {
		add(c06Step{Target: "m", Op: "member", Args: []string{"4", "a"}})
	}
	if r.Chance(30) {
		add(c06Step{Target: "k", Op: "last", Args: []string{"2", "a"}})
	}
	h.Setup = len(h.Steps)
	n := 1 + r.Intn(6)
	fresh := []string{"r", "s", "u", "w", "x", "y"}
	for i := 0; i < n; i++ {
		for try := 0; try < 20; try++ {
			t := c06Templates[r.Intn(len(c06Templates))]
			v1 := live[r.Intn(len(live))]
			v2 := live[r.Intn(len(live))]
			target := fresh[i]
			if r.Chance(35) {
				target = live[r.Intn(len(live))]
			}
			if r.Chance(10) {
				target = "-"
			}
			st := t.inst(g, target, v1, v2)
			if t.nvars > 0 && r.Chance(25) {
				// the first list argument is the direct result of another call
				it := c06Templates[r.Intn(len(c06Templates))]
				if !c06Ops[it.op].atomRes && c06Ops[it.op].place < 0 && !c06Destructive(it.op) {
					inner := it.inst(g, "-", v1, live[r.Intn(len(live))])
					st = t.inst(g, target, c06Tmp, v2)
					st.Inner = &inner
					st.Nest = r.Intn(3)
					if st.Target == c06Tmp {
						st.Target = "-"
					}
				}
			}
			if avoidListed && fams.listed(st) {
				continue
			}
			add(st)
			break
		}
	}
	return h
}

// bounded-exhaustive histories (thorough tier): every sequence of `depth` letters over an alphabet
// of instantiated operations. A letter = (template, first variable, assign-back?); variables range
// over the pool {a, b = (cdr a), d = a, f = an unrelated list} and "the previous result"; the second
// variable of two-list operations is f (or a when the first is f). Results go to fresh variables
// r1 r2 … (or back to the first variable). Sequences containing the construct of a listed finding
// are pruned. emit is called with batches.
type c06Letter struct {
	t    c06Tmpl
	v1   string // a b d f or "$last"
	back bool   // assign the result to the first variable instead of a fresh one
}

func c06Alphabet(templates []string, vars []string, backOps map[string]bool) []c06Letter {
	var out []c06Letter
	for _, t := range c06Templates {
		if t.form != "" {
			continue // renderings of an operation that is in the alphabet in its plain form
		}
		key := t.op + ":" + strings.Join(t.args, ",")
		use := false
		for _, k := range templates {
			if k == key {
				use = true
			}
		}
		if !use {
			continue
		}
		for _, v := range vars {
			out = append(out, c06Letter{t, v, false})
			if backOps[t.op] && v != "$last" && !c06Ops[t.op].atomRes {
				out = append(out, c06Letter{t, v, true})
			}
		}
	}
	return out
}

func c06Exhaustive(alpha []c06Letter, depth int, flavours []int, avoidListed bool, batch int, emit func([]c06Hist)) int {
	total := 0
	var buf []c06Hist
	flush := func() {
		if len(buf) > 0 {
			emit(buf)
			buf = nil
		}
	}
	for _, fl := range flavours {
		var prefix []c06Step
		prefix = append(prefix, c06Base("a", fl)...)
		prefix = append(prefix, c06Step{Target: "b", Op: "cdr", Args: []string{"a"}},
			c06Step{Target: "d", Op: "alias", Args: []string{"a"}})
		prefix = append(prefix, c06Base("f", (fl+2)%c06Flavours)...)
		prefix = append(prefix, c06Step{Target: "k", Op: "nthcdr", Args: []string{"4", "a"}}) // length-1 tail
		idx := make([]int, depth)
		for {
			g := &c06Gen{}
			h := c06Hist{Setup: len(prefix)}
			h.Steps = append(h.Steps, prefix...)
			fams := newC06Families()
			for _, st := range prefix {
				fams.apply(st)
			}
			last := "a"
			ok := true
			for i := 0; i < depth; i++ {
				l := alpha[idx[i]]
				v1 := l.v1
				if v1 == "$last" {
					v1 = last
				}
				v2 := "f"
				if v1 == "f" {
					v2 = "a"
				}
				target := fmt.Sprintf("r%d", i+1)
				if l.back {
					target = v1
				}
				st := l.t.inst(g, target, v1, v2)
				if avoidListed && fams.listed(st) {
					ok = false
					break
				}
				fams.apply(st)
				h.Steps = append(h.Steps, st)
				if st.Target != "-" {
					last = st.Target
				}
			}
			if ok {
				buf = append(buf, h)
				total++
				if len(buf) >= batch {
					flush()
				}
			}
			// next index vector
			k := depth - 1
			for k >= 0 {
				idx[k]++
				if idx[k] < len(alpha) {
					break
				}
				idx[k] = 0
				k--
			}
			if k < 0 {
				break
			}
		}
	}
	flush()
	return total
}

// ---------------------------------------------------------------------------------------------
// running a batch: implementation (parallel over fresh scopes), then the model, then the judge

type c06Result struct {
	key     string // hash of the request (history + observations): distinctness key
	hist    c06Hist
	obs     []c06Obs
	request string
	reply   []c06StepReply
	verdict c06Verdict
}

func c06Parallel(n, workers int, fn func(lo, hi int)) {
	var wg sync.WaitGroup
	chunk := (n + workers - 1) / workers
	for w := 0; w < workers; w++ {
		lo, hi := w*chunk, (w+1)*chunk
		if hi > n {
			hi = n
		}
		if lo >= hi {
			break
		}
		wg.Add(1)
		go func(lo, hi int) {
			defer wg.Done()
			fn(lo, hi)
		}(lo, hi)
	}
	wg.Wait()
}

func c06RunBatch(c *lib.Ctx, hists []c06Hist, workers int) []c06Result {
	res := make([]c06Result, len(hists))
	c06Parallel(len(hists), workers, func(lo, hi int) {
		for i := lo; i < hi; i++ {
			res[i].hist = hists[i]
			res[i].obs = c06RunImpl(hists[i])
			res[i].request = c06Request(hists[i], res[i].obs)
		}
	})
	reqs := make([]string, len(res))
	for i := range res {
		reqs[i] = res[i].request
	}
	replies := c06ModelParallel(c, reqs, workers)
	var mu sync.Mutex
	var firstErr error
	c06Parallel(len(res), workers, func(lo, hi int) {
		for i := lo; i < hi; i++ {
			rp, err := c06ParseReply(replies[i])
			if err == nil {
				rp = c06MergeReplies(res[i].hist, rp)
				res[i].reply = rp
				res[i].verdict, err = c06Judge(res[i].hist, res[i].obs, rp)
			}
			if err != nil {
				mu.Lock()
				if firstErr == nil {
					firstErr = fmt.Errorf("%v (request %s)", err, reqs[i])
				}
				mu.Unlock()
			}
			hsum := fnv.New64a()
			_, _ = hsum.Write([]byte(res[i].request))
			res[i].key = strconv.FormatUint(hsum.Sum64(), 36)
		}
	})
	if firstErr != nil {
		fmt.Fprintf(os.Stderr, "C06: %v\n", firstErr)
		os.Exit(2)
	}
	return res
}

func c06ModelParallel(c *lib.Ctx, reqs []string, workers int) []string {
	if len(reqs) < 2000 || workers < 2 {
		return c.Model(reqs)
	}
	out := make([]string, len(reqs))
	var wg sync.WaitGroup
	chunk := (len(reqs) + workers - 1) / workers
	for w := 0; w < workers; w++ {
		lo, hi := w*chunk, (w+1)*chunk
		if hi > len(reqs) {
			hi = len(reqs)
		}
		if lo >= hi {
			break
		}
		wg.Add(1)
		go func(lo, hi int) {
			defer wg.Done()
			copy(out[lo:hi], c.Model(reqs[lo:hi]))
		}(lo, hi)
	}
	wg.Wait()
	return out
}

func c06One(c *lib.Ctx, h c06Hist) c06Result {
	return c06RunBatch(c, []c06Hist{h}, 1)[0]
}

// shrink: drop steps (keeping the history well formed) while the same signature is reproduced
func c06Shrink(c *lib.Ctx, h c06Hist, sig string) c06Hist {
	cur := h
	// cut everything after the failing step first
	if r := c06One(c, cur); r.verdict.Fail != nil {
		cur.Steps = append([]c06Step(nil), cur.Steps[:r.verdict.Fail.Step+1]...)
	}
	for changed := true; changed; {
		changed = false
		for i := len(cur.Steps) - 2; i >= 0; i-- {
			cand := c06Hist{Sweep: cur.Sweep}
			cand.Steps = append(append([]c06Step(nil), cur.Steps[:i]...), cur.Steps[i+1:]...)
			if !c06WellFormed(cand) {
				continue
			}
			r := c06One(c, cand)
			if r.verdict.Fail != nil && c06Signature(cand, r.verdict.Fail) == sig {
				cur = cand
				changed = true
			}
		}
	}
	return cur
}

// every variable is assigned (by a step that cannot fail to assign) before it is used
func c06WellFormed(h c06Hist) bool {
	def := map[string]bool{}
	for _, st := range h.Steps {
		names := st.varArgs()
		if st.Inner != nil {
			names = append(names, st.Inner.varArgs()...)
		}
		for _, n := range names {
			if n != c06Tmp && !def[n] {
				return false
			}
		}
		if st.Target != "-" {
			def[st.Target] = true
		}
	}
	return len(h.Steps) > 0
}

func c06ReplayMap(r c06Result) map[string]any {
	f := r.verdict.Fail
	steps := []string{}
	for i, st := range r.hist.Steps {
		if i > f.Step {
			break
		}
		line := st.lisp() + "  => " + r.obs[i].Res
		names := append([]string(nil), r.obs[i].Order...)
		sort.Strings(names)
		for _, n := range names {
			line += "  " + n + "=(" + c06Vals(r.obs[i].Vars[n]) + ")"
		}
		steps = append(steps, line)
	}
	hj, _ := json.Marshal(r.hist)
	return map[string]any{
		"input":         r.hist.lisp(),
		"history":       json.RawMessage(hj),
		"trace":         steps,
		"failing_step":  f.Step,
		"aspect":        f.Aspect,
		"variable":      f.Var,
		"observed":      f.Observed,
		"expected":      f.Expected,
		"expected_from": "model:heap.run",
		"request":       r.request,
		"relies_on":     []string{"SlipVerif.ListHeap.nondestructive_frame", "SlipVerif.ListHeap.destructive_footprint", "SlipVerif.ListHeap.extend_no_overwrite"},
	}
}

func c06Replay(c *lib.Ctx) {
	var rec struct {
		History   c06Hist `json:"history"`
		Signature string  `json:"signature"`
	}
	if err := lib.ReadJSON(c.Replay, &rec); err != nil || len(rec.History.Steps) == 0 {
		fmt.Println("cannot read a history from the replay file:", err)
		os.Exit(2)
	}
	r := c06One(c, rec.History)
	fmt.Printf("replay %s\n", rec.History.lisp())
	for i, st := range rec.History.Steps {
		line := fmt.Sprintf("  %-40s => %s", st.lisp(), r.obs[i].Res)
		names := append([]string(nil), r.obs[i].Order...)
		sort.Strings(names)
		for _, n := range names {
			line += "  " + n + "=(" + c06Vals(r.obs[i].Vars[n]) + ")"
		}
		if i < len(r.reply) {
			may := []string{}
			for n := range r.reply[i].May {
				may = append(may, n)
			}
			sort.Strings(may)
			line += fmt.Sprintf("   | model: expected %s, may change {%s}", r.reply[i].Expected, strings.Join(may, " "))
		}
		fmt.Println(line)
	}
	if f := r.verdict.Fail; f != nil {
		fmt.Printf("  step %d violates the property (%s): observed %s, expected %s\n", f.Step, f.Aspect, f.Observed, f.Expected)
		c.Report(c06Signature(rec.History, f), false, c06ReplayMap(r))
	} else {
		fmt.Println("  every step agrees with the model")
	}
}

// ---------------------------------------------------------------------------------------------

func runC06(c *lib.Ctx) {
	if c.Replay != "" {
		c06Replay(c)
		return
	}
	workers := runtime.NumCPU()
	if workers > 12 {
		workers = 12
	}
	if os.Getenv("VERIF_C06_WORKERS") != "" {
		workers, _ = strconv.Atoi(os.Getenv("VERIF_C06_WORKERS"))
	}
	if workers < 1 {
		workers = 1
	}
	report := func(results []c06Result, sweep bool, family string) {
		shrunk := 0
		for _, r := range results {
			c.Ev.Case(r.key, r.verdict.Nontrivial)
			c.Ev.Hist("history_length", strconv.Itoa(len(r.hist.Steps)-r.hist.Setup))
			c.Ev.Count("steps_checked", r.verdict.Checked)
			if r.verdict.Circular {
				c.Ev.Count("histories_ended_by_circular_structure", 1)
			}
			c.Ev.Count("steps_with_accepted_extra_copying", r.verdict.Diverged)
			c.Ev.Count("steps_with_nested_argument", r.verdict.Nested)
			for i, st := range r.hist.Steps {
				if i >= r.hist.Setup {
					c.Ev.Hist("op", st.Op)
				}
			}
			if r.verdict.Fail == nil {
				c.Ev.Count("agreements", 1)
				continue
			}
			sig := c06Signature(r.hist, r.verdict.Fail)
			c.Ev.Hist("disagreement_"+family, sig)
			if sweep && c.Findings.Match(c.Prop, sig) != nil {
				c.Report(sig, true, map[string]any{})
				continue
			}
			seen := false
			for _, v := range c.Violations {
				if v.Signature == sig {
					seen = true
				}
			}
			if seen {
				continue
			}
			rr := r
			if shrunk < 40 {
				shrunk++
				sh := c06Shrink(c, r.hist, sig)
				rr = c06One(c, sh)
				if rr.verdict.Fail == nil || c06Signature(sh, rr.verdict.Fail) != sig {
					rr = r
				}
			}
			c.Report(sig, sweep, c06ReplayMap(rr))
		}
	}

	// 1. single-cause sweeps (seed independent)
	s1 := c06RunBatch(c, c06SweepValues(), workers)
	report(s1, true, "sweep_values")
	s2 := c06RunBatch(c, c06SweepPairs(c.Thorough()), workers)
	report(s2, true, "sweep_pairs")
	s3 := c06RunBatch(c, c06SweepShort(c.Thorough()), workers)
	report(s3, true, "sweep_short")
	s4 := c06RunBatch(c, c06SweepNested(), workers)
	report(s4, true, "sweep_nested")
	c.Ev.Coverage["sweep_nested_cases"] = len(s4)
	c.Ev.Coverage["sweep_value_cases"] = len(s1)
	c.Ev.Coverage["sweep_pair_cases"] = len(s2)
	c.Ev.Coverage["sweep_short_operand_cases"] = len(s3)

	// 2. composite histories: random (both tiers)
	g := &c06Gen{rng: c.Rng}
	// composite generators avoid the construct of the listed findings (never excused there)
	avoidListed := c.Findings.Listed(c.Prop, "creator=")
	c.Ev.Coverage["composite_avoids_second_in_place_extension"] = avoidListed
	nRandom := c.Scale(40000, 300000)
	if c.GenBroken != "" {
		// a proof obligation over the regenerated code no longer checks: search harder for a failing input
		nRandom *= 3
		c.Ev.Coverage["witness_search_for_broken_obligation"] = c.GenBroken
	}
	batch := 20000
	total := 0
	for total < nRandom {
		n := batch
		if nRandom-total < n {
			n = nRandom - total
		}
		hs := make([]c06Hist, n)
		for i := range hs {
			g.fresh = 0
			hs[i] = c06Random(g, avoidListed)
		}
		rs := c06RunBatch(c, hs, workers)
		report(rs, false, "random")
		if total == 0 {
			for i := 0; i < len(rs) && i < 6; i++ {
				c.Ev.Sample(map[string]any{"history": rs[i].hist.lisp(), "request": rs[i].request})
			}
		}
		total += n
	}
	c.Ev.Coverage["random_histories"] = total

	// 3. composite histories: bounded-exhaustive over reduced alphabets (thorough tier)
	if c.Thorough() {
		back := map[string]bool{"cdr": true, "remove": true, "add": true, "nconc": true, "sort": true, "cons": true, "delete": true, "nreverse": true}
		wide := []string{"cons:$v,$1", "push:$v,$1", "append:$1,$2", "cdr:$1", "nthcdr:2,$1", "pop:$1", "last:2,$1", "member:4,$1",
			"butlast:1,$1", "subseq:1,3,$1", "copylist:$1", "reverse:$1", "remove:eq:2,$1", "mapcar:inc,$1", "liststar:$v,$w,$1",
			"rplaca:$1,$v", "setnth:1,$1,$v", "setelt:0,$1,$v", "rplacd:$1,$2", "nconc:$1,$2", "add:$1,$v", "nreverse:$1", "sort:asc,$1", "delete:eq:2,$1"}
		narrow := []string{"cons:$v,$1", "append:$1,$2", "cdr:$1", "butlast:1,$1", "subseq:1,3,$1", "remove:eq:2,$1",
			"setnth:1,$1,$v", "rplacd:$1,$2", "nconc:$1,$2", "add:$1,$v", "sort:asc,$1", "pop:$1"}
		exh := 0
		emit := func(hs []c06Hist) { report(c06RunBatch(c, hs, workers), false, "exhaustive") }
		wide2 := append(append([]string{}, wide...), "remove:eq:1,count=1,fromend,$1", "remove:dups,$1", "delete:eq:1,fromend,$1", "member:gt:2,$1",
			"sort:desc,$1", "mapcar2:$1,$2", "liststar2:$v,$1", "last:1,$1", "fill:$v,$1", "incfnth:1,10,$1", "nbutlast:1,$1", "replace:0,$v.$w,$1")
		a2 := c06Alphabet(wide2, []string{"a", "b", "d", "f", "k", "$last"}, back)
		exh += c06Exhaustive(a2, 2, []int{0, 1, 2, 3, 4, 5}, avoidListed, batch, emit)
		a3 := c06Alphabet(wide, []string{"a", "b", "$last"}, map[string]bool{"add": true, "cdr": true})
		exh += c06Exhaustive(a3, 3, []int{1, 2}, avoidListed, batch, emit)
		a4 := c06Alphabet(narrow, []string{"a", "$last"}, nil)
		exh += c06Exhaustive(a4, 4, []int{1}, avoidListed, batch, emit)
		c.Ev.Coverage["exhaustive_histories"] = exh
		c.Ev.Coverage["exhaustive_alphabets"] = map[string]int{"depth2": len(a2), "depth3": len(a3), "depth4": len(a4)}
	}
	c.Ev.Coverage["k_gen"] = "Gen/ListProgs.lean: the Call/Place methods of 24 list functions translated from the Go source into SliceProg programs; Theorems/GenC06, GenC06b prove for all lists and indices that each returns the value-level model's value, never faults, writes no argument storage unless destructive, and returns fresh storage or a tail of the argument. Gen/ListUses.lean: flow-insensitive uses of argument storage in 19 further functions (remove/delete loops, member, the mapping functions, concatenate, coerce); Theorems/GenC06c: no write, no window"
	c.Ev.Coverage["operation_forms"] = len(c06Templates)
	c.Ev.Coverage["traces_validated_against_impl"] = c.Ev.Coverage["steps_checked"]
	c.Ev.Coverage["rule"] = "case = operation history over a pool of named lists; after every step the result and the contents of every live variable are compared: result = value-level model on the implementation's current argument values; a variable may differ from its previous print only if the cons-cell heap model says it may; extending operations never overwrite. non-trivial = the history applies a destructive or extending operation to a list that has another live reference; distinct by history text"
}
