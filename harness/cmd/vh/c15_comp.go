package main

// C15 — composite generator: seeded random compositions of up to 4 directives (sequences and
// nesting), built from the same pieces as the sweep. Pieces whose cell is listed in findings are
// not used (composite disagreements are never excused), nor are the listed pair constructs.
// Also: the Go-side oracle for ~R spelling (witness search when a table obligation breaks).

import (
	"fmt"
	"math/big"
	"strings"

	"verif/harness/lib"
)

// unit: a fragment of a control string with a generator for the arguments it consumes in order.
type unit struct {
	ctrl  string
	gen   func() []fArg
	ndirs int
	cell  string
}

type c15Gen struct {
	rng    *lib.Rng
	avoid  func(prefix string) bool
	pieces []piece // usable sequential pieces
	byDir  map[string][]int
	dirs   []string
	// listed pair constructs
	padNested   bool // nested blocks must not touch the enclosing block's delimiters
	noNestParam bool // nested openers carry no prefix parameter
	padAfterSep bool // a directive must not directly follow ~;
	noParamTilde bool // no ~n~ (tilde directive with a parameter) inside a block
	noBraceLit   bool // no literal } (it could follow a ~})
	noNilSubList bool // ~? never gets nil as its argument list
	colDepInBlocks bool // ~& and ~T may stand inside blocks
	noHat       bool
}

func c15Dir(cell string) string {
	f := strings.Fields(cell)
	return strings.TrimPrefix(f[0], "dir=")
}

func newC15Gen(rng *lib.Rng, avoid func(string) bool) *c15Gen {
	g := &c15Gen{rng: rng, avoid: avoid, byDir: map[string][]int{}}
	for _, p := range c15Pieces(false) {
		if p.cursor || avoid(p.cell+" ") {
			continue
		}
		if strings.Contains(p.cell, "roman-") && g.rng.Intn(40) != 0 {
			continue // keep the 8000 roman pieces from swamping the pool
		}
		d := c15Dir(p.cell)
		if _, ok := g.byDir[d]; !ok {
			g.dirs = append(g.dirs, d)
		}
		g.byDir[d] = append(g.byDir[d], len(g.pieces))
		g.pieces = append(g.pieces, p)
	}
	nest := func(dir, arg string) bool { return avoid(cellKey(dir, "", "none", arg) + " ") }
	g.padNested = nest("{", "nested-adjacent") || nest("(", "nested-adjacent") || nest("[", "nested-first-in-clause") ||
		nest("[", "nested-last-in-clause") || nest("[", "nested-after-separator")
	g.noNestParam = nest("{", "nested-with-parameter") || nest("[", "nested-with-parameter")
	g.padAfterSep = nest("[", "directive-first-in-later-clause") || nest("[", "empty-last-clause") || nest("[", "literal-bracket-after-separator") ||
		avoid(cellKey("[", ":", "none", "directive-first-in-second-clause")+" ") || avoid(cellKey("[", ":", "none", "modifier-characters-after-separator")+" ")
	g.noParamTilde = nest("{", "parameterised-tilde-before-close") || nest("[", "parameterised-tilde-before-close") || nest("(", "parameterised-tilde-before-close")
	g.noHat = avoid("dir=^ ")
	// ~& and ~T inside blocks only when no "inside a block" cell is listed
	g.colDepInBlocks = !(avoid(cellKey("&", "", "none", "-")+" ctx=first-in-") || avoid(cellKey("t", "", "colnum", "-")+" ctx=first-in-") ||
		avoid(cellKey("t", "", "colnum", "-")+" ctx=in-"))
	g.noBraceLit = nest("{", "literal-brace-after-close")
	g.noNilSubList = avoid(cellKey("?", "", "none", "literal-control") + " ")
	return g
}

// perturb: a fresh value of the same class
func (g *c15Gen) perturb(a fArg) fArg {
	r := g.rng
	switch a.Kind {
	case "i":
		n, _ := new(big.Int).SetString(a.Int, 10)
		if n.Sign() == 0 || r.Chance(30) {
			return a
		}
		abs := new(big.Int).Abs(n)
		var v *big.Int
		switch {
		case abs.Cmp(big.NewInt(1000)) < 0:
			v = big.NewInt(int64(1 + r.Intn(999)))
		case abs.IsInt64():
			v = new(big.Int).Abs(r.BigBits(10 + r.Intn(53)))
			v.Add(v, big.NewInt(1000))
		default:
			v = new(big.Int).Abs(r.BigBits(70 + r.Intn(140)))
			v.Add(v, pow2(64))
		}
		if n.Sign() < 0 {
			v.Neg(v)
		}
		return aBig(v)
	case "s":
		if a.Str == "" || strings.ContainsAny(a.Str, `"\`) || r.Chance(30) {
			return a
		}
		letters := "abcdefghijklmnopqrstuvwxyzABCDEFGHIJKLMNOPQRSTUVWXYZ  "
		b := make([]byte, 1+r.Intn(9))
		for i := range b {
			b[i] = letters[r.Intn(len(letters))]
		}
		b[0] = letters[r.Intn(52)]
		return aStr(string(b))
	case "l":
		xs := make([]fArg, len(a.List))
		for i, x := range a.List {
			xs[i] = g.perturb(x)
		}
		return fArg{Kind: "l", List: xs}
	}
	return a
}

func (g *c15Gen) pieceUnit() unit {
	d := g.dirs[g.rng.Intn(len(g.dirs))]
	idx := g.byDir[d]
	p := g.pieces[idx[g.rng.Intn(len(idx))]]
	return unit{ctrl: p.ctrl, ndirs: strings.Count(p.ctrl, "~"), cell: p.cell, gen: func() []fArg {
		for try := 0; try < 8; try++ {
			out := make([]fArg, len(p.args))
			for i, a := range p.args {
				if i < len(p.args)-1 {
					out[i] = a // v parameters keep their value
				} else {
					out[i] = g.perturb(a)
				}
			}
			// a perturbed value must stay in the piece's (unlisted) cell
			if p.reclass == nil || p.reclass(out) == p.cell {
				return out
			}
		}
		return append([]fArg{}, p.args...)
	}}
}

func (g *c15Gen) lastArgs(u unit) []fArg { return u.gen() }

// blockPiece: a piece that may stand inside a block
func (g *c15Gen) blockPiece() unit {
	for {
		u := g.pieceUnit()
		if g.noParamTilde && strings.HasPrefix(u.cell, "dir=~ ") && !strings.Contains(u.cell, "params=none") {
			continue
		}
		if !g.colDepInBlocks && (strings.HasPrefix(u.cell, "dir=& ") || strings.HasPrefix(u.cell, "dir=t ")) {
			continue
		}
		return u
	}
}

func (g *c15Gen) literal() unit {
	words := []string{"abc", " ", ", ", "x", "Foo Bar", ": ", "-", "1 2", "(", ")", "[", "]", "{", "}", "a;b", "#", "v", "'", "q^z", "@:", "\t"}
	w := words[g.rng.Intn(len(words))]
	if g.noBraceLit && w == "}" {
		w = "{"
	}
	return unit{ctrl: w, gen: func() []fArg { return nil }}
}

func seqUnit(us []unit) unit {
	var b strings.Builder
	n := 0
	for _, u := range us {
		b.WriteString(u.ctrl)
		n += u.ndirs
	}
	return unit{ctrl: b.String(), ndirs: n, gen: func() []fArg {
		var out []fArg
		for _, u := range us {
			out = append(out, u.gen()...)
		}
		return out
	}}
}

// body: a sequence of units using at most budget directives; inBlock = nested inside a block.
func (g *c15Gen) body(budget int, depth int, needArg bool) unit {
	var us []unit
	used := 0
	n := 1 + g.rng.Intn(3)
	for i := 0; i < n && used < budget; i++ {
		var u unit
		switch k := g.rng.Intn(10); {
		case k < 2 && !(needArg && i == 0):
			u = g.literal()
		case k < 5 && depth < 2 && budget-used >= 2:
			u = g.block(budget-used, depth+1)
			if g.padNested && depth > 0 {
				u.ctrl = "<" + u.ctrl + ">"
			}
		default:
			u = g.blockPiece()
		}
		if used+u.ndirs > budget {
			continue
		}
		used += u.ndirs
		us = append(us, u)
	}
	if len(us) == 0 || (needArg && us[0].ndirs == 0) {
		us = append([]unit{g.blockPiece()}, us...)
	}
	return seqUnit(us)
}

func (g *c15Gen) block(budget int, depth int) unit {
	r := g.rng
	switch r.Intn(8) {
	case 0: // ~( ~)
		// the word-wise modes (: and @) only around letters-and-blanks text: what a "word" is differs
		// from Common Lisp's definition for digits, apostrophes, hyphens (listed findings)
		if r.Chance(35) {
			m := []string{":", "@"}[r.Intn(2)]
			words := []string{"hello", "WORLD", "fOO", "Bar", "x", "Lisp"}
			n := 1 + r.Intn(3)
			ws := make([]string, n)
			for i := range ws {
				ws[i] = words[r.Intn(len(words))]
			}
			if r.Bool() {
				return unit{ctrl: "~" + m + "(" + strings.Join(ws, " ") + "~)", ndirs: 1, gen: func() []fArg { return nil }}
			}
			txt := strings.Join(ws, " ")
			return unit{ctrl: "~" + m + "(~a~)", ndirs: 2, gen: func() []fArg { return []fArg{aStr(txt)} }}
		}
		m := []string{"", ":@"}[r.Intn(2)]
		inner := g.body(budget-1, depth, false)
		return unit{ctrl: "~" + m + "(" + inner.ctrl + "~)", ndirs: inner.ndirs + 1, gen: inner.gen}
	case 1, 2: // ~[ ~; ~]
		nc := 1 + r.Intn(3)
		clauses := make([]unit, nc)
		for i := range clauses {
			if r.Chance(35) {
				clauses[i] = g.literal()
			} else {
				clauses[i] = g.body(1, depth, false)
			}
			if i > 0 && g.padAfterSep {
				clauses[i].ctrl = "." + clauses[i].ctrl
			}
		}
		hasDefault := r.Chance(30)
		useParam := r.Chance(20)
		sel := r.Intn(nc + 2)
		texts := make([]string, nc)
		nd := 1
		for i, cl := range clauses {
			texts[i] = cl.ctrl
		}
		ctrl := strings.Join(texts, "~;")
		if hasDefault {
			ctrl += "~:;other"
		}
		if sel < nc {
			nd += clauses[sel].ndirs
		}
		open := "~["
		if useParam {
			open = fmt.Sprintf("~%d[", sel)
		}
		return unit{ctrl: open + ctrl + "~]", ndirs: nd, gen: func() []fArg {
			var out []fArg
			if !useParam {
				out = append(out, aInt(int64(sel)))
			}
			if sel < nc {
				out = append(out, clauses[sel].gen()...)
			}
			return out
		}}
	case 3: // ~:[ ~; ~]
		alt, con := g.literal(), g.body(1, depth, false)
		if g.padAfterSep {
			con.ctrl = "." + con.ctrl
		}
		truthy := r.Bool()
		return unit{ctrl: "~:[" + alt.ctrl + "~;" + con.ctrl + "~]", ndirs: 1 + con.ndirs, gen: func() []fArg {
			if truthy {
				return append([]fArg{aSym("t")}, con.gen()...)
			}
			return []fArg{aNil()}
		}}
	case 4: // ~@[ ~]
		truthy := r.Bool()
		return unit{ctrl: "~@[got ~a~]", ndirs: 2, gen: func() []fArg {
			if truthy {
				return []fArg{aInt(int64(1 + r.Intn(9)))}
			}
			return []fArg{aNil()}
		}}
	case 5: // ~? and ~@? : the control string and its arguments travel as arguments
		inner := g.body(budget-1, depth, false)
		if r.Bool() {
			return unit{ctrl: "~@?", ndirs: 1 + inner.ndirs, gen: func() []fArg {
				return append([]fArg{aStr(inner.ctrl)}, inner.gen()...)
			}}
		}
		extra := r.Intn(2) // unused arguments at the end of the sub-list are fine
		return unit{ctrl: "~?", ndirs: 1 + inner.ndirs, gen: func() []fArg {
			sub := inner.gen()
			for i := 0; i < extra; i++ {
				sub = append(sub, aSym("unused"))
			}
			if len(sub) == 0 && g.noNilSubList {
				sub = append(sub, aSym("unused"))
			}
			return []fArg{aStr(inner.ctrl), aList(sub...)}
		}}
	default: // ~{ ~} ~:{ ~}
		inner := g.body(budget-1, depth, true)
		iters := r.Intn(5)
		mx := ""
		if r.Chance(30) && !(g.noNestParam && depth > 1) {
			mx = fmt.Sprint(r.Intn(4))
		}
		colon := r.Chance(30)
		m := ""
		if colon {
			m = ":"
		}
		return unit{ctrl: "~" + mx + m + "{" + inner.ctrl + "~}", ndirs: 1 + inner.ndirs, gen: func() []fArg {
			var elems []fArg
			for i := 0; i < iters; i++ {
				if colon {
					elems = append(elems, aList(inner.gen()...))
				} else {
					elems = append(elems, inner.gen()...)
				}
			}
			return []fArg{aList(elems...)}
		}}
	}
}

// c15CompositeCases: n random compositions.
func c15CompositeCases(rng *lib.Rng, n int, avoid func(string) bool) []fCase {
	g := newC15Gen(rng, avoid)
	var out []fCase
	for len(out) < n {
		var u unit
		var topUnits []unit
		switch k := rng.Intn(10); {
		case k < 3:
			u = g.block(4, 1)
		default:
			// a sequence of 2..4 top-level units, possibly with cursor idioms in between
			var us []unit
			cnt := 2 + rng.Intn(3)
			used := 0
			for i := 0; i < cnt && used < 4; i++ {
				var x unit
				switch j := rng.Intn(12); {
				case j < 2:
					x = g.literal()
				case j == 2 && used <= 2:
					x = g.block(4-used, 1)
				case j == 3:
					p := g.pieceUnit()
					x = unit{ctrl: p.ctrl + "~:*" + p.ctrl, ndirs: 2*p.ndirs + 1, gen: p.gen} // re-read the same argument(s)
					if p.ndirs != 1 || strings.ContainsAny(p.ctrl, "v#") || len(g.lastArgs(p)) != 1 {
						x = p
					}
				case j == 4:
					x = unit{ctrl: "~*", ndirs: 1, gen: func() []fArg { return []fArg{aSym("skipped")} }}
				case j == 5:
					x = unit{ctrl: "~%", ndirs: 1, gen: func() []fArg { return nil }}
				case j == 6:
					// # parameters: the number of arguments that remain at this point
					x = []unit{
						{ctrl: "~#[none~;one~;two~:;many~]", ndirs: 1, gen: func() []fArg { return nil }},
						{ctrl: "~#d", ndirs: 1, gen: func() []fArg { return []fArg{aInt(int64(rng.Intn(2000) - 1000))} }},
						{ctrl: "~#,'.@a", ndirs: 1, gen: func() []fArg { return []fArg{aSym("sym")} }},
						{ctrl: "~#%", ndirs: 1, gen: func() []fArg { return nil }},
					}[rng.Intn(4)]
				default:
					x = g.pieceUnit()
				}
				if used+x.ndirs > 4 {
					continue
				}
				used += x.ndirs
				us = append(us, x)
			}
			u = seqUnit(us)
			topUnits = us
		}
		if u.ndirs < 1 || u.ndirs > 6 {
			continue
		}
		cs := fCase{Mode: "fmt", Ctrl: u.ctrl, Sweep: false}
		if len(topUnits) > 1 {
			// keep the top-level structure so that a disagreement can be shrunk unit by unit
			for _, tu := range topUnits {
				a := tu.gen()
				cs.Units = append(cs.Units, fUnit{Ctrl: tu.ctrl, Args: a})
				cs.Args = append(cs.Args, a...)
			}
		} else {
			cs.Args = u.gen()
		}
		out = append(out, cs)
	}
	return out
}

// ---------------------------------------------------------------------------------------------
// Go-side oracle for the spelling of ~R (independent of the regenerated tables)

var c15Periods = []string{"", "thousand", "million", "billion", "trillion", "quadrillion", "quintillion", "sextillion", "septillion", "octillion",
	"nonillion", "decillion", "undecillion", "duodecillion", "tredecillion", "quattuordecillion", "quindecillion", "sexdecillion",
	"septendecillion", "octodecillion", "novemdecillion", "vigintillion"}
var c15Ones = []string{"", "one", "two", "three", "four", "five", "six", "seven", "eight", "nine", "ten", "eleven", "twelve", "thirteen", "fourteen",
	"fifteen", "sixteen", "seventeen", "eighteen", "nineteen"}
var c15Tens = []string{"", "", "twenty", "thirty", "forty", "fifty", "sixty", "seventy", "eighty", "ninety"}
var c15OrdOnes = []string{"", "first", "second", "third", "fourth", "fifth", "sixth", "seventh", "eighth", "ninth", "tenth", "eleventh", "twelfth",
	"thirteenth", "fourteenth", "fifteenth", "sixteenth", "seventeenth", "eighteenth", "nineteenth"}

func c15OracleCardinal(n *big.Int) (string, bool) {
	if n.Sign() == 0 {
		return "zero", true
	}
	a := new(big.Int).Abs(n)
	var groups []int
	thousand := big.NewInt(1000)
	for a.Sign() > 0 {
		m := new(big.Int)
		a.DivMod(a, thousand, m)
		groups = append(groups, int(m.Int64()))
	}
	if len(groups) > len(c15Periods) {
		return "", false
	}
	var words []string
	if n.Sign() < 0 {
		words = append(words, "negative")
	}
	for i := len(groups) - 1; i >= 0; i-- {
		t := groups[i]
		if t == 0 {
			continue
		}
		if t >= 100 {
			words = append(words, c15Ones[t/100], "hundred")
		}
		if r := t % 100; r > 0 {
			if r < 20 {
				words = append(words, c15Ones[r])
			} else {
				words = append(words, c15Tens[r/10])
				if r%10 > 0 {
					words = append(words, c15Ones[r%10])
				}
			}
		}
		if i > 0 {
			words = append(words, c15Periods[i])
		}
	}
	return strings.Join(words, " "), true
}

func c15OracleOrdinal(n *big.Int) (string, bool) {
	if n.Sign() == 0 {
		return "zeroth", true
	}
	s, ok := c15OracleCardinal(n)
	if !ok {
		return "", false
	}
	i := strings.LastIndexByte(s, ' ')
	last := s[i+1:]
	ord := last + "th"
	for k, w := range c15Ones {
		if k > 0 && w == last {
			ord = c15OrdOnes[k]
		}
	}
	for _, w := range c15Tens {
		if w != "" && w == last {
			ord = strings.TrimSuffix(last, "y") + "ieth"
		}
	}
	return s[:i+1] + ord, true
}

func c15OracleRoman(n int, old bool) string {
	vals := []int{1000, 900, 500, 400, 100, 90, 50, 40, 10, 9, 5, 4, 1}
	syms := []string{"M", "CM", "D", "CD", "C", "XC", "L", "XL", "X", "IX", "V", "IV", "I"}
	var b strings.Builder
	for i, v := range vals {
		if old && len(syms[i]) == 2 {
			continue
		}
		for n >= v {
			b.WriteString(syms[i])
			n -= v
		}
	}
	return b.String()
}

// c15GenWitness: a table obligation of Theorems/GenC15.lean no longer builds; search for an input
// whose rendering differs from the independent Go oracle (the model consumes the same tables as the
// implementation, so the correspondence alone cannot see a changed word).
func c15GenWitness(c *lib.Ctx) {
	var cases []fCase
	var expect []string
	addCase := func(ctrl string, n *big.Int, want string) {
		cases = append(cases, fCase{Mode: "fmt", Ctrl: ctrl, Args: []fArg{aBig(n)}})
		expect = append(expect, want)
	}
	for _, n := range c15EnglishValues(false) {
		if w, ok := c15OracleCardinal(n); ok {
			addCase("~r", n, w)
		}
		if w, ok := c15OracleOrdinal(n); ok {
			addCase("~:r", n, w)
		}
	}
	for n := 1; n <= 3999; n++ {
		addCase("~@r", big.NewInt(int64(n)), c15OracleRoman(n, false))
		addCase("~:@r", big.NewInt(int64(n)), c15OracleRoman(n, true))
	}
	results := c15RunImpl(cases, 4)
	reqs := make([]string, len(cases))
	for i, cs := range cases {
		reqs[i] = cs.request()
	}
	replies := c.Model(reqs)
	found := 0
	for i, cs := range cases {
		r := results[i]
		if r.Ok && r.Text == expect[i] {
			continue
		}
		// a changed table shows as: implementation and model (which reads the same regenerated table)
		// agree with each other and differ from the oracle; anything else is the correspondence's business
		mt, mok, _ := c15ModelText(replies[i])
		if !(r.Ok && mok && mt == r.Text) {
			continue
		}
		if found < 3 {
			cell := cellKey("r", strings.Trim(cs.Ctrl, "~r"), "none", "spelling")
			c.Report(fmt.Sprintf("%s aspect=text-vs-oracle table-obligation=%s inst=%d", cell, c.GenBroken, found), false, map[string]any{
				"input": cs.lisp(), "cases": []fCase{cs}, "observed": r.String(), "expected": fmt.Sprintf("ok %q", expect[i]),
				"expected_from": "independent Go oracle for English / Roman numerals", "broken": c.GenBroken})
		}
		found++
	}
	c.Ev.Coverage["gen_witness_candidates"] = len(cases)
	c.Ev.Coverage["gen_witness_found"] = found
}
