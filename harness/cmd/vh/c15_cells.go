package main

// C15 — the single-cause sweep: per directive x modifiers x parameter class x argument class cells.
// Finite, seed independent, exhaustively enumerated. A cell is a small group of concrete instances;
// its signature is "dir=… mods=… params=… arg=…[ ctx=…]" + the aspect(s) that failed + a digest of
// what the implementation produced for the failing instances (so that a listed cell that starts to
// fail differently is not absorbed by the finding).

import (
	"fmt"
	"math/big"
	"strings"
)

// piece: one directive (or block) with the arguments it consumes; the unit both the sweep and the
// composite generator are built from.
type piece struct {
	cell string
	ctrl string
	args []fArg
	// properties the composite generator needs
	colDep   bool // output depends on the column / previous character (~& ~T)
	cursor   bool // moves the cursor non-locally (~* family, ~:P) or reads # : positions matter
	consumes int  // arguments consumed in order (len(args)) unless cursor
	noErr    bool // model error expected-or-not is not compared
	reclass  func(args []fArg) string // the cell of perturbed arguments (nil: perturbation keeps the cell)
}

func cellKey(dir, mods, params, arg string) string {
	return fmt.Sprintf("dir=%s mods=%s params=%s arg=%s", dir, mods, params, arg)
}

var c15Mods = []string{"", ":", "@", ":@"}

func pow2(e uint) *big.Int { return new(big.Int).Lsh(big.NewInt(1), e) }
func bigS(s string) *big.Int {
	n, ok := new(big.Int).SetString(s, 10)
	if !ok {
		panic(s)
	}
	return n
}

// argument classes shared by the printing directives: class name -> instances
type argClass struct {
	name string
	vals []fArg
}

func c15IntClasses() []argClass {
	i64max := new(big.Int).Sub(pow2(63), big.NewInt(1))
	return []argClass{
		{"int0", []fArg{aInt(0)}},
		{"fix+small", []fArg{aInt(7), aInt(42), aInt(999)}},
		{"fix-small", []fArg{aInt(-7), aInt(-999)}},
		{"fix+", []fArg{aInt(1000), aInt(123456), aInt(1 << 31), aBig(i64max)}},
		{"fix-", []fArg{aInt(-1000), aInt(-1234567), aBig(new(big.Int).Neg(pow2(63)))}},
		{"big+", []fArg{aBig(pow2(63)), aBig(new(big.Int).Add(pow2(64), big.NewInt(1))), aIntS("123456789012345678901234567890")}},
		{"big-", []fArg{aBig(new(big.Int).Neg(new(big.Int).Add(pow2(63), big.NewInt(1)))), aIntS("-1000000000000000000000000000000")}},
	}
}

func c15NonIntClasses() []argClass {
	return []argClass{
		{"symbol", []fArg{aSym("foo"), aSym("bar-baz")}},
		{"keyword", []fArg{aSym(":key")}},
		{"string", []fArg{aStr("abc"), aStr("Hello World")}},
		{"string-empty", []fArg{aStr("")}},
		{"string-quote", []fArg{aStr(`a"b`), aStr(`c\d`)}},
		{"char-graphic", []fArg{aChr('b'), aChr('Z'), aChr('%')}},
		{"char-named", []fArg{aChr(' '), aChr('\n')}},
		{"nil", []fArg{aNil()}},
		{"list-int", []fArg{aList(aInt(1), aInt(-2), aInt(3)), aList(aInt(5))}},
		{"list-nested", []fArg{aList(aSym("a"), aList(aSym("b"), aList(aInt(1))), aNil(), aSym("c"))}},
	}
}

type paramClass struct {
	name string
	text string   // parameter text placed between ~ and the modifiers
	pre  []fArg   // arguments consumed by v parameters (before the directive's own argument)
	post int      // dummy arguments needed after (for #)
}

func c15ASParams() []paramClass {
	return []paramClass{
		{"none", "", nil, 0},
		{"mincol<=len", "2", nil, 0},
		{"mincol", "9", nil, 0},
		{"colinc", "9,4", nil, 0},
		{"minpad", "9,4,2", nil, 0},
		{"minpad-only", ",,3", nil, 0},
		{"padchar-plain", "9,,,'.", nil, 0},
		{"padchar-plain4", "9,2,1,'_", nil, 0},
		{"padchar-dirchar", "9,,,'*", nil, 0},
		{"padchar-dirletter", "9,,,'a", nil, 0},
		{"padchar-comma", "9,,,',", nil, 0},
		{"v", "v", []fArg{aInt(9)}, 0},
		{"v-padchar", "v,,,v", []fArg{aInt(9), aChr('-')}, 0},
		{"v-nil", "v", []fArg{aNil()}, 0},
		{"hash", "#", nil, 3},
	}
}

func c15IntParams(shift string) []paramClass {
	// shift = "" for D B O X, "<radix>," for ~radix,…R
	p := func(name, text string, pre []fArg, post int) paramClass {
		return paramClass{name, shift + text, pre, post}
	}
	return []paramClass{
		p("none", "", nil, 0),
		p("mincol<=len", "1", nil, 0),
		p("mincol", "12", nil, 0),
		p("mincol-wide", "45", nil, 0),
		p("padchar-plain", "12,'0", nil, 0),
		p("padchar-dirchar", "12,'*", nil, 0),
		p("padchar-dirletter", "12,'x", nil, 0),
		p("padchar-comma", "12,',", nil, 0),
		p("commachar-plain", ",,'.", nil, 0),
		p("commachar-space", ",,' ", nil, 0),
		p("commachar-dirchar", ",,'|", nil, 0),
		p("interval1", ",,,1", nil, 0),
		p("interval2", ",,,2", nil, 0),
		p("interval4", ",,,4", nil, 0),
		p("interval7", ",,,7", nil, 0),
		p("all", "14,'_,'.,4", nil, 0),
		p("v", "v", []fArg{aInt(12)}, 0),
		p("v-all", "v,v,v,v", []fArg{aInt(14), aChr('_'), aChr('.'), aInt(2)}, 0),
		p("v-nil", "v,v", []fArg{aNil(), aNil()}, 0),
		p("hash", "#", nil, 4),
	}
}

func dummyArgs(n int) []fArg {
	out := make([]fArg, n)
	for i := range out {
		out[i] = aSym("extra")
	}
	return out
}

// c15Pieces enumerates the single-directive pieces of every family.
func c15Pieces(thorough bool) []piece {
	var out []piece
	add := func(p piece) {
		if !p.cursor {
			p.consumes = len(p.args)
		}
		out = append(out, p)
	}
	// simple adds the instances of one (directive, modifiers, parameter class) for the values of ac;
	// label is the argument part of the cell name (coarser than ac.name where one cause spans classes)
	simple := func(dir, letter, mods string, pc paramClass, ac argClass, label string) {
		for _, v := range ac.vals {
			args := append(append(append([]fArg{}, pc.pre...), v), dummyArgs(pc.post)...)
			add(piece{cell: cellKey(dir, mods, pc.name, label), ctrl: "~" + pc.text + mods + letter, args: args, cursor: pc.post > 0})
		}
	}
	quoteProblem := func(name string) bool {
		return strings.Contains(name, "dirchar") || strings.Contains(name, "dirletter") || strings.HasSuffix(name, "-comma")
	}
	// --- ~A ~S : cell = (directive, modifiers, parameter class), instances over all argument classes
	allArgs := append(c15IntClasses()[1:6:6], c15NonIntClasses()...)
	for _, d := range []string{"a", "s"} {
		for _, m := range c15Mods {
			for _, pc := range c15ASParams() {
				if quoteProblem(pc.name) && m != "" {
					continue // the parameter reader is shared: one directive x one modifier set is enough
				}
				for _, ac := range allArgs {
					simple(d, d, m, pc, ac, "any")
				}
			}
		}
	}
	// upper-case directive letters
	for _, d := range []string{"A", "S", "D", "B", "O", "X", "R", "C", "P", "T"} {
		switch d {
		case "C":
			add(piece{cell: cellKey("c", "", "upper-letter", "letter"), ctrl: "~C", args: []fArg{aChr('q')}})
		case "P":
			add(piece{cell: cellKey("p", "", "upper-letter", "two"), ctrl: "~P", args: []fArg{aInt(2)}})
		case "T":
		case "R":
			add(piece{cell: cellKey("r", "@", "upper-letter", "roman"), ctrl: "~@R", args: []fArg{aInt(14)}})
		default:
			simple(strings.ToLower(d), d, "", paramClass{"upper-letter", "", nil, 0}, argClass{"fix+small", []fArg{aInt(42)}}, "fix+small")
		}
	}
	// --- ~D ~B ~O ~X and ~radix,…R
	intArgs := c15IntClasses()
	nonInt := argClass{"non-integer", []fArg{aSym("foo"), aStr("abc"), aChr('b'), aNil(), aList(aInt(1), aInt(2))}}
	for _, d := range []string{"d", "b", "o", "x"} {
		for _, m := range c15Mods {
			for _, pc := range c15IntParams("") {
				if quoteProblem(pc.name) && !(d == "d" && (m == "" || m == ":")) {
					continue
				}
				for _, ac := range intArgs {
					simple(d, d, m, pc, ac, "integers")
				}
			}
			if m == "" || m == ":@" {
				for _, pc := range c15IntParams("")[:3:3] {
					if pc.name == "mincol<=len" {
						continue
					}
					simple(d, d, m, pc, nonInt, "non-integer")
				}
			}
		}
	}
	radixes := []int{2, 3, 8, 10, 16, 36}
	if thorough {
		radixes = []int{2, 3, 8, 10, 16, 36, 4, 5, 6, 7, 9, 11, 12, 13, 17, 20, 24, 29, 32, 35}
	}
	for ri, radix := range radixes {
		for _, m := range c15Mods {
			pcs := c15IntParams(fmt.Sprint(radix) + ",")
			pcs[0].text = fmt.Sprint(radix) // "~8R" without a trailing comma
			for i, pc := range pcs {
				if quoteProblem(pc.name) {
					continue
				}
				if ri >= 6 && i > 4 && pc.name != "all" && pc.name != "interval4" {
					continue
				}
				all := pc
				all.name = "any"
				for _, ac := range intArgs {
					simple(fmt.Sprintf("r%d", radix), "r", m, all, ac, "integers")
				}
			}
		}
	}
	simple("rv", "r", "", paramClass{"v-radix", "v", []fArg{aInt(7)}, 0}, intArgs[3], "integers")
	simple("rv", "r", ":", paramClass{"v-radix-all", "v,v,v,v,v", []fArg{aInt(16), aInt(12), aChr('0'), aChr('_'), aInt(2)}, 0}, intArgs[5], "integers")
	simple("r8", "r", "", paramClass{"none", "8", nil, 0}, nonInt, "non-integer")
	// --- ~R without radix: English and Roman
	out = append(out, c15EnglishPieces(thorough)...)
	out = append(out, c15RomanPieces()...)
	// --- ~C
	charClasses := []argClass{
		{"letter", []fArg{aChr('a'), aChr('Q')}},
		{"digit", []fArg{aChr('7')}},
		{"punct", []fArg{aChr('%'), aChr('~'), aChr('"'), aChr('\\'), aChr('(')}},
		{"space", []fArg{aChr(' ')}},
		{"newline", []fArg{aChr('\n')}},
		{"tab", []fArg{aChr('\t')}},
		{"page", []fArg{aChr('\f')}},
		{"return", []fArg{aChr('\r')}},
		{"backspace", []fArg{aChr('\b')}},
		{"rubout", []fArg{aChr(0x7f)}},
	}
	for _, m := range c15Mods {
		for _, ac := range charClasses {
			simple("c", "c", m, paramClass{"none", "", nil, 0}, ac, ac.name)
		}
	}
	// --- ~% ~& ~~ ~|  (contexts are added by c15ContextCells)
	for _, d := range []string{"%", "&", "~", "|"} {
		for _, pc := range []paramClass{{"none", "", nil, 0}, {"n0", "0", nil, 0}, {"n1", "1", nil, 0}, {"n3", "3", nil, 0},
			{"v", "v", []fArg{aInt(2)}, 0}, {"v-nil", "v", []fArg{aNil()}, 0}, {"hash", "#", nil, 2}} {
			add(piece{cell: cellKey(d, "", pc.name, "-"), ctrl: "~" + pc.text + d, args: append(append([]fArg{}, pc.pre...), dummyArgs(pc.post)...),
				colDep: d == "&", cursor: pc.post > 0})
		}
	}
	// --- ~T at the start of the output (the column contexts are in c15ContextCells)
	for _, m := range []string{"", "@"} {
		for _, pc := range []paramClass{{"none", "", nil, 0}, {"colnum0", "0", nil, 0}, {"colnum", "6", nil, 0}, {"colinc-only", ",4", nil, 0},
			{"colnum,colinc", "2,4", nil, 0}, {"v", "v,v", []fArg{aInt(3), aInt(5)}, 0}} {
			add(piece{cell: cellKey("t", m, pc.name, "-"), ctrl: "~" + pc.text + m + "t", args: append([]fArg{}, pc.pre...), colDep: true})
		}
	}
	// --- ~newline : the newline and the blanks that follow are ignored (: keeps the blanks, @ keeps the newline)
	for _, m := range []string{"", ":", "@"} {
		for _, w := range []struct{ name, text string }{{"blanks", "   "}, {"none", ""}, {"tab-blank", "\t "}, {"second-newline", " \n "}} {
			add(piece{cell: cellKey("newline", m, "none", w.name), ctrl: "~" + m + "\n" + w.text})
		}
	}
	// --- ~P
	pArgs := []argClass{{"one", []fArg{aInt(1)}}, {"int0", []fArg{aInt(0)}}, {"two", []fArg{aInt(2), aInt(-1)}},
		{"big+", []fArg{aBig(pow2(70))}}, {"string", []fArg{aStr("1")}}, {"nil", []fArg{aNil()}}, {"symbol", []fArg{aSym("one")}}}
	for _, ac := range pArgs {
		for _, v := range ac.vals {
			add(piece{cell: cellKey("p", "", "none", ac.name), ctrl: "~p", args: []fArg{v}})
			add(piece{cell: cellKey("p", "@", "none", ac.name), ctrl: "~@p", args: []fArg{v}})
			// ~:P backs up over the argument the preceding directive printed
			add(piece{cell: cellKey("p", ":", "none", ac.name), ctrl: "~a thing~:p", args: []fArg{v}})
			add(piece{cell: cellKey("p", ":@", "none", ac.name), ctrl: "~a famil~:@p", args: []fArg{v}})
		}
	}
	return out
}

// ---------------------------------------------------------------------------------------------
// English numbers: classes follow the shape of the number (the causes a renderer can get wrong)

func c15EnglishClass(n *big.Int, ordinal bool) string {
	a := new(big.Int).Abs(n)
	if a.Sign() == 0 {
		return "zero"
	}
	s := a.String()
	ntrip := (len(s) + 2) / 3
	if ntrip > 22 {
		return "beyond-table"
	}
	var tags []string
	// triples, least significant first
	pad := strings.Repeat("0", ntrip*3-len(s)) + s
	lowZero, roundTens, period6 := false, false, false
	for i := 0; i < ntrip; i++ {
		t := pad[len(pad)-3*(i+1) : len(pad)-3*i]
		if t == "000" {
			if i == 0 {
				lowZero = true
			}
			continue
		}
		if i == 6 {
			period6 = true
		}
		if t[1] >= '2' && t[2] == '0' {
			roundTens = true
		}
	}
	if lowZero {
		tags = append(tags, "low-triple-zero")
	}
	if roundTens {
		tags = append(tags, "round-tens")
	}
	if ordinal {
		last2 := pad[len(pad)-2:]
		if last2 == "00" || (last2[1] == '0' && last2[0] >= '2') {
			tags = append(tags, "ends-in-round")
		}
	}
	if period6 {
		tags = append(tags, "period6")
	}
	switch len(tags) {
	case 0:
		if ntrip == 1 {
			return "plain-lt1000"
		}
		return "plain"
	case 1:
		return tags[0]
	}
	return "multi:" + strings.Join(tags, "+")
}

func c15EnglishValues(thorough bool) []*big.Int {
	var vals []*big.Int
	lim := int64(1200)
	if thorough {
		lim = 21000
	}
	for i := int64(0); i <= lim; i++ {
		if i > 1200 && c15EnglishQuick[i] {
			continue // listed explicitly below
		}
		vals = append(vals, big.NewInt(i))
	}
	for _, v := range []int64{2000, 2020, 9999, 10000, 10001, 12345, 20000, 20020, 99999, 100000, 100001, 110000, 123456, 300000, 999999,
		1000000, 1000001, 1000020, 1001000, 1020000, 1234567, 20000000, 20000001, 999999999, 1000000000, 1000000001, 2147483648, 30000000000} {
		vals = append(vals, big.NewInt(v))
	}
	ten := big.NewInt(10)
	for k := 3; k <= 68; k++ {
		p := new(big.Int).Exp(ten, big.NewInt(int64(k)), nil)
		vals = append(vals, p, new(big.Int).Add(p, big.NewInt(1)), new(big.Int).Sub(p, big.NewInt(1)),
			new(big.Int).Add(new(big.Int).Mul(p, big.NewInt(7)), big.NewInt(45)))
	}
	vals = append(vals, bigS("300000000000000000000000000003"), bigS("123456789012345678901234567890123456789012345678901234567890123456"),
		bigS("9223372036854775807"), bigS("9223372036854775808"), bigS("18446744073709551616"))
	for _, v := range []int64{1, 5, 13, 20, 21, 100, 111, 1000, 1234, 1000000, 1000001} {
		vals = append(vals, big.NewInt(-v))
	}
	vals = append(vals, bigS("-9223372036854775808"), bigS("-1000000000000000000"), bigS("-1000000000000000001"))
	return vals
}

// c15EnglishCell: the thorough tier's extra values (1201..21000) live in cells of their own so that
// the quick cells are the same in both tiers
func c15EnglishCell(n *big.Int, m string) string {
	cell := cellKey("r", m, "none", c15EnglishClass(n, m == ":"))
	if n.IsInt64() && n.Int64() > 1200 && n.Int64() <= 21000 && !c15EnglishQuick[n.Int64()] {
		cell += " range=extended"
	}
	return cell
}

var c15EnglishQuick = map[int64]bool{2000: true, 2020: true, 9999: true, 10000: true, 10001: true, 12345: true, 20000: true, 20020: true}

func c15EnglishPieces(thorough bool) []piece {
	var out []piece
	for _, n := range c15EnglishValues(thorough) {
		for _, m := range []string{"", ":"} {
			mm := m
			out = append(out, piece{cell: c15EnglishCell(n, m), ctrl: "~" + m + "r", args: []fArg{aBig(n)}, consumes: 1,
				reclass: func(args []fArg) string { return c15EnglishCell(bigS(args[0].Int), mm) }})
		}
	}
	for _, m := range c15Mods {
		for _, ac := range []argClass{{"symbol", []fArg{aSym("foo")}}, {"string", []fArg{aStr("12")}}, {"nil", []fArg{aNil()}}} {
			out = append(out, piece{cell: cellKey("r", m, "none", ac.name), ctrl: "~" + m + "r", args: ac.vals, consumes: 1})
		}
	}
	return out
}

func c15RomanPieces() []piece {
	var out []piece
	for _, m := range []string{"@", ":@"} {
		for n := 1; n <= 3999; n++ {
			out = append(out, piece{cell: cellKey("r", m, "none", fmt.Sprintf("roman-%dxxx", n/1000)), ctrl: "~" + m + "r", args: []fArg{aInt(int64(n))}, consumes: 1})
		}
		for _, n := range []int64{0, -1, -1999, 4000, 4999, 5000, 10000, 123456} {
			cls := "out-of-range-high"
			if n == 0 {
				cls = "zero"
			} else if n < 0 {
				cls = "negative"
			}
			out = append(out, piece{cell: cellKey("r", m, "none", cls), ctrl: "~" + m + "r", args: []fArg{aInt(n)}, consumes: 1})
		}
		out = append(out, piece{cell: cellKey("r", m, "none", "out-of-range-big"), ctrl: "~" + m + "r", args: []fArg{aBig(pow2(70))}, consumes: 1})
	}
	return out
}

// ---------------------------------------------------------------------------------------------
// cells that need a context: cursor directives, column directives, blocks

type ctxCell struct {
	cell string
	ctrl string
	args []fArg
	noErr bool
}

func c15ContextCells() []ctxCell {
	var out []ctxCell
	add := func(cell, ctrl string, args ...fArg) { out = append(out, ctxCell{cell: cell, ctrl: ctrl, args: args}) }
	ints := func(ns ...int64) []fArg {
		r := make([]fArg, len(ns))
		for i, n := range ns {
			r[i] = aInt(n)
		}
		return r
	}
	// --- ~& and ~% after text / after a newline / at the start
	for _, pc := range []string{"", "0", "1", "2", "3"} {
		pn := "n" + pc
		if pc == "" {
			pn = "none"
		}
		add(cellKey("&", "", pn, "-")+" ctx=after-text", "abc~"+pc+"&x")
		add(cellKey("&", "", pn, "-")+" ctx=after-newline", "abc~%~"+pc+"&x")
		add(cellKey("&", "", pn, "-")+" ctx=after-literal-newline", "abc\n~"+pc+"&x")
		add(cellKey("&", "", pn, "-")+" ctx=at-start", "~"+pc+"&x")
		add(cellKey("&", "", pn, "-")+" ctx=after-directive-output", "~a~"+pc+"&x", aStr("line\n"))
		add(cellKey("%", "", pn, "-")+" ctx=after-text", "abc~"+pc+"%x")
	}
	// --- ~newline in context
	for _, m := range []string{"", ":", "@"} {
		add(cellKey("newline", m, "none", "-")+" ctx=between-text", "ab~"+m+"\n   cd")
		add(cellKey("newline", m, "none", "-")+" ctx=at-end", "ab~"+m+"\n  ")
		add(cellKey("newline", m, "none", "-")+" ctx=before-directive", "ab~"+m+"\n  ~a|", aInt(5))
		add(cellKey("newline", m, "none", "-")+" ctx=in-conditional", "<~[x~"+m+"\n  y~;z~]>", aInt(0))
		add(cellKey("newline", m, "none", "-")+" ctx=in-iteration", "<~{~a~"+m+"\n  ,~}>", aList(aInt(1), aInt(2)))
		add(cellKey("newline", m, "none", "-")+" ctx=then-freshline", "ab~"+m+"\n  ~&x")
		add(cellKey("newline", m, "none", "-")+" ctx=then-tab", "ab~"+m+"\n  ~6t|")
	}
	// --- ~T (slip documents: colinc is the column width, colnum counts columns)
	for _, m := range []string{"", "@"} {
		for _, pc := range []struct{ name, text string }{{"none", ""}, {"colnum0", "0"}, {"colnum1", "1"}, {"colnum", "6"}, {"colinc-only", ",4"}, {"colnum,colinc", "2,4"},
			{"colnum,colinc1", "5,1"}, {"colnum0,colinc", "0,3"}, {"colnum,colinc-wide", "3,8"}} {
			for _, cx := range []struct{ name, pre string }{{"col0", ""}, {"col3", "abc"}, {"col8", "abcdefgh"}, {"col13", "abcdefghijklm"}, {"after-newline", "abcdefg~%xy"}, {"after-literal-newline", "abcdefg\nxy"}} {
				add(cellKey("t", m, pc.name, "-")+" ctx="+cx.name, cx.pre+"~"+pc.text+m+"t|")
			}
		}
		add(cellKey("t", m, "colinc0", "-")+" ctx=col3", "abc~5,0"+m+"t|")
		add(cellKey("t", m, "colinc0", "-")+" ctx=col8", "abcdefgh~5,0"+m+"t|")
		add(cellKey("t", m, "v", "-")+" ctx=col3", "abc~v,v"+m+"t|", aInt(2), aInt(4))
	}
	// --- ~* family
	for _, pc := range []struct{ name, text string; n int }{{"none", "", 1}, {"n0", "0", 0}, {"n1", "1", 1}, {"n2", "2", 2}} {
		add(cellKey("*", "", pc.name, "-")+" ctx=skip", "~a~"+pc.text+"*~a", ints(1, 2, 3, 4)...)
		add(cellKey("*", "", pc.name, "-")+" ctx=skip-to-end", "~a~"+pc.text+"*|", ints(1, 2, 3)[:1+pc.n]...)
		add(cellKey("*", ":", pc.name, "-")+" ctx=back", "~a~a~a~"+pc.text+":*~a", ints(1, 2, 3, 4)...)
		add(cellKey("*", ":", pc.name, "-")+" ctx=back-to-start", "~a~a~"+pc.text+":*~a~a", ints(1, 2, 3)...)
		add(cellKey("*", "@", pc.name, "-")+" ctx=goto", "~a~a~a~"+pc.text+"@*~a", ints(1, 2, 3, 4)...)
	}
	add(cellKey("*", "", "v", "-")+" ctx=skip", "~a~v*~a", ints(1, 2, 3, 4, 5)...)
	add(cellKey("*", ":", "v", "-")+" ctx=back", "~a~a~v:*~a", ints(1, 2, 1, 4)...)
	add(cellKey("*", "@", "v", "-")+" ctx=goto", "~a~a~v@*~a", ints(1, 2, 1, 4)...)
	add(cellKey("*", "@", "hash", "-")+" ctx=goto", "~a~#@*~a", ints(1, 2, 3, 4)...)
	add(cellKey("*", "", "n1", "-")+" ctx=skip-then-back", "~a~2*~2:*~a", ints(1, 2, 3, 4)...)
	add(cellKey("*", "@", "n0", "-")+" ctx=reprocess-all", "~a ~a~@* ~a ~a", ints(1, 2)...)
	// --- ~? and ~@?
	add(cellKey("?", "", "none", "literal-control"), "<~?>", aStr("abc"), aNil())
	add(cellKey("?", "", "none", "one-directive"), "<~?>~a", aStr("~a"), aList(aInt(1)), aInt(2))
	add(cellKey("?", "", "none", "two-directives"), "<~?>~a", aStr("~a-~d"), aList(aInt(1), aInt(2)), aInt(3))
	add(cellKey("?", "", "none", "unused-sub-args"), "<~?>~a", aStr("~a"), aList(aInt(1), aInt(2), aInt(3)), aInt(4))
	add(cellKey("?", "", "none", "nested-recursive"), "<~?>", aStr("[~?]"), aList(aStr("~a~a"), aList(aInt(7), aInt(8))))
	add(cellKey("?", "", "none", "block-in-control"), "<~?>", aStr("~{~a,~}"), aList(aList(aInt(1), aInt(2))))
	add(cellKey("?", "@", "none", "one-directive"), "<~@?>~a", aStr("~a"), aInt(1), aInt(2))
	add(cellKey("?", "@", "none", "two-directives"), "<~@?>~a", aStr("~a-~d"), aInt(1), aInt(2), aInt(3))
	add(cellKey("?", "@", "none", "literal-control"), "<~@?>~a", aStr("abc"), aInt(1))
	add(cellKey("?", "@", "none", "cursor-move-in-control"), "<~@?>~a", aStr("~a~:*~a"), aInt(1), aInt(2))
	// --- ~( ~)
	for _, m := range c15Mods {
		for _, tc := range []struct{ name, text string }{{"lower", "hello world"}, {"upper", "HELLO WORLD"}, {"mixed", "hELLO wORLD fOO"}, {"hyphen", "foo-bar BAZ qux"},
			{"one-word", "wORD"}, {"empty", ""}, {"punctuation", "what? yes! (ok)"}, {"leading-space", "  two WORDS"}, {"leading-digit-word", "123 hello THERE"},
			{"digit-in-word", "the 3rd x2y"}, {"apostrophe", "it's a dog's"}, {"trailing-space", "end HERE  "}} {
			add(cellKey("(", m, "none", "text-"+tc.name), "<~"+m+"("+tc.text+"~)>")
			add(cellKey("(", m, "none", "text-"+tc.name), "<~"+m+"(~a~)>", aStr(tc.text))
		}
		add(cellKey("(", m, "none", "two-directives"), "<~"+m+"(~a AND ~s~)>", aStr("One"), aSym("two"))
		add(cellKey("(", m, "none", "english-number"), "~"+m+"(~r~)", aInt(1234))
		add(cellKey("(", m, "none", "roman-number"), "~"+m+"(~@r~)", aInt(1999))
		add(cellKey("(", m, "none", "nested-inner-wins-then-outer"), "~"+m+"(aB ~:@(cd~) Ef~)")
		add(cellKey("(", m, "none", "nested-adjacent"), "~"+m+"(~:(ab cd~)~)")
		add(cellKey("(", m, "none", "percent-inside"), "~"+m+"(aB~%cD~)")
	}
	// --- ~[ ~; ~]
	three := "zero~;one~;two"
	for _, sel := range []struct{ name string; v fArg }{{"in-range-0", aInt(0)}, {"in-range-1", aInt(1)}, {"in-range-last", aInt(2)}, {"past-end", aInt(3)}, {"far-past-end", aInt(1000)},
		{"negative", aInt(-1)}, {"big+", aBig(pow2(64))}, {"big-", aBig(new(big.Int).Neg(pow2(64)))}} {
		add(cellKey("[", "", "none", sel.name), "<~["+three+"~]>", sel.v)
		add(cellKey("[", "", "none", sel.name)+" ctx=default-clause", "<~["+three+"~:;other~]>", sel.v)
		add(cellKey("[", "", "none", sel.name)+" ctx=then-argument", "<~["+three+"~]~a>", sel.v, aInt(9))
	}
	for _, n := range []string{"0", "1", "2", "3", "7"} {
		add(cellKey("[", "", "n"+n, "-"), "<~"+n+"["+three+"~]~a>", aInt(9))
		add(cellKey("[", "", "n"+n, "-")+" ctx=default-clause", "<~"+n+"["+three+"~:;other~]~a>", aInt(9))
	}
	add(cellKey("[", "", "v", "-"), "<~v["+three+"~]~a>", aInt(1), aInt(9))
	add(cellKey("[", "", "v-nil", "-"), "<~v["+three+"~]~a>", aNil(), aInt(2), aInt(9))
	for k := 0; k <= 3; k++ {
		add(cellKey("[", "", "hash", fmt.Sprintf("remaining%d", k)), "<~#[none~;one~;two~:;many~]>", dummyArgs(k)...)
	}
	add(cellKey("[", "", "none", "clause-with-directive"), "<~[~a~;x~a~;~d!~]>~a", aInt(2), aInt(5), aInt(6))
	add(cellKey("[", "", "none", "clause-with-directive"), "<~[~a~;x~a~;~d!~]>~a", aInt(0), aInt(5), aInt(6))
	add(cellKey("[", "", "none", "clause-with-directive"), "<~[~a~;x~a~;~d!~]>~a", aInt(1), aInt(5), aInt(6))
	add(cellKey("[", "", "none", "directive-first-in-later-clause"), "<~[a~;~a~]>", aInt(1), aInt(5))
	add(cellKey("[", "", "none", "empty-last-clause"), "<~[a~;~]>", aInt(0))
	add(cellKey("[", "", "none", "empty-last-clause"), "<~[a~;~]>", aInt(1))
	add(cellKey("[", "", "none", "empty-middle-clause"), "<~[a~;~;c~]>", aInt(1))
	add(cellKey("[", "", "none", "empty-middle-clause"), "<~[a~;~;c~]>", aInt(2))
	add(cellKey("[", "", "none", "empty-first-clause"), "<~[~;b~]>", aInt(0))
	add(cellKey("[", "", "none", "single-empty-clause"), "<~[~]>", aInt(0))
	add(cellKey("[", "", "none", "nested-inside-text"), "<~[a~;b~[x~;y~]c~;d~]>", aInt(1), aInt(1))
	add(cellKey("[", "", "none", "nested-first-in-clause"), "<~[~[x~;y~]~;b~]>", aInt(0), aInt(1))
	add(cellKey("[", "", "none", "nested-last-in-clause"), "<~[a~[x~;y~]~;b~]>", aInt(0), aInt(1))
	add(cellKey("[", "", "none", "nested-after-separator"), "<~[a~;~[x~;y~]~]>", aInt(1), aInt(0))
	add(cellKey("[", "", "none", "nested-with-parameter"), "<~[a~;b~1[x~;y~]c~]>", aInt(1))
	add(cellKey("[", "", "none", "nested-colon-form"), "<~[a~;b~:[x~;y~]c~]>", aInt(1), aSym("t"))
	add(cellKey("[", "", "none", "string-selector"), "<~[a~;b~]>", aStr("x"))
	for _, v := range []struct{ name string; v fArg }{{"nil", aNil()}, {"t", aSym("t")}, {"int0", aInt(0)}, {"string", aStr("")}, {"list", aList(aInt(1))}} {
		add(cellKey("[", ":", "none", v.name), "<~:[false~;true~]>~a", v.v, aInt(9))
		add(cellKey("[", "@", "none", v.name), "<~@[got ~a~]>~a", v.v, aInt(9))
	}
	add(cellKey("[", ":", "none", "clause-with-directive"), "<~:[no ~a~;yes ~a~]>", aNil(), aInt(5))
	add(cellKey("[", ":", "none", "clause-with-directive"), "<~:[no ~a~;yes ~a~]>", aSym("t"), aInt(5))
	add(cellKey("[", ":", "none", "directive-first-in-second-clause"), "<~:[no~;~a~]>", aSym("t"), aInt(5))
	add(cellKey("[", ":", "none", "nested-after-separator"), "<~:[a~;~:[b~;c~]~]>", aInt(1), aNil())
	add(cellKey("[", ":", "none", "nested-inside-text"), "<~:[a~;x~:[b~;c~]y~]>", aInt(1), aNil())
	add(cellKey("[", "@", "none", "not-consumed-then-reused"), "<~@[~a and ~a~]>", aInt(1), aInt(2))
	// --- ~{ ~}
	lists := []fArg{aNil(), aList(aInt(1)), aList(aInt(1), aInt(2)), aList(aInt(1), aInt(2), aInt(3)), aList(aInt(1), aInt(2), aInt(3), aInt(4))}
	for li, l := range lists {
		for _, mx := range []string{"", "0", "1", "2", "5"} {
			pn := "max" + mx
			if mx == "" {
				pn = "none"
			}
			ac := fmt.Sprintf("list%d", li)
			add(cellKey("{", "", pn, ac), "<~"+mx+"{~a,~}>~a", l, aInt(9))
			if li == 0 {
				add(cellKey("{", "", pn, ac)+" ctx=at-least-once", "<~"+mx+"{x~:}>~a", l, aInt(9))
			} else {
				add(cellKey("{", "", pn, ac)+" ctx=at-least-once", "<~"+mx+"{~a,~:}>~a", l, aInt(9))
			}
			add(cellKey("{", "@", pn, ac), "<~"+mx+"@{~a,~}>", l.List...)
			if li%2 == 0 {
				add(cellKey("{", "", pn, ac)+" ctx=pairs", "<~"+mx+"{~a=~a;~}>~a", l, aInt(9))
			}
			// lists of lists
			var subs []fArg
			for k := 0; k < li; k++ {
				subs = append(subs, aList(aInt(int64(10+k)), aInt(int64(20+k))))
			}
			add(cellKey("{", ":", pn, ac), "<~"+mx+":{[~a ~a]~}>~a", aList(subs...), aInt(9))
			add(cellKey("{", ":", pn, ac)+" ctx=unused-sublist-rest", "<~"+mx+":{[~a]~}>~a", aList(subs...), aInt(9))
			add(cellKey("{", ":@", pn, ac), "<~"+mx+":@{[~a ~a]~}>", subs...)
		}
	}
	add(cellKey("{", "@", "max2", "list4")+" ctx=then-argument", "<~2@{~a,~}>~a", aInt(1), aInt(2), aInt(3), aInt(4))
	add(cellKey("{", ":@", "max1", "list2")+" ctx=then-argument", "<~1:@{[~a]~}>~s", aList(aInt(1)), aList(aInt(2)))
	add(cellKey("{", "", "v", "list3"), "<~v{~a,~}>", aInt(2), lists[3])
	add(cellKey("{", "", "hash", "list3"), "<~#{~a,~}>", lists[3], aInt(0))
	add(cellKey("{", ":", "none", "list0")+" ctx=at-least-once", "<~:{x~:}>", aNil())
	add(cellKey("{", "@", "none", "list0")+" ctx=at-least-once", "<~@{x~:}>")
	add(cellKey("{", "", "none", "symbols"), "names:~{ ~a~}", aList(aSym("ann"), aSym("bob"), aSym("candy")))
	add(cellKey("{", "", "none", "nested-adjacent"), "<~{~{~a~}~}>", aList(aList(aInt(1), aInt(2)), aList(aInt(3))))
	add(cellKey("{", "", "none", "nested-inside-text"), "<~{(~{~a~})~}>", aList(aList(aInt(1), aInt(2)), aList(aInt(3))))
	add(cellKey("{", "", "none", "nested-with-parameter"), "<~{~a:~2{~a~} ~}>", aList(aInt(1), aList(aInt(2), aInt(3), aInt(4))))
	add(cellKey("{", "", "none", "nested-colon-form"), "<~{~a:~:{~a~} ~}>", aList(aInt(1), aList(aList(aInt(2)), aList(aInt(3)))))
	add(cellKey("{", "", "none", "parameterised-tilde-before-close"), "<~{~a~2~~}>", aList(aInt(1), aInt(2)))
	add(cellKey("[", "", "none", "parameterised-tilde-before-close"), "<~[a~;b~2~~]>", aInt(1))
	add(cellKey("(", "", "none", "parameterised-tilde-before-close"), "<~(aB~2~~)>")
	add(cellKey("{", "", "none", "parameterised-directive-before-close"), "<~{~5d~}>", aList(aInt(1), aInt(2)))
	add(cellKey("[", "", "none", "literal-bracket-after-separator"), "<~[a~;]~;[~]>", aInt(1))
	add(cellKey("[", "", "none", "literal-bracket-after-separator"), "<~[a~;]~;[~]>", aInt(2))
	add(cellKey("[", ":", "none", "modifier-characters-after-separator"), "<~:[#~;@:~]>", aNil())
	add(cellKey("[", ":", "none", "modifier-characters-after-separator"), "<~:[#~;@:~]>", aInt(1))
	add(cellKey("{", "", "none", "body-with-conditional"), "<~{~[a~;b~]~}>", aList(aInt(0), aInt(1), aInt(0)))
	add(cellKey("{", "", "none", "body-with-case"), "<~{~:(~a~) ~}>", aList(aStr("ab"), aStr("cD")))
	add(cellKey("(", "", "none", "iteration-inside"), "<~(~{~a ~}~)>", aList(aStr("AB"), aStr("cD")))
	add(cellKey("[", "", "none", "iteration-inside"), "<~[~{~a~}~;b~]>", aInt(0), aList(aInt(1), aInt(2)))
	add(cellKey("{", "", "none", "not-a-list"), "<~{~a~}>", aInt(5))
	add(cellKey("{", "", "none", "literal-brace-after-close"), "<~{~a~}}>", aList(aInt(1), aInt(2)))
	add(cellKey("{", "", "none", "literal-brace-after-close"), "<~{~a~}}>", aNil())
	add(cellKey("{", "", "none", "literal-brace-after-close")+" ctx=at-least-once", "<~{~a~:}}>", aList(aInt(1), aInt(2)))
	// --- ~^
	for _, k := range []int{1, 2, 3} {
		l := lists[k]
		add(cellKey("^", "", "none", fmt.Sprintf("list%d", k))+" ctx={-separator", "<~{~a~^, ~}>", l)
		add(cellKey("^", "", "none", fmt.Sprintf("list%d", k))+" ctx={-last-in-body", "<~{~a~^~}>", l)
		add(cellKey("^", "", "none", fmt.Sprintf("list%d", k))+" ctx=@{-separator", "<~@{~a~^, ~}>", l.List...)
		add(cellKey("^", "", "none", fmt.Sprintf("list%d", k))+" ctx={-pairs", "<~{~a~^=~a;~}>", l)
		add(cellKey("^", "", "none", fmt.Sprintf("list%d", k))+" ctx={-first-in-body", "<~{~^~a,~}>", l)
	}
	add(cellKey("^", "", "none", "sublists")+" ctx=:{-separator", "<~:{~a~^,~a;~}>", aList(aList(aInt(1), aInt(2)), aList(aInt(3)), aList(aInt(4), aInt(5))))
	add(cellKey("^", "", "none", "sublists")+" ctx=:@{-separator", "<~:@{~a~^,~a;~}>", aList(aInt(1), aInt(2)), aList(aInt(3)), aList(aInt(4), aInt(5)))
	add(cellKey("^", "", "none", "remaining0")+" ctx=top-level-end", "~a~^")
	for k := 1; k <= 3; k++ {
		add(cellKey("^", "", "none", fmt.Sprintf("remaining%d", k-1))+" ctx=top-level-last", "<~a~^", ints(1, 2, 3)[:k]...)
		add(cellKey("^", "", "none", fmt.Sprintf("remaining%d", k-1))+" ctx=top-level-middle", "<~a~^ and ~a>", ints(1, 2, 3)[:k]...)
	}
	add(cellKey("^", "", "none", "remaining0")+" ctx=inside-conditional-in-{", "<~{~a~[x~^~;y~]z~}>", aList(aInt(1), aInt(0)))
	add(cellKey("^", "", "none", "remaining1")+" ctx=inside-conditional-in-{", "<~{~a~[x~^~;y~]z~}>", aList(aInt(1), aInt(0), aInt(2), aInt(1)))
	add(cellKey("^", "", "none", "remaining0")+" ctx=inside-case-in-{", "<~{~(~a~^ AND ~)~}>", aList(aStr("A"), aStr("B")))
	add(cellKey("^", "", "none", "remaining0")+" ctx=inside-?", "<~?|~a>", aStr("~a~^ more"), aList(aInt(1)), aInt(2))
	add(cellKey("^", "", "none", "remaining1")+" ctx=inside-?", "<~?|~a>", aStr("~a~^ more"), aList(aInt(1), aInt(3)), aInt(2))
	// --- column directives inside blocks (they must see the whole output so far)
	for _, b := range []struct{ name, open, close string; args []fArg }{{"(", "~(", "~)", nil}, {"[", "~[", "~]", []fArg{aInt(0)}}, {"{", "~{", "~}", []fArg{aList(aInt(1))}},
		{"@[", "~@[", "~]", []fArg{aInt(1)}}} {
		body := ""
		if b.name == "{" || b.name == "@[" {
			body = "~a"
		}
		add(cellKey("&", "", "none", "-")+" ctx=first-in-"+b.name+"-after-newline", "abc~%"+b.open+"~&"+body+"x"+b.close, b.args...)
		add(cellKey("&", "", "none", "-")+" ctx=first-in-"+b.name+"-after-text", "abc"+b.open+"~&"+body+"x"+b.close, b.args...)
		add(cellKey("&", "", "none", "-")+" ctx=first-in-"+b.name+"-at-start", b.open+"~&"+body+"x"+b.close, b.args...)
		add(cellKey("t", "", "colnum", "-")+" ctx=first-in-"+b.name+"-col3", "abc"+b.open+"~6t"+body+"x"+b.close, b.args...)
		add(cellKey("t", "", "colnum", "-")+" ctx=in-"+b.name+"-after-local-text", "abc"+b.open+"de~8t"+body+"x"+b.close, b.args...)
	}
	add(cellKey("&", "", "none", "-")+" ctx=first-in-?-after-newline", "abc~%~?", aStr("~&x"), aList(aInt(1)))
	add(cellKey("&", "", "none", "-")+" ctx=first-in-?-after-text", "abc~?", aStr("~&x"), aList(aInt(1)))
	add(cellKey("t", "", "colnum", "-")+" ctx=first-in-?-col3", "abc~?", aStr("~6tx"), aList(aInt(1)))
	add(cellKey("&", "", "none", "-")+" ctx=each-iteration", "<~{~&~a~}>", aList(aInt(1), aInt(2)))
	return out
}

// c15SweepCases: every piece alone, the context cells, the implementation-only relations.
func c15SweepCases(thorough bool) []fCase {
	var cases []fCase
	inst := map[string]int{}
	push := func(mode, cell, ctrl string, args []fArg, noErr bool) {
		cases = append(cases, fCase{Mode: mode, Ctrl: ctrl, Args: args, Cell: cell, Sweep: true, Inst: inst[cell], NoErrCheck: noErr})
		inst[cell]++
	}
	for _, p := range c15Pieces(thorough) {
		push("fmt", p.cell, p.ctrl, p.args, p.noErr)
	}
	for _, cc := range c15ContextCells() {
		push("fmt", cc.cell, cc.ctrl, cc.args, cc.noErr)
	}
	for _, cc := range c15CellsR3() {
		push("fmt", cc.cell, cc.ctrl, cc.args, cc.noErr)
	}
	for _, cc := range c15NestedCondCells() {
		push("fmt", cc.cell, cc.ctrl, cc.args, cc.noErr)
	}
	for _, cc := range c15CellsNoArg() {
		push("fmt", cc.cell, cc.ctrl, cc.args, cc.noErr)
	}
	for _, cc := range c15CellsChars() {
		push("fmt", cc.cell, cc.ctrl, cc.args, cc.noErr)
	}
	// ~R spelling against the independent Go oracle (the model reads the same tables as the code)
	for _, n := range c15EnglishValues(thorough) {
		if w, ok := c15OracleCardinal(n); ok {
			cases = append(cases, fCase{Mode: "oracle", Ctrl: "~r", Args: []fArg{aBig(n)}, Sweep: true, Expect: w,
				Cell: "rel=spelling " + c15EnglishCell(n, "")})
		}
		if w, ok := c15OracleOrdinal(n); ok {
			cases = append(cases, fCase{Mode: "oracle", Ctrl: "~:r", Args: []fArg{aBig(n)}, Sweep: true, Expect: w,
				Cell: "rel=spelling " + c15EnglishCell(n, ":")})
		}
	}
	for n := 1; n <= 3999; n++ {
		cases = append(cases, fCase{Mode: "oracle", Ctrl: "~@r", Args: []fArg{aInt(int64(n))}, Sweep: true, Expect: c15OracleRoman(n, false),
			Cell: "rel=spelling " + cellKey("r", "@", "none", fmt.Sprintf("roman-%dxxx", n/1000))})
		cases = append(cases, fCase{Mode: "oracle", Ctrl: "~:@r", Args: []fArg{aInt(int64(n))}, Sweep: true, Expect: c15OracleRoman(n, true),
			Cell: "rel=spelling " + cellKey("r", ":@", "none", fmt.Sprintf("roman-%dxxx", n/1000))})
	}
	for i := range cases {
		if cases[i].Mode == "oracle" {
			cases[i].Inst = inst[cases[i].Cell]
			inst[cases[i].Cell]++
		}
	}
	// ~A = princ, ~S = prin1 (implementation only; wider values than the model's printer covers)
	vals := []struct{ class string; v fArg }{
		{"fix", aInt(42)}, {"fix", aInt(-7)}, {"big", aBig(pow2(70))}, {"string", aStr("abc")}, {"string", aStr("")}, {"string-quote", aStr(`a"b\c`)},
		{"string-newline", aStr("two\nlines")}, {"symbol", aSym("foo")}, {"keyword", aSym(":key")}, {"char", aChr('b')}, {"char-named", aChr(' ')},
		{"nil", aNil()}, {"list", aList(aInt(1), aSym("a"), aNil())}, {"list-with-string", aList(aInt(1), aStr("a"), aChr('b'))},
		{"list-nested", aList(aList(aInt(1)), aList(aList(aSym("x"))))},
		{"t", aRaw("t")}, {"ratio", aRaw("3/4")}, {"double", aRaw("1.5")}, {"double", aRaw("-2.5d10")}, {"single", aRaw("2.5s0")},
		{"vector", aRaw("(vector 1 2 3)")}, {"dotted", aRaw("'(a . b)")}, {"quoted-empty-list", aRaw("'()")}, {"octet", aRaw("(coerce 96 'octet)")},
		{"uninterned-case-symbol", aRaw("'CamelCase")}, {"function", aRaw("#'car")},
	}
	for _, d := range []string{"~a", "~s", "~A", "~S"} {
		for _, v := range vals {
			push("princ", fmt.Sprintf("rel=print-function dir=%s arg=%s", strings.ToLower(d[1:]), v.class), d, []fArg{v.v}, false)
		}
	}
	// destinations: nil / string streams / t
	dests := []struct{ name, ctrl string; args []fArg }{
		{"literal", "plain text", nil},
		{"a-d", "~a-~d", []fArg{aStr("x"), aInt(5)}},
		{"newlines", "a~%b~2%", nil},
		{"fresh-line-start", "~&x", nil},
		{"fresh-line", "ab~&x~&", nil},
		{"tab", "ab~8tx", nil},
		{"iteration", "~{~a,~}", []fArg{aList(aInt(1), aInt(2))}},
		{"conditional", "~[a~;b~]~:[c~;d~]", []fArg{aInt(1), aNil()}},
		{"case", "~:(~a~)", []fArg{aStr("hello world")}},
		{"english", "~r ~:r ~@r", []fArg{aInt(42), aInt(3), aInt(14)}},
		{"radix", "~:d ~x ~8,'0b", []fArg{aInt(1234567), aInt(255), aInt(5)}},
		{"error-missing-arg", "~a~a", []fArg{aInt(1)}},
		{"empty", "", nil},
	}
	for _, d := range dests {
		push("dest", "rel=destination ctrl="+d.name, d.ctrl, d.args, false)
	}
	return cases
}
