package main

// C11 — flavor inheritance and daemon order follow component order, whatever the history.
//
// Correspondence: a case is a history of defflavor / defmethod / defwhopper forms with
// observations in between and at the end. The same token list is (a) evaluated form by form
// by the real slip in-process and (b) sent to the Lean model (SlipVerif.Model.Flavors, entry
// `flav run`). Observations: the daemon trace and value of (send inst msg) through
// Instance.Receive and through the second entry point Instance.BoundReceive, the inherited
// instance variable defaults / init keywords, the precedence list.
//
// Numbering shared with the model: flavor 0 = vanilla-flavor; messages 1,2 = :m1 :m2 (user),
// 3,4 = :id :init (vanilla-flavor methods), 100+s / 200+s = the getter :v<s> / setter :set-v<s>
// of variable slot s; slots 1..3 = instance variables v1..v3, 11,12 = init keywords :k11 :k12;
// method ids 1..999 = user method bodies (they push their name on *c11-tr*), 0 = a vanilla-flavor
// built-in, 1000+s / 2000+s = the generated getter / setter of slot s.
//
// Extension round: method ids 500..999 are evaluated in ANOTHER package (c11other, which does not
// see the flavors of the case); slot 20 is the :default-handler (observed by sending a message
// nobody handles); W tokens are whoppers whose body makes one (continue-whopper (+ arg d)) per
// listed d (none, one or two), A observations send with an argument and compare the argument
// every daemon was called with. An F token may carry :included-flavors (5th field; the model
// appends them to the components); slots 31..33 say "variable v1..v3 is listed in this flavor's
// :initable-instance-variables" (sweep cells of the known finding only).

import (
	"fmt"
	"regexp"
	"sort"
	"strconv"
	"strings"

	"github.com/ohler55/slip"
	"github.com/ohler55/slip/pkg/flavors"
	"verif/harness/lib"
)

func init() { props["C11"] = runC11 }

// ---------------------------------------------------------------------------------------------
// tokens

type c11Slot struct {
	S   int
	Has bool
	V   int
}

type c11Tok struct {
	K     byte // F M S V P
	Fl    int
	Comps []int
	Slots []c11Slot
	Kind  byte // p b a w
	Msg   int
	ID    int
	Slot  int
	Incl  []int // F: :included-flavors
	Ds    []int // W: the argument change of every (continue-whopper) call of the body
	Arg   int   // A: the argument of the send
}

func (t c11Tok) wire() string {
	switch t.K {
	case 'F':
		cs := make([]string, len(t.Comps))
		for i, c := range t.Comps {
			cs[i] = strconv.Itoa(c)
		}
		ss := make([]string, len(t.Slots))
		for i, s := range t.Slots {
			if s.Has {
				ss[i] = fmt.Sprintf("%d=%d", s.S, s.V)
			} else {
				ss[i] = fmt.Sprintf("%d=-", s.S)
			}
		}
		if len(t.Incl) > 0 {
			is := make([]string, len(t.Incl))
			for i, c := range t.Incl {
				is[i] = strconv.Itoa(c)
			}
			return fmt.Sprintf("F:%d:%s:%s:%s", t.Fl, strings.Join(cs, ","), strings.Join(ss, ";"), strings.Join(is, ","))
		}
		return fmt.Sprintf("F:%d:%s:%s", t.Fl, strings.Join(cs, ","), strings.Join(ss, ";"))
	case 'M':
		return fmt.Sprintf("M:%d:%c:%d:%d", t.Fl, t.Kind, t.Msg, t.ID)
	case 'W':
		ds := make([]string, len(t.Ds))
		for i, d := range t.Ds {
			ds[i] = strconv.Itoa(d)
		}
		return fmt.Sprintf("W:%d:%d:%d:%s", t.Fl, t.Msg, t.ID, strings.Join(ds, ","))
	case 'A':
		return fmt.Sprintf("A:%d:%d:%d", t.Fl, t.Msg, t.Arg)
	case 'S':
		return fmt.Sprintf("S:%d:%d", t.Fl, t.Msg)
	case 'V':
		return fmt.Sprintf("V:%d:%d", t.Fl, t.Slot)
	default:
		return fmt.Sprintf("P:%d", t.Fl)
	}
}

func c11ParseTok(s string) (t c11Tok, ok bool) {
	p := strings.Split(s, ":")
	atoi := func(x string) int {
		n, err := strconv.Atoi(x)
		if err != nil {
			ok = false
		}
		return n
	}
	ok = true
	switch {
	case p[0] == "F" && (len(p) == 4 || len(p) == 5):
		t.K = 'F'
		t.Fl = atoi(p[1])
		if len(p) == 5 && p[4] != "" {
			for _, c := range strings.Split(p[4], ",") {
				t.Incl = append(t.Incl, atoi(c))
			}
		}
		if p[2] != "" {
			for _, c := range strings.Split(p[2], ",") {
				t.Comps = append(t.Comps, atoi(c))
			}
		}
		if p[3] != "" {
			for _, kv := range strings.Split(p[3], ";") {
				k, v, _ := strings.Cut(kv, "=")
				sl := c11Slot{S: atoi(k)}
				if v != "-" {
					sl.Has, sl.V = true, atoi(v)
				}
				t.Slots = append(t.Slots, sl)
			}
		}
	case p[0] == "M" && len(p) == 5 && len(p[2]) == 1:
		t.K, t.Fl, t.Kind, t.Msg, t.ID = 'M', atoi(p[1]), p[2][0], atoi(p[3]), atoi(p[4])
	case p[0] == "W" && len(p) == 5:
		t.K, t.Fl, t.Kind, t.Msg, t.ID = 'W', atoi(p[1]), 'w', atoi(p[2]), atoi(p[3])
		if p[4] != "" {
			for _, d := range strings.Split(p[4], ",") {
				t.Ds = append(t.Ds, atoi(d))
			}
		}
	case p[0] == "A" && len(p) == 4:
		t.K, t.Fl, t.Msg, t.Arg = 'A', atoi(p[1]), atoi(p[2]), atoi(p[3])
	case p[0] == "S" && len(p) == 3:
		t.K, t.Fl, t.Msg = 'S', atoi(p[1]), atoi(p[2])
	case p[0] == "V" && len(p) == 3:
		t.K, t.Fl, t.Slot = 'V', atoi(p[1]), atoi(p[2])
	case p[0] == "P" && len(p) == 2:
		t.K, t.Fl = 'P', atoi(p[1])
	default:
		ok = false
	}
	return
}

const c11VM = "vm=3,4"

func c11Request(toks []c11Tok) string {
	parts := []string{"flav", "run", c11VM}
	for _, t := range toks {
		parts = append(parts, t.wire())
	}
	return strings.Join(parts, " ")
}

func c11MsgName(m int) string {
	switch {
	case m == 3:
		return ":id"
	case m == 4:
		return ":init"
	case m >= 200:
		return fmt.Sprintf(":set-v%d", m-200)
	case m >= 100:
		return fmt.Sprintf(":v%d", m-100)
	}
	return fmt.Sprintf(":m%d", m)
}

func c11SlotName(s int) string {
	if s == c11HandlerSlot {
		return ":default-handler"
	}
	if s > c11InitableBase {
		return fmt.Sprintf(":v%d", s-c11InitableBase)
	}
	if s >= 10 {
		return fmt.Sprintf(":k%d", s)
	}
	return fmt.Sprintf("v%d", s)
}

const c11HandlerSlot = 20

// slot c11InitableBase+k: variable v<k> is listed in :initable-instance-variables
const c11InitableBase = 30

// method ids evaluated in the other package
func c11OtherPkg(id int) bool { return id >= 500 && id < 1000 }

func c11KindName(k byte) string {
	switch k {
	case 'p':
		return "primary"
	case 'b':
		return "before"
	case 'a':
		return "after"
	}
	return "whopper"
}

// ---------------------------------------------------------------------------------------------
// the implementation side

var c11CaseNo int
var c11TraceReady bool

type c11Impl struct {
	scope  *slip.Scope
	caseNo int
	names  map[int]string // flavor id -> lisp name, for flavors defined in this case
	ids    map[string]int
	text   []string // the forms evaluated (for the replay file)
	home   string   // name of the package the case runs in
}

func (r *c11Impl) name(fl int) string {
	if fl == 0 {
		return "vanilla-flavor"
	}
	return fmt.Sprintf("c11f%dx%d", r.caseNo, fl)
}

func (r *c11Impl) eval(src string) lib.Outcome { return lib.EvalString(r.scope, src) }

// form text of the token at index i (an F token swallows the accessor M tokens that follow it)
func (r *c11Impl) formText(toks []c11Tok, i int) (src string, used int) {
	t := toks[i]
	used = 1
	if t.K == 'M' || t.K == 'W' {
		nm := r.name(t.Fl)
		if c11OtherPkg(t.ID) && t.Kind != 'w' {
			// defmethod finds the flavor as a class of a package, defwhopper by its bare name
			nm = r.home + ":" + nm
		}
		// every body records its name and the argument it was called with
		note := func(ev string) string {
			return fmt.Sprintf("(setq *c11-tr* (cons '%s *c11-tr*)) (setq *c11-ar* (cons (car args) *c11-ar*))", ev)
		}
		if t.K == 'W' {
			var calls []string
			for _, d := range t.Ds {
				calls = append(calls, fmt.Sprintf("(setq r (continue-whopper (+ (or (car args) 0) %d)))", d))
			}
			return fmt.Sprintf("(defwhopper (%s %s) (&rest args) %s (let ((r 'w%d)) %s %s r))",
				nm, c11MsgName(t.Msg), note(fmt.Sprintf("wi%d", t.ID)), t.ID, strings.Join(calls, " "), note(fmt.Sprintf("wo%d", t.ID))), 1
		}
		if t.Kind == 'w' {
			return fmt.Sprintf("(defwhopper (%s %s) (&rest args) %s (let ((r (continue-whopper (car args)))) %s r))",
				nm, c11MsgName(t.Msg), note(fmt.Sprintf("wi%d", t.ID)), note(fmt.Sprintf("wo%d", t.ID))), 1
		}
		q := ""
		if t.Kind == 'b' {
			q = ":before "
		} else if t.Kind == 'a' {
			q = ":after "
		}
		return fmt.Sprintf("(defmethod (%s %s%s) (&rest args) %s '%c%d)",
			nm, q, c11MsgName(t.Msg), note(fmt.Sprintf("%c%d", t.Kind, t.ID)), t.Kind, t.ID), 1
	}
	var vars, gets, sets, kws, plist []string
	handler := ""
	var initable []string
	for _, s := range t.Slots {
		switch {
		case s.S > c11InitableBase:
			initable = append(initable, fmt.Sprintf("v%d", s.S-c11InitableBase))
		case s.S == c11HandlerSlot:
			handler = fmt.Sprintf(" (:default-handler (lambda (&rest args) 'h%d))", s.V)
		case s.S >= 10 && s.Has:
			plist = append(plist, fmt.Sprintf("(%s %d)", c11SlotName(s.S), s.V))
		case s.S >= 10:
			kws = append(kws, c11SlotName(s.S))
		case s.Has:
			vars = append(vars, fmt.Sprintf("(%s %d)", c11SlotName(s.S), s.V))
		default:
			vars = append(vars, c11SlotName(s.S))
		}
	}
	for j := i + 1; j < len(toks) && toks[j].K == 'M' && toks[j].Fl == t.Fl && toks[j].ID >= 1000; j++ {
		if toks[j].ID >= 2000 {
			sets = append(sets, c11SlotName(toks[j].ID-2000))
		} else {
			gets = append(gets, c11SlotName(toks[j].ID-1000))
		}
		used++
	}
	var comps []string
	for _, c := range t.Comps {
		comps = append(comps, r.name(c))
	}
	src = fmt.Sprintf("(defflavor %s (%s) (%s)", r.name(t.Fl), strings.Join(vars, " "), strings.Join(comps, " "))
	if len(gets) > 0 {
		src += " (:gettable-instance-variables " + strings.Join(gets, " ") + ")"
	}
	if len(sets) > 0 {
		src += " (:settable-instance-variables " + strings.Join(sets, " ") + ")"
	}
	if len(kws) > 0 {
		src += " (:init-keywords " + strings.Join(kws, " ") + ")"
	}
	if len(plist) > 0 {
		src += " (:default-init-plist " + strings.Join(plist, " ") + ")"
	}
	if len(initable) > 0 {
		src += " (:initable-instance-variables " + strings.Join(initable, " ") + ")"
	}
	if len(t.Incl) > 0 {
		var is []string
		for _, c := range t.Incl {
			is = append(is, r.name(c))
		}
		src += " (:included-flavors " + strings.Join(is, " ") + ")"
	}
	return src + handler + ")", used
}

var c11ResultRe = regexp.MustCompile(`^p[0-9]+$`)

// observed canonical result of a send
func c11ShowResult(msg int, o slip.Object) string {
	txt := slip.ObjectString(o)
	if c11ResultRe.MatchString(txt) {
		return txt
	}
	if _, ok := o.(slip.Fixnum); ok && msg == 3 {
		return "int"
	}
	return txt
}

func (r *c11Impl) trace() string {
	o := r.eval("(reverse *c11-tr*)")
	if !o.Ok {
		return "?trace:" + o.Class
	}
	list, _ := o.Value.(slip.List)
	ev := make([]string, len(list))
	for i, x := range list {
		ev[i] = slip.ObjectString(x)
	}
	return strings.Join(ev, ",")
}

// the trace with the argument every body was called with: name@arg
func (r *c11Impl) traceArgs() string {
	o := r.eval("(list (reverse *c11-tr*) (reverse *c11-ar*))")
	if !o.Ok {
		return "?trace:" + o.Class
	}
	both, _ := o.Value.(slip.List)
	if len(both) != 2 {
		return "?trace"
	}
	names, _ := both[0].(slip.List)
	args, _ := both[1].(slip.List)
	if len(names) != len(args) {
		return "?trace-length"
	}
	ev := make([]string, len(names))
	for i, x := range names {
		ev[i] = slip.ObjectString(x) + "@" + slip.ObjectString(args[i])
	}
	return strings.Join(ev, ",")
}

var c11HandledRe = regexp.MustCompile(`^h[0-9]+$`)

func (r *c11Impl) instance(fl int) (*flavors.Instance, string) {
	if _, ok := r.names[fl]; !ok {
		return nil, "undefined-flavor"
	}
	o := r.eval(fmt.Sprintf("(make-instance '%s)", r.name(fl)))
	if !o.Ok {
		return nil, o.Class
	}
	inst, _ := o.Value.(*flavors.Instance)
	if inst == nil {
		return nil, "not-an-instance"
	}
	return inst, ""
}

// send with an argument: (send inst msg arg); events carry the argument they saw
func (r *c11Impl) sendArg(fl, msg, arg int) string {
	inst, bad := r.instance(fl)
	if inst == nil {
		return "A=!" + bad
	}
	r.scope.Let(slip.Symbol("c11inst"), inst)
	r.eval("(setq *c11-tr* nil *c11-ar* nil)")
	o := r.eval(fmt.Sprintf("(send c11inst %s %d)", c11MsgName(msg), arg))
	if !o.Ok {
		if o.Class == "invalid-method-error" {
			return "A=!no-method"
		}
		return "A=!" + o.Class
	}
	tr := r.traceArgs()
	if tr == "" && c11HandledRe.MatchString(o.Text) {
		return "A=!handled:" + o.Text[1:]
	}
	return "A=" + tr + "/r" + c11ShowResult(msg, o.Value)
}

// send through Instance.Receive (the send function) or through Instance.BoundReceive
func (r *c11Impl) send(fl, msg int, bound bool) string {
	inst, bad := r.instance(fl)
	if inst == nil {
		return "S=!" + bad
	}
	r.scope.Let(slip.Symbol("c11inst"), inst)
	r.eval("(setq *c11-tr* nil *c11-ar* nil)")
	var o lib.Outcome
	if bound {
		// the bodies look at their &rest parameter: bound to the empty list here
		bindings := slip.NewScope()
		bindings.Let(slip.Symbol("args"), nil)
		o = lib.Protect(func() slip.Object { return inst.BoundReceive(r.scope, c11MsgName(msg), bindings, 0) })
	} else {
		arg := ""
		if msg >= 200 {
			arg = " 77"
		}
		o = r.eval(fmt.Sprintf("(send c11inst %s%s)", c11MsgName(msg), arg))
	}
	if !o.Ok {
		if o.Class == "invalid-method-error" {
			return "S=!no-method"
		}
		return "S=!" + o.Class
	}
	tr := r.trace()
	if tr == "" && c11HandledRe.MatchString(o.Text) {
		return "S=!handled:" + o.Text[1:]
	}
	return "S=" + tr + "/r" + c11ShowResult(msg, o.Value)
}

func (r *c11Impl) slot(fl, s int) (seg string, extra string) {
	if _, ok := r.names[fl]; !ok {
		return "V=none", ""
	}
	show := func(v any, has bool) string {
		if !has {
			return "V=none"
		}
		if v == nil {
			return "V=nil"
		}
		return fmt.Sprintf("V=%v", v)
	}
	if s > c11InitableBase {
		// is the variable initable: make-instance with its keyword sets it (V=nil: it is)
		v := fmt.Sprintf("v%d", s-c11InitableBase)
		o := r.eval(fmt.Sprintf("(make-instance '%s :%s 4242)", r.name(fl), v))
		if !o.Ok {
			if o.Class == "error" {
				return "V=none", ""
			}
			return "V=!" + o.Class, ""
		}
		if inst, _ := o.Value.(*flavors.Instance); inst != nil {
			if got, has := inst.SlotValue(slip.Symbol(v)); has && slip.ObjectString(got) == "4242" {
				return "V=nil", ""
			}
		}
		return "V=?not-set", ""
	}
	if s == c11HandlerSlot {
		// the default handler shows when a message nobody handles is sent
		inst, bad := r.instance(fl)
		if inst == nil {
			return "V=!" + bad, ""
		}
		r.scope.Let(slip.Symbol("c11inst"), inst)
		o := r.eval("(send c11inst :c11-nobody-handles-this 1)")
		switch {
		case o.Ok && c11HandledRe.MatchString(o.Text):
			return "V=" + o.Text[1:], ""
		case !o.Ok && o.Class == "invalid-method-error":
			return "V=none", ""
		case o.Ok:
			return "V=?" + o.Text, ""
		}
		return "V=!" + o.Class, ""
	}
	if s < 10 {
		inst, bad := r.instance(fl)
		if inst == nil {
			return "V=!" + bad, ""
		}
		v, has := inst.SlotValue(slip.Symbol(c11SlotName(s)))
		if !has {
			return "V=none", ""
		}
		if v == nil {
			return "V=nil", ""
		}
		return "V=" + slip.ObjectString(v), ""
	}
	f := flavors.Find(r.name(fl))
	if f == nil {
		return "V=!not-found", ""
	}
	simple, _ := f.Simplify().(map[string]any)
	kws, _ := simple["keywords"].(map[string]any)
	v, has := kws[c11SlotName(s)]
	seg = show(v, has)
	// an init keyword the flavor has must be accepted by make-instance, any other rejected
	o := r.eval(fmt.Sprintf("(make-instance '%s %s 1)", r.name(fl), c11SlotName(s)))
	if o.Ok != has {
		extra = fmt.Sprintf("keyword %s listed=%v accepted=%v", c11SlotName(s), has, o.Ok)
	}
	return
}

func (r *c11Impl) precedence(fl int) string {
	f := flavors.Find(r.name(fl))
	if f == nil || r.names[fl] == "" {
		return "P=" + strconv.Itoa(fl)
	}
	var out []string
	prec := f.Precedence
	if len(prec) >= 2 {
		prec = prec[:len(prec)-2] // instance, t
	}
	for _, sym := range prec {
		id, ok := r.ids[strings.ToLower(string(sym))]
		if !ok {
			out = append(out, "?"+string(sym))
			continue
		}
		out = append(out, strconv.Itoa(id))
	}
	return "P=" + strings.Join(out, ",")
}

func (r *c11Impl) cleanup() {
	ids := make([]int, 0, len(r.names))
	for id := range r.names {
		ids = append(ids, id)
	}
	sort.Sort(sort.Reverse(sort.IntSlice(ids)))
	for _, id := range ids {
		r.eval(fmt.Sprintf("(undefflavor '%s)", r.names[id]))
		lib.Protect(func() slip.Object { slip.CurrentPackage.Remove(r.names[id]); return nil })
	}
}

// c11RunImpl evaluates the history on the real implementation. It returns the reply in the
// model's format, the segments of the second entry point (parallel to the S segments, "" when
// not applicable) and extra complaints.
func c11RunImpl(toks []c11Tok, caseNo int) (reply string, boundSegs []string, extras []string, text []string) {
	r := &c11Impl{scope: slip.NewScope(), caseNo: caseNo, names: map[int]string{}, ids: map[string]int{"vanilla-flavor": 0}}
	r.home = strings.ToLower(slip.CurrentPackage.Name)
	if !c11TraceReady {
		r.eval("(defvar *c11-tr* nil)")
		r.eval("(defvar *c11-ar* nil)")
		// a package that sees defmethod / defwhopper but none of the flavors of the cases
		r.eval("(defpackage :c11other (:use :cl :flavors :clos :generic))")
		c11TraceReady = true
	}
	homePkg := slip.CurrentPackage
	defer func() { slip.CurrentPackage = homePkg }()
	defer r.cleanup()
	var segs []string
	for i := 0; i < len(toks); {
		t := toks[i]
		switch t.K {
		case 'F', 'M', 'W':
			src, used := r.formText(toks, i)
			var o lib.Outcome
			if t.K != 'F' && c11OtherPkg(t.ID) {
				// evaluated in a package that does not see the flavors of the case
				r.text = append(r.text, "(in-package :c11other)", src, "(in-package :"+r.home+")")
				if in := r.eval("(in-package :c11other)"); !in.Ok {
					return fmt.Sprintf("err machinery-in-package-%s@%d", in.Class, i), boundSegs, extras, r.text
				}
				o = r.eval(src)
				back := r.eval("(in-package :" + r.home + ")")
				if !back.Ok || slip.CurrentPackage != homePkg {
					slip.CurrentPackage = homePkg
				}
			} else {
				r.text = append(r.text, src)
				o = r.eval(src)
			}
			if !o.Ok {
				return fmt.Sprintf("err %s@%d", o.Class, i), boundSegs, extras, r.text
			}
			if t.K == 'F' {
				r.names[t.Fl] = r.name(t.Fl)
				r.ids[r.name(t.Fl)] = t.Fl
			}
			i += used
			continue
		case 'S':
			segs = append(segs, r.send(t.Fl, t.Msg, false))
			if t.Msg < 200 {
				boundSegs = append(boundSegs, r.send(t.Fl, t.Msg, true))
			} else {
				boundSegs = append(boundSegs, "")
			}
			r.text = append(r.text, fmt.Sprintf(";; observe (send (make-instance '%s) %s)", r.name(t.Fl), c11MsgName(t.Msg)))
		case 'A':
			segs = append(segs, r.sendArg(t.Fl, t.Msg, t.Arg))
			r.text = append(r.text, fmt.Sprintf(";; observe (send (make-instance '%s) %s %d)", r.name(t.Fl), c11MsgName(t.Msg), t.Arg))
		case 'V':
			seg, extra := r.slot(t.Fl, t.Slot)
			segs = append(segs, seg)
			if extra != "" {
				extras = append(extras, extra)
			}
		case 'P':
			segs = append(segs, r.precedence(t.Fl))
		}
		i++
	}
	return "ok " + strings.Join(segs, " "), boundSegs, extras, r.text
}

// ---------------------------------------------------------------------------------------------
// expected segments from the model reply

type c11Meta struct {
	owner map[int]c11Tok // user method id -> its M token
	posM  map[int]int    // user method id -> index of its M token
	posF  map[int]int    // flavor -> index of its F token
	comps map[int][]int
}

func c11MetaOf(toks []c11Tok) *c11Meta {
	m := &c11Meta{owner: map[int]c11Tok{}, posM: map[int]int{}, posF: map[int]int{}, comps: map[int][]int{}}
	for i, t := range toks {
		switch t.K {
		case 'F':
			m.posF[t.Fl] = i
			m.comps[t.Fl] = append(append([]int{}, t.Comps...), t.Incl...)
		case 'M', 'W':
			if t.ID < 1000 {
				m.owner[t.ID] = t
				m.posM[t.ID] = i
			}
		}
	}
	return m
}

// precedence without vanilla, for signatures only (the verdict never depends on it)
func (m *c11Meta) flatten(fl int) []int {
	var out []int
	seen := map[int]bool{}
	var visit func(f int)
	visit = func(f int) {
		if seen[f] {
			return
		}
		seen[f] = true
		out = append(out, f)
		for _, c := range m.comps[f] {
			visit(c)
		}
	}
	visit(fl)
	return out
}

// c11Expected turns the model's segments into the canonical form the implementation side
// produces: built-in bodies leave no trace; results are named by what the caller sees.
func c11Expected(toks []c11Tok, modelReply string) (reply string, segs []string) {
	if !strings.HasPrefix(modelReply, "ok") {
		return modelReply, nil
	}
	raw := strings.Fields(modelReply)[1:]
	var obs []c11Tok
	for _, t := range toks {
		if t.K == 'S' || t.K == 'A' || t.K == 'V' || t.K == 'P' {
			obs = append(obs, t)
		}
	}
	if len(raw) != len(obs) {
		return "bad-model-reply", nil
	}
	for i, seg := range raw {
		if (obs[i].K != 'S' && obs[i].K != 'A') || strings.HasPrefix(seg, "S=!") || strings.HasPrefix(seg, "A=!") {
			segs = append(segs, seg)
			continue
		}
		tag := seg[:2]
		body := seg[2:]
		evs, res, _ := strings.Cut(body, "/r")
		var keep []string
		if evs != "" {
			for _, e := range strings.Split(evs, ",") {
				name, _, _ := strings.Cut(e, "@")
				id, _ := strconv.Atoi(strings.TrimLeft(name, "wiobpa"))
				if id >= 1 && id < 1000 {
					keep = append(keep, e)
				}
			}
		}
		want := "nil"
		res, resArg, _ := strings.Cut(res, "@")
		if strings.HasPrefix(res, "w") {
			want = res // the own value of a whopper body that never continued
		} else if res != "-" {
			id, _ := strconv.Atoi(res)
			switch {
			case id >= 2000 && tag == "A=":
				want = resArg // the setter returns its argument
			case id == 0 && obs[i].Msg == 3:
				want = "int"
			case id == 0:
				want = "nil"
			case id >= 2000:
				want = "77"
			case id >= 1000:
				// the getter returns the instance variable: the model's own slot observation follows
				want = "?"
				if i+1 < len(raw) && obs[i+1].K == 'V' && obs[i+1].Fl == obs[i].Fl && obs[i+1].Slot == id-1000 {
					want = strings.TrimPrefix(raw[i+1], "V=")
				}
			default:
				want = "p" + res
			}
		}
		segs = append(segs, tag+strings.Join(keep, ",")+"/r"+want)
	}
	return "ok " + strings.Join(segs, " "), segs
}

// ---------------------------------------------------------------------------------------------
// signatures

func c11TraceAspect(exp, obs []string) string {
	count := func(xs []string) map[string]int {
		m := map[string]int{}
		for _, x := range xs {
			m[x]++
		}
		return m
	}
	ce, co := count(exp), count(obs)
	dup, missing, extra := false, false, false
	for k, n := range co {
		if n > ce[k] {
			if ce[k] > 0 {
				dup = true
			} else {
				extra = true
			}
		}
	}
	for k, n := range ce {
		if co[k] < n {
			missing = true
		}
	}
	switch {
	case dup:
		return "duplicate"
	case missing && extra:
		return "other-daemon"
	case missing:
		return "missing"
	case extra:
		return "extra"
	}
	return "order"
}

func c11SendSignature(toks []c11Tok, meta *c11Meta, ob c11Tok, exp, obs, entry string) string {
	msgClass := "user-msg"
	switch {
	case ob.Msg == 3 || ob.Msg == 4:
		msgClass = "vanilla-msg"
	case ob.Msg >= 100:
		msgClass = "accessor-msg"
	}
	if strings.HasPrefix(exp, "A=") || strings.HasPrefix(obs, "A=") {
		// a send with an argument: classify by the daemons first, by the arguments when the
		// daemons agree
		strip := func(seg string) string {
			seg = "S=" + strings.TrimPrefix(seg, "A=")
			if strings.HasPrefix(seg, "S=!") {
				return seg
			}
			evs, res, _ := strings.Cut(strings.TrimPrefix(seg, "S="), "/r")
			var out []string
			if evs != "" {
				for _, e := range strings.Split(evs, ",") {
					name, _, _ := strings.Cut(e, "@")
					out = append(out, name)
				}
			}
			return "S=" + strings.Join(out, ",") + "/r" + res
		}
		se, so := strip(exp), strip(obs)
		if se == so {
			return fmt.Sprintf("entry=%s msg=%s aspect=argument", entry, msgClass)
		}
		exp, obs = se, so
	}
	if strings.HasPrefix(exp, "S=!") || strings.HasPrefix(obs, "S=!") {
		if strings.Contains(exp, "!handled") || strings.Contains(obs, "!handled") {
			return fmt.Sprintf("entry=%s msg=%s aspect=default-handler", entry, msgClass)
		}
		return fmt.Sprintf("entry=%s msg=%s aspect=condition", entry, msgClass)
	}
	et, er, _ := strings.Cut(strings.TrimPrefix(exp, "S="), "/r")
	ot, or, _ := strings.Cut(strings.TrimPrefix(obs, "S="), "/r")
	split := func(s string) []string {
		if s == "" {
			return nil
		}
		return strings.Split(s, ",")
	}
	ee, oe := split(et), split(ot)
	ev, aspect := "", ""
	if et != ot {
		aspect = c11TraceAspect(ee, oe)
		for i := 0; i < len(ee) || i < len(oe); i++ {
			if i >= len(ee) {
				ev = oe[i]
				break
			}
			if i >= len(oe) || ee[i] != oe[i] {
				ev = ee[i]
				break
			}
		}
	} else if er != or {
		aspect = "result"
		if strings.HasPrefix(er, "p") {
			ev = er
		} else if strings.HasPrefix(or, "p") {
			ev = or
		}
	}
	kind, rel := "none", "builtin"
	if id, err := strconv.Atoi(strings.TrimLeft(ev, "wiobpa")); err == nil && ev != "" {
		if mt, ok := meta.owner[id]; ok {
			kind = c11KindName(mt.Kind)
			g := mt.Fl
			switch {
			case g == ob.Fl:
				rel = "self"
			case meta.posM[id] < meta.posF[ob.Fl]:
				rel = "early"
			default:
				// a method defined after the inheriting flavor: is there a sibling of lower
				// precedence that also has a daemon for the message?
				rel = "late-last"
				after := false
				for _, f := range meta.flatten(ob.Fl) {
					if f == g {
						after = true
						continue
					}
					if !after {
						continue
					}
					for _, t := range toks {
						if (t.K == 'M' || t.K == 'W') && t.Fl == f && t.Msg == ob.Msg {
							rel = "late-before-sibling"
						}
					}
				}
				if rel == "late-last" && msgClass == "vanilla-msg" {
					rel = "late-before-vanilla"
				}
			}
		}
	}
	return fmt.Sprintf("entry=%s kind=%s rel=%s msg=%s aspect=%s", entry, kind, rel, msgClass, aspect)
}

// ---------------------------------------------------------------------------------------------
// programs and orders

type c11Unit struct {
	toks []c11Tok
	deps []int // units that must come earlier
	fl   int   // flavor defined by the unit (0 for a method unit)
}

type c11Prog struct {
	units        []c11Unit
	nF           int
	msgs         []int // messages worth observing
	slots        []int
	redefinition bool
	argMsgs      []int // messages also observed with an argument (A observations)
	otherPkg     bool  // some methods are defined in the other package
	bodies       bool  // some whoppers continue zero or two times / change the argument
	handlers     bool
	included     bool
	initable     bool
}

func (p *c11Prog) finalObservations() []c11Tok {
	var out []c11Tok
	for f := 1; f <= p.nF; f++ {
		out = append(out, c11Tok{K: 'P', Fl: f})
		for _, s := range p.slots {
			out = append(out, c11Tok{K: 'V', Fl: f, Slot: s})
		}
		for _, m := range p.msgs {
			out = append(out, c11Tok{K: 'S', Fl: f, Msg: m})
			if m >= 100 && m < 200 {
				out = append(out, c11Tok{K: 'V', Fl: f, Slot: m - 100})
			}
		}
		for _, m := range p.argMsgs {
			out = append(out, c11Tok{K: 'A', Fl: f, Msg: m, Arg: 5 + m%7})
		}
	}
	return out
}

// all topological orders of the units (up to limit; ok=false when there are more)
func (p *c11Prog) allOrders(limit int) (orders [][]int, complete bool) {
	n := len(p.units)
	used := make([]bool, n)
	cur := make([]int, 0, n)
	complete = true
	var rec func()
	rec = func() {
		if !complete {
			return
		}
		if len(cur) == n {
			if len(orders) >= limit {
				complete = false
				return
			}
			orders = append(orders, append([]int{}, cur...))
			return
		}
		for i := 0; i < n; i++ {
			if used[i] {
				continue
			}
			ready := true
			for _, d := range p.units[i].deps {
				if !used[d] {
					ready = false
				}
			}
			if !ready {
				continue
			}
			used[i] = true
			cur = append(cur, i)
			rec()
			cur = cur[:len(cur)-1]
			used[i] = false
		}
	}
	rec()
	return
}

// a random topological order; mode: "uniform", "flavors-first" (every method is late),
// "textual" (a method right after its flavor whenever possible)
func (p *c11Prog) randomOrder(rng *lib.Rng, mode string) []int {
	n := len(p.units)
	used := make([]bool, n)
	var out []int
	for len(out) < n {
		var ready, pref []int
		for i := 0; i < n; i++ {
			if used[i] {
				continue
			}
			ok := true
			for _, d := range p.units[i].deps {
				if !used[d] {
					ok = false
				}
			}
			if ok {
				ready = append(ready, i)
				isF := p.units[i].fl != 0
				if (mode == "flavors-first" && isF) || (mode == "textual" && !isF) {
					pref = append(pref, i)
				}
			}
		}
		if len(pref) > 0 {
			ready = pref
		}
		pick := ready[rng.Intn(len(ready))]
		used[pick] = true
		out = append(out, pick)
	}
	return out
}

// the token list of one case: units in the given order, observations in between as chosen by
// mid (called after every unit with the flavors defined so far), the full observation block last
func (p *c11Prog) tokens(order []int, mid func(defined []int) []c11Tok) []c11Tok {
	var toks []c11Tok
	var defined []int
	for _, u := range order {
		toks = append(toks, p.units[u].toks...)
		if p.units[u].fl != 0 {
			defined = append(defined, p.units[u].fl)
		}
		if mid != nil {
			toks = append(toks, mid(defined)...)
		}
	}
	return append(toks, p.finalObservations()...)
}

func c11FlavorUnit(fl int, comps []int, slots []c11Slot, gets, sets []int, unitOf map[int]int) c11Unit {
	return c11FlavorUnitIncl(fl, comps, nil, slots, gets, sets, unitOf)
}

func c11FlavorUnitIncl(fl int, comps, incl []int, slots []c11Slot, gets, sets []int, unitOf map[int]int) c11Unit {
	u := c11Unit{fl: fl, toks: []c11Tok{{K: 'F', Fl: fl, Comps: comps, Incl: incl, Slots: slots}}}
	for _, s := range gets {
		u.toks = append(u.toks, c11Tok{K: 'M', Fl: fl, Kind: 'p', Msg: 100 + s, ID: 1000 + s})
	}
	for _, s := range sets {
		u.toks = append(u.toks, c11Tok{K: 'M', Fl: fl, Kind: 'p', Msg: 200 + s, ID: 2000 + s})
	}
	seen := map[int]bool{}
	for _, c := range append(append([]int{}, comps...), incl...) {
		if !seen[c] {
			seen[c] = true
			u.deps = append(u.deps, unitOf[c])
		}
	}
	return u
}

// sweep programs: small fixed shapes, one message, one daemon kind on every flavor (plus a
// primary on flavor 1 so that the send has a value), every valid order of the forms.
func c11SweepProgs() (progs []*c11Prog, labels []string) {
	shapes := []struct {
		name  string
		comps [][]int // comps[i] = components of flavor i+1
	}{
		{"siblings", [][]int{{}, {}, {1, 2}}},
		{"chain", [][]int{{}, {1}, {2}}},
		{"diamond", [][]int{{}, {1}, {1}, {2, 3}}},
		{"three-siblings", [][]int{{}, {}, {}, {1, 2, 3}}},
		{"deep-first", [][]int{{}, {1}, {}, {2, 3}}},
	}
	for _, sh := range shapes {
		for _, kind := range []byte{'p', 'b', 'a', 'w'} {
			for _, msg := range []int{1, 3} {
				p := &c11Prog{nF: len(sh.comps), msgs: []int{msg}}
				unitOf := map[int]int{}
				for i, cs := range sh.comps {
					unitOf[i+1] = len(p.units)
					p.units = append(p.units, c11FlavorUnit(i+1, cs, nil, nil, nil, unitOf))
				}
				id := 1
				// the bottom flavor of the four-flavor shapes gets no method of its own: the
				// number of orders stays small enough to enumerate all of them
				last := len(sh.comps)
				if last == 4 {
					last = 3
				}
				for f := 1; f <= last; f++ {
					p.units = append(p.units, c11Unit{toks: []c11Tok{{K: 'M', Fl: f, Kind: kind, Msg: msg, ID: id}}, deps: []int{unitOf[f]}})
					id++
				}
				if kind != 'p' && msg == 1 {
					p.units = append(p.units, c11Unit{toks: []c11Tok{{K: 'M', Fl: 1, Kind: 'p', Msg: msg, ID: id}}, deps: []int{unitOf[1]}})
				}
				progs = append(progs, p)
				labels = append(labels, fmt.Sprintf("%s/%s/%s", sh.name, c11KindName(kind), c11MsgName(msg)))
			}
		}
	}
	return
}

// extension sweeps (seed independent): late methods defined in another package; whopper bodies
// that continue zero / one / two times and change the argument; default handlers
func c11SweepProgsExt() (progs []*c11Prog, labels []string) {
	shapes := []struct {
		name  string
		comps [][]int
	}{
		{"siblings", [][]int{{}, {}, {1, 2}}},
		{"chain", [][]int{{}, {1}, {2}}},
	}
	flavors := func(p *c11Prog, comps [][]int, slots map[int][]c11Slot) map[int]int {
		unitOf := map[int]int{}
		for i, cs := range comps {
			unitOf[i+1] = len(p.units)
			p.units = append(p.units, c11FlavorUnit(i+1, cs, slots[i+1], nil, nil, unitOf))
		}
		return unitOf
	}
	// (1) every method defined in the other package
	for _, sh := range shapes {
		for _, kind := range []byte{'p', 'b', 'a', 'w'} {
			p := &c11Prog{nF: 3, msgs: []int{1}, otherPkg: true}
			unitOf := flavors(p, sh.comps, nil)
			id := 501
			for f := 1; f <= 3; f++ {
				p.units = append(p.units, c11Unit{toks: []c11Tok{{K: 'M', Fl: f, Kind: kind, Msg: 1, ID: id}}, deps: []int{unitOf[f]}})
				id++
			}
			if kind != 'p' {
				p.units = append(p.units, c11Unit{toks: []c11Tok{{K: 'M', Fl: 1, Kind: 'p', Msg: 1, ID: id}}, deps: []int{unitOf[1]}})
			}
			progs = append(progs, p)
			labels = append(labels, fmt.Sprintf("other-package/%s/%s", sh.name, c11KindName(kind)))
		}
	}
	// (2) whopper bodies
	bodies := [][][]int{
		{{1, 2}, {0}, {0}},
		{{0}, {}, {0}},
		{{0}, {1, 2}, {3}},
		{{}, {0, 0}, {1}},
		{{2, -1}, {1, 1}, {0}},
	}
	for _, sh := range shapes {
		for bi, bs := range bodies {
			p := &c11Prog{nF: 3, msgs: []int{1}, argMsgs: []int{1}, bodies: true}
			unitOf := flavors(p, sh.comps, nil)
			for f := 1; f <= 3; f++ {
				p.units = append(p.units, c11Unit{toks: []c11Tok{{K: 'W', Fl: f, Kind: 'w', Msg: 1, ID: f, Ds: bs[f-1]}}, deps: []int{unitOf[f]}})
			}
			p.units = append(p.units, c11Unit{toks: []c11Tok{{K: 'M', Fl: 1, Kind: 'p', Msg: 1, ID: 4}}, deps: []int{unitOf[1]}})
			p.units = append(p.units, c11Unit{toks: []c11Tok{{K: 'M', Fl: 2, Kind: 'b', Msg: 1, ID: 5}}, deps: []int{unitOf[2]}})
			progs = append(progs, p)
			labels = append(labels, fmt.Sprintf("whopper-bodies/%s/%d", sh.name, bi))
		}
	}
	// (4) :included-flavors of a non-abstract flavor come after the written components
	for ii, in := range []struct {
		comps [][]int
		incl  map[int][]int
	}{
		{[][]int{{}, {}, {1}}, map[int][]int{3: {2}}},
		{[][]int{{}, {}, {}}, map[int][]int{3: {2, 1}}},
		{[][]int{{}, {1}, {2}}, map[int][]int{3: {1}}},
		{[][]int{{}, {}, {2}, {3}}, map[int][]int{3: {1}, 4: {1}}},
	} {
		for _, kind := range []byte{'b', 'p'} {
			p := &c11Prog{nF: len(in.comps), msgs: []int{1}, included: true}
			unitOf := map[int]int{}
			for i, cs := range in.comps {
				unitOf[i+1] = len(p.units)
				p.units = append(p.units, c11FlavorUnitIncl(i+1, cs, in.incl[i+1], nil, nil, nil, unitOf))
			}
			id := 1
			for f := 1; f <= 3; f++ {
				p.units = append(p.units, c11Unit{toks: []c11Tok{{K: 'M', Fl: f, Kind: kind, Msg: 1, ID: id}}, deps: []int{unitOf[f]}})
				id++
			}
			progs = append(progs, p)
			labels = append(labels, fmt.Sprintf("included-flavors/%d/%s", ii, c11KindName(kind)))
		}
	}
	// (5) :initable-instance-variables (known finding: not inherited, in neither direction)
	{
		// 1 = ((v1 1) (v2 2)) initable v1;  2 = ((v3 3)) (1) initable v3;  3 = () (1), no option
		p := &c11Prog{nF: 3, msgs: []int{1}, slots: []int{c11InitableBase + 1, c11InitableBase + 2, c11InitableBase + 3}, initable: true}
		unitOf := map[int]int{}
		unitOf[1] = len(p.units)
		p.units = append(p.units, c11FlavorUnit(1, nil, []c11Slot{{S: 1, Has: true, V: 1}, {S: 2, Has: true, V: 2}, {S: c11InitableBase + 1}}, nil, nil, unitOf))
		unitOf[2] = len(p.units)
		p.units = append(p.units, c11FlavorUnit(2, []int{1}, []c11Slot{{S: 3, Has: true, V: 3}, {S: c11InitableBase + 3}}, nil, nil, unitOf))
		unitOf[3] = len(p.units)
		p.units = append(p.units, c11FlavorUnit(3, []int{1}, nil, nil, nil, unitOf))
		progs = append(progs, p)
		labels = append(labels, "initable")
	}
	// (3) default handlers: on the first component only, the second only, both, the user too
	for _, sh := range shapes {
		for hi, hs := range [][]int{{1}, {2}, {1, 2}, {2, 3}, {}} {
			slots := map[int][]c11Slot{}
			for _, f := range hs {
				slots[f] = []c11Slot{{S: c11HandlerSlot, Has: true, V: 10 * f}}
			}
			p := &c11Prog{nF: 3, msgs: []int{1}, slots: []int{c11HandlerSlot}, handlers: true}
			unitOf := flavors(p, sh.comps, slots)
			p.units = append(p.units, c11Unit{toks: []c11Tok{{K: 'M', Fl: 2, Kind: 'p', Msg: 1, ID: 1}}, deps: []int{unitOf[2]}})
			progs = append(progs, p)
			labels = append(labels, fmt.Sprintf("default-handler/%s/%d", sh.name, hi))
		}
	}
	return
}

func c11RandomProg(rng *lib.Rng) *c11Prog {
	p := &c11Prog{nF: 2 + rng.Intn(4), slots: []int{1, 2, 3, 11, 12, c11HandlerSlot}}
	p.otherPkg = rng.Chance(15)
	p.bodies = rng.Chance(40)
	if rng.Chance(10) {
		p.nF = 1
	}
	unitOf := map[int]int{}
	msgSet := map[int]bool{1: true, 2: true, 3: true, 4: true}
	for f := 1; f <= p.nF; f++ {
		var comps []int
		if f > 1 {
			n := rng.Intn(4)
			if n > f-1 {
				n = f - 1
			}
			if n == 0 && rng.Chance(70) {
				n = 1
			}
			perm := make([]int, f-1)
			for i := range perm {
				perm[i] = i + 1
			}
			for i := len(perm) - 1; i > 0; i-- {
				j := rng.Intn(i + 1)
				perm[i], perm[j] = perm[j], perm[i]
			}
			comps = append(comps, perm[:n]...)
			if n > 0 && n < 3 && rng.Chance(4) {
				comps = append(comps, comps[rng.Intn(n)]) // a component written twice
			}
		}
		var slots []c11Slot
		var gets, sets []int
		if rng.Chance(15) {
			slots = append(slots, c11Slot{S: c11HandlerSlot, Has: true, V: 10 * f})
			p.handlers = true
		}
		for _, s := range []int{1, 2, 3, 11, 12} {
			if !rng.Chance(40) {
				continue
			}
			sl := c11Slot{S: s}
			if rng.Chance(70) {
				sl.Has, sl.V = true, 10*f+s%10
			}
			slots = append(slots, sl)
			if s < 10 && s <= 2 {
				if rng.Chance(50) {
					gets = append(gets, s)
					msgSet[100+s] = true
				}
				if rng.Chance(25) {
					sets = append(sets, s)
					msgSet[200+s] = true
				}
			}
		}
		var incl []int
		if len(comps) >= 2 && rng.Chance(12) {
			// the last written component becomes an included flavor instead
			incl, comps = []int{comps[len(comps)-1]}, comps[:len(comps)-1]
			p.included = true
		} else if f > 2 && rng.Chance(6) {
			incl = []int{1 + rng.Intn(f-1)}
			p.included = true
		}
		unitOf[f] = len(p.units)
		p.units = append(p.units, c11FlavorUnitIncl(f, comps, incl, slots, gets, sets, unitOf))
	}
	id := 1
	density := 10 + rng.Intn(35)
	for f := 1; f <= p.nF; f++ {
		for _, msg := range []int{1, 2, 3, 4, 101, 201} {
			for _, kind := range []byte{'p', 'b', 'a', 'w'} {
				d := density
				if msg == 2 || msg >= 100 {
					d = density / 3
				}
				if !rng.Chance(d) {
					continue
				}
				tok := c11Tok{K: 'M', Fl: f, Kind: kind, Msg: msg, ID: id}
				if kind == 'w' && msg >= 200 {
					// a whopper around a setter passes its argument on (bodies that call
					// (continue-whopper) without arguments are for the other messages)
					tok.K, tok.Ds = 'W', [][]int{{0}, {0}, {}, {0, 0}}[rng.Intn(4)]
				} else if kind == 'w' && msg != 4 && p.bodies && rng.Chance(50) {
					tok.K = 'W'
					tok.Ds = [][]int{{}, {0}, {1}, {0, 0}, {1, 2}, {2, -1}}[rng.Intn(6)]
					if msg >= 100 {
						tok.Ds = [][]int{{}, {0}, {0, 0}}[rng.Intn(3)]
					}
				}
				if p.otherPkg && rng.Chance(40) {
					tok.ID += 500
				}
				msgSet[msg] = true
				p.units = append(p.units, c11Unit{toks: []c11Tok{tok}, deps: []int{unitOf[f]}})
				id++
			}
		}
	}
	if rng.Chance(8) {
		// the same (flavor, daemon kind, message) defined twice: the newer definition replaces
		// the older one wherever the combination is shared
		var ms []int
		for i, u := range p.units {
			if u.fl == 0 {
				ms = append(ms, i)
			}
		}
		if len(ms) > 0 {
			u := p.units[ms[rng.Intn(len(ms))]]
			t := u.toks[0]
			t.ID = id
			p.units = append(p.units, c11Unit{toks: []c11Tok{t}, deps: u.deps})
			p.redefinition = true
		}
	}
	for m := range msgSet {
		p.msgs = append(p.msgs, m)
	}
	sort.Ints(p.msgs)
	for _, m := range p.msgs {
		if m == 1 || m == 2 || m == 201 {
			p.argMsgs = append(p.argMsgs, m)
		}
	}
	return p
}

// ---------------------------------------------------------------------------------------------
// running

type c11Case struct {
	toks  []c11Tok
	sweep bool
	label string
}

func c11Program(text []string) string { return strings.Join(text, "\n") }

type c11Diff struct {
	sig string
	rp  map[string]any
}

// c11Compare runs the history on the implementation and lists every disagreement with the
// model's reply
func c11Compare(cs c11Case, model string) (diffs []c11Diff) {
	req := c11Request(cs.toks)
	c11CaseNo++
	obsReply, boundSegs, extras, text := c11RunImpl(cs.toks, c11CaseNo)
	expReply, expSegs := c11Expected(cs.toks, model)
	meta := c11MetaOf(cs.toks)
	add := func(sig string, observed, expected, observation string) {
		rp := map[string]any{"request": req, "program": c11Program(text), "case": cs.label, "expected_from": "model:flav.run",
			"relies_on":   []string{"SlipVerif.Flavors.tables_eq_spec", "SlipVerif.Flavors.send_order", "SlipVerif.Flavors.vars_inherited_by_precedence"},
			"observed":    observed,
			"expected":    expected,
			"observation": observation}
		diffs = append(diffs, c11Diff{sig, rp})
	}
	if expSegs == nil || !strings.HasPrefix(obsReply, "ok") {
		// a form was rejected on one side: both must reject the same form
		ew, ow := strings.Fields(expReply), strings.Fields(obsReply)
		eAt, oAt := "", ""
		if len(ew) == 2 && ew[0] == "err" {
			_, eAt, _ = strings.Cut(ew[1], "@")
		}
		if len(ow) == 2 && ow[0] == "err" {
			_, oAt, _ = strings.Cut(ow[1], "@")
		}
		if eAt == "" || eAt != oAt {
			add("entry=form aspect=condition", obsReply, expReply, "evaluation of the forms")
		}
		return
	}
	obsSegs := strings.Fields(obsReply)[1:]
	var obs []c11Tok
	for _, t := range cs.toks {
		if t.K == 'S' || t.K == 'A' || t.K == 'V' || t.K == 'P' {
			obs = append(obs, t)
		}
	}
	si := 0
	for i, ob := range obs {
		if i >= len(obsSegs) || i >= len(expSegs) {
			break
		}
		if obsSegs[i] != expSegs[i] {
			sig := ""
			switch ob.K {
			case 'S':
				sig = c11SendSignature(cs.toks, meta, ob, expSegs[i], obsSegs[i], "send")
			case 'A':
				sig = c11SendSignature(cs.toks, meta, ob, expSegs[i], obsSegs[i], "send-args")
			case 'V':
				kind := "variable-default"
				if ob.Slot >= 10 {
					kind = "init-keyword"
				}
				if ob.Slot == c11HandlerSlot {
					kind = "default-handler"
				}
				if ob.Slot > c11InitableBase {
					// V=nil expected: a component lists the variable, the flavor must accept it;
					// V=none expected: nobody in the precedence list lists it
					sig = "entry=slot kind=initable aspect=not-inherited"
					if expSegs[i] == "V=none" {
						sig = "entry=slot kind=initable aspect=restriction-lost"
					}
					add(sig, obsSegs[i], expSegs[i], ob.wire())
					continue
				}
				sig = fmt.Sprintf("entry=slot kind=%s aspect=value", kind)
			default:
				sig = "entry=precedence aspect=order"
			}
			add(sig, obsSegs[i], expSegs[i], ob.wire())
		}
		if ob.K == 'S' {
			if si < len(boundSegs) && boundSegs[si] != "" {
				// second entry point: same daemon order; the value is compared when a user
				// primary supplies it (built-in callers need not implement BoundCall)
				b, e := boundSegs[si], expSegs[i]
				bt, br, _ := strings.Cut(b, "/r")
				et, er, _ := strings.Cut(e, "/r")
				differs := bt != et || (strings.HasPrefix(er, "p") && br != er)
				if strings.HasPrefix(e, "S=!") || strings.HasPrefix(b, "S=!") {
					differs = strings.HasPrefix(e, "S=!") != strings.HasPrefix(b, "S=!")
				}
				if strings.HasPrefix(e, "S=!handled") {
					differs = false // the second entry point of a default handler is not compared
				}
				if differs {
					if !strings.HasPrefix(er, "p") {
						b = bt + "/r" + er
					}
					add(c11SendSignature(cs.toks, meta, ob, e, b, "bound"), boundSegs[si], e, ob.wire()+" through Instance.BoundReceive")
				}
			}
			si++
		}
	}
	for _, x := range extras {
		add("entry=slot kind=init-keyword aspect=acceptance", x, "make-instance accepts exactly the init keywords the flavor has", "make-instance with the keyword")
	}
	return
}

// c11Without removes token i; removing a defflavor also removes everything that names the flavor
// (ok=false when another flavor has it as a component)
func c11Without(toks []c11Tok, i int) (out []c11Tok, ok bool) {
	t := toks[i]
	if t.K != 'F' {
		out = append(out, toks[:i]...)
		return append(out, toks[i+1:]...), true
	}
	for _, u := range toks {
		if u.K == 'F' && u.Fl != t.Fl {
			for _, c := range append(append([]int{}, u.Comps...), u.Incl...) {
				if c == t.Fl {
					return nil, false
				}
			}
		}
	}
	for _, u := range toks {
		if u.Fl != t.Fl {
			out = append(out, u)
		}
	}
	return out, true
}

// c11Shrink removes forms and observations as long as a disagreement with the same signature
// remains (greedy one-at-a-time deletion, repeated until nothing more can go)
func c11Shrink(c *lib.Ctx, cs c11Case, sig string) (c11Case, map[string]any) {
	var best map[string]any
	has := func(toks []c11Tok) map[string]any {
		cand := c11Case{toks: toks, sweep: cs.sweep, label: cs.label + " (shrunk)"}
		model := c.Model([]string{c11Request(toks)})[0]
		for _, d := range c11Compare(cand, model) {
			if d.sig == sig {
				return d.rp
			}
		}
		return nil
	}
	cur := cs.toks
	for pass := 0; pass < 4; pass++ {
		changed := false
		for i := len(cur) - 1; i >= 0; i-- {
			if i >= len(cur) {
				continue
			}
			cand, ok := c11Without(cur, i)
			if !ok || len(cand) == 0 {
				continue
			}
			if rp := has(cand); rp != nil {
				cur, best, changed = cand, rp, true
			}
		}
		if !changed {
			break
		}
	}
	return c11Case{toks: cur, sweep: cs.sweep, label: cs.label}, best
}

var c11Shrunk = map[string]bool{}

// c11Check compares one case and reports its disagreements (the first one of every signature
// shrunk to a minimal history); returns the number of disagreements
func c11Check(c *lib.Ctx, cs c11Case, model string) int {
	diffs := c11Compare(cs, model)
	for _, d := range diffs {
		rp := d.rp
		known := cs.sweep && c.Findings.Match(c.Prop, d.sig) != nil
		if !known && !c11Shrunk[d.sig] && len(c11Shrunk) < 40 && c.Replay == "" {
			c11Shrunk[d.sig] = true
			if _, small := c11Shrink(c, cs, d.sig); small != nil {
				small["found_in"] = cs.label
				rp = small
			}
		}
		c.Report(d.sig, cs.sweep, rp)
	}
	return len(diffs)
}

func c11Replay(c *lib.Ctx) {
	var rec map[string]any
	if err := lib.ReadJSON(c.Replay, &rec); err != nil {
		fmt.Println("cannot read replay file:", err)
		return
	}
	req, _ := rec["request"].(string)
	w := strings.Fields(req)
	if len(w) < 3 || w[0] != "flav" {
		fmt.Println("replay file has no usable request")
		return
	}
	var toks []c11Tok
	for _, s := range w[3:] {
		t, ok := c11ParseTok(s)
		if !ok {
			fmt.Println("replay: bad token", s)
			return
		}
		toks = append(toks, t)
	}
	model := c.Model([]string{req})[0]
	obsReply, boundSegs, extras, text := c11RunImpl(toks, 1)
	expReply, _ := c11Expected(toks, model)
	c11CaseNo = 1
	fmt.Printf("replay of %s\n%s\n  implementation : %s\n  bound entry    : %s\n  model          : %s\n  extras         : %v\n",
		c.Replay, c11Program(text), obsReply, strings.Join(boundSegs, " "), expReply, extras)
	c11Check(c, c11Case{toks: toks, label: "replay"}, model)
}

func runC11(c *lib.Ctx) {
	if c.Replay != "" {
		c11Replay(c)
		return
	}
	var cases []c11Case

	// --- single-cause sweep: every valid order of the forms of the small shapes (seed independent)
	sweepProgs, labels := c11SweepProgs()
	orderLimit := c.Scale(1300, 200000)
	for i, p := range sweepProgs {
		orders, complete := p.allOrders(orderLimit)
		if !complete {
			c.Ev.Hist("sweep_order_enumeration", "capped")
		} else {
			c.Ev.Hist("sweep_order_enumeration", "complete")
		}
		prog := p
		mid := func(defined []int) []c11Tok {
			var out []c11Tok
			for _, f := range defined {
				out = append(out, c11Tok{K: 'S', Fl: f, Msg: prog.msgs[0]})
			}
			return out
		}
		for oi, o := range orders {
			cases = append(cases, c11Case{toks: p.tokens(o, mid), sweep: true, label: fmt.Sprintf("sweep/%s/order%d", labels[i], oi)})
		}
	}
	extProgs, extLabels := c11SweepProgsExt()
	extLimit := c.Scale(400, 20000)
	for i, p := range extProgs {
		orders, complete := p.allOrders(extLimit)
		if !complete {
			c.Ev.Hist("ext_sweep_order_enumeration", "capped")
		} else {
			c.Ev.Hist("ext_sweep_order_enumeration", "complete")
		}
		prog := p
		mid := func(defined []int) []c11Tok {
			var out []c11Tok
			for _, f := range defined {
				switch {
				case prog.bodies:
					out = append(out, c11Tok{K: 'A', Fl: f, Msg: 1, Arg: 10})
				case prog.handlers:
					out = append(out, c11Tok{K: 'V', Fl: f, Slot: c11HandlerSlot}, c11Tok{K: 'S', Fl: f, Msg: 1})
				case prog.initable:
					// observed in the final block only
				default:
					out = append(out, c11Tok{K: 'S', Fl: f, Msg: 1})
				}
			}
			return out
		}
		for oi, o := range orders {
			cases = append(cases, c11Case{toks: p.tokens(o, mid), sweep: true, label: fmt.Sprintf("sweep/%s/order%d", extLabels[i], oi)})
		}
	}
	nSweep := len(cases)

	// --- malformed histories: the rejected form is the last one
	for _, bad := range [][]c11Tok{
		{{K: 'F', Fl: 1}, {K: 'F', Fl: 1}},
		{{K: 'F', Fl: 2, Comps: []int{1}}},
		{{K: 'F', Fl: 1}, {K: 'F', Fl: 3, Comps: []int{1, 2}}},
		{{K: 'M', Fl: 1, Kind: 'p', Msg: 1, ID: 1}},
		{{K: 'F', Fl: 1}, {K: 'M', Fl: 2, Kind: 'b', Msg: 1, ID: 1}},
		{{K: 'F', Fl: 1}, {K: 'M', Fl: 2, Kind: 'w', Msg: 1, ID: 1}},
	} {
		cases = append(cases, c11Case{toks: bad, sweep: true, label: "malformed"})
	}

	// --- random programs: all orders when few, sampled orders otherwise
	// lib.NewRng(seed) starts the one splitmix stream at offset `seed`: the streams of seeds n
	// and n+1 are shifts of each other and fall into step as soon as two runs have consumed a
	// different number of draws. The generator therefore uses a stream whose offset is itself
	// drawn from c.Rng, so that different seeds give unrelated runs.
	rng := lib.NewRng(c.Rng.U64() ^ 0xC11C11C11)
	nProgs := c.Scale(450, 12000)
	modes := []string{"uniform", "flavors-first", "textual", "uniform"}
	for i := 0; i < nProgs; i++ {
		p := c11RandomProg(rng)
		mid := func(defined []int) []c11Tok {
			var out []c11Tok
			if len(defined) == 0 || !rng.Chance(35) {
				return nil
			}
			f := defined[rng.Intn(len(defined))]
			m := p.msgs[rng.Intn(len(p.msgs))]
			if (m == 1 || m == 2 || m == 201) && rng.Chance(40) {
				return append(out, c11Tok{K: 'A', Fl: f, Msg: m, Arg: rng.Intn(9)})
			}
			if rng.Chance(10) {
				out = append(out, c11Tok{K: 'V', Fl: f, Slot: c11HandlerSlot})
			}
			out = append(out, c11Tok{K: 'S', Fl: f, Msg: m})
			if m >= 100 && m < 200 {
				out = append(out, c11Tok{K: 'V', Fl: f, Slot: m - 100})
			}
			return out
		}
		c.Ev.Hist("flavors", strconv.Itoa(p.nF))
		if p.redefinition {
			c.Ev.Hist("programs_with", "method-redefinition")
		}
		if p.otherPkg {
			c.Ev.Hist("programs_with", "methods-defined-in-another-package")
		}
		if p.bodies {
			c.Ev.Hist("programs_with", "whopper-bodies-0-1-2-continues")
		}
		if p.handlers {
			c.Ev.Hist("programs_with", "default-handler")
		}
		if p.included {
			c.Ev.Hist("programs_with", "included-flavors")
		}
		c.Ev.Hist("units", strconv.Itoa(len(p.units)/5*5)+"+")
		if len(p.units) <= 6 {
			orders, _ := p.allOrders(c.Scale(24, 720))
			c.Ev.Hist("order_mode", "all-permutations")
			for oi, o := range orders {
				cases = append(cases, c11Case{toks: p.tokens(o, mid), label: fmt.Sprintf("random%d/order%d", i, oi)})
			}
			continue
		}
		nOrders := c.Scale(3, 6)
		for oi := 0; oi < nOrders; oi++ {
			mode := modes[(oi+i)%len(modes)]
			c.Ev.Hist("order_mode", mode)
			cases = append(cases, c11Case{toks: p.tokens(p.randomOrder(rng, mode), mid), label: fmt.Sprintf("random%d/%s%d", i, mode, oi)})
		}
	}

	// --- model and implementation
	reqs := make([]string, len(cases))
	for i, cs := range cases {
		reqs[i] = c11Request(cs.toks)
	}
	replies := c.Model(reqs)
	agree, observations := 0, 0
	for i, cs := range cases {
		muts, obsAfter, nontrivial := 0, false, false
		late := 0
		meta := c11MetaOf(cs.toks)
		for _, t := range cs.toks {
			switch t.K {
			case 'F', 'M', 'W':
				muts++
				if obsAfter && muts >= 2 {
					nontrivial = true
				}
			default:
				observations++
				if muts > 0 {
					obsAfter = true
				}
			}
		}
		for id, mt := range meta.owner {
			for f, pf := range meta.posF {
				if f != mt.Fl && meta.posM[id] > pf {
					for _, g := range meta.flatten(f) {
						if g == mt.Fl {
							late++
						}
					}
				}
			}
		}
		if late > 0 {
			c.Ev.Hist("late_methods", "some")
		} else {
			c.Ev.Hist("late_methods", "none")
		}
		c.Ev.Case(reqs[i], nontrivial)
		if i%(len(cases)/10+1) == 0 {
			c11CaseNo++
			o, _, _, text := c11RunImpl(cs.toks, c11CaseNo)
			c.Ev.Sample(map[string]string{"case": cs.label, "program": c11Program(text), "impl": o, "model": replies[i]})
		}
		if c11Check(c, cs, replies[i]) == 0 {
			agree++
		}
	}
	c.Ev.Coverage["traces_validated_against_impl"] = len(cases)
	c.Ev.Coverage["agreements"] = agree
	c.Ev.Coverage["observations"] = observations
	c.Ev.Coverage["sweep_cases"] = nSweep
	c.Ev.Coverage["random_cases"] = len(cases) - nSweep
	c.Ev.Coverage["rule"] = "case = one history (order of defflavor/defmethod/defwhopper forms, with observations in between and a full observation block at the end: precedence list, every slot, every message on an instance of every flavor, each send also through Instance.BoundReceive); sweep = 5 small DAG shapes x 4 daemon kinds x user/vanilla message x every valid order (exhaustive, seed independent); random = DAGs with <= 5 flavors and <= 3 components, random slots/accessors/daemons, all permutations when <= 6 forms, else sampled orders (uniform / all methods late / textual); extension sweeps (every valid order, capped at 400 in the quick tier) = methods defined in another package, whopper bodies with 0/1/2 continues and changed arguments observed with an argument (A), default handlers, included flavors, initable variables (known finding); random programs also draw those features (15 % other package, 40 % whopper bodies, 15 % of flavors a default handler, 12 % included flavors); non-trivial = >= 2 mutations with an observation between them; distinct by request line"
}
