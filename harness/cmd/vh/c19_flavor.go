package main

// C19 leg A3 — flavors as values: "flavors and their instances … evaluating the pretty-printed
// load form rebuilds an object equal to the original".
//
// A world of flavors is defined in-process (unique names): chains, diamonds and mixin lists in
// which the SAME instance variables are declared again and again with defaults from a small pool
// (so that a flavor sets a variable back to the value of a distant ancestor while a nearer one
// overrides it, nil included). Flavors are then taken from the last defined to the first (each is
// a leaf when its turn comes): for margins 20..120 the pretty printed load form is read, the
// flavor is removed (undefflavor) and defined again by evaluating the form; the rebuilt flavor
// must give a fresh instance the same value in EVERY instance variable, inherit the same flavors
// and have the same load form. The model (`lf flavors`: effective defaults by precedence, the
// variables a load form has to write = those that differ from what inheritance alone gives) is
// compared with the implementation's effective defaults, inherit list and load form variables.

import (
	"fmt"
	"os"
	"sort"
	"strings"

	"github.com/ohler55/slip"
	"github.com/ohler55/slip/pkg/flavors"
	"verif/harness/lib"
)

type c19FlavVar struct {
	Name    string `json:"name"`
	Default string `json:"default"` // source text; "" = declared without default (nil)
}

type c19FlavDef struct {
	Name  string       `json:"name"`
	Vars  []c19FlavVar `json:"vars"`
	Comps []string     `json:"comps"`
}

type c19FlavWorld struct {
	Cell  string       `json:"cell"`
	Defs  []c19FlavDef `json:"defs"`
	sweep bool
}

var c19FlavSeq int

func (w *c19FlavWorld) forms(prefix string) []string {
	var out []string
	for _, d := range w.Defs {
		var vars, comps []string
		for _, v := range d.Vars {
			if v.Default == "" {
				vars = append(vars, v.Name)
			} else {
				vars = append(vars, fmt.Sprintf("(%s %s)", v.Name, v.Default))
			}
		}
		for _, cn := range d.Comps {
			comps = append(comps, prefix+cn)
		}
		out = append(out, fmt.Sprintf("(defflavor %s%s (%s) (%s) :gettable-instance-variables :settable-instance-variables :inittable-instance-variables)",
			prefix, d.Name, strings.Join(vars, " "), strings.Join(comps, " ")))
	}
	return out
}

func (w *c19FlavWorld) input() string { return strings.Join(w.forms(""), "\n") }

var c19FlavDefaultPool = []struct{ name, src string }{
	{"nil", ""}, {"nil-explicit", "nil"}, {"fixnum-1", "1"}, {"fixnum-2", "2"}, {"string", "\"s\""}, {"symbol", "'q"}, {"keyword", ":k"}, {"list", "'(1 b)"}, {"t", "t"},
}

func c19FlavSweep() []c19FlavWorld {
	d := func(name string, comps []string, vars ...string) c19FlavDef {
		fd := c19FlavDef{Name: name, Comps: comps}
		for i := 0; i+1 < len(vars); i += 2 {
			fd.Vars = append(fd.Vars, c19FlavVar{Name: vars[i], Default: vars[i+1]})
		}
		return fd
	}
	var out []c19FlavWorld
	add := func(cell string, defs ...c19FlavDef) {
		out = append(out, c19FlavWorld{Cell: cell, Defs: defs, sweep: true})
	}
	add("single", d("a", nil, "v", "1", "w", "", "x", "\"s\""))
	add("child-new-variable", d("a", nil, "v", "1"), d("b", []string{"a"}, "w", "2"))
	add("child-overrides", d("a", nil, "v", "1"), d("b", []string{"a"}, "v", "2"))
	add("child-same-default", d("a", nil, "v", "1"), d("b", []string{"a"}, "v", "1"))
	// a variable set back to the default of a distant ancestor while a nearer one overrides it
	for _, p := range [][3]string{{"5", "1", "5"}, {"5", "nil", "5"}, {"", "2", ""}, {"nil", "2", "nil"}, {"'q", "'r", "'q"}, {"\"s\"", "\"t\"", "\"s\""},
		{"'(1 b)", "'(2)", "'(1 b)"}, {"t", "nil", "t"}, {"5", "1", "1"}, {"5", "5", "5"}, {"5", "1", "2"}} {
		name := fmt.Sprintf("chain/%s/%s/%s", c19FlavLabel(p[0]), c19FlavLabel(p[1]), c19FlavLabel(p[2]))
		add(name, d("a", nil, "v", p[0], "tag", "\"g\""), d("b", []string{"a"}, "v", p[1]), d("c", []string{"b"}, "v", p[2], "extra", "'x"))
	}
	add("chain-4-back-and-forth", d("a", nil, "v", "1"), d("b", []string{"a"}, "v", "2"), d("c", []string{"b"}, "v", "1"), d("e", []string{"c"}, "v", "2"))
	add("chain-skip-middle", d("a", nil, "v", "1"), d("b", []string{"a"}, "w", "9"), d("c", []string{"b"}, "v", "1"))
	add("diamond-back", d("a", nil, "v", "1"), d("b", []string{"a"}, "v", "2"), d("c", []string{"a"}, "w", "3"), d("e", []string{"b", "c"}, "v", "1"))
	add("diamond-mixin-order", d("a", nil, "v", "1"), d("b", []string{"a"}, "v", "2"), d("c", []string{"a"}, "v", "3"), d("e", []string{"c", "b"}, "v", "2"),
		d("f", []string{"b", "c"}, "v", "3"))
	add("mixins-unrelated", d("m1", nil, "v", "1"), d("m2", nil, "v", "2"), d("e", []string{"m1", "m2"}, "v", "2"), d("f", []string{"m2", "m1"}, "v", "1"))
	add("explicit-components-repeat-ancestor", d("a", nil, "v", "1"), d("b", []string{"a"}, "v", "2"), d("c", []string{"b", "a"}, "v", "1"))
	return out
}

func c19FlavLabel(src string) string {
	if src == "" {
		return "none"
	}
	return strings.NewReplacer("'", "", "\"", "", "(", "", ")", "", " ", "").Replace(src)
}

func c19RandFlavWorld(r *lib.Rng, listed func(string) bool) c19FlavWorld {
	w := c19FlavWorld{}
	n := 3 + r.Intn(5)
	vars := []string{"va", "vb", "vc"}
	for i := 0; i < n; i++ {
		fd := c19FlavDef{Name: fmt.Sprintf("f%d", i)}
		if i > 0 {
			k := 1
			if i > 1 && r.Chance(35) {
				k = 2
			}
			// mostly the most recent flavors: deep chains
			seen := map[int]bool{}
			for len(fd.Comps) < k {
				j := i - 1 - r.Intn(min(i, 3))
				if r.Chance(20) {
					j = r.Intn(i)
				}
				if !seen[j] {
					seen[j] = true
					fd.Comps = append(fd.Comps, fmt.Sprintf("f%d", j))
				}
			}
			if r.Chance(15) {
				fd.Comps = nil // a new root
			}
		}
		for _, v := range vars {
			if r.Chance(55) {
				var dflt string
				for {
					p := c19FlavDefaultPool[r.Intn(len(c19FlavDefaultPool))]
					if !listed("default-" + p.name) {
						dflt = p.src
						break
					}
				}
				fd.Vars = append(fd.Vars, c19FlavVar{Name: v, Default: dflt})
			}
		}
		if r.Chance(30) {
			fd.Vars = append(fd.Vars, c19FlavVar{Name: fmt.Sprintf("own%d", i), Default: fmt.Sprint(r.Intn(9))})
		}
		w.Defs = append(w.Defs, fd)
	}
	return w
}

type c19FlavObs struct {
	obs    *c19Obs
	flavor string
	broken string // disagreement with the model (no failing input)
}

// c19CheckFlavWorld defines the world in-process and checks every flavor, last defined first.
func c19CheckFlavWorld(c *lib.Ctx, w *c19FlavWorld, margins []int, all bool) (res c19FlavObs) {
	c19FlavSeq++
	prefix := fmt.Sprintf("zqw%d-", c19FlavSeq)
	scope := slip.NewScope()
	for _, src := range w.forms(prefix) {
		if o := lib.EvalString(scope, src); !o.Ok {
			return c19FlavObs{obs: &c19Obs{Aspect: "machinery", Observed: src + " => " + o.Class + ": " + o.Msg}}
		}
	}
	defer func() {
		// remove whatever is left, children first
		for i := len(w.Defs) - 1; i >= 0; i-- {
			if flavors.Find(prefix+w.Defs[i].Name) != nil {
				_ = lib.EvalString(scope, fmt.Sprintf("(undefflavor '%s%s)", prefix, w.Defs[i].Name))
			}
		}
	}()
	fresh := func(name string) (map[string]c19SlotState, string) {
		f := flavors.Find(name)
		if f == nil {
			return nil, "flavor " + name + " is not defined"
		}
		o := lib.Protect(func() slip.Object { return f.MakeInstance() })
		inst, ok := o.Value.(slip.Instance)
		if !o.Ok || !ok {
			return nil, "cannot make an instance of " + name + ": " + o.Msg
		}
		return c19SlotStates(inst), ""
	}
	inherits := func(name string) []string {
		var out []string
		for _, cl := range flavors.Find(name).InheritsList() {
			if cl.Name() != "vanilla-flavor" {
				out = append(out, strings.TrimPrefix(cl.Name(), prefix))
			}
		}
		return out
	}
	// --- the model on this world: effective defaults, inherit lists, load form variables
	req := "lf flavors"
	modelled := true
	for _, d := range w.Defs {
		req += fmt.Sprintf(" F %s %d", d.Name, len(d.Comps))
		for _, cn := range d.Comps {
			req += " " + cn
		}
		req += fmt.Sprintf(" %d", len(d.Vars))
		for _, v := range d.Vars {
			var val slip.Object
			if v.Default != "" {
				o := lib.EvalString(scope, v.Default)
				if !o.Ok {
					return c19FlavObs{obs: &c19Obs{Aspect: "machinery", Observed: "default " + v.Default + ": " + o.Msg}}
				}
				val = o.Value
			}
			vt, ok := c19FormTerm(val)
			if !ok {
				modelled = false
			}
			if vt != nil {
				req += " " + v.Name + " " + vt.String()
			}
		}
	}
	model := map[string]map[string]string{} // flavor -> "L"/"E"/"I" -> canonical text
	if modelled {
		toks := strings.Fields(c.Model([]string{req})[0])
		if len(toks) == 0 || toks[0] != "ok" {
			fmt.Fprintln(os.Stderr, "c19: model reply to", req, ":", strings.Join(toks, " "))
			os.Exit(2)
		}
		toks = toks[1:]
		readVars := func() string {
			var n int
			fmt.Sscan(toks[0], &n)
			toks = toks[1:]
			var parts []string
			for i := 0; i < n; i++ {
				name := toks[0]
				t, rest, ok := c19ParseTerm(toks[1:])
				if !ok {
					fmt.Fprintln(os.Stderr, "c19: cannot parse model flavors reply")
					os.Exit(2)
				}
				toks = rest
				parts = append(parts, name+"="+t.String())
			}
			sort.Strings(parts)
			return strings.Join(parts, ", ")
		}
		for len(toks) > 0 {
			name := toks[1]
			toks = toks[3:] // F name L
			m := map[string]string{}
			m["L"] = readVars()
			toks = toks[1:] // E
			m["E"] = readVars()
			var n int
			fmt.Sscan(toks[1], &n)
			m["I"] = strings.Join(toks[2:2+n], " ")
			toks = toks[2+n:]
			model[name] = m
		}
	}
	showStates := func(st map[string]c19SlotState) string {
		var parts []string
		for n, s := range st {
			t := "?"
			if s.bound {
				if vt, ok := c19FormTerm(s.val); ok {
					t = vt.String()
				}
			} else {
				t = "<unbound>"
			}
			parts = append(parts, n+"="+t)
		}
		sort.Strings(parts)
		return strings.Join(parts, ", ")
	}
	for i := len(w.Defs) - 1; i >= 0; i-- {
		d := w.Defs[i]
		name := prefix + d.Name
		res.flavor = d.Name
		want, ferr := fresh(name)
		if want == nil {
			return c19FlavObs{obs: &c19Obs{Aspect: "machinery", Observed: ferr}}
		}
		wantInh := inherits(name)
		f := flavors.Find(name)
		fo := lib.Protect(func() slip.Object { return f.LoadForm() })
		if !fo.Ok {
			res.obs = &c19Obs{Aspect: "no-load-form", Observed: "LoadForm of " + d.Name + " failed: " + fo.Class + ": " + fo.Msg, Expected: "a load form"}
			return
		}
		form := fo.Value
		formText := strings.ReplaceAll(c19Show(form), prefix, "")
		// model agreement (recorded once per world)
		if m, has := model[d.Name]; has && res.broken == "" {
			if got := showStates(want); got != m["E"] {
				res.broken = fmt.Sprintf("effective defaults of %s: implementation %s, model %s", d.Name, got, m["E"])
			} else if got := strings.Join(wantInh, " "); got != m["I"] {
				res.broken = fmt.Sprintf("inherit list of %s: implementation %s, model %s", d.Name, got, m["I"])
			} else if got := c19FlavFormVars(form); got != m["L"] {
				res.broken = fmt.Sprintf("instance variables in the load form of %s: implementation %s, model %s (form %s)", d.Name, got, m["L"], formText)
			}
		}
		check := func(mg int) *c19Obs {
			back, text, o := c19PPRead(form, mg)
			if o != nil {
				o.Form = formText
				return o
			}
			if !c19FormEqual(form, back) {
				return &c19Obs{Aspect: "unreadable", Margin: mg, Form: formText, Observed: "read(pp(form)) = " + c19Show(back) + " text=" + text, Expected: formText}
			}
			if uo := lib.EvalString(scope, fmt.Sprintf("(undefflavor '%s)", name)); !uo.Ok {
				return &c19Obs{Aspect: "machinery", Observed: "undefflavor: " + uo.Msg}
			}
			eo := lib.Protect(func() slip.Object { return slip.NewScope().Eval(back, 0) })
			if !eo.Ok {
				// put the original definition back for the remaining margins
				_ = lib.Protect(func() slip.Object { return slip.NewScope().Eval(form, 0) })
				return &c19Obs{Aspect: "eval-error", Margin: mg, Form: formText, Observed: "evaluating the load form: " + eo.Class + ": " + eo.Msg, Expected: "the flavor " + d.Name}
			}
			got, gerr := fresh(name)
			if got == nil {
				return &c19Obs{Aspect: "not-equal", Margin: mg, Form: formText, Observed: gerr, Expected: "the flavor " + d.Name}
			}
			if a, b := showStates(got), showStates(want); a != b {
				return &c19Obs{Aspect: "not-equal", Margin: mg, Form: formText, Observed: "a fresh instance of the rebuilt " + d.Name + " has " + c19FlavDiff(got, want),
					Expected: "as the original: " + c19FlavDiff(want, got)}
			}
			if a, b := strings.Join(inherits(name), " "), strings.Join(wantInh, " "); a != b {
				return &c19Obs{Aspect: "not-equal", Margin: mg, Form: formText, Observed: "rebuilt " + d.Name + " inherits " + a, Expected: "inherits " + b}
			}
			f2 := lib.Protect(func() slip.Object { return flavors.Find(name).LoadForm() })
			if !f2.Ok || !c19FormEqual(f2.Value, form) {
				return &c19Obs{Aspect: "not-fixed-point", Margin: mg, Form: formText, Observed: "load form of the rebuilt flavor: " + strings.ReplaceAll(c19Show(f2.Value), prefix, ""), Expected: formText}
			}
			return nil
		}
		if o := c19OverMargins(margins, all, check); o != nil {
			res.obs = o
			return
		}
		// done with this flavor: its parents become leaves
		if uo := lib.EvalString(scope, fmt.Sprintf("(undefflavor '%s)", name)); !uo.Ok {
			return c19FlavObs{obs: &c19Obs{Aspect: "machinery", Observed: "undefflavor: " + uo.Msg}}
		}
	}
	res.flavor = ""
	return
}

// c19FlavDiff lists the variables of a whose state differs from b.
func c19FlavDiff(a, b map[string]c19SlotState) string {
	var parts []string
	for n, s := range a {
		if o, has := b[n]; !has || o.String() != s.String() {
			parts = append(parts, n+" = "+s.String())
		}
	}
	for n := range b {
		if _, has := a[n]; !has {
			parts = append(parts, n+" missing")
		}
	}
	sort.Strings(parts)
	return strings.Join(parts, ", ")
}

// c19FlavFormVars: the instance variables of a defflavor form as "name=term, …" (defaults
// unquoted: the form is evaluated).
func c19FlavFormVars(form slip.Object) string {
	l, ok := c19Listify(form).(slip.List)
	if !ok || len(l) < 3 {
		return "?"
	}
	ivs, _ := l[2].(slip.List)
	var parts []string
	for _, iv := range ivs {
		switch tv := iv.(type) {
		case slip.Symbol:
			parts = append(parts, strings.ToLower(string(tv))+"=N")
		case slip.List:
			if len(tv) != 2 {
				return "?"
			}
			val := tv[1]
			if q, isList := val.(slip.List); isList && len(q) == 2 && strings.EqualFold(c19Show(q[0]), "quote") {
				val = q[1]
			}
			vt, ok := c19FormTerm(val)
			if !ok {
				return "?"
			}
			parts = append(parts, strings.ToLower(c19Show(tv[0]))+"="+vt.String())
		default:
			return "?"
		}
	}
	sort.Strings(parts)
	return strings.Join(parts, ", ")
}

func c19RunFlavors(c *lib.Ctx) {
	listed := func(cell string) bool { return c.Findings.Listed("C19", "flavor cell="+cell+" ") }
	worlds := c19FlavSweep()
	nRandom := c.Scale(150, 1200)
	for i := 0; i < nRandom; i++ {
		worlds = append(worlds, c19RandFlavWorld(c.Rng, listed))
	}
	brokenReported := false
	nFlav := 0
	for i := range worlds {
		w := &worlds[i]
		margins := c19Margins(c, w.sweep)
		if !w.sweep {
			margins = margins[:min(len(margins), 4)] // every flavor of the world is rebuilt at every margin
		}
		res := c19CheckFlavWorld(c, w, margins, w.sweep)
		nFlav += len(w.Defs)
		c.Ev.Case("f:"+w.input(), len(w.Defs) >= 3)
		c.Ev.Hist("flavor_world_size", fmt.Sprint(len(w.Defs)))
		c.Ev.Count("flavor_margin_checks", len(margins)*len(w.Defs))
		if i%(len(worlds)/2+1) == 0 {
			c.Ev.Sample(map[string]any{"leg": "flavor", "world": w.forms("")})
		}
		if res.broken != "" && !brokenReported {
			brokenReported = true
			c.ReportBroken("model:lf.flavors", map[string]any{"leg": "flavor", "world": w, "input": w.input(), "observed": res.broken,
				"expected": "effective defaults by precedence; the load form writes the variables whose default differs from what inheritance alone gives"})
		}
		if res.obs == nil {
			continue
		}
		if res.obs.Aspect == "machinery" {
			fmt.Fprintln(os.Stderr, "c19: flavor world:", res.obs.Observed, "\n", w.input())
			os.Exit(2)
		}
		sig := "flavor aspect=" + res.obs.Aspect
		if w.sweep {
			sig = fmt.Sprintf("flavor cell=%s aspect=%s at=%s", w.Cell, c19AspectM(res.obs, true), res.flavor)
		}
		c.Report(sig, w.sweep, map[string]any{"leg": "flavor", "world": w, "sweep": w.sweep, "input": w.input(), "flavor": res.flavor, "load_form": res.obs.Form,
			"margin": res.obs.Margin, "observed": res.obs.Observed, "expected": res.obs.Expected,
			"expected_from": "property statement: the flavor rebuilt from its pretty printed load form gives every instance variable the same default; model:lf.flavors",
			"relies_on":     []string{"SlipVerif.LoadForm.flavor_rebuild_same_defaults", "SlipVerif.LoadForm.session_reload_same_defaults"}})
	}
	c.Ev.Coverage["flavor_worlds"] = len(worlds)
	c.Ev.Coverage["flavor_values"] = nFlav
}

func c19ReplayFlavor(c *lib.Ctx, rec map[string]any) {
	w := &c19FlavWorld{}
	if err := jsonUnmarshal(mustJSON(rec["world"]), w); err != nil {
		fmt.Println("replay file has no usable flavor world:", err)
		return
	}
	res := c19CheckFlavWorld(c, w, c19Margins(c, true), true)
	fmt.Printf("replay flavors\n  %s\n", strings.Join(w.forms(""), "\n  "))
	if res.broken != "" {
		fmt.Println("  model disagreement:", res.broken)
		c.Report("flavor replay aspect=model", false, map[string]any{"observed": res.broken})
	}
	if res.obs != nil {
		fmt.Printf("  flavor %s, load form %s\n  margin %d: %s\n  observed: %s\n  expected: %s\n", res.flavor, res.obs.Form, res.obs.Margin, res.obs.Aspect, res.obs.Observed, res.obs.Expected)
		c.Report("flavor replay aspect="+res.obs.Aspect, false, map[string]any{"observed": res.obs.Observed, "expected": res.obs.Expected})
	} else if res.broken == "" {
		fmt.Println("  every rebuilt flavor gives every instance variable the default of the original, for all margins 20..120")
	}
}
