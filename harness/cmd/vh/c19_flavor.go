package main

// C19 leg A3 — flavors as values: "flavors and their instances … evaluating the pretty-printed
// load form rebuilds an object equal to the original".
//
// A world of flavors is defined in-process (unique names): chains, diamonds and mixin lists in
// which the SAME instance variables are declared again and again with defaults from a small pool
// (so that a flavor sets a variable back to the value of a distant ancestor while a nearer one
// overrides it, nil included). Flavors are then taken from the last defined to the first (each is
// a leaf when its turn comes): for margins 20..120 the pretty printed load form is read, the
// flavor is removed (undefflavor) and defined again by evaluating the form; the rebuilt flavor
// must give a fresh instance the same value in EVERY instance variable, inherit the same flavors
// and have the same load form. The model (`lf flavors`: effective defaults by precedence, the
// variables a load form has to write = those that differ from what inheritance alone gives) is
// compared with the implementation's effective defaults, inherit list and load form variables.

import (
	"fmt"
	"os"
	"sort"
	"strings"

	"github.com/ohler55/slip"
	"github.com/ohler55/slip/pkg/flavors"
	"verif/harness/lib"
)

type c19FlavVar struct {
	Name    string `json:"name"`
	Default string `json:"default"` // source text; "" = declared without default (nil)
}

// A selection of instance variables given to :gettable-/:settable-/:inittable-instance-variables:
// nil = the option is absent, ["*"] = the bare option (every variable the flavor has when it is
// defined, inherited ones included), otherwise the listed names (own or inherited variables).
type c19FlavSel []string

func (sel c19FlavSel) option(key string) string {
	switch {
	case len(sel) == 0:
		return ""
	case len(sel) == 1 && sel[0] == "*":
		return " " + key
	}
	return " (" + key + " " + strings.Join(sel, " ") + ")"
}

func (sel c19FlavSel) label() string {
	switch {
	case len(sel) == 0:
		return "none"
	case len(sel) == 1 && sel[0] == "*":
		return "bare"
	}
	return strings.Join(sel, "+")
}

type c19FlavDef struct {
	Name  string       `json:"name"`
	Vars  []c19FlavVar `json:"vars"`
	Comps []string     `json:"comps"`
	// Options of the definition. Classic = the three bare options (the worlds of round 2).
	Classic bool       `json:"classic,omitempty"`
	Get     c19FlavSel `json:"get,omitempty"`
	Set     c19FlavSel `json:"set,omitempty"`
	Init    c19FlavSel `json:"init,omitempty"`
	Extra   string     `json:"extra,omitempty"` // further options, source text
}

func (d *c19FlavDef) options() string {
	if d.Classic {
		return " :gettable-instance-variables :settable-instance-variables :inittable-instance-variables"
	}
	out := d.Get.option(":gettable-instance-variables") + d.Set.option(":settable-instance-variables") + d.Init.option(":inittable-instance-variables")
	if d.Extra != "" {
		out += " " + d.Extra
	}
	return out
}

type c19FlavWorld struct {
	Cell  string       `json:"cell"`
	Defs  []c19FlavDef `json:"defs"`
	sweep bool
}

var c19FlavSeq int

func (w *c19FlavWorld) forms(prefix string) []string {
	var out []string
	for _, d := range w.Defs {
		var vars, comps []string
		for _, v := range d.Vars {
			if v.Default == "" {
				vars = append(vars, v.Name)
			} else {
				vars = append(vars, fmt.Sprintf("(%s %s)", v.Name, v.Default))
			}
		}
		for _, cn := range d.Comps {
			comps = append(comps, prefix+cn)
		}
		out = append(out, fmt.Sprintf("(defflavor %s%s (%s) (%s)%s)",
			prefix, d.Name, strings.Join(vars, " "), strings.Join(comps, " "), d.options()))
	}
	return out
}

func (w *c19FlavWorld) input() string { return strings.Join(w.forms(""), "\n") }

var c19FlavDefaultPool = []struct{ name, src string }{
	{"nil", ""}, {"nil-explicit", "nil"}, {"fixnum-1", "1"}, {"fixnum-2", "2"}, {"string", "\"s\""}, {"symbol", "'q"}, {"keyword", ":k"}, {"list", "'(1 b)"}, {"t", "t"},
}

func c19FlavSweep() []c19FlavWorld {
	d := func(name string, comps []string, vars ...string) c19FlavDef {
		fd := c19FlavDef{Name: name, Comps: comps, Classic: true}
		for i := 0; i+1 < len(vars); i += 2 {
			fd.Vars = append(fd.Vars, c19FlavVar{Name: vars[i], Default: vars[i+1]})
		}
		return fd
	}
	var out []c19FlavWorld
	add := func(cell string, defs ...c19FlavDef) {
		out = append(out, c19FlavWorld{Cell: cell, Defs: defs, sweep: true})
	}
	add("single", d("a", nil, "v", "1", "w", "", "x", "\"s\""))
	add("child-new-variable", d("a", nil, "v", "1"), d("b", []string{"a"}, "w", "2"))
	add("child-overrides", d("a", nil, "v", "1"), d("b", []string{"a"}, "v", "2"))
	add("child-same-default", d("a", nil, "v", "1"), d("b", []string{"a"}, "v", "1"))
	// a variable set back to the default of a distant ancestor while a nearer one overrides it
	for _, p := range [][3]string{{"5", "1", "5"}, {"5", "nil", "5"}, {"", "2", ""}, {"nil", "2", "nil"}, {"'q", "'r", "'q"}, {"\"s\"", "\"t\"", "\"s\""},
		{"'(1 b)", "'(2)", "'(1 b)"}, {"t", "nil", "t"}, {"5", "1", "1"}, {"5", "5", "5"}, {"5", "1", "2"}} {
		name := fmt.Sprintf("chain/%s/%s/%s", c19FlavLabel(p[0]), c19FlavLabel(p[1]), c19FlavLabel(p[2]))
		add(name, d("a", nil, "v", p[0], "tag", "\"g\""), d("b", []string{"a"}, "v", p[1]), d("c", []string{"b"}, "v", p[2], "extra", "'x"))
	}
	add("chain-4-back-and-forth", d("a", nil, "v", "1"), d("b", []string{"a"}, "v", "2"), d("c", []string{"b"}, "v", "1"), d("e", []string{"c"}, "v", "2"))
	add("chain-skip-middle", d("a", nil, "v", "1"), d("b", []string{"a"}, "w", "9"), d("c", []string{"b"}, "v", "1"))
	add("diamond-back", d("a", nil, "v", "1"), d("b", []string{"a"}, "v", "2"), d("c", []string{"a"}, "w", "3"), d("e", []string{"b", "c"}, "v", "1"))
	add("diamond-mixin-order", d("a", nil, "v", "1"), d("b", []string{"a"}, "v", "2"), d("c", []string{"a"}, "v", "3"), d("e", []string{"c", "b"}, "v", "2"),
		d("f", []string{"b", "c"}, "v", "3"))
	add("mixins-unrelated", d("m1", nil, "v", "1"), d("m2", nil, "v", "2"), d("e", []string{"m1", "m2"}, "v", "2"), d("f", []string{"m2", "m1"}, "v", "1"))
	add("explicit-components-repeat-ancestor", d("a", nil, "v", "1"), d("b", []string{"a"}, "v", "2"), d("c", []string{"b", "a"}, "v", "1"))
	// --- the options that decide which operations and init keywords the flavor has: every
	// combination of {absent, bare, every variable listed, one variable, two variables} for the
	// three options of a flavor with three variables (the load form may abbreviate a selection to
	// the bare option only when it is the complete one OF THAT OPTION)
	o := func(fd c19FlavDef, get, set, init c19FlavSel, extra string) c19FlavDef {
		fd.Classic, fd.Get, fd.Set, fd.Init, fd.Extra = false, get, set, init, extra
		return fd
	}
	sels := []c19FlavSel{nil, {"*"}, {"a", "b", "c"}, {"a"}, {"b", "c"}}
	for _, g := range sels {
		for _, st := range sels {
			for _, in := range sels {
				add(fmt.Sprintf("options/get-%s/set-%s/init-%s", g.label(), st.label(), in.label()), o(d("a", nil, "a", "1", "b", "", "c", "\"s\""), g, st, in, ""))
			}
		}
	}
	// one and two variables: "all of them" and "one of them" coincide or nearly so
	for _, p := range [][3]c19FlavSel{{{"*"}, {"a"}, nil}, {{"a"}, {"*"}, nil}, {{"a", "b"}, {"b"}, {"a"}}, {{"b"}, {"a", "b"}, {"*"}}, {{"*"}, nil, {"b"}}, {nil, {"*"}, {"a", "b"}}} {
		add(fmt.Sprintf("options-2/get-%s/set-%s/init-%s", p[0].label(), p[1].label(), p[2].label()), o(d("a", nil, "a", "1", "b", "2"), p[0], p[1], p[2], ""))
	}
	add("options-1/get-bare", o(d("a", nil, "a", "1"), c19FlavSel{"*"}, nil, nil, ""))
	add("options-1/set-a-init-a", o(d("a", nil, "a", "1"), nil, c19FlavSel{"a"}, c19FlavSel{"a"}, ""))
	add("options-0/all-bare", o(d("a", nil), c19FlavSel{"*"}, c19FlavSel{"*"}, c19FlavSel{"*"}, ""))
	// options and inheritance: the bare option of a child covers the inherited variables, a list may
	// name them, a parent's selection is inherited
	par := func(get, set, init c19FlavSel) c19FlavDef { return o(d("a", nil, "v", "1", "w", "2"), get, set, init, "") }
	for _, p := range []struct {
		name           string
		pg, ps, pi     c19FlavSel
		cg, cs, ci     c19FlavSel
		childVars      []string
	}{
		{"parent-bare/child-none", c19FlavSel{"*"}, c19FlavSel{"*"}, c19FlavSel{"*"}, nil, nil, nil, []string{"x", "3"}},
		{"parent-some/child-bare", c19FlavSel{"v"}, c19FlavSel{"w"}, c19FlavSel{"v"}, c19FlavSel{"*"}, c19FlavSel{"*"}, c19FlavSel{"*"}, []string{"x", "3"}},
		{"parent-none/child-bare", nil, nil, nil, c19FlavSel{"*"}, c19FlavSel{"*"}, c19FlavSel{"*"}, []string{"x", "3"}},
		{"parent-none/child-own-only", nil, nil, nil, c19FlavSel{"x"}, c19FlavSel{"x"}, c19FlavSel{"x"}, []string{"x", "3", "y", "4"}},
		{"parent-none/child-all-own", nil, nil, nil, c19FlavSel{"x", "y"}, c19FlavSel{"x", "y"}, c19FlavSel{"x", "y"}, []string{"x", "3", "y", "4"}},
		{"parent-none/child-lists-inherited", nil, nil, nil, c19FlavSel{"v", "x"}, c19FlavSel{"v"}, c19FlavSel{"w", "x"}, []string{"x", "3"}},
		{"parent-none/child-only-inherited", nil, nil, nil, c19FlavSel{"v"}, c19FlavSel{"w"}, c19FlavSel{"v"}, []string{"x", "3"}},
		{"parent-get/child-get-all-set-some", c19FlavSel{"*"}, nil, nil, c19FlavSel{"*"}, c19FlavSel{"x"}, nil, []string{"x", "3", "y", "4"}},
		{"parent-none/child-redeclares-same-default", nil, nil, nil, c19FlavSel{"*"}, c19FlavSel{"v"}, c19FlavSel{"v"}, []string{"v", "1"}},
		{"parent-some/child-redeclares-other-default", c19FlavSel{"v"}, nil, c19FlavSel{"w"}, c19FlavSel{"v", "w"}, c19FlavSel{"v"}, nil, []string{"v", "5"}},
		{"parent-bare/child-no-own-variables-bare", c19FlavSel{"*"}, nil, c19FlavSel{"*"}, c19FlavSel{"*"}, c19FlavSel{"*"}, nil, nil},
	} {
		add("options-inherit/"+p.name, par(p.pg, p.ps, p.pi), o(d("b", []string{"a"}, p.childVars...), p.cg, p.cs, p.ci, ""))
	}
	// further options of the definition (compared through the description of the flavor)
	for _, p := range [][2]string{{"documentation", "(:documentation \"A flavor with words.\")"}, {"default-init-plist", "(:default-init-plist (:k 4) (:m \"s\"))"},
		{"default-init-plist-allow-other-keys", "(:default-init-plist (:allow-other-keys t) (:k 4))"}, {"init-keywords", "(:init-keywords :k :m)"},
		{"required-init-keywords", "(:init-keywords :k) (:required-init-keywords :k)"}, {"abstract", ":abstract-flavor"}, {"no-vanilla", ":no-vanilla-flavor"},
		{"required-instance-variables", "(:required-instance-variables a)"}, {"required-methods", ":abstract-flavor (:required-methods :go)"}} {
		add("options-extra/"+p[0], o(d("a", nil, "a", "1", "b", "2"), c19FlavSel{"*"}, c19FlavSel{"a"}, c19FlavSel{"b"}, p[1]))
	}
	return out
}

func c19FlavLabel(src string) string {
	if src == "" {
		return "none"
	}
	return strings.NewReplacer("'", "", "\"", "", "(", "", ")", "", " ", "").Replace(src)
}

func c19RandFlavWorld(r *lib.Rng, listed func(string) bool) c19FlavWorld {
	w := c19FlavWorld{}
	n := 3 + r.Intn(5)
	vars := []string{"va", "vb", "vc"}
	known := map[string][]string{} // flavor -> every variable it has
	for i := 0; i < n; i++ {
		fd := c19FlavDef{Name: fmt.Sprintf("f%d", i)}
		if i > 0 {
			k := 1
			if i > 1 && r.Chance(35) {
				k = 2
			}
			// mostly the most recent flavors: deep chains
			seen := map[int]bool{}
			for len(fd.Comps) < k {
				j := i - 1 - r.Intn(min(i, 3))
				if r.Chance(20) {
					j = r.Intn(i)
				}
				if !seen[j] {
					seen[j] = true
					fd.Comps = append(fd.Comps, fmt.Sprintf("f%d", j))
				}
			}
			if r.Chance(15) {
				fd.Comps = nil // a new root
			}
		}
		for _, v := range vars {
			if r.Chance(55) {
				var dflt string
				for {
					p := c19FlavDefaultPool[r.Intn(len(c19FlavDefaultPool))]
					if !listed("default-" + p.name) {
						dflt = p.src
						break
					}
				}
				fd.Vars = append(fd.Vars, c19FlavVar{Name: v, Default: dflt})
			}
		}
		if r.Chance(30) {
			fd.Vars = append(fd.Vars, c19FlavVar{Name: fmt.Sprintf("own%d", i), Default: fmt.Sprint(r.Intn(9))})
		}
		if r.Chance(30) {
			fd.Vars = append(fd.Vars, c19FlavVar{Name: fmt.Sprintf("two%d", i), Default: ""})
		}
		// every variable the flavor has: own and inherited
		seenVar := map[string]bool{}
		var own, every []string
		for _, v := range fd.Vars {
			own = append(own, v.Name)
			every = append(every, v.Name)
			seenVar[v.Name] = true
		}
		for _, cn := range fd.Comps {
			for _, v := range known[cn] {
				if !seenVar[v] {
					seenVar[v] = true
					every = append(every, v)
				}
			}
		}
		known[fd.Name] = every
		if listed("options/get-bare/set-a/init-none") || r.Chance(25) {
			fd.Classic = true
		} else {
			pick := func() c19FlavSel {
				switch k := r.Intn(100); {
				case k < 20 || len(every) == 0:
					return nil
				case k < 45:
					return c19FlavSel{"*"}
				case k < 60 && len(own) > 0:
					return append(c19FlavSel{}, own...) // every own variable, listed
				}
				pool := own
				if (r.Chance(40) || len(own) == 0) && !listed("options-inherit/parent-none/child-lists-inherited") {
					pool = every
				}
				var sel c19FlavSel
				for _, v := range pool {
					if r.Chance(50) {
						sel = append(sel, v)
					}
				}
				if len(sel) == 0 {
					sel = c19FlavSel{pool[r.Intn(len(pool))]}
				}
				return sel
			}
			fd.Get, fd.Set, fd.Init = pick(), pick(), pick()
			if r.Chance(20) && !listed("options-extra/documentation") {
				fd.Extra = fmt.Sprintf("(:documentation \"Flavor number %d.\")", i)
			}
		}
		w.Defs = append(w.Defs, fd)
	}
	return w
}

type c19FlavObs struct {
	obs    *c19Obs
	flavor string
	broken string // disagreement with the model (no failing input)
}

// c19CheckFlavWorld defines the world in-process and checks every flavor, last defined first.
func c19CheckFlavWorld(c *lib.Ctx, w *c19FlavWorld, margins []int, all bool) (res c19FlavObs) {
	c19FlavSeq++
	prefix := fmt.Sprintf("zqw%d-", c19FlavSeq)
	scope := slip.NewScope()
	for _, src := range w.forms(prefix) {
		if o := lib.EvalString(scope, src); !o.Ok {
			return c19FlavObs{obs: &c19Obs{Aspect: "machinery", Observed: src + " => " + o.Class + ": " + o.Msg}}
		}
	}
	defer func() {
		// remove whatever is left, children first
		for i := len(w.Defs) - 1; i >= 0; i-- {
			if flavors.Find(prefix+w.Defs[i].Name) != nil {
				_ = lib.EvalString(scope, fmt.Sprintf("(undefflavor '%s%s)", prefix, w.Defs[i].Name))
			}
		}
	}()
	fresh := func(name string) (map[string]c19SlotState, string) {
		f := flavors.Find(name)
		if f == nil {
			return nil, "flavor " + name + " is not defined"
		}
		if ab, _ := f.Simplify().(map[string]any)["abstract"].(bool); ab {
			return map[string]c19SlotState{}, "" // no instances
		}
		o := lib.Protect(func() slip.Object { return f.MakeInstance() })
		inst, ok := o.Value.(slip.Instance)
		if !o.Ok || !ok {
			return nil, "cannot make an instance of " + name + ": " + o.Msg
		}
		return c19SlotStates(inst), ""
	}
	inherits := func(name string) []string {
		var out []string
		for _, cl := range flavors.Find(name).InheritsList() {
			if cl.Name() != "vanilla-flavor" {
				out = append(out, strings.TrimPrefix(cl.Name(), prefix))
			}
		}
		return out
	}
	// what the flavor offers to its users: the operations an instance handles, for every variable
	// whether it can be given to make-instance, read with :v and set with :set-v (behaviour, not
	// only the method table), and the remaining properties of the definition
	iface := func(name string) []string {
		f := flavors.Find(name)
		if f == nil {
			return []string{"not defined"}
		}
		var out []string
		var ops []string
		for _, m := range f.MethodNames() {
			ops = append(ops, c19Show(m))
		}
		out = append(out, "operations: "+strings.Join(ops, " "))
		simple, _ := f.Simplify().(map[string]any)
		var vars []string
		if dv, ok := simple["defaultVars"].(map[string]any); ok {
			for v := range dv {
				if v != "self" {
					vars = append(vars, v)
				}
			}
		}
		sort.Strings(vars)
		show := func(src string) string {
			o := lib.EvalString(scope, src)
			if !o.Ok {
				return "ERROR " + o.Class
			}
			return c19Show(o.Value)
		}
		for _, v := range vars {
			out = append(out, fmt.Sprintf("(make-instance … :%s 77) then %s: %s", v, v, show(fmt.Sprintf("(slot-value (make-instance '%s :%s 77) '%s)", name, v, v))))
			out = append(out, fmt.Sprintf("(send i :%s): %s", v, show(fmt.Sprintf("(send (make-instance '%s) :%s)", name, v))))
			out = append(out, fmt.Sprintf("(send i :set-%s 78) then %s: %s", v, v, show(fmt.Sprintf("(let ((i (make-instance '%s))) (send i :set-%s 78) (slot-value i '%s))", name, v, v))))
			out = append(out, fmt.Sprintf("(send i :operation-handled-p :set-%s): %s", v, show(fmt.Sprintf("(send (make-instance '%s) :operation-handled-p :set-%s)", name, v))))
		}
		out = append(out, "(make-instance … :zq-other 1): "+show(fmt.Sprintf("(progn (make-instance '%s :zq-other 1) 'made)", name)))
		for _, k := range []string{"docs", "keywords", "included", "required", "requiredMethods", "requiredVars", "requiredKeywords", "defaultHandler", "abstract", "allowOtherKeys"} {
			out = append(out, k+": "+strings.ReplaceAll(string(mustJSON(simple[k])), prefix, ""))
		}
		return out
	}
	ifaceDiff := func(a, b []string) string {
		var parts []string
		for i := range a {
			if i >= len(b) || a[i] != b[i] {
				parts = append(parts, a[i])
			}
		}
		if len(parts) == 0 && len(a) != len(b) {
			return fmt.Sprintf("%d observations (other: %d)", len(a), len(b))
		}
		return strings.Join(parts, "; ")
	}
	// --- the model on this world: effective defaults, inherit lists, load form variables
	req := "lf flavors"
	modelled := true
	for _, d := range w.Defs {
		req += fmt.Sprintf(" F %s %d", d.Name, len(d.Comps))
		for _, cn := range d.Comps {
			req += " " + cn
		}
		req += fmt.Sprintf(" %d", len(d.Vars))
		for _, v := range d.Vars {
			var val slip.Object
			if v.Default != "" {
				o := lib.EvalString(scope, v.Default)
				if !o.Ok {
					return c19FlavObs{obs: &c19Obs{Aspect: "machinery", Observed: "default " + v.Default + ": " + o.Msg}}
				}
				val = o.Value
			}
			vt, ok := c19FormTerm(val)
			if !ok {
				modelled = false
			}
			if vt != nil {
				req += " " + v.Name + " " + vt.String()
			}
		}
	}
	model := map[string]map[string]string{} // flavor -> "L"/"E"/"I" -> canonical text
	if modelled {
		toks := strings.Fields(c.Model([]string{req})[0])
		if len(toks) == 0 || toks[0] != "ok" {
			fmt.Fprintln(os.Stderr, "c19: model reply to", req, ":", strings.Join(toks, " "))
			os.Exit(2)
		}
		toks = toks[1:]
		readVars := func() string {
			var n int
			fmt.Sscan(toks[0], &n)
			toks = toks[1:]
			var parts []string
			for i := 0; i < n; i++ {
				name := toks[0]
				t, rest, ok := c19ParseTerm(toks[1:])
				if !ok {
					fmt.Fprintln(os.Stderr, "c19: cannot parse model flavors reply")
					os.Exit(2)
				}
				toks = rest
				parts = append(parts, name+"="+t.String())
			}
			sort.Strings(parts)
			return strings.Join(parts, ", ")
		}
		for len(toks) > 0 {
			name := toks[1]
			toks = toks[3:] // F name L
			m := map[string]string{}
			m["L"] = readVars()
			toks = toks[1:] // E
			m["E"] = readVars()
			var n int
			fmt.Sscan(toks[1], &n)
			m["I"] = strings.Join(toks[2:2+n], " ")
			toks = toks[2+n:]
			model[name] = m
		}
	}
	showStates := func(st map[string]c19SlotState) string {
		var parts []string
		for n, s := range st {
			t := "?"
			if s.bound {
				if vt, ok := c19FormTerm(s.val); ok {
					t = vt.String()
				}
			} else {
				t = "<unbound>"
			}
			parts = append(parts, n+"="+t)
		}
		sort.Strings(parts)
		return strings.Join(parts, ", ")
	}
	for i := len(w.Defs) - 1; i >= 0; i-- {
		d := w.Defs[i]
		name := prefix + d.Name
		res.flavor = d.Name
		want, ferr := fresh(name)
		if want == nil {
			return c19FlavObs{obs: &c19Obs{Aspect: "machinery", Observed: ferr}}
		}
		wantInh := inherits(name)
		wantIface := iface(name)
		f := flavors.Find(name)
		fo := lib.Protect(func() slip.Object { return f.LoadForm() })
		if !fo.Ok {
			res.obs = &c19Obs{Aspect: "no-load-form", Observed: "LoadForm of " + d.Name + " failed: " + fo.Class + ": " + fo.Msg, Expected: "a load form"}
			return
		}
		form := fo.Value
		formText := strings.ReplaceAll(c19Show(form), prefix, "")
		// model agreement (recorded once per world)
		abstract, _ := f.Simplify().(map[string]any)["abstract"].(bool)
		if m, has := model[d.Name]; has && res.broken == "" {
			if got := showStates(want); got != m["E"] && !abstract { // an abstract flavor has no instances
				res.broken = fmt.Sprintf("effective defaults of %s: implementation %s, model %s", d.Name, got, m["E"])
			} else if got := strings.Join(wantInh, " "); got != m["I"] {
				res.broken = fmt.Sprintf("inherit list of %s: implementation %s, model %s", d.Name, got, m["I"])
			} else if got := c19FlavFormVars(form); got != m["L"] {
				res.broken = fmt.Sprintf("instance variables in the load form of %s: implementation %s, model %s (form %s)", d.Name, got, m["L"], formText)
			}
		}
		check := func(mg int) *c19Obs {
			back, text, o := c19PPRead(form, mg)
			if o != nil {
				o.Form = formText
				return o
			}
			if !c19FormEqual(form, back) {
				return &c19Obs{Aspect: "unreadable", Margin: mg, Form: formText, Observed: "read(pp(form)) = " + c19Show(back) + " text=" + text, Expected: formText}
			}
			if uo := lib.EvalString(scope, fmt.Sprintf("(undefflavor '%s)", name)); !uo.Ok {
				return &c19Obs{Aspect: "machinery", Observed: "undefflavor: " + uo.Msg}
			}
			eo := lib.Protect(func() slip.Object { return slip.NewScope().Eval(back, 0) })
			if !eo.Ok {
				// put the original definition back for the remaining margins
				_ = lib.Protect(func() slip.Object { return slip.NewScope().Eval(form, 0) })
				return &c19Obs{Aspect: "eval-error", Margin: mg, Form: formText, Observed: "evaluating the load form: " + eo.Class + ": " + eo.Msg, Expected: "the flavor " + d.Name}
			}
			got, gerr := fresh(name)
			if got == nil {
				return &c19Obs{Aspect: "not-equal", Margin: mg, Form: formText, Observed: gerr, Expected: "the flavor " + d.Name}
			}
			if a, b := showStates(got), showStates(want); a != b {
				return &c19Obs{Aspect: "not-equal", Margin: mg, Form: formText, Observed: "a fresh instance of the rebuilt " + d.Name + " has " + c19FlavDiff(got, want),
					Expected: "as the original: " + c19FlavDiff(want, got)}
			}
			if a, b := strings.Join(inherits(name), " "), strings.Join(wantInh, " "); a != b {
				return &c19Obs{Aspect: "not-equal", Margin: mg, Form: formText, Observed: "rebuilt " + d.Name + " inherits " + a, Expected: "inherits " + b}
			}
			if gotIface := iface(name); strings.Join(gotIface, "\n") != strings.Join(wantIface, "\n") {
				return &c19Obs{Aspect: "not-equal", Margin: mg, Form: formText, Observed: "the rebuilt " + d.Name + ": " + ifaceDiff(gotIface, wantIface),
					Expected: "as the original: " + ifaceDiff(wantIface, gotIface)}
			}
			f2 := lib.Protect(func() slip.Object { return flavors.Find(name).LoadForm() })
			if !f2.Ok || !c19FormEqual(f2.Value, form) {
				return &c19Obs{Aspect: "not-fixed-point", Margin: mg, Form: formText, Observed: "load form of the rebuilt flavor: " + strings.ReplaceAll(c19Show(f2.Value), prefix, ""), Expected: formText}
			}
			return nil
		}
		if o := c19OverMargins(margins, all, check); o != nil {
			res.obs = o
			return
		}
		// done with this flavor: its parents become leaves
		if uo := lib.EvalString(scope, fmt.Sprintf("(undefflavor '%s)", name)); !uo.Ok {
			return c19FlavObs{obs: &c19Obs{Aspect: "machinery", Observed: "undefflavor: " + uo.Msg}}
		}
	}
	res.flavor = ""
	return
}

// c19FlavDiff lists the variables of a whose state differs from b.
func c19FlavDiff(a, b map[string]c19SlotState) string {
	var parts []string
	for n, s := range a {
		if o, has := b[n]; !has || o.String() != s.String() {
			parts = append(parts, n+" = "+s.String())
		}
	}
	for n := range b {
		if _, has := a[n]; !has {
			parts = append(parts, n+" missing")
		}
	}
	sort.Strings(parts)
	return strings.Join(parts, ", ")
}

// c19FlavFormVars: the instance variables of a defflavor form as "name=term, …" (defaults
// unquoted: the form is evaluated).
func c19FlavFormVars(form slip.Object) string {
	l, ok := c19Listify(form).(slip.List)
	if !ok || len(l) < 3 {
		return "?"
	}
	ivs, _ := l[2].(slip.List)
	var parts []string
	for _, iv := range ivs {
		switch tv := iv.(type) {
		case slip.Symbol:
			parts = append(parts, strings.ToLower(string(tv))+"=N")
		case slip.List:
			if len(tv) != 2 {
				return "?"
			}
			val := tv[1]
			if q, isList := val.(slip.List); isList && len(q) == 2 && strings.EqualFold(c19Show(q[0]), "quote") {
				val = q[1]
			}
			vt, ok := c19FormTerm(val)
			if !ok {
				return "?"
			}
			parts = append(parts, strings.ToLower(c19Show(tv[0]))+"="+vt.String())
		default:
			return "?"
		}
	}
	sort.Strings(parts)
	return strings.Join(parts, ", ")
}

func c19RunFlavors(c *lib.Ctx) {
	listed := func(cell string) bool { return c.Findings.Listed("C19", "flavor cell="+cell+" ") }
	worlds := c19FlavSweep()
	nRandom := c.Scale(150, 1200)
	for i := 0; i < nRandom; i++ {
		worlds = append(worlds, c19RandFlavWorld(c.Rng, listed))
	}
	brokenReported := false
	nFlav := 0
	for i := range worlds {
		w := &worlds[i]
		margins := c19Margins(c, w.sweep)
		if !w.sweep {
			margins = margins[:min(len(margins), 4)] // every flavor of the world is rebuilt at every margin
		}
		res := c19CheckFlavWorld(c, w, margins, w.sweep)
		nFlav += len(w.Defs)
		c.Ev.Case("f:"+w.input(), len(w.Defs) >= 3)
		c.Ev.Hist("flavor_world_size", fmt.Sprint(len(w.Defs)))
		c.Ev.Count("flavor_margin_checks", len(margins)*len(w.Defs))
		if i%(len(worlds)/2+1) == 0 {
			c.Ev.Sample(map[string]any{"leg": "flavor", "world": w.forms("")})
		}
		if res.broken != "" && !brokenReported {
			brokenReported = true
			c.ReportBroken("model:lf.flavors", map[string]any{"leg": "flavor", "world": w, "input": w.input(), "observed": res.broken,
				"expected": "effective defaults by precedence; the load form writes the variables whose default differs from what inheritance alone gives"})
		}
		if res.obs == nil {
			continue
		}
		if res.obs.Aspect == "machinery" {
			fmt.Fprintln(os.Stderr, "c19: flavor world:", res.obs.Observed, "\n", w.input())
			os.Exit(2)
		}
		sig := "flavor aspect=" + res.obs.Aspect
		if w.sweep {
			sig = fmt.Sprintf("flavor cell=%s aspect=%s at=%s", w.Cell, c19AspectM(res.obs, true), res.flavor)
		}
		c.Report(sig, w.sweep, map[string]any{"leg": "flavor", "world": w, "sweep": w.sweep, "input": w.input(), "flavor": res.flavor, "load_form": res.obs.Form,
			"margin": res.obs.Margin, "observed": res.obs.Observed, "expected": res.obs.Expected,
			"expected_from": "property statement: the flavor rebuilt from its pretty printed load form is equal to the original: every instance variable has the same default, instances handle the same operations, accept the same init keywords, and the other options of the definition are the same; model:lf.flavors",
			"relies_on":     []string{"SlipVerif.LoadForm.flavor_rebuild_same_defaults", "SlipVerif.LoadForm.session_reload_same_defaults", "SlipVerif.LoadForm.flavor_options_roundtrip"}})
	}
	c.Ev.Coverage["flavor_worlds"] = len(worlds)
	c.Ev.Coverage["flavor_values"] = nFlav
}

func c19ReplayFlavor(c *lib.Ctx, rec map[string]any) {
	w := &c19FlavWorld{}
	if err := jsonUnmarshal(mustJSON(rec["world"]), w); err != nil {
		fmt.Println("replay file has no usable flavor world:", err)
		return
	}
	res := c19CheckFlavWorld(c, w, c19Margins(c, true), true)
	fmt.Printf("replay flavors\n  %s\n", strings.Join(w.forms(""), "\n  "))
	if res.broken != "" {
		fmt.Println("  model disagreement:", res.broken)
		c.Report("flavor replay aspect=model", false, map[string]any{"observed": res.broken})
	}
	if res.obs != nil {
		fmt.Printf("  flavor %s, load form %s\n  margin %d: %s\n  observed: %s\n  expected: %s\n", res.flavor, res.obs.Form, res.obs.Margin, res.obs.Aspect, res.obs.Observed, res.obs.Expected)
		c.Report("flavor replay aspect="+res.obs.Aspect, false, map[string]any{"observed": res.obs.Observed, "expected": res.obs.Expected})
	} else if res.broken == "" {
		fmt.Println("  every rebuilt flavor gives every instance variable the default of the original, for all margins 20..120")
	}
}
