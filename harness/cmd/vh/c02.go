package main

// C02 — reading is a function of the text, not of its delivery.
//
//  (a) whole-text read (slip.ReadString / slip.Read) versus the L1 model (`read all`): objects by
//      canonical structural rendering, outcome class (ok / parse error / partial:<depth>).
//  (b) the property itself on the implementation: the whole-text result versus reading the same
//      bytes through an io.Reader that cuts them at every single position, into every fixed chunk
//      size, at random multi-cuts — ReadStream, ReadStream(one), ReadStreamPush, ReadStreamEach,
//      cl:read on a seekable stream object and on a plain input stream.
//  (c) ReadOne / read-from-string: object and end position versus the model (`read one`), and the
//      text re-read form by form from the reported positions versus the whole-text objects.
//  (d) every prefix of a text: versus the model, and versus the generator's own knowledge of where
//      a prefix stops inside a form (such a prefix must never read as ok).

import (
	"encoding/json"
	"fmt"
	"os"
	"path/filepath"
	"strconv"
	"strings"
	"sync/atomic"
	"unicode/utf8"

	"verif/harness/lib"
)

func init() { props["C02"] = runC02 }

type c02Case struct {
	T   *c02Text
	Cfg c02Cfg
	// model replies
	all c02Out
	one c02Out
	// which families to run
	prefixes bool
	heavy    bool // all chunk sizes, both EOF variants
	sweep    bool
	huge     bool // longer than a read block: only whole text and a handful of plans
}

type c02Fail struct {
	entry, cell, aspect string
	text                []byte
	cfg                 c02Cfg
	plan                c02Plan
	cutAt               int // position whose lexer mode goes into the signature (-1: end of text)
	observed, expected  string
	from                string
	sweep               bool
	prefixLen           int    // (d): the prefix length, else -1
	ops                 string // (e): the operations of a stream history
	stream              string // (f): the kind of stream
}

type c02Runner struct {
	c       *lib.Ctx
	fails   []c02Fail
	perStem map[string]int
	current atomic.Value
	// listed constructs the composite generators avoid
	byteOffsetListed, startSkipListed        bool
	streamReads, prefixReads, nontrivialCuts int
	// (f)
	eofValueListed bool
	lispCalls      int
}

func (r *c02Runner) fail(f c02Fail) {
	stem := f.entry + "|" + f.cell + "|" + f.aspect
	if r.perStem[stem] >= 40 {
		r.perStem[stem]++
		return
	}
	r.perStem[stem]++
	r.fails = append(r.fails, f)
}

func c02Req(kind string, cfg c02Cfg, text []byte) string {
	return fmt.Sprintf("read %s %d %s %s", kind, cfg.Base, cfg.Fmt, c02Hex(text))
}

func c02Outcome(o c02Out) string {
	if o.Ok {
		return "ok"
	}
	return "err " + o.Class
}

// c02Plans lists the cut plans for a text of length n.
func c02Plans(rng *lib.Rng, n int, heavy bool, nRandom int) []c02Plan {
	var plans []c02Plan
	alt := false
	flip := func() bool { alt = !alt; return alt }
	for k := 1; k < n; k++ {
		plans = append(plans, c02Plan{Cuts: []int{k}, EofWith: flip()})
		if heavy {
			plans = append(plans, c02Plan{Cuts: []int{k}, EofWith: flip()})
		}
	}
	sizes := []int{}
	if heavy || n <= 24 {
		for s := 1; s <= n; s++ {
			sizes = append(sizes, s)
		}
	} else {
		for s := 1; s <= 8; s++ {
			sizes = append(sizes, s)
		}
		for i := 0; i < 4; i++ {
			sizes = append(sizes, 9+rng.Intn(n-8))
		}
		sizes = append(sizes, n)
	}
	for _, s := range sizes {
		var cuts []int
		for k := s; k < n; k += s {
			cuts = append(cuts, k)
		}
		plans = append(plans, c02Plan{Cuts: cuts, EofWith: flip(), Zero: heavy && s%3 == 0})
	}
	for i := 0; i < nRandom && n > 2; i++ {
		var cuts []int
		p := 1 + rng.Intn(4)
		for k := 1; k < n; k++ {
			if rng.Intn(10) < p {
				cuts = append(cuts, k)
			}
		}
		plans = append(plans, c02Plan{Cuts: cuts, EofWith: rng.Bool(), Zero: rng.Chance(15)})
	}
	// the whole text in one block (the only path the pinned tests take)
	plans = append(plans, c02Plan{EofWith: false}, c02Plan{EofWith: true})
	return plans
}

func c02AllASCII(b []byte) bool {
	for _, x := range b {
		if x >= 0x80 {
			return false
		}
	}
	return true
}

func runC02(c *lib.Ctx) {
	if c.Replay != "" {
		c02Replay(c)
		return
	}
	r := &c02Runner{c: c, perStem: map[string]int{}}
	// watchdog: a reader that no longer terminates must not hang the check. It is load independent (CPU
	// time inside one call, confirmed by re-running the case alone) and ends the run with a VIOLATION
	// (aspect=hang) and a replay, see c02alone.go.
	r.current.Store("start")
	if p := os.Getenv(c02AloneEnv); p != "" {
		c02AloneWorker(c, p)
	}
	c02Watchdog(c, func(j *c02Job, detail string) { r.reportHang(j, detail) })
	// warm the reader's lazily initialised constructors (quote, function, backquote, comma, comma-at)
	_ = c02Run(c02EReadString, []byte("'a #'b `(c ,d ,@e)"), c02Plan{}, c02MakeCfg(10, "double-float"))

	if c.GenBroken != "" {
		c.Ev.Coverage["gen_broken_note"] = "a generated table obligation no longer builds; the correspondence and the direct stream checks below search for an input on which the implementation now fails the property"
	}

	floatSyms := []string{"double-float", "single-float", "short-float", "long-float"}
	fixedCfgs := []c02Cfg{c02MakeCfg(10, "double-float"), c02MakeCfg(16, "single-float"), c02MakeCfg(2, "long-float"), c02MakeCfg(36, "short-float"), c02MakeCfg(8, "double-float")}

	var cases []*c02Case
	// --- single-cause sweep (seed independent): every cell under the default configuration, every
	// single cut, every chunk size, both EOF variants, all prefixes; and under two more read bases.
	for _, t := range c02SweepTexts() {
		cases = append(cases, &c02Case{T: t, Cfg: fixedCfgs[0], prefixes: true, heavy: true, sweep: true})
		cases = append(cases, &c02Case{T: t, Cfg: fixedCfgs[1], prefixes: true, heavy: false, sweep: true})
		if c.Thorough() {
			for _, cfg := range fixedCfgs[2:] {
				cases = append(cases, &c02Case{T: t, Cfg: cfg, prefixes: true, heavy: false, sweep: true})
			}
		}
	}
	nSweep := len(cases)
	// --- random composite texts
	// --- texts longer than the 64 KiB read block: the stream readers meet their natural block
	// boundary (a reader without cuts), plus a few forced cuts
	for i := 0; i < c.Scale(1, 4); i++ {
		t := c02HugeText(c.Rng, 10, 70000+c.Rng.Intn(90000), func(piece []byte) bool {
			return c02Run(c02EReadString, piece, c02Plan{}, fixedCfgs[0]).Ok
		})
		if len(t.Text) < 66000 {
			continue
		}
		cases = append(cases, &c02Case{T: t, Cfg: fixedCfgs[0], huge: true})
	}
	nRandom := c.Scale(2000, 9000)
	for i := 0; i < nRandom; i++ {
		base := 10
		switch c.Rng.Intn(10) {
		case 0, 1, 2:
			base = 2 + c.Rng.Intn(35)
		case 3:
			base = 16
		}
		cfg := c02MakeCfg(base, floatSyms[c.Rng.Intn(len(floatSyms))])
		if c.Rng.Chance(50) {
			cfg = c02MakeCfg(base, "double-float")
		}
		big := c.Rng.Chance(3)
		t := c02RandomText(c.Rng, base, big)
		if len(t.Text) == 0 {
			continue
		}
		cases = append(cases, &c02Case{T: t, Cfg: cfg, prefixes: !big && c.Rng.Chance(c.Scale(30, 50)), heavy: !big && c.Rng.Chance(10)})
	}

	// --- model requests: whole text, one form, prefixes
	c02Leave()
	var reqs []string
	type slot struct {
		cs   *c02Case
		kind string
		k    int
	}
	var slots []slot
	for _, cs := range cases {
		reqs = append(reqs, c02Req("all", cs.Cfg, cs.T.Text))
		slots = append(slots, slot{cs, "all", -1})
		reqs = append(reqs, c02Req("one", cs.Cfg, cs.T.Text))
		slots = append(slots, slot{cs, "one", -1})
		if cs.prefixes {
			for k := 0; k < len(cs.T.Text); k++ {
				reqs = append(reqs, c02Req("all", cs.Cfg, cs.T.Text[:k]))
				slots = append(slots, slot{cs, "prefix", k})
			}
		}
	}
	reqs = append(reqs, "read tablesok")
	c02Leave()
	replies := c.Model(reqs)
	if replies[len(replies)-1] != "ok t" {
		// the model no longer covers the tables: every comparison with the model below is still made
		c.Ev.Coverage["tables_ok"] = false
	} else {
		c.Ev.Coverage["tables_ok"] = true
	}
	prefixModel := map[*c02Case][]c02Out{}
	for i, sl := range slots {
		switch sl.kind {
		case "all":
			sl.cs.all = c02Expected(replies[i])
		case "one":
			sl.cs.one = c02Expected(replies[i])
		case "prefix":
			prefixModel[sl.cs] = append(prefixModel[sl.cs], c02Expected(replies[i]))
		}
	}

	// listed constructs the composite generators must avoid (findings/C02.json)
	r.byteOffsetListed = c.Findings.Listed("C02", "entry=read-from-string cell=")
	r.startSkipListed = c.Findings.Listed("C02", "entry=read-from-string(:start)")
	c.Ev.Coverage["avoided_listed_constructs"] = map[string]bool{
		"read-from-string position on non-ASCII text (composite)":               r.byteOffsetListed,
		"read-from-string :start n without :preserve-whitespace (form by form)": r.startSkipListed,
	}

	// --- single-cause sweep for read-from-string :start (seed independent)
	c02RfsStartSweep(c, r)

	// --- run
	for ci, cs := range cases {
		var plans []c02Plan
		if cs.huge {
			n := len(cs.T.Text)
			plans = []c02Plan{{}, {EofWith: true}, {Cuts: []int{65536}}, {Cuts: []int{1 + c.Rng.Intn(n-1)}},
				{Cuts: []int{n / 3, 2 * n / 3}, Zero: true}, {Cuts: []int{65535, 65536, 65537}, EofWith: true}}
		}
		r.checkCase(cs, plans, prefixModel[cs], ci%(len(cases)/10+1) == 0 && !cs.huge)
	}

	// --- (e) histories mixing cl:read with character level operations on one stream
	c02Leave()
	c02Histories(c, r, cases[nSweep:])

	// --- (f) the secondary entry points, called through Lisp: read-each, read-push, read in a loop, load
	c02Leave()
	cpu0 := c02CPUSeconds()
	c02LispFamily(c, r, cases[:nSweep], cases[nSweep:])
	c02Leave()
	// informational only (CPU seconds of this process; no verdict depends on a time)
	c.Ev.Coverage["cpu_s_lisp_family"] = int(c02CPUSeconds() - cpu0 + 0.5)
	c.Ev.Coverage["cpu_s_all_families"] = int(c02CPUSeconds() + 0.5)

	// --- signatures need the lexer mode at the cut: ask the model
	var modeReqs []string
	for _, f := range r.fails {
		at := f.cutAt
		if at < 0 || at > len(f.text) {
			at = len(f.text)
		}
		modeReqs = append(modeReqs, c02Req("mode", f.cfg, f.text[:at]))
	}
	modes := c.Model(modeReqs)
	for i, f := range r.fails {
		mode := strings.TrimPrefix(modes[i], "ok ")
		sig := fmt.Sprintf("entry=%s cell=%s mode=%s aspect=%s", f.entry, f.cell, mode, f.aspect)
		rep := map[string]any{
			"entry": f.entry,
			"input": map[string]any{"text": string(f.text), "text_hex": c02Hex(f.text), "cuts": f.plan.Cuts, "eof_with_last": f.plan.EofWith, "zero_reads": f.plan.Zero,
				"read_base": f.cfg.Base, "float_format": f.cfg.Sym, "ops": f.ops},
			"observed": f.observed, "expected": f.expected, "expected_from": f.from,
			"relies_on": []string{"SlipVerif.Theorems.C02.blocks_refine_bytes", "SlipVerif.Theorems.C02.chunk_invariance_spec"},
		}
		if f.stream != "" {
			rep["input"].(map[string]any)["stream_kind"] = f.stream
		}
		c.Report(sig, f.sweep, rep)
	}
	r.finishCoverage(len(cases), nSweep)
}

// finishCoverage fills the coverage entries every run must have.
func (r *c02Runner) finishCoverage(nCases, nSweep int) {
	c := r.c
	sigs := []string{}
	for _, v := range c.Violations {
		sigs = append(sigs, v.Signature)
	}
	c.Ev.Coverage["violation_signatures"] = sigs
	total := 0
	for _, n := range r.perStem {
		total += n
	}
	c.Ev.Coverage["disagreements_checked"] = total
	c.Ev.Coverage["traces_validated_against_impl"] = nCases + r.prefixReads
	c.Ev.Coverage["texts"] = nCases
	c.Ev.Coverage["sweep_texts"] = nSweep
	c.Ev.Coverage["random_texts"] = nCases - nSweep
	c.Ev.Coverage["stream_reads"] = r.streamReads
	c.Ev.Coverage["prefix_reads"] = r.prefixReads
	c.Ev.Coverage["plans_with_cut_inside_a_token"] = r.nontrivialCuts
	c.Ev.Coverage["entry_points"] = append([]string{c02EReadString, c02ERead, c02EReadOne, c02EStream, c02EStreamOne, c02EStreamPush, c02EStreamEach, c02EClReadSeek, c02EClRead, c02EReadFromStr, c02EFormByForm, c02ERfsFormByForm}, c02LispEntries...)
	c.Ev.Coverage["rule"] = "case = (text, configuration[, cut plan | prefix length]); non-trivial = the text has >= 2 tokens and, for cut cases, a cut falls strictly inside a token/string/escape/dispatch/comment; distinct by (configuration, text, cuts, eof variant)"
}

// reportHang: the watchdog found a call into the reader that does not return, and a worker process
// that ran the same case alone did not finish either. Report it and end the run (the goroutine
// that made the call is still inside it).
func (r *c02Runner) reportHang(j *c02Job, detail string) {
	c := r.c
	entry := j.Entry
	switch j.Kind {
	case "hist":
		entry = "history(" + j.StreamKind + ")"
	case "lisp":
		entry = j.Entry + "(" + j.StreamKind + ")"
	case "fbf":
		entry = c02EFormByForm
	case "rfsfbf":
		entry = c02ERfsFormByForm
	case "rfsat":
		entry = "read-from-string(:start)"
	}
	cell := "random"
	if p := c02CurCell.Load(); p != nil {
		cell = *p
	}
	at := len(j.bytes())
	if len(j.Plan.Cuts) > 0 && j.Plan.Cuts[0] < at {
		at = j.Plan.Cuts[0]
	}
	mode := strings.TrimPrefix(c.Model([]string{c02Req("mode", j.cfg(), j.bytes()[:at])})[0], "ok ")
	sig := fmt.Sprintf("entry=%s cell=%s mode=%s aspect=hang", entry, cell, mode)
	c.Report(sig, false, map[string]any{
		"entry": entry, "job": j,
		"input": map[string]any{"text": string(j.bytes()), "text_hex": c02Hex(j.bytes()), "cuts": j.Plan.Cuts, "eof_with_last": j.Plan.EofWith, "zero_reads": j.Plan.Zero,
			"read_base": j.Base, "float_format": j.Sym, "ops": j.Ops, "stream_kind": j.StreamKind},
		"observed": "the call does not return; re-run alone in a worker process: " + detail, "expected": "the reader terminates on every text",
		"expected_from": "model (total functions)",
	})
	c.Ev.Coverage["run_ended_by_hang"] = sig
	r.finishCoverage(0, 0)
	os.Exit(c.Finish())
}

// checkCase runs every comparison for one (text, configuration). plans == nil: the standard cut
// plans; prefixModel: the model's replies for the prefixes (when cs.prefixes).
func (r *c02Runner) checkCase(cs *c02Case, plans []c02Plan, prefixModel []c02Out, sample bool) {
	c := r.c
	t := cs.T
	text := t.Text
	cell := t.Name
	r.current.Store(fmt.Sprintf("%s %q %s", cell, text, cs.Cfg))
	c02CurCell.Store(&cell)
	c.Ev.Hist("text_len", c02Bucket(len(text)))
	for _, k := range t.Kinds {
		c.Ev.Hist("token_kind", k)
	}
	c.Ev.Hist("read_base", strconv.Itoa(cs.Cfg.Base))
	c.Ev.Hist("float_format", cs.Cfg.Sym)

	// (a) whole text vs model
	whole := c02Run(c02EReadString, text, c02Plan{}, cs.Cfg)
	c.Ev.Hist("whole_outcome", strings.SplitN(c02Outcome(whole), ":", 2)[0])
	if cs.huge {
		hs, _ := c.Ev.Coverage["huge_texts"].([]string)
		c.Ev.Coverage["huge_texts"] = append(hs, fmt.Sprintf("%d bytes: %s, %d objects; %s", len(text), c02Outcome(whole), len(whole.Objs), whole.Msg))
	}
	c.Ev.Case("a|"+cs.Cfg.String()+"|"+string(text), t.Toks >= 2)
	modelKnown := cs.all.Class != "unsupported"
	if !modelKnown {
		c.Ev.Count("model_unsupported", 1)
	} else {
		if whole.Ok != cs.all.Ok || (!whole.Ok && whole.Class != cs.all.Class) {
			r.fail(c02Fail{entry: c02EReadString, cell: cell, aspect: "outcome", text: text, cfg: cs.Cfg, cutAt: -1, observed: whole.String(), expected: cs.all.String(), from: "model:read.all", sweep: cs.sweep, prefixLen: -1})
		} else if whole.Ok && !c02SameObjs(whole.Objs, cs.all.Objs) {
			r.fail(c02Fail{entry: c02EReadString, cell: cell, aspect: "objects", text: text, cfg: cs.Cfg, cutAt: -1, observed: whole.String(), expected: cs.all.String(), from: "model:read.all", sweep: cs.sweep, prefixLen: -1})
		}
	}
	if w2 := c02Run(c02ERead, text, c02Plan{}, cs.Cfg); w2.Ok != whole.Ok || w2.Class != whole.Class || !c02SameObjs(w2.Objs, whole.Objs) {
		r.fail(c02Fail{entry: c02ERead, cell: cell, aspect: "objects", text: text, cfg: cs.Cfg, cutAt: -1, observed: w2.String(), expected: whole.String(), from: "impl:ReadString", sweep: cs.sweep, prefixLen: -1})
	}
	if sample {
		c.Ev.Sample(map[string]string{"text": string(text), "config": cs.Cfg.String(), "impl": whole.String(), "model": cs.all.String()})
	}
	// objects finished before an error (the most a push/each consumer may have seen)
	before := cs.all.Objs

	// (c) one form and its end position
	one := c02Run(c02EReadOne, text, c02Plan{}, cs.Cfg)
	oneKnown := cs.one.Class != "unsupported"
	if oneKnown {
		switch {
		case cs.one.Ok:
			if !one.Ok || len(one.Objs) == 0 || one.Objs[0] != cs.one.Objs[0] {
				r.fail(c02Fail{entry: c02EReadOne, cell: cell, aspect: "objects", text: text, cfg: cs.Cfg, cutAt: -1, observed: one.String(), expected: cs.one.String(), from: "model:read.one", sweep: cs.sweep, prefixLen: -1})
			} else if one.Pos != cs.one.Pos {
				r.fail(c02Fail{entry: c02EReadOne, cell: cell, aspect: "position", text: text, cfg: cs.Cfg, cutAt: cs.one.Pos, observed: one.String(), expected: cs.one.String(), from: "model:read.one", sweep: cs.sweep, prefixLen: -1})
			}
		case cs.one.Class == "eof":
			if !one.Ok || len(one.Objs) != 0 {
				r.fail(c02Fail{entry: c02EReadOne, cell: cell, aspect: "outcome", text: text, cfg: cs.Cfg, cutAt: -1, observed: one.String(), expected: "ok with no object", from: "model:read.one", sweep: cs.sweep, prefixLen: -1})
			}
		default:
			if one.Ok || one.Class != cs.one.Class {
				r.fail(c02Fail{entry: c02EReadOne, cell: cell, aspect: "outcome", text: text, cfg: cs.Cfg, cutAt: -1, observed: one.String(), expected: cs.one.String(), from: "model:read.one", sweep: cs.sweep, prefixLen: -1})
			}
		}
		// read-from-string: same object, position as a character index (known finding: it is a
		// byte offset — composite texts keep to ASCII up to the end of the first form)
		rfs := c02Run(c02EReadFromStr, text, c02Plan{}, cs.Cfg)
		if cs.one.Ok && utf8.Valid(text) && (cs.sweep || !r.byteOffsetListed || c02AllASCII(text[:cs.one.Pos])) {
			wantPos := utf8.RuneCount(text[:cs.one.Pos])
			if !rfs.Ok || len(rfs.Objs) == 0 || rfs.Objs[0] != cs.one.Objs[0] {
				r.fail(c02Fail{entry: c02EReadFromStr, cell: cell, aspect: "objects", text: text, cfg: cs.Cfg, cutAt: -1, observed: rfs.String(), expected: cs.one.String(), from: "model:read.one", sweep: cs.sweep, prefixLen: -1})
			} else if rfs.Pos != wantPos {
				r.fail(c02Fail{entry: c02EReadFromStr, cell: cell, aspect: "position", text: text, cfg: cs.Cfg, cutAt: cs.one.Pos, observed: rfs.String(), expected: fmt.Sprintf("position %d (characters)", wantPos), from: "model:read.one", sweep: cs.sweep, prefixLen: -1})
			}
		}
	}
	// form by form from the reported positions: the same objects as the whole text
	checkSeq := func(entry string, got c02Out) {
		switch {
		case whole.Ok:
			if !got.Ok {
				r.fail(c02Fail{entry: entry, cell: cell, aspect: "outcome", text: text, cfg: cs.Cfg, cutAt: -1, observed: got.String(), expected: whole.String(), from: "impl:ReadString", sweep: cs.sweep, prefixLen: -1})
			} else if !c02SameObjs(got.Objs, whole.Objs) {
				r.fail(c02Fail{entry: entry, cell: cell, aspect: "objects", text: text, cfg: cs.Cfg, cutAt: -1, observed: got.String(), expected: whole.String(), from: "impl:ReadString", sweep: cs.sweep, prefixLen: -1})
			}
		default:
			if got.Ok {
				r.fail(c02Fail{entry: entry, cell: cell, aspect: "outcome", text: text, cfg: cs.Cfg, cutAt: -1, observed: got.String(), expected: whole.String(), from: "impl:ReadString", sweep: cs.sweep, prefixLen: -1})
			} else if modelKnown && !c02IsPrefix(got.Objs, before) {
				r.fail(c02Fail{entry: entry, cell: cell, aspect: "delivered", text: text, cfg: cs.Cfg, cutAt: -1, observed: got.String(), expected: "a prefix of " + strings.Join(before, " "), from: "model:read.all", sweep: cs.sweep, prefixLen: -1})
			}
		}
	}
	checkSeq(c02EFormByForm, c02FormByForm(text, cs.Cfg))
	if !cs.huge && utf8.Valid(text) && (!r.byteOffsetListed || c02AllASCII(text)) {
		checkSeq(c02ERfsFormByForm, c02RfsFormByForm(text, cs.Cfg, true))
		if !r.startSkipListed {
			checkSeq(c02ERfsFormByForm+"/skip-ws", c02RfsFormByForm(text, cs.Cfg, false))
		}
	}

	// (b) the same bytes through a stream, cut in pieces
	nRand := c.Scale(3, 8)
	if cs.sweep {
		nRand = 6
	}
	if plans == nil {
		plans = c02Plans(c.Rng, len(text), cs.heavy, nRand)
	}
	for pi, plan := range plans {
		inner := false
		for _, k := range plan.Cuts {
			if k < len(t.Inner) && t.Inner[k] {
				inner = true
			}
		}
		if inner {
			r.nontrivialCuts++
		}
		cutAt := -1
		if len(plan.Cuts) > 0 {
			cutAt = plan.Cuts[0]
		}
		c.Ev.Case(fmt.Sprintf("b|%s|%s|%v|%v", cs.Cfg.String(), text, plan.Cuts, plan.EofWith), t.Toks >= 2 && inner)
		kind := "single-cut"
		if len(plan.Cuts) == 0 {
			kind = "one-block"
		} else if len(plan.Cuts) > 1 {
			kind = "multi-cut"
		}
		c.Ev.Hist("plan_kind", kind)
		mk := func(entry, aspect string, got c02Out, want string, from string) c02Fail {
			return c02Fail{entry: entry, cell: cell, aspect: aspect, text: text, cfg: cs.Cfg, plan: plan, cutAt: cutAt, observed: got.String(), expected: want, from: from, sweep: cs.sweep, prefixLen: -1}
		}
		for _, entry := range []string{c02EStream, c02EStreamPush, c02EStreamEach} {
			got := c02Run(entry, text, plan, cs.Cfg)
			r.streamReads++
			switch {
			case whole.Ok:
				if !got.Ok {
					r.fail(mk(entry, "outcome", got, whole.String(), "impl:ReadString"))
				} else if !c02SameObjs(got.Objs, whole.Objs) {
					r.fail(mk(entry, "objects", got, whole.String(), "impl:ReadString"))
				} else if entry == c02EStream && got.Pos != len(text) {
					r.fail(mk(entry, "position", got, fmt.Sprintf("position %d", len(text)), "impl:ReadString"))
				}
			default:
				if got.Ok || got.Class != whole.Class {
					r.fail(mk(entry, "outcome", got, whole.String(), "impl:ReadString"))
				} else if entry != c02EStream && modelKnown && !c02IsPrefix(got.Objs, before) {
					r.fail(mk(entry, "delivered", got, "a prefix of "+strings.Join(before, " "), "model:read.all"))
				}
			}
		}
		// one form through a stream
		got := c02Run(c02EStreamOne, text, plan, cs.Cfg)
		r.streamReads++
		switch {
		case one.Ok && len(one.Objs) > 0:
			if !got.Ok || len(got.Objs) == 0 || got.Objs[0] != one.Objs[0] {
				r.fail(mk(c02EStreamOne, "objects", got, one.String(), "impl:ReadOne"))
			} else if got.Pos != one.Pos {
				r.fail(mk(c02EStreamOne, "position", got, one.String(), "impl:ReadOne"))
			}
		case one.Ok:
			if !got.Ok || len(got.Objs) != 0 {
				r.fail(mk(c02EStreamOne, "outcome", got, one.String(), "impl:ReadOne"))
			}
		default:
			if got.Ok || got.Class != one.Class {
				r.fail(mk(c02EStreamOne, "outcome", got, one.String(), "impl:ReadOne"))
			}
		}
		// cl:read on a seekable stream object (ReadStream path + seek to the end of the form)
		if pi%4 == 0 || cs.sweep {
			got := c02Run(c02EClReadSeek, text, plan, cs.Cfg)
			r.streamReads++
			switch {
			case one.Ok && len(one.Objs) > 0:
				if !got.Ok || got.Objs[0] != one.Objs[0] {
					r.fail(mk(c02EClReadSeek, "objects", got, one.String(), "impl:ReadOne"))
				} else if got.Pos != one.Pos {
					r.fail(mk(c02EClReadSeek, "position", got, one.String(), "impl:ReadOne"))
				}
			default:
				if got.Ok {
					r.fail(mk(c02EClReadSeek, "outcome", got, one.String(), "impl:ReadOne"))
				}
			}
		}
	}
	// cl:read on a plain (not seekable) input stream: the first form
	{
		got := c02Run(c02EClRead, text, c02Plan{}, cs.Cfg)
		r.streamReads++
		switch {
		case one.Ok && len(one.Objs) > 0:
			if !got.Ok || got.Objs[0] != one.Objs[0] {
				r.fail(c02Fail{entry: c02EClRead, cell: cell, aspect: "objects", text: text, cfg: cs.Cfg, cutAt: -1, observed: got.String(), expected: one.String(), from: "impl:ReadOne", sweep: cs.sweep, prefixLen: -1})
			}
		default:
			if got.Ok {
				r.fail(c02Fail{entry: c02EClRead, cell: cell, aspect: "outcome", text: text, cfg: cs.Cfg, cutAt: -1, observed: got.String(), expected: one.String(), from: "impl:ReadOne", sweep: cs.sweep, prefixLen: -1})
			}
		}
	}

	// (d) every prefix
	if cs.prefixes {
		pm := prefixModel
		for k := 0; k < len(text); k++ {
			got := c02Run(c02EReadString, text[:k], c02Plan{}, cs.Cfg)
			r.prefixReads++
			c.Ev.Case(fmt.Sprintf("d|%s|%s|%d", cs.Cfg.String(), text, k), t.Toks >= 2 && k > 0)
			want := pm[k]
			if t.Clean && t.Open[k] {
				c.Ev.Count("prefix_open_by_generator", 1)
				if got.Ok {
					r.fail(c02Fail{entry: "ReadString(prefix)", cell: cell, aspect: "truncation", text: text[:k], cfg: cs.Cfg, cutAt: -1, observed: got.String(), expected: "incomplete or parse error: the text stops inside a form", from: "generator", sweep: cs.sweep, prefixLen: k})
					continue
				}
			}
			if want.Class == "unsupported" {
				continue
			}
			if got.Ok != want.Ok || (!got.Ok && got.Class != want.Class) {
				r.fail(c02Fail{entry: "ReadString(prefix)", cell: cell, aspect: "outcome", text: text[:k], cfg: cs.Cfg, cutAt: -1, observed: got.String(), expected: want.String(), from: "model:read.all", sweep: cs.sweep, prefixLen: k})
			} else if got.Ok && !c02SameObjs(got.Objs, want.Objs) {
				r.fail(c02Fail{entry: "ReadString(prefix)", cell: cell, aspect: "objects", text: text[:k], cfg: cs.Cfg, cutAt: -1, observed: got.String(), expected: want.String(), from: "model:read.all", sweep: cs.sweep, prefixLen: k})
			}
			if !got.Ok {
				c.Ev.Hist("prefix_outcome", strings.SplitN(got.Class, ":", 2)[0])
			} else {
				c.Ev.Hist("prefix_outcome", "ok")
			}
		}
	}
}

// c02RfsStartSweep: (read-from-string text nil eof :start n) for every n of a few fixed texts. The
// form must be the one the model reads from text[n:], and the reported position must be the end of
// that form, possibly followed by skipped whitespace only.
func c02RfsStartSweep(c *lib.Ctx, r *c02Runner) {
	cfg := c02MakeCfg(10, "double-float")
	texts := []struct{ name, text string }{{"rfs-a", "xxa b  c"}, {"rfs-b", "(a) \"b\"  c  d"}}
	type q struct {
		name  string
		text  []byte
		start int
	}
	var qs []q
	var reqs []string
	for _, t := range texts {
		for n := 0; n < len(t.text); n++ {
			qs = append(qs, q{t.name, []byte(t.text), n})
			reqs = append(reqs, c02Req("one", cfg, []byte(t.text[n:])))
		}
	}
	c02Leave()
	replies := c.Model(reqs)
	for i, x := range qs {
		want := c02Expected(replies[i])
		for _, pw := range []bool{true, false} {
			got := c02RfsAt(x.text, cfg, x.start, pw)
			c.Ev.Case(fmt.Sprintf("rfs|%s|%d|%v", x.text, x.start, pw), true)
			cell := fmt.Sprintf("%s@%d", x.name, x.start)
			entry := "read-from-string(:start)"
			if !pw {
				entry = "read-from-string(:start)/skip-ws"
			}
			mk := func(aspect, expected string) c02Fail {
				return c02Fail{entry: entry, cell: cell, aspect: aspect, text: x.text, cfg: cfg, cutAt: x.start, observed: got.String(), expected: expected, from: "model:read.one", sweep: true, prefixLen: -1,
					plan: c02Plan{Cuts: []int{x.start}}}
			}
			switch {
			case want.Ok:
				end := x.start + want.Pos
				if !got.Ok || len(got.Objs) == 0 || got.Objs[0] != want.Objs[0] {
					r.fail(mk("objects", want.String()))
					continue
				}
				okPos := got.Pos == end
				if !pw && got.Pos > end && got.Pos <= len(x.text) && strings.TrimLeft(string(x.text[end:got.Pos]), " \t\r\n") == "" {
					okPos = true
				}
				if !okPos {
					r.fail(mk("position", fmt.Sprintf("object %s and position %d (then only whitespace may be skipped)", want.Objs[0], end)))
				}
			case want.Class == "eof":
				if !got.Ok || len(got.Objs) != 0 {
					r.fail(mk("outcome", "the eof value"))
				}
			default:
				if got.Ok {
					r.fail(mk("outcome", want.String()))
				}
			}
		}
	}
}

func c02Bucket(n int) string {
	switch {
	case n < 8:
		return "<8"
	case n < 32:
		return "8-31"
	case n < 128:
		return "32-127"
	case n < 512:
		return "128-511"
	}
	return ">=512"
}

// c02Replay re-runs exactly the recorded case through the same comparisons as the run.
func c02Replay(c *lib.Ctx) {
	var rec map[string]any
	path := c.Replay
	if _, err := os.Stat(path); err != nil && !filepath.IsAbs(path) {
		path = filepath.Join(c.Root, path) // the harness runs in .work/run/C02
	}
	if err := lib.ReadJSON(path, &rec); err != nil {
		fmt.Println("cannot read replay file:", err)
		os.Exit(2)
	}
	in, _ := rec["input"].(map[string]any)
	entry, _ := rec["entry"].(string)
	if in == nil || entry == "" {
		fmt.Println("replay file has no input (a broken obligation without a failing input):", rec["broken"])
		return
	}
	hex, _ := in["text_hex"].(string)
	text := []byte(lib.Unhex(hex))
	base := 10
	if b, ok := in["read_base"].(float64); ok {
		base = int(b)
	}
	sym, _ := in["float_format"].(string)
	cfg := c02MakeCfg(base, sym)
	var plan c02Plan
	if cs, ok := in["cuts"].([]any); ok {
		for _, x := range cs {
			if f, ok := x.(float64); ok {
				plan.Cuts = append(plan.Cuts, int(f))
			}
		}
	}
	plan.EofWith, _ = in["eof_with_last"].(bool)
	plan.Zero, _ = in["zero_reads"].(bool)
	sig, _ := rec["signature"].(string)
	cell, aspect := "replay", ""
	for _, w := range strings.Fields(sig) {
		if v, ok := strings.CutPrefix(w, "cell="); ok {
			cell = v
		}
		if v, ok := strings.CutPrefix(w, "aspect="); ok {
			aspect = v
		}
	}
	_ = c02Run(c02EReadString, []byte("'a #'b `(c ,d ,@e)"), c02Plan{}, c02MakeCfg(10, "double-float"))
	r := &c02Runner{c: c, perStem: map[string]int{}}
	r.current.Store("replay")
	replies := c.Model([]string{c02Req("all", cfg, text), c02Req("one", cfg, text)})
	all, one := c02Expected(replies[0]), c02Expected(replies[1])
	whole := c02Run(c02EReadString, text, c02Plan{}, cfg)
	fmt.Printf("replay entry=%s text=%q cuts=%v eof_with_last=%v %s\n", entry, text, plan.Cuts, plan.EofWith, cfg)
	fmt.Printf("  whole text (impl)   : %s\n", whole)
	fmt.Printf("  one form (impl)     : %s\n", c02Run(c02EReadOne, text, c02Plan{}, cfg))
	fmt.Printf("  model read.all      : %s\n", all)
	fmt.Printf("  model read.one      : %s\n", one)
	fmt.Printf("  recorded observed   : %v\n  recorded expected   : %v (%v)\n", rec["observed"], rec["expected"], rec["expected_from"])
	wantEntry := entry
	switch {
	case strings.HasPrefix(entry, "history("):
		kind := strings.TrimSuffix(strings.TrimPrefix(entry, "history("), ")")
		ops, _ := in["ops"].(string)
		want := c02Expected(c.Model([]string{fmt.Sprintf("read hist %d %s %s %s", cfg.Base, cfg.Fmt, c02Hex(text), ops)})[0])
		for k, it := range want.Objs {
			if strings.HasPrefix(it, "failed:") {
				want.Objs[k] = "failed"
			}
		}
		got := c02RunHistTimed(c, kind, text, ops, plan, cfg, c.OutDir)
		fmt.Printf("  history ops         : %s on %s\n", ops, kind)
		if !c02SameObjs(got, want.Objs) {
			r.fail(c02Fail{entry: entry, cell: cell, aspect: aspect, text: text, cfg: cfg, plan: plan, cutAt: -1,
				observed: "ops " + ops + " → " + strings.Join(got, " "), expected: strings.Join(want.Objs, " "), from: "model:read.hist", prefixLen: -1, ops: ops})
		}
	case aspect == "hang":
		// a call that did not return: re-run it the way it was confirmed, alone in a worker process
		var job c02Job
		if b, err := json.Marshal(rec["job"]); err != nil || json.Unmarshal(b, &job) != nil || job.Kind == "" {
			fmt.Println("replay file has no job")
			os.Exit(2)
		}
		res, verdict, detail := c02RunAlone(c, &job)
		if verdict != "done" {
			r.fail(c02Fail{entry: entry, cell: cell, aspect: aspect, text: text, cfg: cfg, plan: plan, cutAt: -1,
				observed: "re-run alone in a worker process: " + verdict + ": " + detail, expected: "the reader terminates on every text", from: "model (total functions)", prefixLen: -1})
		} else {
			fmt.Printf("  re-run alone        : terminates: %v %v\n", res.Out, res.Trace)
		}
	case strings.HasPrefix(entry, "lisp:"):
		kind, _ := in["stream_kind"].(string)
		c02LispReplay(c, r, entry, cell, text, plan, cfg, all, kind)
	case strings.HasPrefix(entry, "read-from-string(:start)"):
		c02RfsStartSweep(c, r)
	case entry == "ReadString(prefix)":
		// the recorded text is the prefix itself
		wantEntry = c02EReadString
		if aspect == "truncation" && whole.Ok {
			r.fail(c02Fail{entry: c02EReadString, cell: cell, aspect: aspect, text: text, cfg: cfg, cutAt: -1, observed: whole.String(),
				expected: "incomplete or parse error: the text stops inside a form", from: "generator", prefixLen: -1})
		}
		fallthrough
	default:
		t := &c02Text{Name: cell, Text: text, Open: make([]bool, len(text)+1), Inner: make([]bool, len(text)+1), Toks: 2}
		cs := &c02Case{T: t, Cfg: cfg, all: all, one: one}
		r.checkCase(cs, []c02Plan{plan}, nil, false)
	}
	still := 0
	for _, f := range r.fails {
		if f.entry != wantEntry || (strings.HasPrefix(entry, "read-from-string(:start)") && !strings.Contains(sig, "cell="+f.cell+" ")) {
			continue
		}
		still++
		fmt.Printf("  observed now        : %s\n  expected now        : %s (%s) [aspect %s]\n", f.observed, f.expected, f.from, f.aspect)
		c.Report(sig, false, map[string]any{"entry": entry, "input": in, "observed": f.observed, "expected": f.expected, "expected_from": f.from})
	}
	if still == 0 {
		fmt.Printf("  observed now        : agrees with the expectation for entry %s\n", wantEntry)
	}
}
