package main

// C15, extension round 3 — two systematic families.
//
// (1) HISTORIES (mode "seq"): several format calls evaluated one after the other in ONE process, each
//     compared with the model on its own. The family is what a process-wide cache, a memoised spelling,
//     a shared scratch buffer or a table modified in place would break: the same directive with the
//     sign-flipped argument (-v then v, v then -v, -v v -v), the same call twice, related directives on
//     the same value in both orders (cardinal/ordinal, roman/old roman, plain/grouped/signed/padded,
//     ~A/~S), neighbouring values. Every history uses values no other case of the run uses and the
//     histories are the FIRST cases of the first worker (a fresh process), so what a call sees is
//     determined by its history alone — the verdict does not depend on the seed or on scheduling.
//
// (2) NESTED CONDITIONALS: an inner conditional of every kind (~[ ~:[ ~@[ ~#[ ~n[ and ~[ with ~:;) inside
//     each clause of an outer conditional of every kind, alone / after text / before text / between
//     texts (so the inner ~] is directly followed by the outer ~; ~:; or ~]), with every in-range and
//     out-of-range outer selector: what a scanner that carries a modifier or a nesting level across the
//     inner block would break.

import (
	"fmt"
	"math/big"
	"strings"
)

type histCall struct {
	ctrl string
	args []fArg
}

func c15HistoryCases() []fCase {
	var out []fCase
	inst := map[string]int{}
	add := func(cell string, calls ...histCall) {
		cs := fCase{Mode: "seq", Cell: cell, Sweep: true, Inst: inst[cell]}
		var ctrls []string
		for _, c := range calls {
			cs.Units = append(cs.Units, fUnit{Ctrl: c.ctrl, Args: c.args})
			ctrls = append(ctrls, c.ctrl)
		}
		cs.Ctrl = strings.Join(ctrls, " | ")
		inst[cell]++
		out = append(out, cs)
	}
	next := int64(700001) // values unique to a history (and outside every other table of the sweep)
	fresh := func() int64 { next += 7919; return next }
	call := func(ctrl string, args ...fArg) histCall { return histCall{ctrl, args} }
	numeric := []string{"~r", "~:r", "~d", "~:d", "~@d", "~:@d", "~b", "~o", "~x", "~:x", "~8r", "~36r", "~3,12,'.,'_,2:@r", "~14d", "~14,'*:d", "~a", "~s", "~12@a", "~p"}
	for _, d := range numeric {
		for _, isBig := range []bool{false, true} {
			v := fresh()
			pos, neg := aInt(v), aInt(-v)
			name := "fix"
			if isBig {
				p := new(big.Int).SetInt64(v)
				p.Mul(p, pow2(70))
				pos, neg = aBig(p), aBig(new(big.Int).Neg(p))
				name = "big"
			}
			cell := func(h string) string { return fmt.Sprintf("hist=%s dir=%s arg=%s", h, d, name) }
			add(cell("negative-then-positive"), call(d, neg), call(d, pos))
			add(cell("positive-then-negative"), call(d, aInt(v+1)), call(d, aInt(-(v+1))))
			if isBig {
				continue
			}
			add(cell("negative-positive-negative"), call(d, aInt(-(v+2))), call(d, aInt(v+2)), call(d, aInt(-(v+2))))
			add(cell("same-call-twice"), call(d, aInt(v+3)), call(d, aInt(v+3)))
			add(cell("neighbours"), call(d, aInt(v+4)), call(d, aInt(v+5)), call(d, aInt(v+4)))
		}
	}
	// small values, which everything else uses too: here they are first
	for _, d := range []string{"~r", "~:r", "~d", "~@d", "~x", "~p", "~:p"} {
		for _, v := range []int64{1, 2, 5, 12, 20, 21, 100, 1000} {
			pre := ""
			if d == "~:p" {
				pre = "~d"
			}
			add(fmt.Sprintf("hist=small-negative-then-positive dir=%s arg=%d", d, v), call(pre+d, aInt(-v)), call(pre+d, aInt(v)), call(pre+d, aInt(-v)))
		}
	}
	add("hist=zero-both-ways dir=~r arg=0", call("~r", aInt(0)), call("~:r", aInt(0)), call("~r", aInt(0)), call("~d", aInt(0)), call("~@d", aInt(0)))
	// related directives on the same value, both orders
	pairs := [][2]string{{"~r", "~:r"}, {"~:r", "~r"}, {"~d", "~:d"}, {"~:d", "~d"}, {"~d", "~@d"}, {"~@d", "~d"}, {"~x", "~b"}, {"~b", "~x"}, {"~a", "~s"}, {"~s", "~a"},
		{"~12d", "~d"}, {"~d", "~12d"}, {"~12,'*d", "~12d"}, {"~:d", "~,,'.,4:d"}, {"~,,'.,4:d", "~:d"}, {"~r", "~d"}, {"~d", "~r"}, {"~10r", "~r"}, {"~r", "~10r"}, {"~a", "~d"}, {"~d", "~a"}}
	for _, p := range pairs {
		for _, sign := range []int64{1, -1} {
			v := fresh() * sign
			add(fmt.Sprintf("hist=related-directives dir=%s-then-%s arg=%s", p[0], p[1], map[int64]string{1: "positive", -1: "negative"}[sign]),
				call(p[0], aInt(v)), call(p[1], aInt(v)), call(p[0], aInt(v)))
		}
	}
	romanPairs := [][2]string{{"~@r", "~:@r"}, {"~:@r", "~@r"}, {"~@r", "~r"}, {"~r", "~@r"}, {"~:r", "~:@r"}, {"~@r", "~@r"}, {"~:@r", "~:@r"}}
	rv := int64(1000)
	for _, p := range romanPairs {
		for k := 0; k < 3; k++ {
			rv += 411 // 1411, 1822, … (4 and 9 digits appear: the two styles differ)
			v := rv%3999 + 1
			add(fmt.Sprintf("hist=related-directives dir=%s-then-%s arg=roman", p[0], p[1]), call(p[0], aInt(v)), call(p[1], aInt(v)), call(p[0], aInt(v)))
		}
	}
	// round numbers, whose ordinal rewrites the last word (twentieth, hundredth, millionth), around their neighbours
	for _, v := range []int64{20, 30, 90, 100, 300, 1000, 40000, 1000000, 7000000000} {
		add(fmt.Sprintf("hist=ordinal-of-round-number dir=~:r-then-~r arg=%d", v), call("~:r", aInt(v)), call("~r", aInt(v)), call("~:r", aInt(v+1)), call("~r", aInt(v+1)), call("~:r", aInt(-v)), call("~r", aInt(-v)))
	}
	// blocks and cursor directives twice with other arguments (scratch buffers, scanner state)
	l1, l2 := aList(aInt(fresh()), aInt(-fresh())), aList(aInt(fresh()))
	add("hist=block-twice dir=~{ arg=lists", call("<~{~a,~}>", l1), call("<~{~a,~}>", l2), call("<~{~a,~}>", l1))
	add("hist=block-twice dir=~:{ arg=lists", call("<~:{~a-~a,~}>", aList(l1)), call("<~:{~a-~a,~}>", aList(l1, l1)))
	add("hist=block-twice dir=~[ arg=selectors", call("<~[a~;b~:;c~]>", aInt(0)), call("<~[a~;b~:;c~]>", aInt(5)), call("<~[a~;b~:;c~]>", aInt(1)), call("<~[a~;b~]>", aInt(5)))
	add("hist=block-twice dir=~( arg=text", call("<~:(~a~)>", aStr("hello big world")), call("<~(~a~)>", aStr("HELLO Big")), call("<~:(~a~)>", aStr("x")))
	add("hist=block-twice dir=~? arg=controls", call("<~?>", aStr("~a-~a"), aList(aInt(fresh()), aInt(2))), call("<~?>", aStr("~a"), aList(aInt(-3))), call("<~@?>~a", aStr("~a"), aInt(4), aInt(5)))
	add("hist=cursor-twice dir=~* arg=ints", call("~a~:*~a~2*~a", aInt(1), aInt(2), aInt(3), aInt(4)), call("~a~:*~a", aInt(9)), call("~2*~a", aInt(1), aInt(2), aInt(3)))
	add("hist=column-twice dir=~t arg=-", call("abc~8t|~%~4t|"), call("~8t|"), call("abcdefghijkl~8,4t|"), call("~&x~&"))
	return out
}

// --- nested conditionals -----------------------------------------------------------------------

func c15NestedCondCells() []r3Cell {
	var out []r3Cell
	type inner struct {
		name, text string
		args       [][]fArg // argument variants the inner conditional consumes
	}
	inners := []inner{
		{"[", "~[x~;y~]", [][]fArg{{aInt(0)}, {aInt(1)}, {aInt(7)}}},
		{"[-default", "~[x~;y~:;z~]", [][]fArg{{aInt(1)}, {aInt(7)}}},
		{":[", "~:[x~;y~]", [][]fArg{{aNil()}, {aInt(3)}}},
		{":[-empty-alternative", "~:[~;y~]", [][]fArg{{aNil()}, {aInt(3)}}},
		{"@[", "~@[x~a~]", [][]fArg{{aNil()}, {aInt(3)}}},
		{"#[", "~#[x~;y~;z~]", [][]fArg{{}, {aInt(8)}}},
		{"n[", "~1[x~;y~]", [][]fArg{{}}},
	}
	type outer struct {
		name    string
		clauses int      // number of clauses incl. the default
		build   func(cl []string) string
		sels    [][]fArg // selector argument variants
	}
	outers := []outer{
		{"[", 3, func(cl []string) string { return "<~[" + cl[0] + "~;" + cl[1] + "~;" + cl[2] + "~]>" },
			[][]fArg{{aInt(-1)}, {aInt(0)}, {aInt(1)}, {aInt(2)}, {aInt(3)}, {aInt(99)}}},
		{"[-default", 3, func(cl []string) string { return "<~[" + cl[0] + "~;" + cl[1] + "~:;" + cl[2] + "~]>" },
			[][]fArg{{aInt(-1)}, {aInt(0)}, {aInt(1)}, {aInt(2)}, {aInt(99)}}},
		{":[", 2, func(cl []string) string { return "<~:[" + cl[0] + "~;" + cl[1] + "~]>" }, [][]fArg{{aNil()}, {aInt(5)}}},
		{"@[", 1, func(cl []string) string { return "<~@[" + cl[0] + "~]>" }, [][]fArg{{aNil()}, {aInt(0)}, {aInt(1)}}},
		{"n[", 3, func(cl []string) string { return "<~1[" + cl[0] + "~;" + cl[1] + "~;" + cl[2] + "~]>" }, [][]fArg{{}}},
		{"#[", 3, func(cl []string) string { return "<~#[" + cl[0] + "~;" + cl[1] + "~;" + cl[2] + "~]>" }, [][]fArg{{}}},
	}
	places := []struct{ name, pre, post string }{{"alone", "", ""}, {"after-text", "p", ""}, {"before-text", "", "s"}, {"between-texts", "p", "s"}, {"after-directive", "~a", ""}, {"before-directive", "", "~a"}}
	plain := []string{"a", "b", "c"}
	for _, o := range outers {
		for _, in := range inners {
			for k := 0; k < o.clauses; k++ {
				for _, pl := range places {
					cl := make([]string, o.clauses)
					copy(cl, plain)
					cl[k] = pl.pre + in.text + pl.post
					ctrl := o.build(cl)
					cell := fmt.Sprintf("dir=[ mods= params=nested arg=r3:outer-%s-inner-%s ctx=clause%d-%s", o.name, in.name, k, pl.name)
					for _, sel := range o.sels {
						for _, ia := range in.args {
							var args []fArg
							args = append(args, sel...)
							if strings.Contains(pl.pre, "~a") {
								args = append(args, aInt(61))
							}
							args = append(args, ia...)
							args = append(args, aInt(62), aInt(63)) // for ~a after the inner one and for ~@[ / ~#[ to look at
							out = append(out, r3Cell{cell: cell, ctrl: ctrl + "~a", args: args})
						}
					}
				}
			}
		}
	}
	// two inner conditionals in neighbouring clauses, and an inner one of each kind nested twice
	for _, a := range inners {
		for _, b := range inners {
			ctrl := "<~[" + a.text + "~;" + b.text + "~;c~]>"
			for sel := int64(-1); sel <= 3; sel++ {
				out = append(out, r3Cell{cell: fmt.Sprintf("dir=[ mods= params=nested arg=r3:two-inner-%s-%s", a.name, b.name), ctrl: ctrl,
					args: append(append([]fArg{aInt(sel)}, a.args[len(a.args)-1]...), aInt(1))})
			}
		}
		ctrl := "<~[" + "u~[v" + a.text + "w~;q~]" + "~;b~]>"
		for sel := int64(-1); sel <= 2; sel++ {
			for in := int64(0); in <= 2; in++ {
				out = append(out, r3Cell{cell: fmt.Sprintf("dir=[ mods= params=nested arg=r3:twice-nested-inner-%s", a.name), ctrl: ctrl,
					args: append([]fArg{aInt(sel), aInt(in)}, a.args[len(a.args)-1]...)})
			}
		}
	}
	return out
}
