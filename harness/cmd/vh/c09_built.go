package main

// C09: the "constructed objects" stage of the built-in sweep. The objects of c09Pool are fresh
// from their constructor; many faults need an object that went through a short history first (a
// vector whose fill pointer is past its end, a closed stream, a deleted package …). c09Built
// lists such objects by the Lisp text that builds them; every one is fed, alone and next to a
// small companion pool in both positions, to the functions that accept an object of its base type
// in that position (acceptance is read off the pair sweep: the plain representative of the type
// got past the function's type and arity checks there).

import (
	"fmt"
	"strings"
)

type c09BuiltObj struct {
	c09Obj
	Base []string // names of the c09Pool objects that stand for its type in the pair sweep
}

func c09B(label, expr string, base ...string) c09BuiltObj {
	return c09BuiltObj{c09Obj{Name: label, Type: label, Expr: expr, Form: expr}, base}
}

// c09MakeArrayCombos: make-array with every keyword combination over small value sets, including
// inconsistent ones (fill pointer beyond the size, contents of the wrong length, displaced windows
// that leave the target).
func c09MakeArrayCombos(thorough bool) []c09BuiltObj {
	var out []c09BuiltObj
	vecBase := []string{"#(1 2 3)", "fillvec"}
	// quick tier: the combinations that differ in kind (general / character vectors, fill pointer
	// absent / 0 / len / len+1, contents absent / full / short); thorough: the whole product
	ets, fps, adjs, inits := []string{"", "character"}, []string{"", "0", "3", "4"}, []string{""}, []string{"", "contents", "short-contents"}
	if thorough {
		ets = []string{"", "bit", "character", "octet", "fixnum"}
		fps = []string{"", "0", "3", "4", "t", "-1"}
		adjs = []string{"", "t"}
		inits = []string{"", "elt", "contents", "short-contents"}
	}
	for _, et := range ets {
		for _, fp := range fps {
			for _, adj := range adjs {
				for _, init := range inits {
					var b strings.Builder
					b.WriteString("(make-array 3")
					lab := "vec"
					base := vecBase
					if et != "" {
						fmt.Fprintf(&b, " :element-type '%s", et)
						lab += ":" + et
						switch et {
						case "bit":
							base = []string{"#*101", "#(1 2 3)"}
						case "character":
							base = []string{"\"a\"", "#(1 2 3)"}
						case "octet":
							base = []string{"octets", "#(1 2 3)"}
						}
					}
					val := map[string]string{"": "7", "bit": "1", "character": "#\\a", "octet": "7", "fixnum": "7"}[et]
					switch init {
					case "elt":
						fmt.Fprintf(&b, " :initial-element %s", val)
						lab += " init"
					case "contents":
						fmt.Fprintf(&b, " :initial-contents (list %s %s %s)", val, val, val)
						lab += " contents"
					case "short-contents":
						fmt.Fprintf(&b, " :initial-contents (list %s)", val)
						lab += " contents<size"
					}
					if fp != "" {
						fmt.Fprintf(&b, " :fill-pointer %s", fp)
						lab += " fp=" + map[string]string{"0": "0", "3": "len", "4": "len+1", "t": "t", "-1": "-1"}[fp]
					}
					if adj != "" {
						b.WriteString(" :adjustable t")
						lab += " adj"
					}
					b.WriteString(")")
					out = append(out, c09B(lab, b.String(), base...))
				}
			}
		}
	}
	return out
}

var c09BuiltFixed = []c09BuiltObj{
	// displaced arrays, consistent and not
	c09B("vec displaced", "(make-array 2 :displaced-to (make-array 4 :initial-element 1) :displaced-index-offset 1)", "#(1 2 3)"),
	c09B("vec displaced-past-end", "(make-array 2 :displaced-to (make-array 4) :displaced-index-offset 3)", "#(1 2 3)"),
	c09B("vec displaced-to-list", "(make-array 2 :displaced-to '(1 2 3))", "#(1 2 3)"),
	c09B("vec size0 fp adj", "(make-array 0 :fill-pointer 0 :adjustable t)", "#(1 2 3)", "fillvec"),
	c09B("array 2x3", "(make-array '(2 3) :initial-element 0)", "array2x2"),
	c09B("array 1x1x1", "(make-array '(1 1 1))", "array2x2"),
	c09B("array 2x2 fp", "(make-array '(2 2) :fill-pointer 1)", "array2x2"),
	c09B("array 2x2 contents-mismatch", "(make-array '(2 2) :initial-contents '((1 2) (3)))", "array2x2"),
	// adjust-array histories
	c09B("vec fp shrunk-below-fp", "(let ((v (make-array 5 :fill-pointer 4))) (adjust-array v 2) v)", "#(1 2 3)", "fillvec"),
	c09B("vec fp adj shrunk-below-fp", "(let ((v (make-array 5 :fill-pointer 4 :adjustable t))) (adjust-array v 2) v)", "#(1 2 3)", "fillvec"),
	c09B("vec fp grown", "(let ((v (make-array 2 :fill-pointer 2 :adjustable t))) (adjust-array v 6) v)", "#(1 2 3)", "fillvec"),
	c09B("vec shrunk-to-0", "(let ((v (make-array 3 :adjustable t :initial-element 1))) (adjust-array v 0) v)", "#(1 2 3)"),
	c09B("vec adjusted fp=len+1", "(let ((v (make-array 3 :adjustable t))) (adjust-array v 3 :fill-pointer 4) v)", "#(1 2 3)", "fillvec"),
	c09B("array adjusted 2x2->1x1", "(let ((a (make-array '(2 2) :adjustable t))) (adjust-array a '(1 1)) a)", "array2x2"),
	c09B("array adjusted 2x2->3x3", "(let ((a (make-array '(2 2) :adjustable t :initial-element 1))) (adjust-array a '(3 3)) a)", "array2x2"),
	c09B("bit-vector shrunk", "(let ((v (make-array 4 :element-type 'bit :fill-pointer 3 :adjustable t))) (adjust-array v 1) v)", "#*101"),
	c09B("octets adjusted", "(let ((v (make-octets 4))) (adjust-array v 1) v)", "octets"),
	// fill pointer set / pushed / popped
	c09B("vec fp set-0", "(let ((v (make-array 3 :fill-pointer 2))) (setf (fill-pointer v) 0) v)", "#(1 2 3)", "fillvec"),
	c09B("vec fp set-len", "(let ((v (make-array 3 :fill-pointer 1))) (setf (fill-pointer v) 3) v)", "#(1 2 3)", "fillvec"),
	c09B("vec pushed-extend", "(let ((v (make-array 1 :fill-pointer 0 :adjustable t))) (vector-push-extend 1 v) (vector-push-extend 2 v) (vector-push-extend 3 v) v)", "#(1 2 3)", "fillvec"),
	c09B("vec pushed-full", "(let ((v (make-array 2 :fill-pointer 0))) (vector-push 1 v) (vector-push 2 v) (vector-push 3 v) v)", "#(1 2 3)", "fillvec"),
	c09B("vec popped-empty", "(let ((v (make-array 3 :fill-pointer 1 :initial-element 1))) (vector-pop v) v)", "#(1 2 3)", "fillvec"),
	c09B("string fp", "(make-array 3 :element-type 'character :fill-pointer 1 :initial-element #\\a)", "\"a\"", "fillvec"),
	// hash tables
	c09B("hash cleared", "(let ((h (make-hash-table))) (setf (gethash 'a h) 1) (clrhash h) h)", "hash"),
	c09B("hash removed", "(let ((h (make-hash-table))) (setf (gethash 'a h) 1) (remhash 'a h) h)", "hash"),
	c09B("hash filled", "(let ((h (make-hash-table))) (dotimes (i 40) (setf (gethash i h) i)) h)", "hash"),
	c09B("hash equal size0", "(make-hash-table :test 'equal :size 0)", "hash"),
	c09B("hash equalp string-keys", "(let ((h (make-hash-table :test 'equalp))) (setf (gethash \"A\" h) 1) (setf (gethash 1.0 h) 2) h)", "hash"),
	c09B("hash nil-key nil-value", "(let ((h (make-hash-table))) (setf (gethash nil h) nil) h)", "hash"),
	// streams
	c09B("out-stream closed", "(let ((s (make-string-output-stream))) (write-string \"ab\" s) (close s) s)", "out-stream"),
	c09B("in-stream closed", "(let ((s (make-string-input-stream \"abc\"))) (close s) s)", "in-stream"),
	c09B("in-stream exhausted", "(let ((s (make-string-input-stream \"ab\"))) (read-char s) (read-char s) s)", "in-stream"),
	c09B("in-stream empty", "(make-string-input-stream \"\")", "in-stream"),
	c09B("in-stream partial-form", "(make-string-input-stream \"(a #\\\\\")", "in-stream"),
	c09B("synonym unbound", "(make-synonym-stream 'c09-nosuch-stream)", "in-stream", "out-stream"),
	c09B("synonym non-stream", "(progn (defvar c09-not-a-stream 5) (make-synonym-stream 'c09-not-a-stream))", "in-stream", "out-stream"),
	c09B("two-way", "(make-two-way-stream (make-string-input-stream \"ab\") (make-string-output-stream))", "in-stream", "out-stream"),
	c09B("two-way closed-parts", "(let ((i (make-string-input-stream \"ab\")) (o (make-string-output-stream))) (close i) (close o) (make-two-way-stream i o))", "in-stream", "out-stream"),
	c09B("echo", "(make-echo-stream (make-string-input-stream \"ab\") (make-string-output-stream))", "in-stream", "out-stream"),
	c09B("broadcast empty", "(make-broadcast-stream)", "out-stream"),
	c09B("broadcast closed-part", "(let ((o (make-string-output-stream))) (close o) (make-broadcast-stream o))", "out-stream"),
	c09B("concatenated empty", "(make-concatenated-stream)", "in-stream"),
	c09B("concatenated closed-part", "(let ((i (make-string-input-stream \"ab\"))) (close i) (make-concatenated-stream i))", "in-stream"),
	c09B("octets-stream", "(with-input-from-octets (s (make-octets 2)) s)", "in-stream"),
	// channels
	c09B("channel closed", "(let ((c (make-channel 1))) (channel-close c) c)", "channel"),
	c09B("channel closed-with-item", "(let ((c (make-channel 2))) (channel-push c 1) (channel-close c) c)", "channel"),
	// instances, classes, conditions
	c09B("instance unbound-slots", "(make-instance 'c09-class2)", "instance"),
	c09B("instance allocated", "(allocate-instance (find-class 'c09-class2))", "instance"),
	c09B("instance slot-made-unbound", "(let ((i (make-instance 'c09-class))) (slot-makunbound i 'x) i)", "instance"),
	c09B("instance changed-class", "(let ((i (make-instance 'c09-class))) (change-class i 'c09-class2) i)", "instance"),
	c09B("flavor-instance nil-var", "(let ((f (make-instance 'c09-flavor))) (send f :set-a nil) f)", "flavor-instance"),
	c09B("condition type-error no-slots", "(make-condition 'type-error)", "condition"),
	c09B("condition simple-error no-slots", "(make-condition 'simple-error)", "condition"),
	c09B("condition file-error no-slots", "(make-condition 'file-error)", "condition"),
	c09B("condition unbound-slot no-slots", "(make-condition 'unbound-slot)", "condition"),
	c09B("condition arithmetic-error no-slots", "(make-condition 'arithmetic-error)", "condition"),
	c09B("condition package-error no-slots", "(make-condition 'package-error)", "condition"),
	c09B("condition stream-error no-slots", "(make-condition 'stream-error)", "condition"),
	c09B("condition cell-error no-slots", "(make-condition 'cell-error)", "condition"),
	c09B("condition print-not-readable no-slots", "(make-condition 'print-not-readable)", "condition"),
	c09B("condition simple-condition no-slots", "(make-condition 'simple-condition)", "condition"),
	c09B("struct no-slots", "(make-c09-struct)", "struct"),
	// packages
	c09B("package deleted", "(let ((p (or (find-package \"c09-tmp\") (make-package \"c09-tmp\")))) (delete-package p) p)", "package"),
	c09B("package unused", "(let ((p (or (find-package \"c09-tmp2\") (make-package \"c09-tmp2\" :use '(cl))))) (unuse-package 'cl p) p)", "package"),
	c09B("package locked", "(let ((p (or (find-package \"c09-tmp3\") (make-package \"c09-tmp3\")))) (lock-package p) p)", "package"),
	c09B("package with-symbols", "(let ((p (or (find-package \"c09-tmp4\") (make-package \"c09-tmp4\")))) (intern \"C09-X\" p) (export (intern \"c09-y\" p) p) p)", "package"),
	// bags
	c09B("bag removed", "(let ((b (make-bag \"{a:1 b:[1 2]}\"))) (bag-remove b \"a\") (bag-remove b \"b\") b)", "bag"),
	c09B("bag empty-list", "(make-bag \"[]\")", "bag"),
	c09B("bag null", "(make-bag \"null\")", "bag"),
	c09B("bag scalar", "(make-bag \"3\")", "bag"),
	c09B("bag nested-set", "(let ((b (make-bag \"{}\"))) (bag-set b 1 \"a.b[2].c\") b)", "bag"),
	c09B("bag-path wildcard", "(make-bag-path \"$..a[*]\")", "bag"),
	// lists and strings with a history
	c09B("list long", "(make-list 1000 :initial-element 1)", "(1 2 3)"),
	c09B("list nconc'd", "(let ((l (list 1 2))) (nconc l (list 3) 4))", "(1 2 3)", "(a . b)"),
	c09B("list of-nils", "(list nil nil)", "(1 2 3)"),
	c09B("plist odd", "(list :a 1 :b)", "(1 2 3)", "alist"),
	c09B("alist with-atoms", "(list '(a . 1) 'b nil 3)", "alist"),
	c09B("string multibyte", "(make-string 2 :initial-element #\\ü)", "\"a\""),
	c09B("string with-nul", "(coerce (list #\\a (code-char 0) #\\b) 'string)", "\"a\""),
	c09B("symbol uninterned", "(make-symbol \"c09 odd name\")", "sym"),
	c09B("symbol gensym", "(gensym)", "sym"),
	c09B("time zero", "(make-time 0 1 1)", "time"),
	c09B("lambda 2 optional", "(lambda (a &optional b) (list a b))", "lambda"),
	c09B("lambda raising", "(lambda (&rest r) (error \"c09\"))", "lambda"),
	c09B("lambda 0-args", "(lambda () 1)", "lambda"),
}

// companions of a built object in the two-argument cases
var c09BuiltCompanions = []string{"nil", "0", "1", "3", "-1", "\"a\"", "sym", ":a", "#\\a", "(1 2 3)"}

// the quick tier uses the first six

func c09BuiltPool(thorough bool) []c09BuiltObj {
	out := append(c09MakeArrayCombos(thorough), c09BuiltFixed...)
	if !thorough {
		// two objects the quick tier keeps from the wider product: an adjustable one and a bit vector
		out = append(out, c09B("vec fp=len+1 adj", "(make-array 3 :fill-pointer 4 :adjustable t)", "#(1 2 3)", "fillvec"),
			c09B("vec:bit fp=len+1", "(make-array 3 :element-type 'bit :fill-pointer 4)", "#*101", "#(1 2 3)"))
	}
	return out
}

// ---------------------------------------------------------------------------------------------
// places: (setf (<accessor> object index…) value) and friends — macro forms over a nested place
// that no argument-tuple sweep builds. Accessor x every pool and constructed object x a few
// indices x a few values.

// c09PlaceForms: %o object, %i index, %v value
var c09PlaceForms = []struct{ name, form string }{
	{"setf-aref", "(let ((o %o)) (setf (aref o %i) %v) o)"},
	{"setf-aref2", "(let ((o %o)) (setf (aref o %i %i) %v) o)"},
	{"setf-row-major-aref", "(let ((o %o)) (setf (row-major-aref o %i) %v) o)"},
	{"setf-svref", "(let ((o %o)) (setf (svref o %i) %v) o)"},
	{"setf-elt", "(let ((o %o)) (setf (elt o %i) %v) o)"},
	{"setf-char", "(let ((o %o)) (setf (char o %i) %v) o)"},
	{"setf-bit", "(let ((o %o)) (setf (bit o %i) %v) o)"},
	{"setf-nth", "(let ((o %o)) (setf (nth %i o) %v) o)"},
	{"setf-car", "(let ((o %o)) (setf (car o) %v) o)"},
	{"setf-cdr", "(let ((o %o)) (setf (cdr o) %v) o)"},
	{"setf-fill-pointer", "(let ((o %o)) (setf (fill-pointer o) %i) o)"},
	{"setf-gethash", "(let ((o %o)) (setf (gethash %i o) %v) o)"},
	{"setf-slot-value", "(let ((o %o)) (setf (slot-value o 'x) %v) o)"},
	{"setf-subseq", "(let ((o %o)) (setf (subseq o %i) %v) o)"},
	{"incf-aref", "(let ((o %o)) (incf (aref o %i)) o)"},
	{"push-aref", "(let ((o %o)) (push %v (aref o %i)) o)"},
	{"pop-place", "(let ((o %o)) (pop o) o)"},
	{"vector-push", "(let ((o %o)) (vector-push %v o) o)"},
	{"vector-push-extend", "(let ((o %o)) (vector-push-extend %v o %i) o)"},
	{"setf-get", "(let ((o %o)) (setf (get o %i) %v) o)"},
	{"setf-getf", "(let ((o %o)) (setf (getf o %i) %v) o)"},
}

var c09PlaceIndices = []string{"0", "1", "3", "-1", "maxfix", "nil", "sym"}
var c09PlaceValues = []string{"1", "nil", "#\\a", "\"a\""}
