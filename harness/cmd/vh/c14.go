package main

// C14 — sequence functions honour their keyword arguments on lists, vectors and strings.
// Correspondence: each call is evaluated by the real slip (source text through the reader and
// Scope.Eval) and by the Lean model (SlipVerif.Model.Seq through the line protocol "seq <fn> k=v…").
// Results are compared as structural wire terms (never printed text). sort and the set functions are
// compared by relation: the implementation's result is sent back to the model's checker
// (sort-check, union-check, intersection-check, set-difference-check).

import (
	"fmt"
	"os"
	"sort"
	"strings"

	"github.com/ohler55/slip"
	"verif/harness/lib"
)

func init() { props["C14"] = runC14 }

// ---------------------------------------------------------------------------------------------
// objects

type c14Obj struct {
	k    byte // 'n' nil, 't', 'i' int, 'y' symbol, 'c' char, 'p' cons
	i    int64
	s    string
	a, d *c14Obj
	// proper: a cons chain ending in nil that is meant as a list (written (list …) in the source)
	proper bool
}

func c14Int(i int) c14Obj        { return c14Obj{k: 'i', i: int64(i)} }
func c14Sym(s string) c14Obj     { return c14Obj{k: 'y', s: s} }
func c14Chr(r rune) c14Obj       { return c14Obj{k: 'c', i: int64(r)} }
func c14Pair(a, d c14Obj) c14Obj { return c14Obj{k: 'p', a: &a, d: &d} }

// c14List: a proper list object (an element that is itself a list); on the wire a cons chain
func c14List(es ...c14Obj) c14Obj {
	out := c14Nil
	for i := len(es) - 1; 0 <= i; i-- {
		out = c14Pair(es[i], out)
	}
	out.proper = true
	return out
}

// elems of a proper list object
func (o c14Obj) listElems() []c14Obj {
	var out []c14Obj
	for o.k == 'p' {
		out = append(out, *o.a)
		o = *o.d
	}
	return out
}

// c14ObjFromWire parses an object wire term
func c14ObjFromWire(w string) c14Obj {
	pos := 0
	var term func() c14Obj
	term = func() c14Obj {
		switch ch := w[pos]; ch {
		case 'n':
			pos++
			return c14Nil
		case 't':
			pos++
			return c14Obj{k: 't'}
		case '(':
			pos++
			a := term()
			pos++
			d := term()
			pos++
			o := c14Pair(a, d)
			o.proper = d.k == 'n' || d.proper
			return o
		default:
			start := pos + 1
			pos++
			for pos < len(w) && (w[pos] == '-' || w[pos] >= '0' && w[pos] <= '9' || ch == 'y' && w[pos] >= 'a' && w[pos] <= 'f') {
				pos++
			}
			body := w[start:pos]
			switch ch {
			case 'i':
				var n int
				_, _ = fmt.Sscanf(body, "%d", &n)
				return c14Int(n)
			case 'c':
				var n int
				_, _ = fmt.Sscanf(body, "%d", &n)
				return c14Chr(rune(n))
			}
			return c14Sym(lib.Unhex(body))
		}
	}
	return term()
}

var c14Nil = c14Obj{k: 'n'}

func (o c14Obj) wire() string {
	switch o.k {
	case 'n':
		return "n"
	case 't':
		return "t"
	case 'i':
		return fmt.Sprintf("i%d", o.i)
	case 'y':
		return "y" + fmt.Sprintf("%x", o.s)
	case 'c':
		return fmt.Sprintf("c%d", o.i)
	}
	return "(" + o.a.wire() + "." + o.d.wire() + ")"
}

// lisp: an expression that evaluates to a fresh object
func (o c14Obj) lisp() string {
	switch o.k {
	case 'n':
		return "nil"
	case 't':
		return "t"
	case 'i':
		return fmt.Sprintf("%d", o.i)
	case 'y':
		return "'" + o.s
	case 'c':
		return "#\\" + string(rune(o.i))
	}
	if o.proper {
		parts := []string{}
		for _, e := range o.listElems() {
			parts = append(parts, e.lisp())
		}
		return "(list " + strings.Join(parts, " ") + ")"
	}
	return "(cons " + o.a.lisp() + " " + o.d.lisp() + ")"
}

type c14Seq struct {
	kind  string // list | vector | string | octets | nil (the empty list written as nil)
	elems []c14Obj
	tname string // element type (for drawing the variant used by the re-evaluation)
	// hidden: elements of a vector beyond its fill pointer (the vector is made with make-array
	// :fill-pointer; as a sequence it consists of elems only)
	hidden []c14Obj
}

func (s c14Seq) wire() string {
	tag := map[string]string{"list": "L", "vector": "V", "string": "S", "nil": "L", "octets": "O"}[s.kind]
	parts := make([]string, len(s.elems))
	for i, e := range s.elems {
		parts[i] = e.wire()
	}
	return tag + "[" + strings.Join(parts, ",") + "]"
}

func (s c14Seq) lisp() string {
	switch s.kind {
	case "nil":
		return "nil"
	case "string":
		var b strings.Builder
		b.WriteByte('"')
		for _, e := range s.elems {
			b.WriteRune(rune(e.i))
		}
		b.WriteByte('"')
		return b.String()
	}
	if s.kind == "octets" {
		if len(s.elems) == 0 {
			return "(coerce '() 'octets)"
		}
		parts := make([]string, len(s.elems))
		for i, e := range s.elems {
			parts[i] = e.lisp()
		}
		return "(coerce (list " + strings.Join(parts, " ") + ") 'octets)"
	}
	if s.kind == "vector" && len(s.hidden) > 0 {
		parts := make([]string, 0, len(s.elems)+len(s.hidden))
		for _, e := range append(append([]c14Obj{}, s.elems...), s.hidden...) {
			parts = append(parts, e.lisp())
		}
		return fmt.Sprintf("(make-array %d :fill-pointer %d :initial-contents (list %s))", len(parts), len(s.elems), strings.Join(parts, " "))
	}
	if len(s.elems) == 0 {
		if s.kind == "list" {
			return "'()"
		}
		return "(vector)"
	}
	parts := make([]string, len(s.elems))
	for i, e := range s.elems {
		parts[i] = e.lisp()
	}
	return "(" + s.kind + " " + strings.Join(parts, " ") + ")"
}

// c14Wire converts an implementation result into the wire term. want: "obj" or "seq"; with "+trace"
// the value is (result calls): `<result> |<arg>,<arg>/<arg>,<arg>/…`
func c14Wire(v slip.Object, want string) string {
	if base, ok := strings.CutSuffix(want, "+trace"); ok {
		pair, _ := v.(slip.List)
		if len(pair) != 2 {
			return "?no-trace"
		}
		calls, _ := pair[1].(slip.List)
		var cw []string
		for _, c := range calls {
			args, _ := c.(slip.List)
			aw := make([]string, len(args))
			for i, a := range args {
				aw[i] = c14Wire(a, "obj")
			}
			cw = append(cw, strings.Join(aw, ","))
		}
		return c14Wire(pair[0], base) + " |" + strings.Join(cw, "/")
	}
	if want == "seq" {
		switch tv := v.(type) {
		case nil:
			return "L[]"
		case slip.List:
			parts := make([]string, len(tv))
			for i, e := range tv {
				if _, isTail := e.(slip.Tail); isTail {
					return "?dotted-list"
				}
				parts[i] = c14Wire(e, "obj")
			}
			return "L[" + strings.Join(parts, ",") + "]"
		case *slip.Vector:
			l := tv.AsList()
			parts := make([]string, len(l))
			for i, e := range l {
				parts[i] = c14Wire(e, "obj")
			}
			return "V[" + strings.Join(parts, ",") + "]"
		case slip.String:
			ra := []rune(string(tv))
			parts := make([]string, len(ra))
			for i, r := range ra {
				parts[i] = fmt.Sprintf("c%d", r)
			}
			return "S[" + strings.Join(parts, ",") + "]"
		case slip.Octets:
			parts := make([]string, len(tv))
			for i, o := range tv {
				parts[i] = fmt.Sprintf("i%d", o)
			}
			return "O[" + strings.Join(parts, ",") + "]"
		}
		return "?" + strings.ToLower(string(v.Hierarchy()[0]))
	}
	switch tv := v.(type) {
	case nil:
		return "n"
	case slip.Fixnum:
		return fmt.Sprintf("i%d", int64(tv))
	case slip.Octet:
		return fmt.Sprintf("i%d", int64(tv))
	case slip.Symbol:
		return "y" + fmt.Sprintf("%x", strings.ToLower(string(tv)))
	case slip.Character:
		return fmt.Sprintf("c%d", rune(tv))
	case slip.List:
		if len(tv) == 0 {
			return "n"
		}
		// proper or dotted list as a cons chain
		tail := "n"
		end := len(tv)
		if t, ok := tv[end-1].(slip.Tail); ok {
			tail = c14Wire(t.Value, "obj")
			end--
		}
		out := tail
		for i := end - 1; 0 <= i; i-- {
			out = "(" + c14Wire(tv[i], "obj") + "." + out + ")"
		}
		return out
	}
	if v == slip.True {
		return "t"
	}
	return "?" + strings.ToLower(string(v.Hierarchy()[0]))
}

// c14Pretty renders a wire term ("ok L[y61,i2]") in Lisp notation for the replay files.
func c14Pretty(w string) string {
	if !strings.HasPrefix(w, "ok ") {
		return w
	}
	pos := 3
	var term func() string
	term = func() string {
		if pos >= len(w) {
			return "?"
		}
		switch ch := w[pos]; {
		case ch == 'L' || ch == 'V' || ch == 'S' || ch == 'O':
			pos += 2 // tag and [
			var parts []string
			for pos < len(w) && w[pos] != ']' {
				parts = append(parts, term())
				if pos < len(w) && w[pos] == ',' {
					pos++
				}
			}
			pos++
			switch ch {
			case 'V':
				return "#(" + strings.Join(parts, " ") + ")"
			case 'O':
				return "#<octets " + strings.Join(parts, " ") + ">"
			case 'S':
				var b strings.Builder
				for _, p := range parts {
					b.WriteString(strings.TrimPrefix(p, "#\\"))
				}
				return "\"" + b.String() + "\""
			}
			if len(parts) == 0 {
				return "nil"
			}
			return "(" + strings.Join(parts, " ") + ")"
		case ch == '(':
			pos++
			a := term()
			pos++ // .
			d := term()
			pos++ // )
			if d == "nil" {
				return "(" + a + ")"
			}
			if strings.HasPrefix(d, "(") {
				return "(" + a + " " + d[1:]
			}
			return "(" + a + " . " + d + ")"
		case ch == 'n':
			pos++
			return "nil"
		case ch == 't':
			pos++
			return "t"
		case ch == 'i' || ch == 'c' || ch == 'y':
			start := pos + 1
			pos++
			for pos < len(w) && (w[pos] == '-' || w[pos] >= '0' && w[pos] <= '9' || ch == 'y' && w[pos] >= 'a' && w[pos] <= 'f') {
				pos++
			}
			body := w[start:pos]
			switch ch {
			case 'i':
				return body
			case 'c':
				var n int
				_, _ = fmt.Sscanf(body, "%d", &n)
				return "#\\" + string(rune(n))
			}
			return lib.Unhex(body)
		}
		rest := w[pos:]
		pos = len(w)
		return rest
	}
	return term()
}

// ---------------------------------------------------------------------------------------------
// function designators: wire name -> lisp source

func c14FnLisp(w string) string {
	name, arg, hasArg := strings.Cut(w, ":")
	q := ""
	if hasArg && name != "ltthan" {
		q = c14ObjFromWire(arg).lisp()
	}
	switch name {
	case "neg":
		return "'-"
	case "mod2":
		return "(lambda (x) (mod x 2))"
	case "upcase":
		return "'char-upcase"
	case "sameparity":
		return "(lambda (a b) (= (mod a 2) (mod b 2)))"
	case "dir10":
		return c14Dir10Lisp
	case "ltthan":
		return "(lambda (x) (< x " + arg + "))"
	case "eqto":
		return "(lambda (x) (equal x " + q + "))"
	// user lambdas that call sequence functions themselves
	case "seqcount":
		return "(lambda (x) (count " + q + " x))"
	case "seqfind":
		return "(lambda (x) (find " + q + " x))"
	case "seqposition":
		return "(lambda (x) (position " + q + " x))"
	case "seqremove":
		return "(lambda (x) (remove " + q + " x))"
	case "seqmember":
		return "(lambda (x) (member " + q + " x))"
	case "seqdedup":
		return "(lambda (x) (remove-duplicates x))"
	case "seqreverse":
		return "(lambda (x) (reverse x))"
	case "seqlength":
		return "(lambda (x) (length x))"
	case "seqsum":
		return "(lambda (x) (reduce '+ x))"
	case "seqmin":
		return "(lambda (x) (car (sort (reverse x) '<)))"
	case "seqsubsetp":
		return "(lambda (a b) (subsetp a b))"
	case "seqsearch":
		return "(lambda (a b) (search a b))"
	case "seqsameset":
		return "(lambda (a b) (and (subsetp a b) (subsetp b a)))"
	case "seqsamecount":
		return "(lambda (a b) (= (count " + q + " a) (count " + q + " b)))"
	case "seqshorter":
		return "(lambda (a b) (< (length a) (length b)))"
	}
	return "'" + w
}

// eqto needs the object for its lisp text
func c14EqTo(o c14Obj) (wire, lisp string) {
	return "eqto:" + o.wire(), c14FnLisp("eqto:" + o.wire())
}

// ---------------------------------------------------------------------------------------------
// element types (4-symbol alphabets), keys, tests, predicates

type c14Type struct {
	name  string
	alpha []c14Obj
}

var (
	c14TSym  = c14Type{"sym", []c14Obj{c14Sym("a"), c14Sym("b"), c14Sym("c"), c14Sym("d")}}
	c14TInt  = c14Type{"int", []c14Obj{c14Int(0), c14Int(1), c14Int(2), c14Int(3)}}
	c14TChar = c14Type{"char", []c14Obj{c14Chr('a'), c14Chr('b'), c14Chr('c'), c14Chr('d')}}
	// characters that take more than one byte in a Go string (no case variants): a string's length in
	// bytes is then not its number of characters
	c14TUChar = c14Type{"uchar", []c14Obj{c14Chr('a'), c14Chr('→'), c14Chr('b'), c14Chr('∀')}}
	// octets: the elements of slip's byte vectors
	c14TOct = c14Type{"oct", []c14Obj{c14Int(97), c14Int(98), c14Int(99), c14Int(100)}}
	c14TPair = c14Type{"pair", []c14Obj{c14Pair(c14Sym("a"), c14Int(1)), c14Pair(c14Sym("b"), c14Int(2)),
		c14Pair(c14Sym("a"), c14Int(2)), c14Pair(c14Sym("b"), c14Int(1))}}
	c14TIPair = c14Type{"ipair", []c14Obj{c14Pair(c14Int(1), c14Sym("a")), c14Pair(c14Int(2), c14Sym("b")),
		c14Pair(c14Int(1), c14Sym("b")), c14Pair(c14Int(2), c14Sym("a"))}}
)

// elements that are lists (for user lambdas that call sequence functions) and mixed atoms / nested
// lists (for user lambdas that re-enter the enclosing call)
// the set functions with a :test that treats its two arguments differently: list-1 holds 0..3, list-2 holds
// 10..13, and the test `dir10` is the equivalence "same residue modulo 10" on every pair the language allows
// the function to form (an element of list-1 first, an element of list-2 second; two elements of the same list)
// and false on a pair (element of list-2, element of list-1): a function that hands the arguments over in the
// wrong order finds no match at all
var (
	c14TXInt  = c14Type{"xint", []c14Obj{c14Int(0), c14Int(1), c14Int(2), c14Int(3)}}
	c14TXInt2 = c14Type{"xint2", []c14Obj{c14Int(10), c14Int(11), c14Int(12), c14Int(13)}}
)

const c14Dir10Lisp = "(lambda (a b) (if (< a 10) (if (< b 10) (= a b) (= (+ a 10) b)) (if (< b 10) nil (= a b))))"

var (
	c14A, c14B  = c14Sym("a"), c14Sym("b")
	c14TLst     = c14Type{"lst", []c14Obj{c14List(c14B), c14List(c14A, c14B), c14List(c14B, c14A, c14A), c14List(c14B, c14B)}}
	c14TILst    = c14Type{"ilst", []c14Obj{c14List(c14Int(1)), c14List(c14Int(1), c14Int(2)), c14List(c14Int(2), c14Int(1), c14Int(1)), c14List(c14Int(0), c14Int(3))}}
	c14TNest    = c14Type{"nest", []c14Obj{c14A, c14B, c14List(c14A, c14A), c14List(c14B, c14List(c14A, c14A), c14B)}}
	c14TINest   = c14Type{"inest", []c14Obj{c14Int(1), c14Int(2), c14List(c14Int(1), c14Int(1)), c14List(c14Int(2), c14List(c14Int(1), c14Int(3)), c14Int(2))}}
	c14NestKind = map[string]bool{"lst": true, "ilst": true, "nest": true, "inest": true}
)

func c14TypesFor(kind string) []c14Type {
	switch kind {
	case "string":
		return []c14Type{c14TChar, c14TUChar}
	case "octets":
		return []c14Type{c14TOct}
	case "vector":
		return []c14Type{c14TInt, c14TSym, c14TLst}
	case "fpvector":
		return []c14Type{c14TSym, c14TInt}
	}
	return []c14Type{c14TSym, c14TInt, c14TPair, c14TChar, c14TIPair, c14TLst, c14TILst, c14TXInt}
}

// keys available on an element type: wire name ("" = none) and the resulting key type
type c14Key struct {
	wire string
	to   string
	f    func(c14Obj) c14Obj
}

func c14Keys(t string) []c14Key {
	id := func(o c14Obj) c14Obj { return o }
	switch t {
	case "int":
		return []c14Key{{"", "int", id},
			{"1+", "int", func(o c14Obj) c14Obj { return c14Int(int(o.i) + 1) }},
			{"neg", "int", func(o c14Obj) c14Obj { return c14Int(-int(o.i)) }},
			{"mod2", "int", func(o c14Obj) c14Obj { return c14Int(int(o.i) % 2) }}}
	case "char":
		return []c14Key{{"", "char", id},
			{"char-code", "int", func(o c14Obj) c14Obj { return c14Int(int(o.i)) }},
			{"upcase", "char", func(o c14Obj) c14Obj { return c14Chr(rune(o.i) - 32) }}}
	case "uchar":
		return []c14Key{{"", "char", id},
			{"char-code", "int", func(o c14Obj) c14Obj { return c14Int(int(o.i)) }}}
	case "xint", "xint2":
		return []c14Key{{"", "xint", id},
			{"1+", "xint", func(o c14Obj) c14Obj { return c14Int(int(o.i) + 1) }}}
	case "oct":
		return []c14Key{{"", "int", id},
			{"1+", "int", func(o c14Obj) c14Obj { return c14Int(int(o.i) + 1) }},
			{"mod2", "int", func(o c14Obj) c14Obj { return c14Int(int(o.i) % 2) }}}
	case "pair":
		return []c14Key{{"", "pair", id},
			{"car", "sym", func(o c14Obj) c14Obj { return *o.a }},
			{"cdr", "int", func(o c14Obj) c14Obj { return *o.d }}}
	case "lst":
		a := c14A
		cnt := func(o c14Obj, x c14Obj) int {
			n := 0
			for _, e := range o.listElems() {
				if e.wire() == x.wire() {
					n++
				}
			}
			return n
		}
		return []c14Key{{"", "lst", id},
			{"seqcount:" + a.wire(), "int", func(o c14Obj) c14Obj { return c14Int(cnt(o, a)) }},
			{"seqfind:" + a.wire(), "symnil", func(o c14Obj) c14Obj {
				if cnt(o, a) > 0 {
					return a
				}
				return c14Nil
			}},
			{"seqposition:" + a.wire(), "intnil", func(o c14Obj) c14Obj {
				for i, e := range o.listElems() {
					if e.wire() == a.wire() {
						return c14Int(i)
					}
				}
				return c14Nil
			}},
			{"seqremove:" + a.wire(), "lst", func(o c14Obj) c14Obj {
				var out []c14Obj
				for _, e := range o.listElems() {
					if e.wire() != a.wire() {
						out = append(out, e)
					}
				}
				return c14List(out...)
			}},
			{"seqdedup", "lst", func(o c14Obj) c14Obj {
				es := o.listElems()
				var out []c14Obj
				for i, e := range es {
					later := false
					for _, l := range es[i+1:] {
						if l.wire() == e.wire() {
							later = true
						}
					}
					if !later {
						out = append(out, e)
					}
				}
				return c14List(out...)
			}},
			{"seqreverse", "lst", func(o c14Obj) c14Obj {
				es := o.listElems()
				var out []c14Obj
				for i := len(es) - 1; 0 <= i; i-- {
					out = append(out, es[i])
				}
				return c14List(out...)
			}},
			{"seqlength", "int", func(o c14Obj) c14Obj { return c14Int(len(o.listElems())) }}}
	case "ilst":
		return []c14Key{{"", "lst", id},
			{"seqsum", "int", func(o c14Obj) c14Obj {
				n := 0
				for _, e := range o.listElems() {
					n += int(e.i)
				}
				return c14Int(n)
			}},
			{"seqlength", "int", func(o c14Obj) c14Obj { return c14Int(len(o.listElems())) }},
			{"seqmin", "int", func(o c14Obj) c14Obj {
				m := 1 << 30
				for _, e := range o.listElems() {
					if int(e.i) < m {
						m = int(e.i)
					}
				}
				return c14Int(m)
			}},
			{"seqcount:i1", "int", func(o c14Obj) c14Obj {
				n := 0
				for _, e := range o.listElems() {
					if e.i == 1 {
						n++
					}
				}
				return c14Int(n)
			}}}
	case "nest", "inest":
		return []c14Key{{"", t, id}}
	case "ipair":
		return []c14Key{{"", "pair", id},
			{"car", "int", func(o c14Obj) c14Obj { return *o.a }},
			{"cdr", "sym", func(o c14Obj) c14Obj { return *o.d }}}
	}
	return []c14Key{{"", t, id}}
}

// two-argument tests on a key type; equiv = only the equivalence relations
func c14Tests(k string, equivOnly bool) []string {
	switch k {
	case "int":
		if equivOnly {
			return []string{"eql", "equal", "=", "sameparity"}
		}
		return []string{"eql", "equal", "=", "<", "<=", ">", ">=", "sameparity"}
	case "char":
		if equivOnly {
			return []string{"eql", "equal", "char="}
		}
		return []string{"eql", "equal", "char=", "char<"}
	case "pair", "nest", "inest":
		return []string{"equal"}
	case "xint":
		return []string{"dir10"}
	case "lst":
		if equivOnly {
			return []string{"equal", "seqsameset", "seqsamecount:y61"}
		}
		return []string{"equal", "seqsameset", "seqsamecount:y61", "seqsubsetp", "seqsearch", "seqshorter"}
	case "symnil":
		return []string{"eq", "eql", "equal"}
	case "intnil":
		return []string{"eql", "equal"}
	}
	return []string{"eq", "eql", "equal"}
}

// strict orders for sort / merge on a key type
func c14Orders(k string) []string {
	switch k {
	case "int":
		return []string{"<", ">"}
	case "char":
		return []string{"char<"}
	case "lst":
		return []string{"seqshorter"}
	}
	return nil
}

// one-argument predicates on a key type: (wire, lisp)
func c14Preds(k string, image []c14Obj) [][2]string {
	var out [][2]string
	add := func(w string) { out = append(out, [2]string{w, c14FnLisp(w)}) }
	switch k {
	case "int":
		add("evenp") // oddp is wrong on negative integers in slip (its own defect): not used with keys
		add("plusp")
		add("ltthan:2")
	case "pair":
		add("consp")
	case "sym", "symnil", "intnil":
		add("null")
	case "lst":
		add("consp")
		add("seqfind:y61")
		add("seqmember:y61")
		add("seqposition:y61")
	}
	for _, o := range image[:2] {
		w, l := c14EqTo(o)
		out = append(out, [2]string{w, l})
	}
	return out
}

func c14Image(t c14Type, key c14Key) []c14Obj {
	var out []c14Obj
	seen := map[string]bool{}
	for _, o := range t.alpha {
		v := key.f(o)
		if !seen[v.wire()] {
			seen[v.wire()] = true
			out = append(out, v)
		}
	}
	return out
}

// ---------------------------------------------------------------------------------------------
// cases

type c14Case struct {
	Fn      string   `json:"fn"`
	Kind    string   `json:"kind"`  // kind of the (first) sequence: list | vector | string | nil
	Keys    []string `json:"keys"`  // keywords present (sorted), decorated with the boundary class of the value
	Class   string   `json:"class"` // input class that replaces the keyword set in the signature ("" = none)
	Src     string   `json:"src"`   // lisp source evaluated by slip: the call form is the body of a lambda that is called three times (arguments A, B, A)
	Req     string   `json:"req"`   // model request for the arguments A
	ReqB    string   `json:"req_b"` // model request for the arguments B (same keywords, other sequences)
	Call    string   `json:"call"`  // the call form itself (body of the lambda), for messages
	Want    string   `json:"want"`  // obj | seq
	Check   string   `json:"check"` // relation checker entry ("" = compare by equality)
	Sweep   bool     `json:"sweep"`
	Nontriv bool     `json:"nontrivial"`
	// ArgsWant: for a function that must not modify its arguments, the sequence arguments (A…, B…) as they
	// must still be after the three evaluations (the form hands them back as a fourth value)
	ArgsWant []string `json:"args_want,omitempty"`
	// Fresh: the language requires a newly allocated result (subseq reverse concatenate map mapcar): the
	// harness overwrites the results and looks at the arguments once more
	Fresh bool `json:"fresh,omitempty"`
}

// c14Destructive: the functions the language allows to destroy (or requires to modify) a sequence argument
func c14Destructive(fn string) bool {
	switch fn {
	case "sort", "stable-sort", "merge", "fill", "replace", "nreverse", "nunion", "nintersection", "nset-difference":
		return true
	}
	return strings.HasPrefix(fn, "delete") || strings.HasPrefix(fn, "nsubstitute")
}

// c14FreshResult: the functions whose result never shares storage with an argument
func c14FreshResult(fn string) bool {
	switch fn {
	case "subseq", "reverse", "concatenate", "map", "mapcar":
		return true
	}
	return false
}

// c14KwEnt: one keyword argument of the call under construction
type c14KwEnt struct {
	name string // keyword name without the colon
	ref  string // how its value is written in the call form: a literal or a parameter of the enclosing lambda
	a, b string // value expressions for the arguments A and B (a literal: the same)
	fidx int    // index of its model field in fields (-1: none)
}

// c14Builder assembles source and request for one call
type c14Builder struct {
	entry   string // model entry when it differs from the lisp function (nunion -> union)
	fn      string
	pos     []string // positional lisp arguments
	kws     []c14KwEnt
	fields  []string // model fields ({k} stands for the k-th sequence parameter)
	keys    []string
	fieldsB map[int]string      // fields whose value differs for the arguments B (index into fields)
	scal    [][2]string         // scalar parameters k1, k2 … (lisp text for the arguments A and B)
	seqs    []c14Seq            // sequence parameters s1, s2 … (arguments A)
	vary    func(c14Seq) c14Seq // draws the variant B of a sequence parameter
	post    func(c14Seq) c14Seq // invariant the function needs of its sequences (merge: sorted)
	traced  bool                // the function argument records its calls: each evaluation answers (result calls)
	// spread: the call is written (apply 'fn positional… kwlist) with the keyword arguments in a list that
	// is a parameter; drop says for each keyword whether the list of the arguments A (1) or B (2) lacks it
	spread bool
	drop   func(name string) int
}

// seq registers a sequence parameter: the call form refers to it as a variable of the enclosing lambda
func (b *c14Builder) seq(field string, s c14Seq) {
	b.seqs = append(b.seqs, s)
	k := len(b.seqs)
	b.pos = append(b.pos, fmt.Sprintf("s%d", k))
	if field != "" {
		b.fields = append(b.fields, fmt.Sprintf("%s={%d}", field, k))
	}
}

// seqRef registers a sequence parameter and returns its variable name and wire placeholder
func (b *c14Builder) seqRef(s c14Seq) (string, string) {
	b.seqs = append(b.seqs, s)
	k := len(b.seqs)
	return fmt.Sprintf("s%d", k), fmt.Sprintf("{%d}", k)
}

func (b *c14Builder) arg(lisp string, field string) {
	b.pos = append(b.pos, lisp)
	if field != "" {
		b.fields = append(b.fields, field)
	}
}

func (b *c14Builder) kw(name, lisp, field string) {
	fidx := -1
	if field != "" {
		b.fields = append(b.fields, field)
		fidx = len(b.fields) - 1
	}
	b.kws = append(b.kws, c14KwEnt{name: name, ref: lisp, a: lisp, b: lisp, fidx: fidx})
	b.keys = append(b.keys, name)
}

// scalar registers a scalar parameter of the enclosing lambda (a keyword value, the item, a function)
// whose value is lispA in the first and third evaluation and lispB in the second; returns the variable name
func (b *c14Builder) scalar(lispA, fieldA, lispB, fieldB string) string {
	b.scal = append(b.scal, [2]string{lispA, lispB})
	if fieldA != "" || fieldB != "" {
		b.fields = append(b.fields, fieldA)
		if fieldB != fieldA {
			if b.fieldsB == nil {
				b.fieldsB = map[int]string{}
			}
			b.fieldsB[len(b.fields)-1] = fieldB
		}
	}
	return fmt.Sprintf("k%d", len(b.scal))
}

// kwVar: a keyword whose value is a scalar parameter (A and B values of the same boundary class)
func (b *c14Builder) kwVar(name, token, lispA, fieldA, lispB, fieldB string) {
	n := len(b.fields)
	v := b.scalar(lispA, fieldA, lispB, fieldB)
	fidx := -1
	if len(b.fields) > n {
		fidx = n
	}
	b.kws = append(b.kws, c14KwEnt{name: name, ref: v, a: lispA, b: lispB, fidx: fidx})
	b.keys = append(b.keys, token)
}

// argVar: a positional scalar argument (item, start of subseq, a function) as a parameter
func (b *c14Builder) argVar(lispA, fieldA, lispB, fieldB string) {
	b.pos = append(b.pos, b.scalar(lispA, fieldA, lispB, fieldB))
}

// kwTok: like kw, with a boundary-decorated token for the signature (start@len, end@nil, count@neg…)
func (b *c14Builder) kwTok(name, token, lisp, field string) {
	b.kw(name, lisp, field)
	b.keys[len(b.keys)-1] = token
}

func (b *c14Builder) done(kind, want, check string, sweep bool) c14Case {
	var kwsrc []string
	for _, k := range b.kws {
		kwsrc = append(kwsrc, ":"+k.name+" "+k.ref)
	}
	call := "(" + b.fn + " " + strings.Join(append(append([]string{}, b.pos...), kwsrc...), " ") + ")"
	// the keyword arguments as one list handed to apply; some keywords are absent from the list of A or of B
	dropA, dropB := map[int]bool{}, map[int]bool{}
	var plistA, plistB []string
	spread := b.spread && len(b.kws) > 0 && !strings.Contains(call, "§K§")
	if spread {
		for _, k := range b.kws {
			d := 0
			if b.drop != nil {
				d = b.drop(k.name)
			}
			if d == 1 {
				dropA[k.fidx] = true
			} else {
				plistA = append(plistA, ":"+k.name+" "+k.a)
			}
			if d == 2 {
				dropB[k.fidx] = true
			} else {
				plistB = append(plistB, ":"+k.name+" "+k.b)
			}
		}
		call = "(apply '" + b.fn + " " + strings.Join(append(append([]string{}, b.pos...), "kwp"), " ") + ")"
		b.keys = append(b.keys, "@spread")
	}
	keys := append([]string{}, b.keys...)
	sort.Strings(keys)
	entry := b.fn
	if b.entry != "" {
		entry = b.entry
	}
	var fa, fb []string
	for i, fld := range b.fields {
		fbv := fld
		if v, ok := b.fieldsB[i]; ok {
			fbv = v
		}
		if fld != "" && !dropA[i] {
			fa = append(fa, fld)
		}
		if fbv != "" && !dropB[i] {
			fb = append(fb, fbv)
		}
	}
	var params, argsA, argsB []string
	reqA := strings.TrimSpace("seq " + entry + " " + strings.Join(fa, " "))
	reqB := strings.TrimSpace("seq " + entry + " " + strings.Join(fb, " "))
	var bvs []c14Seq
	for i, a := range b.seqs {
		bv := a
		if b.vary != nil {
			bv = b.vary(a)
		}
		if b.post != nil {
			bv = b.post(bv)
		}
		bvs = append(bvs, bv)
		params = append(params, fmt.Sprintf("s%d", i+1))
		argsA = append(argsA, a.lisp())
		argsB = append(argsB, bv.lisp())
		ph := fmt.Sprintf("{%d}", i+1)
		reqA = strings.ReplaceAll(reqA, ph, a.wire())
		reqB = strings.ReplaceAll(reqB, ph, bv.wire())
	}
	pass := ""
	for i, sc := range b.scal {
		params = append(params, fmt.Sprintf("k%d", i+1))
		argsA = append(argsA, sc[0])
		argsB = append(argsB, sc[1])
		pass += fmt.Sprintf(" k%d", i+1)
	}
	if spread {
		params = append(params, "kwp")
		argsA = append(argsA, "(list "+strings.Join(plistA, " ")+")")
		argsB = append(argsB, "(list "+strings.Join(plistB, " ")+")")
	}
	// a user function that re-enters the form hands the scalar parameters on unchanged
	call = strings.ReplaceAll(call, "§K§", pass)
	// a function that is not allowed to modify its arguments: the sequences are made once, the first and the
	// third evaluation get the very same objects, and the form hands all of them back as a fourth value
	binds, tail := "", ""
	var argsWant []string
	if !c14Destructive(b.fn) && len(b.seqs) > 0 {
		var names []string
		for i := range b.seqs {
			binds += fmt.Sprintf(" (a%d %s)", i+1, argsA[i])
			names = append(names, fmt.Sprintf("a%d", i+1))
			argsWant = append(argsWant, b.seqs[i].wire())
			argsA[i] = fmt.Sprintf("a%d", i+1)
		}
		for i := range b.seqs {
			bv := bvs[i]
			binds += fmt.Sprintf(" (b%d %s)", i+1, argsB[i])
			names = append(names, fmt.Sprintf("b%d", i+1))
			argsWant = append(argsWant, bv.wire())
			argsB[i] = fmt.Sprintf("b%d", i+1)
		}
		tail = " (list " + strings.Join(names, " ") + ")"
	}
	ca := "(funcall f " + strings.Join(argsA, " ") + ")"
	cb := "(funcall f " + strings.Join(argsB, " ") + ")"
	// the call form is compiled once (body of the lambda) and evaluated three times: with the arguments A,
	// then with B (other sequences, other keyword values, other :key / :test / predicate functions — all
	// of them parameters of the lambda), then with A again; `f` is visible in the body so that user
	// functions can re-enter the very same form
	src := "(let ((f nil)" + binds + ") (setq f (lambda (" + strings.Join(params, " ") + ") " + call + ")) (list " + ca + " " + cb + " " + ca + tail + "))"
	if b.traced {
		// every evaluation starts with an empty log and answers (result calls-in-order)
		src = "(let ((f nil) (log nil)" + binds + ") (setq f (lambda (" + strings.Join(params, " ") + ") (setq log nil) (let ((r " + call + ")) (list r (reverse log))))) (list " + ca + " " + cb + " " + ca + tail + "))"
		want += "+trace"
	}
	if kind == "fpvector" {
		kind = "vector+fp"
	}
	callTxt := call + " with " + strings.Join(argsA, " ") + " / " + strings.Join(argsB, " ")
	if binds != "" {
		callTxt += " where" + binds
	}
	return c14Case{Fn: b.fn, Kind: kind, Keys: keys, Src: src, Call: callTxt, Req: reqA, ReqB: reqB, Want: want, Check: check, Sweep: sweep,
		ArgsWant: argsWant, Fresh: len(argsWant) > 0 && c14FreshResult(b.fn)}
}


// chooser: how keyword values and operands are picked. The sweep enumerates (deterministic product),
// the composite generator draws from the PRNG.
type c14Pick interface {
	n(n int) int // index in [0,n)
}

type c14Rand struct{ r *lib.Rng }

func (p c14Rand) n(n int) int { return p.r.Intn(n) }

// c14LCG: a fixed pseudo-random chooser (seed independent) for the long sequences of the sort sweep
type c14LCG struct{ x uint32 }

func (l *c14LCG) n(n int) int {
	if n <= 0 {
		return 0
	}
	l.x = l.x*1664525 + 1013904223
	return int((l.x >> 8) % uint32(n))
}

// c14Enum enumerates all index vectors: each call to n() consumes one digit; after a run, next()
// advances. Digits beyond the recorded ones default to 0.
type c14Enum struct {
	digits []int
	radix  []int
	pos    int
}

func (e *c14Enum) n(n int) int {
	if n <= 0 {
		return 0
	}
	if e.pos == len(e.digits) {
		e.digits = append(e.digits, 0)
		e.radix = append(e.radix, n)
	}
	e.radix[e.pos] = n
	d := e.digits[e.pos]
	if d >= n {
		d = n - 1
	}
	e.pos++
	return d
}

// next advances to the following combination; false when exhausted
func (e *c14Enum) next() bool {
	e.digits = e.digits[:e.pos]
	e.radix = e.radix[:e.pos]
	for i := len(e.digits) - 1; 0 <= i; i-- {
		if e.digits[i]+1 < e.radix[i] {
			e.digits[i]++
			e.digits = e.digits[:i+1]
			e.radix = e.radix[:i+1]
			e.pos = 0
			return true
		}
	}
	return false
}

// ---------------------------------------------------------------------------------------------
// function table

type c14Fun struct {
	name  string
	fam   string   // scan | scanc (with :count) | dups | alist | search | mismatch | subseq | fill | replace | reverse | sort | merge | set | quant | map | mapcar | reduce | concatenate
	mode  string   // item | if | ifnot | ""
	kws   []string // keywords the language gives the function
	kinds []string
}

var c14AllKinds = []string{"list", "vector", "string"}

// the functions with a branch for slip's octets vectors
var c14Kinds4 = []string{"list", "vector", "string", "octets"}

func c14Funs() []c14Fun {
	var fs []c14Fun
	scan := []string{"key", "test", "testnot", "start", "end", "fromend"}
	scanIf := []string{"key", "start", "end", "fromend"}
	for _, base := range []string{"find", "position", "count"} {
		fs = append(fs, c14Fun{base, "scan", "item", scan, c14Kinds4},
			c14Fun{base + "-if", "scan", "if", scanIf, c14Kinds4},
			c14Fun{base + "-if-not", "scan", "ifnot", scanIf, c14AllKinds})
	}
	for _, base := range []string{"remove", "delete", "substitute", "nsubstitute"} {
		fs = append(fs, c14Fun{base, "scanc", "item", append(append([]string{}, scan...), "count"), c14Kinds4},
			c14Fun{base + "-if", "scanc", "if", append(append([]string{}, scanIf...), "count"), c14Kinds4},
			c14Fun{base + "-if-not", "scanc", "ifnot", append(append([]string{}, scanIf...), "count"), c14AllKinds})
	}
	for _, n := range []string{"remove-duplicates", "delete-duplicates"} {
		// :test-not on remove-duplicates denotes a non-transitive relation: result left open, not generated
		fs = append(fs, c14Fun{n, "dups", "", []string{"key", "test", "start", "end", "fromend"}, c14Kinds4})
	}
	for _, base := range []string{"member", "assoc", "rassoc"} {
		fs = append(fs, c14Fun{base, "alist", "item", []string{"key", "test", "testnot"}, []string{"list"}},
			c14Fun{base + "-if", "alist", "if", []string{"key"}, []string{"list"}},
			c14Fun{base + "-if-not", "alist", "ifnot", []string{"key"}, []string{"list"}})
	}
	two := []string{"key", "test", "testnot", "start1", "end1", "start2", "end2", "fromend"}
	fs = append(fs, c14Fun{"search", "search", "", two, c14Kinds4}, c14Fun{"mismatch", "mismatch", "", two, c14Kinds4})
	fs = append(fs, c14Fun{"subseq", "subseq", "", []string{"start", "end"}, c14Kinds4})
	fs = append(fs, c14Fun{"fill", "fill", "", []string{"start", "end"}, c14Kinds4})
	fs = append(fs, c14Fun{"replace", "replace", "", []string{"start1", "end1", "start2", "end2"}, c14Kinds4})
	fs = append(fs, c14Fun{"reverse", "reverse", "", nil, c14Kinds4}, c14Fun{"nreverse", "reverse", "", nil, c14Kinds4})
	fs = append(fs, c14Fun{"sort", "sort", "", []string{"key"}, c14AllKinds}, c14Fun{"stable-sort", "sort", "", []string{"key"}, c14AllKinds})
	fs = append(fs, c14Fun{"merge", "merge", "", []string{"key"}, c14AllKinds})
	for _, n := range []string{"union", "intersection", "set-difference", "subsetp", "nunion", "nintersection", "nset-difference"} {
		fs = append(fs, c14Fun{n, "set", "", []string{"key", "test", "testnot"}, []string{"list"}})
	}
	for _, n := range []string{"every", "some", "notany", "notevery"} {
		fs = append(fs, c14Fun{n, "quant", "", nil, c14AllKinds})
	}
	fs = append(fs, c14Fun{"map", "map", "", nil, c14AllKinds}, c14Fun{"mapcar", "mapcar", "", nil, []string{"list"}})
	fs = append(fs, c14Fun{"reduce", "reduce", "", []string{"key", "start", "end", "fromend", "init"}, c14Kinds4})
	fs = append(fs, c14Fun{"concatenate", "concatenate", "", nil, c14AllKinds})
	return fs
}

// the model entry for a function (destructive variants share the entry of the pure function)
func c14Entry(fn string) string {
	switch fn {
	case "nunion":
		return "union"
	case "nintersection":
		return "intersection"
	case "nset-difference":
		return "set-difference"
	}
	return fn
}

// ---------------------------------------------------------------------------------------------
// building one call of a function

func c14RandomSeq(p c14Pick, t c14Type, kind string, n int) c14Seq {
	s := c14Seq{kind: kind, tname: t.name}
	for i := 0; i < n; i++ {
		s.elems = append(s.elems, t.alpha[p.n(len(t.alpha))])
	}
	if kind == "fpvector" {
		// a vector with a fill pointer: one to three more elements lie beyond it
		s.kind = "vector"
		for i, m := 0, 1+p.n(3); i < m; i++ {
			s.hidden = append(s.hidden, t.alpha[p.n(len(t.alpha))])
		}
	}
	return s
}

func c14Has(set []string, k string) bool {
	for _, s := range set {
		if s == k {
			return true
		}
	}
	return false
}

// c14Bounds adds :start/:end style keywords (names given) for a sequence of length n. sweepVals
// restricts the candidates to the boundary values.
func c14Bounds(b *c14Builder, p c14Pick, use []string, startName, endName string, n int, sweep bool) (int, int) {
	return c14BoundsV(b, p, use, startName, endName, n, sweep, !sweep)
}

// c14BoundsV: varyB = the third evaluation gets other in-range values of the same boundary class
// (the sequences of the third evaluation have the same length when bounds are present)
func c14BoundsV(b *c14Builder, p c14Pick, use []string, startName, endName string, n int, sweep bool, varyB bool) (int, int) {
	start, startB := 0, 0
	end := n
	if c14Has(use, startName) {
		cands := []int{}
		if sweep {
			cands = append(cands, 0)
			if n >= 1 {
				cands = append(cands, 1)
			}
			if n >= 2 {
				cands = append(cands, n)
			}
		} else {
			for i := 0; i <= n; i++ {
				cands = append(cands, i)
			}
		}
		start = cands[p.n(len(cands))]
		startB = start
		tok := startName
		if start == n {
			tok += "@len"
		} else if varyB {
			startB = p.n(n)
		}
		b.kwVar(startName, tok, fmt.Sprint(start), fmt.Sprintf("%s=%d", startName, start), fmt.Sprint(startB), fmt.Sprintf("%s=%d", startName, startB))
	}
	if c14Has(use, endName) {
		cands := []int{-1} // -1 = nil
		if sweep {
			cands = append(cands, n)
			if n-1 >= start {
				cands = append(cands, n-1)
			}
			if start < n-1 {
				cands = append(cands, start)
			}
		} else {
			for i := start; i <= n; i++ {
				cands = append(cands, i)
			}
		}
		e := cands[p.n(len(cands))]
		if e < 0 {
			b.kwVar(endName, endName+"@nil", "nil", "", "nil", "")
		} else {
			tok := endName
			eB := e
			if e == n {
				tok += "@len"
			} else if varyB && startB < n {
				eB = startB + p.n(n-startB)
			} else if eB < startB {
				eB = startB
			}
			b.kwVar(endName, tok, fmt.Sprint(e), fmt.Sprintf("%s=%d", endName, e), fmt.Sprint(eB), fmt.Sprintf("%s=%d", endName, eB))
			end = e
		}
	}
	return start, end
}

// c14Build builds one case of function f on sequence kind `kind` with element type t, using the
// keywords `use`. Returns ok=false when the combination does not exist (e.g. :test on a -if).
func c14Build(f c14Fun, kind string, t c14Type, seqLen int, use []string, p c14Pick, sweep bool, sweepSeqs bool) (c14Case, bool) {
	b := &c14Builder{fn: f.name}
	// B variant of a function-valued argument (:key, :test, predicate, order, mapped function): every one
	// of them is a parameter of the enclosing lambda. The sweep varies one of them (the first that has an
	// alternative), the composite generator each with probability 1/2.
	variedFn := false
	pickB := func(list []string, a string) string {
		if len(list) < 2 {
			return a
		}
		if sweep {
			if variedFn {
				return a
			}
			for i, x := range list {
				if x == a {
					variedFn = true
					return list[(i+1)%len(list)]
				}
			}
			return a
		}
		if p.n(2) == 0 {
			return a
		}
		return list[p.n(len(list))]
	}
	mkSeq := func(n int) c14Seq {
		if sweepSeqs {
			return c14SweepSeq(t, kind, p)
		}
		return c14RandomSeq(p, t, kind, n)
	}
	// self role: one user function of the call re-enters the call itself on nested lists
	self := ""
	otherKind := "" // kind of the other sequence of search / mismatch (sequence-1) and replace (sequence-2)
	traced := false // the function argument records its calls
	var use2 []string
	for _, u := range use {
		switch {
		case strings.HasPrefix(u, "self:"):
			self = u[5:]
		case strings.HasPrefix(u, "other:"):
			otherKind = u[6:]
		case u == "trace":
			traced = true
		case u == "spread":
			// the keyword arguments travel in a list handed to apply; the bounding / count / direction
			// keywords are absent from the list of one of the two argument sets
			b.spread = true
			b.drop = func(name string) int {
				switch name {
				case "start", "end", "start1", "end1", "start2", "end2":
					if f.fam == "reduce" || f.fam == "fill" {
						return 0 // emptiness of the range is an input class of its own there
					}
					return p.n(3)
				case "count", "from-end":
					return p.n(3)
				}
				return 0
			}
		default:
			use2 = append(use2, u)
		}
	}
	use = use2
	sigKind := kind
	same := otherKind == "same" // replace: sequence-1 and sequence-2 are the same object (overlapping regions)
	if same {
		if f.fam != "replace" || kind == "fpvector" || !c14KindHolds(kind, t) {
			return c14Case{}, false
		}
		otherKind = kind
		sigKind = kind + "<-same"
	} else if otherKind != "" {
		if !(f.fam == "search" || f.fam == "mismatch" || f.fam == "replace") || otherKind == kind || !c14KindHolds(otherKind, t) || !c14KindHolds(kind, t) {
			return c14Case{}, false
		}
		if f.fam == "replace" {
			sigKind = kind + "<-" + otherKind
		} else {
			sigKind = otherKind + "/" + kind
		}
	}
	if traced && (self != "" || !(f.fam == "quant" || f.fam == "map" || f.fam == "mapcar" || f.fam == "reduce")) {
		return c14Case{}, false
	}
	if kind == "fpvector" {
		switch f.fam {
		case "merge", "map", "mapcar", "concatenate", "set", "alist":
			return c14Case{}, false
		}
	}
	kind1, kind2 := kind, kind
	if otherKind != "" && !same {
		if f.fam == "replace" {
			kind2 = otherKind
		} else {
			kind1 = otherKind
		}
	}
	bounded := false
	for _, u := range use {
		if strings.HasPrefix(u, "start") || strings.HasPrefix(u, "end") {
			bounded = true
		}
	}
	if self != "" {
		if (t.name != "nest" && t.name != "inest") || bounded || kind == "string" || kind == "octets" || kind == "fpvector" || otherKind != "" || !c14SelfOK(f, self) {
			return c14Case{}, false
		}
		if self == "key" && c14Has(use, "key") || (self == "test" || self == "test1") && (c14Has(use, "test") || c14Has(use, "testnot")) {
			return c14Case{}, false
		}
	} else if t.name == "nest" || t.name == "inest" {
		return c14Case{}, false
	}
	if t.name == "xint" && f.fam != "set" {
		return c14Case{}, false
	}
	// the variant B of a sequence parameter for the third evaluation of the call form: same kind and
	// element type; same length when bounds (or length-dependent input classes) are involved
	fixedLen := bounded || f.fam == "reduce" || f.fam == "fill" || f.fam == "subseq"
	b.vary = func(a c14Seq) c14Seq {
		if sweep {
			r := c14Seq{kind: a.kind, tname: a.tname, hidden: a.hidden}
			for i := len(a.elems) - 1; 0 <= i; i-- {
				r.elems = append(r.elems, a.elems[i])
			}
			return r
		}
		n := len(a.elems)
		if !fixedLen && p.n(2) == 0 {
			n = p.n(9)
		}
		ak := a.kind
		if len(a.hidden) > 0 {
			ak = "fpvector"
		}
		return c14RandomSeq(p, c14TypeByName(a.tname), ak, n)
	}
	selfLambda := func(base string) string {
		atom := "x"
		if base != "" {
			atom = "(funcall " + c14FnLisp(base) + " x)"
		}
		return "(lambda (x) (if (consp x) (funcall f x§K§) " + atom + "))"
	}
	selfBases := func() []string {
		if t.name == "inest" {
			return []string{"evenp", "plusp", "ltthan:2"}
		}
		return []string{"eqto:y61", "null"}
	}
	// key
	keys := c14Keys(t.name)
	key := keys[0]
	if c14Has(use, "key") {
		if len(keys) < 2 {
			return c14Case{}, false
		}
		key = keys[1+p.n(len(keys)-1)]
	}
	// the key of the arguments B: another key function of the type with the same kind of values
	keyBOf := func(key c14Key, all []c14Key) c14Key {
		if key.wire == "" || self == "key" {
			return key
		}
		var cands []string
		for _, k2 := range all[1:] {
			if k2.to == key.to {
				cands = append(cands, k2.wire)
			}
		}
		w := pickB(cands, key.wire)
		for _, k2 := range all {
			if k2.wire == w {
				return k2
			}
		}
		return key
	}
	keyB := keyBOf(key, keys)
	image := c14Image(t, key)
	imageB := c14Image(t, keyB)
	addKey := func() {
		if self == "key" {
			b.kwTok("key", "key@self", selfLambda(""), "self=key")
			return
		}
		if key.wire != "" {
			b.kwVar("key", "key", c14FnLisp(key.wire), "key="+key.wire, c14FnLisp(keyB.wire), "key="+keyB.wire)
		}
	}
	addTest := func(equivOnly bool) bool {
		if self == "test" {
			b.kwTok("test", "test@self", "(lambda (a b) (if (and (consp a) (consp b)) (funcall f a b§K§) (equal a b)))", "self=test")
			return true
		}
		if self == "test1" {
			b.kwTok("test", "test@self", "(lambda (a b) (if (and (consp a) (consp b)) (equal (funcall f a§K§) (funcall f b§K§)) (equal a b)))", "self=test1")
			return true
		}
		for _, name := range []string{"test", "testnot"} {
			if c14Has(use, name) {
				ts := c14Tests(key.to, equivOnly)
				tw := ts[p.n(len(ts))]
				tb := pickB(ts, tw)
				lname := "test"
				if name == "testnot" {
					lname = "test-not"
				}
				b.kwVar(lname, lname, c14FnLisp(tw), name+"="+tw, c14FnLisp(tb), name+"="+tb)
			}
		}
		return true
	}
	if c14Has(use, "test") && c14Has(use, "testnot") {
		return c14Case{}, false
	}
	fromEnd := func() {
		if c14Has(use, "fromend") {
			if sweep {
				b.kwVar("from-end", "from-end", "t", "fromend=t", "t", "fromend=t")
				return
			}
			vals := [][2]string{{"t", "fromend=t"}, {"nil", "fromend=n"}}
			va, vb := vals[0], vals[p.n(2)]
			if p.n(4) == 0 {
				va = vals[1]
			}
			b.kwVar("from-end", "from-end", va[0], va[1], vb[0], vb[1])
		}
	}
	switch f.fam {
	case "scan", "scanc":
		s := mkSeq(seqLen)
		base := strings.TrimSuffix(strings.TrimSuffix(f.name, "-if-not"), "-if")
		if base == "substitute" || base == "nsubstitute" {
			nw := t.alpha[3]
			if kind != "string" && kind != "octets" && p.n(3) == 0 {
				nw = c14Sym("z")
			}
			b.arg(c14ElemLisp(kind, nw), "new="+nw.wire())
		}
		if f.mode == "item" {
			item := image[p.n(len(image))]
			itemB := item
			if !sweep {
				itemB = imageB[p.n(len(imageB))]
			} else if keyB.wire != key.wire {
				itemB = imageB[0]
			}
			b.argVar(item.lisp(), "item="+item.wire(), itemB.lisp(), "item="+itemB.wire())
		} else if self == "pred" {
			bs := selfBases()
			bw := bs[p.n(len(bs))]
			b.arg(selfLambda(bw), "self=pred base="+bw)
			b.keys = append(b.keys, "pred@self")
		} else {
			ps := c14Preds(key.to, image)
			pr := ps[p.n(len(ps))]
			prB := c14PredB(ps, pr, pickB)
			b.argVar(pr[1], "pred="+pr[0], prB[1], "pred="+prB[0])
		}
		b.seq("seq", s)
		addKey()
		addTest(false)
		c14Bounds(b, p, use, "start", "end", len(s.elems), sweep)
		if c14Has(use, "count") {
			cands := []string{"0", "1", "2", "-1", "nil"}
			if !sweep {
				cands = append(cands, "3", "1", "2")
			}
			cv := cands[p.n(len(cands))]
			switch cv {
			case "nil":
				b.kwVar("count", "count@nil", "nil", "", "nil", "")
			case "-1":
				b.kwVar("count", "count@neg", cv, "count="+cv, cv, "count="+cv)
			case "0":
				b.kwVar("count", "count@0", cv, "count="+cv, cv, "count="+cv)
			default:
				cb := cv
				if !sweep {
					cb = []string{"1", "2", "3"}[p.n(3)]
				}
				b.kwVar("count", "count", cv, "count="+cv, cb, "count="+cb)
			}
		}
		fromEnd()
		want := "seq"
		if base == "find" || base == "position" || base == "count" {
			want = "obj"
		}
		return b.done(kind, want, "", sweep), true
	case "dups":
		s := mkSeq(seqLen)
		b.seq("seq", s)
		addKey()
		addTest(true)
		c14Bounds(b, p, use, "start", "end", len(s.elems), sweep)
		fromEnd()
		return b.done(kind, "seq", "", sweep), true
	case "alist":
		base := strings.TrimSuffix(strings.TrimSuffix(f.name, "-if-not"), "-if")
		var s c14Seq
		tgtImage := image
		if base == "member" {
			s = mkSeq(seqLen)
		} else {
			// association lists: pairs; the key function applies to the car (cdr for rassoc)
			if t.name != "pair" && t.name != "ipair" {
				return c14Case{}, false
			}
			s = mkSeq(seqLen)
			if !sweepSeqs && len(s.elems) > 0 && p.n(4) == 0 {
				s.elems[p.n(len(s.elems))] = c14Nil // nil entries are skipped
			}
			carInt := t.name == "ipair"
			proj := c14Type{"sym", []c14Obj{c14Sym("a"), c14Sym("b")}}
			if (base == "assoc") == carInt {
				proj = c14Type{"int", []c14Obj{c14Int(1), c14Int(2)}}
			}
			pkeys := c14Keys(proj.name)
			key = pkeys[0]
			if c14Has(use, "key") {
				if len(pkeys) < 2 {
					return c14Case{}, false
				}
				key = pkeys[1+p.n(len(pkeys)-1)]
			}
			keyB = keyBOf(key, pkeys)
			tgtImage = c14Image(proj, key)
		}
		if f.mode == "item" {
			item := tgtImage[p.n(len(tgtImage))]
			b.arg(item.lisp(), "item="+item.wire())
		} else if self == "pred" {
			bs := selfBases()
			bw := bs[p.n(len(bs))]
			b.arg(selfLambda(bw), "self=pred base="+bw)
			b.keys = append(b.keys, "pred@self")
		} else {
			ps := c14Preds(key.to, tgtImage)
			pr := ps[p.n(len(ps))]
			prB := c14PredB(ps, pr, pickB)
			b.argVar(pr[1], "pred="+pr[0], prB[1], "pred="+prB[0])
		}
		b.seq("seq", s)
		addKey()
		addTest(false)
		return b.done(kind, "obj", "", sweep), true
	case "search", "mismatch":
		s2 := mkSeq(seqLen)
		var s1 c14Seq
		if sweepSeqs {
			s1 = c14SweepSeq(t, kind1, p)
		} else {
			// mostly a window of s2 (possibly perturbed) so that matches happen
			s1 = c14Seq{kind: kind1, tname: t.name}
			if len(s2.elems) > 0 && p.n(4) != 0 {
				a := p.n(len(s2.elems) + 1)
				z := a + p.n(len(s2.elems)-a+1)
				s1.elems = append(s1.elems, s2.elems[a:z]...)
				if len(s1.elems) > 0 && p.n(3) == 0 {
					s1.elems[p.n(len(s1.elems))] = t.alpha[p.n(len(t.alpha))]
				}
			} else {
				s1 = c14RandomSeq(p, t, kind1, p.n(4))
			}
			if s1.kind == "fpvector" {
				s1.kind = "vector"
			}
			if f.fam == "mismatch" && p.n(2) == 0 && otherKind == "" {
				s1, s2 = s2, s1
			}
		}
		b.seq("seq", s1)
		b.seq("seq2", s2)
		addKey()
		addTest(f.fam == "search" && false)
		c14Bounds(b, p, use, "start1", "end1", len(s1.elems), sweep)
		c14Bounds(b, p, use, "start2", "end2", len(s2.elems), sweep)
		fromEnd()
		return b.done(sigKind, "obj", "", sweep), true
	case "subseq":
		s := mkSeq(seqLen)
		b.seq("seq", s)
		// start and end are positional; start is required
		n := len(s.elems)
		start := 0
		if c14Has(use, "start") {
			start = p.n(n + 1)
		}
		startB := start
		if !sweep {
			startB = p.n(n + 1)
		}
		b.argVar(fmt.Sprint(start), fmt.Sprintf("start=%d", start), fmt.Sprint(startB), fmt.Sprintf("start=%d", startB))
		b.keys = append(b.keys, "start")
		if c14Has(use, "end") {
			e := start + p.n(n-start+2) - 1
			if e < start {
				b.argVar("nil", "", "nil", "")
			} else {
				eB := e
				if !sweep || eB < startB {
					eB = startB + p.n(n-startB+1)
				}
				b.argVar(fmt.Sprint(e), fmt.Sprintf("end=%d", e), fmt.Sprint(eB), fmt.Sprintf("end=%d", eB))
			}
			b.keys = append(b.keys, "end")
		}
		return b.done(kind, "seq", "", sweep), true
	case "fill":
		s := mkSeq(seqLen)
		item := t.alpha[3]
		if kind != "string" && kind != "octets" && p.n(3) == 0 {
			item = c14Sym("z")
		}
		b.seq("seq", s)
		b.arg(c14ElemLisp(kind, item), "item="+item.wire())
		c14Bounds(b, p, use, "start", "end", len(s.elems), sweep)
		cs := b.done(kind, "seq", "", sweep)
		if len(s.elems) == 0 {
			cs.Class = "empty" // fill on an empty sequence is its own input class (see findings)
		}
		return cs, true
	case "replace":
		s1 := mkSeq(seqLen)
		var s2 c14Seq
		if sweepSeqs {
			s2 = c14SweepSeq(t, kind2, p)
		} else {
			s2 = c14RandomSeq(p, t, kind2, p.n(7))
		}
		b.seq("seq", s1)
		if same {
			// the parameter s1 of the form is both sequences; "as if the entire source region were copied first"
			s2 = s1
			b.pos = append(b.pos, "s1")
			b.fields = append(b.fields, "seq2={1}")
		} else {
			b.seq("seq2", s2)
		}
		c14Bounds(b, p, use, "start1", "end1", len(s1.elems), sweep)
		c14Bounds(b, p, use, "start2", "end2", len(s2.elems), sweep)
		return b.done(sigKind, "seq", "", sweep), true
	case "reverse":
		s := mkSeq(seqLen)
		b.seq("seq", s)
		return b.done(kind, "seq", "", sweep), true
	case "sort":
		ords := c14Orders(key.to)
		if len(ords) == 0 {
			return c14Case{}, false
		}
		s := mkSeq(seqLen)
		ord := ords[p.n(len(ords))]
		ordB := pickB(ords, ord)
		b.seq("seq", s)
		b.argVar(c14FnLisp(ord), "pred="+ord, c14FnLisp(ordB), "pred="+ordB)
		addKey()
		check := ""
		if f.name == "sort" {
			check = "sort-check"
		}
		return b.done(kind, "seq", check, sweep), true
	case "merge":
		ords := c14Orders(key.to)
		if len(ords) == 0 {
			return c14Case{}, false
		}
		ord := ords[p.n(len(ords))]
		ordB := pickB(ords, ord)
		// both inputs sorted by the predicate on the key (the language requires it)
		sortedBy := func(ord string, key c14Key) func(c14Seq) c14Seq {
			less := func(a, c c14Obj) bool {
				ka, kc := key.f(a), key.f(c)
				switch ord {
				case ">":
					return ka.i > kc.i
				case "seqshorter":
					return len(ka.listElems()) < len(kc.listElems())
				}
				return ka.i < kc.i
			}
			return func(s c14Seq) c14Seq {
				s.elems = append([]c14Obj{}, s.elems...)
				sort.SliceStable(s.elems, func(i, j int) bool { return less(s.elems[i], s.elems[j]) })
				return s
			}
		}
		sorted := sortedBy(ord, key)
		b.post = sortedBy(ordB, keyB)
		s1, s2 := sorted(mkSeq(seqLen)), sorted(mkSeq(seqLen))
		if !sweepSeqs {
			s2 = sorted(c14RandomSeq(p, t, kind, p.n(6)))
		}
		rt := kind
		b.arg("'"+rt, "rtype="+rt)
		b.seq("seq", s1)
		b.seq("seq2", s2)
		b.argVar(c14FnLisp(ord), "pred="+ord, c14FnLisp(ordB), "pred="+ordB)
		addKey()
		return b.done(kind, "seq", "", sweep), true
	case "set":
		s1 := mkSeq(seqLen)
		var s2 c14Seq
		t2 := t
		if t.name == "xint" {
			t2 = c14TXInt2 // list-2 over 10..13
		}
		if sweepSeqs {
			s2 = c14SweepSeq(t2, kind, p)
		} else {
			s2 = c14RandomSeq(p, t2, kind, p.n(6))
		}
		b.seq("seq", s1)
		b.seq("seq2", s2)
		addKey()
		base := c14Entry(f.name)
		if (base == "union" || base == "intersection") && c14Has(use, "testnot") {
			return c14Case{}, false // a negated equivalence is not an equivalence: result left open
		}
		// union/intersection: the language fixes the result only for equivalence tests;
		// set-difference and subsetp are defined for any test (list-1 element first)
		addTest(base == "union" || base == "intersection")
		if base == "subsetp" {
			return b.done(kind, "obj", "", sweep), true
		}
		b.entry = base
		return b.done(kind, "seq", base+"-check", sweep), true
	case "quant", "mapcar", "map":
		nseq := 1 + p.n(2)
		fnw := ""
		var fnCands []string // the functions the position can take (for the variant B)
		var seqs []c14Seq
		tt := t
		if self == "fn" {
			nseq = 1
			bs := []string{"null", "list"}
			if t.name == "inest" {
				bs = []string{"1+", "neg", "evenp"}
			}
			fnw = bs[p.n(len(bs))]
		} else if nseq == 2 || f.fam != "quant" {
			// functions of one or two arguments on integers / characters / pairs
			switch t.name {
			case "int":
				if nseq == 2 {
					fnCands = []string{"+", "-", "<", "=", "list", "cons", "max"}
				} else {
					fnCands = []string{"1+", "neg", "evenp", "oddp", "list", "plusp"}
				}
			case "char":
				if nseq == 2 {
					fnCands = []string{"char=", "char<", "list", "cons"}
				} else {
					fnCands = []string{"upcase", "char-code", "list"}
				}
			case "uchar": // eq on characters is not defined by the language: not used
				if nseq == 2 {
					fnCands = []string{"char=", "char<", "list", "cons", "eql"}
				} else {
					fnCands = []string{"char-code", "list"}
				}
			case "oct":
				if nseq == 2 {
					fnCands = []string{"+", "<", "=", "list", "cons"}
				} else {
					fnCands = []string{"1+", "evenp", "list", "plusp"}
				}
			case "pair", "ipair":
				if nseq == 2 {
					fnCands = []string{"list", "cons", "equal"}
				} else {
					fnCands = []string{"car", "cdr", "consp", "list"}
				}
			case "lst":
				if nseq == 2 {
					fnCands = []string{"seqsubsetp", "seqsearch", "seqshorter", "equal", "list"}
				} else {
					fnCands = []string{"seqlength", "seqreverse", "seqcount:y61", "seqfind:y61", "seqdedup"}
				}
			case "ilst":
				if nseq == 2 {
					fnCands = []string{"seqsubsetp", "seqshorter", "equal"}
				} else {
					fnCands = []string{"seqsum", "seqlength", "seqreverse"}
				}
			default:
				if nseq == 2 {
					fnCands = []string{"list", "cons", "eq", "equal"}
				} else {
					fnCands = []string{"list", "null"}
				}
			}
		} else {
			for _, pr := range c14Preds(t.name, t.alpha) {
				fnCands = append(fnCands, pr[0])
			}
		}
		if len(fnCands) > 0 {
			fnw = fnCands[p.n(len(fnCands))]
		}
		fnwB := fnw
		if self != "fn" {
			fnwB = pickB(fnCands, fnw)
		}
		fnl, fnlB := c14FnLisp(fnw), c14FnLisp(fnwB)
		for i := 0; i < nseq; i++ {
			k := kind
			if i > 0 && f.fam != "mapcar" && !sweep && p.n(2) == 0 {
				ks := []string{"list", "vector"}
				if tt.name == "char" {
					ks = append(ks, "string")
				}
				k = ks[p.n(len(ks))]
			}
			var s c14Seq
			if sweepSeqs {
				s = c14SweepSeq(tt, k, p)
			} else {
				s = c14RandomSeq(p, tt, k, func() int {
					if i == 0 {
						return seqLen
					}
					return p.n(7)
				}())
			}
			seqs = append(seqs, s)
		}
		var wires, lisps []string
		for _, s := range seqs {
			lv, wv := b.seqRef(s)
			wires = append(wires, wv)
			lisps = append(lisps, lv)
		}
		want := "obj"
		if f.fam == "map" {
			// result type: any kind the values fit in
			rts := []string{"list", "vector", "nil"}
			if fnw == "upcase" && fnwB == "upcase" {
				rts = append(rts, "string")
			}
			if self == "fn" {
				rts = []string{"list"} // a nested call hands a list back to the enclosing one
			}
			rt := rts[p.n(len(rts))]
			b.arg("'"+rt, "rtype="+rt)
			if rt == "nil" {
				b.pos[len(b.pos)-1] = "nil"
			} else {
				want = "seq"
			}
		}
		if f.fam == "mapcar" {
			want = "seq"
		}
		if self == "fn" {
			if traced {
				return c14Case{}, false
			}
			b.arg(selfLambda(fnw), "self=fn base="+fnw)
			b.keys = append(b.keys, "fn@self")
		} else if traced {
			// the function records the arguments of each of its calls (a side effect the form hands back)
			v := b.scalar(fnl, "fn="+fnw, fnlB, "fn="+fnwB)
			b.arg(c14TraceLambda(v, nseq), "trace=t")
			b.keys = append(b.keys, "fn@traced")
			b.traced = true
		} else {
			b.argVar(fnl, "fn="+fnw, fnlB, "fn="+fnwB)
		}
		b.pos = append(b.pos, lisps...)
		b.fields = append(b.fields, "seqs="+strings.Join(wires, ";"))
		return b.done(kind, want, "", sweep), true
	case "reduce":
		s := mkSeq(seqLen)
		var fns []string
		switch key.to {
		case "int":
			fns = []string{"+", "-", "list", "cons", "max"}
		default:
			fns = []string{"list", "cons"}
		}
		fnw := fns[p.n(len(fns))]
		fnwB := pickB(fns, fnw)
		b.arg("", "")
		b.seq("seq", s)
		addKey()
		st, en := c14BoundsV(b, p, use, "start", "end", len(s.elems), sweep, false) // emptiness is an input class: same bounds
		fromEnd()
		if c14Has(use, "init") {
			iv := image[p.n(len(image))]
			b.kw("initial-value", iv.lisp(), "init="+iv.wire())
			b.keys[len(b.keys)-1] = "init"
		} else if en-st == 0 {
			// an empty subsequence without :initial-value calls the function with no arguments:
			// only functions with a zero-argument value are in the quantifier
			if fnw != "+" {
				fnw = "list"
			}
			if fnwB != "+" {
				fnwB = "list"
			}
		}
		fv := b.scalar(c14FnLisp(fnw), "fn="+fnw, c14FnLisp(fnwB), "fn="+fnwB)
		b.pos[0] = fv
		if traced {
			if en-st == 0 && !c14Has(use, "init") {
				return c14Case{}, false // the zero-argument call: its own input class
			}
			b.pos[0] = c14TraceLambda(fv, 2)
			b.fields = append(b.fields, "trace=t")
			b.keys = append(b.keys, "fn@traced")
			b.traced = true
		}
		cs := b.done(kind, "obj", "", sweep)
		if en-st == 0 && !c14Has(use, "init") {
			cs.Class = "empty-no-init"
		}
		return cs, true
	case "concatenate":
		n := 1 + p.n(3)
		if sweep {
			n = 1 + p.n(2)
		}
		var wires, lisps []string
		allChar := t.name == "char"
		for i := 0; i < n; i++ {
			k := kind
			if i > 0 {
				k = []string{"list", "vector", "string"}[p.n(3)]
			}
			tt := t
			if k == "string" {
				tt = c14TChar
			}
			if k == "vector" && tt.name != "int" && tt.name != "sym" && tt.name != "char" {
				tt = c14TInt
			}
			if tt.name != "char" {
				allChar = false
			}
			var s c14Seq
			if sweepSeqs {
				s = c14SweepSeq(tt, k, p)
			} else {
				s = c14RandomSeq(p, tt, k, func() int {
					if i == 0 {
						return seqLen
					}
					return p.n(5)
				}())
			}
			lv, wv := b.seqRef(s)
			wires = append(wires, wv)
			lisps = append(lisps, lv)
		}
		rts := []string{"list", "vector"}
		if allChar {
			rts = append(rts, "string")
		}
		rt := rts[p.n(len(rts))]
		b.arg("'"+rt, "rtype="+rt)
		b.pos = append(b.pos, lisps...)
		b.fields = append(b.fields, "seqs="+strings.Join(wires, ";"))
		return b.done(kind, "seq", "", sweep), true
	}
	return c14Case{}, false
}

// c14PredB: the predicate of the arguments B, from the same candidates
func c14PredB(ps [][2]string, pr [2]string, pickB func([]string, string) string) [2]string {
	var ws []string
	for _, x := range ps {
		ws = append(ws, x[0])
	}
	w := pickB(ws, pr[0])
	for _, x := range ps {
		if x[0] == w {
			return x
		}
	}
	return pr
}

// c14TraceLambda wraps a function of n arguments so that it records the arguments of every call in
// the variable `log` of the enclosing form (newest first)
func c14TraceLambda(fnl string, n int) string {
	if n == 1 {
		return "(lambda (x) (setq log (cons (list x) log)) (funcall " + fnl + " x))"
	}
	return "(lambda (x y) (setq log (cons (list x y) log)) (funcall " + fnl + " x y))"
}

// c14KindHolds: can a sequence of the kind hold the elements of the type?
func c14KindHolds(kind string, t c14Type) bool {
	switch kind {
	case "string":
		return t.name == "char" || t.name == "uchar"
	case "octets":
		return t.name == "oct"
	case "list", "vector":
		return t.name != "nest" && t.name != "inest"
	}
	return false
}

// c14ElemLisp: an expression for a new element of a sequence of the kind (an octets vector takes octets)
func c14ElemLisp(kind string, o c14Obj) string {
	if kind == "octets" {
		return "(coerce " + o.lisp() + " 'octet)"
	}
	return o.lisp()
}

// c14SelfOK: which user function of a function can re-enter the call (see c14Build)
func c14SelfOK(f c14Fun, role string) bool {
	base := strings.TrimSuffix(strings.TrimSuffix(f.name, "-if-not"), "-if")
	if strings.HasPrefix(base, "n") || strings.HasPrefix(base, "delete") {
		// a destructive function re-entered on a nested element may destroy that element, which
		// is still part of the outer result: the language leaves the outer result open
		return false
	}
	switch role {
	case "key":
		switch f.fam {
		case "scan", "scanc", "dups", "reduce":
			return true
		case "alist":
			return base == "member"
		}
	case "pred":
		return f.mode == "if" && (f.fam == "scan" || f.fam == "scanc" || base == "member")
	case "fn":
		return f.fam == "quant" || f.fam == "mapcar" || f.fam == "map"
	case "test":
		return f.fam == "search" || f.fam == "mismatch" || base == "subsetp" || base == "set-difference" || base == "nset-difference"
	case "test1":
		// remove-duplicates: the test re-enters the call on each of its arguments (with an item
		// the recursion on the constant item would not be well-founded)
		return f.fam == "dups"
	}
	return false
}

func c14TypeByName(n string) c14Type {
	for _, t := range []c14Type{c14TSym, c14TInt, c14TChar, c14TUChar, c14TOct, c14TPair, c14TIPair, c14TLst, c14TILst, c14TNest, c14TINest, c14TXInt, c14TXInt2} {
		if t.name == n {
			return t
		}
	}
	return c14TSym
}

// the fixed sequences of the sweep (x0..x3 = the alphabet of the element type)
func c14SweepSeq(t c14Type, kind string, p c14Pick) c14Seq {
	shapes := [][]int{{}, {0}, {1, 0, 0}, {0, 1, 0, 2, 0}, {1, 2}}
	sh := shapes[p.n(len(shapes))]
	s := c14Seq{kind: kind, tname: t.name}
	for _, i := range sh {
		s.elems = append(s.elems, t.alpha[i])
	}
	if kind == "fpvector" {
		s.kind = "vector"
		s.hidden = []c14Obj{t.alpha[0], t.alpha[1]}
	}
	return s
}

// ---------------------------------------------------------------------------------------------
// signatures and known findings

func c14Family(fn string) string {
	base := strings.TrimSuffix(strings.TrimSuffix(fn, "-if-not"), "-if")
	switch base {
	case "find", "position", "count", "remove", "delete", "remove-duplicates", "delete-duplicates":
		return "seqfunvars"
	case "substitute", "nsubstitute":
		return "substitute"
	case "member", "assoc", "rassoc":
		return base
	case "search", "mismatch":
		return base
	case "union", "intersection", "set-difference", "subsetp", "nunion", "nintersection", "nset-difference":
		return "set:" + base
	}
	return base
}

func c14Signature(cs c14Case, aspect string) string {
	switch {
	case aspect == "undefined-function":
		return fmt.Sprintf("fn=%s aspect=undefined-function", cs.Fn)
	case aspect == "unsupported-keyword:test-not":
		return fmt.Sprintf("family=%s keyword=test-not aspect=unsupported-keyword", c14Family(cs.Fn))
	}
	if cs.Class != "" {
		return fmt.Sprintf("fn=%s seq=%s class=%s aspect=%s", cs.Fn, cs.Kind, cs.Class, aspect)
	}
	return fmt.Sprintf("fn=%s seq=%s keys=%s aspect=%s", cs.Fn, cs.Kind, strings.Join(cs.Keys, "+"), aspect)
}

// listed findings as (fn, seq, keyset) for the avoidance rule
type c14Listed struct {
	fn, seq, family string
	class           string
	keys            []string
	undefined       bool
	testnot         bool
}

func c14ListedFindings(c *lib.Ctx) []c14Listed {
	var out []c14Listed
	for _, f := range c.Findings.Findings {
		if f.Property != "C14" {
			continue
		}
		l := c14Listed{}
		for _, w := range strings.Fields(f.Signature) {
			k, v, _ := strings.Cut(w, "=")
			switch k {
			case "fn":
				l.fn = v
			case "seq":
				l.seq = v
			case "family":
				l.family = v
			case "class":
				l.class = v
			case "keys":
				if v != "" {
					l.keys = strings.Split(v, "+")
				}
			case "aspect":
				l.undefined = v == "undefined-function"
			case "keyword":
				l.testnot = v == "test-not"
			}
		}
		out = append(out, l)
	}
	return out
}

// c14Avoid: composite cases (and sweep cells with more keywords than a listed cell) stay away from
// listed constructs: same function and sequence kind with a keyword set containing the listed one.
// c14KindParts: a kind with an extra token (a fill pointer, a second sequence of another kind) is
// made of the plain kinds it involves; the extra token counts like one more keyword
func c14KindParts(kind string) ([]string, bool) {
	if k, ok := strings.CutSuffix(kind, "+fp"); ok {
		return []string{k}, true
	}
	for _, sep := range []string{"<-", "/"} {
		if a, b, ok := strings.Cut(kind, sep); ok {
			return []string{a, b}, true
		}
	}
	return []string{kind}, false
}

func c14Avoid(listed []c14Listed, fn, kind string, keys []string, strict bool) bool {
	if parts, extra := c14KindParts(kind); extra {
		// strictly more tokens than any cell of a plain kind with the same keywords
		for _, k := range parts {
			if c14Avoid(listed, fn, k, keys, true) {
				return true
			}
		}
		return false
	}
	for _, l := range listed {
		if l.class != "" {
			continue // input classes are matched by c14AvoidClass
		}
		if l.undefined && l.fn == fn {
			return strict || len(keys) > 0 // the sweep keeps only the bare call of an undefined function
		}
		if l.testnot {
			if l.family == c14Family(fn) && c14Has(keys, "test-not") {
				return strict || len(keys) > 1
			}
			continue
		}
		if l.fn != fn || l.seq != kind {
			continue
		}
		sub := true
		for _, k := range l.keys {
			if !c14Has(keys, k) {
				sub = false
			}
		}
		if sub && (strict || len(keys) > len(l.keys)) {
			return true
		}
	}
	return false
}

func c14AvoidClass(listed []c14Listed, cs c14Case) bool {
	parts, _ := c14KindParts(cs.Kind)
	for _, l := range listed {
		if l.class != "" && l.class == cs.Class && l.fn == cs.Fn && c14Has(parts, l.seq) {
			return true
		}
	}
	return false
}

// c14AvoidClassExtra: a sweep cell of a kind with an extra token whose input class is listed for the plain kind
func c14AvoidClassExtra(listed []c14Listed, cs c14Case) bool {
	if _, extra := c14KindParts(cs.Kind); !extra || cs.Class == "" {
		return false
	}
	return c14AvoidClass(listed, cs)
}

// ---------------------------------------------------------------------------------------------
// running

type c14Obs struct {
	ok    bool
	wires []string // the results of the three evaluations of the call form (arguments A, B, A)
	wire  string   // the one under comparison
	class string
	msg   string
	fault bool
	// the sequence arguments after the evaluations (functions that must not modify them), and once more
	// after the harness has overwritten the results (functions whose result must be newly allocated)
	args, argsClobbered []string
}

func c14Impl(scope *slip.Scope, cs c14Case) c14Obs {
	o := lib.EvalString(scope, cs.Src)
	if !o.Ok {
		return c14Obs{class: o.Class, msg: o.Msg, fault: o.GoFault}
	}
	l, _ := o.Value.(slip.List)
	nres := 3
	if len(cs.ArgsWant) > 0 {
		nres = 4
	}
	if len(l) != nres {
		return c14Obs{class: "harness", msg: "the re-evaluation form did not return its results: " + o.Text}
	}
	obs := c14Obs{ok: true}
	for _, v := range l[:3] {
		obs.wires = append(obs.wires, c14Wire(v, cs.Want))
	}
	obs.wire = obs.wires[0]
	if nres == 4 {
		// the sequence arguments after the three evaluations
		al, _ := l[3].(slip.List)
		argWires := func() []string {
			var out []string
			for _, a := range al {
				out = append(out, c14Wire(a, "seq"))
			}
			return out
		}
		obs.args = argWires()
		if cs.Fresh {
			// a result that must be newly allocated: overwrite every element of the three results (the wire terms
			// are taken) and look at the arguments once more
			for _, v := range l[:3] {
				if strings.HasSuffix(cs.Want, "+trace") {
					if pair, _ := v.(slip.List); len(pair) == 2 {
						v = pair[0]
					}
				}
				c14Clobber(v)
			}
			obs.argsClobbered = argWires()
		}
	}
	return obs
}

// c14Clobber overwrites the elements of a sequence object in place (only the harness does this, after
// the comparison terms were built)
func c14Clobber(v slip.Object) {
	switch tv := v.(type) {
	case slip.List:
		for i := range tv {
			tv[i] = slip.Symbol("clobbered")
		}
	case *slip.Vector:
		for i := range tv.AsList() {
			tv.Set(slip.Symbol("clobbered"), i)
		}
	case slip.Octets:
		for i := range tv {
			tv[i] = 255
		}
	}
}

// c14ArgsAspect: the arguments of a function that must leave them alone
func c14ArgsAspect(cs c14Case, obs c14Obs) string {
	if !obs.ok || len(cs.ArgsWant) == 0 {
		return ""
	}
	if strings.Join(obs.args, " ") != strings.Join(cs.ArgsWant, " ") {
		return "argument-modified"
	}
	if cs.Fresh && strings.Join(obs.argsClobbered, " ") != strings.Join(cs.ArgsWant, " ") {
		return "result-shares-storage"
	}
	return ""
}

func (o c14Obs) String() string {
	if o.ok {
		if len(o.wires) == 3 {
			t := "ok " + o.wire + "   [calls 1..3: " + strings.Join(o.wires, " | ") + "]"
			if len(o.args) > 0 {
				t += " [arguments afterwards: " + strings.Join(o.args, " ") + "]"
			}
			if len(o.argsClobbered) > 0 {
				t += " [arguments after the results were overwritten: " + strings.Join(o.argsClobbered, " ") + "]"
			}
			return t
		}
		return "ok " + o.wire
	}
	return "err " + o.class + " (" + o.msg + ")"
}

// c14AspectAll compares the three evaluations (arguments A, B, A) with the model's answers for A
// and B. The aspect of the first disagreeing call is reported; a disagreement that only shows from
// the second evaluation on (state kept between calls, re-entrancy) is marked @call<n>.
func c14AspectAll(cs c14Case, obs c14Obs, modelA, modelB string, checks [3]string) (string, int) {
	if !obs.ok {
		if !strings.HasPrefix(modelA, "ok ") || !strings.HasPrefix(modelB, "ok ") {
			if obs.fault {
				return "go-fault", 0
			}
			return "", 0
		}
		return c14Aspect(cs, obs, modelA, ""), 0
	}
	for j := 0; j < 3; j++ {
		m := modelA
		if j == 1 {
			m = modelB
		}
		a := c14Aspect(cs, c14Obs{ok: true, wire: obs.wires[j]}, m, checks[j])
		if a != "" {
			if j == 2 {
				// the same arguments gave the right answer at the first evaluation: the form keeps state
				a += "@reeval"
			}
			return a, j
		}
	}
	// all three results are right: the arguments must be what they were
	return c14ArgsAspect(cs, obs), 3
}

// c14Aspect compares one observation with the model reply; "" = agreement
func c14Aspect(cs c14Case, obs c14Obs, model string, checkReply string) string {
	mOK := strings.HasPrefix(model, "ok ")
	if !obs.ok {
		if obs.fault {
			return "go-fault"
		}
		if !mOK {
			return "" // both reject (condition classes are C09's business)
		}
		if obs.class == "undefined-function" && strings.Contains(obs.msg, "Function "+cs.Fn+" ") {
			return "undefined-function"
		}
		if c14Has(cs.Keys, "test-not") && obs.class == "type-error" && strings.Contains(obs.msg, "keyword") {
			return "unsupported-keyword:test-not"
		}
		return "condition:" + obs.class
	}
	if !mOK {
		return "no-condition"
	}
	mw := strings.TrimPrefix(model, "ok ")
	if cs.Check != "" {
		if checkReply == "ok t" {
			return ""
		}
		if len(obs.wire) > 0 && len(mw) > 0 && obs.wire[0] != mw[0] {
			return "wrong-kind"
		}
		return "relation"
	}
	if obs.wire == mw {
		return ""
	}
	if cs.Want == "seq" && len(obs.wire) > 1 && len(mw) > 1 && obs.wire[0] != mw[0] && obs.wire[1:] == mw[1:] {
		return "wrong-kind"
	}
	return "wrong-value"
}

func c14CheckReq(cs c14Case, req, wire string) string {
	// "seq <entry> fields…" -> "seq <check> fields… result=<wire>"
	w := strings.SplitN(req, " ", 3)
	rest := ""
	if len(w) > 2 {
		rest = w[2]
	}
	return "seq " + cs.Check + " " + rest + " result=" + wire
}

// c14Checks runs the relation checker on each of the three results
func c14Checks(c *lib.Ctx, cs c14Case, obs c14Obs, modelA, modelB string) [3]string {
	var out [3]string
	if cs.Check == "" || !obs.ok {
		return out
	}
	var reqs []string
	var idx []int
	for j, w := range obs.wires {
		req, m := cs.Req, modelA
		if j == 1 {
			req, m = cs.ReqB, modelB
		}
		if strings.HasPrefix(w, "?") || !strings.HasPrefix(m, "ok ") {
			continue
		}
		reqs = append(reqs, c14CheckReq(cs, req, w))
		idx = append(idx, j)
	}
	for k, r := range c.Model(reqs) {
		out[idx[k]] = r
	}
	return out
}

func c14Nontrivial(cs c14Case) bool {
	if len(cs.Keys) >= 2 {
		return true
	}
	// length >= 3: count elements of the first sequence field
	i := strings.Index(cs.Req, "seq=")
	if i < 0 {
		i = strings.Index(cs.Req, "seqs=")
	}
	if i < 0 {
		return false
	}
	f := strings.Fields(cs.Req[i:])[0]
	return strings.Count(f, ",") >= 2
}

func c14Replay(c *lib.Ctx) {
	var rec map[string]any
	if err := lib.ReadJSON(c.Replay, &rec); err != nil {
		fmt.Println("cannot read replay file:", err)
		return
	}
	raw, _ := rec["case"].(map[string]any)
	if raw == nil {
		fmt.Println("replay file has no case")
		return
	}
	gs := func(k string) string { s, _ := raw[k].(string); return s }
	cs := c14Case{Fn: gs("fn"), Kind: gs("kind"), Src: gs("src"), Req: gs("req"), ReqB: gs("req_b"), Call: gs("call"), Class: gs("class"), Want: gs("want"), Check: gs("check")}
	if ks, ok := raw["keys"].([]any); ok {
		for _, k := range ks {
			cs.Keys = append(cs.Keys, fmt.Sprint(k))
		}
	}
	if ws, ok := raw["args_want"].([]any); ok {
		for _, w := range ws {
			cs.ArgsWant = append(cs.ArgsWant, fmt.Sprint(w))
		}
	}
	cs.Fresh, _ = raw["fresh"].(bool)
	obs := c14Impl(slip.NewScope(), cs)
	models := c.Model([]string{cs.Req, cs.ReqB})
	checks := c14Checks(c, cs, obs, models[0], models[1])
	fmt.Printf("replay %s\n  (the call form is compiled once and evaluated three times: arguments A, B, A)\n  source        : %s\n  implementation: %s\n", cs.Call, cs.Src, obs)
	if obs.ok {
		for j, w := range obs.wires {
			fmt.Printf("    call %d = %s\n", j+1, c14Pretty("ok "+w))
		}
	}
	fmt.Printf("  model (A)     : %s   = %s\n  model (B)     : %s   = %s\n", models[0], c14Pretty(models[0]), models[1], c14Pretty(models[1]))
	if cs.Check != "" {
		fmt.Printf("  relation %s on the implementation's results: %v\n", cs.Check, checks)
	}
	if len(cs.ArgsWant) > 0 {
		fmt.Printf("  arguments that must be unchanged afterwards: %s\n", strings.Join(cs.ArgsWant, " "))
	}
	if a, _ := c14AspectAll(cs, obs, models[0], models[1], checks); a != "" {
		c.Report(c14Signature(cs, a), false, map[string]any{"input": cs.Call, "observed": obs.String(), "expected": models[0] + " | " + models[1] + " | " + models[0]})
	}
}

func runC14(c *lib.Ctx) {
	if c.Replay != "" {
		c14Replay(c)
		return
	}
	listed := c14ListedFindings(c)
	funs := c14Funs()
	var cases []c14Case
	seenSrc := map[string]bool{}
	add := func(cs c14Case) {
		if seenSrc[cs.Src] {
			return
		}
		seenSrc[cs.Src] = true
		cs.Nontriv = c14Nontrivial(cs)
		cases = append(cases, cs)
	}

	// --- single-cause sweep: function x sequence kind x element type x keyword subsets of size <= 2,
	//     exhaustively over the fixed sequences and the boundary values of each keyword
	for _, f := range funs {
		kinds := f.kinds
		if c14Has(f.kinds, "vector") {
			kinds = append(append([]string{}, kinds...), "fpvector") // vectors with a fill pointer
		}
		for _, kind := range kinds {
			for _, t := range c14TypesFor(kind) {
				var subsets [][]string
				subsets = append(subsets, nil)
				for i, a := range f.kws {
					subsets = append(subsets, []string{a})
					for _, b2 := range f.kws[i+1:] {
						subsets = append(subsets, []string{a, b2})
					}
				}
				// the function argument records its calls (every some notany notevery map mapcar reduce)
				if f.fam == "quant" || f.fam == "map" || f.fam == "mapcar" || f.fam == "reduce" {
					subsets = append(subsets, []string{"trace"})
					for _, a := range f.kws {
						subsets = append(subsets, []string{"trace", a})
					}
				}
				// the keyword arguments in a list handed to apply, a keyword absent from the list of one of
				// the evaluations (absent -> present -> absent and the converse)
				if (t.name == "sym" || t.name == "int" || t.name == "char" || t.name == "oct") && kind != "fpvector" {
					for _, a := range f.kws {
						subsets = append(subsets, []string{"spread", a})
					}
					if c14Has(f.kws, "start") && c14Has(f.kws, "end") {
						subsets = append(subsets, []string{"spread", "start", "end"})
					}
				}
				// the two sequences of search / mismatch / replace are of different kinds
				if f.fam == "replace" && kind != "fpvector" {
					// the same object as source and target: every keyword and every pair of keywords
					subsets = append(subsets, []string{"other:same"})
					for i, a := range f.kws {
						subsets = append(subsets, []string{"other:same", a})
						for _, b2 := range f.kws[i+1:] {
							subsets = append(subsets, []string{"other:same", a, b2})
						}
					}
				}
				if f.fam == "search" || f.fam == "mismatch" || f.fam == "replace" {
					for _, ok := range c14Kinds4 {
						if ok == kind || kind == "fpvector" || !c14KindHolds(ok, t) {
							continue
						}
						subsets = append(subsets, []string{"other:" + ok})
						for _, a := range f.kws {
							subsets = append(subsets, []string{"other:" + ok, a})
						}
					}
				}
				for _, use := range subsets {
					// pairs of keywords: on the plain element types only (symbols, integers;
					// characters on strings, octets; pair types when :key is one of the two); the other
					// element types (and vectors with a fill pointer) are swept with at most one keyword
					if len(use) == 2 && !strings.Contains(use[0], ":") && use[0] != "trace" && use[0] != "spread" {
						plain := (t.name == "sym" || t.name == "int" || t.name == "char" || t.name == "oct" || t.name == "xint") && kind != "fpvector"
						keyed := c14Has(use, "key") && (t.name == "pair" || t.name == "ipair")
						if !plain && !keyed {
							continue
						}
					}
					// the new sequence kinds are swept with fewer value combinations per cell
					limit := 400
					switch {
					case len(use) > 0 && use[0] == "other:same":
						limit = 400
					case len(use) > 0 && strings.HasPrefix(use[0], "other:"):
						limit = 40
					case len(use) > 0 && use[0] == "spread":
						limit = 60
					case kind == "fpvector":
						limit = 60
					case kind == "octets" && len(use) == 2:
						limit = 100
					case t.name == "uchar":
						limit = 150
					case len(use) == 2 && (f.fam == "search" || f.fam == "mismatch" || strings.Contains(f.name, "substitute")):
						limit = 240 // the families with the most keyword pairs
					}
					en := &c14Enum{}
					for n := 0; n < limit; n++ {
						en.pos = 0
						cs, ok := c14Build(f, kind, t, 0, use, en, true, true)
						// a cell whose keyword set strictly contains a listed cell is not generated
						if ok && !c14Avoid(listed, cs.Fn, cs.Kind, cs.Keys, false) && !c14AvoidClassExtra(listed, cs) {
							add(cs)
						}
						if !en.next() {
							break
						}
					}
				}
			}
		}
		// user functions that re-enter the call itself on nested lists (self roles): bare call and
		// every single further keyword
		for _, role := range []string{"key", "pred", "fn", "test", "test1"} {
			if !c14SelfOK(f, role) {
				continue
			}
			for _, kind := range f.kinds {
				if kind == "string" || kind == "octets" {
					continue
				}
				for _, t := range []c14Type{c14TNest, c14TINest} {
					subsets := [][]string{{"self:" + role}}
					for _, a := range f.kws {
						if strings.HasPrefix(a, "start") || strings.HasPrefix(a, "end") {
							continue
						}
						subsets = append(subsets, []string{"self:" + role, a})
					}
					for _, use := range subsets {
						en := &c14Enum{}
						for n := 0; n < 200; n++ {
							en.pos = 0
							cs, ok := c14Build(f, kind, t, 0, use, en, true, true)
							if ok && !c14Avoid(listed, cs.Fn, cs.Kind, cs.Keys, false) {
								add(cs)
							}
							if !en.next() {
								break
							}
						}
					}
				}
			}
		}
		// the empty list written as nil
		if c14Has(f.kinds, "list") && !c14Avoid(listed, f.name, "nil", nil, false) {
			en := &c14Enum{}
			for n := 0; n < 40; n++ {
				en.pos = 0
				cs, ok := c14Build(f, "list", c14TInt, 0, nil, en, true, true)
				if ok && strings.Contains(cs.Src, "'()") {
					cs.Src = strings.ReplaceAll(cs.Src, "'()", "nil")
					cs.Kind = "nil"
					add(cs)
				}
				if !en.next() {
					break
				}
			}
		}
	}
	// the sort family on sequences longer than the 12 elements up to which Go's sort.Slice is an insertion
	// sort (stable): fixed pseudo-random sequences with many equal keys, every key and order of the type
	for _, f := range funs {
		if f.fam != "sort" {
			continue
		}
		for _, kind := range f.kinds {
			for _, t := range c14TypesFor(kind) {
				for _, use := range [][]string{nil, {"key"}} {
					for li, n := range []int{13, 17, 24, 33, 48} {
						lcg := &c14LCG{x: uint32(1 + 7*li + len(t.name))}
						for rep := 0; rep < 2; rep++ {
							cs, ok := c14Build(f, kind, t, n, use, lcg, true, false)
							if ok && !c14Avoid(listed, cs.Fn, cs.Kind, cs.Keys, false) {
								add(cs)
							}
						}
					}
				}
			}
		}
	}
	nSweep := len(cases)

	// --- composite: random function, kind, element type, length 0..8, any keyword subset, in-range values
	nRandom := c.Scale(110000, 2500000)
	pick := c14Rand{c.Rng}
	for i := 0; i < nRandom; i++ {
		f := funs[c.Rng.Intn(len(funs))]
		kind := f.kinds[c.Rng.Intn(len(f.kinds))]
		if kind == "vector" && c.Rng.Chance(30) {
			kind = "fpvector"
		}
		ts := c14TypesFor(kind)
		t := ts[c.Rng.Intn(len(ts))]
		var use []string
		for _, k := range f.kws {
			if c.Rng.Chance(40) {
				use = append(use, k)
			}
		}
		if (f.fam == "quant" || f.fam == "map" || f.fam == "mapcar" || f.fam == "reduce") && c.Rng.Chance(35) {
			use = append(use, "trace")
		}
		if len(use) > 0 && c.Rng.Chance(25) {
			use = append(use, "spread")
		}
		if (f.fam == "search" || f.fam == "mismatch" || f.fam == "replace") && kind != "fpvector" && c.Rng.Chance(35) {
			use = append(use, "other:"+c14Kinds4[c.Rng.Intn(len(c14Kinds4))])
		} else if f.fam == "replace" && kind != "fpvector" && c.Rng.Chance(40) {
			use = append(use, "other:same")
		}
		if c.Rng.Chance(20) && kind != "string" {
			// a user function that re-enters the call itself, on nested lists
			var roles []string
			for _, role := range []string{"key", "pred", "fn", "test", "test1"} {
				if c14SelfOK(f, role) {
					roles = append(roles, role)
				}
			}
			if len(roles) > 0 {
				role := roles[c.Rng.Intn(len(roles))]
				var keep []string
				for _, k := range use {
					if strings.HasPrefix(k, "start") || strings.HasPrefix(k, "end") || k == role || strings.HasPrefix(role, "test") && (k == "testnot" || k == "test") {
						continue
					}
					keep = append(keep, k)
				}
				use = append(keep, "self:"+role)
				t = []c14Type{c14TNest, c14TINest}[c.Rng.Intn(2)]
				if kind == "fpvector" || kind == "octets" {
					kind = "vector"
				}
			}
		}
		n := c.Rng.Intn(9)
		if f.fam == "sort" && c.Rng.Chance(50) {
			// Go's sort.Slice is an insertion sort (stable) up to 12 elements: instability of a
			// sort can only show on longer sequences, so the sort family also gets lengths up to 48
			n = 9 + c.Rng.Intn(40)
		}
		cs, ok := c14Build(f, kind, t, n, use, pick, false, false)
		if !ok || c14Avoid(listed, cs.Fn, cs.Kind, cs.Keys, true) || c14AvoidClass(listed, cs) {
			continue
		}
		add(cs)
	}
	nComposite := len(cases) - nSweep

	// --- thorough: every sequence of length <= 4 over the 4-symbol alphabet for the scan families,
	//     with every in-range (start, end), both directions and counts
	if c.Thorough() {
		c14Exhaustive(funs, listed, add)
	}
	nExh := len(cases) - nSweep - nComposite

	// --- run: the model answers for the arguments A and B of every case; the implementation evaluates
	//     the call form three times (A, B, A) inside one lambda
	reqs := make([]string, 0, 2*len(cases))
	for _, cs := range cases {
		reqs = append(reqs, cs.Req, cs.ReqB)
	}
	replies := c.Model(reqs)
	scope := slip.NewScope()
	obs := make([]c14Obs, len(cases))
	type chk struct{ i, j int }
	var checkIdx []chk
	var checkReqs []string
	for i, cs := range cases {
		obs[i] = c14Impl(scope, cs)
		if cs.Check == "" || !obs[i].ok {
			continue
		}
		for j, w := range obs[i].wires {
			req, m := cs.Req, replies[2*i]
			if j == 1 {
				req, m = cs.ReqB, replies[2*i+1]
			}
			if strings.HasPrefix(w, "?") || !strings.HasPrefix(m, "ok ") {
				continue
			}
			checkIdx = append(checkIdx, chk{i, j})
			checkReqs = append(checkReqs, c14CheckReq(cs, req, w))
		}
	}
	checkReplies := map[int][3]string{}
	for k, r := range c.Model(checkReqs) {
		ck := checkIdx[k]
		v := checkReplies[ck.i]
		v[ck.j] = r
		checkReplies[ck.i] = v
	}
	agree := 0
	for i, cs := range cases {
		mA, mB := replies[2*i], replies[2*i+1]
		c.Ev.Case(cs.Src, cs.Nontriv)
		c.Ev.Hist("fn", cs.Fn)
		c.Ev.Hist("kind", cs.Kind)
		c.Ev.Hist("nkeys", fmt.Sprint(len(cs.Keys)))
		if obs[i].ok {
			c.Ev.Hist("outcome", "value")
		} else {
			c.Ev.Hist("outcome", "condition:"+obs[i].class)
		}
		if i%(len(cases)/12+1) == 0 {
			c.Ev.Sample(map[string]string{"case": cs.Src, "impl": obs[i].String(), "model_A": mA, "model_B": mB})
		}
		a, j := c14AspectAll(cs, obs[i], mA, mB, checkReplies[i])
		if a == "" {
			agree++
			continue
		}
		m := mA
		if j == 1 {
			m = mB
		}
		expected := mA + " | " + mB + " | " + mA
		from := "model:seq." + c14Entry(cs.Fn)
		if cs.Check != "" {
			expected = "any result accepted by " + cs.Check + ", e.g. " + m
		}
		ow := obs[i].String()
		if obs[i].ok && j < 3 {
			ow = "ok " + obs[i].wires[j]
		}
		if j == 3 {
			// the results are right, an argument is not what it was
			got := obs[i].args
			if a == "result-shares-storage" {
				got = obs[i].argsClobbered
			}
			ow, m = "ok "+strings.Join(got, " "), "ok "+strings.Join(cs.ArgsWant, " ")
			expected = "the sequence arguments unchanged: " + strings.Join(cs.ArgsWant, " ")
			from = "model: the functions of Model/Seq.lean are functions of their arguments (no argument is modified); " + cs.Fn + " is not one of the destructive functions"
		}
		c.Report(c14Signature(cs, a), cs.Sweep, map[string]any{"input": cs.Call, "case": cs, "observed": obs[i].String(),
			"expected": expected, "failing_call": j + 1, "observed_lisp": c14Pretty(ow), "expected_lisp": c14Pretty(m),
			"expected_from": from, "relies_on": []string{"SlipVerif.Theorems.C14"}})
	}
	if path := os.Getenv("VERIF_C14_DUMP"); path != "" {
		// triage aid: one line per distinct signature (never read by the check)
		var sb strings.Builder
		for _, v := range c.Violations {
			fmt.Fprintf(&sb, "%s\t%v\t%v\t%v\n", v.Signature, v.Replay["input"], v.Replay["observed"], v.Replay["expected"])
		}
		_ = os.WriteFile(path, []byte(sb.String()), 0o644)
	}
	c.Ev.Coverage["traces_validated_against_impl"] = len(cases)
	c.Ev.Coverage["calls_evaluated"] = 3 * len(cases)
	c.Ev.Coverage["agreements"] = agree
	c.Ev.Coverage["sweep_cases"] = nSweep
	c.Ev.Coverage["composite_cases"] = nComposite
	c.Ev.Coverage["exhaustive_cases"] = nExh
	c.Ev.Coverage["relation_checks"] = len(checkReqs)
	c.Ev.Coverage["rule"] = "case = one call form (function, sequence(s), keyword arguments) compiled once as the body of a lambda and evaluated three times (arguments A, B, A: B = other sequences, other in-range keyword values, other :key/:test/predicate/order functions, all passed as parameters); distinct by source text; non-trivial = at least 2 keywords present or first sequence of length >= 3; sweep (seed independent) = function x sequence kind (list, vector, string, octets, vector with fill pointer, two sequences of different kinds) x element type (symbols, integers, characters incl. multi-byte, octets, pairs, lists) x keyword subsets of size <= 2 over 5 fixed sequences and boundary values, plus: keyword list handed to apply with a keyword absent from one evaluation, function argument recording its calls (every some notany notevery map mapcar reduce), user functions re-entering the form, long sequences for the sort family; composite = random call with any keyword subset, lengths 0..8 over 4-symbol alphabets (sort family up to 48); thorough adds all sequences of length <= 4 for the scan families"
}

// c14Exhaustive: all sequences of length <= 4 over the alphabet for the scan families.
func c14Exhaustive(funs []c14Fun, listed []c14Listed, add func(c14Case)) {
	type combo struct {
		fn   string
		kind string
		t    c14Type
	}
	var combos []combo
	for _, fn := range []string{"find", "position", "count", "remove", "delete", "substitute", "remove-duplicates", "position-if", "remove-if", "count-if", "find-if", "substitute-if"} {
		combos = append(combos, combo{fn, "list", c14TSym}, combo{fn, "vector", c14TSym}, combo{fn, "string", c14TChar})
	}
	for _, cb := range combos {
		var f c14Fun
		for _, g := range funs {
			if g.name == cb.fn {
				f = g
			}
		}
		counts := []string{""}
		if f.fam == "scanc" {
			counts = []string{"", "0", "1", "2"}
		}
		for n := 0; n <= 4; n++ {
			total := 1
			for i := 0; i < n; i++ {
				total *= 4
			}
			for code := 0; code < total; code++ {
				s := c14Seq{kind: cb.kind, tname: cb.t.name}
				x := code
				for i := 0; i < n; i++ {
					s.elems = append(s.elems, cb.t.alpha[x%4])
					x /= 4
				}
				for start := 0; start <= n; start++ {
					for end := start; end <= n; end++ {
						for _, fe := range []bool{false, true} {
							for _, cnt := range counts {
								b := &c14Builder{fn: cb.fn}
								if strings.HasPrefix(cb.fn, "substitute") {
									b.arg(cb.t.alpha[3].lisp(), "new="+cb.t.alpha[3].wire())
								}
								switch f.mode {
								case "item":
									b.arg(cb.t.alpha[0].lisp(), "item="+cb.t.alpha[0].wire())
								case "if":
									w, l := c14EqTo(cb.t.alpha[0])
									b.arg(l, "pred="+w)
								}
								b.seq("seq", s)
								if start > 0 {
									b.kw("start", fmt.Sprint(start), fmt.Sprintf("start=%d", start))
								}
								if end < n {
									b.kw("end", fmt.Sprint(end), fmt.Sprintf("end=%d", end))
								}
								if fe {
									b.kw("from-end", "t", "fromend=t")
								}
								if cnt != "" {
									b.kw("count", cnt, "count="+cnt)
								}
								want := "seq"
								if strings.HasPrefix(cb.fn, "find") || strings.HasPrefix(cb.fn, "position") || strings.HasPrefix(cb.fn, "count") {
									want = "obj"
								}
								cs := b.done(cb.kind, want, "", false)
								if c14Avoid(listed, cs.Fn, cs.Kind, cs.Keys, true) {
									continue
								}
								add(cs)
							}
						}
					}
				}
			}
		}
	}
}
