package main

// C14 — sequence functions honour their keyword arguments on lists, vectors and strings.
// Correspondence: each call is evaluated by the real slip (source text through the reader and
// Scope.Eval) and by the Lean model (SlipVerif.Model.Seq through the line protocol "seq <fn> k=v…").
// Results are compared as structural wire terms (never printed text). sort and the set functions are
// compared by relation: the implementation's result is sent back to the model's checker
// (sort-check, union-check, intersection-check, set-difference-check).

import (
	"fmt"
	"os"
	"sort"
	"strings"

	"github.com/ohler55/slip"
	"verif/harness/lib"
)

func init() { props["C14"] = runC14 }

// ---------------------------------------------------------------------------------------------
// objects

type c14Obj struct {
	k    byte // 'n' nil, 't', 'i' int, 'y' symbol, 'c' char, 'p' cons
	i    int64
	s    string
	a, d *c14Obj
}

func c14Int(i int) c14Obj        { return c14Obj{k: 'i', i: int64(i)} }
func c14Sym(s string) c14Obj     { return c14Obj{k: 'y', s: s} }
func c14Chr(r rune) c14Obj       { return c14Obj{k: 'c', i: int64(r)} }
func c14Pair(a, d c14Obj) c14Obj { return c14Obj{k: 'p', a: &a, d: &d} }

var c14Nil = c14Obj{k: 'n'}

func (o c14Obj) wire() string {
	switch o.k {
	case 'n':
		return "n"
	case 't':
		return "t"
	case 'i':
		return fmt.Sprintf("i%d", o.i)
	case 'y':
		return "y" + fmt.Sprintf("%x", o.s)
	case 'c':
		return fmt.Sprintf("c%d", o.i)
	}
	return "(" + o.a.wire() + "." + o.d.wire() + ")"
}

// lisp: an expression that evaluates to a fresh object
func (o c14Obj) lisp() string {
	switch o.k {
	case 'n':
		return "nil"
	case 't':
		return "t"
	case 'i':
		return fmt.Sprintf("%d", o.i)
	case 'y':
		return "'" + o.s
	case 'c':
		return "#\\" + string(rune(o.i))
	}
	return "(cons " + o.a.lisp() + " " + o.d.lisp() + ")"
}

type c14Seq struct {
	kind  string // list | vector | string | nil (the empty list written as nil)
	elems []c14Obj
}

func (s c14Seq) wire() string {
	tag := map[string]string{"list": "L", "vector": "V", "string": "S", "nil": "L"}[s.kind]
	parts := make([]string, len(s.elems))
	for i, e := range s.elems {
		parts[i] = e.wire()
	}
	return tag + "[" + strings.Join(parts, ",") + "]"
}

func (s c14Seq) lisp() string {
	switch s.kind {
	case "nil":
		return "nil"
	case "string":
		var b strings.Builder
		b.WriteByte('"')
		for _, e := range s.elems {
			b.WriteRune(rune(e.i))
		}
		b.WriteByte('"')
		return b.String()
	}
	if len(s.elems) == 0 {
		if s.kind == "list" {
			return "'()"
		}
		return "(vector)"
	}
	parts := make([]string, len(s.elems))
	for i, e := range s.elems {
		parts[i] = e.lisp()
	}
	return "(" + s.kind + " " + strings.Join(parts, " ") + ")"
}

// c14Wire converts an implementation result into the wire term. want: "obj" or "seq".
func c14Wire(v slip.Object, want string) string {
	if want == "seq" {
		switch tv := v.(type) {
		case nil:
			return "L[]"
		case slip.List:
			parts := make([]string, len(tv))
			for i, e := range tv {
				if _, isTail := e.(slip.Tail); isTail {
					return "?dotted-list"
				}
				parts[i] = c14Wire(e, "obj")
			}
			return "L[" + strings.Join(parts, ",") + "]"
		case *slip.Vector:
			l := tv.AsList()
			parts := make([]string, len(l))
			for i, e := range l {
				parts[i] = c14Wire(e, "obj")
			}
			return "V[" + strings.Join(parts, ",") + "]"
		case slip.String:
			ra := []rune(string(tv))
			parts := make([]string, len(ra))
			for i, r := range ra {
				parts[i] = fmt.Sprintf("c%d", r)
			}
			return "S[" + strings.Join(parts, ",") + "]"
		}
		return "?" + strings.ToLower(string(v.Hierarchy()[0]))
	}
	switch tv := v.(type) {
	case nil:
		return "n"
	case slip.Fixnum:
		return fmt.Sprintf("i%d", int64(tv))
	case slip.Symbol:
		return "y" + fmt.Sprintf("%x", strings.ToLower(string(tv)))
	case slip.Character:
		return fmt.Sprintf("c%d", rune(tv))
	case slip.List:
		if len(tv) == 0 {
			return "n"
		}
		// proper or dotted list as a cons chain
		tail := "n"
		end := len(tv)
		if t, ok := tv[end-1].(slip.Tail); ok {
			tail = c14Wire(t.Value, "obj")
			end--
		}
		out := tail
		for i := end - 1; 0 <= i; i-- {
			out = "(" + c14Wire(tv[i], "obj") + "." + out + ")"
		}
		return out
	}
	if v == slip.True {
		return "t"
	}
	return "?" + strings.ToLower(string(v.Hierarchy()[0]))
}

// c14Pretty renders a wire term ("ok L[y61,i2]") in Lisp notation for the replay files.
func c14Pretty(w string) string {
	if !strings.HasPrefix(w, "ok ") {
		return w
	}
	pos := 3
	var term func() string
	term = func() string {
		if pos >= len(w) {
			return "?"
		}
		switch ch := w[pos]; {
		case ch == 'L' || ch == 'V' || ch == 'S':
			pos += 2 // tag and [
			var parts []string
			for pos < len(w) && w[pos] != ']' {
				parts = append(parts, term())
				if pos < len(w) && w[pos] == ',' {
					pos++
				}
			}
			pos++
			switch ch {
			case 'V':
				return "#(" + strings.Join(parts, " ") + ")"
			case 'S':
				var b strings.Builder
				for _, p := range parts {
					b.WriteString(strings.TrimPrefix(p, "#\\"))
				}
				return "\"" + b.String() + "\""
			}
			if len(parts) == 0 {
				return "nil"
			}
			return "(" + strings.Join(parts, " ") + ")"
		case ch == '(':
			pos++
			a := term()
			pos++ // .
			d := term()
			pos++ // )
			if d == "nil" {
				return "(" + a + ")"
			}
			if strings.HasPrefix(d, "(") {
				return "(" + a + " " + d[1:]
			}
			return "(" + a + " . " + d + ")"
		case ch == 'n':
			pos++
			return "nil"
		case ch == 't':
			pos++
			return "t"
		case ch == 'i' || ch == 'c' || ch == 'y':
			start := pos + 1
			pos++
			for pos < len(w) && (w[pos] == '-' || w[pos] >= '0' && w[pos] <= '9' || ch == 'y' && w[pos] >= 'a' && w[pos] <= 'f') {
				pos++
			}
			body := w[start:pos]
			switch ch {
			case 'i':
				return body
			case 'c':
				var n int
				_, _ = fmt.Sscanf(body, "%d", &n)
				return "#\\" + string(rune(n))
			}
			return lib.Unhex(body)
		}
		rest := w[pos:]
		pos = len(w)
		return rest
	}
	return term()
}

// ---------------------------------------------------------------------------------------------
// function designators: wire name -> lisp source

func c14FnLisp(w string) string {
	switch {
	case w == "neg":
		return "'-"
	case w == "mod2":
		return "(lambda (x) (mod x 2))"
	case w == "upcase":
		return "'char-upcase"
	case w == "sameparity":
		return "(lambda (a b) (= (mod a 2) (mod b 2)))"
	case strings.HasPrefix(w, "ltthan:"):
		return "(lambda (x) (< x " + w[7:] + "))"
	}
	return "'" + w
}

// eqto needs the object for its lisp text
func c14EqTo(o c14Obj) (wire, lisp string) {
	return "eqto:" + o.wire(), "(lambda (x) (equal x " + o.lisp() + "))"
}

// ---------------------------------------------------------------------------------------------
// element types (4-symbol alphabets), keys, tests, predicates

type c14Type struct {
	name  string
	alpha []c14Obj
}

var (
	c14TSym  = c14Type{"sym", []c14Obj{c14Sym("a"), c14Sym("b"), c14Sym("c"), c14Sym("d")}}
	c14TInt  = c14Type{"int", []c14Obj{c14Int(0), c14Int(1), c14Int(2), c14Int(3)}}
	c14TChar = c14Type{"char", []c14Obj{c14Chr('a'), c14Chr('b'), c14Chr('c'), c14Chr('d')}}
	c14TPair = c14Type{"pair", []c14Obj{c14Pair(c14Sym("a"), c14Int(1)), c14Pair(c14Sym("b"), c14Int(2)),
		c14Pair(c14Sym("a"), c14Int(2)), c14Pair(c14Sym("b"), c14Int(1))}}
	c14TIPair = c14Type{"ipair", []c14Obj{c14Pair(c14Int(1), c14Sym("a")), c14Pair(c14Int(2), c14Sym("b")),
		c14Pair(c14Int(1), c14Sym("b")), c14Pair(c14Int(2), c14Sym("a"))}}
)

func c14TypesFor(kind string) []c14Type {
	switch kind {
	case "string":
		return []c14Type{c14TChar}
	case "vector":
		return []c14Type{c14TInt, c14TSym}
	}
	return []c14Type{c14TSym, c14TInt, c14TPair, c14TChar, c14TIPair}
}

// keys available on an element type: wire name ("" = none) and the resulting key type
type c14Key struct {
	wire string
	to   string
	f    func(c14Obj) c14Obj
}

func c14Keys(t string) []c14Key {
	id := func(o c14Obj) c14Obj { return o }
	switch t {
	case "int":
		return []c14Key{{"", "int", id},
			{"1+", "int", func(o c14Obj) c14Obj { return c14Int(int(o.i) + 1) }},
			{"neg", "int", func(o c14Obj) c14Obj { return c14Int(-int(o.i)) }},
			{"mod2", "int", func(o c14Obj) c14Obj { return c14Int(int(o.i) % 2) }}}
	case "char":
		return []c14Key{{"", "char", id},
			{"char-code", "int", func(o c14Obj) c14Obj { return c14Int(int(o.i)) }},
			{"upcase", "char", func(o c14Obj) c14Obj { return c14Chr(rune(o.i) - 32) }}}
	case "pair":
		return []c14Key{{"", "pair", id},
			{"car", "sym", func(o c14Obj) c14Obj { return *o.a }},
			{"cdr", "int", func(o c14Obj) c14Obj { return *o.d }}}
	case "ipair":
		return []c14Key{{"", "pair", id},
			{"car", "int", func(o c14Obj) c14Obj { return *o.a }},
			{"cdr", "sym", func(o c14Obj) c14Obj { return *o.d }}}
	}
	return []c14Key{{"", t, id}}
}

// two-argument tests on a key type; equiv = only the equivalence relations
func c14Tests(k string, equivOnly bool) []string {
	switch k {
	case "int":
		if equivOnly {
			return []string{"eql", "equal", "=", "sameparity"}
		}
		return []string{"eql", "equal", "=", "<", "<=", ">", ">=", "sameparity"}
	case "char":
		if equivOnly {
			return []string{"eql", "equal", "char="}
		}
		return []string{"eql", "equal", "char=", "char<"}
	case "pair":
		return []string{"equal"}
	}
	return []string{"eq", "equal"} // (eql 'a 'b) raises a type-error in slip: eql's own defect, not a sequence matter
}

// strict orders for sort / merge on a key type
func c14Orders(k string) []string {
	switch k {
	case "int":
		return []string{"<", ">"}
	case "char":
		return []string{"char<"}
	}
	return nil
}

// one-argument predicates on a key type: (wire, lisp)
func c14Preds(k string, image []c14Obj) [][2]string {
	var out [][2]string
	add := func(w string) { out = append(out, [2]string{w, c14FnLisp(w)}) }
	switch k {
	case "int":
		add("evenp") // oddp is wrong on negative integers in slip (its own defect): not used with keys
		add("plusp")
		add("ltthan:2")
	case "pair":
		add("consp")
	case "sym":
		add("null")
	}
	for _, o := range image[:2] {
		w, l := c14EqTo(o)
		out = append(out, [2]string{w, l})
	}
	return out
}

func c14Image(t c14Type, key c14Key) []c14Obj {
	var out []c14Obj
	seen := map[string]bool{}
	for _, o := range t.alpha {
		v := key.f(o)
		if !seen[v.wire()] {
			seen[v.wire()] = true
			out = append(out, v)
		}
	}
	return out
}

// ---------------------------------------------------------------------------------------------
// cases

type c14Case struct {
	Fn      string   `json:"fn"`
	Kind    string   `json:"kind"`  // kind of the (first) sequence: list | vector | string | nil
	Keys    []string `json:"keys"`  // keywords present (sorted), decorated with the boundary class of the value
	Class   string   `json:"class"` // input class that replaces the keyword set in the signature ("" = none)
	Src     string   `json:"src"`   // lisp source evaluated by slip
	Req     string   `json:"req"`   // model request
	Want    string   `json:"want"`  // obj | seq
	Check   string   `json:"check"` // relation checker entry ("" = compare by equality)
	Sweep   bool     `json:"sweep"`
	Nontriv bool     `json:"nontrivial"`
}

// c14Builder assembles source and request for one call
type c14Builder struct {
	fn     string
	pos    []string // positional lisp arguments
	kwsrc  []string // keyword lisp text, in order
	fields []string // model fields
	keys   []string
}

func (b *c14Builder) arg(lisp string, field string) {
	b.pos = append(b.pos, lisp)
	if field != "" {
		b.fields = append(b.fields, field)
	}
}

func (b *c14Builder) kw(name, lisp, field string) {
	b.kwsrc = append(b.kwsrc, ":"+name+" "+lisp)
	if field != "" {
		b.fields = append(b.fields, field)
	}
	b.keys = append(b.keys, name)
}

// kwTok: like kw, with a boundary-decorated token for the signature (start@len, end@nil, count@neg…)
func (b *c14Builder) kwTok(name, token, lisp, field string) {
	b.kw(name, lisp, field)
	b.keys[len(b.keys)-1] = token
}

func (b *c14Builder) done(kind, want, check string, sweep bool) c14Case {
	keys := append([]string{}, b.keys...)
	sort.Strings(keys)
	src := "(" + b.fn + " " + strings.Join(append(append([]string{}, b.pos...), b.kwsrc...), " ") + ")"
	req := "seq " + b.fn + " " + strings.Join(b.fields, " ")
	return c14Case{Fn: b.fn, Kind: kind, Keys: keys, Src: src, Req: strings.TrimSpace(req), Want: want, Check: check, Sweep: sweep}
}

// chooser: how keyword values and operands are picked. The sweep enumerates (deterministic product),
// the composite generator draws from the PRNG.
type c14Pick interface {
	n(n int) int // index in [0,n)
}

type c14Rand struct{ r *lib.Rng }

func (p c14Rand) n(n int) int { return p.r.Intn(n) }

// c14Enum enumerates all index vectors: each call to n() consumes one digit; after a run, next()
// advances. Digits beyond the recorded ones default to 0.
type c14Enum struct {
	digits []int
	radix  []int
	pos    int
}

func (e *c14Enum) n(n int) int {
	if n <= 0 {
		return 0
	}
	if e.pos == len(e.digits) {
		e.digits = append(e.digits, 0)
		e.radix = append(e.radix, n)
	}
	e.radix[e.pos] = n
	d := e.digits[e.pos]
	if d >= n {
		d = n - 1
	}
	e.pos++
	return d
}

// next advances to the following combination; false when exhausted
func (e *c14Enum) next() bool {
	e.digits = e.digits[:e.pos]
	e.radix = e.radix[:e.pos]
	for i := len(e.digits) - 1; 0 <= i; i-- {
		if e.digits[i]+1 < e.radix[i] {
			e.digits[i]++
			e.digits = e.digits[:i+1]
			e.radix = e.radix[:i+1]
			e.pos = 0
			return true
		}
	}
	return false
}

// ---------------------------------------------------------------------------------------------
// function table

type c14Fun struct {
	name  string
	fam   string   // scan | scanc (with :count) | dups | alist | search | mismatch | subseq | fill | replace | reverse | sort | merge | set | quant | map | mapcar | reduce | concatenate
	mode  string   // item | if | ifnot | ""
	kws   []string // keywords the language gives the function
	kinds []string
}

var c14AllKinds = []string{"list", "vector", "string"}

func c14Funs() []c14Fun {
	var fs []c14Fun
	scan := []string{"key", "test", "testnot", "start", "end", "fromend"}
	scanIf := []string{"key", "start", "end", "fromend"}
	for _, base := range []string{"find", "position", "count"} {
		fs = append(fs, c14Fun{base, "scan", "item", scan, c14AllKinds},
			c14Fun{base + "-if", "scan", "if", scanIf, c14AllKinds},
			c14Fun{base + "-if-not", "scan", "ifnot", scanIf, c14AllKinds})
	}
	for _, base := range []string{"remove", "delete", "substitute", "nsubstitute"} {
		fs = append(fs, c14Fun{base, "scanc", "item", append(append([]string{}, scan...), "count"), c14AllKinds},
			c14Fun{base + "-if", "scanc", "if", append(append([]string{}, scanIf...), "count"), c14AllKinds},
			c14Fun{base + "-if-not", "scanc", "ifnot", append(append([]string{}, scanIf...), "count"), c14AllKinds})
	}
	for _, n := range []string{"remove-duplicates", "delete-duplicates"} {
		// :test-not on remove-duplicates denotes a non-transitive relation: result left open, not generated
		fs = append(fs, c14Fun{n, "dups", "", []string{"key", "test", "start", "end", "fromend"}, c14AllKinds})
	}
	for _, base := range []string{"member", "assoc", "rassoc"} {
		fs = append(fs, c14Fun{base, "alist", "item", []string{"key", "test", "testnot"}, []string{"list"}},
			c14Fun{base + "-if", "alist", "if", []string{"key"}, []string{"list"}},
			c14Fun{base + "-if-not", "alist", "ifnot", []string{"key"}, []string{"list"}})
	}
	two := []string{"key", "test", "testnot", "start1", "end1", "start2", "end2", "fromend"}
	fs = append(fs, c14Fun{"search", "search", "", two, c14AllKinds}, c14Fun{"mismatch", "mismatch", "", two, c14AllKinds})
	fs = append(fs, c14Fun{"subseq", "subseq", "", []string{"start", "end"}, c14AllKinds})
	fs = append(fs, c14Fun{"fill", "fill", "", []string{"start", "end"}, c14AllKinds})
	fs = append(fs, c14Fun{"replace", "replace", "", []string{"start1", "end1", "start2", "end2"}, c14AllKinds})
	fs = append(fs, c14Fun{"reverse", "reverse", "", nil, c14AllKinds}, c14Fun{"nreverse", "reverse", "", nil, c14AllKinds})
	fs = append(fs, c14Fun{"sort", "sort", "", []string{"key"}, c14AllKinds}, c14Fun{"stable-sort", "sort", "", []string{"key"}, c14AllKinds})
	fs = append(fs, c14Fun{"merge", "merge", "", []string{"key"}, c14AllKinds})
	for _, n := range []string{"union", "intersection", "set-difference", "subsetp", "nunion", "nintersection", "nset-difference"} {
		fs = append(fs, c14Fun{n, "set", "", []string{"key", "test", "testnot"}, []string{"list"}})
	}
	for _, n := range []string{"every", "some", "notany", "notevery"} {
		fs = append(fs, c14Fun{n, "quant", "", nil, c14AllKinds})
	}
	fs = append(fs, c14Fun{"map", "map", "", nil, c14AllKinds}, c14Fun{"mapcar", "mapcar", "", nil, []string{"list"}})
	fs = append(fs, c14Fun{"reduce", "reduce", "", []string{"key", "start", "end", "fromend", "init"}, c14AllKinds})
	fs = append(fs, c14Fun{"concatenate", "concatenate", "", nil, c14AllKinds})
	return fs
}

// the model entry for a function (destructive variants share the entry of the pure function)
func c14Entry(fn string) string {
	switch fn {
	case "nunion":
		return "union"
	case "nintersection":
		return "intersection"
	case "nset-difference":
		return "set-difference"
	}
	return fn
}

// ---------------------------------------------------------------------------------------------
// building one call of a function

func c14RandomSeq(p c14Pick, t c14Type, kind string, n int) c14Seq {
	s := c14Seq{kind: kind}
	for i := 0; i < n; i++ {
		s.elems = append(s.elems, t.alpha[p.n(len(t.alpha))])
	}
	return s
}

func c14Has(set []string, k string) bool {
	for _, s := range set {
		if s == k {
			return true
		}
	}
	return false
}

// c14Bounds adds :start/:end style keywords (names given) for a sequence of length n. sweepVals
// restricts the candidates to the boundary values.
func c14Bounds(b *c14Builder, p c14Pick, use []string, startName, endName string, n int, sweep bool) (int, int) {
	start := 0
	end := n
	if c14Has(use, startName) {
		cands := []int{}
		if sweep {
			cands = append(cands, 0)
			if n >= 1 {
				cands = append(cands, 1)
			}
			if n >= 2 {
				cands = append(cands, n)
			}
		} else {
			for i := 0; i <= n; i++ {
				cands = append(cands, i)
			}
		}
		start = cands[p.n(len(cands))]
		tok := startName
		if start == n {
			tok += "@len"
		}
		b.kwTok(startName, tok, fmt.Sprint(start), fmt.Sprintf("%s=%d", startName, start))
	}
	if c14Has(use, endName) {
		cands := []int{-1} // -1 = nil
		if sweep {
			cands = append(cands, n)
			if n-1 >= start {
				cands = append(cands, n-1)
			}
			if start < n-1 {
				cands = append(cands, start)
			}
		} else {
			for i := start; i <= n; i++ {
				cands = append(cands, i)
			}
		}
		e := cands[p.n(len(cands))]
		if e < 0 {
			b.kwTok(endName, endName+"@nil", "nil", "")
		} else {
			tok := endName
			if e == n {
				tok += "@len"
			}
			b.kwTok(endName, tok, fmt.Sprint(e), fmt.Sprintf("%s=%d", endName, e))
			end = e
		}
	}
	return start, end
}

// c14Build builds one case of function f on sequence kind `kind` with element type t, using the
// keywords `use`. Returns ok=false when the combination does not exist (e.g. :test on a -if).
func c14Build(f c14Fun, kind string, t c14Type, seqLen int, use []string, p c14Pick, sweep bool, sweepSeqs bool) (c14Case, bool) {
	b := &c14Builder{fn: f.name}
	mkSeq := func(n int) c14Seq {
		if sweepSeqs {
			return c14SweepSeq(t, kind, p)
		}
		return c14RandomSeq(p, t, kind, n)
	}
	// key
	keys := c14Keys(t.name)
	key := keys[0]
	if c14Has(use, "key") {
		if len(keys) < 2 {
			return c14Case{}, false
		}
		key = keys[1+p.n(len(keys)-1)]
	}
	image := c14Image(t, key)
	addKey := func() {
		if key.wire != "" {
			b.kw("key", c14FnLisp(key.wire), "key="+key.wire)
		}
	}
	addTest := func(equivOnly bool) bool {
		for _, name := range []string{"test", "testnot"} {
			if c14Has(use, name) {
				ts := c14Tests(key.to, equivOnly)
				tw := ts[p.n(len(ts))]
				lname := "test"
				if name == "testnot" {
					lname = "test-not"
				}
				b.kw(lname, c14FnLisp(tw), name+"="+tw)
			}
		}
		return true
	}
	if c14Has(use, "test") && c14Has(use, "testnot") {
		return c14Case{}, false
	}
	fromEnd := func() {
		if c14Has(use, "fromend") {
			if sweep || p.n(4) != 0 {
				b.kw("from-end", "t", "fromend=t")
			} else {
				b.kw("from-end", "nil", "fromend=n")
			}
		}
	}
	switch f.fam {
	case "scan", "scanc":
		s := mkSeq(seqLen)
		base := strings.TrimSuffix(strings.TrimSuffix(f.name, "-if-not"), "-if")
		if base == "substitute" || base == "nsubstitute" {
			nw := t.alpha[3]
			if kind != "string" && p.n(3) == 0 {
				nw = c14Sym("z")
			}
			b.arg(nw.lisp(), "new="+nw.wire())
		}
		if f.mode == "item" {
			item := image[p.n(len(image))]
			b.arg(item.lisp(), "item="+item.wire())
		} else {
			ps := c14Preds(key.to, image)
			pr := ps[p.n(len(ps))]
			b.arg(pr[1], "pred="+pr[0])
		}
		b.arg(s.lisp(), "seq="+s.wire())
		addKey()
		addTest(false)
		c14Bounds(b, p, use, "start", "end", len(s.elems), sweep)
		if c14Has(use, "count") {
			cands := []string{"0", "1", "2", "-1", "nil"}
			if !sweep {
				cands = append(cands, "3", "1", "2")
			}
			cv := cands[p.n(len(cands))]
			switch cv {
			case "nil":
				b.kwTok("count", "count@nil", "nil", "")
			case "-1":
				b.kwTok("count", "count@neg", cv, "count="+cv)
			case "0":
				b.kwTok("count", "count@0", cv, "count="+cv)
			default:
				b.kw("count", cv, "count="+cv)
			}
		}
		fromEnd()
		want := "seq"
		if base == "find" || base == "position" || base == "count" {
			want = "obj"
		}
		return b.done(kind, want, "", sweep), true
	case "dups":
		s := mkSeq(seqLen)
		b.arg(s.lisp(), "seq="+s.wire())
		addKey()
		addTest(true)
		c14Bounds(b, p, use, "start", "end", len(s.elems), sweep)
		fromEnd()
		return b.done(kind, "seq", "", sweep), true
	case "alist":
		base := strings.TrimSuffix(strings.TrimSuffix(f.name, "-if-not"), "-if")
		var s c14Seq
		tgtImage := image
		if base == "member" {
			s = mkSeq(seqLen)
		} else {
			// association lists: pairs; the key function applies to the car (cdr for rassoc)
			if t.name != "pair" && t.name != "ipair" {
				return c14Case{}, false
			}
			s = mkSeq(seqLen)
			if !sweepSeqs && len(s.elems) > 0 && p.n(4) == 0 {
				s.elems[p.n(len(s.elems))] = c14Nil // nil entries are skipped
			}
			carInt := t.name == "ipair"
			proj := c14Type{"sym", []c14Obj{c14Sym("a"), c14Sym("b")}}
			if (base == "assoc") == carInt {
				proj = c14Type{"int", []c14Obj{c14Int(1), c14Int(2)}}
			}
			pkeys := c14Keys(proj.name)
			key = pkeys[0]
			if c14Has(use, "key") {
				if len(pkeys) < 2 {
					return c14Case{}, false
				}
				key = pkeys[1+p.n(len(pkeys)-1)]
			}
			tgtImage = c14Image(proj, key)
		}
		if f.mode == "item" {
			item := tgtImage[p.n(len(tgtImage))]
			b.arg(item.lisp(), "item="+item.wire())
		} else {
			ps := c14Preds(key.to, tgtImage)
			pr := ps[p.n(len(ps))]
			b.arg(pr[1], "pred="+pr[0])
		}
		b.arg(s.lisp(), "seq="+s.wire())
		addKey()
		addTest(false)
		return b.done(kind, "obj", "", sweep), true
	case "search", "mismatch":
		s2 := mkSeq(seqLen)
		var s1 c14Seq
		if sweepSeqs {
			s1 = c14SweepSeq(t, kind, p)
		} else {
			// mostly a window of s2 (possibly perturbed) so that matches happen
			s1 = c14Seq{kind: kind}
			if len(s2.elems) > 0 && p.n(4) != 0 {
				a := p.n(len(s2.elems) + 1)
				z := a + p.n(len(s2.elems)-a+1)
				s1.elems = append(s1.elems, s2.elems[a:z]...)
				if len(s1.elems) > 0 && p.n(3) == 0 {
					s1.elems[p.n(len(s1.elems))] = t.alpha[p.n(len(t.alpha))]
				}
			} else {
				s1 = c14RandomSeq(p, t, kind, p.n(4))
			}
			if f.fam == "mismatch" && p.n(2) == 0 {
				s1, s2 = s2, s1
			}
		}
		b.arg(s1.lisp(), "seq="+s1.wire())
		b.arg(s2.lisp(), "seq2="+s2.wire())
		addKey()
		addTest(f.fam == "search" && false)
		c14Bounds(b, p, use, "start1", "end1", len(s1.elems), sweep)
		c14Bounds(b, p, use, "start2", "end2", len(s2.elems), sweep)
		fromEnd()
		return b.done(kind, "obj", "", sweep), true
	case "subseq":
		s := mkSeq(seqLen)
		b.arg(s.lisp(), "seq="+s.wire())
		// start and end are positional; start is required
		n := len(s.elems)
		start := 0
		if c14Has(use, "start") {
			start = p.n(n + 1)
		}
		b.arg(fmt.Sprint(start), fmt.Sprintf("start=%d", start))
		b.keys = append(b.keys, "start")
		if c14Has(use, "end") {
			e := start + p.n(n-start+2) - 1
			if e < start {
				b.arg("nil", "")
			} else {
				b.arg(fmt.Sprint(e), fmt.Sprintf("end=%d", e))
			}
			b.keys = append(b.keys, "end")
		}
		return b.done(kind, "seq", "", sweep), true
	case "fill":
		s := mkSeq(seqLen)
		item := t.alpha[3]
		if kind != "string" && p.n(3) == 0 {
			item = c14Sym("z")
		}
		b.arg(s.lisp(), "seq="+s.wire())
		b.arg(item.lisp(), "item="+item.wire())
		c14Bounds(b, p, use, "start", "end", len(s.elems), sweep)
		cs := b.done(kind, "seq", "", sweep)
		if len(s.elems) == 0 {
			cs.Class = "empty" // fill on an empty sequence is its own input class (see findings)
		}
		return cs, true
	case "replace":
		s1 := mkSeq(seqLen)
		var s2 c14Seq
		if sweepSeqs {
			s2 = c14SweepSeq(t, kind, p)
		} else {
			s2 = c14RandomSeq(p, t, kind, p.n(7))
		}
		b.arg(s1.lisp(), "seq="+s1.wire())
		b.arg(s2.lisp(), "seq2="+s2.wire())
		c14Bounds(b, p, use, "start1", "end1", len(s1.elems), sweep)
		c14Bounds(b, p, use, "start2", "end2", len(s2.elems), sweep)
		return b.done(kind, "seq", "", sweep), true
	case "reverse":
		s := mkSeq(seqLen)
		b.arg(s.lisp(), "seq="+s.wire())
		return b.done(kind, "seq", "", sweep), true
	case "sort":
		ords := c14Orders(key.to)
		if len(ords) == 0 {
			return c14Case{}, false
		}
		s := mkSeq(seqLen)
		ord := ords[p.n(len(ords))]
		b.arg(s.lisp(), "seq="+s.wire())
		b.arg(c14FnLisp(ord), "pred="+ord)
		addKey()
		check := ""
		if f.name == "sort" {
			check = "sort-check"
		}
		return b.done(kind, "seq", check, sweep), true
	case "merge":
		ords := c14Orders(key.to)
		if len(ords) == 0 {
			return c14Case{}, false
		}
		ord := ords[p.n(len(ords))]
		// both inputs sorted by the predicate on the key (the language requires it)
		mk := func() c14Seq {
			s := mkSeq(seqLen)
			less := func(a, c c14Obj) bool {
				ka, kc := key.f(a), key.f(c)
				if ord == ">" {
					return ka.i > kc.i
				}
				return ka.i < kc.i
			}
			sort.SliceStable(s.elems, func(i, j int) bool { return less(s.elems[i], s.elems[j]) })
			return s
		}
		s1, s2 := mk(), mk()
		if !sweepSeqs {
			s2 = c14RandomSeq(p, t, kind, p.n(6))
			tmp := s2
			less := func(a, c c14Obj) bool {
				ka, kc := key.f(a), key.f(c)
				if ord == ">" {
					return ka.i > kc.i
				}
				return ka.i < kc.i
			}
			sort.SliceStable(tmp.elems, func(i, j int) bool { return less(tmp.elems[i], tmp.elems[j]) })
			s2 = tmp
		}
		rt := kind
		b.arg("'"+rt, "rtype="+rt)
		b.arg(s1.lisp(), "seq="+s1.wire())
		b.arg(s2.lisp(), "seq2="+s2.wire())
		b.arg(c14FnLisp(ord), "pred="+ord)
		addKey()
		return b.done(kind, "seq", "", sweep), true
	case "set":
		s1 := mkSeq(seqLen)
		var s2 c14Seq
		if sweepSeqs {
			s2 = c14SweepSeq(t, kind, p)
		} else {
			s2 = c14RandomSeq(p, t, kind, p.n(6))
		}
		b.arg(s1.lisp(), "seq="+s1.wire())
		b.arg(s2.lisp(), "seq2="+s2.wire())
		addKey()
		base := c14Entry(f.name)
		if (base == "union" || base == "intersection") && c14Has(use, "testnot") {
			return c14Case{}, false // a negated equivalence is not an equivalence: result left open
		}
		// union/intersection: the language fixes the result only for equivalence tests;
		// set-difference and subsetp are defined for any test (list-1 element first)
		addTest(base == "union" || base == "intersection")
		if base == "subsetp" {
			return b.done(kind, "obj", "", sweep), true
		}
		cs := b.done(kind, "seq", base+"-check", sweep)
		cs.Req = "seq " + base + strings.TrimPrefix(cs.Req, "seq "+f.name)
		return cs, true
	case "quant", "mapcar", "map":
		nseq := 1 + p.n(2)
		fnw := ""
		var seqs []c14Seq
		tt := t
		if nseq == 2 || f.fam != "quant" {
			// functions of one or two arguments on integers / characters / pairs
			switch t.name {
			case "int":
				if nseq == 2 {
					fnw = []string{"+", "-", "<", "=", "list", "cons", "max"}[p.n(7)]
				} else {
					fnw = []string{"1+", "neg", "evenp", "oddp", "list", "plusp"}[p.n(6)]
				}
			case "char":
				if nseq == 2 {
					fnw = []string{"char=", "char<", "list", "cons"}[p.n(4)]
				} else {
					fnw = []string{"upcase", "char-code", "list"}[p.n(3)]
				}
			case "pair", "ipair":
				if nseq == 2 {
					fnw = []string{"list", "cons", "equal"}[p.n(3)]
				} else {
					fnw = []string{"car", "cdr", "consp", "list"}[p.n(4)]
				}
			default:
				if nseq == 2 {
					fnw = []string{"list", "cons", "eq", "equal"}[p.n(4)]
				} else {
					fnw = []string{"list", "null"}[p.n(2)]
				}
			}
		} else {
			ps := c14Preds(t.name, t.alpha)
			fnw = ps[p.n(len(ps))][0]
		}
		fnl := c14FnLisp(fnw)
		if strings.HasPrefix(fnw, "eqto:") {
			for _, o := range t.alpha {
				if w, l := c14EqTo(o); w == fnw {
					fnl = l
				}
			}
		}
		for i := 0; i < nseq; i++ {
			k := kind
			if i > 0 && f.fam != "mapcar" && !sweep && p.n(2) == 0 {
				ks := []string{"list", "vector"}
				if tt.name == "char" {
					ks = append(ks, "string")
				}
				k = ks[p.n(len(ks))]
			}
			var s c14Seq
			if sweepSeqs {
				s = c14SweepSeq(tt, k, p)
			} else {
				s = c14RandomSeq(p, tt, k, func() int {
					if i == 0 {
						return seqLen
					}
					return p.n(7)
				}())
			}
			seqs = append(seqs, s)
		}
		var wires, lisps []string
		for _, s := range seqs {
			wires = append(wires, s.wire())
			lisps = append(lisps, s.lisp())
		}
		want := "obj"
		if f.fam == "map" {
			// result type: any kind the values fit in
			rts := []string{"list", "vector", "nil"}
			if fnw == "upcase" {
				rts = append(rts, "string")
			}
			rt := rts[p.n(len(rts))]
			b.arg("'"+rt, "rtype="+rt)
			if rt == "nil" {
				b.pos[len(b.pos)-1] = "nil"
			} else {
				want = "seq"
			}
		}
		if f.fam == "mapcar" {
			want = "seq"
		}
		b.arg(fnl, "fn="+fnw)
		b.pos = append(b.pos, lisps...)
		b.fields = append(b.fields, "seqs="+strings.Join(wires, ";"))
		return b.done(kind, want, "", sweep), true
	case "reduce":
		s := mkSeq(seqLen)
		var fns []string
		switch key.to {
		case "int":
			fns = []string{"+", "-", "list", "cons", "max"}
		default:
			fns = []string{"list", "cons"}
		}
		fnw := fns[p.n(len(fns))]
		b.arg("", "")
		b.arg(s.lisp(), "seq="+s.wire())
		addKey()
		st, en := c14Bounds(b, p, use, "start", "end", len(s.elems), sweep)
		fromEnd()
		if c14Has(use, "init") {
			iv := image[p.n(len(image))]
			b.kw("initial-value", iv.lisp(), "init="+iv.wire())
			b.keys[len(b.keys)-1] = "init"
		} else if en-st == 0 && fnw != "+" {
			// an empty subsequence without :initial-value calls the function with no arguments:
			// only functions with a zero-argument value are in the quantifier
			fnw = "list"
		}
		b.pos[0] = c14FnLisp(fnw)
		b.fields = append(b.fields, "fn="+fnw)
		cs := b.done(kind, "obj", "", sweep)
		if en-st == 0 && !c14Has(use, "init") {
			cs.Class = "empty-no-init"
		}
		return cs, true
	case "concatenate":
		n := 1 + p.n(3)
		if sweep {
			n = 1 + p.n(2)
		}
		var wires, lisps []string
		allChar := t.name == "char"
		for i := 0; i < n; i++ {
			k := kind
			if i > 0 {
				k = []string{"list", "vector", "string"}[p.n(3)]
			}
			tt := t
			if k == "string" {
				tt = c14TChar
			}
			if k == "vector" && tt.name != "int" && tt.name != "sym" && tt.name != "char" {
				tt = c14TInt
			}
			if tt.name != "char" {
				allChar = false
			}
			var s c14Seq
			if sweepSeqs {
				s = c14SweepSeq(tt, k, p)
			} else {
				s = c14RandomSeq(p, tt, k, func() int {
					if i == 0 {
						return seqLen
					}
					return p.n(5)
				}())
			}
			wires = append(wires, s.wire())
			lisps = append(lisps, s.lisp())
		}
		rts := []string{"list", "vector"}
		if allChar {
			rts = append(rts, "string")
		}
		rt := rts[p.n(len(rts))]
		b.arg("'"+rt, "rtype="+rt)
		b.pos = append(b.pos, lisps...)
		b.fields = append(b.fields, "seqs="+strings.Join(wires, ";"))
		return b.done(kind, "seq", "", sweep), true
	}
	return c14Case{}, false
}

// the fixed sequences of the sweep (x0..x3 = the alphabet of the element type)
func c14SweepSeq(t c14Type, kind string, p c14Pick) c14Seq {
	shapes := [][]int{{}, {0}, {1, 0, 0}, {0, 1, 0, 2, 0}, {1, 2}}
	sh := shapes[p.n(len(shapes))]
	s := c14Seq{kind: kind}
	for _, i := range sh {
		s.elems = append(s.elems, t.alpha[i])
	}
	return s
}

// ---------------------------------------------------------------------------------------------
// signatures and known findings

func c14Family(fn string) string {
	base := strings.TrimSuffix(strings.TrimSuffix(fn, "-if-not"), "-if")
	switch base {
	case "find", "position", "count", "remove", "delete", "remove-duplicates", "delete-duplicates":
		return "seqfunvars"
	case "substitute", "nsubstitute":
		return "substitute"
	case "member", "assoc", "rassoc":
		return base
	case "search", "mismatch":
		return base
	case "union", "intersection", "set-difference", "subsetp", "nunion", "nintersection", "nset-difference":
		return "set:" + base
	}
	return base
}

func c14Signature(cs c14Case, aspect string) string {
	switch {
	case aspect == "undefined-function":
		return fmt.Sprintf("fn=%s aspect=undefined-function", cs.Fn)
	case aspect == "unsupported-keyword:test-not":
		return fmt.Sprintf("family=%s keyword=test-not aspect=unsupported-keyword", c14Family(cs.Fn))
	}
	if cs.Class != "" {
		return fmt.Sprintf("fn=%s seq=%s class=%s aspect=%s", cs.Fn, cs.Kind, cs.Class, aspect)
	}
	return fmt.Sprintf("fn=%s seq=%s keys=%s aspect=%s", cs.Fn, cs.Kind, strings.Join(cs.Keys, "+"), aspect)
}

// listed findings as (fn, seq, keyset) for the avoidance rule
type c14Listed struct {
	fn, seq, family string
	class           string
	keys            []string
	undefined       bool
	testnot         bool
}

func c14ListedFindings(c *lib.Ctx) []c14Listed {
	var out []c14Listed
	for _, f := range c.Findings.Findings {
		if f.Property != "C14" {
			continue
		}
		l := c14Listed{}
		for _, w := range strings.Fields(f.Signature) {
			k, v, _ := strings.Cut(w, "=")
			switch k {
			case "fn":
				l.fn = v
			case "seq":
				l.seq = v
			case "family":
				l.family = v
			case "class":
				l.class = v
			case "keys":
				if v != "" {
					l.keys = strings.Split(v, "+")
				}
			case "aspect":
				l.undefined = v == "undefined-function"
			case "keyword":
				l.testnot = v == "test-not"
			}
		}
		out = append(out, l)
	}
	return out
}

// c14Avoid: composite cases (and sweep cells with more keywords than a listed cell) stay away from
// listed constructs: same function and sequence kind with a keyword set containing the listed one.
func c14Avoid(listed []c14Listed, fn, kind string, keys []string, strict bool) bool {
	for _, l := range listed {
		if l.class != "" {
			continue // input classes are matched by c14AvoidClass
		}
		if l.undefined && l.fn == fn {
			return strict || len(keys) > 0 // the sweep keeps only the bare call of an undefined function
		}
		if l.testnot {
			if l.family == c14Family(fn) && c14Has(keys, "test-not") {
				return strict || len(keys) > 1
			}
			continue
		}
		if l.fn != fn || l.seq != kind {
			continue
		}
		sub := true
		for _, k := range l.keys {
			if !c14Has(keys, k) {
				sub = false
			}
		}
		if sub && (strict || len(keys) > len(l.keys)) {
			return true
		}
	}
	return false
}

func c14AvoidClass(listed []c14Listed, cs c14Case) bool {
	for _, l := range listed {
		if l.class != "" && l.class == cs.Class && l.fn == cs.Fn && l.seq == cs.Kind {
			return true
		}
	}
	return false
}

// ---------------------------------------------------------------------------------------------
// running

type c14Obs struct {
	ok    bool
	wire  string
	class string
	msg   string
	fault bool
}

func c14Impl(scope *slip.Scope, cs c14Case) c14Obs {
	o := lib.EvalString(scope, cs.Src)
	if !o.Ok {
		return c14Obs{class: o.Class, msg: o.Msg, fault: o.GoFault}
	}
	return c14Obs{ok: true, wire: c14Wire(o.Value, cs.Want)}
}

func (o c14Obs) String() string {
	if o.ok {
		return "ok " + o.wire
	}
	return "err " + o.class + " (" + o.msg + ")"
}

// c14Aspect compares one observation with the model reply; "" = agreement
func c14Aspect(cs c14Case, obs c14Obs, model string, checkReply string) string {
	mOK := strings.HasPrefix(model, "ok ")
	if !obs.ok {
		if obs.fault {
			return "go-fault"
		}
		if !mOK {
			return "" // both reject (condition classes are C09's business)
		}
		if obs.class == "undefined-function" && strings.Contains(obs.msg, "Function "+cs.Fn+" ") {
			return "undefined-function"
		}
		if c14Has(cs.Keys, "test-not") && obs.class == "type-error" && strings.Contains(obs.msg, "keyword") {
			return "unsupported-keyword:test-not"
		}
		return "condition:" + obs.class
	}
	if !mOK {
		return "no-condition"
	}
	mw := strings.TrimPrefix(model, "ok ")
	if cs.Check != "" {
		if checkReply == "ok t" {
			return ""
		}
		if len(obs.wire) > 0 && len(mw) > 0 && obs.wire[0] != mw[0] {
			return "wrong-kind"
		}
		return "relation"
	}
	if obs.wire == mw {
		return ""
	}
	if cs.Want == "seq" && len(obs.wire) > 1 && len(mw) > 1 && obs.wire[0] != mw[0] && obs.wire[1:] == mw[1:] {
		return "wrong-kind"
	}
	return "wrong-value"
}

func c14CheckReq(cs c14Case, obs c14Obs) string {
	// "seq <entry> fields…" -> "seq <check> fields… result=<wire>"
	w := strings.SplitN(cs.Req, " ", 3)
	rest := ""
	if len(w) > 2 {
		rest = w[2]
	}
	return "seq " + cs.Check + " " + rest + " result=" + obs.wire
}

func c14Nontrivial(cs c14Case) bool {
	if len(cs.Keys) >= 2 {
		return true
	}
	// length >= 3: count elements of the first sequence field
	i := strings.Index(cs.Req, "seq=")
	if i < 0 {
		i = strings.Index(cs.Req, "seqs=")
	}
	if i < 0 {
		return false
	}
	f := strings.Fields(cs.Req[i:])[0]
	return strings.Count(f, ",") >= 2
}

func c14Replay(c *lib.Ctx) {
	var rec map[string]any
	if err := lib.ReadJSON(c.Replay, &rec); err != nil {
		fmt.Println("cannot read replay file:", err)
		return
	}
	raw, _ := rec["case"].(map[string]any)
	if raw == nil {
		fmt.Println("replay file has no case")
		return
	}
	gs := func(k string) string { s, _ := raw[k].(string); return s }
	cs := c14Case{Fn: gs("fn"), Kind: gs("kind"), Src: gs("src"), Req: gs("req"), Want: gs("want"), Check: gs("check")}
	if ks, ok := raw["keys"].([]any); ok {
		for _, k := range ks {
			cs.Keys = append(cs.Keys, fmt.Sprint(k))
		}
	}
	obs := c14Impl(slip.NewScope(), cs)
	model := c.Model([]string{cs.Req})[0]
	check := ""
	if cs.Check != "" && obs.ok && strings.HasPrefix(obs.wire, "?") == false {
		check = c.Model([]string{c14CheckReq(cs, obs)})[0]
	}
	fmt.Printf("replay %s\n  implementation: %s   = %s\n  model         : %s   = %s\n", cs.Src, obs, c14Pretty(obs.String()), model, c14Pretty(model))
	if cs.Check != "" {
		fmt.Printf("  relation %s on the implementation's result: %s\n", cs.Check, check)
	}
	if a := c14Aspect(cs, obs, model, check); a != "" {
		c.Report(c14Signature(cs, a), false, map[string]any{"input": cs.Src, "observed": obs.String(), "expected": model})
	}
}

func runC14(c *lib.Ctx) {
	if c.Replay != "" {
		c14Replay(c)
		return
	}
	listed := c14ListedFindings(c)
	funs := c14Funs()
	var cases []c14Case
	seenSrc := map[string]bool{}
	add := func(cs c14Case) {
		if seenSrc[cs.Src] {
			return
		}
		seenSrc[cs.Src] = true
		cs.Nontriv = c14Nontrivial(cs)
		cases = append(cases, cs)
	}

	// --- single-cause sweep: function x sequence kind x element type x keyword subsets of size <= 2,
	//     exhaustively over the fixed sequences and the boundary values of each keyword
	for _, f := range funs {
		for _, kind := range f.kinds {
			for _, t := range c14TypesFor(kind) {
				var subsets [][]string
				subsets = append(subsets, nil)
				for i, a := range f.kws {
					subsets = append(subsets, []string{a})
					for _, b2 := range f.kws[i+1:] {
						subsets = append(subsets, []string{a, b2})
					}
				}
				for _, use := range subsets {
					en := &c14Enum{}
					for n := 0; n < 400; n++ {
						en.pos = 0
						cs, ok := c14Build(f, kind, t, 0, use, en, true, true)
						// a cell whose keyword set strictly contains a listed cell is not generated
						if ok && !c14Avoid(listed, cs.Fn, cs.Kind, cs.Keys, false) {
							add(cs)
						}
						if !en.next() {
							break
						}
					}
				}
			}
		}
		// the empty list written as nil
		if c14Has(f.kinds, "list") && !c14Avoid(listed, f.name, "nil", nil, false) {
			en := &c14Enum{}
			for n := 0; n < 40; n++ {
				en.pos = 0
				cs, ok := c14Build(f, "list", c14TInt, 0, nil, en, true, true)
				if ok && strings.Contains(cs.Src, "'()") {
					cs.Src = strings.ReplaceAll(cs.Src, "'()", "nil")
					cs.Kind = "nil"
					add(cs)
				}
				if !en.next() {
					break
				}
			}
		}
	}
	nSweep := len(cases)

	// --- composite: random function, kind, element type, length 0..8, any keyword subset, in-range values
	nRandom := c.Scale(150000, 4000000)
	pick := c14Rand{c.Rng}
	for i := 0; i < nRandom; i++ {
		f := funs[c.Rng.Intn(len(funs))]
		kind := f.kinds[c.Rng.Intn(len(f.kinds))]
		ts := c14TypesFor(kind)
		t := ts[c.Rng.Intn(len(ts))]
		var use []string
		for _, k := range f.kws {
			if c.Rng.Chance(40) {
				use = append(use, k)
			}
		}
		n := c.Rng.Intn(9)
		if f.fam == "sort" && c.Rng.Chance(50) {
			// Go's sort.Slice is an insertion sort (stable) up to 12 elements: instability of a
			// sort can only show on longer sequences, so the sort family also gets lengths up to 48
			n = 9 + c.Rng.Intn(40)
		}
		cs, ok := c14Build(f, kind, t, n, use, pick, false, false)
		if !ok || c14Avoid(listed, cs.Fn, cs.Kind, cs.Keys, true) || c14AvoidClass(listed, cs) {
			continue
		}
		add(cs)
	}
	nComposite := len(cases) - nSweep

	// --- thorough: every sequence of length <= 4 over the 4-symbol alphabet for the scan families,
	//     with every in-range (start, end), both directions and counts
	if c.Thorough() {
		c14Exhaustive(funs, listed, add)
	}
	nExh := len(cases) - nSweep - nComposite

	// --- run
	reqs := make([]string, len(cases))
	for i, cs := range cases {
		reqs[i] = cs.Req
	}
	replies := c.Model(reqs)
	scope := slip.NewScope()
	obs := make([]c14Obs, len(cases))
	var checkIdx []int
	var checkReqs []string
	for i, cs := range cases {
		obs[i] = c14Impl(scope, cs)
		if cs.Check != "" && obs[i].ok && !strings.HasPrefix(obs[i].wire, "?") && strings.HasPrefix(replies[i], "ok ") {
			checkIdx = append(checkIdx, i)
			checkReqs = append(checkReqs, c14CheckReq(cs, obs[i]))
		}
	}
	checkReplies := map[int]string{}
	for j, r := range c.Model(checkReqs) {
		checkReplies[checkIdx[j]] = r
	}
	agree := 0
	for i, cs := range cases {
		c.Ev.Case(cs.Src, cs.Nontriv)
		c.Ev.Hist("fn", cs.Fn)
		c.Ev.Hist("kind", cs.Kind)
		c.Ev.Hist("nkeys", fmt.Sprint(len(cs.Keys)))
		if obs[i].ok {
			c.Ev.Hist("outcome", "value")
		} else {
			c.Ev.Hist("outcome", "condition:"+obs[i].class)
		}
		if i%(len(cases)/12+1) == 0 {
			c.Ev.Sample(map[string]string{"case": cs.Src, "impl": obs[i].String(), "model": replies[i]})
		}
		a := c14Aspect(cs, obs[i], replies[i], checkReplies[i])
		if a == "" {
			agree++
			continue
		}
		expected := replies[i]
		from := "model:seq." + c14Entry(cs.Fn)
		if cs.Check != "" {
			expected = "any result accepted by " + cs.Check + ", e.g. " + replies[i]
		}
		c.Report(c14Signature(cs, a), cs.Sweep, map[string]any{"input": cs.Src, "case": cs, "observed": obs[i].String(),
			"expected": expected, "observed_lisp": c14Pretty(obs[i].String()), "expected_lisp": c14Pretty(replies[i]),
			"expected_from": from, "relies_on": []string{"SlipVerif.Theorems.C14"}})
	}
	if path := os.Getenv("VERIF_C14_DUMP"); path != "" {
		// triage aid: one line per distinct signature (never read by the check)
		var sb strings.Builder
		for _, v := range c.Violations {
			fmt.Fprintf(&sb, "%s\t%v\t%v\t%v\n", v.Signature, v.Replay["input"], v.Replay["observed"], v.Replay["expected"])
		}
		_ = os.WriteFile(path, []byte(sb.String()), 0o644)
	}
	c.Ev.Coverage["traces_validated_against_impl"] = len(cases)
	c.Ev.Coverage["agreements"] = agree
	c.Ev.Coverage["sweep_cases"] = nSweep
	c.Ev.Coverage["composite_cases"] = nComposite
	c.Ev.Coverage["exhaustive_cases"] = nExh
	c.Ev.Coverage["relation_checks"] = len(checkReqs)
	c.Ev.Coverage["rule"] = "case = one call (function, sequence(s), keyword arguments); distinct by source text; non-trivial = at least 2 keywords present or first sequence of length >= 3; sweep = function x sequence kind x element type x keyword subsets of size <= 2 over 5 fixed sequences and boundary values (seed independent); composite = random call with any keyword subset, lengths 0..8 over 4-symbol alphabets; thorough adds all sequences of length <= 4 for the scan families"
}

// c14Exhaustive: all sequences of length <= 4 over the alphabet for the scan families.
func c14Exhaustive(funs []c14Fun, listed []c14Listed, add func(c14Case)) {
	type combo struct {
		fn   string
		kind string
		t    c14Type
	}
	var combos []combo
	for _, fn := range []string{"find", "position", "count", "remove", "delete", "substitute", "remove-duplicates", "position-if", "remove-if", "count-if", "find-if", "substitute-if"} {
		combos = append(combos, combo{fn, "list", c14TSym}, combo{fn, "vector", c14TSym}, combo{fn, "string", c14TChar})
	}
	for _, cb := range combos {
		var f c14Fun
		for _, g := range funs {
			if g.name == cb.fn {
				f = g
			}
		}
		counts := []string{""}
		if f.fam == "scanc" {
			counts = []string{"", "0", "1", "2"}
		}
		for n := 0; n <= 4; n++ {
			total := 1
			for i := 0; i < n; i++ {
				total *= 4
			}
			for code := 0; code < total; code++ {
				s := c14Seq{kind: cb.kind}
				x := code
				for i := 0; i < n; i++ {
					s.elems = append(s.elems, cb.t.alpha[x%4])
					x /= 4
				}
				for start := 0; start <= n; start++ {
					for end := start; end <= n; end++ {
						for _, fe := range []bool{false, true} {
							for _, cnt := range counts {
								b := &c14Builder{fn: cb.fn}
								if strings.HasPrefix(cb.fn, "substitute") {
									b.arg(cb.t.alpha[3].lisp(), "new="+cb.t.alpha[3].wire())
								}
								switch f.mode {
								case "item":
									b.arg(cb.t.alpha[0].lisp(), "item="+cb.t.alpha[0].wire())
								case "if":
									w, l := c14EqTo(cb.t.alpha[0])
									b.arg(l, "pred="+w)
								}
								b.arg(s.lisp(), "seq="+s.wire())
								if start > 0 {
									b.kw("start", fmt.Sprint(start), fmt.Sprintf("start=%d", start))
								}
								if end < n {
									b.kw("end", fmt.Sprint(end), fmt.Sprintf("end=%d", end))
								}
								if fe {
									b.kw("from-end", "t", "fromend=t")
								}
								if cnt != "" {
									b.kw("count", cnt, "count="+cnt)
								}
								want := "seq"
								if strings.HasPrefix(cb.fn, "find") || strings.HasPrefix(cb.fn, "position") || strings.HasPrefix(cb.fn, "count") {
									want = "obj"
								}
								cs := b.done(cb.kind, want, "", false)
								if c14Avoid(listed, cs.Fn, cs.Kind, cs.Keys, true) {
									continue
								}
								add(cs)
							}
						}
					}
				}
			}
		}
	}
}
