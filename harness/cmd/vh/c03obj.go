package main

// C03 object universe: a harness-side description of "readable data" that can be turned into a
// real slip object (built directly in Go, the reader is not involved), into a wire term for the
// Lean model (SlipVerif.Model.Printer) and back (replay).

import (
	"fmt"
	"math"
	"math/big"
	"strconv"
	"strings"

	"github.com/ohler55/slip"
	"verif/harness/lib"
)

type c3Obj struct {
	kind  string // nil t int ratio str chr sym list vec arr sflt dflt lflt elist; mflt = a float as the model read it
	n, d  *big.Int
	s     string // str / sym text, lflt source text, mflt format (s d l)
	neg   bool   // mflt
	digits string // mflt: significant digits
	exp   int    // mflt: decimal exponent of the first digit
	r     rune
	elems []*c3Obj // list / vec / arr (row-major)
	tail  *c3Obj   // list: non-nil atom for a dotted list
	dims  []int    // arr
	f     float64  // sflt / dflt
}

func c3Nil() *c3Obj { return &c3Obj{kind: "nil"} }
func c3T() *c3Obj   { return &c3Obj{kind: "t"} }
func c3Int(n *big.Int) *c3Obj {
	return &c3Obj{kind: "int", n: new(big.Int).Set(n)}
}
func c3I(n int64) *c3Obj { return c3Int(big.NewInt(n)) }
func c3Ratio(n, d *big.Int) *c3Obj {
	r := new(big.Rat).SetFrac(n, d)
	if r.IsInt() {
		return c3Int(r.Num())
	}
	return &c3Obj{kind: "ratio", n: new(big.Int).Set(r.Num()), d: new(big.Int).Set(r.Denom())}
}
func c3Str(s string) *c3Obj { return &c3Obj{kind: "str", s: s} }
func c3Sym(s string) *c3Obj { return &c3Obj{kind: "sym", s: s} }
func c3Chr(r rune) *c3Obj   { return &c3Obj{kind: "chr", r: r} }
func c3List(elems ...*c3Obj) *c3Obj {
	if len(elems) == 0 {
		return c3Nil()
	}
	return &c3Obj{kind: "list", elems: elems}
}
func c3Dotted(tail *c3Obj, elems ...*c3Obj) *c3Obj {
	return &c3Obj{kind: "list", elems: elems, tail: tail}
}
func c3Vec(elems ...*c3Obj) *c3Obj { return &c3Obj{kind: "vec", elems: elems} }
func c3Arr(dims []int, elems []*c3Obj) *c3Obj {
	return &c3Obj{kind: "arr", dims: dims, elems: elems}
}
func c3Single(f float32) *c3Obj { return &c3Obj{kind: "sflt", f: float64(f)} }
func c3Double(f float64) *c3Obj { return &c3Obj{kind: "dflt", f: f} }
func c3Long(text string) *c3Obj { return &c3Obj{kind: "lflt", s: text} }

func (o *c3Obj) isAtom() bool {
	switch o.kind {
	case "list", "vec", "arr":
		return false
	}
	return true
}

func (o *c3Obj) hasFloat() bool {
	switch o.kind {
	case "sflt", "dflt", "lflt":
		return true
	}
	for _, e := range o.elems {
		if e.hasFloat() {
			return true
		}
	}
	return o.tail != nil && o.tail.hasFloat()
}

// has reports whether some node of the object satisfies pred.
func (o *c3Obj) has(pred func(*c3Obj) bool) bool {
	if pred(o) {
		return true
	}
	for _, e := range o.elems {
		if e.has(pred) {
			return true
		}
	}
	return o.tail != nil && o.tail.has(pred)
}

// altReadable: the printed text means the same under every *read-base* when numbers carry a radix
// prefix: no symbol (a bare symbol is barred against the numbers of base 10 and of the print base only).
func (o *c3Obj) altReadable() bool {
	return !o.has(func(x *c3Obj) bool { return x.kind == "sym" || x.kind == "raw" || x.kind == "elist" })
}

func (o *c3Obj) depth() int {
	d := 0
	for _, e := range o.elems {
		if x := e.depth(); x > d {
			d = x
		}
	}
	if o.isAtom() {
		return 0
	}
	return d + 1
}

// object builds a fresh slip object.
func (o *c3Obj) object() slip.Object {
	switch o.kind {
	case "nil":
		return nil
	case "elist":
		return slip.List{}
	case "t":
		return slip.True
	case "int":
		if o.n.IsInt64() {
			return slip.Fixnum(o.n.Int64())
		}
		return (*slip.Bignum)(new(big.Int).Set(o.n))
	case "ratio":
		return (*slip.Ratio)(new(big.Rat).SetFrac(o.n, o.d))
	case "str":
		return slip.String(o.s)
	case "sym":
		return slip.Symbol(o.s)
	case "chr":
		return slip.Character(o.r)
	case "sflt":
		return slip.SingleFloat(float32(o.f))
	case "dflt":
		return slip.DoubleFloat(o.f)
	case "lflt":
		// a long float is "readable data": it is whatever the reader makes of its text
		code := slip.ReadString(o.s, slip.NewScope())
		return code[0]
	case "list":
		l := make(slip.List, 0, len(o.elems)+1)
		for _, e := range o.elems {
			l = append(l, e.object())
		}
		if o.tail != nil {
			l = append(l, slip.Tail{Value: o.tail.object()})
		}
		return l
	case "vec":
		l := make(slip.List, 0, len(o.elems))
		for _, e := range o.elems {
			l = append(l, e.object())
		}
		// the same constructor call the reader uses for #( … )
		return slip.NewVector(len(l), slip.TrueSymbol, nil, l, true)
	case "arr":
		a := slip.NewArray(append([]int{}, o.dims...), slip.TrueSymbol, nil, nil, false)
		for i, e := range o.elems {
			a.MajorSet(i, e.object())
		}
		return a
	}
	panic("c3Obj.object: " + o.kind)
}

// term renders the harness' own term (replay files; floats by their bits / source text).
func (o *c3Obj) term() string {
	var b strings.Builder
	o.appendTerm(&b, false)
	return b.String()
}

// modelTerm renders the term for the model driver: a float is the decimal its shortest formatting
// names (f:<s|d|l>:<negative>:<digits>:<exponent>).
func (o *c3Obj) modelTerm() string {
	var b strings.Builder
	o.appendTerm(&b, true)
	return b.String()
}

// c3SplitE takes the text of the `e` format with the shortest digits ("-1.25e+07") apart.
func c3SplitE(text string) (neg bool, digits string, exp int, ok bool) {
	t := text
	if strings.HasPrefix(t, "-") {
		neg, t = true, t[1:]
	}
	mant, es, found := strings.Cut(t, "e")
	if !found {
		return false, "", 0, false
	}
	e, err := strconv.Atoi(es)
	if err != nil {
		return false, "", 0, false
	}
	digits = strings.Replace(mant, ".", "", 1)
	for _, c := range digits {
		if c < '0' || c > '9' {
			return false, "", 0, false
		}
	}
	if strings.Trim(digits, "0") == "" {
		return neg, "", 0, true
	}
	return neg, digits, e, true
}

// decimal: the canonical decimal of a finite float (what strconv / big.Float write with the
// shortest digits); ok is false for NaN and the infinities.
func (o *c3Obj) decimal() (format string, neg bool, digits string, exp int, ok bool) {
	switch o.kind {
	case "sflt":
		neg, digits, exp, ok = c3SplitE(strconv.FormatFloat(float64(float32(o.f)), 'e', -1, 32))
		return "s", neg, digits, exp, ok
	case "dflt":
		neg, digits, exp, ok = c3SplitE(strconv.FormatFloat(o.f, 'e', -1, 64))
		return "d", neg, digits, exp, ok
	case "lflt":
		lf, isLong := o.object().(*slip.LongFloat)
		if !isLong {
			return "l", false, "", 0, false
		}
		neg, digits, exp, ok = c3SplitE((*big.Float)(lf).Text('e', -1))
		return "l", neg, digits, exp, ok
	case "mflt":
		return o.s, o.neg, o.digits, o.exp, true
	}
	return "", false, "", 0, false
}

func (o *c3Obj) isFloat() bool {
	return o.kind == "sflt" || o.kind == "dflt" || o.kind == "lflt" || o.kind == "mflt"
}

func (o *c3Obj) appendTerm(b *strings.Builder, model bool) {
	if model && o.isFloat() {
		format, neg, digits, exp, ok := o.decimal()
		if !ok {
			b.WriteString("f:?")
			return
		}
		if digits == "" {
			digits = "-"
		}
		n := "0"
		if neg {
			n = "1"
		}
		fmt.Fprintf(b, "f:%s:%s:%s:%d", format, n, digits, exp)
		return
	}
	switch o.kind {
	case "nil":
		b.WriteString("n")
	case "elist":
		b.WriteString("e")
	case "t":
		b.WriteString("t")
	case "int":
		b.WriteString("i:" + o.n.String())
	case "ratio":
		b.WriteString("r:" + o.n.String() + "/" + o.d.String())
	case "str":
		b.WriteString("s:" + lib.Hex(o.s))
	case "sym":
		b.WriteString("y:" + lib.Hex(o.s))
	case "chr":
		b.WriteString("c:" + strconv.Itoa(int(o.r)))
	case "sflt":
		b.WriteString(fmt.Sprintf("fs:%x", math.Float32bits(float32(o.f))))
	case "dflt":
		b.WriteString(fmt.Sprintf("fd:%x", math.Float64bits(o.f)))
	case "lflt":
		b.WriteString("fl:" + lib.Hex(o.s))
	case "mflt":
		fmt.Fprintf(b, "f:%s:%v:%s:%d", o.s, o.neg, o.digits, o.exp)
	case "list":
		b.WriteString("(")
		for _, e := range o.elems {
			b.WriteByte(' ')
			e.appendTerm(b, model)
		}
		if o.tail != nil {
			b.WriteString(" . ")
			o.tail.appendTerm(b, model)
		}
		b.WriteString(" )")
	case "vec":
		b.WriteString("v(")
		for _, e := range o.elems {
			b.WriteByte(' ')
			e.appendTerm(b, model)
		}
		b.WriteString(" )")
	case "arr":
		b.WriteString("a:" + strconv.Itoa(len(o.dims)) + " ")
		o.arrContents(b, 0, 0, model)
	}
}

// arrContents writes the nested-list contents of an array (what slip's AsList yields).
func (o *c3Obj) arrContents(b *strings.Builder, di, ei int, model bool) int {
	if len(o.dims) == 0 {
		// rank 0: the single element
		if len(o.elems) > 0 {
			o.elems[0].appendTerm(b, model)
		} else {
			b.WriteString("n")
		}
		return 1
	}
	if o.dims[di] == 0 {
		b.WriteString("n")
		return ei
	}
	b.WriteString("(")
	for i := 0; i < o.dims[di]; i++ {
		b.WriteByte(' ')
		if di == len(o.dims)-1 {
			o.elems[ei].appendTerm(b, model)
			ei++
		} else {
			ei = o.arrContents(b, di+1, ei, model)
		}
	}
	b.WriteString(" )")
	return ei
}

// c3ParseTerm parses a wire term (replay files, model replies).
func c3ParseTerm(text string) (*c3Obj, error) {
	words := strings.Fields(text)
	o, rest, err := c3ParseWords(words)
	if err != nil {
		return nil, err
	}
	if len(rest) != 0 {
		return nil, fmt.Errorf("trailing words %v", rest)
	}
	return o, nil
}

func c3ParseWords(w []string) (*c3Obj, []string, error) {
	if len(w) == 0 {
		return nil, nil, fmt.Errorf("empty term")
	}
	head, rest := w[0], w[1:]
	parseSeq := func(rest []string) ([]*c3Obj, *c3Obj, []string, error) {
		var elems []*c3Obj
		var tail *c3Obj
		for {
			if len(rest) == 0 {
				return nil, nil, nil, fmt.Errorf("unterminated sequence")
			}
			if rest[0] == ")" {
				return elems, tail, rest[1:], nil
			}
			if rest[0] == "." {
				t, r2, err := c3ParseWords(rest[1:])
				if err != nil {
					return nil, nil, nil, err
				}
				tail, rest = t, r2
				continue
			}
			e, r2, err := c3ParseWords(rest)
			if err != nil {
				return nil, nil, nil, err
			}
			elems = append(elems, e)
			rest = r2
		}
	}
	switch {
	case head == "n":
		return c3Nil(), rest, nil
	case head == "e":
		return &c3Obj{kind: "elist"}, rest, nil
	case head == "t":
		return c3T(), rest, nil
	case head == "(":
		elems, tail, r2, err := parseSeq(rest)
		if err != nil {
			return nil, nil, err
		}
		return &c3Obj{kind: "list", elems: elems, tail: tail}, r2, nil
	case head == "v(":
		elems, _, r2, err := parseSeq(rest)
		if err != nil {
			return nil, nil, err
		}
		return c3Vec(elems...), r2, nil
	case strings.HasPrefix(head, "a:"):
		rank, err := strconv.Atoi(head[2:])
		if err != nil {
			return nil, nil, err
		}
		contents, r2, err := c3ParseWords(rest)
		if err != nil {
			return nil, nil, err
		}
		dims := make([]int, rank)
		var elems []*c3Obj
		var walk func(o *c3Obj, di int) error
		walk = func(o *c3Obj, di int) error {
			n := 0
			if o.kind == "list" {
				n = len(o.elems)
			} else if o.kind != "nil" {
				return fmt.Errorf("array contents are not nested lists")
			}
			dims[di] = n
			for _, e := range o.elems {
				if di == rank-1 {
					elems = append(elems, e)
				} else if err := walk(e, di+1); err != nil {
					return err
				}
			}
			return nil
		}
		if rank > 0 {
			if err := walk(contents, 0); err != nil {
				return nil, nil, err
			}
		} else {
			elems = []*c3Obj{contents}
		}
		return c3Arr(dims, elems), r2, nil
	}
	k, v, ok := strings.Cut(head, ":")
	if !ok {
		return nil, nil, fmt.Errorf("bad word %q", head)
	}
	switch k {
	case "i":
		n, ok := new(big.Int).SetString(v, 10)
		if !ok {
			return nil, nil, fmt.Errorf("bad int %q", v)
		}
		return c3Int(n), rest, nil
	case "r":
		ns, ds, _ := strings.Cut(v, "/")
		n, ok1 := new(big.Int).SetString(ns, 10)
		d, ok2 := new(big.Int).SetString(ds, 10)
		if !ok1 || !ok2 || d.Sign() <= 0 {
			return nil, nil, fmt.Errorf("bad ratio %q", v)
		}
		return &c3Obj{kind: "ratio", n: n, d: d}, rest, nil
	case "s":
		return c3Str(lib.Unhex(v)), rest, nil
	case "y":
		return c3Sym(lib.Unhex(v)), rest, nil
	case "c":
		n, err := strconv.Atoi(v)
		if err != nil {
			return nil, nil, err
		}
		return c3Chr(rune(n)), rest, nil
	case "fs":
		bits, err := strconv.ParseUint(v, 16, 32)
		if err != nil {
			return nil, nil, err
		}
		return c3Single(math.Float32frombits(uint32(bits))), rest, nil
	case "fd":
		bits, err := strconv.ParseUint(v, 16, 64)
		if err != nil {
			return nil, nil, err
		}
		return c3Double(math.Float64frombits(bits)), rest, nil
	case "fl":
		return c3Long(lib.Unhex(v)), rest, nil
	case "f":
		// a float as the model gives it back: f:<format>:<negative>:<digits>:<exponent>
		parts := strings.Split(v, ":")
		if len(parts) != 4 {
			return nil, nil, fmt.Errorf("bad float word %q", head)
		}
		e, err := strconv.Atoi(parts[3])
		if err != nil {
			return nil, nil, err
		}
		digits := parts[2]
		if digits == "-" {
			digits = ""
		}
		return &c3Obj{kind: "mflt", s: parts[0], neg: parts[1] == "1" || parts[1] == "true", digits: digits, exp: e}, rest, nil
	}
	return nil, nil, fmt.Errorf("bad word %q", head)
}

// c3FromObject converts a slip object (a reader result) into the harness description; ok is false
// for objects outside the universe. Symbol case is kept as read.
func c3FromObject(x slip.Object) (*c3Obj, bool) {
	switch tx := x.(type) {
	case nil:
		return c3Nil(), true
	case slip.Fixnum:
		return c3I(int64(tx)), true
	case *slip.Bignum:
		return c3Int((*big.Int)(tx)), true
	case *slip.Ratio:
		r := (*big.Rat)(tx)
		return &c3Obj{kind: "ratio", n: new(big.Int).Set(r.Num()), d: new(big.Int).Set(r.Denom())}, true
	case slip.String:
		return c3Str(string(tx)), true
	case slip.Symbol:
		return c3Sym(string(tx)), true
	case slip.Character:
		return c3Chr(rune(tx)), true
	case slip.SingleFloat:
		return c3Single(float32(tx)), true
	case slip.DoubleFloat:
		return c3Double(float64(tx)), true
	case slip.List:
		if len(tx) == 0 {
			return &c3Obj{kind: "elist"}, true
		}
		o := &c3Obj{kind: "list"}
		for i, e := range tx {
			if t, isTail := e.(slip.Tail); isTail && i == len(tx)-1 {
				tv, ok := c3FromObject(t.Value)
				if !ok {
					return nil, false
				}
				o.tail = tv
				continue
			}
			ev, ok := c3FromObject(e)
			if !ok {
				return nil, false
			}
			o.elems = append(o.elems, ev)
		}
		return o, true
	case *slip.Vector:
		o := &c3Obj{kind: "vec"}
		for _, e := range tx.AsList() {
			ev, ok := c3FromObject(e)
			if !ok {
				return nil, false
			}
			o.elems = append(o.elems, ev)
		}
		return o, true
	case *slip.Array:
		o := &c3Obj{kind: "arr", dims: append([]int{}, tx.Dimensions()...)}
		for _, e := range tx.Elements() {
			ev, ok := c3FromObject(e)
			if !ok {
				return nil, false
			}
			o.elems = append(o.elems, ev)
		}
		return o, true
	}
	if x == slip.True {
		return c3T(), true
	}
	return nil, false
}

// c3TermEqualFold compares two float-free terms, symbols case-insensitively (slip's symbol
// equality folds case) and nil with the empty list object distinguished.
func c3SameTerm(a, b *c3Obj) bool {
	if a.isFloat() && b.isFloat() && (a.kind == "mflt" || b.kind == "mflt") {
		// a float against what the model read: same format and the same canonical decimal
		fa, na, da, ea, oka := a.decimal()
		fb, nb, db, eb, okb := b.decimal()
		return oka && okb && fa == fb && na == nb && da == db && ea == eb
	}
	if a.kind != b.kind {
		return false
	}
	switch a.kind {
	case "int":
		return a.n.Cmp(b.n) == 0
	case "ratio":
		return a.n.Cmp(b.n) == 0 && a.d.Cmp(b.d) == 0
	case "str":
		return a.s == b.s
	case "sym":
		return strings.EqualFold(a.s, b.s)
	case "chr":
		return a.r == b.r
	case "sflt", "dflt":
		return math.Float64bits(a.f) == math.Float64bits(b.f)
	case "lflt":
		return a.s == b.s
	}
	if len(a.elems) != len(b.elems) || len(a.dims) != len(b.dims) {
		return false
	}
	for i := range a.dims {
		if a.dims[i] != b.dims[i] {
			return false
		}
	}
	for i := range a.elems {
		if !c3SameTerm(a.elems[i], b.elems[i]) {
			return false
		}
	}
	if (a.tail == nil) != (b.tail == nil) {
		return false
	}
	return a.tail == nil || c3SameTerm(a.tail, b.tail)
}
