package main

// C18 — bag-compare with ignore paths (the package's own equality of bags, as a difference finder).
// Relations between the implementation's own answers, no model in the loop: whatever path is
// reported leads to nodes that differ and is not covered by an ignore; ignoring the reported
// location (as a list, a JSONPath text, a bag-path object, with a wildcard step, or through a
// prefix: an ignored location covers everything below it) never reports it again; ignoring a
// location elsewhere still finds a difference.

import (
	"fmt"

	"github.com/ohler55/slip"
	"github.com/ohler55/slip/pkg/flavors"
)

func lispPathOf(o slip.Object) (ppath, bool) {
	l, ok := o.(slip.List)
	if !ok {
		return nil, false
	}
	var cp ppath
	for _, e := range l {
		switch te := e.(type) {
		case slip.String:
			cp = append(cp, pstep{kind: 'k', key: string(te)})
		case slip.Fixnum:
			cp = append(cp, pstep{kind: 'x', idx: int(te)})
		default:
			return nil, false
		}
	}
	return cp, true
}

// ignoreObject renders an ignore path; form 0 list, 1 list with one wildcard (nil) step, 2 JSONPath
// text, 3 bag-path object (2 and 3 fall back to the list when the text form does not exist).
func ignoreObject(p ppath, form int, wildAt int) (slip.Object, ppath) {
	eff := append(ppath{}, p...)
	if form == 1 && len(eff) > 0 {
		eff[wildAt%len(eff)] = pstep{kind: '*'}
	}
	switch form {
	case 2:
		if s, ok := eff.str(wildAt%2 == 0); ok && len(eff) > 0 {
			return slip.String(s), eff
		}
	case 3:
		if len(eff) > 0 {
			return pathObject(eff, false, true), eff
		}
	}
	out := make(slip.List, 0, len(eff))
	for _, s := range eff {
		switch s.kind {
		case 'k':
			if wildAt%3 == 0 {
				out = append(out, slip.Symbol(s.key))
			} else {
				out = append(out, slip.String(s.key))
			}
		case 'x':
			out = append(out, slip.Fixnum(s.idx))
		default:
			out = append(out, nil)
		}
	}
	return out, eff
}

func ignoreCovers(ign, p ppath) bool {
	if len(ign) > len(p) {
		return false
	}
	for i, s := range ign {
		if s.kind == '*' {
			continue
		}
		if s != p[i] {
			return false
		}
	}
	return true
}

// checkCompareIgnores: a and b differ and (bag-compare a b) reported cp.
func (r *c18Run) checkCompareIgnores(cs *c18Case, a, b *flavors.Instance, cp ppath, variant int, steps, cell string) {
	if len(cp) == 0 {
		return
	}
	run := func(what string, ign ppath, form int, mustFind bool) {
		obj, eff := ignoreObject(ign, form, variant)
		if ignoreCovers(eff, cp) {
			mustFind = false
		}
		if sym, isSym := obj.(slip.List); isSym && len(sym) == 0 {
			return
		}
		o := r.impl.eval("(bag-compare c18-b c18-o (list c18-i))", map[string]slip.Object{"c18-b": a, "c18-o": b, "c18-i": obj})
		r.c.Ev.Hist("compare_ignore", what)
		if !o.Ok {
			r.check(cs, false, c18Diff{sig: sig("compare-ignore", steps, cell, "condition"), observed: "err " + o.Class + " " + o.Msg + " for ignore " + slip.ObjectString(obj),
				expected: "nil or a path", from: "impl:compare-ignores"})
			return
		}
		if o.Value == nil {
			r.check(cs, !mustFind, c18Diff{sig: sig("compare-ignore", steps, cell, what+"-hides-difference"),
				observed: fmt.Sprintf("ignoring %s: nil although the bags differ at %s", slip.ObjectString(obj), cp.show()), expected: "a path to a difference", from: "impl:compare-ignores"})
			return
		}
		rp, ok := lispPathOf(o.Value)
		if !ok {
			r.check(cs, false, c18Diff{sig: sig("compare-ignore", steps, cell, "not-a-path"), observed: slip.ObjectString(o.Value), expected: "nil or a list of strings and integers", from: "impl:compare-ignores"})
			return
		}
		r.check(cs, !ignoreCovers(eff, rp), c18Diff{sig: sig("compare-ignore", steps, cell, what+"-reported-anyway"),
			observed: fmt.Sprintf("ignoring %s: %s", slip.ObjectString(obj), slip.ObjectString(o.Value)), expected: "nil or a location outside the ignored one", from: "impl:compare-ignores"})
		n1, n2 := treeAt(a.Any, rp), treeAt(b.Any, rp)
		differs := n1 != n2
		if !differs && n1 == "absent" && len(rp) > 0 {
			// ojg names the first index past the shorter of two arrays of different length once the
			// differing element itself is ignored ([[1]] against [[1 2]] ignoring [0][1] => (0 2)): the
			// location exists in neither; the difference it stands for is the one of the parents
			differs = treeAt(a.Any, rp[:len(rp)-1]) != treeAt(b.Any, rp[:len(rp)-1])
			r.c.Ev.Hist("compare_ignore", "index-past-both-arrays")
		}
		r.check(cs, differs, c18Diff{sig: sig("compare-ignore", steps, cell, "path-does-not-differ"),
			observed: fmt.Sprintf("ignoring %s: %s where both hold %s", slip.ObjectString(obj), slip.ObjectString(o.Value), n1), expected: "a path to a difference", from: "impl:compare-ignores"})
	}
	form := variant % 4
	run("exact", cp, form, false)
	if len(cp) >= 2 {
		run("prefix", cp[:len(cp)-1], (form+1)%4, false)
	}
	// somewhere else: the last step replaced by one that names another child
	other := append(ppath{}, cp...)
	last := &other[len(other)-1]
	if last.kind == 'k' {
		last.key = last.key + "_other"
	} else {
		last.idx += 7
	}
	run("elsewhere", other, (form+2)%4, true)
}
